import Rare.Proofs.C20Main
/-! C20: one `WriteForLine` / `Close` through the terminal, and the invariant over a history. -/
namespace Rare.C20

def cfg (W : Nat) (trim : Bool) : Cfg := { E := handEsc, autoTrim := trim, cols := W }

theorem isAscii_repeat (n : Nat) (p : Bytes) (hp : IsAscii p) : IsAscii (repeatBytes n p) := by
  intro x hx
  simp only [repeatBytes, List.mem_flatten, List.mem_replicate] at hx
  obtain ⟨l, ⟨_, hl⟩, hx⟩ := hx
  subst hl
  exact hp x hx

theorem map_repeat (n : Nat) (p : Bytes) :
    (repeatBytes n p).map (·.toNat) = (List.replicate n (p.map (·.toNat))).flatten := by
  simp [repeatBytes, List.map_flatten, List.map_replicate]

theorem up1_bytes : moveUpf handEsc handEsc.upArg = [27, 91, 49, 65] := rfl

theorem isAscii_small (a : Bytes) (h : a.all (fun x => decide (x.toNat < 0x80)) = true) : IsAscii a := by
  intro x hx
  have := List.all_eq_true.mp h x hx
  simpa using this

/-- `goTo(line)` from a synchronised state: the terminal ends on row `r0 + line`, column 0 -/
theorem goTo_feed (w : TermWriter) (line : Nat) (t : Term) (r0 : Nat) (hps : t.ps = .ground)
    (hrow : (t.row : Int) = r0 + w.cursor) (hc : 0 ≤ w.cursor) (hH : r0 + line < t.height) :
    Clean (w.goTo handEsc line).2 ∧
    t.feedBytes (w.goTo handEsc line).2 = { t with row := r0 + line, col := 0 } := by
  have ha : IsAscii (w.goTo handEsc line).2 := by
    simp only [TermWriter.goTo, up1_bytes]
    intro x hx
    simp only [List.mem_append] at hx
    rcases hx with (hx | hx) | hx
    · exact isAscii_repeat _ _ (isAscii_small _ (by decide)) x hx
    · exact isAscii_repeat _ _ (isAscii_small _ (by decide)) x hx
    · exact isAscii_small _ (by decide) x hx
  refine ⟨Clean.asciiList _ ha, ?_⟩
  rw [Term.feedBytes, decodeUtf8_of_ascii _ ha]
  simp only [TermWriter.goTo, up1_bytes, List.map_append, map_repeat]
  by_cases hge : w.cursor ≤ (line : Int)
  · have hu : (w.cursor - (line : Int)).toNat = 0 := by omega
    rw [hu]
    simp only [List.replicate_zero, List.flatten_nil, List.append_nil]
    have : (List.replicate ((line : Int) - w.cursor).toNat (List.map (fun x : UInt8 => x.toNat) handEsc.nl)).flatten
        = List.replicate ((line : Int) - w.cursor).toNat 10 := by
      simp [handEsc]
    rw [this]
    have e : List.map (fun x : UInt8 => x.toNat) handEsc.cr = [13] := by simp [handEsc]
    rw [e, feed_downs _ t hps (by omega)]
    have : t.row + ((line : Int) - w.cursor).toNat = r0 + line := by omega
    rw [this]
  · have hd : ((line : Int) - w.cursor).toNat = 0 := by omega
    rw [hd]
    simp only [List.replicate_zero, List.flatten_nil, List.nil_append]
    have e : List.map (fun x : UInt8 => x.toNat) handEsc.cr = [13] := by simp [handEsc]
    have e2 : List.map (fun x : UInt8 => x.toNat) [27, 91, 49, 65] = [27, 91, 49, 65] := by decide
    rw [e, e2, feed_ups _ t hps (by omega)]
    have : t.row - (w.cursor - (line : Int)).toNat = r0 + line := by omega
    rw [this]

theorem goTo_clear (E : Esc) (w : TermWriter) (l : Int) : (w.goTo E l).1.clearLine = w.clearLine := rfl
theorem goTo_hidden (E : Esc) (w : TermWriter) (l : Int) : (w.goTo E l).1.cursorHidden = w.cursorHidden := rfl

theorem seq_hide : handEsc.seq handEsc.hide = [0x1b, 0x5b, 0x3f, 0x32, 0x35, 0x6c] := rfl
theorem seq_unhide : handEsc.seq handEsc.unhide = [0x1b, 0x5b, 0x3f, 0x32, 0x35, 0x68] := rfl
theorem seq_erase : handEsc.seq handEsc.erase = [0x1b, 0x5b, 0x30, 0x4b] := rfl

theorem clean_small (a : Bytes) (h : a.all (fun x => decide (x.toNat < 0x80)) = true) : Clean a :=
  Clean.asciiList a (isAscii_small a h)

theorem decode_small (a : Bytes) (h : a.all (fun x => decide (x.toNat < 0x80)) = true) :
    decodeUtf8 a = a.map (·.toNat) := decodeUtf8_of_ascii a (isAscii_small a h)

/-- One `WriteForLine(l, txt)` from a synchronised state. -/
theorem write_feed (W r0 : Nat) (trim : Bool) (w : TermWriter) (t : Term) (l : Nat) (txt : Bytes)
    (hps : t.ps = .ground) (hw : t.width = W) (hrow : (t.row : Int) = r0 + w.cursor) (hc : 0 ≤ w.cursor)
    (hH : r0 + l < t.height) (hclear : w.clearLine = true) (hhide : w.hideCursor = true)
    (hvis : t.cursorVisible = !w.cursorHidden) (htxt : TextOK W trim txt) :
    Clean (w.writeForLine (cfg W trim) l txt).2 ∧
    t.feedBytes (w.writeForLine (cfg W trim) l txt).2 =
      { t with cursorVisible := false, row := r0 + l, col := (shown W trim txt).length,
               rows := setRow t.rows (r0 + l) (shown W trim txt) } ∧
    (w.writeForLine (cfg W trim) l txt).1 =
      { w with cursorHidden := true, cursor := l, maxLine := if (l : Int) > w.maxLine then l else w.maxLine } := by
  obtain ⟨toks, hp, hclean, hdec, hshown, hlen⟩ := piece_spec W trim txt htxt
  obtain ⟨cursor, hidden, maxLine, clearLine, hideCursor⟩ := w
  simp only at hclear hhide hrow hc hvis
  subst hclear hhide
  have hpieceE : Clean (writeLineNoWrap handEsc trim W txt ++ handEsc.seq handEsc.erase) :=
    Clean.append hclean (clean_small _ (by decide))
  cases hidden with
  | false =>
    simp only [Bool.not_false] at hvis
    let s1 : TermWriter := ⟨cursor, true, maxLine, true, true⟩
    have hg := goTo_feed s1 l { t with cursorVisible := false } r0 hps hrow hc hH
    simp only [TermWriter.writeForLine, cfg, Bool.and_self, Bool.not_false, if_true, TermWriter.writeAtCursor,
      Bool.true_and, goTo_clear]
    refine ⟨?_, ?_, ?_⟩
    · exact Clean.append (Clean.append (clean_small _ (by decide)) hg.1) hpieceE
    · rw [List.append_assoc, feedBytes_append _ _ _ (clean_small _ (by decide))]
      rw [feedBytes_append _ _ _ hg.1]
      have h1 : t.feedBytes (handEsc.seq handEsc.hide) = { t with cursorVisible := false } := by
        rw [Term.feedBytes, seq_hide, decode_small _ (by decide)]
        exact feed_hide t hps
      rw [h1, hg.2]
      rw [Term.feedBytes, hclean, hdec, seq_erase, decode_small [0x1b, 0x5b, 0x30, 0x4b] (by decide)]
      have e2 : List.map (fun x : UInt8 => x.toNat) [0x1b, 0x5b, 0x30, 0x4b] = [27, 91, 48, 75] := by decide
      rw [e2, feed_line toks hp _ (by simpa using hps) (by rfl) (by simpa [hw] using hlen), hshown]
    · simp [TermWriter.goTo]
  | true =>
    simp only [Bool.not_true] at hvis
    let s1 : TermWriter := ⟨cursor, true, maxLine, true, true⟩
    have hg := goTo_feed s1 l t r0 hps hrow hc hH
    simp only [TermWriter.writeForLine, cfg, Bool.not_true, Bool.and_false, Bool.false_eq_true, if_false,
      TermWriter.writeAtCursor, if_true, List.nil_append, goTo_clear]
    refine ⟨?_, ?_, ?_⟩
    · exact Clean.append hg.1 hpieceE
    · rw [feedBytes_append _ _ _ hg.1, hg.2]
      rw [Term.feedBytes, hclean, hdec, seq_erase, decode_small [0x1b, 0x5b, 0x30, 0x4b] (by decide)]
      have e2 : List.map (fun x : UInt8 => x.toNat) [0x1b, 0x5b, 0x30, 0x4b] = [27, 91, 48, 75] := by decide
      rw [e2, feed_line toks hp _ (by simpa using hps) (by rfl) (by simpa [hw] using hlen), hshown]
      obtain ⟨w', ht, o, rows, row, col, vis, ps⟩ := t
      simp only at hvis; subst hvis; rfl
    · simp [TermWriter.goTo]

end Rare.C20

namespace Rare.C20

theorem latest_snoc {κ α : Type} [DecidableEq κ] (h : List (κ × α)) (u : κ × α) (i : κ) :
    latest (h ++ [u]) i = if u.1 = i then some u.2 else latest h i := by
  simp [latest, List.foldl_append]

/-- the writer and the terminal agree, and the screen shows the latest texts -/
structure Inv (W H r0 : Nat) (trim : Bool) (t0 : Term) (hist : List (Nat × Bytes)) (w : TermWriter) (t : Term) : Prop where
  ps : t.ps = .ground
  width : t.width = W
  height : t.height = H
  onlcr : t.onlcr = t0.onlcr
  row : (t.row : Int) = r0 + w.cursor
  cur0 : 0 ≤ w.cursor
  curLe : w.cursor ≤ w.maxLine
  maxGe : ∀ u ∈ hist, (u.1 : Int) ≤ w.maxLine
  maxIn : w.maxLine = 0 ∨ ∃ u ∈ hist, (u.1 : Int) = w.maxLine
  clear : w.clearLine = true
  hideC : w.hideCursor = true
  vis : t.cursorVisible = !w.cursorHidden
  written : ∀ i txt, latest hist i = some txt → t.rows (r0 + i) = shown W trim txt
  other : ∀ j, (∀ i, latest hist i ≠ none → r0 + i ≠ j) → t.rows j = t0.rows j

theorem inv_init (W H r0 : Nat) (trim : Bool) (t0 : Term) (hps : t0.ps = .ground) (hw : t0.width = W)
    (hh : t0.height = H) (hr : t0.row = r0) (hv : t0.cursorVisible = true) :
    Inv W H r0 trim t0 [] TermWriter.new t0 := by
  refine ⟨hps, hw, hh, rfl, by simp [TermWriter.new, hr], by simp [TermWriter.new], by simp [TermWriter.new],
    by simp, Or.inl rfl, rfl, rfl, by simp [TermWriter.new, hv], ?_, fun _ _ => rfl⟩
  intro i txt h; simp [latest] at h

theorem inv_step {W H r0 : Nat} {trim : Bool} {t0 : Term} {hist : List (Nat × Bytes)} {w : TermWriter} {t : Term}
    (inv : Inv W H r0 trim t0 hist w t) (l : Nat) (txt : Bytes) (hl : r0 + l + 1 < H) (htxt : TextOK W trim txt) :
    Clean (w.writeForLine (cfg W trim) l txt).2 ∧
    Inv W H r0 trim t0 (hist ++ [(l, txt)]) (w.writeForLine (cfg W trim) l txt).1
      (t.feedBytes (w.writeForLine (cfg W trim) l txt).2) := by
  obtain ⟨hclean, hfeed, hw⟩ := write_feed W r0 trim w t l txt inv.ps inv.width inv.row inv.cur0
    (by rw [inv.height]; omega) inv.clear inv.hideC inv.vis htxt
  refine ⟨hclean, ?_⟩
  rw [hfeed, hw]
  refine ⟨inv.ps, inv.width, inv.height, inv.onlcr, ?_, ?_, ?_, ?_, ?_, inv.clear, inv.hideC, rfl, ?_, ?_⟩
  · simp
  · simp
  · simp only; split <;> omega
  · intro u hu
    simp only [List.mem_append, List.mem_singleton] at hu
    simp only
    rcases hu with hu | hu
    · have := inv.maxGe u hu; split <;> omega
    · subst hu; simp only; split <;> omega
  · simp only
    by_cases hgt : (l : Int) > w.maxLine
    · right; exact ⟨(l, txt), by simp, by simp [hgt]⟩
    · simp only [hgt, if_false]
      rcases inv.maxIn with h | ⟨u, hu, hum⟩
      · left; exact h
      · right; exact ⟨u, by simp [hu], hum⟩
  · intro i x hx
    rw [latest_snoc] at hx
    simp only at hx ⊢
    by_cases hli : l = i
    · subst hli; simp at hx; subst hx; simp [setRow]
    · simp only [hli, if_false] at hx
      rw [setRow_ne _ _ _ _ (by omega)]
      exact inv.written i x hx
  · intro j hj
    have hjl : j ≠ r0 + l := by
      have := hj l (by rw [latest_snoc]; simp)
      omega
    simp only
    rw [setRow_ne _ _ _ _ hjl]
    apply inv.other j
    intro i hi
    apply hj i
    rw [latest_snoc]
    simp only
    split
    · simp
    · exact hi

def castHist (h : List (Nat × Bytes)) : List (Int × Bytes) := h.map fun u => ((u.1 : Int), u.2)

theorem inv_run (W H r0 : Nat) (trim : Bool) (t0 : Term) : ∀ (rest hist : List (Nat × Bytes)) (w : TermWriter) (t : Term),
    Inv W H r0 trim t0 hist w t → (∀ u ∈ rest, r0 + u.1 + 1 < H ∧ TextOK W trim u.2) →
    Inv W H r0 trim t0 (hist ++ rest) (w.runHistory (cfg W trim) (castHist rest)).1
      (t.feedBytes (w.runHistory (cfg W trim) (castHist rest)).2) := by
  intro rest
  induction rest with
  | nil => intro hist w t inv _; simpa [castHist, TermWriter.runHistory, feedBytes_nil] using inv
  | cons u rest ih =>
    intro hist w t inv h
    obtain ⟨hu1, hu2⟩ := h u (by simp)
    obtain ⟨hclean, inv'⟩ := inv_step inv u.1 u.2 hu1 hu2
    have := ih (hist ++ [(u.1, u.2)]) _ _ inv' (fun x hx => h x (by simp [hx]))
    simp only [castHist, List.map_cons, TermWriter.runHistory]
    rw [feedBytes_append _ _ _ hclean]
    simpa [castHist] using this

/-- `Close()` from a synchronised state -/
theorem close_feed {W H r0 : Nat} {trim : Bool} {t0 : Term} {hist : List (Nat × Bytes)} {w : TermWriter} {t : Term}
    (inv : Inv W H r0 trim t0 hist w t) (hH : r0 + 1 < H) (hrows : ∀ u ∈ hist, r0 + u.1 + 1 < H) :
    t.feedBytes (w.close (cfg W trim)).2 =
      { t with row := r0 + w.maxLine.toNat + 1, col := 0, cursorVisible := true } := by
  have hm0 : 0 ≤ w.maxLine := by have := inv.cur0; have := inv.curLe; omega
  have hmH : r0 + w.maxLine.toNat + 1 < H := by
    rcases inv.maxIn with h | ⟨u, hu, hum⟩
    · rw [h]; simpa using hH
    · have := hrows u hu; omega
  have hcast : ((w.maxLine.toNat : Nat) : Int) = w.maxLine := by omega
  have hg := goTo_feed w w.maxLine.toNat t r0 inv.ps inv.row inv.cur0 (by rw [inv.height]; omega)
  rw [hcast] at hg
  simp only [TermWriter.close, cfg, goTo_hidden]
  rw [List.append_assoc, feedBytes_append _ _ _ hg.1, hg.2]
  obtain ⟨cursor, hidden, maxLine, clearLine, hideCursor⟩ := w
  obtain ⟨w', ht, o, rows, row, col, vis, ps⟩ := t
  have hps := inv.ps; have hvis := inv.vis; have hht := inv.height
  simp only at hps hvis hmH hht ⊢
  subst hps hht
  have hdown : r0 + maxLine.toNat + 1 < ht := hmH
  cases hidden with
  | true =>
    simp only [if_true, Term.feedBytes]
    rw [decode_small _ (by decide)]
    have : List.map (fun x : UInt8 => x.toNat) (handEsc.closeNl ++ handEsc.seq handEsc.unhide) = [10] ++ [27, 91, 63, 50, 53, 104] := by decide
    have e10 : ∀ t : Term, t.feed [10] = t.step 10 := fun _ => rfl
    rw [this, feed_append, e10, step_lf _ rfl, feed_show]
    · cases o <;> simp [Term.lineFeed, Term.down, hdown]
    · cases o <;> simp [Term.lineFeed, Term.down, hdown]
  | false =>
    simp only [Bool.not_false] at hvis
    subst hvis
    simp only [Bool.false_eq_true, if_false, List.append_nil, Term.feedBytes]
    rw [decode_small _ (by decide)]
    have : List.map (fun x : UInt8 => x.toNat) handEsc.closeNl = [10] := by decide
    have e10 : ∀ t : Term, t.feed [10] = t.step 10 := fun _ => rfl
    rw [this, e10, step_lf _ rfl]
    cases o <;> simp [Term.lineFeed, Term.down, hdown]

end Rare.C20
