import Rare.Proofs.C17Idx
/-!
Helper lemmas for C17, part 5: the generators `@for` and `@range`.
-/
namespace Rare.C17
open Rare Rare.Expr Rare.Expr.Funcs.Range

/-- What `@for` returns for the element list the specification produces. -/
def forResult (sb : Sb) (idx : Nat) : Option (List Bytes) → Bytes
  | none => InfMarker
  | some ys => sb.str ++ (if idx = 0 then pack ys else joinTail [NUL] ys)

theorem forLoop_run (ctx : Ctx) (cond incr : Stage) (fc fn : Bytes → Bytes → Bytes)
    (hc : ∀ v0 v1, cond.run (subCtx ctx v0 v1) = .ok (fc v0 v1))
    (hn : ∀ v0 v1, incr.run (subCtx ctx v0 v1) = .ok (fn v0 v1)) :
    ∀ (fuel : Nat) (val : Bytes) (idx : Nat) (sb : Sb),
      idx ≤ Gen.maxIterations → Gen.maxIterations + 2 ≤ fuel + idx →
      (forLoop cond incr fuel val idx sb).run ctx =
        .ok (forResult sb idx
          (iterateWhile (fun v k => truthy (fc v (itoa (k : Nat)))) (fun v k => fn v (itoa (k : Nat)))
            (Gen.maxIterations - idx) idx val)) := by
  intro fuel
  induction fuel with
  | zero => intro val idx sb h1 h2; omega
  | succ fuel ih =>
    intro val idx sb h1 h2
    unfold forLoop
    rw [run_bind_ok ctx _ _ _ (by rw [withSub_run]; exact hc val (itoa (idx : Nat)))]
    by_cases ht : truthy (fc val (itoa (idx : Nat))) = true
    · simp only [ht, Bool.not_true, Bool.false_eq_true, if_false]
      rw [run_bind_ok ctx _ _ _ (by rw [withSub_run]; exact hn val (itoa (idx : Nat)))]
      by_cases hm : idx + 1 > Gen.maxIterations
      · have e : Gen.maxIterations - idx = 0 := by omega
        simp only [hm, if_true, e, iterateWhile, ht, forResult, Comp.run]
      · simp only [hm, if_false]
        rw [ih _ (idx + 1) _ (by omega) (by omega)]
        have e : Gen.maxIterations - idx = (Gen.maxIterations - (idx + 1)) + 1 := by omega
        rw [e]
        simp only [iterateWhile, ht, if_true]
        cases iterateWhile (fun v k => truthy (fc v (itoa (k : Nat)))) (fun v k => fn v (itoa (k : Nat)))
            (Gen.maxIterations - (idx + 1)) (idx + 1) (fn val (itoa (idx : Nat))) with
        | none => simp [forResult]
        | some ys =>
          by_cases h0 : idx = 0
          · subst h0
            simp [forResult, pack, join_cons_tail]
          · have hp : idx > 0 := by omega
            simp [forResult, h0, hp, joinTail, ArraySeparatorString, ArraySeparator, NUL]
    · have hf : truthy (fc val (itoa (idx : Nat))) = false := by simpa using ht
      simp only [hf, Bool.not_false, if_true, Comp.run]
      cases hk : Gen.maxIterations - idx with
      | zero => simp [iterateWhile, hf, forResult, pack, join, joinTail]
      | succ k => simp [iterateWhile, hf, forResult, pack, join, joinTail]

/-! ## @range -/

theorem itoa_ne_nil (v : Int) : itoa v ≠ [] := by
  unfold itoa
  split
  · simp
  · simp [natDigits, Nat.toDigits_ne_nil]

theorem range_guard_eq (incr i stop : Int) :
    ((decide (incr > 0) && decide (i < stop)) || (decide (incr < 0) && decide (i > stop))) =
      before incr i stop := rfl

/-- What the loop of `@range` has written once the specification's remaining terms are added. -/
def rangeResult (sb : Sb) (k : Nat) (r : Option Sb) : Option (List Int) → Prop
  | none => r = none
  | some ys => ∃ sb', r = some sb' ∧
      sb'.str = sb.str ++ (if k = 0 then pack (ys.map itoa) else joinTail [NUL] (ys.map itoa))

theorem rangeLoop_run (start stop incr : Int) (hs1 : minInt64 ≤ stop) (hs2 : stop ≤ maxInt64)
    (hi1 : minInt64 ≤ incr) (hi2 : incr ≤ maxInt64) :
    ∀ (fuel k : Nat) (i : Int) (sb : Sb), i = start + (k : Int) * incr →
      minInt64 ≤ i → i ≤ maxInt64 → k ≤ Gen.maxIterations → Gen.maxIterations + 2 ≤ fuel + k →
      SbWf sb → (sb.len > 0 ↔ k > 0) →
      ∃ r, rangeLoop fuel i stop incr k sb = .ok r ∧
        rangeResult sb k r (progWhile start stop incr (Gen.maxIterations - k) k) := by
  intro fuel
  induction fuel with
  | zero => intro k i sb _ _ _ h1 h2; omega
  | succ fuel ih =>
    intro k i sb hi hlo hhi hk hf hwf hlen
    unfold rangeLoop
    simp only [range_guard_eq]
    by_cases hb : before incr i stop = true
    · simp only [hb, if_true]
      -- the builder after this round
      have hsb2 : ∀ sb2 : Sb, sb2 = (if sb.len > 0 then sb.write ArraySeparatorString else sb).write (itoa i) →
          SbWf sb2 ∧ sb2.len > 0 ∧
          sb2.str = sb.str ++ (if k = 0 then itoa i else [NUL] ++ itoa i) := by
        intro sb2 h2
        have hne : (itoa i).length > 0 := List.length_pos_iff.mpr (itoa_ne_nil i)
        by_cases hl : sb.len > 0
        · have hk0 : k ≠ 0 := by have := hlen.mp hl; omega
          simp only [hl, if_true] at h2
          have hw := sbWf_write _ (itoa i) (sbWf_write sb ArraySeparatorString hwf)
          subst h2
          refine ⟨hw, ?_, ?_⟩
          · rw [sb_len_eq _ hw]; simp; omega
          · simp [hk0, ArraySeparatorString, ArraySeparator, NUL]
        · have hk0 : k = 0 := by
            cases k with
            | zero => rfl
            | succ k => exact absurd (hlen.mpr (by omega)) hl
          simp only [hl, if_false] at h2
          have hw := sbWf_write sb (itoa i) hwf
          subst h2
          refine ⟨hw, ?_, ?_⟩
          · rw [sb_len_eq _ hw]; simp; omega
          · simp [hk0]
      obtain ⟨hw2, hl2, hs2'⟩ := hsb2 _ rfl
      by_cases hm : k + 1 > Gen.maxIterations
      · refine ⟨none, by simp [hm], ?_⟩
        have e : Gen.maxIterations - k = 0 := by omega
        rw [e]; subst hi
        simp [progWhile, hb, rangeResult]
      · simp only [hm, if_false]
        have e : Gen.maxIterations - k = (Gen.maxIterations - (k + 1)) + 1 := by omega
        have hb' := hb
        simp only [before, Bool.or_eq_true, Bool.and_eq_true, decide_eq_true_eq] at hb'
        have hnext : start + ((k + 1 : Nat) : Int) * incr = i + incr := by
          subst hi; simp [Int.add_mul]; omega
        by_cases hov : ((decide (incr > 0) && decide (i > wrap64 (maxInt64 - incr))) ||
            (decide (incr < 0) && decide (i < wrap64 (minInt64 - incr)))) = true
        · -- the next term is beyond the int64 range, hence beyond `stop`
          refine ⟨some ((if sb.len > 0 then sb.write ArraySeparatorString else sb).write (itoa i)),
            by simp only [hov, if_true], ?_⟩
          have hnb : before incr (start + ((k + 1 : Nat) : Int) * incr) stop = false := by
            rw [hnext]
            simp only [Bool.or_eq_true, Bool.and_eq_true, decide_eq_true_eq] at hov
            rcases hov with ⟨hp, hgt⟩ | ⟨hp, hlt⟩
            · rw [wrap64_id _ (by unfold minInt64 maxInt64 at *; omega) (by unfold maxInt64 at *; omega)] at hgt
              simp [before]; omega
            · rw [wrap64_id _ (by unfold minInt64 maxInt64 at *; omega) (by unfold minInt64 maxInt64 at *; omega)] at hlt
              simp [before]; omega
          have hp : progWhile start stop incr (Gen.maxIterations - (k + 1)) (k + 1) = some [] := by
            cases Gen.maxIterations - (k + 1) <;> simp only [progWhile, hnb, Bool.false_eq_true, if_false]
          rw [e]
          have hbi : before incr (start + (k : Int) * incr) stop = true := by rw [← hi]; exact hb
          simp only [progWhile, hbi, if_true, hp, Option.map_some, rangeResult]
          refine ⟨_, rfl, ?_⟩
          rw [hs2', ← hi]
          by_cases hk0 : k = 0 <;> simp [hk0, pack, join, joinTail]
        · simp only [hov]
          have hov' : ¬ ((0 < incr ∧ wrap64 (maxInt64 - incr) < i) ∨ (incr < 0 ∧ i < wrap64 (minInt64 - incr))) := by
            simpa [Bool.or_eq_true, Bool.and_eq_true, decide_eq_true_eq] using hov
          have hin : minInt64 ≤ i + incr ∧ i + incr ≤ maxInt64 := by
            rcases hb' with ⟨hp, _⟩ | ⟨hp, _⟩
            · have h1 : ¬ wrap64 (maxInt64 - incr) < i := fun h => hov' (Or.inl ⟨hp, h⟩)
              rw [wrap64_id _ (by unfold minInt64 maxInt64 at *; omega) (by unfold maxInt64 at *; omega)] at h1
              constructor <;> omega
            · have h1 : ¬ i < wrap64 (minInt64 - incr) := fun h => hov' (Or.inr ⟨hp, h⟩)
              rw [wrap64_id _ (by unfold minInt64 maxInt64 at *; omega) (by unfold minInt64 maxInt64 at *; omega)] at h1
              constructor <;> omega
          rw [wrap64_id _ hin.1 hin.2]
          obtain ⟨r, hr1, hr2⟩ := ih (k + 1) (i + incr) _ hnext.symm hin.1 hin.2 (by omega) (by omega) hw2
            ⟨fun _ => by omega, fun _ => hl2⟩
          refine ⟨r, by simpa using hr1, ?_⟩
          rw [e]
          have hbi : before incr (start + (k : Int) * incr) stop = true := by rw [← hi]; exact hb
          simp only [progWhile, hbi, if_true]
          cases hp : progWhile start stop incr (Gen.maxIterations - (k + 1)) (k + 1) with
          | none => rw [hp] at hr2; simpa [rangeResult] using hr2
          | some ys =>
            rw [hp] at hr2
            obtain ⟨sb', h1, h2⟩ := hr2
            refine ⟨sb', h1, ?_⟩
            rw [h2, hs2', ← hi]
            by_cases hk0 : k = 0 <;> simp [hk0, pack, join_cons_tail, joinTail]
    · have hbf : before incr i stop = false := by simpa using hb
      refine ⟨some sb, by simp [hbf], ?_⟩
      have hbi : before incr (start + (k : Int) * incr) stop = false := by rw [← hi]; exact hbf
      have hp : progWhile start stop incr (Gen.maxIterations - k) k = some [] := by
        cases Gen.maxIterations - k <;> simp only [progWhile, hbi, Bool.false_eq_true, if_false]
      rw [hp]
      exact ⟨sb, rfl, by by_cases hk0 : k = 0 <;> simp [hk0, pack, join, joinTail]⟩

end Rare.C17
