import Rare.Proofs.C17Idx
/-!
Helper lemmas for C17, part 5: the generators `@for` and `@range`.
-/
namespace Rare.C17
open Rare Rare.Expr Rare.Expr.Funcs.Range

/-- What `@for` returns for the element list the specification produces. -/
def forResult (sb : Sb) (idx : Nat) : Option (List Bytes) → Bytes
  | none => InfMarker
  | some ys => sb.str ++ (if idx = 0 then pack ys else joinTail [NUL] ys)

theorem forLoop_run (ctx : Ctx) (cond incr : Stage) (fc fn : Bytes → Bytes → Bytes)
    (hc : ∀ v0 v1, cond.run (subCtx ctx v0 v1) = .ok (fc v0 v1))
    (hn : ∀ v0 v1, incr.run (subCtx ctx v0 v1) = .ok (fn v0 v1)) :
    ∀ (fuel : Nat) (val : Bytes) (idx : Nat) (sb : Sb),
      idx ≤ Gen.maxIterations → Gen.maxIterations + 2 ≤ fuel + idx →
      (forLoop cond incr fuel val idx sb).run ctx =
        .ok (forResult sb idx
          (iterateWhile (fun v k => truthy (fc v (itoa (k : Nat)))) (fun v k => fn v (itoa (k : Nat)))
            (Gen.maxIterations - idx) idx val)) := by
  intro fuel
  induction fuel with
  | zero => intro val idx sb h1 h2; omega
  | succ fuel ih =>
    intro val idx sb h1 h2
    unfold forLoop
    rw [run_bind_ok ctx _ _ _ (by rw [withSub_run]; exact hc val (itoa (idx : Nat)))]
    by_cases ht : truthy (fc val (itoa (idx : Nat))) = true
    · simp only [ht, Bool.not_true, Bool.false_eq_true, if_false]
      rw [run_bind_ok ctx _ _ _ (by rw [withSub_run]; exact hn val (itoa (idx : Nat)))]
      by_cases hm : idx + 1 > Gen.maxIterations
      · have e : Gen.maxIterations - idx = 0 := by omega
        simp only [hm, if_true, e, iterateWhile, ht, forResult, Comp.run]
      · simp only [hm, if_false]
        rw [ih _ (idx + 1) _ (by omega) (by omega)]
        have e : Gen.maxIterations - idx = (Gen.maxIterations - (idx + 1)) + 1 := by omega
        rw [e]
        simp only [iterateWhile, ht, if_true]
        cases iterateWhile (fun v k => truthy (fc v (itoa (k : Nat)))) (fun v k => fn v (itoa (k : Nat)))
            (Gen.maxIterations - (idx + 1)) (idx + 1) (fn val (itoa (idx : Nat))) with
        | none => simp [forResult]
        | some ys =>
          by_cases h0 : idx = 0
          · subst h0
            simp [forResult, pack, join_cons_tail]
          · have hp : idx > 0 := by omega
            simp [forResult, h0, hp, joinTail, ArraySeparatorString, ArraySeparator, NUL]
    · have hf : truthy (fc val (itoa (idx : Nat))) = false := by simpa using ht
      simp only [hf, Bool.not_false, if_true, Comp.run]
      cases hk : Gen.maxIterations - idx with
      | zero => simp [iterateWhile, hf, forResult, pack, join, joinTail]
      | succ k => simp [iterateWhile, hf, forResult, pack, join, joinTail]

end Rare.C17
