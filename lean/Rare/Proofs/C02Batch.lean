import Rare.Model.C02Batch
/-!
Proofs for `Model/C02Batch`: the slice-level loops of the source refine the list-level loops of
`Rare.Batcher` – a batch that was sent reads, at any later time, what it held when it was sent.
-/
namespace Rare.C02.BatchH
open Rare.Batcher

theorem take_set_succ {β : Type} (l : List β) (n : Nat) (v : β) (h : n < l.length) :
    (l.set n v).take (n + 1) = l.take n ++ [v] := by
  induction l generalizing n with
  | nil => simp at h
  | cons a t ih =>
    cases n with
    | zero => simp
    | succ k =>
      simp only [List.length_cons] at h
      simp [ih k (by omega)]

theorem arrayOf_set_eq {α : Type} (heap : List (List (Option α))) (a : Nat) (v : List (Option α))
    (h : a < heap.length) : arrayOf (heap.set a v) a = v := by
  simp [arrayOf, List.getD, h]

theorem arrayOf_set_ne {α : Type} (heap : List (List (Option α))) (a q : Nat) (v : List (Option α))
    (h : q ≠ a) : arrayOf (heap.set a v) q = arrayOf heap q := by
  simp [arrayOf, List.getD, List.getElem?_set_ne (Ne.symm h)]

theorem arrayOf_append_lt {α : Type} (heap l : List (List (Option α))) (q : Nat)
    (h : q < heap.length) : arrayOf (heap ++ l) q = arrayOf heap q := by
  simp [arrayOf, List.getD, List.getElem?_append_left h]

theorem arrayOf_append_len {α : Type} (heap : List (List (Option α))) (v : List (Option α)) :
    arrayOf (heap ++ [v]) heap.length = v := by
  simp [arrayOf, List.getD]

theorem readSent_congr {α : Type} (heap heap' : List (List (Option α))) (sent : List (Sl × Nat))
    (h : ∀ p ∈ sent, arrayOf heap' p.1.arr = arrayOf heap p.1.arr) : readSent heap' sent = readSent heap sent := by
  unfold readSent
  apply List.map_congr_left
  intro p hp
  rw [h p hp]

theorem readSent_append {α : Type} (heap : List (List (Option α))) (a b : List (Sl × Nat)) :
    readSent heap (a ++ b) = readSent heap a ++ readSent heap b := by
  simp [readSent]

/-- the flush body of both source loops, composed -/
def flushC {α : Type} (bs : Nat) (s : HSt α) : HSt α :=
  { heap := s.heap ++ [List.replicate bs none], cur := ⟨s.heap.length, 0, bs⟩,
    start := s.start + s.cur.len, sent := s.sent ++ [(s.cur, s.start)] }

def stepC {α : Type} (timed : Bool) (bs : Nat) (s : HSt α) (x : α × Bool) : HSt α :=
  let s1 := appendOp x.1 s
  if decide (s1.cur.len ≥ bs) || (timed && x.2) then flushC bs s1 else s1

def finishC {α : Type} (s : HSt α) : HSt α :=
  if s.cur.len > 0 then { s with sent := s.sent ++ [(s.cur, s.start)] } else s

theorem stepH_timed {α : Type} (bs : Nat) (s : HSt α) (x : α × Bool) :
    stepH timedLoop bs s x = stepC true bs s x := by
  simp only [stepH, timedLoop, execs, List.foldl, exec, condHolds, stepC, flushC, Bool.true_and]

theorem stepH_plain {α : Type} (bs : Nat) (s : HSt α) (x : α × Bool) :
    stepH plainLoop bs s x = stepC false bs s x := by
  simp only [stepH, plainLoop, execs, List.foldl, exec, condHolds, stepC, flushC, Bool.false_and, Bool.or_false]

theorem finishH_timed {α : Type} (bs : Nat) (s : HSt α) : finishH timedLoop bs s = finishC s := rfl
theorem finishH_plain {α : Type} (bs : Nat) (s : HSt α) : finishH plainLoop bs s = finishC s := rfl

theorem initH_timed {α : Type} (bs : Nat) :
    (initH timedLoop bs : HSt α) = ⟨[List.replicate bs none], ⟨0, 0, bs⟩, 1, []⟩ := rfl
theorem initH_plain {α : Type} (bs : Nat) :
    (initH plainLoop bs : HSt α) = ⟨[List.replicate bs none], ⟨0, 0, bs⟩, 1, []⟩ := rfl

/-- the simulation relation between the heap machine (at the loop head) and the list-level loop state -/
structure Sim {α : Type} (bs : Nat) (h : HSt α) (a : LoopSt α) : Prop where
  start : h.start = a.start
  arr : h.cur.arr < h.heap.length
  len : h.cur.len = a.cur.length
  lt : h.cur.len < bs
  cap : h.cur.cap = bs
  alen : (arrayOf h.heap h.cur.arr).length = bs
  cur : (arrayOf h.heap h.cur.arr).take h.cur.len = a.cur.map some
  sentArr : ∀ p ∈ h.sent, p.1.arr < h.heap.length ∧ p.1.arr ≠ h.cur.arr
  sent : readSent h.heap h.sent = a.out.map fun b => (b.lines.map some, b.start)

theorem sim_init {α : Type} (bs : Nat) (hbs : 1 ≤ bs) :
    Sim bs (⟨[List.replicate bs none], ⟨0, 0, bs⟩, 1, []⟩ : HSt α) ⟨[], [], 1⟩ :=
  ⟨rfl, by simp, rfl, (by show 0 < bs; omega), rfl, by simp [arrayOf], by simp, by simp, by simp [readSent]⟩

theorem sim_step {α : Type} (timed : Bool) (bs : Nat) (h : HSt α) (a : LoopSt α) (x : α × Bool)
    (hs : Sim bs h a) : Sim bs (stepC timed bs h x) (step bs a (x.1, timed && x.2)) := by
  obtain ⟨h1, h2, h3, h4, h5, h6, h7, h8, h9⟩ := hs
  -- the append is in place
  have happ : appendOp x.1 h =
      { h with heap := h.heap.set h.cur.arr ((arrayOf h.heap h.cur.arr).set h.cur.len (some x.1)),
               cur := { h.cur with len := h.cur.len + 1 } } := by
    unfold appendOp
    rw [if_pos (by omega)]
  have hA : arrayOf (h.heap.set h.cur.arr ((arrayOf h.heap h.cur.arr).set h.cur.len (some x.1))) h.cur.arr
      = (arrayOf h.heap h.cur.arr).set h.cur.len (some x.1) := arrayOf_set_eq _ _ _ h2
  have hcur' : ((arrayOf h.heap h.cur.arr).set h.cur.len (some x.1)).take (h.cur.len + 1) = (a.cur ++ [x.1]).map some := by
    rw [take_set_succ _ _ _ (by omega), h7]
    simp
  have hsent' : readSent (h.heap.set h.cur.arr ((arrayOf h.heap h.cur.arr).set h.cur.len (some x.1))) h.sent
      = a.out.map fun b => (b.lines.map some, b.start) := by
    rw [readSent_congr h.heap _ h.sent (fun p hp => arrayOf_set_ne _ _ _ _ (h8 p hp).2), h9]
  unfold stepC step
  simp only [happ]
  have hlen : (a.cur ++ [x.1]).length = h.cur.len + 1 := by simp [h3]
  by_cases hc : (decide (h.cur.len + 1 ≥ bs) || (timed && x.2)) = true
  · rw [if_pos hc, if_pos (by rw [hlen]; exact hc)]
    simp only [flushC]
    refine ⟨?_, ?_, rfl, (by show 0 < bs; omega), rfl, ?_, by simp, ?_, ?_⟩
    · simp [h1, h3]
    · simp
    · show (arrayOf (_ ++ [_]) _).length = bs
      rw [arrayOf_append_len]
      simp
    · intro p hp
      simp only [List.mem_append, List.mem_singleton] at hp
      simp only [List.length_append, List.length_set, List.length_cons, List.length_nil]
      rcases hp with hp | rfl
      · have := (h8 p hp).1
        exact ⟨by omega, by omega⟩
      · exact ⟨by simp; omega, by simp; omega⟩
    · simp only [readSent_append, List.map_append]
      congr 1
      · rw [readSent_congr _ _ h.sent (fun p hp => arrayOf_append_lt _ _ _ (by simpa using (h8 p hp).1)), hsent']
      · simp only [readSent, List.map_cons, List.map_nil]
        rw [arrayOf_append_lt _ _ _ (by simpa using h2), hA, hcur', h1]
  · rw [if_neg hc, if_neg (by rw [hlen]; exact hc)]
    have hlt : h.cur.len + 1 < bs := by
      simp only [Bool.or_eq_true, decide_eq_true_eq, not_or] at hc
      omega
    refine ⟨h1, by simpa using h2, by simp [h3], hlt, h5, ?_, ?_, ?_, hsent'⟩
    · simp only [hA, List.length_set]; exact h6
    · simp only [hA]; exact hcur'
    · intro p hp
      exact ⟨by simpa using (h8 p hp).1, (h8 p hp).2⟩

theorem sim_foldl {α : Type} (timed : Bool) (bs : Nat) (ls : List (α × Bool)) (h : HSt α) (a : LoopSt α)
    (hs : Sim bs h a) :
    Sim bs (ls.foldl (stepC timed bs) h) ((ls.map fun x => (x.1, timed && x.2)).foldl (step bs) a) := by
  induction ls generalizing h a with
  | nil => exact hs
  | cons x t ih => exact ih _ _ (sim_step timed bs h a x hs)

theorem sim_finish {α : Type} (bs : Nat) (h : HSt α) (a : LoopSt α) (hs : Sim bs h a) :
    readSent (finishC h).heap (finishC h).sent = (finish a).map fun b => (b.lines.map some, b.start) := by
  unfold finishC finish
  by_cases hc : h.cur.len > 0
  · rw [if_pos hc, if_pos (by rw [← hs.len]; exact hc)]
    simp only [readSent_append, List.map_append, hs.sent]
    simp [readSent, hs.cur, hs.start]
  · rw [if_neg hc, if_neg (by rw [← hs.len]; exact hc)]
    exact hs.sent

/-- the heap-level run of either source loop, read at the end, is the list-level run -/
theorem lateRead_timed {α : Type} (bs : Nat) (hbs : 1 ≤ bs) (ls : List (α × Bool)) :
    lateRead (runH timedLoop bs ls) = (run bs ls).map fun b => (b.lines.map some, b.start) := by
  unfold lateRead runH run
  rw [finishH_timed, initH_timed]
  have e : (stepH timedLoop bs : HSt α → α × Bool → HSt α) = stepC true bs := by
    funext s x; exact stepH_timed bs s x
  rw [e]
  have := sim_finish bs _ _ (sim_foldl true bs ls _ _ (sim_init (α := α) bs hbs))
  simpa using this

theorem lateRead_plain {α : Type} (bs : Nat) (hbs : 1 ≤ bs) (ls : List (α × Bool)) :
    lateRead (runH plainLoop bs ls) = (run bs (ls.map fun x => (x.1, false))).map fun b => (b.lines.map some, b.start) := by
  unfold lateRead runH run
  rw [finishH_plain, initH_plain]
  have e : (stepH plainLoop bs : HSt α → α × Bool → HSt α) = stepC false bs := by
    funext s x; exact stepH_plain bs s x
  rw [e]
  have := sim_finish bs _ _ (sim_foldl false bs ls _ _ (sim_init (α := α) bs hbs))
  simpa using this

/-- … and at every moment before the end (after any number of scanned lines) -/
theorem midRead_timed {α : Type} (bs : Nat) (hbs : 1 ≤ bs) (ls : List (α × Bool)) :
    let s := ls.foldl (stepH timedLoop bs) (initH timedLoop bs)
    readSent s.heap s.sent = ((ls.foldl (step bs) ⟨[], [], 1⟩).out.map fun b => (b.lines.map some, b.start)) := by
  intro s
  have e : (stepH timedLoop bs : HSt α → α × Bool → HSt α) = stepC true bs := by
    funext s x; exact stepH_timed bs s x
  have := (sim_foldl true bs ls _ _ (sim_init (α := α) bs hbs)).sent
  simp only [Bool.true_and, List.map_id'] at this
  simp only [s, e, initH_timed]
  exact this

theorem numbered_map {α : Type} (bs : List (Batch α)) :
    numbered (bs.map fun b => (b.lines.map some, b.start)) = (bs.flatMap lineNumbers).map fun p => (some p.1, p.2) := by
  induction bs with
  | nil => rfl
  | cons b t ih =>
    simp only [numbered, List.map_cons, List.flatMap_cons, List.map_append] at ih ⊢
    rw [ih]
    congr 1
    simp [lineNumbers, List.zipIdx_map, Prod.map]

end Rare.C02.BatchH
