import Rare.Proofs.C07Base
/-! C07 numerical aggregator: Welford recurrence (samples/mean/M2/variance/min/max) over ℚ,
`Analyze` sorting, `Median`, `Quantile` (index bounds, clamping) and `Mode`. -/
namespace Rare.C07

def runQ (keep : Bool) (l : List Rat) : Numerical Rat :=
  l.foldl (Numerical.samplef ratOps keep) (Numerical.new ratOps)

def ratSumSq : List Rat → Rat
  | [] => 0
  | x :: r => x * x + ratSumSq r

theorem ratSum_append (a b : List Rat) : ratSum (a ++ b) = ratSum a + ratSum b := by
  induction a with
  | nil => simp only [List.nil_append, ratSum]; grind
  | cons x a ih => simp only [List.cons_append, ratSum, ih]; grind

theorem ratSumSq_append (a b : List Rat) : ratSumSq (a ++ b) = ratSumSq a + ratSumSq b := by
  induction a with
  | nil => simp only [List.nil_append, ratSumSq]; grind
  | cons x a ih => simp only [List.cons_append, ratSumSq, ih]; grind

theorem natCast_succ_ne_zero (n : Nat) : ((n : Rat) + 1) ≠ 0 := by
  have : (0:Rat) ≤ (n:Rat) := by exact_mod_cast Nat.zero_le n
  grind

/-- Welford invariant relating a state to the prefix consumed so far. -/
structure WInv (s : Numerical Rat) (pre : List Rat) : Prop where
  samples : s.samples = pre.length
  mean : (pre.length : Rat) * s.mean = ratSum pre
  var : s.variance = ratSumSq pre - (pre.length : Rat) * (s.mean * s.mean)

theorem WInv.step {s : Numerical Rat} {pre : List Rat} (keep : Bool) (x : Rat) (h : WInv s pre) :
    WInv (Numerical.samplef ratOps keep s x) (pre ++ [x]) := by
  obtain ⟨h1, h2, h3⟩ := h
  have hn := natCast_succ_ne_zero pre.length
  refine ⟨?_, ?_, ?_⟩
  · simp [Numerical.samplef, h1]
  · simp only [Numerical.samplef, ratOps, List.length_append, List.length_cons, List.length_nil,
      ratSum_append, ratSum, h1, Rat.natCast_add, Nat.zero_add]
    grind
  · simp only [Numerical.samplef, ratOps, List.length_append, List.length_cons, List.length_nil,
      ratSumSq_append, ratSumSq, h1, Rat.natCast_add, Nat.zero_add, h3]
    grind

theorem WInv.foldl (keep : Bool) (l : List Rat) : ∀ (s : Numerical Rat) (pre : List Rat), WInv s pre →
    WInv (l.foldl (Numerical.samplef ratOps keep) s) (pre ++ l) := by
  induction l with
  | nil => intro s pre h; simpa using h
  | cons x l ih =>
    intro s pre h
    have := ih _ _ (h.step keep x)
    simpa [List.append_assoc] using this

theorem WInv.new : WInv (Numerical.new ratOps) [] := by
  refine ⟨rfl, ?_, ?_⟩ <;> simp [Numerical.new, ratOps, ratSum, ratSumSq] <;> grind

theorem runQ_inv (keep : Bool) (l : List Rat) : WInv (runQ keep l) l := by
  have := WInv.foldl keep l _ _ WInv.new
  simpa [runQ] using this

theorem welford_samples (keep : Bool) (l : List Rat) : (runQ keep l).samples = l.length :=
  (runQ_inv keep l).samples

theorem welford_mean (keep : Bool) (l : List Rat) : (runQ keep l).mean = mean l := by
  cases l with
  | nil => simp [runQ, Numerical.new, ratOps, mean, ratSum]; grind
  | cons x l =>
    have h := (runQ_inv keep (x :: l)).mean
    have hn := natCast_succ_ne_zero l.length
    simp only [mean, List.length_cons, Rat.natCast_add] at h ⊢
    grind

theorem ratSum_sqdev (c : Rat) (l : List Rat) :
    ratSum (l.map fun x => (x - c) * (x - c)) = ratSumSq l - 2 * c * ratSum l + (l.length : Rat) * (c * c) := by
  induction l with
  | nil => simp [ratSum, ratSumSq]; grind
  | cons x l ih => simp only [List.map_cons, ratSum, ratSumSq, ih, List.length_cons, Rat.natCast_add]; grind

theorem m2_eq (l : List Rat) : m2 l = ratSumSq l - (l.length : Rat) * (mean l * mean l) := by
  unfold m2; rw [ratSum_sqdev]
  cases l with
  | nil => simp [ratSum, ratSumSq]; grind
  | cons x l =>
    have hn := natCast_succ_ne_zero l.length
    have : ((x :: l).length : Rat) * mean (x :: l) = ratSum (x :: l) := by
      simp only [mean, List.length_cons, Rat.natCast_add]; grind
    grind

theorem welford_m2 (keep : Bool) (l : List Rat) : (runQ keep l).variance = m2 l := by
  rw [m2_eq, ← welford_mean keep l]; exact (runQ_inv keep l).var

theorem welford_variance (keep : Bool) (l : List Rat) :
    (runQ keep l).varianceOf ratOps = sampleVariance l := by
  unfold Numerical.varianceOf sampleVariance
  rw [welford_samples, welford_m2]
  by_cases h : l.length > 1
  · simp only [h, if_true, ratOps]
    have : ((l.length - 1 : Nat) : Rat) = (l.length : Rat) - 1 := by
      obtain ⟨k, hk⟩ : ∃ k, l.length = k + 1 := ⟨l.length - 1, by omega⟩
      rw [hk]; simp [Rat.natCast_add]; grind
    rw [this]
  · simp [h, ratOps]


theorem values_foldl (l : List Rat) : ∀ (s : Numerical Rat),
    (l.foldl (Numerical.samplef ratOps true) s).values = s.values ++ l := by
  induction l with
  | nil => intro s; simp
  | cons x l ih => intro s; simp [ih, Numerical.samplef]

theorem welford_values (l : List Rat) : (runQ true l).values = l := by
  simp [runQ, values_foldl, Numerical.new]

theorem minmax_foldl (keep : Bool) (l : List Rat) : ∀ (s : Numerical Rat),
    ((l.foldl (Numerical.samplef ratOps keep) s).min = s.min ∨ (l.foldl (Numerical.samplef ratOps keep) s).min ∈ l) ∧
    (l.foldl (Numerical.samplef ratOps keep) s).min ≤ s.min ∧
    (∀ y ∈ l, (l.foldl (Numerical.samplef ratOps keep) s).min ≤ y) ∧
    ((l.foldl (Numerical.samplef ratOps keep) s).max = s.max ∨ (l.foldl (Numerical.samplef ratOps keep) s).max ∈ l) ∧
    s.max ≤ (l.foldl (Numerical.samplef ratOps keep) s).max ∧
    (∀ y ∈ l, y ≤ (l.foldl (Numerical.samplef ratOps keep) s).max) := by
  induction l with
  | nil => intro s; simp
  | cons x l ih =>
    intro s
    have h := ih (Numerical.samplef ratOps keep s x)
    simp only [List.foldl_cons, List.mem_cons, forall_eq_or_imp]
    generalize (l.foldl (Numerical.samplef ratOps keep) (Numerical.samplef ratOps keep s x)) = r at h ⊢
    have e1 : (Numerical.samplef ratOps keep s x).min = if x < s.min then x else s.min := by
      simp [Numerical.samplef, ratOps]
    have e2 : (Numerical.samplef ratOps keep s x).max = if s.max < x then x else s.max := by
      simp [Numerical.samplef, ratOps]
    rw [e1, e2] at h
    obtain ⟨h1, h2, h3, h4, h5, h6⟩ := h
    refine ⟨?_, ?_, ⟨?_, h3⟩, ?_, ?_, ⟨?_, h6⟩⟩
    · grind
    · grind
    · grind
    · grind
    · grind
    · grind

theorem welford_minmax (keep : Bool) (l : List Rat) (hne : l ≠ [])
    (hb : ∀ x ∈ l, ratOps.negMaxVal ≤ x ∧ x ≤ ratOps.maxVal) :
    IsMin l (runQ keep l).min ∧ IsMax l (runQ keep l).max := by
  obtain ⟨h1, h2, h3, h4, h5, h6⟩ := minmax_foldl keep l (Numerical.new ratOps)
  have e1 : (Numerical.new ratOps).min = ratOps.maxVal := rfl
  have e2 : (Numerical.new ratOps).max = ratOps.negMaxVal := rfl
  rw [e1] at h1 h2; rw [e2] at h4 h5
  change (runQ keep l).min = _ ∨ (runQ keep l).min ∈ l at h1
  change (runQ keep l).max = _ ∨ (runQ keep l).max ∈ l at h4
  change (runQ keep l).min ≤ _ at h2
  change _ ≤ (runQ keep l).max at h5
  change ∀ y ∈ l, (runQ keep l).min ≤ y at h3
  change ∀ y ∈ l, y ≤ (runQ keep l).max at h6
  generalize (runQ keep l).min = mn at *
  generalize (runQ keep l).max = mx at *
  generalize ratOps.maxVal = M at *
  generalize ratOps.negMaxVal = N at *
  obtain ⟨y, l', rfl⟩ := List.exists_cons_of_ne_nil hne
  have hy := hb y (by simp)
  have hy3 := h3 y (by simp)
  have hy6 := h6 y (by simp)
  refine ⟨⟨?_, h3⟩, ⟨?_, h6⟩⟩
  · rcases h1 with h1 | h1
    · have : mn = y := by grind
      simp [this]
    · exact h1
  · rcases h4 with h4 | h4
    · have : mx = y := by grind
      simp [this]
    · exact h4


theorem analyze_perm (rev : Bool) (l : List Rat) : (analyze ratOps rev l).Perm l := by
  unfold analyze; split <;> exact List.mergeSort_perm _ _

theorem analyze_length (rev : Bool) (l : List Rat) : (analyze ratOps rev l).length = l.length :=
  (analyze_perm rev l).length_eq

theorem analyze_sorted (rev : Bool) (l : List Rat) : IsSortedOf rev (analyze ratOps rev l) l := by
  refine ⟨analyze_perm rev l, ?_⟩
  cases rev with
  | false =>
    simp only [analyze, Bool.false_eq_true, if_false, ratOps]
    have := List.pairwise_mergeSort (le := fun (a b : Rat) => !decide (b < a))
      (by intro a b c; simp; grind)
      (by intro a b; simp; grind) l
    exact this.imp (by intro a b; simp; grind)
  | true =>
    simp only [analyze, if_true, ratOps]
    have := List.pairwise_mergeSort (le := fun (a b : Rat) => !decide (a < b))
      (by intro a b c; simp; grind)
      (by intro a b; simp; grind) l
    exact this.imp (by intro a b; simp; grind)

theorem median_rank (rev : Bool) (l : List Rat) (hne : l ≠ []) :
    IsRank rev l (l.length / 2) (median 0 (analyze ratOps rev l)) := by
  refine ⟨analyze ratOps rev l, analyze_sorted rev l, ?_⟩
  have hlen := analyze_length rev l
  have hpos : 0 < l.length := List.length_pos_iff.mpr hne
  unfold median
  rw [hlen, if_neg (by omega)]
  have hlt : l.length / 2 < (analyze ratOps rev l).length := by omega
  rw [List.getElem?_eq_getElem hlt]; simp

theorem quantile_index_in_bounds_iff (n : Nat) (hn : 0 < n) (p : Rat) (hp : 0 ≤ p) :
    (0 ≤ (((n : Rat) * p).floor) ∧ ((n : Rat) * p).floor < (n : Int)) ↔ p < 1 := by
  have hnq : (0:Rat) < (n:Rat) := Rat.natCast_pos.mpr hn
  have h0 : 0 ≤ ((n : Rat) * p).floor := by
    rw [Rat.le_floor_iff]; simpa using Rat.mul_nonneg (Rat.le_of_lt hnq) hp
  rw [Rat.floor_lt_iff, Rat.intCast_natCast]
  have := Rat.mul_lt_mul_left (a := p) (b := 1) hnq
  rw [Rat.mul_one] at this
  rw [this]
  exact ⟨fun h => h.2, fun h => ⟨h0, h⟩⟩

theorem quantileAt_ok (s : List Rat) (hs : 0 < s.length) (idx : Int) :
    ∃ (k : Nat) (x : Rat), s[k]? = some x ∧ quantileAt 0 s idx = .ok x ∧
      (0 ≤ idx → idx < s.length → k = idx.toNat) ∧ (idx ≥ s.length → k = s.length - 1) := by
  unfold quantileAt
  rw [if_neg (by omega)]
  simp only []
  generalize hk : (if (if idx ≥ (s.length : Int) then (s.length : Int) - 1 else idx) < 0 then 0
      else (if idx ≥ (s.length : Int) then (s.length : Int) - 1 else idx)).toNat = k
  have hklt : k < s.length := by subst hk; split <;> split <;> omega
  refine ⟨k, s[k], List.getElem?_eq_getElem hklt, ?_, ?_, ?_⟩
  · rw [List.getElem?_eq_getElem hklt]
  · intro h0 h1; subst hk; rw [if_neg (by omega), if_neg (by omega)]
  · intro h; subst hk; rw [if_pos h, if_neg (by omega)]; omega

theorem quantile_rank (rev : Bool) (l : List Rat) (hne : l ≠ []) (p : Rat) (hp0 : 0 ≤ p) (hp1 : p < 1) :
    ∃ x, quantileAt 0 (analyze ratOps rev l) (((l.length : Rat) * p).floor) = .ok x ∧
      IsRank rev l (((l.length : Rat) * p).floor.toNat) x := by
  have hlen := analyze_length rev l
  have hpos : 0 < l.length := List.length_pos_iff.mpr hne
  obtain ⟨hlo, hhi⟩ := (quantile_index_in_bounds_iff l.length hpos p hp0).mpr hp1
  obtain ⟨k, x, hx, hq, hk, _⟩ := quantileAt_ok (analyze ratOps rev l) (by omega) (((l.length : Rat) * p).floor)
  have hk' := hk hlo (by omega)
  subst hk'
  exact ⟨x, hq, analyze ratOps rev l, analyze_sorted rev l, hx⟩

theorem quantile_total (rev : Bool) (l : List Rat) (idx : Int) :
    ∃ x, quantileAt 0 (analyze ratOps rev l) idx = .ok x ∧ (l ≠ [] → x ∈ l) := by
  have hlen := analyze_length rev l
  by_cases hne : l = []
  · subst hne
    refine ⟨0, ?_, fun h => absurd rfl h⟩
    unfold quantileAt; rw [if_pos (by simpa using hlen)]
  · have hpos : 0 < l.length := List.length_pos_iff.mpr hne
    obtain ⟨k, x, hx, hq, _, _⟩ := quantileAt_ok (analyze ratOps rev l) (by omega) idx
    exact ⟨x, hq, fun _ => (analyze_perm rev l).mem_iff.mp (List.mem_of_getElem? hx)⟩

theorem quantile_one (rev : Bool) (l : List Rat) (hne : l ≠ []) :
    ∃ x, quantileAt 0 (analyze ratOps rev l) (l.length : Int) = .ok x ∧ IsRank rev l (l.length - 1) x := by
  have hlen := analyze_length rev l
  have hpos : 0 < l.length := List.length_pos_iff.mpr hne
  obtain ⟨k, x, hx, hq, _, hk⟩ := quantileAt_ok (analyze ratOps rev l) (by omega) (l.length : Int)
  have hk' := hk (by omega)
  rw [hlen] at hk'
  subst hk'
  exact ⟨x, hq, analyze ratOps rev l, analyze_sorted rev l, hx⟩

def modeStep (st : ModeState Rat) (val : Rat) : ModeState Rat :=
  let st := if !(decide (val = st.currValue)) then { st with currValue := val, currObserved := 0 } else st
  let st := { st with currObserved := st.currObserved + 1 }
  if st.currObserved > st.maxObserved then { st with maxValue := st.currValue, maxObserved := st.currObserved } else st

theorem mode_eq (s : List Rat) :
    mode 0 (fun a b => decide (a = b)) s = (s.foldl modeStep ⟨0, 0, 0, 0⟩).maxValue := rfl

theorem modeStep_spec (st : ModeState Rat) (val : Rat) :
    ((modeStep st val).maxValue = st.maxValue ∧ (modeStep st val).maxObserved = st.maxObserved ∧ st.maxObserved ≥ 1) ∨
    ((modeStep st val).maxValue = val ∧ (modeStep st val).maxObserved ≥ 1) := by
  unfold modeStep
  by_cases h : val = st.currValue <;> simp only [h, decide_true, decide_false, Bool.not_true, Bool.not_false, if_true, Bool.false_eq_true, if_false]
  all_goals split <;> simp <;> omega

theorem mode_foldl (L : List Rat) (s : List Rat) : ∀ (st : ModeState Rat), (∀ v ∈ s, v ∈ L) →
    st.maxObserved ≥ 1 → st.maxValue ∈ L →
    (s.foldl modeStep st).maxObserved ≥ 1 ∧ (s.foldl modeStep st).maxValue ∈ L := by
  induction s with
  | nil => intro st _ h1 h2; exact ⟨h1, h2⟩
  | cons x s ih =>
    intro st hs h1 h2
    simp only [List.foldl_cons]
    have hx : x ∈ L := hs x (by simp)
    apply ih _ (fun v hv => hs v (by simp [hv]))
    · rcases modeStep_spec st x with h | h <;> omega
    · rcases modeStep_spec st x with h | h
      · rw [h.1]; exact h2
      · rw [h.1]; exact hx

theorem mode_mem_of_ne_nil (s : List Rat) (hne : s ≠ []) : mode 0 (fun a b => decide (a = b)) s ∈ s := by
  rw [mode_eq]
  obtain ⟨x, s', rfl⟩ := List.exists_cons_of_ne_nil hne
  simp only [List.foldl_cons]
  have h0 : ((⟨0, 0, 0, 0⟩ : ModeState Rat)).maxObserved = 0 := rfl
  refine (mode_foldl (x :: s') s' _ (fun v hv => by simp [hv]) ?_ ?_).2
  · rcases modeStep_spec ⟨0, 0, 0, 0⟩ x with h | h <;> omega
  · rcases modeStep_spec ⟨0, 0, 0, 0⟩ x with h | h
    · omega
    · rw [h.1]; simp

theorem mode_mem (rev : Bool) (l : List Rat) (hne : l ≠ []) :
    mode 0 (fun a b => decide (a = b)) (analyze ratOps rev l) ∈ l := by
  have hlen := analyze_length rev l
  have hne' : analyze ratOps rev l ≠ [] := by
    intro h; rw [h] at hlen; exact hne (List.length_eq_zero_iff.mp hlen.symm)
  exact (analyze_perm rev l).mem_iff.mp (mode_mem_of_ne_nil _ hne')

end Rare.C07
