import Rare.Proofs.F64Val
import Rare.Base.F64Str
/-!
Arithmetic of the software binary64 model on finite operands:

* `add/sub/mul/div_finite`: the operation is the correctly rounded exact rational result;
* `add/sub/mul_exact(_int)`: when the exact result is a float (e.g. integers up to `2^53`) it is returned;
* `le_iff_toRat_le`, `lt_iff_toRat_lt`: the float order is the order of the exact values;
* `div_mono_left`, `add_mono_left`: monotonicity inherited from `ofRat_mono`;
* `floor/ceil/trunc/roundHalfAway_spec`: the integral roundings return exactly `⌊v⌋`, `⌈v⌉`, … .
-/
namespace Rare.F64

/-! ### finite operands -/

theorem not_nan_of_finite {x : F64} (h : x.isFinite = true) : x.isNaN = false := by
  simp [isFinite, isNaN] at *; omega

theorem not_inf_of_finite {x : F64} (h : x.isFinite = true) : x.isInf = false := by
  simp [isFinite, isInf] at *; omega

theorem isZero_iff (x : F64) : x.isZero = true ↔ x.mag = 0 := by simp [isZero]

/-- `add` of finite operands is the correctly rounded exact sum. -/
theorem add_finite {x y : F64} (hx : x.isFinite = true) (hy : y.isFinite = true) :
    add x y = ofRatS (x.sign && y.sign) (x.toRat + y.toRat) := by
  unfold add
  simp [not_nan_of_finite hx, not_nan_of_finite hy, not_inf_of_finite hx, not_inf_of_finite hy]

theorem sub_finite {x y : F64} (hx : x.isFinite = true) (hy : y.isFinite = true) :
    sub x y = ofRatS (x.sign && !y.sign) (x.toRat - y.toRat) := by
  unfold sub
  rw [add_finite hx (by rw [isFinite_neg]; exact hy), toRat_neg, sign_neg, Rat.sub_eq_add_neg]

theorem mul_finite {x y : F64} (hx : x.isFinite = true) (hy : y.isFinite = true) :
    mul x y = ofRatS (x.sign != y.sign) (x.toRat * y.toRat) := by
  unfold mul
  simp [not_nan_of_finite hx, not_nan_of_finite hy, not_inf_of_finite hx, not_inf_of_finite hy]

theorem div_finite {x y : F64} (hx : x.isFinite = true) (hy : y.isFinite = true) (hz : y.mag ≠ 0) :
    div x y = ofRatS (x.sign != y.sign) (x.toRat / y.toRat) := by
  unfold div
  have : y.isZero = false := by simp [isZero, hz]
  simp [not_nan_of_finite hx, not_nan_of_finite hy, not_inf_of_finite hx, not_inf_of_finite hy, this]

/-! ### (d) exact operations -/

/-- If the exact sum of two finite floats is a float, `add` returns it. -/
theorem add_exact {x y : F64} (hx : x.isFinite = true) (hy : y.isFinite = true)
    (hr : Rep (x.toRat + y.toRat)) :
    (add x y).toRat? = some (x.toRat + y.toRat) := by
  rw [add_finite hx hy]
  obtain ⟨a, b⟩ := ofRatS_rep (x.sign && y.sign) hr
  unfold toRat?; rw [a, b]; rfl

theorem sub_exact {x y : F64} (hx : x.isFinite = true) (hy : y.isFinite = true)
    (hr : Rep (x.toRat - y.toRat)) :
    (sub x y).toRat? = some (x.toRat - y.toRat) := by
  rw [sub_finite hx hy]
  obtain ⟨a, b⟩ := ofRatS_rep (x.sign && !y.sign) hr
  unfold toRat?; rw [a, b]; rfl

theorem mul_exact {x y : F64} (hx : x.isFinite = true) (hy : y.isFinite = true)
    (hr : Rep (x.toRat * y.toRat)) :
    (mul x y).toRat? = some (x.toRat * y.toRat) := by
  rw [mul_finite hx hy]
  obtain ⟨a, b⟩ := ofRatS_rep (x.sign != y.sign) hr
  unfold toRat?; rw [a, b]; rfl

theorem toRat?_eq_some {x : F64} {q : Rat} : x.toRat? = some q ↔ (x.isFinite = true ∧ x.toRat = q) := by
  unfold toRat?
  split <;> simp [*]

/-- Integer-valued operands whose exact sum has magnitude at most `2^53`: the sum is exact. -/
theorem add_exact_int {x y : F64} {a b : Int} (hx : x.toRat? = some (a : Rat)) (hy : y.toRat? = some (b : Rat))
    (h : (a + b).natAbs ≤ P53) : (add x y).toRat? = some ((a + b : Int) : Rat) := by
  obtain ⟨fx, vx⟩ := toRat?_eq_some.mp hx
  obtain ⟨fy, vy⟩ := toRat?_eq_some.mp hy
  have := add_exact fx fy (by rw [vx, vy, ← Rat.intCast_add]; exact rep_int h)
  rw [this, vx, vy, Rat.intCast_add]

theorem sub_exact_int {x y : F64} {a b : Int} (hx : x.toRat? = some (a : Rat)) (hy : y.toRat? = some (b : Rat))
    (h : (a - b).natAbs ≤ P53) : (sub x y).toRat? = some ((a - b : Int) : Rat) := by
  obtain ⟨fx, vx⟩ := toRat?_eq_some.mp hx
  obtain ⟨fy, vy⟩ := toRat?_eq_some.mp hy
  have := sub_exact fx fy (by rw [vx, vy, ← Rat.intCast_sub]; exact rep_int h)
  rw [this, vx, vy, Rat.intCast_sub]

theorem mul_exact_int {x y : F64} {a b : Int} (hx : x.toRat? = some (a : Rat)) (hy : y.toRat? = some (b : Rat))
    (h : (a * b).natAbs ≤ P53) : (mul x y).toRat? = some ((a * b : Int) : Rat) := by
  obtain ⟨fx, vx⟩ := toRat?_eq_some.mp hx
  obtain ⟨fy, vy⟩ := toRat?_eq_some.mp hy
  have := mul_exact fx fy (by rw [vx, vy, ← Rat.intCast_mul]; exact rep_int h)
  rw [this, vx, vy, Rat.intCast_mul]

/-! ### the float order is the order of the values -/

/-- The value as a function of the key. -/
def keyVal (k : Int) : Rat := if k < 0 then -(magVal k.natAbs) else magVal k.natAbs

theorem toRat_eq_keyVal (x : F64) : x.toRat = keyVal x.key := by
  unfold keyVal key toRat
  cases hs : x.sign
  · have : ¬ ((x.mag : Int) < 0) := by omega
    simp [this]
  · simp only [if_true]
    by_cases hm : x.mag = 0
    · simp [hm, magVal_zero]
    · have : -(x.mag : Int) < 0 := by omega
      simp [hm]

/-- For finite floats `le` is `≤` on the exact values. -/
theorem le_iff_toRat_le {x y : F64} (hx : x.isFinite = true) (hy : y.isFinite = true) :
    le x y = true ↔ x.toRat ≤ y.toRat := by
  constructor
  · intro h
    apply Classical.byContradiction
    intro hn
    have hlt : y.toRat ≤ x.toRat := by grind
    have h2 := ofRatS_le_ofRatS y.sign x.sign hlt
    rw [ofRatS_toRat y hy, ofRatS_toRat x hx] at h2
    have k1 : x.key ≤ y.key := by
      unfold le at h; simp at h; exact h.2
    have k2 : y.key ≤ x.key := by
      unfold le at h2; simp at h2; exact h2.2
    have : x.key = y.key := by omega
    rw [toRat_eq_keyVal x, toRat_eq_keyVal y, this] at hn
    exact hn Rat.le_refl
  · intro h
    have h2 := ofRatS_le_ofRatS x.sign y.sign h
    rwa [ofRatS_toRat x hx, ofRatS_toRat y hy] at h2

theorem lt_iff_toRat_lt {x y : F64} (hx : x.isFinite = true) (hy : y.isFinite = true) :
    lt x y = true ↔ x.toRat < y.toRat := by
  have h := le_iff_toRat_le hy hx
  have nx := not_nan_of_finite hx
  have ny := not_nan_of_finite hy
  have e : lt x y = !(le y x) := by
    unfold lt le; simp [nx, ny]
    by_cases hk : x.key < y.key <;> simp [hk] <;> omega
  rw [e]
  constructor
  · intro hl
    have : ¬ (le y x = true) := by simpa using hl
    rw [h] at this; grind
  · intro hl
    have : ¬ (le y x = true) := by rw [h]; grind
    simpa using this

/-- **(d)** Division by a positive finite float is monotone in the dividend. -/
theorem div_mono_left {x x' d : F64} (hx : x.isFinite = true) (hx' : x'.isFinite = true)
    (hd : d.isFinite = true) (hpos : 0 < d.toRat) (h : x.toRat ≤ x'.toRat) :
    le (div x d) (div x' d) = true := by
  have hz : d.mag ≠ 0 := by
    intro h0; rw [toRat_eq_zero_of_mag h0] at hpos; grind
  rw [div_finite hx hd hz, div_finite hx' hd hz]
  exact ofRatS_le_ofRatS _ _ (rat_div_le_div_right hpos h)

/-- Addition is monotone in each finite operand. -/
theorem add_mono_left {x x' y : F64} (hx : x.isFinite = true) (hx' : x'.isFinite = true)
    (hy : y.isFinite = true) (h : x.toRat ≤ x'.toRat) : le (add x y) (add x' y) = true := by
  rw [add_finite hx hy, add_finite hx' hy]
  exact ofRatS_le_ofRatS _ _ (Rat.add_le_add_right.mpr h)

/-! ### rounding to integral values -/

/-- A finite magnitude is either an integer or below `2^52`. -/
theorem magVal_int_or_small (m : Nat) :
    (∃ n : Nat, magVal m = (n : Rat)) ∨ magVal m < ((P52 : Nat) : Rat) := by
  obtain ⟨_, _, h3⟩ := mag_decomp m
  by_cases hE : 1074 ≤ magScale m
  · left
    refine ⟨magSig m * 2 ^ (magScale m - 1074), ?_⟩
    unfold magVal
    have : magSig m * 2 ^ magScale m = magSig m * 2 ^ (magScale m - 1074) * 2 ^ 1074 := by
      rw [Nat.mul_assoc, ← Nat.pow_add, show magScale m - 1074 + 1074 = magScale m by omega]
    rw [this, Rat.natCast_mul _ (2 ^ 1074), ← two1074_eq]
    exact Rat.mul_div_cancel two1074_ne
  · right
    unfold magVal
    rw [Rat.div_lt_iff two1074_pos, two1074_eq, ← Rat.natCast_mul, Rat.natCast_lt_natCast]
    have h1 : 2 ^ magScale m ≤ 2 ^ 1073 := Nat.pow_le_pow_right (by decide) (by omega)
    have h2 : magSig m * 2 ^ magScale m < P53 * 2 ^ 1073 :=
      Nat.lt_of_le_of_lt (Nat.mul_le_mul_left _ h1) (Nat.mul_lt_mul_of_pos_right h3 (Nat.pow_pos (by decide)))
    have h3 : P53 * 2 ^ 1073 = P52 * 2 ^ 1074 := by
      rw [show (1074 : Nat) = 1 + 1073 by rfl, Nat.pow_add]; omega
    omega

theorem toRat_int_or_small (x : F64) :
    (∃ n : Int, x.toRat = (n : Rat)) ∨ (-((P52 : Nat) : Rat) < x.toRat ∧ x.toRat < ((P52 : Nat) : Rat)) := by
  have hn := magVal_nonneg x.mag
  rcases magVal_int_or_small x.mag with ⟨n, hn'⟩ | hs
  · left
    unfold toRat
    cases x.sign
    · exact ⟨(n : Int), by simp [hn']; rfl⟩
    · exact ⟨-(n : Int), by simp [hn', Rat.intCast_neg]; rfl⟩
  · right
    unfold toRat
    cases x.sign <;> simp <;> constructor <;> grind

/-- An integer-valued rounding `f` that fixes integers and maps `(-2^52, 2^52)` into `[-2^53, 2^53]`
    is computed exactly by `integral f` on every finite float. -/
theorem integral_spec (f : Rat → Int) (h1 : ∀ n : Int, f (n : Rat) = n)
    (h2 : ∀ v : Rat, -((P52 : Nat) : Rat) < v → v < ((P52 : Nat) : Rat) → (f v).natAbs ≤ P53)
    {x : F64} (hx : x.isFinite = true) :
    (integral f x).toRat? = some ((f x.toRat : Int) : Rat) := by
  unfold integral
  rw [not_nan_of_finite hx, not_inf_of_finite hx]
  simp only [Bool.false_eq_true, if_false]
  have hrep : Rep ((f x.toRat : Int) : Rat) := by
    rcases toRat_int_or_small x with ⟨n, hn⟩ | ⟨a, b⟩
    · rw [hn, h1, ← hn]; exact ⟨x, hx, rfl⟩
    · exact rep_int (h2 _ a b)
  obtain ⟨a, b⟩ := ofRatS_rep x.sign hrep
  unfold toRat?; rw [a, b]; rfl

theorem natCast_P52 : ((P52 : Nat) : Rat) = (((P52 : Nat) : Int) : Rat) := rfl

theorem floor_spec {x : F64} (hx : x.isFinite = true) :
    (floor x).toRat? = some ((x.toRat.floor : Int) : Rat) := by
  apply integral_spec Rat.floor Rat.floor_intCast _ hx
  intro v a b
  have l1 : -((P52 : Nat) : Int) ≤ v.floor := Rat.le_floor_iff.mpr (by
    rw [Rat.intCast_neg]; exact Rat.le_of_lt a)
  have l2 : v.floor < ((P52 : Nat) : Int) := Rat.floor_lt_iff.mpr b
  omega

theorem ceil_spec {x : F64} (hx : x.isFinite = true) :
    (ceil x).toRat? = some ((x.toRat.ceil : Int) : Rat) := by
  apply integral_spec Rat.ceil Rat.ceil_intCast _ hx
  intro v a b
  have l1 : -((P52 : Nat) : Int) < v.ceil := Rat.lt_ceil_iff.mpr (by
    rw [Rat.intCast_neg]; exact a)
  have l2 : v.ceil ≤ ((P52 : Nat) : Int) := Rat.ceil_le_iff.mpr (Rat.le_of_lt b)
  omega

theorem truncRat_intCast (n : Int) : truncRat (n : Rat) = n := by
  unfold truncRat
  split
  · rw [← Rat.intCast_neg, Rat.floor_intCast]; omega
  · exact Rat.floor_intCast n

theorem trunc_spec {x : F64} (hx : x.isFinite = true) :
    (trunc x).toRat? = some ((truncRat x.toRat : Int) : Rat) := by
  apply integral_spec truncRat truncRat_intCast _ hx
  intro v a b
  unfold truncRat
  split
  · have l1 : (0 : Int) ≤ (-v).floor := Rat.le_floor_iff.mpr (by simp; grind)
    have l2 : (-v).floor < ((P52 : Nat) : Int) := Rat.floor_lt_iff.mpr (by grind)
    omega
  · have l1 : (0 : Int) ≤ v.floor := Rat.le_floor_iff.mpr (by simp; grind)
    have l2 : v.floor < ((P52 : Nat) : Int) := Rat.floor_lt_iff.mpr b
    omega

theorem roundAwayRat_intCast (n : Int) : roundAwayRat (n : Rat) = n := by
  unfold roundAwayRat
  split
  · have : (-(n : Rat) + 1 / 2).floor = -n := floor_eq_of (by rw [Rat.intCast_neg]; grind) (by rw [Rat.intCast_neg]; grind)
    omega
  · exact floor_eq_of (by grind) (by grind)

theorem roundHalfAway_spec {x : F64} (hx : x.isFinite = true) :
    (roundHalfAway x).toRat? = some ((roundAwayRat x.toRat : Int) : Rat) := by
  apply integral_spec roundAwayRat roundAwayRat_intCast _ hx
  intro v a b
  unfold roundAwayRat
  split
  · have l1 : (0 : Int) ≤ (-v + 1 / 2).floor := Rat.le_floor_iff.mpr (by simp; grind)
    have l2 : (-v + 1 / 2).floor < ((P52 : Nat) : Int) + 1 := Rat.floor_lt_iff.mpr (by
      rw [Rat.intCast_add]; simp; grind)
    omega
  · have l1 : (0 : Int) ≤ (v + 1 / 2).floor := Rat.le_floor_iff.mpr (by simp; grind)
    have l2 : (v + 1 / 2).floor < ((P52 : Nat) : Int) + 1 := Rat.floor_lt_iff.mpr (by
      rw [Rat.intCast_add]; simp; grind)
    omega

/-! ### further facts used by the C11 theorems -/

/-- Finite floats with the same non-zero value are the same float. -/
theorem eq_of_toRat_eq {x y : F64} (hx : x.isFinite = true) (hy : y.isFinite = true)
    (h : x.toRat = y.toRat) (hne : x.toRat ≠ 0) : x = y := by
  have a := ofRatS_toRat x hx
  have b := ofRatS_toRat y hy
  rw [← h] at b
  unfold ofRatS at a b
  rw [if_neg hne] at a b
  rw [← a, ← b]

theorem isFinite_ofInt (n : Int) (h : n.natAbs ≤ P53) :
    (ofInt n).isFinite = true ∧ (ofInt n).toRat = (n : Rat) :=
  ofRatS_rep false (rep_int h)

/-- `int64(x)` of an integer-valued finite float inside the int64 range is that integer. -/
theorem toInt64_of_int {x : F64} {n : Int} (h : x.toRat? = some (n : Rat))
    (h1 : minInt64 ≤ n) (h2 : n ≤ maxInt64) : toInt64 x = n := by
  obtain ⟨hf, hv⟩ := toRat?_eq_some.mp h
  unfold toInt64
  rw [hf, hv, truncRat_intCast]
  have : ¬ (n < minInt64 ∨ maxInt64 < n) := by omega
  simp [this]

theorem toInt64_not_finite {x : F64} (h : x.isFinite = false) : toInt64 x = minInt64 := by
  unfold toInt64; simp [h]

theorem integral_not_finite (f : Rat → Int) {x : F64} (h : x.isFinite = false) :
    (integral f x).isFinite = false := by
  unfold integral
  by_cases hn : x.isNaN = true
  · rw [if_pos hn]; decide
  · have hi : x.isInf = true := by
      simp [isFinite, isNaN, isInf] at *; omega
    rw [if_neg hn, if_pos hi]; exact h

/-! ### `FormatFloat` of the special values -/

theorem format_nan (p : Int) : format nan p = ascii "NaN" := by
  unfold format; rw [if_pos (by decide)]

theorem format_inf (s : Bool) (p : Int) : format (inf s) p = if s then ascii "-Inf" else ascii "+Inf" := by
  cases s
  · unfold format; rw [if_neg (by decide), if_pos (by decide)]; rfl
  · unfold format; rw [if_neg (by decide), if_pos (by decide)]; rfl

/-- Division of a finite float by a zero, as IEEE-754 has it. -/
theorem div_by_zero {x z : F64} (hx : x.isFinite = true) (hz : z.mag = 0) :
    div x z = if x.mag = 0 then nan else inf (x.sign != z.sign) := by
  unfold div
  have hzf : z.isFinite = true := by simp [isFinite, hz]
  have hzz : z.isZero = true := by simp [isZero, hz]
  have hxz : x.isZero = decide (x.mag = 0) := rfl
  simp [not_nan_of_finite hx, not_nan_of_finite hzf, not_inf_of_finite hx, not_inf_of_finite hzf, hzz, hxz]

/-! ### digits printed by the fixed-precision format -/

/-- The integer `N` whose digits `FormatFloat(x, 'f', p)` prints (with the point `p` places from the
    right) is within one half of `|x|·10^p`: the rendering is correctly rounded. -/
theorem fixedBody_eq (m p : Nat) :
    fixedBody m p = placePoint (natDigits (roundNE (magVal m * pow10 p)).toNat) p := rfl

theorem fixed_digits_err (m p : Nat) :
    magVal m * pow10 p - 1/2 ≤ ((roundNE (magVal m * pow10 p) : Int) : Rat) ∧
    ((roundNE (magVal m * pow10 p) : Int) : Rat) ≤ magVal m * pow10 p + 1/2 :=
  roundNE_err _

/-- Multiplication by a non-negative finite float is monotone. -/
theorem mul_mono_left {x x' y : F64} (hx : x.isFinite = true) (hx' : x'.isFinite = true)
    (hy : y.isFinite = true) (hpos : 0 ≤ y.toRat) (h : x.toRat ≤ x'.toRat) :
    le (mul x y) (mul x' y) = true := by
  rw [mul_finite hx hy, mul_finite hx' hy]
  exact ofRatS_le_ofRatS _ _ (Rat.mul_le_mul_of_nonneg_right h hpos)

/-- Subtraction is monotone in the minuend and antitone in the subtrahend. -/
theorem sub_mono {x x' y y' : F64} (hx : x.isFinite = true) (hx' : x'.isFinite = true)
    (hy : y.isFinite = true) (hy' : y'.isFinite = true) (h : x.toRat ≤ x'.toRat) (h2 : y'.toRat ≤ y.toRat) :
    le (sub x y) (sub x' y') = true := by
  rw [sub_finite hx hy, sub_finite hx' hy']
  exact ofRatS_le_ofRatS _ _ (by grind)

/-- `float64(·)` of integers is monotone. -/
theorem ofInt_mono {a b : Int} (h : a ≤ b) : le (ofInt a) (ofInt b) = true :=
  ofRat_mono (Rat.intCast_le_intCast.mpr h)

end Rare.F64
