import Rare.Proofs.C19
/-!
Completeness of the precedence-climbing parser: the flattening of every well-precedenced parse
tree compiles, to that very tree.  Uniqueness of the common-order parse is a corollary.
-/
namespace Rare.C19

variable {α : Type} (A : Arith α)

/-! ### converse order lemmas -/

theorem order_is_one {t : List (List Bytes)} {a b : Bytes} {lb : Nat} (hb : level t b = some lb)
    (hlt : ∀ la, level t a = some la → lb < la) : opCodeOrderGo t a b = .ok 1 := by
  induction t generalizing lb with
  | nil => simp [level] at hb
  | cons set rest ih =>
    rw [order_cons]
    cases h0 : set.contains a <;> cases h1 : set.contains b <;>
      simp only [Bool.false_eq_true, false_and, and_false, and_self, if_true, if_false]
    · rw [level_cons_miss h1] at hb
      cases hr : level rest b with
      | none => rw [hr] at hb; cases hb
      | some x =>
        rw [hr] at hb
        simp only [Option.map_some, Option.some.injEq] at hb
        apply ih hr
        intro la hla
        have := hlt (la + 1) (by rw [level_cons_miss h0, hla]; rfl)
        omega
    · have := hlt 0 (level_cons_hit h0)
      omega
    · have := hlt 0 (level_cons_hit h0)
      omega

theorem order_not_one_conv {t : List (List Bytes)} {a b : Bytes} {la : Nat} (ha : level t a = some la)
    (hle : ∀ lb, level t b = some lb → la ≤ lb) : ∃ r, opCodeOrderGo t a b = .ok r ∧ r ≠ 1 := by
  induction t generalizing la with
  | nil => simp [level] at ha
  | cons set rest ih =>
    rw [order_cons]
    cases h0 : set.contains a <;> cases h1 : set.contains b <;>
      simp only [Bool.false_eq_true, false_and, and_false, and_self, if_true, if_false]
    · rw [level_cons_miss h0] at ha
      cases hr : level rest a with
      | none => rw [hr] at ha; cases ha
      | some x =>
        rw [hr] at ha
        simp only [Option.map_some, Option.some.injEq] at ha
        apply ih hr
        intro lb hlb
        have := hle (lb + 1) (by rw [level_cons_miss h1, hlb]; rfl)
        omega
    · rw [level_cons_miss h0] at ha
      cases hr : level rest a with
      | none => rw [hr] at ha; cases ha
      | some x =>
        rw [hr] at ha
        simp only [Option.map_some, Option.some.injEq] at ha
        have := hle 0 (level_cons_hit h1)
        omega
    · exact ⟨_, rfl, by decide⟩
    · exact ⟨_, rfl, by decide⟩

theorem level_some_in {t : List (List Bytes)} {op : Bytes} {l : Nat} (h : level t op = some l) :
    ∃ set, set ∈ t ∧ set.contains op = true := by
  induction t generalizing l with
  | nil => simp [level] at h
  | cons set rest ih =>
    cases h0 : set.contains op
    · rw [level_cons_miss h0] at h
      cases hr : level rest op with
      | none => rw [hr] at h; cases h
      | some x =>
        obtain ⟨s', hs', hc⟩ := ih hr
        exact ⟨s', List.mem_cons_of_mem _ hs', hc⟩
    · exact ⟨set, List.mem_cons_self, h0⟩

theorem sets_in_keys : (orderOfOps.all fun set => set.all fun op => opKeys.contains op) = true := by decide

theorem level_some_mem {op : Bytes} {l : Nat} (h : level orderOfOps op = some l) :
    opKeys.contains op = true := by
  obtain ⟨set, hs, hc⟩ := level_some_in h
  have h1 := List.all_eq_true.mp sets_in_keys set hs
  exact List.all_eq_true.mp h1 op (List.contains_iff_mem.mp hc)

/-! ### lengths and fuel -/

theorem getNextExpr_len {cg : Bytes → Except Err (Parsed α)} :
    ∀ (toks : List Token) (r : Parsed α) (rest : List Token),
      getNextExpr A cg toks = .ok (r, rest) → rest.length < toks.length := by
  intro toks
  induction toks with
  | nil => intro r rest h; simp [getNextExpr] at h
  | cons tk tl ih =>
    intro r rest h
    obtain ⟨val, ty⟩ := tk
    cases ty <;> simp only [getNextExpr] at h
    · cases hc : classifyE A val with
      | error e2 => rw [hc] at h; cases h
      | ok a =>
        rw [hc] at h; injection h with h; injection h with _ h2; subst h2
        simp only [List.length_cons]; omega
    · cases hc : cg val with
      | error e2 => rw [hc] at h; cases h
      | ok r0 =>
        obtain ⟨t0, e0⟩ := r0
        rw [hc] at h; injection h with h; injection h with _ h2; subst h2
        simp only [List.length_cons]; omega
    · cases h
    · cases hc : getNextExpr A cg tl with
      | error e2 => rw [hc] at h; cases h
      | ok r0 =>
        obtain ⟨⟨t0, e0⟩, rest0⟩ := r0
        rw [hc] at h; injection h with h; injection h with _ h2; subst h2
        have := ih _ _ hc
        simp only [List.length_cons]; omega

theorem climb_len {cg : Bytes → Except Err (Parsed α)} :
    ∀ (f : Nat) (last : Bytes) (ret : Parsed α) (toks : List Token) (r : Parsed α) (rest' : List Token),
      climb A cg f last ret toks = .ok (r, rest') → rest'.length ≤ toks.length := by
  intro f
  induction f with
  | zero => intro last ret toks r rest' h; simp [climb] at h
  | succ f ih =>
    intro last ret toks r rest' h
    cases toks with
    | nil =>
      simp only [climb] at h
      injection h with h; injection h with _ h2; subst h2; exact Nat.le_refl _
    | cons tk rest =>
      simp only [climb] at h
      cases hop : getNextOp tk with
      | error e2 => rw [hop] at h; cases h
      | ok oc =>
        obtain ⟨op, c⟩ := oc
        rw [hop] at h
        simp only at h
        cases hord : opCodeOrder last op with
        | error e2 => rw [hord] at h; cases h
        | ok ord =>
          rw [hord] at h
          simp only at h
          by_cases h1 : ord = 1
          · simp only [h1, if_true] at h
            cases hne : getNextExpr A cg (if c = true then rest else tk :: rest) with
            | error e2 => rw [hne] at h; cases h
            | ok r1 =>
              obtain ⟨⟨t1, e1⟩, toks1⟩ := r1
              rw [hne] at h
              simp only at h
              have l0 := getNextExpr_len A _ _ _ hne
              cases hc1 : climb A cg f op (t1, e1) toks1 with
              | error e2 => rw [hc1] at h; cases h
              | ok r2 =>
                obtain ⟨⟨t2, e2⟩, toks2⟩ := r2
                rw [hc1] at h
                have l1 := ih _ _ _ _ _ hc1
                have l2 := ih _ _ _ _ _ h
                split at l0 <;> simp only [List.length_cons] at l0 ⊢ <;> omega
          · simp only [h1, if_false] at h
            injection h with h; injection h with _ h2; subst h2; exact Nat.le_refl _

/-- Fuel beyond the number of tokens changes nothing. -/
theorem climb_suff {cg : Bytes → Except Err (Parsed α)} :
    ∀ (g f : Nat) (last : Bytes) (ret : Parsed α) (toks : List Token) (r : Parsed α × List Token),
      climb A cg f last ret toks = .ok r → toks.length < g → climb A cg g last ret toks = .ok r := by
  intro g
  induction g with
  | zero => intro f last ret toks r _ hl; omega
  | succ g ih =>
    intro f last ret toks r h hl
    cases f with
    | zero => simp [climb] at h
    | succ f =>
      cases toks with
      | nil => simp only [climb] at h ⊢; exact h
      | cons tk rest =>
        simp only [climb] at h ⊢
        cases hop : getNextOp tk with
        | error e2 => rw [hop] at h; cases h
        | ok oc =>
          obtain ⟨op, c⟩ := oc
          rw [hop] at h
          simp only at h ⊢
          cases hord : opCodeOrder last op with
          | error e2 => rw [hord] at h; cases h
          | ok ord =>
            rw [hord] at h
            simp only at h ⊢
            by_cases h1 : ord = 1
            · simp only [h1, if_true] at h ⊢
              cases hne : getNextExpr A cg (if c = true then rest else tk :: rest) with
              | error e2 => rw [hne] at h; cases h
              | ok r1 =>
                obtain ⟨⟨t1, e1⟩, toks1⟩ := r1
                rw [hne] at h
                simp only at h ⊢
                have l0 := getNextExpr_len A _ _ _ hne
                have l0' : toks1.length < g := by
                  simp only [List.length_cons] at hl
                  split at l0 <;> (try simp only [List.length_cons] at l0) <;> omega
                cases hc1 : climb A cg f op (t1, e1) toks1 with
                | error e2 => rw [hc1] at h; cases h
                | ok r2 =>
                  obtain ⟨⟨t2, e2⟩, toks2⟩ := r2
                  rw [hc1] at h
                  simp only at h
                  rw [ih _ _ _ _ _ hc1 l0']
                  simp only
                  have l1 := climb_len A _ _ _ _ _ _ hc1
                  exact ih _ _ _ _ _ h (by omega)
            · simp only [h1, if_false] at h ⊢
              exact h

/-- The tree component of the loop's result does not depend on the expression component of the
    accumulated operand. -/
theorem climb_tree_indep {cg : Bytes → Except Err (Parsed α)} :
    ∀ (f : Nat) (last : Bytes) (t : Tree) (e1 : Expr α) (toks : List Token) (t' : Tree) (e1' : Expr α)
      (rest' : List Token),
      climb A cg f last (t, e1) toks = .ok ((t', e1'), rest') →
      ∀ e2 : Expr α, ∃ e2', climb A cg f last (t, e2) toks = .ok ((t', e2'), rest') := by
  intro f
  induction f with
  | zero => intro last t e1 toks t' e1' rest' h; simp [climb] at h
  | succ f ih =>
    intro last t e1 toks t' e1' rest' h e2
    cases toks with
    | nil =>
      simp only [climb] at h ⊢
      injection h with h; injection h with h1 h2; injection h1 with ht he
      subst ht; subst h2
      exact ⟨_, rfl⟩
    | cons tk rest =>
      simp only [climb] at h ⊢
      cases hop : getNextOp tk with
      | error e2 => rw [hop] at h; cases h
      | ok oc =>
        obtain ⟨op, c⟩ := oc
        rw [hop] at h
        simp only at h ⊢
        cases hord : opCodeOrder last op with
        | error e2 => rw [hord] at h; cases h
        | ok ord =>
          rw [hord] at h
          simp only at h ⊢
          by_cases h1 : ord = 1
          · simp only [h1, if_true] at h ⊢
            cases hne : getNextExpr A cg (if c = true then rest else tk :: rest) with
            | error e2 => rw [hne] at h; cases h
            | ok r1 =>
              obtain ⟨⟨t1, ex1⟩, toks1⟩ := r1
              rw [hne] at h
              simp only at h ⊢
              cases hc1 : climb A cg f op (t1, ex1) toks1 with
              | error e2 => rw [hc1] at h; cases h
              | ok r2 =>
                obtain ⟨⟨t2, ex2⟩, toks2⟩ := r2
                rw [hc1] at h
                simp only at h ⊢
                exact ih _ _ _ _ _ _ _ h _
          · simp only [h1, if_false] at h ⊢
            injection h with h; injection h with h1' h2; injection h1' with ht he
            subst ht; subst h2
            exact ⟨_, rfl⟩

/-! ### completeness -/

def Lits (t : Tree) : Prop := t.allLits (fun v => (classify A v).isSome) = true

/-- every group token of the list has a text shorter than `N` -/
def GrpLt (N : Nat) (toks : List Token) : Prop := ∀ tk ∈ toks, tk.t = .group → tk.val.length < N

/-- the group compiler succeeds on every well-formed group shorter than `N` -/
def HcgC (cg : Bytes → Except Err (Parsed α)) (N : Nat) : Prop :=
  ∀ s0 e0, s0.length < N → tok s0 = some e0.flatten → WellPrec orderOfOps e0 → Deep tok e0 → Lits A e0 →
    ∃ ex, cg s0 = .ok (e0, ex)

theorem grpLt_append {N : Nat} {a b : List Token} : GrpLt N (a ++ b) ↔ GrpLt N a ∧ GrpLt N b := by
  constructor
  · intro h
    exact ⟨fun tk hm => h tk (List.mem_append_left _ hm), fun tk hm => h tk (List.mem_append_right _ hm)⟩
  · intro ⟨ha, hb⟩ tk hm
    rcases List.mem_append.mp hm with h | h
    · exact ha tk h
    · exact hb tk h

theorem atom_complete {cg : Bytes → Except Err (Parsed α)} {N : Nat} (hcgc : HcgC A cg N) :
    ∀ t : Tree, t.isAtom = true → WellPrec orderOfOps t → Deep tok t → Lits A t → GrpLt N t.flatten →
      ∀ rest, ∃ e, getNextExpr A cg (t.flatten ++ rest) = .ok ((t, e), rest) := by
  intro t
  induction t with
  | lit v =>
    intro _ _ _ hl _ rest
    simp only [Lits, Tree.allLits, classify] at hl
    simp only [Tree.flatten, List.cons_append, List.nil_append, getNextExpr]
    cases hc : classifyE A v with
    | error err => rw [hc] at hl; cases hl
    | ok a => exact ⟨_, rfl⟩
  | grp s e0 _ =>
    intro _ hwp hd hl hg rest
    cases hwp with
    | grp _ _ hwp0 =>
      cases hd with
      | grp _ _ htok hd0 =>
        have hlen : s.length < N := hg ⟨s, .group⟩ (by simp [Tree.flatten]) rfl
        obtain ⟨ex, hex⟩ := hcgc s e0 hlen htok hwp0 hd0 hl
        simp only [Tree.flatten, List.cons_append, List.nil_append, getNextExpr, hex]
        exact ⟨_, rfl⟩
  | un m e0 ih =>
    intro _ hwp hd hl hg rest
    cases hwp with
    | un _ _ hat hwp0 =>
      cases hd with
      | un _ _ hd0 =>
        have hg0 : GrpLt N e0.flatten := fun tk hm => hg tk (by simp [Tree.flatten, hm])
        obtain ⟨e, he⟩ := ih hat hwp0 hd0 hl hg0 rest
        simp only [Tree.flatten, List.cons_append, getNextExpr, he]
        exact ⟨_, rfl⟩
  | bin i op l r _ _ => intro h; simp [Tree.isAtom] at h

theorem swg_flatten : ∀ t : Tree, t.startsWithGroup = true → ∃ s tl, t.flatten = ⟨s, .group⟩ :: tl := by
  intro t
  induction t with
  | lit v => intro h; simp [Tree.startsWithGroup] at h
  | grp s e _ => intro _; exact ⟨s, [], rfl⟩
  | un m e _ => intro h; simp [Tree.startsWithGroup] at h
  | bin i op l r ihl _ =>
    intro h
    obtain ⟨s, tl, hs⟩ := ihl h
    exact ⟨s, tl ++ ((if i = true then [] else [⟨op, .op⟩]) ++ r.flatten), by simp [Tree.flatten, hs]⟩

/-- the loop stops at once when the next operator is not tighter than the frame's -/
theorem climb_stops {cg : Bytes → Except Err (Parsed α)} (op : Bytes) (lv : Nat)
    (hlv : level orderOfOps op = some lv) (t : Tree) (e : Expr α) (rest : List Token)
    (hnext : rest = [] ∨ ∃ tk tl op2 c2, rest = tk :: tl ∧ getNextOp tk = .ok (op2, c2) ∧
      ∀ y, level orderOfOps op2 = some y → lv ≤ y) :
    ∃ e', climb A cg 1 op (t, e) rest = .ok ((t, e'), rest) := by
  rcases hnext with h | ⟨tk, tl, op2, c2, h, hop, hle⟩
  · subst h; exact ⟨_, rfl⟩
  · subst h
    obtain ⟨r, hr, hne⟩ := order_not_one_conv (a := op) (b := op2) hlv hle
    have hr' : opCodeOrder op op2 = .ok r := hr
    simp only [climb, hop, hr', hne, if_false]
    exact ⟨_, rfl⟩

theorem climb_complete {cg : Bytes → Except Err (Parsed α)} {N : Nat} (hcgc : HcgC A cg N) :
    ∀ t : Tree, WellPrec orderOfOps t → Deep tok t → Lits A t → GrpLt N t.flatten →
      ∀ (last : Bytes) (rest : List Token) (t' : Tree) (rest' : List Token) (f : Nat) (e e' : Expr α),
        climb A cg f last (t, e) rest = .ok ((t', e'), rest') →
        (∀ x, t.rootLvl orderOfOps = some x → ∀ l, level orderOfOps last = some l → x < l) →
        (∀ x y, t.rootLvl orderOfOps = some x → headLvl rest = some y → x ≤ y) →
        ∃ a ea toksA f2 e2', getNextExpr A cg (t.flatten ++ rest) = .ok ((a, ea), toksA) ∧
          climb A cg f2 last (a, ea) toksA = .ok ((t', e2'), rest') := by
  -- atoms, uniformly
  have atoms : ∀ t : Tree, t.isAtom = true → WellPrec orderOfOps t → Deep tok t → Lits A t →
      GrpLt N t.flatten →
      ∀ (last : Bytes) (rest : List Token) (t' : Tree) (rest' : List Token) (f : Nat) (e e' : Expr α),
        climb A cg f last (t, e) rest = .ok ((t', e'), rest') →
        ∃ a ea toksA f2 e2', getNextExpr A cg (t.flatten ++ rest) = .ok ((a, ea), toksA) ∧
          climb A cg f2 last (a, ea) toksA = .ok ((t', e2'), rest') := by
    intro t hat hwp hd hl hg last rest t' rest' f e e' h
    obtain ⟨ea, hea⟩ := atom_complete A hcgc t hat hwp hd hl hg rest
    obtain ⟨e2', h2⟩ := climb_tree_indep A _ _ _ _ _ _ _ _ h ea
    exact ⟨t, ea, rest, f, e2', hea, h2⟩
  intro t
  induction t with
  | lit v => intro hwp hd hl hg last rest t' rest' f e e' h _ _; exact atoms _ rfl hwp hd hl hg _ _ _ _ _ _ _ h
  | grp s e0 _ => intro hwp hd hl hg last rest t' rest' f e e' h _ _; exact atoms _ rfl hwp hd hl hg _ _ _ _ _ _ _ h
  | un m e0 _ => intro hwp hd hl hg last rest t' rest' f e e' h _ _; exact atoms _ rfl hwp hd hl hg _ _ _ _ _ _ _ h
  | bin imp op l r ihl ihr =>
    intro hwp hd hl hg last rest t' rest' f e e' h htight hstop
    cases hwp with
    | bin _ _ _ _ lv hwl hwr hlv hleft hright himp =>
    cases hd with
    | bin _ _ _ _ hdl hdr =>
    have hll : Lits A l := by
      have := hl; simp only [Lits, Tree.allLits, Bool.and_eq_true] at this; exact this.1
    have hlr : Lits A r := by
      have := hl; simp only [Lits, Tree.allLits, Bool.and_eq_true] at this; exact this.2
    simp only [Tree.flatten] at hg
    have hg' := (grpLt_append.mp hg)
    have hgl : GrpLt N l.flatten := (grpLt_append.mp hg'.1).1
    have hgr : GrpLt N r.flatten := hg'.2
    have hroot : (Tree.bin imp op l r).rootLvl orderOfOps = some lv := hlv
    -- what follows the whole node
    have hnext : rest = [] ∨ ∃ tk tl op2 c2, rest = tk :: tl ∧ getNextOp tk = .ok (op2, c2) ∧
        ∀ y, level orderOfOps op2 = some y → lv ≤ y := by
      cases rest with
      | nil => exact Or.inl rfl
      | cons tk tl =>
        right
        cases f with
        | zero => simp [climb] at h
        | succ f =>
          simp only [climb] at h
          cases hop : getNextOp tk with
          | error err => rw [hop] at h; cases h
          | ok oc =>
            obtain ⟨op2, c2⟩ := oc
            refine ⟨tk, tl, op2, c2, rfl, hop, ?_⟩
            intro y hy
            exact hstop lv y hroot (by simp only [headLvl, hop, hy])
    -- the right operand, parsed in the frame of `op`
    obtain ⟨er0, hstopR⟩ := climb_stops A (cg := cg) op lv hlv r (.val A.zero) rest hnext
    obtain ⟨a1, ea1, toksA1, f2, er2, hne1, hcl1⟩ := ihr hwr hdr hlr hgr op rest r rest 1 _ _ hstopR
      (by intro x hx l' hl'; rw [hlv] at hl'; injection hl' with hl'; subst hl'; exact hright x hx)
      (by
        intro x y hx hy
        have hxl := hright x hx
        rcases hnext with hn | ⟨tk, tl, op2, c2, hn, hop, hle⟩
        · subst hn; simp [headLvl] at hy
        · subst hn
          simp only [headLvl, hop] at hy
          have := hle y hy
          omega)
    -- the loop over `l` followed by the operator and the right operand
    have hopOrd : opCodeOrder last op = .ok 1 :=
      order_is_one hlv (fun la hla => htight lv hroot la hla)
    let g := (r.flatten ++ rest).length + 1
    have lenA1 : toksA1.length < (r.flatten ++ rest).length := getNextExpr_len A _ _ _ hne1
    have hcl1g : climb A cg g op (a1, ea1) toksA1 = .ok ((r, er2), rest) :=
      climb_suff A g _ _ _ _ _ hcl1 (by omega)
    have hrestlen : rest.length < g := by simp only [g, List.length_append]; omega
    have stepC : ∀ el : Expr α, ∃ e'', climb A cg (g + 1) last (l, el)
        ((if imp = true then [] else [⟨op, .op⟩]) ++ r.flatten ++ rest) = .ok ((t', e''), rest') := by
      intro el
      obtain ⟨e3, h3⟩ := climb_tree_indep A _ _ _ _ _ _ _ _ h
        (Expr.bin op (simplify A el) (simplify A er2))
      have h3g := climb_suff A g _ _ _ _ _ h3 hrestlen
      cases himpb : imp with
      | false =>
        have hmem : opKeys.contains op = true := level_some_mem hlv
        simp only [Bool.false_eq_true, if_false, List.cons_append, List.nil_append,
          climb, getNextOp, hmem, if_true, hopOrd, hne1, hcl1g]
        rw [himpb] at h3g
        exact ⟨e3, h3g⟩
      | true =>
        obtain ⟨hstar, hswg⟩ := himp himpb
        obtain ⟨s, tl, hfl⟩ := swg_flatten r hswg
        subst hstar
        rw [hfl] at hne1
        simp only [List.cons_append] at hne1
        simp only [if_true, List.nil_append, hfl, List.cons_append, climb, getNextOp, hopOrd,
          Bool.false_eq_true, if_false, hne1, hcl1g]
        rw [himpb] at h3g
        exact ⟨e3, h3g⟩
    obtain ⟨e'', hC⟩ := stepC (.val A.zero)
    have hheadl : headLvl ((if imp = true then [] else [⟨op, .op⟩]) ++ r.flatten ++ rest) = some lv := by
      cases himpb : imp with
      | false =>
        have hmem : opKeys.contains op = true := level_some_mem hlv
        simp only [Bool.false_eq_true, if_false, List.cons_append, List.nil_append, headLvl, getNextOp, hmem,
          if_true, hlv]
      | true =>
        obtain ⟨hstar, hswg⟩ := himp himpb
        obtain ⟨s, tl, hfl⟩ := swg_flatten r hswg
        subst hstar
        simp only [if_true, List.nil_append, hfl, List.cons_append, headLvl, getNextOp, hlv]
    obtain ⟨a, ea, toksA, f3, e3', hne, hcl⟩ := ihl hwl hdl hll hgl last _ t' rest' _ _ _ hC
      (by intro x hx l' hl'; have := hleft x hx; have := htight lv hroot l' hl'; omega)
      (by intro x y hx hy; rw [hheadl] at hy; injection hy with hy; subst hy; exact hleft x hx)
    refine ⟨a, ea, toksA, f3, e3', ?_, hcl⟩
    rw [← hne]
    simp only [Tree.flatten, List.append_assoc]

theorem compileTokens_complete {cg : Bytes → Except Err (Parsed α)} {N : Nat} (hcgc : HcgC A cg N)
    (t : Tree) (hwp : WellPrec orderOfOps t) (hd : Deep tok t) (hl : Lits A t) (hg : GrpLt N t.flatten) :
    ∃ e, compileTokens A cg t.flatten = .ok (t, e) := by
  have h0 : climb A cg 1 [] (t, Expr.val A.zero) [] = .ok ((t, simplify A (Expr.val A.zero)), []) := rfl
  obtain ⟨a, ea, toksA, f2, e2', hne, hcl⟩ := climb_complete A hcgc t hwp hd hl hg [] [] t [] 1 _ _ h0
    (by intro x _ l hl'; rw [level_empty] at hl'; cases hl')
    (by intro x y _ hy; simp [headLvl] at hy)
  rw [List.append_nil] at hne
  have := climb_suff A (toksA.length + 1) _ _ _ _ _ hcl (Nat.lt_succ_self _)
  simp only [compileTokens, hne, this]
  exact ⟨_, rfl⟩

/-! ### the tokenizer: a group's text is shorter than the formula -/

def TInv (st : TokSt) (n : Nat) : Prop :=
  (∀ tk ∈ st.ret, tk.t = .group → tk.val.length < n) ∧
  st.sb.length + (if st.parens > 0 then 1 else 0) ≤ n

theorem ret_ext {P : Token → Prop} {ret : List Token} {x : Token} (h : ∀ tk ∈ ret, P tk) (hx : P x) :
    ∀ tk ∈ ret ++ [x], P tk := by
  intro tk hm
  rcases List.mem_append.mp hm with hm | hm
  · exact h tk hm
  · rw [List.mem_singleton.mp hm]; exact hx

theorem tokStep_inv {st st' : TokSt} {r : UInt8} {s : Bytes} {n : Nat} (hi : TInv st n)
    (h : tokStep st r s = .ok st') : TInv st' (n + 1) := by
  obtain ⟨hret, hsb⟩ := hi
  have weaken : ∀ tk ∈ st.ret, tk.t = .group → tk.val.length < n + 1 :=
    fun tk hm hg => Nat.lt_succ_of_lt (hret tk hm hg)
  unfold tokStep at h
  repeat' split at h
  all_goals (cases h)
  all_goals (try simp only [Bool.and_eq_true, decide_eq_true_eq, Bool.not_eq_true'] at *)
  all_goals refine ⟨?_, ?_⟩
  all_goals (try simp only)
  all_goals (try split)
  all_goals first
    | exact weaken
    | (refine ret_ext weaken ?_; intro _; show st.sb.length < n + 1; split at hsb <;> omega)
    | exact ret_ext weaken (by intro hg; cases hg)
    | exact ret_ext (ret_ext weaken (by intro hg; cases hg)) (by intro hg; cases hg)
    | ((try simp only [List.length_append, List.length_cons, List.length_nil] at hsb ⊢)
       (try split at hsb) <;> (try split) <;> omega)

theorem tokLoop_inv : ∀ (s : Bytes) (st st' : TokSt) (n : Nat), TInv st n → tokLoop s st = .ok st' →
    TInv st' (n + s.length) := by
  intro s
  induction s with
  | nil => intro st st' n hi h; simp only [tokLoop] at h; injection h with h; subst h; exact hi
  | cons r rest ih =>
    intro st st' n hi h
    simp only [tokLoop] at h
    cases hs : tokStep st r (r :: rest) with
    | error e => rw [hs] at h; cases h
    | ok st1 =>
      rw [hs] at h
      have := ih st1 st' (n + 1) (tokStep_inv hi hs) h
      simp only [List.length_cons]
      rw [show n + (rest.length + 1) = n + 1 + rest.length by omega]
      exact this

theorem tok_group_len {s : Bytes} {toks : List Token} (h : tok s = some toks) : GrpLt s.length toks := by
  simp only [tok] at h
  cases ht : tokenize s with
  | error e => rw [ht] at h; cases h
  | ok l =>
    rw [ht] at h
    injection h with h
    subst h
    simp only [tokenize] at ht
    cases hl : tokLoop s ⟨[], [], 0, 0⟩ with
    | error e => rw [hl] at ht; cases ht
    | ok st =>
      rw [hl] at ht
      simp only at ht
      have inv := tokLoop_inv s _ st 0 ⟨(by intro tk hm; cases hm), (by simp)⟩ hl
      simp only [Nat.zero_add] at inv
      split at ht
      · cases ht
      · injection ht with ht
        subst ht
        split
        · exact inv.1
        · exact ret_ext inv.1 (by intro hg; cases hg)

theorem compileF_complete : ∀ (f : Nat) (s : Bytes) (t : Tree), s.length < f → tok s = some t.flatten →
    WellPrec orderOfOps t → Deep tok t → Lits A t → ∃ e, compileF A f s = .ok (t, e) := by
  intro f
  induction f with
  | zero => intro s t h; omega
  | succ f ih =>
    intro s t hlen htok hwp hd hl
    have hg := tok_group_len htok
    have hcgc : HcgC A (compileF A f) s.length := by
      intro s0 e0 hl0 ht0 hw0 hd0 hll0
      exact ih s0 e0 (by omega) ht0 hw0 hd0 hll0
    obtain ⟨e, he⟩ := compileTokens_complete A hcgc t hwp hd hl hg
    simp only [tok] at htok
    cases ht : tokenize s with
    | error err => rw [ht] at htok; cases htok
    | ok toks =>
      rw [ht] at htok
      injection htok with htok
      subst htok
      simp only [compileF, ht]
      exact ⟨e, he⟩

/-! ### replacing constants by variables bound to the same value (and back) -/

/-- `t'` is `t` with literal leaves replaced (anywhere, also inside groups, whose text then
    changes too) by literals that denote, under `b'`, the value the old ones denote under `b`. -/
inductive LitSubst (b b' : Binding α) : Tree → Tree → Prop
  | lit (v v' : Bytes) (a a' : Atom α) : classify A v = some a → classify A v' = some a' →
      a.eval b = a'.eval b' → LitSubst b b' (.lit v) (.lit v')
  | grp (s s' : Bytes) (e e' : Tree) : LitSubst b b' e e' → LitSubst b b' (.grp s e) (.grp s' e')
  | un (m : Bytes) (e e' : Tree) : LitSubst b b' e e' → LitSubst b b' (.un m e) (.un m e')
  | bin (i : Bool) (op : Bytes) (l l' r r' : Tree) : LitSubst b b' l l' → LitSubst b b' r r' →
      LitSubst b b' (.bin i op l r) (.bin i op l' r')

variable {A}

theorem LitSubst.eval_eq {b b' : Binding α} {t t' : Tree} (h : LitSubst A b b' t t') :
    t.eval A (classify A) b = t'.eval A (classify A) b' := by
  induction h with
  | lit v v' a a' h1 h2 h3 => simp only [Tree.eval, h1, h2, h3]
  | grp s s' e e' _ ih => simp only [Tree.eval, ih]
  | un m e e' _ ih => simp only [Tree.eval, ih]
  | bin i op l l' r r' _ _ ihl ihr => simp only [Tree.eval, ihl, ihr]

theorem LitSubst.shape {b b' : Binding α} {t t' : Tree} (h : LitSubst A b b' t t') :
    t'.isAtom = t.isAtom ∧ t'.rootLvl orderOfOps = t.rootLvl orderOfOps ∧
    t'.startsWithGroup = t.startsWithGroup := by
  induction h with
  | lit v v' a a' _ _ _ => exact ⟨rfl, rfl, rfl⟩
  | grp s s' e e' _ _ => exact ⟨rfl, rfl, rfl⟩
  | un m e e' _ _ => exact ⟨rfl, rfl, rfl⟩
  | bin i op l l' r r' _ _ ihl _ => exact ⟨rfl, rfl, by simp only [Tree.startsWithGroup, ihl.2.2]⟩

theorem LitSubst.wp {b b' : Binding α} {t t' : Tree} (h : LitSubst A b b' t t')
    (hwp : WellPrec orderOfOps t) : WellPrec orderOfOps t' := by
  induction h with
  | lit v v' a a' _ _ _ => exact WellPrec.lit _
  | grp s s' e e' _ ih => cases hwp with | grp _ _ h0 => exact WellPrec.grp _ _ (ih h0)
  | un m e e' hs ih =>
    cases hwp with
    | un _ _ hat h0 => exact WellPrec.un _ _ (by rw [hs.shape.1]; exact hat) (ih h0)
  | bin i op l l' r r' hl hr ihl ihr =>
    cases hwp with
    | bin _ _ _ _ lv hwl hwr hlv hleft hright himp =>
      refine WellPrec.bin _ _ _ _ lv (ihl hwl) (ihr hwr) hlv ?_ ?_ ?_
      · intro x hx; rw [hl.shape.2.1] at hx; exact hleft x hx
      · intro x hx; rw [hr.shape.2.1] at hx; exact hright x hx
      · intro hi; rw [hr.shape.2.2]; exact himp hi

theorem LitSubst.lits {b b' : Binding α} {t t' : Tree} (h : LitSubst A b b' t t') : Lits A t' := by
  induction h with
  | lit v v' a a' _ h2 _ => simp only [Lits, Tree.allLits, h2]; rfl
  | grp s s' e e' _ ih => exact ih
  | un m e e' _ ih => exact ih
  | bin i op l l' r r' _ _ ihl ihr =>
    simp only [Lits, Tree.allLits, Bool.and_eq_true]
    exact ⟨ihl, ihr⟩

end Rare.C19
