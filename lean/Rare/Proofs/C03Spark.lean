import Rare.Proofs.C07TrimLink
import Rare.Proofs.C03Det
/-!
`rare spark`: the trim step inside every render (`cmd/spark.go`) does not make the final table depend on WHERE the
renders fall among the samples – for a column order that looks at the names only (after b216f7d the trim runs for
those orders only).

`renderStep n t s co ro`: one execution of the trim step on table `t`, where `s` is what `OrderedColumns(colSorter)`
returned (any arrangement of the column names that is sorted by the strict total name order `lt`) and `co`, `ro` are
the map iteration orders of `Trim`.  `SparkReach`: all tables reachable by interleaving samples and render steps.
Main result `spark_final`: a final render step after any such interleaving leaves the same cells, rows, columns and
error count as one render step on the sequentially sampled, never trimmed table.
-/
namespace Rare.C03
open Rare.C07 Rare.C13

structure NameOrder (lt : Bytes → Bytes → Bool) : Prop where
  irrefl : ∀ a, lt a a = false
  trans : ∀ a b c, lt a b = true → lt b c = true → lt a c = true
  total : ∀ a b, a ≠ b → lt a b = true ∨ lt b a = true

theorem NameOrder.asymm {lt : Bytes → Bytes → Bool} (ho : NameOrder lt) {a b : Bytes} (h : lt a b = true) : lt b a = false := by
  cases hba : lt b a with
  | false => rfl
  | true => have := ho.trans a b a h hba; rw [ho.irrefl] at this; cases this

/-- how many of `S` are ranked after `c` -/
def above (lt : Bytes → Bytes → Bool) (S : List Bytes) (c : Bytes) : Nat := S.countP fun x => lt c x

theorem above_cons (lt : Bytes → Bytes → Bool) (a : Bytes) (S : List Bytes) (c : Bytes) :
    above lt (a :: S) c = above lt S c + if lt c a then 1 else 0 := by
  simp [above, List.countP_cons]

theorem above_le_length (lt : Bytes → Bytes → Bool) (S : List Bytes) (c : Bytes) : above lt S c ≤ S.length :=
  List.countP_le_length

theorem above_perm (lt : Bytes → Bytes → Bool) {S T : List Bytes} (h : S.Perm T) (c : Bytes) : above lt S c = above lt T c :=
  h.countP_eq _

theorem above_mono (lt : Bytes → Bytes → Bool) {S T : List Bytes} (hnd : S.Nodup) (hsub : ∀ x ∈ S, x ∈ T) (c : Bytes) :
    above lt S c ≤ above lt T c := by
  unfold above
  rw [List.countP_eq_length_filter, List.countP_eq_length_filter]
  apply List.Nodup.length_le_of_subset (hnd.sublist List.filter_sublist)
  intro x hx
  simp only [List.mem_filter] at hx ⊢
  exact ⟨hsub x hx.1, hx.2⟩

abbrev SortedBy (lt : Bytes → Bytes → Bool) (s : List Bytes) : Prop := s.Pairwise fun a b => lt a b = true

theorem SortedBy.nodup {lt : Bytes → Bytes → Bool} (ho : NameOrder lt) {s : List Bytes} (h : SortedBy lt s) : s.Nodup := by
  refine List.Pairwise.imp ?_ h
  intro a b hab e
  subst e
  rw [ho.irrefl] at hab; cases hab

/-- The last `n` of a sorted list are the elements with fewer than `n` elements after them. -/
theorem mem_lastN {lt : Bytes → Bytes → Bool} (ho : NameOrder lt) (n : Nat) : ∀ s : List Bytes, SortedBy lt s →
    ∀ c, c ∈ s.drop (s.length - n) ↔ c ∈ s ∧ above lt s c < n := by
  intro s
  induction s with
  | nil => intro _ c; simp
  | cons a s' ih =>
    intro hs c
    have hs' := List.pairwise_cons.mp hs
    have ha : above lt s' a = s'.length := by
      unfold above
      rw [List.countP_eq_length]
      intro x hx; exact hs'.1 x hx
    have hca : ∀ x ∈ s', lt x a = false := fun x hx => ho.asymm (hs'.1 x hx)
    by_cases hn : n ≤ s'.length
    · have e : (a :: s').length - n = (s'.length - n) + 1 := by simp only [List.length_cons]; omega
      rw [e, List.drop_succ_cons, ih hs'.2 c]
      constructor
      · rintro ⟨hm, hab⟩
        refine ⟨List.mem_cons_of_mem _ hm, ?_⟩
        rw [above_cons, hca c hm]; simpa using hab
      · rintro ⟨hm, hab⟩
        rcases List.mem_cons.mp hm with rfl | hm'
        · rw [above_cons, ho.irrefl, ha] at hab; simp at hab; omega
        · rw [above_cons, hca c hm'] at hab
          exact ⟨hm', by simpa using hab⟩
    · have e : (a :: s').length - n = 0 := by simp only [List.length_cons]; omega
      rw [e, List.drop_zero]
      constructor
      · intro hm
        refine ⟨hm, ?_⟩
        rcases List.mem_cons.mp hm with rfl | hm'
        · rw [above_cons, ho.irrefl, ha]; simp; omega
        · rw [above_cons, hca c hm']
          have := above_le_length lt s' c
          simp; omega
      · exact fun h => h.1

/-! ### the render step -/

/-- `func(col, row, val) bool { _, ok := keepLookup[col]; return !ok }` -/
def renderPred (keep : List Bytes) : Pred := fun c _ _ => !keep.contains c

/-- The trim step of the render callback, given the result `s` of `OrderedColumns(colSorter)`. -/
def renderStep (n : Nat) (t : Table) (s co : List Bytes) (ro : Bytes → List Bytes) : Table :=
  if s.length > n then (t.trim (renderPred (s.drop (s.length - n))) co ro).1 else t

/-- `s` is a possible result of `OrderedColumns(colSorter)` on `t` -/
def IsSortedCols (lt : Bytes → Bytes → Bool) (t : Table) (s : List Bytes) : Prop :=
  s.Perm (akeys t.cols) ∧ SortedBy lt s

theorem foldl_keeps {σ β : Type} (f : σ → β → σ) (P : σ → Prop) (h : ∀ s b, P s → P (f s b)) :
    ∀ (l : List β) (s : σ), P s → P (l.foldl f s) := by
  intro l
  induction l with
  | nil => intro s hs; exact hs
  | cons b l ih => intro s hs; exact ih _ (h s b hs)

theorem trimCell_de (p : Pred) (c : Bytes) (d : Bytes) (e : Nat) (st : Table × Nat × Bool) (rn : Bytes)
    (h : st.1.delim = d ∧ st.1.errors = e) :
    (Table.trimCell p c st rn).1.delim = d ∧ (Table.trimCell p c st rn).1.errors = e := by
  obtain ⟨t, n, ra⟩ := st
  unfold Table.trimCell
  simp only
  split
  · exact h
  · split <;> exact h

theorem trimCol_de (p : Pred) (L : List Bytes) (d : Bytes) (e : Nat) (st : Table × Nat) (c : Bytes)
    (h : st.1.delim = d ∧ st.1.errors = e) :
    (Table.trimCol p L st c).1.delim = d ∧ (Table.trimCol p L st c).1.errors = e := by
  unfold Table.trimCol
  split
  · exact h
  · have := foldl_keeps (Table.trimCell p c) (fun s => s.1.delim = d ∧ s.1.errors = e)
      (fun s b hs => trimCell_de p c d e s b hs) L (st.1, st.2, true) h
    simp only
    split <;> exact this

theorem trim_delim_errors (t : Table) (p : Pred) (co : List Bytes) (ro : Bytes → List Bytes) :
    (t.trim p co ro).1.delim = t.delim ∧ (t.trim p co ro).1.errors = t.errors := by
  unfold Table.trim
  exact foldl_keeps (fun st c => Table.trimCol p (ro c) st c) (fun s => s.1.delim = t.delim ∧ s.1.errors = t.errors)
    (fun s b hs => trimCol_de p (ro b) _ _ s b hs) co (t, 0) ⟨rfl, rfl⟩

/-- the cells of a well-formed table name existing columns -/
theorem cell_col_mem {t : Table} (hwf : t.WF) {c r : Bytes} (h : (t.cell c r).isSome) : c ∈ akeys t.cols :=
  (mem_akeys_iff _ _).mpr ((hwf.cols_iff c).mpr ⟨r, h⟩)

/-- What a render step leaves: the cells of the columns with fewer than `n` columns after them. -/
theorem render_cells {lt : Bytes → Bytes → Bool} (ho : NameOrder lt) (n : Nat) (t : Table) (s co : List Bytes)
    (ro : Bytes → List Bytes) (hwf : t.WF) (hs : IsSortedCols lt t s) (hcov : Covers t co ro) (c r : Bytes) :
    (renderStep n t s co ro).cell c r = if above lt (akeys t.cols) c < n then t.cell c r else none := by
  have hkey : ∀ v, t.cell c r = some v → (c ∈ s.drop (s.length - n) ↔ above lt (akeys t.cols) c < n) := by
    intro v hv
    have hm : c ∈ s := hs.1.mem_iff.mpr (cell_col_mem hwf (by rw [hv]; rfl))
    rw [mem_lastN ho n s hs.2 c, above_perm lt hs.1 c]
    exact ⟨fun h => h.2, fun h => ⟨hm, h⟩⟩
  unfold renderStep
  split
  · rw [trim_cells t _ co ro hwf hcov]
    cases hv : t.cell c r with
    | none => simp [trimmedCell]
    | some v =>
      have := hkey v hv
      by_cases ht : above lt (akeys t.cols) c < n
      · have hm := this.mpr ht
        simp [trimmedCell, renderPred, ht, hm]
      · have hm : ¬ c ∈ s.drop (s.length - n) := fun h => ht (this.mp h)
        simp [trimmedCell, renderPred, ht, hm]
  · rename_i hlen
    cases hv : t.cell c r with
    | none => simp
    | some v =>
      have := hkey v hv
      have e : s.length - n = 0 := by omega
      rw [e, List.drop_zero] at this
      have hm : c ∈ s := hs.1.mem_iff.mpr (cell_col_mem hwf (by rw [hv]; rfl))
      simp [this.mp hm]

theorem render_wf (n : Nat) (t : Table) (s co : List Bytes) (ro : Bytes → List Bytes) (hwf : t.WF) (hcov : Covers t co ro) :
    (renderStep n t s co ro).WF := by
  unfold renderStep; split
  · exact trim_wf t _ co ro hwf hcov
  · exact hwf

theorem render_delim_errors (n : Nat) (t : Table) (s co : List Bytes) (ro : Bytes → List Bytes) :
    (renderStep n t s co ro).delim = t.delim ∧ (renderStep n t s co ro).errors = t.errors := by
  unfold renderStep; split
  · exact trim_delim_errors t _ co ro
  · exact ⟨rfl, rfl⟩

/-! ### the invariant between the trimmed table `t` and the never trimmed one `F` -/

structure SparkInv (lt : Bytes → Bytes → Bool) (n : Nat) (F t : Table) : Prop where
  wf : t.WF
  delim : t.delim = F.delim
  errors : t.errors = F.errors
  sub : ∀ c r, (t.cell c r).isSome → (F.cell c r).isSome
  top : ∀ c, above lt (akeys F.cols) c < n → ∀ r, t.cell c r = F.cell c r

theorem SparkInv.cols_sub {lt : Bytes → Bytes → Bool} {n : Nat} {F t : Table} (h : SparkInv lt n F t) (hF : F.WF) :
    ∀ x ∈ akeys t.cols, x ∈ akeys F.cols := by
  intro x hx
  obtain ⟨r, hr⟩ := (h.wf.cols_iff x).mp ((mem_akeys_iff _ _).mp hx)
  exact cell_col_mem hF (h.sub x r hr)

theorem sample_errors_cell (t : Table) (c r : Bytes) : ({ t with errors := t.errors + 1 } : Table).cell c r = t.cell c r := rfl

theorem akeys_aset_sub {α : Type} (m : List (Bytes × α)) (k : Bytes) (v : α) : ∀ x ∈ akeys m, x ∈ akeys (aset m k v) := by
  intro x hx
  rw [mem_akeys_iff] at hx ⊢
  rw [aget_aset]
  split
  · rfl
  · exact hx

theorem inv_sample {lt : Bytes → Bytes → Bool} {n : Nat} {F t : Table} (h : SparkInv lt n F t)
    (hnd : (akeys F.cols).Nodup) (hd : F.delim ≠ []) (e : Bytes) : SparkInv lt n (F.sample e) (t.sample e) := by
  have hdt : t.delim ≠ [] := by rw [h.delim]; exact hd
  have hp : parseTable t.delim e = parseTable F.delim e := by rw [h.delim]
  rw [Table.sample_eq F e hd, Table.sample_eq t e hdt, hp]
  cases (parseTable F.delim e).inc with
  | none =>
    exact ⟨⟨h.wf.rows_nonempty, h.wf.cols_iff⟩, h.delim, by simp [h.errors], h.sub, h.top⟩
  | some inc =>
    simp only
    generalize (parseTable F.delim e).k1 = ck
    generalize (parseTable F.delim e).k2 = rk
    refine ⟨sampleItem_wf _ _ _ _ h.wf, h.delim, h.errors, ?_, ?_⟩
    · intro c r hc
      rw [sampleItem_cell] at hc ⊢
      by_cases e1 : rk = r <;> by_cases e2 : ck = c
      · simp [e1, e2]
      · simp only [e1, e2, if_true, if_false] at hc ⊢; exact h.sub c r hc
      · simp only [e1, if_false] at hc ⊢; exact h.sub c r hc
      · simp only [e1, if_false] at hc ⊢; exact h.sub c r hc
    · intro c hc r
      have hc' : above lt (akeys F.cols) c < n := by
        have := above_mono lt hnd (akeys_aset_sub F.cols ck (wrap64 ((aget F.cols ck).getD 0 + inc))) c
        have e : (F.sampleItem ck rk inc).cols = aset F.cols ck (wrap64 ((aget F.cols ck).getD 0 + inc)) := rfl
        rw [e] at hc
        omega
      rw [sampleItem_cell, sampleItem_cell, h.top c hc' r]

theorem inv_render {lt : Bytes → Bytes → Bool} (ho : NameOrder lt) {n : Nat} {F t : Table} (h : SparkInv lt n F t) (hF : F.WF)
    (s co : List Bytes) (ro : Bytes → List Bytes) (hs : IsSortedCols lt t s) (hcov : Covers t co ro) :
    SparkInv lt n F (renderStep n t s co ro) := by
  have hde := render_delim_errors n t s co ro
  refine ⟨render_wf n t s co ro h.wf hcov, hde.1.trans h.delim, hde.2.trans h.errors, ?_, ?_⟩
  · intro c r hc
    rw [render_cells ho n t s co ro h.wf hs hcov] at hc
    split at hc
    · exact h.sub c r hc
    · cases hc
  · intro c hc r
    rw [render_cells ho n t s co ro h.wf hs hcov, ← h.top c hc r]
    cases hv : t.cell c r with
    | none => simp
    | some v =>
      have hnd : (akeys t.cols).Nodup := hs.1.nodup_iff.mp (hs.2.nodup ho)
      have := above_mono lt hnd (h.cols_sub hF) c
      have : above lt (akeys t.cols) c < n := by omega
      simp [this]

/-- Tables a `spark` run can hold: any interleaving of samples (history `h`) and render steps. -/
inductive SparkReach (lt : Bytes → Bytes → Bool) (n : Nat) (d : Bytes) : List Bytes → Table → Prop
  | init : SparkReach lt n d [] { delim := d }
  | sample (h : List Bytes) (t : Table) (e : Bytes) : SparkReach lt n d h t → SparkReach lt n d (h ++ [e]) (t.sample e)
  | render (h : List Bytes) (t : Table) (s co : List Bytes) (ro : Bytes → List Bytes) :
      SparkReach lt n d h t → IsSortedCols lt t s → Covers t co ro → SparkReach lt n d h (renderStep n t s co ro)

theorem run_snoc (d : Bytes) (h : List Bytes) (e : Bytes) : Table.run d (h ++ [e]) = (Table.run d h).sample e := by
  simp [Table.run, List.foldl_append]

theorem run_delim (d : Bytes) (hd : d ≠ []) (h : List Bytes) : (Table.run d h).delim = d :=
  (tableInv_foldl h { delim := d } [] hd (tableInv_init d)).2

theorem run_wf (d : Bytes) (hd : d ≠ []) (h : List Bytes) : (Table.run d h).WF :=
  wf_of_inv _ _ (tableInv_run d hd h)

theorem reach_inv {lt : Bytes → Bytes → Bool} (ho : NameOrder lt) {n : Nat} {d : Bytes} (hd : d ≠ []) {h : List Bytes} {t : Table}
    (hr : SparkReach lt n d h t) : SparkInv lt n (Table.run d h) t := by
  induction hr with
  | init => exact ⟨wf_init d, rfl, rfl, fun _ _ x => x, fun _ _ _ => rfl⟩
  | sample h t e _ ih =>
    rw [run_snoc]
    exact inv_sample ih (tableInv_run d hd h).nodupCols (by rw [run_delim d hd h]; exact hd) e
  | render h t s co ro _ hs hcov ih => exact inv_render ho ih (run_wf d hd h) s co ro hs hcov

/-- a column with at least `n` columns after it in the full table also has `n` after it in the trimmed one: the
last `n` columns of the full table are all still there -/
theorem above_trimmed {lt : Bytes → Bytes → Bool} (ho : NameOrder lt) {n : Nat} {F t : Table} (h : SparkInv lt n F t) (hF : F.WF)
    (sF : List Bytes) (hsF : IsSortedCols lt F sF) (c : Bytes) (hc : c ∈ akeys F.cols) (hab : ¬ above lt (akeys F.cols) c < n) :
    ¬ above lt (akeys t.cols) c < n := by
  have hab' : n ≤ above lt sF c := by rw [above_perm lt hsF.1 c]; omega
  have hlen : n ≤ sF.length := Nat.le_trans hab' (above_le_length lt sF c)
  have hcs : c ∈ sF := hsF.1.mem_iff.mpr hc
  have hnk : ¬ c ∈ sF.drop (sF.length - n) := by
    rw [mem_lastN ho n sF hsF.2 c]; intro hx; omega
  have hct : c ∈ sF.take (sF.length - n) := by
    have := List.take_append_drop (sF.length - n) sF
    rw [← this] at hcs
    rcases List.mem_append.mp hcs with h1 | h1
    · exact h1
    · exact absurd h1 hnk
  have hpw : SortedBy lt (sF.take (sF.length - n) ++ sF.drop (sF.length - n)) := by
    rw [List.take_append_drop]; exact hsF.2
  have hall : ∀ x ∈ sF.drop (sF.length - n), lt c x = true := fun x hx => (List.pairwise_append.mp hpw).2.2 c hct x hx
  have hin : ∀ x ∈ sF.drop (sF.length - n), x ∈ (akeys t.cols).filter fun x => lt c x := by
    intro x hx
    have hx' := (mem_lastN ho n sF hsF.2 x).mp hx
    have hxF : x ∈ akeys F.cols := hsF.1.mem_iff.mp hx'.1
    obtain ⟨r, hr⟩ := (hF.cols_iff x).mp ((mem_akeys_iff _ _).mp hxF)
    have htop := h.top x (by rw [← above_perm lt hsF.1 x]; exact hx'.2) r
    rw [List.mem_filter]
    exact ⟨cell_col_mem h.wf (by rw [htop]; exact hr), hall x hx⟩
  have hnd : (sF.drop (sF.length - n)).Nodup := (hsF.2.nodup ho).sublist (List.drop_sublist _ _)
  have hle := List.Nodup.length_le_of_subset hnd hin
  have hl : (sF.drop (sF.length - n)).length = n := by rw [List.length_drop]; omega
  unfold above
  rw [List.countP_eq_length_filter]
  omega

/-- **Where the renders fall does not matter.**  After ANY interleaving of the samples `h` with render steps, a final
render step leaves a table with the same cells, rows, columns and parse-error count as a single render step on the
sequentially sampled table `Table.run d h`, whatever map iteration orders and whatever (correct) sorting routine the
render steps used. -/
theorem spark_final {lt : Bytes → Bytes → Bool} (ho : NameOrder lt) (n : Nat) (d : Bytes) (hd : d ≠ []) (h : List Bytes) (t : Table)
    (hr : SparkReach lt n d h t) (st co : List Bytes) (ro : Bytes → List Bytes) (hst : IsSortedCols lt t st) (hcov : Covers t co ro)
    (sF coF : List Bytes) (roF : Bytes → List Bytes) (hsF : IsSortedCols lt (Table.run d h) sF)
    (hcovF : Covers (Table.run d h) coF roF) :
    (∀ c r, (renderStep n t st co ro).cell c r = (renderStep n (Table.run d h) sF coF roF).cell c r) ∧
    (∀ r, (aget (renderStep n t st co ro).rows r).isSome = (aget (renderStep n (Table.run d h) sF coF roF).rows r).isSome) ∧
    (∀ c, (aget (renderStep n t st co ro).cols c).isSome = (aget (renderStep n (Table.run d h) sF coF roF).cols c).isSome) ∧
    (renderStep n t st co ro).errors = (renderStep n (Table.run d h) sF coF roF).errors ∧
    (renderStep n t st co ro).WF ∧ (renderStep n (Table.run d h) sF coF roF).WF := by
  have inv := reach_inv ho hd hr
  have hF := run_wf d hd h
  have w1 := render_wf n t st co ro inv.wf hcov
  have w2 := render_wf n (Table.run d h) sF coF roF hF hcovF
  have cells : ∀ c r, (renderStep n t st co ro).cell c r = (renderStep n (Table.run d h) sF coF roF).cell c r := by
    intro c r
    rw [render_cells ho n t st co ro inv.wf hst hcov, render_cells ho n _ sF coF roF hF hsF hcovF]
    by_cases hc : above lt (akeys (Table.run d h).cols) c < n
    · rw [if_pos hc, inv.top c hc r]
      cases hv : (Table.run d h).cell c r with
      | none => simp
      | some v =>
        have hv' : t.cell c r = some v := by rw [inv.top c hc r, hv]
        have hnd : (akeys t.cols).Nodup := hst.1.nodup_iff.mp (hst.2.nodup ho)
        have := above_mono lt hnd (inv.cols_sub hF) c
        have : above lt (akeys t.cols) c < n := by omega
        simp [this]
    · rw [if_neg hc]
      cases hv : t.cell c r with
      | none => simp
      | some v =>
        have hcF : c ∈ akeys (Table.run d h).cols := cell_col_mem hF (inv.sub c r (by rw [hv]; rfl))
        rw [if_neg (above_trimmed ho inv hF sF hsF c hcF hc)]
  refine ⟨cells, ?_, ?_, ?_, w1, w2⟩
  · intro r
    have a := WF.rows_iff w1 r
    have b := WF.rows_iff w2 r
    simp only [cells] at a
    exact Bool.eq_iff_iff.mpr (a.trans b.symm)
  · intro c
    have a := w1.cols_iff c
    have b := w2.cols_iff c
    simp only [cells] at a
    exact Bool.eq_iff_iff.mpr (a.trans b.symm)
  · rw [(render_delim_errors n t st co ro).2, (render_delim_errors n _ sF coF roF).2, inv.errors]

/-! ### the executable model (`sparkTrim`, `sparkRun` of Model/C03) is an instance -/

theorem bytesLt_nameOrder : NameOrder bytesLt := ⟨bytesLt_irrefl, bytesLt_trans, bytesLt_total⟩

theorem trimCell_nd (p : Pred) (c : Bytes) (st : Table × Nat × Bool) (rn : Bytes) (h : (akeys st.1.cols).Nodup) :
    (akeys (Table.trimCell p c st rn).1.cols).Nodup := by
  obtain ⟨t, n, ra⟩ := st
  unfold Table.trimCell
  simp only
  split
  · exact h
  · split
    · split
      · exact nodup_aset _ _ _ h
      · exact h
    · exact h

theorem trimCol_nd (p : Pred) (L : List Bytes) (st : Table × Nat) (c : Bytes) (h : (akeys st.1.cols).Nodup) :
    (akeys (Table.trimCol p L st c).1.cols).Nodup := by
  unfold Table.trimCol
  split
  · exact h
  · have := foldl_keeps (Table.trimCell p c) (fun s => (akeys s.1.cols).Nodup)
      (fun s b hs => trimCell_nd p c s b hs) L (st.1, st.2, true) h
    simp only
    split
    · exact akeys_adel_nodup _ _ this
    · exact this

theorem trim_nd (t : Table) (p : Pred) (co : List Bytes) (ro : Bytes → List Bytes) (h : (akeys t.cols).Nodup) :
    (akeys (t.trim p co ro).1.cols).Nodup := by
  unfold Table.trim
  exact foldl_keeps (fun st c => Table.trimCol p (ro c) st c) (fun s => (akeys s.1.cols).Nodup)
    (fun s b hs => trimCol_nd p (ro b) s b hs) co (t, 0) h

theorem sample_nd (t : Table) (e : Bytes) (h : (akeys t.cols).Nodup) : (akeys (t.sample e).cols).Nodup := by
  unfold Table.sample
  simp only
  split
  · split
    · exact h
    · exact nodup_aset _ _ _ h
  · split <;> exact nodup_aset _ _ _ h

/-- the column list `sparkTrim` sorts -/
def sparkCols (t : Table) : List Bytes :=
  (isort nvNameLess ((akeys t.cols).map fun c => (⟨c, t.colTotal c⟩ : NV))).map (·.name)

theorem sparkTrim_eq (n : Nat) (t : Table) :
    sparkTrim n t = renderStep n t (sparkCols t) (akeys t.cols) (fun _ => akeys t.rows) := rfl

theorem sparkCols_sorted (t : Table) (h : (akeys t.cols).Nodup) : IsSortedCols bytesLt t (sparkCols t) := by
  have hnd := nv_names_nodup (akeys t.cols) t.colTotal h
  have hs := isort_sorted (nodup_map_inj _ _ hnd).1 (nvNameLess_order _ hnd)
  constructor
  · have := hs.1.map (·.name)
    simpa [sparkCols, List.map_map, Function.comp_def] using this
  · unfold sparkCols SortedBy
    rw [List.pairwise_map]
    exact hs.2

theorem covers_self (t : Table) : Covers t (akeys t.cols) (fun _ => akeys t.rows) :=
  covers_of_perm t _ _ (List.Perm.refl _) (fun _ => List.Perm.refl _)

theorem sparkRun_reach_aux (n : Nat) (d : Bytes) : ∀ (evs : List SparkEv) (h : List Bytes) (t : Table),
    SparkReach bytesLt n d h t → (akeys t.cols).Nodup →
    SparkReach bytesLt n d (h ++ sparkSamples evs) (evs.foldl (sparkStep n) t) ∧
      (akeys (evs.foldl (sparkStep n) t).cols).Nodup := by
  intro evs
  induction evs with
  | nil => intro h t hr hn; simpa [sparkSamples] using ⟨hr, hn⟩
  | cons ev evs ih =>
    intro h t hr hn
    cases ev with
    | sample e =>
      have := ih (h ++ [e]) (t.sample e) (SparkReach.sample h t e hr) (sample_nd t e hn)
      simpa [sparkSamples, sparkStep, List.append_assoc] using this
    | render =>
      have hr' : SparkReach bytesLt n d h (sparkTrim n t) := by
        rw [sparkTrim_eq]
        exact SparkReach.render h t _ _ _ hr (sparkCols_sorted t hn) (covers_self t)
      have hn' : (akeys (sparkTrim n t).cols).Nodup := by
        rw [sparkTrim_eq]; unfold renderStep; split
        · exact trim_nd _ _ _ _ hn
        · exact hn
      have := ih h (sparkTrim n t) hr' hn'
      simpa [sparkSamples, sparkStep] using this

theorem sparkRun_reach (n : Nat) (d : Bytes) (evs : List SparkEv) :
    SparkReach bytesLt n d (sparkSamples evs) (sparkRun n d evs) ∧ (akeys (sparkRun n d evs).cols).Nodup := by
  have := sparkRun_reach_aux n d evs [] { delim := d } SparkReach.init (by simp [akeys])
  simpa [sparkRun] using this

end Rare.C03
