import Rare.Proofs.C04Held
/-!
Round 4c: a small-step relation for `Scan()` and "every `Scan()` is a path of it".

`Imm.Micro s o t` / `Buf.Micro s o t`: ONE state change of the scanner (`o` = the slice it hands out, if it is the step
that hands one out).  `Imm.Path P s os u`: a finite sequence of such steps from `s` to `u` handing out `os`, EVERY state
on the way (ends included) satisfying `P`.  `scan_path`, `scanAll_path`, `bscan_path`, `bscanAll_path`: the model's
`scan` / `scanAll` are such paths (so there is no state change in the model outside the listed steps), and
`Path.lift`: a predicate preserved by every micro-step holds at every intermediate state of every scan.
-/
namespace Rare.C04

def Res.tok? : Res → Option (View × Bytes)
  | .tok v b => some (v, b)
  | _ => none

def Res.toks (r : Res) : List (View × Bytes) := r.tok?.toList

/-! ### ImmediateReadAhead -/

/-- the single state changes of `ImmediateReadAhead.Scan` -/
inductive Imm.Micro : Imm → Option (View × Bytes) → Imm → Prop
  /-- `if s.end >= len(s.buf) { old := s.buf; s.buf = make(…); copy(…); s.end -= s.offset; s.offset = 0 }` -/
  | regrow (s : Imm) : s.buf.length ≥ s.cap → Micro s none s.regrow
  /-- `n, err := s.r.Read(s.buf[s.end:]); s.end += n` (only with room: `end < len(buf)`) -/
  | read (s : Imm) : s.buf.length < s.cap →
      Micro s none (s.recv (s.rd.read (s.cap - s.buf.length)).1 (s.rd.read (s.cap - s.buf.length)).2.2)
  /-- `s.eof = true; if err != io.EOF && s.onError != nil { s.onError(err) }`: only right after the `Read` that
      returned `err` -/
  | fail (s : Imm) (e : RErr) : (s.rd.read (s.cap - s.buf.length)).2.1 = some e →
      Micro (s.recv (s.rd.read (s.cap - s.buf.length)).1 (s.rd.read (s.cap - s.buf.length)).2.2) none
        ((s.recv (s.rd.read (s.cap - s.buf.length)).1 (s.rd.read (s.cap - s.buf.length)).2.2).fail e)
  /-- `s.token = dropCR(s.buf[s.offset:s.offset+eol]); s.offset += eol+1; return true` -/
  | emitAt (s : Imm) (k : Nat) : Micro s (s.emitAt k).1.tok? (s.emitAt k).2
  /-- `s.token = s.buf[s.offset:s.end]; s.offset = s.end; return true` (only with `eof` set) -/
  | emitTail (s : Imm) : s.eof = true → s.offset < s.buf.length → Micro s s.emitTail.1.tok? s.emitTail.2

inductive Imm.Path (P : Imm → Prop) : Imm → List (View × Bytes) → Imm → Prop
  | stop (s : Imm) : P s → Path P s [] s
  | step {s t u : Imm} {o : Option (View × Bytes)} {os : List (View × Bytes)} :
      P s → Imm.Micro s o t → Path P t os u → Path P s (o.toList ++ os) u

theorem Imm.Path.single {P : Imm → Prop} {s t : Imm} {o} (hs : P s) (ht : P t) (h : Imm.Micro s o t) :
    Imm.Path P s o.toList t := by
  have := Imm.Path.step hs h (Imm.Path.stop t ht)
  simpa using this

theorem Imm.Path.trans {P : Imm → Prop} {s t u : Imm} {o1 o2} (h1 : Imm.Path P s o1 t) (h2 : Imm.Path P t o2 u) :
    Imm.Path P s (o1 ++ o2) u := by
  induction h1 with
  | stop s _ => simpa using h2
  | step hs hm _ ih => rw [List.append_assoc]; exact Imm.Path.step hs hm (ih h2)

/-- a predicate preserved by every micro-step holds all along every path -/
theorem Imm.Path.lift {P : Imm → Prop} (hP : ∀ s o t, Imm.Micro s o t → P s → P t) {s u : Imm} {os}
    (h : Imm.Path (fun _ => True) s os u) (hs : P s) : Imm.Path P s os u := by
  induction h with
  | stop s _ => exact Imm.Path.stop s hs
  | step _ hm _ ih => exact Imm.Path.step hs hm (ih (hP _ _ _ hm hs))

theorem Imm.Path.last {P : Imm → Prop} {s u : Imm} {os} (h : Imm.Path P s os u) : P u := by
  induction h with
  | stop s hs => exact hs
  | step _ _ _ ih => exact ih

abbrev T : Imm → Prop := fun _ => True

theorem topEof_path (t : Imm) (he : t.eof = true) : Imm.Path T t t.topEof.1.toks t.topEof.2 := by
  unfold Imm.topEof
  split
  · rename_i hlt
    split
    · exact Imm.Path.single trivial trivial (Imm.Micro.emitAt t _)
    · exact Imm.Path.single trivial trivial (Imm.Micro.emitTail t he hlt)
  · exact Imm.Path.stop t trivial

theorem grown_path (s : Imm) : Imm.Path T s [] s.grown := by
  unfold Imm.grown
  split
  · rename_i h
    exact Imm.Path.single (o := none) trivial trivial (Imm.Micro.regrow s h)
  · exact Imm.Path.stop s trivial

theorem topEof_bufSize (t : Imm) : t.topEof.2.bufSize = t.bufSize := by
  unfold Imm.topEof
  split
  · split <;> rfl
  · rfl

theorem grown_bufSize (s : Imm) : s.grown.bufSize = s.bufSize := by
  unfold Imm.grown
  split <;> rfl

theorem readLoop_bufSize (f : Nat) : ∀ s : Imm, (s.readLoop f).2.bufSize = s.bufSize := by
  induction f with
  | zero => intro s; rfl
  | succ f ih =>
    intro s
    simp only [Imm.readLoop]
    generalize s.grown.rd.read (s.grown.cap - s.grown.buf.length) = r
    cases h2 : r.2.1 with
    | some e => simp only; rw [topEof_bufSize]; exact grown_bufSize s
    | none =>
      cases h3 : idxNl r.1 with
      | some eol => exact grown_bufSize s
      | none => simp only; rw [ih]; exact grown_bufSize s

theorem scan_bufSize (f : Nat) (s : Imm) : (s.scan f).2.bufSize = s.bufSize := by
  unfold Imm.scan
  split
  · rename_i r ht
    unfold Imm.top at ht
    split at ht
    · split at ht
      · simp at ht; rw [← ht]; rfl
      · split at ht
        · simp at ht; rw [← ht]; rfl
        · simp at ht
    · split at ht
      · simp at ht; rw [← ht]
      · simp at ht
  · exact readLoop_bufSize f s

/-- after the regrow check there is room for the `Read` (needs only `bufSize ≥ 1`) -/
theorem grown_room (s : Imm) (h : 1 ≤ s.bufSize) : s.grown.buf.length < s.grown.cap := by
  unfold Imm.grown
  split
  · simp [Imm.regrow]; omega
  · omega

theorem readLoop_path (f : Nat) : ∀ s : Imm, 1 ≤ s.bufSize →
    Imm.Path T s (s.readLoop f).1.toks (s.readLoop f).2 := by
  induction f with
  | zero => intro s _; exact Imm.Path.stop s trivial
  | succ f ih =>
    intro s hb
    have hroom : s.grown.buf.length < s.grown.cap := grown_room s hb
    have hread := Imm.Micro.read s.grown hroom
    have hfail := Imm.Micro.fail s.grown
    simp only [Imm.readLoop]
    generalize s.grown.rd.read (s.grown.cap - s.grown.buf.length) = r at hread hfail
    have p0 : Imm.Path T s ([] ++ (none : Option (View × Bytes)).toList) (s.grown.recv r.1 r.2.2) :=
      (grown_path s).trans (Imm.Path.single trivial trivial hread)
    simp only [Option.toList, List.append_nil] at p0
    cases h2 : r.2.1 with
    | some e =>
      have p1 := p0.trans (Imm.Path.single (P := T) trivial trivial (hfail e h2))
      have p2 := p1.trans (topEof_path ((s.grown.recv r.1 r.2.2).fail e) rfl)
      simpa using p2
    | none =>
      cases h3 : idxNl r.1 with
      | some eol =>
        have p1 := p0.trans (Imm.Path.single (P := T) trivial trivial
          (Imm.Micro.emitAt (s.grown.recv r.1 r.2.2) (s.grown.buf.length + eol - s.grown.offset)))
        simpa [Res.toks] using p1
      | none =>
        have p1 := p0.trans (ih (s.grown.recv r.1 r.2.2) (by
          show 1 ≤ s.grown.bufSize
          rw [grown_bufSize]; exact hb))
        simpa using p1

theorem scan_path (f : Nat) (s : Imm) (hb : 1 ≤ s.bufSize) :
    Imm.Path T s (s.scan f).1.toks (s.scan f).2 := by
  unfold Imm.scan
  split
  · rename_i r ht
    unfold Imm.top at ht
    split at ht
    · rename_i hlt
      split at ht
      · simp at ht; rw [← ht]; exact Imm.Path.single trivial trivial (Imm.Micro.emitAt s _)
      · split at ht
        · rename_i he
          simp at ht; rw [← ht]; exact Imm.Path.single trivial trivial (Imm.Micro.emitTail s he hlt)
        · simp at ht
    · split at ht
      · simp at ht; rw [← ht]; exact Imm.Path.stop s trivial
      · simp at ht
  · exact readLoop_path f s hb

theorem scanAll_path (f : Nat) : ∀ (n : Nat) (s : Imm), 1 ≤ s.bufSize →
    Imm.Path T s (s.scanAll f n).1 (s.scanAll f n).2.2 := by
  intro n
  induction n with
  | zero => intro s _; exact Imm.Path.stop s trivial
  | succ n ih =>
    intro s hb
    have hp := scan_path f s hb
    have hbs := scan_bufSize f s
    simp only [Imm.scanAll]
    generalize s.scan f = r at hp hbs
    obtain ⟨res, s'⟩ := r
    cases res with
    | tok v b =>
      have := hp.trans (ih s' (by rw [hbs]; exact hb))
      simpa [Res.toks, Res.tok?] using this
    | done => simpa [Res.toks, Res.tok?] using hp
    | fuel => simpa [Res.toks, Res.tok?] using hp

theorem scanAll_bufSize (f : Nat) : ∀ (n : Nat) (s : Imm), (s.scanAll f n).2.2.bufSize = s.bufSize := by
  intro n
  induction n with
  | zero => intro s; rfl
  | succ n ih =>
    intro s
    have hbs := scan_bufSize f s
    simp only [Imm.scanAll]
    generalize s.scan f = r at hbs
    obtain ⟨res, s'⟩ := r
    cases res with
    | tok v b => simp only; rw [ih s']; exact hbs
    | done => exact hbs
    | fuel => exact hbs

/-- every micro-step only extends the arrays -/
theorem micro_ext {s t : Imm} {o} (h : Imm.Micro s o t) : Ext s.arrays t.arrays := by
  cases h with
  | regrow _ hge =>
    have := grown_ext s
    simpa [Imm.grown, hge] using this
  | read _ _ => exact recv_ext s _ _
  | fail s0 e _ => exact Ext.refl _
  | emitAt _ k => exact Ext.refl _
  | emitTail _ _ _ => exact Ext.refl _

/-! ### BufferedReadAhead -/

/-- the single state changes of `BufferedReadAhead.Scan` (the model keeps `s.buf[:readOffset]` as `buf`) -/
inductive Buf.Micro : Buf → Option (View × Bytes) → Buf → Prop
  /-- `start := s.offset; s.offset += relIndex+1; s.token = dropCR(s.buf[start:start+relIndex]); return true` -/
  | emitLine (s : Buf) (rel : Nat) :
      Micro s (some (⟨s.mem.length, s.offset, s.offset + (dropCR ((s.buf.drop s.offset).take rel)).length⟩,
                     dropCR ((s.buf.drop s.offset).take rel))) { s with offset := s.offset + rel + 1 }
  /-- `ret := s.buf[s.offset:]; s.offset = len(s.buf); s.token = ret; return true` (only with `eof` set) -/
  | emitTail (s : Buf) : s.eof = true → s.offset < s.buf.length →
      Micro s (some (⟨s.mem.length, s.offset, s.buf.length⟩, s.buf.drop s.offset)) { s with offset := s.buf.length }
  /-- `oldbuf := s.buf; s.buf = make(…); copy(s.buf, oldbuf[s.offset:])` (only with `eof` not set) -/
  | alloc (s : Buf) : s.eof = false →
      Micro s none { s with mem := s.mem ++ [s.buf], buf := s.buf.drop s.offset, offset := 0 }
  /-- `n, err := s.r.Read(s.buf[readOffset:]); readOffset += n` -/
  | read (s : Buf) (room : Nat) :
      Micro s none { s with buf := s.buf ++ (s.rd.read room).1, rd := (s.rd.read room).2.2,
                            delivered := s.delivered ++ (s.rd.read room).1 }
  /-- `if err != io.EOF && s.onError != nil { s.onError(err) }; s.eof = true`: only right after the `Read` that
      returned `err` -/
  | fail (s : Buf) (room : Nat) (e : RErr) : (s.rd.read room).2.1 = some e →
      Micro { s with buf := s.buf ++ (s.rd.read room).1, rd := (s.rd.read room).2.2,
                     delivered := s.delivered ++ (s.rd.read room).1 } none
            { s with buf := s.buf ++ (s.rd.read room).1, rd := (s.rd.read room).2.2,
                     delivered := s.delivered ++ (s.rd.read room).1, eof := true,
                     errs := if e = .fail then s.errs + 1 else s.errs }

inductive Buf.Path (P : Buf → Prop) : Buf → List (View × Bytes) → Buf → Prop
  | stop (s : Buf) : P s → Path P s [] s
  | step {s t u : Buf} {o : Option (View × Bytes)} {os : List (View × Bytes)} :
      P s → Buf.Micro s o t → Path P t os u → Path P s (o.toList ++ os) u

theorem Buf.Path.single {P : Buf → Prop} {s t : Buf} {o} (hs : P s) (ht : P t) (h : Buf.Micro s o t) :
    Buf.Path P s o.toList t := by
  have := Buf.Path.step hs h (Buf.Path.stop t ht)
  simpa using this

theorem Buf.Path.trans {P : Buf → Prop} {s t u : Buf} {o1 o2} (h1 : Buf.Path P s o1 t) (h2 : Buf.Path P t o2 u) :
    Buf.Path P s (o1 ++ o2) u := by
  induction h1 with
  | stop s _ => simpa using h2
  | step hs hm _ ih => rw [List.append_assoc]; exact Buf.Path.step hs hm (ih h2)

theorem Buf.Path.lift {P : Buf → Prop} (hP : ∀ s o t, Buf.Micro s o t → P s → P t) {s u : Buf} {os}
    (h : Buf.Path (fun _ => True) s os u) (hs : P s) : Buf.Path P s os u := by
  induction h with
  | stop s _ => exact Buf.Path.stop s hs
  | step _ hm _ ih => exact Buf.Path.step hs hm (ih (hP _ _ _ hm hs))

theorem Buf.Path.last {P : Buf → Prop} {s u : Buf} {os} (h : Buf.Path P s os u) : P u := by
  induction h with
  | stop s hs => exact hs
  | step _ _ _ ih => exact ih

abbrev BT : Buf → Prop := fun _ => True

/-- the state of the scanner while the fill loop runs -/
def Buf.during (s : Buf) (acc : Bytes) (rd : Reader) (eof : Bool) (errs : Nat) (dl : Bytes) : Buf :=
  { s with buf := acc, rd := rd, eof := eof, errs := errs, delivered := dl }

theorem fill_path (b : Buf) : ∀ (f cap : Nat) (acc : Bytes) (rd : Reader) (errs : Nat) (dl : Bytes)
    (acc' : Bytes) (rd' : Reader) (eof' : Bool) (errs' : Nat) (dl' : Bytes),
    Buf.fill f cap acc rd errs dl = some (acc', rd', eof', errs', dl') →
    Buf.Path BT (b.during acc rd false errs dl) [] (b.during acc' rd' eof' errs' dl') := by
  intro f
  induction f with
  | zero => intro cap acc rd errs dl acc' rd' eof' errs' dl' h; simp [Buf.fill] at h
  | succ f ih =>
    intro cap acc rd errs dl acc' rd' eof' errs' dl' h
    simp only [Buf.fill] at h
    split at h
    · have hread := Buf.Micro.read (b.during acc rd false errs dl) (cap - acc.length)
      have hfail := Buf.Micro.fail (b.during acc rd false errs dl) (cap - acc.length)
      simp only [Buf.during] at hread hfail
      generalize rd.read (cap - acc.length) = r at h hread hfail
      have p0 : Buf.Path BT (b.during acc rd false errs dl) (none : Option (View × Bytes)).toList
          (b.during (acc ++ r.1) r.2.2 false errs (dl ++ r.1)) := Buf.Path.single trivial trivial hread
      cases h2 : r.2.1 with
      | some e =>
        rw [h2] at h
        simp only [Option.some.injEq, Prod.mk.injEq] at h
        obtain ⟨rfl, rfl, rfl, rfl, rfl⟩ := h
        have p1 := p0.trans (Buf.Path.single (P := BT) trivial trivial (hfail e h2))
        simpa [Buf.during] using p1
      | none =>
        rw [h2] at h
        have p1 := p0.trans (ih _ _ _ _ _ _ _ _ _ _ h)
        simpa using p1
    · simp only [Option.some.injEq, Prod.mk.injEq] at h
      obtain ⟨rfl, rfl, rfl, rfl, rfl⟩ := h
      exact Buf.Path.stop _ trivial

theorem bscan_path (f : Nat) : ∀ s : Buf, Buf.Path BT s (s.scan f).1.toks (s.scan f).2 := by
  induction f with
  | zero => intro s; exact Buf.Path.stop s trivial
  | succ f ih =>
    intro s
    simp only [Buf.scan]
    split
    · rename_i rel _
      exact Buf.Path.single trivial trivial (Buf.Micro.emitLine s rel)
    · split
      · rename_i hc
        have hc' : s.eof = true ∧ s.offset < s.buf.length := by simpa using hc
        exact Buf.Path.single trivial trivial (Buf.Micro.emitTail s hc'.1 hc'.2)
      · split
        · rename_i hne
          have he : s.eof = false := by simpa using hne
          split
          · exact Buf.Path.stop s trivial
          · rename_i acc rd' eof' errs' dl' hfill
            have p0 : Buf.Path BT s (none : Option (View × Bytes)).toList _ :=
              Buf.Path.single trivial trivial (Buf.Micro.alloc s he)
            have p1 := fill_path ({ s with mem := s.mem ++ [s.buf], buf := s.buf.drop s.offset, offset := 0 } : Buf)
              _ _ _ _ _ _ _ _ _ _ _ hfill
            have e0 : ({ s with mem := s.mem ++ [s.buf], buf := s.buf.drop s.offset, offset := 0 } : Buf)
                = ({ s with mem := s.mem ++ [s.buf], buf := s.buf.drop s.offset, offset := 0 } : Buf).during
                    (s.buf.drop s.offset) s.rd false s.errs s.delivered := by
              simp [Buf.during, ← he]
            rw [e0] at p0
            have p2 := (p0.trans p1).trans (ih _)
            simpa [Buf.during] using p2
        · exact Buf.Path.stop s trivial

theorem bscanAll_path (f : Nat) : ∀ (n : Nat) (s : Buf), Buf.Path BT s (s.scanAll f n).1 (s.scanAll f n).2.2 := by
  intro n
  induction n with
  | zero => intro s; exact Buf.Path.stop s trivial
  | succ n ih =>
    intro s
    have hp := bscan_path f s
    simp only [Buf.scanAll]
    generalize s.scan f = r at hp
    obtain ⟨res, s'⟩ := r
    cases res with
    | tok v b =>
      have := hp.trans (ih s')
      simpa [Res.toks, Res.tok?] using this
    | done => simpa [Res.toks, Res.tok?] using hp
    | fuel => simpa [Res.toks, Res.tok?] using hp

theorem bmicro_ext {s t : Buf} {o} (h : Buf.Micro s o t) : Ext s.arrays t.arrays := by
  cases h with
  | emitLine _ rel => exact Ext.refl _
  | emitTail _ _ _ => exact Ext.refl _
  | alloc _ _ => simpa [Buf.arrays] using Ext.append (s.mem ++ [s.buf]) [s.buf.drop s.offset]
  | read _ room => simpa [Buf.arrays] using Ext.last s.mem s.buf (s.rd.read room).1
  | fail s0 room e _ => exact Ext.refl _

/-! ### the slices of the first calls are valid views of the state reached -/

theorem scanAll_viewsOK (f : Nat) : ∀ (n : Nat) {s : Imm} {E : List Bytes}, Good s E →
    ∀ vb ∈ (s.scanAll f n).1, ViewOK (s.scanAll f n).2.2.arrays vb.1 ∧ readView (s.scanAll f n).2.2.arrays vb.1 = vb.2 := by
  intro n
  induction n with
  | zero => intro s E _ vb h; simp [Imm.scanAll] at h
  | succ n ih =>
    intro s E hg vb hvb
    obtain ⟨C, hinv, _⟩ := id hg
    have hsg := scan_good f hg
    have hpost := scan_post f hinv
    simp only [Imm.scanAll] at hvb ⊢
    generalize s.scan f = r at hsg hpost hvb
    obtain ⟨res, s'⟩ := r
    cases res with
    | tok v b =>
      simp only at hsg hvb ⊢
      simp only [List.mem_cons] at hvb
      rcases hvb with rfl | hmem
      · have hext := scanAll_closed (closed_ext s'.arrays) f n hsg (Ext.refl _)
        simp only [Post] at hpost
        have := readView_ext hext hpost.1.1
        exact ⟨this.2, by rw [this.1]; exact hpost.1.2⟩
      · exact ih hsg vb hmem
    | done => simp at hvb
    | fuel => simp at hvb

theorem bscanAll_viewsOK (f : Nat) (hf : 0 < f) : ∀ (n : Nat) {s : Buf} {E : List Bytes}, BGood s E →
    ∀ vb ∈ (s.scanAll f n).1, ViewOK (s.scanAll f n).2.2.arrays vb.1 ∧ readView (s.scanAll f n).2.2.arrays vb.1 = vb.2 := by
  intro n
  induction n with
  | zero => intro s E _ vb h; simp [Buf.scanAll] at h
  | succ n ih =>
    intro s E hg vb hvb
    obtain ⟨C, hinv, _⟩ := id hg
    have hsg := bscan_good f hf hg
    have hpost := bscan_post f hinv
    simp only [Buf.scanAll] at hvb ⊢
    generalize s.scan f = r at hsg hpost hvb
    obtain ⟨res, s'⟩ := r
    cases res with
    | tok v b =>
      simp only at hsg hvb ⊢
      simp only [List.mem_cons] at hvb
      rcases hvb with rfl | hmem
      · have hext := bscanAll_closed (bclosed_ext s'.arrays) f hf n hsg (Ext.refl _)
        simp only [BPost] at hpost
        have := readView_ext hext hpost.1.1
        exact ⟨this.2, by rw [this.1]; exact hpost.1.2⟩
      · exact ih hsg vb hmem
    | done => simp at hvb
    | fuel => simp at hvb

/-- a valid view reads the same all along a path of micro-steps -/
theorem path_keeps_view {s u : Imm} {os} (h : Imm.Path T s os u) (v : View) (b : Bytes)
    (hv : ViewOK s.arrays v ∧ readView s.arrays v = b) :
    Imm.Path (fun t => ViewOK t.arrays v ∧ readView t.arrays v = b) s os u :=
  Imm.Path.lift (fun _ _ _ hm hp => by
    have := readView_ext (micro_ext hm) hp.1
    exact ⟨this.2, by rw [this.1]; exact hp.2⟩) h hv

theorem bpath_keeps_view {s u : Buf} {os} (h : Buf.Path BT s os u) (v : View) (b : Bytes)
    (hv : ViewOK s.arrays v ∧ readView s.arrays v = b) :
    Buf.Path (fun t => ViewOK t.arrays v ∧ readView t.arrays v = b) s os u :=
  Buf.Path.lift (fun _ _ _ hm hp => by
    have := readView_ext (bmicro_ext hm) hp.1
    exact ⟨this.2, by rw [this.1]; exact hp.2⟩) h hv

end Rare.C04
