import Rare.Model.C06
import Rare.Spec.C06
import Rare.Proofs.Pipeline
/-! Helper lemmas for the C06 property theorems. -/
namespace Rare.C06
open Rare.Pipeline Rare.C01

/-! ### counting in a plan -/

theorem sum_indicator {β : Type} [BEq β] [LawfulBEq β] (x : β) :
    ∀ ls : List (List β), (∀ l ∈ ls, l.Nodup) →
      (ls.map (List.count x)).sum = (ls.filter (fun l => l.contains x)).length
  | [], _ => by simp
  | l :: ls, h => by
    have hl := h l (by simp)
    have ih := sum_indicator x ls (fun l' hl' => h l' (by simp [hl']))
    simp only [List.map_cons, List.sum_cons, List.filter_cons, ih, hl.count]
    by_cases hx : x ∈ l <;> simp [hx] <;> omega

/-- Every expansion of one argument is duplicate-free when the oracle's listings are. -/
theorem expandArg_nodup (fs : FsOracle) (recursive : Bool)
    (hg : ∀ p l, fs.glob p = .found l → l.Nodup) (hw : ∀ p, (fs.walk p).Nodup) (p : Path) :
    (expandArg fs recursive p).Nodup := by
  unfold expandArg
  split
  · exact hw p
  · split
    · simp
    · rename_i l hl
      split
      · exact hg p l hl
      · simp

/-! ### one input -/

theorem runFile_errs (gunzip : Bool) (name : Path) (f : FileOracle) :
    (runFile gunzip name f).errs = if (readOutcome f gunzip).failed then 1 else 0 := by
  unfold runFile readOutcome readOutcomeG openFileToReader
  cases h : openFileToReaderG true f gunzip with
  | none => simp [Outcome.failed]
  | some rb =>
    obtain ⟨rd, fb⟩ := rb
    cases hs : streamOf f rd with
    | mk data err => cases err <;> simp [runStream, Outcome.failed, hs]

theorem runFile_lines (gunzip : Bool) (name : Path) (f : FileOracle) :
    (runFile gunzip name f).lines = C04.splitLines (readOutcome f gunzip).delivered := by
  unfold runFile readOutcome readOutcomeG openFileToReader
  cases h : openFileToReaderG true f gunzip with
  | none => simp [Outcome.delivered, C04.splitLines, C04.splitGo]
  | some rb =>
    obtain ⟨rd, fb⟩ := rb
    cases hs : streamOf f rd with
    | mk data err => cases err <;> simp [runStream, Outcome.delivered, hs]

theorem runFile_name (gunzip : Bool) (name : Path) (f : FileOracle) :
    (runFile gunzip name f).name = name := by
  unfold runFile
  cases h : openFileToReader f gunzip with
  | none => rfl
  | some rb =>
    obtain ⟨rd, fb⟩ := rb
    cases hs : streamOf f rd with
    | mk data err => simp [runStream, hs]

theorem sum_errs_eq (l : List Bool) :
    (l.map fun b => if b then 1 else 0).sum = Spec.specErrors l := by
  induction l with
  | nil => rfl
  | cons b l ih =>
    simp only [List.map_cons, List.sum_cons, ih, Spec.specErrors, List.filter_cons]
    cases b <;> simp <;> omega

/-! ### semaphore accounting in the pipeline transition system -/

theorem filter_set_length {γ : Type} (p : γ → Bool) :
    ∀ {l : List γ} {i : Nat} {a : γ} (b : γ), l[i]? = some a →
      ((l.set i b).filter p).length + (if p a then 1 else 0) = (l.filter p).length + (if p b then 1 else 0) := by
  intro l
  induction l with
  | nil => intro i a b h; simp at h
  | cons x xs ih =>
    intro i a b h
    cases i with
    | zero =>
      simp at h; subst h
      simp only [List.set_cons_zero, List.filter_cons]
      cases hx : p x <;> cases hb : p b <;> simp
    | succ i =>
      simp at h
      have := ih b h
      simp only [List.set_cons_succ, List.filter_cons]
      cases hx : p x <;> simp <;> omega

/-- The semaphore bound: never more than `R` reader goroutines hold a slot. -/
theorem active_le {α : Type} {cls : α → Cls} {R B K : Nat} {s s' : St α}
    (hs : Step cls R B K s s') (h : activeCount s ≤ R) : activeCount s' ≤ R := by
  cases hs with
  | start i bs hi hlt =>
    have := filter_set_length SrcSt.isActive (SrcSt.active bs) hi
    simp [SrcSt.isActive] at this
    simp only [activeCount] at *; omega
  | send i b bs hi hc =>
    have := filter_set_length SrcSt.isActive (SrcSt.active bs) hi
    simp [SrcSt.isActive] at this
    simp only [activeCount] at *; omega
  | finish i hi =>
    have := filter_set_length SrcSt.isActive (SrcSt.done (α := α)) hi
    simp [SrcSt.isActive] at this
    simp only [activeCount] at *; omega
  | closeC _ _ => exact h
  | wrecv _ _ _ _ _ => exact h
  | wproc _ _ _ _ _ => exact h
  | wsend _ _ _ _ _ => exact h
  | wskip _ _ => exact h
  | wexit _ _ _ _ => exact h
  | closeRC _ _ => exact h
  | crecv _ _ _ _ => exact h
  | cdone _ _ _ => exact h

theorem active_le_reach {α : Type} {cls : α → Cls} {R B K : Nat} {s0 s : St α}
    (hr : Reach cls R B K s0 s) (h0 : activeCount s0 ≤ R) : activeCount s ≤ R := by
  induction hr with
  | refl => exact h0
  | step _ hs ih => exact active_le hs ih

theorem active_init {α : Type} (inputs : List (List (List α))) (W : Nat) : activeCount (init inputs W) = 0 := by
  simp [activeCount, init, List.filter_map, Function.comp_def, SrcSt.isActive]

theorem active_zero_of_all_done {α : Type} {s : St α} (h : s.srcs.all SrcSt.isDone = true) : activeCount s = 0 := by
  simp only [activeCount, List.length_eq_zero_iff, List.filter_eq_nil_iff]
  intro a ha
  rw [List.all_eq_true] at h
  have := h a ha
  cases a <;> simp_all [SrcSt.isDone, SrcSt.isActive]

/-! ### lines of one source inside the sequential reference -/

theorem linesOf_src (i : Nat) (d : Bytes) : ∀ l ∈ linesOf i d, l.src = i := by
  intro l hl
  simp only [linesOf, List.mem_map] at hl
  obtain ⟨p, _, rfl⟩ := hl
  rfl

theorem filter_linesOf_self (i : Nat) (d : Bytes) : (linesOf i d).filter (fun l => decide (l.src = i)) = linesOf i d := by
  rw [List.filter_eq_self]
  intro l hl
  simp [linesOf_src i d l hl]

theorem filter_linesOf_other {i j : Nat} (h : j ≠ i) (d : Bytes) :
    (linesOf j d).filter (fun l => decide (l.src = i)) = [] := by
  rw [List.filter_eq_nil_iff]
  intro l hl
  simp [linesOf_src j d l hl, h]

theorem filter_src_zipIdx (i : Nat) : ∀ (datas : List Bytes) (k : Nat),
    (((datas.zipIdx k).flatMap fun p => linesOf p.2 p.1).filter (fun l => decide (l.src = i)))
      = if k ≤ i then (match datas[i - k]? with | some d => linesOf i d | none => []) else [] := by
  intro datas
  induction datas with
  | nil => intro k; simp
  | cons d ds ih =>
    intro k
    simp only [List.zipIdx_cons, List.flatMap_cons, List.filter_append, ih (k + 1)]
    by_cases hki : k = i
    · subst hki
      have h1 : ¬ (k + 1 ≤ k) := by omega
      simp [filter_linesOf_self, h1]
    · rw [filter_linesOf_other hki]
      by_cases hle : k ≤ i
      · have h1 : k + 1 ≤ i := by omega
        have h2 : i - k = (i - (k + 1)) + 1 := by omega
        simp [hle, h1, h2]
      · have h1 : ¬ (k + 1 ≤ i) := by omega
        simp [hle, h1]

theorem filter_src_allLines (datas : List Bytes) (i : Nat) (d : Bytes) (h : datas[i]? = some d) :
    (allLines datas).filter (fun l => decide (l.src = i)) = linesOf i d := by
  unfold allLines
  rw [filter_src_zipIdx i datas 0]
  simp [h]

/-! ### the whole run in terms of what each planned input delivers -/

/-- what one planned input hands to the extractor and whether it is counted as a read error -/
def Source.delivered (gunzip : Bool) (files : Path → FileOracle) (stdin : Bytes) : Source → Bytes
  | .stdin => stdin
  | .file p => (readOutcome (files p) gunzip).delivered

def Source.failed (gunzip : Bool) (files : Path → FileOracle) (stdinFails : Bool) : Source → Bool
  | .stdin => stdinFails
  | .file p => (readOutcome (files p) gunzip).failed

theorem exitCode_spec (re : Nat) (pe : Option Nat) (m : Nat) :
    (exitCode re pe m).1 = Spec.specExit re (pe.getD 0) m := by
  unfold exitCode Spec.specExit
  cases pe <;> simp <;> (repeat' split) <;> simp_all

end Rare.C06
