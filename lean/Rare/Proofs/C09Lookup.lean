import Rare.Proofs.C09Errors
import Rare.Spec.C09Lookup
import Rare.Proofs.C09Digits
import Rare.Proofs.C02
/-! C09: the lone-word rule (`stageSimpleVariable`) and `strconv.Atoi` against the declarative `IntLit`. -/
namespace Rare.C09
open Rare Rare.Expr

theorem digitsVal_eq_foldl (ds : Bytes) : ∀ acc, digitsVal ds acc = ds.foldl (fun acc d => acc * 10 + (d.toNat - 48)) acc := by
  induction ds with
  | nil => intro _; rfl
  | cons d r ih => intro acc; simp [digitsVal, ih]

theorem digitsVal_decValue (ds : Bytes) : digitsVal ds 0 = decValue ds := digitsVal_eq_foldl ds 0

theorem isDigitB_iff (d : UInt8) : isDigitB d = true ↔ 48 ≤ d.toNat ∧ d.toNat ≤ 57 := by
  simp [isDigitB, UInt8.le_iff_toNat_le]

theorem digits_iff (ds : Bytes) : (ds.isEmpty || !ds.all isDigitB) = false ↔ Digits ds := by
  simp only [Bool.or_eq_false_iff, Bool.not_eq_false', List.all_eq_true, Digits, isDigitB_iff]
  constructor
  · rintro ⟨h1, h2⟩; exact ⟨by simpa using h1, h2⟩
  · rintro ⟨h1, h2⟩; exact ⟨by simpa using h1, h2⟩

theorem digits_head {d : UInt8} {r : Bytes} (h : Digits (d :: r)) : d ≠ 43 ∧ d ≠ 45 := by
  have := h.2 d (by simp)
  constructor <;> (intro hd; subst hd; revert this; decide)

theorem atoi_plus (ds : Bytes) :
    atoi (43 :: ds) = if (ds.isEmpty || !ds.all isDigitB) then none
      else if inInt64 (decValue ds : Int) then some (decValue ds : Int) else none := by
  simp [atoi, digitsVal_decValue]

theorem atoi_minus (ds : Bytes) :
    atoi (45 :: ds) = if (ds.isEmpty || !ds.all isDigitB) then none
      else if inInt64 (-(decValue ds : Int)) then some (-(decValue ds : Int)) else none := by
  simp [atoi, digitsVal_decValue]

theorem inInt64_nonneg (n : Nat) : inInt64 (n : Int) = true ↔ (n : Int) ≤ 9223372036854775807 := by
  unfold inInt64 minInt64 maxInt64
  rw [Bool.and_eq_true, decide_eq_true_iff, decide_eq_true_iff]
  omega

theorem inInt64_neg (n : Nat) : inInt64 (-(n : Int)) = true ↔ (n : Int) ≤ 9223372036854775808 := by
  unfold inInt64 minInt64 maxInt64
  rw [Bool.and_eq_true, decide_eq_true_iff, decide_eq_true_iff]
  omega

theorem atoi_other (b : Bytes) (h1 : ∀ ds, b ≠ 43 :: ds) (h2 : ∀ ds, b ≠ 45 :: ds) :
    atoi b = if (b.isEmpty || !b.all isDigitB) then none
      else if inInt64 (decValue b : Int) then some (decValue b : Int) else none := by
  unfold atoi
  split
  next neg ds heq =>
    split at heq
    · next r => exact absurd rfl (h1 r)
    · next r => exact absurd rfl (h2 r)
    · cases heq
      simp [digitsVal_decValue]

theorem atoi_unsigned (ds : Bytes) (h : Digits ds) :
    atoi ds = if inInt64 (decValue ds : Int) then some (decValue ds : Int) else none := by
  rw [atoi_other ds, if_neg (by rw [(digits_iff ds).mpr h]; simp)]
  · intro r e; subst e; exact (digits_head h).1 rfl
  · intro r e; subst e; exact (digits_head h).2 rfl

theorem atoi_of_intLit {b : Bytes} {v : Int} (h : IntLit b v) : atoi b = some v := by
  cases h with
  | plain _ hd hr => rw [atoi_unsigned _ hd, if_pos ((inInt64_nonneg _).mpr hr)]
  | plus ds hd hr =>
    rw [atoi_plus, if_neg (by rw [(digits_iff ds).mpr hd]; simp), if_pos ((inInt64_nonneg _).mpr hr)]
  | minus ds hd hr =>
    rw [atoi_minus, if_neg (by rw [(digits_iff ds).mpr hd]; simp), if_pos ((inInt64_neg _).mpr hr)]

theorem intLit_of_atoi {b : Bytes} {v : Int} (h : atoi b = some v) : IntLit b v := by
  by_cases h43 : ∃ ds, b = 43 :: ds
  · obtain ⟨ds, rfl⟩ := h43
    rw [atoi_plus] at h
    split at h
    · cases h
    · next hd =>
      split at h
      · next hr => cases h; exact .plus ds ((digits_iff ds).mp (by simpa using hd)) ((inInt64_nonneg _).mp hr)
      · cases h
  by_cases h45 : ∃ ds, b = 45 :: ds
  · obtain ⟨ds, rfl⟩ := h45
    rw [atoi_minus] at h
    split at h
    · cases h
    · next hd =>
      split at h
      · next hr => cases h; exact .minus ds ((digits_iff ds).mp (by simpa using hd)) ((inInt64_neg _).mp hr)
      · cases h
  rw [atoi_other b (fun ds e => h43 ⟨ds, e⟩) (fun ds e => h45 ⟨ds, e⟩)] at h
  split at h
  · cases h
  · next hd =>
    split at h
    · next hr => cases h; exact .plain b ((digits_iff b).mp (by simpa using hd)) ((inInt64_nonneg _).mp hr)
    · cases h

/-- `strconv.Atoi` (the model's `atoi`) accepts exactly the decimal integer literals. -/
theorem atoi_iff_intLit (b : Bytes) (v : Int) : atoi b = some v ↔ IntLit b v :=
  ⟨intLit_of_atoi, atoi_of_intLit⟩

theorem atoi_none_iff (b : Bytes) : atoi b = none ↔ ∀ v, ¬ IntLit b v := by
  constructor
  · intro h v hv; rw [atoi_of_intLit hv] at h; cases h
  · intro h
    cases ha : atoi b with
    | none => rfl
    | some v => exact absurd (intLit_of_atoi ha) (h v)

/-! ### the lone-word rule -/

theorem optimize_single_dyn (s : Stage) (v : Bytes) (hp : s.probe = .ok (v, false)) : optimize [s] = .ok [s] := by
  simp [optimize, optimizeGo, hp]

theorem probe_simpleVariable (a : List Char) : ∃ v, (stageSimpleVariable a).probe = .ok (v, false) := by
  unfold stageSimpleVariable
  cases atoi (charsToBytes a) <;> exact ⟨[], rfl⟩

/-- A statement whose (balanced, backslash-free) body splits into ONE argument compiles, without errors, to the
    single stage `stageSimpleVariable` of that argument, optimiser on or off. -/
theorem compileF_lone (fuel : Nat) (reg : Registry) (opt : Bool) {body : List Char} (hi : Inner body) (a : List Char)
    (hs : splitArgs body = [a]) :
    compileF (fuel + 1) reg opt ('{' :: (body ++ ['}'])) = .ok ([stageSimpleVariable a], []) := by
  obtain ⟨j, hj⟩ := compileF_braced fuel reg opt hi
  rw [hj, close_var fuel reg opt _ j ⟨[], [], body, 0, 1⟩ a hs]
  cases opt with
  | false => simp [finishC]
  | true =>
    obtain ⟨v, hv⟩ := probe_simpleVariable a
    simp [finishC, optimize_single_dyn _ v hv]

theorem run_simpleVariable (a : List Char) (ctx : Ctx) :
    (buildKey [stageSimpleVariable a]).run ctx =
      .ok (match atoi (utf8 a) with | some i => ctx.getMatch i | none => ctx.getKey (utf8 a)) := by
  rw [buildKey, run_concat_single]
  unfold stageSimpleVariable
  rw [utf8_eq]
  cases atoi (utf8 a) <;> rfl

/-- body `lead ++ w ++ trail` of a lone bare word -/
theorem lone_body (lead w trail : List Char) (hl : allSpace lead = true) (hw : bare w = true) (ht : allSpace trail = true) :
    Inner (lead ++ w ++ trail) ∧ splitArgs (lead ++ w ++ trail) = [w] := by
  have hlo : LayoutOk true [(lead, Piece.bare w)] := ⟨hl, Or.inl rfl, hw, trivial⟩
  refine ⟨?_, ?_⟩
  · have := inner_append (inner_layout _ true hlo) (inner_of_plain (plain_of_space ht))
    simpa [layout, Piece.text] using this
  · have := splitArgs_layout [(lead, Piece.bare w)] trail hlo ht
    simpa [layout, Piece.text, Piece.value] using this

/-- body `lead ++ "q" ++ trail` of a lone quoted string -/
theorem lone_quoted_body (lead q trail : List Char) (hl : allSpace lead = true) (hq : plain q = true) (ht : allSpace trail = true) :
    Inner (lead ++ ['"'] ++ q ++ ['"'] ++ trail) ∧ splitArgs (lead ++ ['"'] ++ q ++ ['"'] ++ trail) = [q] := by
  have hlo : LayoutOk true [(lead, Piece.quoted q)] := ⟨hl, Or.inl rfl, hq, trivial⟩
  refine ⟨?_, ?_⟩
  · have := inner_append (inner_layout _ true hlo) (inner_of_plain (plain_of_space ht))
    simpa [layout, Piece.text] using this
  · have := splitArgs_layout [(lead, Piece.quoted q)] trail hlo ht
    simpa [layout, Piece.text, Piece.value] using this

end Rare.C09
