import Rare.Spec.C18
/-!
C18: facts about the reference calendar (`Rare/Spec/C18.lean`).  Everything is linear integer
arithmetic once the 400-year cycle is decomposed by hand into century `c`, 4-year block `q` and
year in block `k` (omega cannot find that decomposition itself).
-/
namespace Rare.C18

/-- Year of era from day of era (Hinnant). -/
def yoeOf (doe : Int) : Int := (doe - doe / 1460 + doe / 36524 - doe / 146096) / 365
/-- First day of era of a year of era. -/
def startOf (yoe : Int) : Int := 365 * yoe + yoe / 4 - yoe / 100

/-- The decomposition of a day of era below the last day of the cycle. -/
theorem yoe_char (doe : Int) (h0 : 0 ≤ doe) (h1 : doe < 146096) :
    ∃ c q k : Int, 0 ≤ c ∧ c ≤ 3 ∧ 0 ≤ q ∧ q ≤ 24 ∧ 0 ≤ k ∧ k ≤ 3 ∧
      yoeOf doe = 100 * c + 4 * q + k ∧
      0 ≤ doe - (36524 * c + 1461 * q + 365 * k) ∧
      (doe - (36524 * c + 1461 * q + 365 * k) ≤ 364 ∨
        (k = 3 ∧ doe - (36524 * c + 1461 * q + 365 * k) = 365 ∧ (q ≤ 23 ∨ c = 3))) := by
  let c := doe / 36524
  let d := doe % 36524
  let q := d / 1461
  let r := d % 1461
  have hc : doe / 36524 = c := rfl
  have hdoe : doe = 36524 * c + 1461 * q + r := by omega
  have hr0 : 0 ≤ r := by omega
  have hr1 : r ≤ 1460 := by omega
  have hq0 : 0 ≤ q := by omega
  have hq1 : q ≤ 24 := by omega
  have hc0 : 0 ≤ c := by omega
  have hc1 : c ≤ 3 := by omega
  have hq24 : q = 24 → r ≤ 1459 := by omega
  refine ⟨c, q, if r / 365 = 4 then 3 else r / 365, hc0, hc1, hq0, hq1, ?_, ?_, ?_, ?_, ?_⟩
  · split <;> omega
  · split <;> omega
  · unfold yoeOf
    have hg : doe / 146096 = 0 := by omega
    have he : doe / 1460 = 25 * c + q + (24 * c + q + r) / 1460 := by omega
    rw [hg, hc, he]
    split <;> omega
  · split <;> omega
  · split
    · right
      refine ⟨rfl, by omega, ?_⟩
      by_cases h24 : q = 24
      · have := hq24 h24
        omega
      · left; omega
    · left; omega

theorem startOf_char (c q k : Int) (_hc0 : 0 ≤ c) (_hc1 : c ≤ 3) (hq0 : 0 ≤ q) (hq1 : q ≤ 24) (hk0 : 0 ≤ k) (hk1 : k ≤ 3) :
    startOf (100 * c + 4 * q + k) = 36524 * c + 1461 * q + 365 * k := by
  unfold startOf; omega

/-- Day of year (March-based) is within the year: 0..364, or 365 in a (March-based) leap year. -/
theorem yoe_bounds (doe : Int) (h0 : 0 ≤ doe) (h1 : doe ≤ 146096) :
    0 ≤ yoeOf doe ∧ yoeOf doe ≤ 399 ∧ 0 ≤ doe - startOf (yoeOf doe) ∧
      (doe - startOf (yoeOf doe) ≤ 364 ∨
        (doe - startOf (yoeOf doe) = 365 ∧ (yoeOf doe + 1) % 4 = 0 ∧ ((yoeOf doe + 1) % 100 ≠ 0 ∨ yoeOf doe = 399))) := by
  by_cases hl : doe = 146096
  · subst hl; decide
  · obtain ⟨c, q, k, hc0, hc1, hq0, hq1, hk0, hk1, hy, hd0, hd1⟩ := yoe_char doe h0 (by omega)
    rw [hy, startOf_char c q k hc0 hc1 hq0 hq1 hk0 hk1]
    refine ⟨by omega, by omega, hd0, ?_⟩
    rcases hd1 with h | ⟨hk, h365, hq⟩
    · left; exact h
    · right
      refine ⟨h365, by omega, ?_⟩
      rcases hq with hq | hc3
      · left; omega
      · by_cases h24 : q = 24
        · right; omega
        · left; omega

/-- What `civilFromDays` computes, in terms of the cycle decomposition. -/
theorem cfd_spec (z : Int) :
    ∃ era yoe doy mp : Int, 0 ≤ yoe ∧ yoe ≤ 399 ∧ 0 ≤ doy ∧
      (doy ≤ 364 ∨ (doy = 365 ∧ (yoe + 1) % 4 = 0 ∧ ((yoe + 1) % 100 ≠ 0 ∨ yoe = 399))) ∧
      z + 719468 = era * 146097 + startOf yoe + doy ∧
      mp = (5 * doy + 2) / 153 ∧
      civilFromDays z = ⟨yoe + era * 400 + (if (if mp < 10 then mp + 3 else mp - 9) ≤ 2 then 1 else 0),
        (if mp < 10 then mp + 3 else mp - 9), doy - (153 * mp + 2) / 5 + 1⟩ := by
  let era := (z + 719468) / 146097
  let doe := (z + 719468) - era * 146097
  have hd0 : 0 ≤ doe := by omega
  have hd1 : doe ≤ 146096 := by omega
  obtain ⟨hy0, hy1, hdoy0, hdoy1⟩ := yoe_bounds doe hd0 hd1
  refine ⟨era, yoeOf doe, doe - startOf (yoeOf doe), (5 * (doe - startOf (yoeOf doe)) + 2) / 153,
    hy0, hy1, hdoy0, hdoy1, by omega, rfl, ?_⟩
  rfl

theorem civil_month_day (z : Int) :
    1 ≤ (civilFromDays z).m ∧ (civilFromDays z).m ≤ 12 ∧ 1 ≤ (civilFromDays z).d ∧
      (civilFromDays z).d ≤ daysIn (civilFromDays z).m (civilFromDays z).y := by
  obtain ⟨era, yoe, doy, mp, hy0, hy1, hd0, hd1, _, hmp, hc⟩ := cfd_spec z
  rw [hc]
  simp only
  have hmp0 : 0 ≤ mp := by omega
  have hmp1 : mp ≤ 11 := by omega
  refine ⟨by split <;> omega, by split <;> omega, by omega, ?_⟩
  unfold daysIn isLeap
  by_cases h10 : mp < 10
  · simp only [h10, if_true]
    have hm2 : ¬ (mp + 3 = 2) := by omega
    simp only [hm2, if_false]
    split <;> omega
  · simp only [h10, if_false]
    by_cases h11 : mp = 11
    · subst h11
      simp only [show (11 : Int) - 9 = 2 from rfl, if_true, show ((2 : Int) ≤ 2) = True from by simp]
      rcases hd1 with h | ⟨h365, h4, h100⟩
      · split <;> omega
      · have hl : (decide ((yoe + era * 400 + 1) % 4 = 0) && (decide ((yoe + era * 400 + 1) % 100 ≠ 0) || decide ((yoe + era * 400 + 1) % 400 = 0))) = true := by
          simp only [Bool.and_eq_true, Bool.or_eq_true, decide_eq_true_eq]
          refine ⟨by omega, ?_⟩
          rcases h100 with h | h
          · left; omega
          · right; omega
        simp only [hl, if_true]
        omega
    · have : mp = 10 := by omega
      subst this
      simp only [show (10 : Int) - 9 = 1 from rfl, show ¬ ((1 : Int) = 2) from by decide, if_false]
      split <;> omega

/-- `daysFromCivil ∘ civilFromDays = id`: the civil date of a day number denotes that day number. -/
theorem civil_roundtrip' (z : Int) :
    daysFromCivil (civilFromDays z).y (civilFromDays z).m (civilFromDays z).d = z := by
  obtain ⟨era, yoe, doy, mp, hy0, hy1, hd0, hd1, hz, hmp, hc⟩ := cfd_spec z
  rw [hc]
  have hmp0 : 0 ≤ mp := by omega
  have hmp1 : mp ≤ 11 := by omega
  unfold daysFromCivil
  simp only
  unfold startOf at hz
  by_cases h10 : mp < 10
  · have e1 : ¬ (mp + 3 ≤ 2) := by omega
    have e2 : mp + 3 > 2 := by omega
    simp only [h10, if_true, e1, if_false, e2]
    omega
  · have e1 : mp - 9 ≤ 2 := by omega
    have e2 : ¬ (mp - 9 > 2) := by omega
    simp only [h10, if_false, e1, if_true, e2]
    omega

/-- The 0-based day of the year lies within a year. -/
theorem yearDay_range' (z : Int) : 0 ≤ yearDay z ∧ yearDay z ≤ 365 := by
  obtain ⟨era, yoe, doy, mp, hy0, hy1, hd0, hd1, hz, hmp, hc⟩ := cfd_spec z
  unfold yearDay
  rw [hc]
  have hmp0 : 0 ≤ mp := by omega
  have hmp1 : mp ≤ 11 := by omega
  unfold daysFromCivil
  simp only [show ((1 : Int) ≤ 2) = True from by simp, if_true, show ¬ ((1 : Int) > 2) from by decide, if_false]
  unfold startOf at hz
  by_cases h10 : mp < 10
  · have e1 : ¬ (mp + 3 ≤ 2) := by omega
    simp only [h10, if_true, e1, if_false]
    by_cases hy : yoe = 0
    · subst hy
      have hg : (0 + era * 400 + 0 - 1) / 400 = era - 1 := by omega
      rw [hg]; omega
    · have hg : (yoe + era * 400 + 0 - 1) / 400 = era := by omega
      rw [hg]; omega
  · have e1 : mp - 9 ≤ 2 := by omega
    simp only [h10, if_false, e1, if_true]
    have hg : (yoe + era * 400 + 1 - 1) / 400 = era := by omega
    have hs : yoe + era * 400 + 1 - 1 - era * 400 = yoe := by omega
    rw [hg, hs]; omega

theorem weekday_range' (d : Int) : 0 ≤ weekday d ∧ weekday d ≤ 6 := by
  unfold weekday; omega

theorem thursdayOf_facts (d : Int) :
    weekday (thursdayOf d) = 4 ∧ thursdayOf d - 3 ≤ d ∧ d ≤ thursdayOf d + 3 ∧
      weekday (thursdayOf d - 3) = 1 ∧ thursdayOf (thursdayOf d) = thursdayOf d := by
  unfold thursdayOf weekday; omega

/-! ## years as intervals of day numbers -/

/-- Day number of 1 January. -/
def yearStart (y : Int) : Int := daysFromCivil y 1 1

theorem yearStart_closed (y : Int) :
    yearStart y = 365 * (y - 1) + (y - 1) / 4 - (y - 1) / 100 + (y - 1) / 400 - 719162 := by
  unfold yearStart daysFromCivil
  simp only [show ((1 : Int) ≤ 2) = True from by simp, if_true, show ¬ ((1 : Int) > 2) from by decide, if_false]
  omega

theorem yearStart_mono (a b : Int) (h : a ≤ b) : yearStart a + 365 * (b - a) ≤ yearStart b := by
  rw [yearStart_closed, yearStart_closed]
  omega

/-- A year has 365 days, or 366 when it is a leap year. -/
theorem yearStart_succ (y : Int) : yearStart (y + 1) = yearStart y + (if isLeap y then 366 else 365) := by
  rw [yearStart_closed, yearStart_closed]
  unfold isLeap
  by_cases h4 : y % 4 = 0 <;> by_cases h100 : y % 100 = 0 <;> by_cases h400 : y % 400 = 0 <;>
    simp [h4, h100, h400] <;> omega

/-- A day lies in the year `civilFromDays` assigns to it. -/
theorem year_bounds (z : Int) : yearStart (civilFromDays z).y ≤ z ∧ z < yearStart ((civilFromDays z).y + 1) := by
  constructor
  · have := (yearDay_range' z).1
    unfold yearDay at this; unfold yearStart; omega
  · obtain ⟨era, yoe, doy, mp, hy0, hy1, hd0, hd1, hz, hmp, hc⟩ := cfd_spec z
    rw [hc, yearStart_closed]
    have hmp0 : 0 ≤ mp := by omega
    have hmp1 : mp ≤ 11 := by omega
    unfold startOf at hz
    simp only
    by_cases h10 : mp < 10
    · have e1 : ¬ (mp + 3 ≤ 2) := by omega
      simp only [h10, if_true, e1, if_false]
      have g4 : (yoe + era * 400 + 0 + 1 - 1) / 4 = 100 * era + yoe / 4 := by omega
      have g100 : (yoe + era * 400 + 0 + 1 - 1) / 100 = 4 * era + yoe / 100 := by omega
      have g400 : (yoe + era * 400 + 0 + 1 - 1) / 400 = era := by omega
      rw [g4, g100, g400]
      omega
    · have e1 : mp - 9 ≤ 2 := by omega
      simp only [h10, if_false, e1, if_true]
      omega

/-- … and in no other: the year is determined by the interval. -/
theorem year_unique (z y : Int) (h0 : yearStart y ≤ z) (h1 : z < yearStart (y + 1)) : (civilFromDays z).y = y := by
  obtain ⟨b0, b1⟩ := year_bounds z
  by_cases hlt : (civilFromDays z).y < y
  · have := yearStart_mono ((civilFromDays z).y + 1) y (by omega)
    omega
  · by_cases hgt : y < (civilFromDays z).y
    · have := yearStart_mono (y + 1) (civilFromDays z).y (by omega)
      omega
    · omega

end Rare.C18
