import Rare.Proofs.C12Pool
import Rare.Proofs.C12Index
/-! `FindSubmatchIndex` (with the pool as memory) refines `specDissect`. -/
namespace Rare.C12

/-- what `FindSubmatchIndex` needs to know about a compiled token -/
def TokRel (t : Token) (k : Tok) : Prop := t.skip = k.skip ∧ t.until_ = k.lit

inductive TokRels : List Token → List Tok → Prop
  | nil : TokRels [] []
  | cons {t k ts ks} : TokRel t k → TokRels ts ks → TokRels (t :: ts) (k :: ks)

/-- the line as the installed `indexOf` sees it -/
def viewL (ic : Bool) (str : Bytes) : Bytes := if ic then lower str else str

theorem viewL_length (ic : Bool) (s : Bytes) : (viewL ic s).length = s.length := by
  unfold viewL; split <;> simp [lower_length]
theorem viewL_drop (ic : Bool) (s : Bytes) (k : Nat) : viewL ic (s.drop k) = (viewL ic s).drop k := by
  unfold viewL; split <;> simp [lower_drop]

theorem indexOf_viewL (d : Dissect) (s u : Bytes) : d.indexOf s u = stringsIndex (viewL d.ic s) u := by
  rw [indexOf_eq]; rfl

/-- the pool after some writes through `ret`: same shape, nothing outside `ret` changed -/
structure Frame (p p' : Pool) (ret : View) : Prop where
  wf : p'.WF
  size : p'.size = p.size
  cur : p'.cur = p.cur
  off : p'.off = p.off
  hlen : p'.heap.length = p.heap.length
  other : ∀ w, ret.Disjoint w → p'.read w = p.read w

theorem Frame.refl {p : Pool} (h : p.WF) (ret : View) : Frame p p ret :=
  ⟨h, rfl, rfl, rfl, rfl, fun _ _ => rfl⟩

theorem Frame.trans {p p' p'' : Pool} {ret : View} (a : Frame p p' ret) (b : Frame p' p'' ret) :
    Frame p p'' ret :=
  ⟨b.wf, b.size.trans a.size, b.cur.trans a.cur, b.off.trans a.off, b.hlen.trans a.hlen,
   fun w hw => (b.other w hw).trans (a.other w hw)⟩

theorem Frame.of_write {p p' : Pool} {v : View} {i : Nat} {x : Int} (h : p.write v i x = .ok p')
    (hw : p.WF) : Frame p p' v := by
  obtain ⟨a, b, c, d, e⟩ := Pool.write_wf h hw
  exact ⟨a, b, c, d, e, fun w hd => Pool.write_read_other h hd⟩

theorem Frame.valid {p p' : Pool} {ret v : View} (f : Frame p p' ret) (hv : p.Valid v) : p'.Valid v := by
  unfold Pool.Valid at *; rw [f.hlen, f.size]; exact hv

theorem Frame.behind {p p' : Pool} {ret v : View} (f : Frame p p' ret) (hv : p.Behind v) : p'.Behind v := by
  unfold Pool.Behind at *; rw [f.cur, f.off]; exact ⟨f.valid hv.1, hv.2⟩

/-- length of the text of one token according to the spec -/
def tokLen (line : Bytes) (k : Tok) (pos : Nat) : Option Nat :=
  if k.lit = [] then some (line.drop pos).length else firstIndex k.lit (line.drop pos)

theorem specToks_cons (line : Bytes) (k : Tok) (ks : List Tok) (pos : Nat) :
    specToks line (k :: ks) pos =
      match tokLen line k pos with
      | none => none
      | some n =>
        match specToks line ks (pos + n + k.lit.length) with
        | none => none
        | some (caps, e) => some ((if k.skip then [] else [pos, pos + n]) ++ caps, e) := by
  simp only [specToks, tokLen]; rfl

theorem tokLen_bound {line : Bytes} {k : Tok} {pos n : Nat} (h : tokLen line k pos = some n)
    (hp : pos ≤ line.length) : pos + n + k.lit.length ≤ line.length := by
  unfold tokLen at h
  split at h
  · rename_i hl; cases h; simp [hl]; omega
  · have := (firstIndex_some_prefix h).2
    simp only [List.length_drop] at this; omega

/-- the model's `endOffset` is the spec's token length (or negative when there is none) -/
theorem endOffset_eq (d : Dissect) (str : Bytes) (t : Token) (k : Tok) (hr : TokRel t k) (pos : Nat) :
    (if t.until_ = [] then ((str.drop pos).length : Int) else d.indexOf (str.drop pos) t.until_) =
      match tokLen (viewL d.ic str) k pos with
      | some n => (n : Int)
      | none => -1 := by
  unfold tokLen
  rw [hr.2]
  split
  · simp [viewL_length]
  · rw [indexOf_viewL, viewL_drop, stringsIndex]
    cases firstIndex k.lit ((viewL d.ic str).drop pos) <;> rfl

def capCount (ks : List Tok) : Nat := (ks.filter (fun k => !k.skip)).length

theorem tokenLoop_spec (d : Dissect) (str : Bytes) (ret : View) :
    ∀ (ts : List Token) (ks : List Tok), TokRels ts ks →
    ∀ (pos idx : Nat) (p : Pool), p.WF → p.Valid ret → pos ≤ str.length →
      idx + 2 * capCount ks ≤ ret.len →
      match specToks (viewL d.ic str) ks pos with
      | none => ∃ p', tokenLoop d str ret ts (pos : Int) idx p = .ok (none, p') ∧ Frame p p' ret
      | some (caps, e) => ∃ p', tokenLoop d str ret ts (pos : Int) idx p = .ok (some (e : Int), p') ∧
          Frame p p' ret ∧ caps.length = 2 * capCount ks ∧
          ∀ j, (p'.read ret)[j]? =
            if idx ≤ j ∧ j < idx + caps.length then (caps[j - idx]?).map Int.ofNat else (p.read ret)[j]? := by
  intro ts ks hrel
  induction hrel with
  | nil =>
    intro pos idx p hw hv hpos hidx
    simp only [specToks, tokenLoop]
    exact ⟨p, rfl, Frame.refl hw ret, by simp [capCount], by intro j; simp; intro a b; omega⟩
  | @cons t k ts ks hr hrel ih =>
    intro pos idx p hw hv hpos hidx
    rw [specToks_cons]
    have hnb : ¬ ((pos : Int) < 0 ∨ (str.length : Int) < (pos : Int)) := by omega
    have hE := endOffset_eq d str t k hr pos
    simp only [tokenLoop, hnb, if_false, Int.toNat_natCast]
    rw [hE]
    cases hn : tokLen (viewL d.ic str) k pos with
    | none =>
      simp only []
      exact ⟨p, by simp, Frame.refl hw ret⟩
    | some n =>
      have hb := tokLen_bound hn (by rw [viewL_length]; exact hpos)
      rw [viewL_length] at hb
      have hnn : ¬ ((n : Int) < 0) := by omega
      simp only [hnn, if_false, hr.1, hr.2]
      have hcast : (pos : Int) + (n : Int) + (k.lit.length : Int) = ((pos + n + k.lit.length : Nat) : Int) := by
        simp [Int.natCast_add]
      rw [hcast]
      by_cases hs : k.skip = true
      · -- skipped token: no write
        have hcc : capCount (k :: ks) = capCount ks := by simp [capCount, List.filter, hs]
        rw [hcc] at hidx ⊢
        have := ih (pos + n + k.lit.length) idx p hw hv hb hidx
        simp only [hs, Bool.not_true, Bool.false_eq_true, if_false, if_true, List.nil_append]
        cases hrec : specToks (viewL d.ic str) ks (pos + n + k.lit.length) with
        | none => rw [hrec] at this; exact this
        | some ce => rw [hrec] at this; exact this
      · have hs' : k.skip = false := by simpa using hs
        have hcc : capCount (k :: ks) = capCount ks + 1 := by simp [capCount, List.filter, hs']
        rw [hcc] at hidx ⊢
        obtain ⟨p1, hp1⟩ := p.write_succeeds (v := ret) (i := idx) (pos : Int) (by omega)
        have f1 := Frame.of_write hp1 hw
        obtain ⟨p2, hp2⟩ := p1.write_succeeds (v := ret) (i := idx + 1) ((pos : Int) + (n : Int)) (by omega)
        have f2 := Frame.of_write hp2 f1.wf
        have f12 := f1.trans f2
        have := ih (pos + n + k.lit.length) (idx + 2) p2 f12.wf (f12.valid hv) hb (by omega)
        simp only [hs', Bool.not_false, if_true, Bool.false_eq_true, if_false, hp1, hp2]
        have hr1 := Pool.write_read_self hp1 hw hv
        have hr2 := Pool.write_read_self hp2 f1.wf (f1.valid hv)
        cases hrec : specToks (viewL d.ic str) ks (pos + n + k.lit.length) with
        | none =>
          rw [hrec] at this
          obtain ⟨p', h1, h2⟩ := this
          exact ⟨p', h1, f12.trans h2⟩
        | some ce =>
          obtain ⟨caps, e⟩ := ce
          rw [hrec] at this
          obtain ⟨p', h1, h2, h3, h4⟩ := this
          refine ⟨p', h1, f12.trans h2, by simp; omega, ?_⟩
          intro j
          rw [h4 j, hr2 j, hr1 j]
          simp only [List.cons_append, List.nil_append, List.length_cons]
          by_cases c1 : j = idx
          · have a1 : ¬ (idx + 2 ≤ j ∧ j < idx + 2 + caps.length) := by omega
            have a2 : (idx ≤ j ∧ j < idx + (caps.length + 1 + 1)) := by omega
            have a3 : j - idx = 0 := by omega
            simp only [a1, a2, a3, and_self, if_true, if_false]
            simp [c1]
          · by_cases c2 : j = idx + 1
            · have a1 : ¬ (idx + 2 ≤ j ∧ j < idx + 2 + caps.length) := by omega
              have a2 : (idx ≤ j ∧ j < idx + (caps.length + 1 + 1)) := by omega
              have a3 : j - idx = 1 := by omega
              simp only [a1, a2, a3, and_self, if_true, if_false]
              simp [c2, Int.natCast_add]
            · by_cases c3 : idx + 2 ≤ j ∧ j < idx + 2 + caps.length
              · have e1 : idx ≤ j ∧ j < idx + (caps.length + 1 + 1) := by omega
                have e2 : j - idx = (j - (idx + 2)) + 1 + 1 := by omega
                simp only [c3, e1, and_self, if_true]
                rw [e2]; simp
              · have e1 : ¬ (idx ≤ j ∧ j < idx + (caps.length + 1 + 1)) := by omega
                simp [c1, c2, c3, e1]

end Rare.C12

namespace Rare.C12

/-- one `FindSubmatchIndex` call seen from the outside: pool still well formed, every slice handed
out before is still behind the frontier and reads the same -/
structure PoolStep (p p' : Pool) : Prop where
  wf : p'.WF
  size : p'.size = p.size
  keep : ∀ w, p.Behind w → p'.Behind w ∧ p'.read w = p.read w

theorem PoolStep.refl {p : Pool} (h : p.WF) : PoolStep p p := ⟨h, rfl, fun _ hw => ⟨hw, rfl⟩⟩

theorem PoolStep.trans {p p' p'' : Pool} (a : PoolStep p p') (b : PoolStep p' p'') : PoolStep p p'' :=
  ⟨b.wf, b.size.trans a.size, fun w hw =>
    ⟨(b.keep w (a.keep w hw).1).1, ((b.keep w (a.keep w hw).1).2).trans (a.keep w hw).2⟩⟩

theorem stringsIndex_neg {s u : Bytes} : stringsIndex s u < 0 ↔ firstIndex u s = none := by
  unfold stringsIndex
  cases firstIndex u s with
  | none => simp
  | some i => simp

theorem find_spec (s : Instance) (str : Bytes) (ks : List Tok)
    (hrel : TokRels s.d.tokens ks) (hcount : s.d.groupCount = capCount ks)
    (hw : s.pool.WF) (hsz : s.d.groupCount * 2 + 2 ≤ s.pool.size) :
    match specDissect ⟨s.d.pre, ks⟩ (viewL s.d.ic str) with
    | none => ∃ s', findSubmatchIndex s str = .ok (none, s') ∧ s'.d = s.d ∧ PoolStep s.pool s'.pool
    | some r => ∃ v s', findSubmatchIndex s str = .ok (some v, s') ∧ s'.d = s.d ∧ PoolStep s.pool s'.pool ∧
        s'.pool.read v = r.map Int.ofNat ∧ s'.pool.Behind v ∧ ∀ w, s.pool.Behind w → w.Disjoint v := by
  -- the start position
  have hstart : (if s.d.pre ≠ [] then
        (let st := s.d.indexOf str s.d.pre
         if st < 0 then none else some (st + (s.d.pre.length : Int)))
      else some 0) =
      (firstIndex s.d.pre (viewL s.d.ic str)).map (fun i => ((i + s.d.pre.length : Nat) : Int)) := by
    by_cases hp : s.d.pre = []
    · simp [hp, firstIndex_nil]
    · simp only [hp, ne_eq, not_false_eq_true, if_true, indexOf_viewL]
      cases hf : firstIndex s.d.pre (viewL s.d.ic str) with
      | none => simp [stringsIndex_neg.mpr hf]
      | some i =>
        have : ¬ stringsIndex (viewL s.d.ic str) s.d.pre < 0 := by rw [stringsIndex_neg, hf]; simp
        simp [stringsIndex, hf, Int.natCast_add]
  unfold findSubmatchIndex
  simp only [hstart, specDissect]
  cases hf : firstIndex s.d.pre (viewL s.d.ic str) with
  | none => exact ⟨s, rfl, rfl, PoolStep.refl hw⟩
  | some i =>
    simp only [Option.map_some]
    have hib := (firstIndex_some_prefix hf).2
    rw [viewL_length] at hib
    -- Get
    have hget : ∃ ret p1, s.pool.get (s.d.groupCount * 2 + 2) = .ok (ret, p1) := by
      unfold Pool.get
      split
      · have : ¬ s.d.groupCount * 2 + 2 > s.pool.size := by omega
        simp only [this, if_false]; exact ⟨_, _, rfl⟩
      · exact ⟨_, _, rfl⟩
    obtain ⟨ret, p1, hg⟩ := hget
    obtain ⟨wf1, sz1, hlen, hbeh, hkeep⟩ := Pool.get_spec hg hw
    simp only [hg]
    -- ret[0]
    obtain ⟨p2, hp2⟩ := p1.write_succeeds (v := ret) (i := 0) (((i + s.d.pre.length : Nat) : Int) - (s.d.pre.length : Int)) (by omega)
    have f2 := Frame.of_write hp2 wf1
    have hr2 := Pool.write_read_self hp2 wf1 hbeh.1
    simp only [hp2]
    -- the loop
    have hloop := tokenLoop_spec s.d str ret s.d.tokens ks hrel (i + s.d.pre.length) 2 p2 f2.wf
      (f2.valid hbeh.1) hib (by omega)
    have old : ∀ (p' : Pool), Frame p1 p' ret → PoolStep s.pool p' := by
      intro p' f
      refine ⟨f.wf, f.size.trans sz1, fun w hbw => ?_⟩
      obtain ⟨b1, d1, r1⟩ := hkeep w hbw
      exact ⟨f.behind b1, (f.other w d1.symm).trans r1⟩
    cases hst : specToks (viewL s.d.ic str) ks (i + s.d.pre.length) with
    | none =>
      rw [hst] at hloop
      obtain ⟨p3, h3, f3⟩ := hloop
      simp only [h3]
      exact ⟨_, rfl, rfl, old p3 (f2.trans f3)⟩
    | some ce =>
      obtain ⟨caps, e⟩ := ce
      rw [hst] at hloop
      obtain ⟨p3, h3, f3, hcl, hr3⟩ := hloop
      simp only [h3]
      have f23 := f2.trans f3
      obtain ⟨p4, hp4⟩ := p3.write_succeeds (v := ret) (i := 1) (e : Int) (by omega)
      have f4 := Frame.of_write hp4 f23.wf
      have hr4 := Pool.write_read_self hp4 f23.wf (f23.valid hbeh.1)
      simp only [hp4]
      have f24 := f23.trans f4
      refine ⟨ret, _, rfl, rfl, old p4 f24, ?_, f24.behind hbeh, fun w hbw => (hkeep w hbw).2.1⟩
      apply List.ext_getElem?
      intro j
      simp only []
      rw [hr4 j, hr3 j, hr2 j]
      have hrl : (p1.read ret).length = ret.len := Pool.read_length wf1 hbeh.1
      by_cases c0 : j = 0
      · subst c0; simp
      · by_cases c1 : j = 1
        · subst c1; simp
        · by_cases c2 : j < 2 + caps.length
          · have a1 : 2 ≤ j ∧ j < 2 + caps.length := by omega
            have a2 : j = (j - 2) + 1 + 1 := by omega
            simp only [c1, a1, and_self, if_true, if_false]
            rw [a2]; simp
          · have a1 : ¬ (2 ≤ j ∧ j < 2 + caps.length) := by omega
            have a2 : j = (j - 2) + 1 + 1 := by omega
            simp only [c0, c1, a1, if_false]
            have hge : (p1.read ret).length ≤ j := by omega
            rw [List.getElem?_eq_none hge]
            rw [a2]; simp only [List.map_cons, List.getElem?_cons_succ, List.getElem?_map]
            rw [List.getElem?_eq_none (by omega)]; rfl

end Rare.C12

namespace Rare.C12

/-- A whole sequence of lines matched by ONE instance: every returned slice, re-read after the
LAST call, holds the spec result of its own line; the slices are pairwise disjoint. -/
theorem runLines_spec (ks : List Tok) : ∀ (lines : List Bytes) (s : Instance),
    TokRels s.d.tokens ks → s.d.groupCount = capCount ks → s.pool.WF →
    s.d.groupCount * 2 + 2 ≤ s.pool.size →
    ∃ vs s', runLines s lines = .ok (vs, s') ∧ s'.d = s.d ∧ PoolStep s.pool s'.pool ∧
      vs.map (fun o => o.map s'.pool.read) =
        lines.map (fun l => (specDissect ⟨s.d.pre, ks⟩ (viewL s.d.ic l)).map (·.map Int.ofNat)) ∧
      (∀ v ∈ vs.filterMap id, s'.pool.Behind v) ∧
      (∀ w, s.pool.Behind w → ∀ v ∈ vs.filterMap id, w.Disjoint v) ∧
      (vs.filterMap id).Pairwise View.Disjoint := by
  intro lines
  induction lines with
  | nil =>
    intro s _ _ hw _
    exact ⟨[], s, rfl, rfl, PoolStep.refl hw, rfl, by simp, by simp, by simp⟩
  | cons l ls ih =>
    intro s hrel hcount hw hsz
    have h1 := find_spec s l ks hrel hcount hw hsz
    simp only [runLines]
    cases hsp : specDissect ⟨s.d.pre, ks⟩ (viewL s.d.ic l) with
    | none =>
      rw [hsp] at h1
      obtain ⟨s1, hf, hd, st⟩ := h1
      obtain ⟨vs, s', hr, hd', st', hres, hbeh, hdis, hpw⟩ :=
        ih s1 (hd ▸ hrel) (hd ▸ hcount) st.wf (by rw [hd, st.size]; exact hsz)
      refine ⟨none :: vs, s', by simp [hf, hr], hd'.trans hd, st.trans st', ?_, ?_, ?_, ?_⟩
      · simp only [List.map_cons, Option.map_none, hsp]
        rw [hres, hd]
      · simpa using hbeh
      · intro w hbw v hv
        exact hdis w (st.keep w hbw).1 v (by simpa using hv)
      · simpa using hpw
    | some r =>
      rw [hsp] at h1
      obtain ⟨v, s1, hf, hd, st, hread, hbv, hdv⟩ := h1
      obtain ⟨vs, s', hr, hd', st', hres, hbeh, hdis, hpw⟩ :=
        ih s1 (hd ▸ hrel) (hd ▸ hcount) st.wf (by rw [hd, st.size]; exact hsz)
      refine ⟨some v :: vs, s', by simp [hf, hr], hd'.trans hd, st.trans st', ?_, ?_, ?_, ?_⟩
      · simp only [List.map_cons, Option.map_some, hsp]
        rw [hres, hd, (st'.keep v hbv).2, hread]
      · intro x hx
        simp only [List.filterMap_cons, id_eq, List.mem_cons] at hx
        rcases hx with rfl | hx
        · exact (st'.keep _ hbv).1
        · exact hbeh x hx
      · intro w hbw x hx
        simp only [List.filterMap_cons, id_eq, List.mem_cons] at hx
        rcases hx with rfl | hx
        · exact hdv w hbw
        · exact hdis w (st.keep w hbw).1 x hx
      · simp only [List.filterMap_cons, id_eq, List.pairwise_cons]
        exact ⟨fun x hx => hdis v hbv x hx, hpw⟩

end Rare.C12
