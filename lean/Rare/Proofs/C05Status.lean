import Rare.Model.C05Status
/-! Facts about the status bookkeeping model (C05). -/
namespace Rare.C05Status

/-- The in-place removal loop of `stopFileReading` removes exactly the first equal entry. -/
theorem removeFirst_eq (x : String) (l : List String) :
    removeFirst x l = if x ∈ l then some (l.erase x) else none := by
  induction l with
  | nil => simp [removeFirst]
  | cons y r ih =>
    by_cases hyx : y = x
    · subst hyx; simp [removeFirst]
    · have hxy : ¬ x = y := fun h => hyx h.symm
      by_cases hmem : x ∈ r
      · simp [removeFirst, hyx, ih, hmem, hxy]
      · simp [removeFirst, hyx, ih, hmem, hxy]

theorem step_stop (s : St) (n : String) :
    step s (.stop n) =
      if n ∈ s.active then { s with active := s.active.erase n, readCount := s.readCount + 1 } else s := by
  simp only [step, removeFirst_eq]
  by_cases h : n ∈ s.active <;> simp [h]

theorem step_start (s : St) (n : String) : (step s (.start n)).active = s.active ++ [n] := rfl

/-- A script that never opens a source that is already open. -/
def FreshStarts : St → List Op → Prop
  | _, [] => True
  | s, .start n :: r => n ∉ s.active ∧ FreshStarts (step s (.start n)) r
  | s, o :: r => FreshStarts (step s o) r

theorem step_nodup (s : St) (o : Op) (h : s.active.Nodup) (hf : ∀ n, o = .start n → n ∉ s.active) :
    (step s o).active.Nodup := by
  cases o with
  | start n =>
    rw [step_start]
    refine List.nodup_append.mpr ⟨h, by simp, ?_⟩
    intro a ha b hb; simp at hb; subst hb; intro hab; subst hab; exact hf _ rfl ha
  | stop n =>
    rw [step_stop]
    by_cases hm : n ∈ s.active
    · simp only [hm, if_true]; exact h.erase n
    · simp only [hm, if_false]; exact h
  | setCount n => exact h
  | err => exact h

/-- Under such a script no state ever has the same source twice in the active list – so a status line
    showing one name twice (what a torn read of the list produces) is a state that never existed. -/
theorem states_nodup : ∀ (ops : List Op) (s : St), s.active.Nodup → FreshStarts s ops →
    ∀ st ∈ states s ops, st.active.Nodup := by
  intro ops
  induction ops with
  | nil => intro s h _ st hst; simp [states] at hst; subst hst; exact h
  | cons o r ih =>
    intro s h hf st hst
    simp only [states, List.mem_cons] at hst
    rcases hst with rfl | hst
    · exact h
    · cases o with
      | start n =>
        obtain ⟨hn, hf'⟩ := hf
        exact ih _ (step_nodup s _ h (fun m hm => by cases hm; exact hn)) hf' st hst
      | stop n => exact ih _ (step_nodup s _ h (fun m hm => by cases hm)) hf st hst
      | setCount n => exact ih _ (step_nodup s _ h (fun m hm => by cases hm)) hf st hst
      | err => exact ih _ (step_nodup s _ h (fun m hm => by cases hm)) hf st hst

end Rare.C05Status
