import Rare.Model.C15Batch
import Rare.Proofs.Batcher
/-!
Lemmas about the heap-explicit batching loop (`Rare.Model.C15Batch`):
* `WF` – the loop's heap discipline: the array under construction is not referenced by any header
  that was sent, and exactly its first `len` cells are written;
* `step_abs` – every iteration refines `Rare.Batcher.step` (same batches, read through the heap);
* `step_frozen` – an iteration leaves every batch that was sent before it unchanged.
-/
namespace Rare.C15.Batch

variable {α : Type}

theorem cells_modify (l : List (List α)) (i j : Nat) (f : List α → List α) :
    cells (l.modify i f) j = if i = j ∧ j < l.length then f (cells l j) else cells l j := by
  simp only [cells, List.getD_eq_getElem?_getD, List.getElem?_modify]
  by_cases hj : j < l.length
  · simp only [List.getElem?_eq_getElem hj, Option.map_eq_map, Option.map_some, Option.getD_some, hj, and_true]
  · simp [hj]

theorem cells_append_left (l m : List (List α)) (j : Nat) (h : j < l.length) :
    cells (l ++ m) j = cells l j := by
  simp [cells, List.getD_eq_getElem?_getD, List.getElem?_append_left h]

theorem cells_append_self (l : List (List α)) (a : List α) : cells (l ++ [a]) l.length = a := by
  simp [cells, List.getD_eq_getElem?_getD]

theorem writeAt_length (a : List α) (x : α) : writeAt a a.length x = a ++ [x] := by
  simp [writeAt]

/-- The heap discipline of the loop. -/
structure WF (s : St α) : Prop where
  curLt : s.cur.arr < s.heap.length
  curLen : (cells s.heap s.cur.arr).length = s.cur.len
  sent : ∀ b ∈ s.out, b.batch.arr < s.heap.length ∧ b.batch.arr ≠ s.cur.arr

theorem wf_init (n : Nat) : WF (St.init n : St α) :=
  ⟨by simp [St.init], by simp [St.init, cells], by simp [St.init]⟩

theorem read_full {s : St α} (h : WF s) : readSlice s.heap s.cur = cells s.heap s.cur.arr := by
  unfold readSlice; exact List.take_of_length_le (by rw [h.curLen]; exact Nat.le_refl _)

theorem read_len {s : St α} (h : WF s) : (readSlice s.heap s.cur).length = s.cur.len := by
  rw [read_full h, h.curLen]

/-- arrays other than the one under construction are not touched by `append` -/
theorem push_other (s : St α) (x : α) (j : Nat) (hj : j < s.heap.length) (hne : j ≠ s.cur.arr) :
    cells (s.push x).heap j = cells s.heap j := by
  unfold St.push
  split
  · simp only [cells_modify]
    rw [if_neg]; intro h; exact hne h.1.symm
  · exact cells_append_left _ _ _ hj

theorem push_spec {s : St α} (h : WF s) (x : α) :
    WF (s.push x) ∧ readSlice (s.push x).heap (s.push x).cur = readSlice s.heap s.cur ++ [x] ∧
    (s.push x).cur.len = s.cur.len + 1 ∧ (s.push x).out = s.out ∧ (s.push x).start = s.start ∧
    s.heap.length ≤ (s.push x).heap.length := by
  have hfull := read_full h
  have hlen := h.curLen
  unfold St.push
  split
  · have hc : cells (s.heap.modify s.cur.arr fun a => writeAt a s.cur.len x) s.cur.arr =
        cells s.heap s.cur.arr ++ [x] := by
      rw [cells_modify, if_pos ⟨rfl, h.curLt⟩, ← hlen, writeAt_length]
    refine ⟨⟨by simpa using h.curLt, ?_, ?_⟩, ?_, rfl, rfl, rfl, by simp⟩
    · show (cells (s.heap.modify s.cur.arr fun a => writeAt a s.cur.len x) s.cur.arr).length = s.cur.len + 1
      rw [hc]; simp [hlen]
    · intro b hb
      have := h.sent b hb
      simpa using this
    · show List.take (s.cur.len + 1) (cells (s.heap.modify s.cur.arr fun a => writeAt a s.cur.len x) s.cur.arr) = _
      rw [hc, hfull, List.take_of_length_le]
      simp [hlen]
  · refine ⟨⟨by simp, ?_, ?_⟩, ?_, rfl, rfl, rfl, by simp⟩
    · show (cells (s.heap ++ [readSlice s.heap s.cur ++ [x]]) s.heap.length).length = s.cur.len + 1
      rw [cells_append_self, hfull]; simp [hlen]
    · intro b hb
      have := h.sent b hb
      simp only [List.length_append, List.length_cons, List.length_nil]
      omega
    · show List.take (s.cur.len + 1) (cells (s.heap ++ [readSlice s.heap s.cur ++ [x]]) s.heap.length) = _
      rw [cells_append_self, List.take_of_length_le]
      rw [hfull]; simp [hlen]

theorem read_eq_of_cells {h1 h2 : List (List α)} {sl : Slice} (h : cells h2 sl.arr = cells h1 sl.arr) :
    readSlice h2 sl = readSlice h1 sl := by
  unfold readSlice; rw [h]

/-- `append` does not change what any sent batch reads as. -/
theorem push_frozen {s : St α} (h : WF s) (x : α) : ∀ b ∈ s.out, (s.push x).read b = s.read b := by
  intro b hb
  have := h.sent b hb
  simp only [St.read]
  rw [read_eq_of_cells (push_other s x b.batch.arr this.1 this.2)]

theorem flush_read {s : St α} (src : String) (n : Nat) (b : Sent) (hb : b.batch.arr < s.heap.length) :
    (s.flush src n).read b = s.read b := by
  simp only [St.read, St.flush]
  rw [read_eq_of_cells (cells_append_left _ _ _ hb)]

theorem flush_spec {s : St α} (h : WF s) (src : String) (n : Nat) :
    WF (s.flush src n) ∧ (s.flush src n).abs =
      { out := s.abs.out ++ [⟨readSlice s.heap s.cur, s.start⟩], cur := [], start := s.start + s.cur.len } ∧
    ∀ b ∈ s.out ++ [(⟨s.cur, src, s.start⟩ : Sent)], (s.flush src n).read b = s.read b := by
  have hall : ∀ b ∈ s.out ++ [(⟨s.cur, src, s.start⟩ : Sent)], (s.flush src n).read b = s.read b := by
    intro b hb
    simp only [List.mem_append, List.mem_singleton] at hb
    rcases hb with hb | rfl
    · exact flush_read src n b (h.sent b hb).1
    · exact flush_read src n _ h.curLt
  refine ⟨⟨by simp [St.flush], ?_, ?_⟩, ?_, hall⟩
  · show (cells (s.heap ++ [[]]) s.heap.length).length = 0
    rw [cells_append_self]; rfl
  · intro b hb
    simp only [St.flush, List.mem_append, List.mem_singleton] at hb
    simp only [St.flush, List.length_append, List.length_cons, List.length_nil]
    rcases hb with hb | rfl
    · have := (h.sent b hb).1; omega
    · have := h.curLt; simp only; omega
  · have h1 : (s.flush src n).out.map (s.flush src n).read =
        (s.out ++ [(⟨s.cur, src, s.start⟩ : Sent)]).map s.read :=
      List.map_congr_left hall
    have h2 : readSlice (s.heap ++ [[]]) ⟨s.heap.length, 0, n⟩ = ([] : List α) := by simp [readSlice]
    simp only [St.abs, h1]
    simp only [St.flush, h2, List.map_append, List.map_cons, List.map_nil, St.read]

/-- One iteration refines the value-level loop and keeps the heap discipline. -/
theorem step_abs {s : St α} (h : WF s) (src : String) (n : Nat) (x : α × Bool) :
    WF (step src n s x) ∧ (step src n s x).abs = Batcher.step n s.abs x := by
  obtain ⟨hw, hr, hl, ho, hs, _⟩ := push_spec h x.1
  have hout : (s.push x.1).out.map (s.push x.1).read = s.out.map s.read := by
    rw [ho]
    exact List.map_congr_left (push_frozen h x.1)
  have hlen : (readSlice s.heap s.cur ++ [x.1]).length = s.cur.len + 1 := by
    simp [read_len h]
  unfold step Batcher.step
  by_cases hc : ((s.push x.1).cur.len ≥ n || x.2) = true
  · have hc' : ((s.abs.cur ++ [x.1]).length ≥ n || x.2) = true := by
      simp only [St.abs, hlen]; rw [hl] at hc; exact hc
    simp only [hc, hc', if_true]
    obtain ⟨hw2, ha2, _⟩ := flush_spec hw src n
    refine ⟨hw2, ?_⟩
    rw [ha2]
    simp only [St.abs, hout, hr, hs, hl, hlen]
  · have hc' : ¬ ((s.abs.cur ++ [x.1]).length ≥ n || x.2) = true := by
      simp only [St.abs, hlen]; rw [hl] at hc; exact hc
    rw [if_neg hc, if_neg hc']
    refine ⟨hw, ?_⟩
    simp only [St.abs, hout, hr, hs]

/-- One iteration leaves every batch sent before it unchanged and only adds to the channel. -/
theorem step_frozen {s : St α} (h : WF s) (src : String) (n : Nat) (x : α × Bool) :
    (∀ b ∈ s.out, (step src n s x).read b = s.read b) ∧ s.out <+: (step src n s x).out ∧
    s.heap.length ≤ (step src n s x).heap.length := by
  obtain ⟨hw, _, _, ho, _, hh⟩ := push_spec h x.1
  unfold step
  dsimp only
  split
  · obtain ⟨_, _, hf⟩ := flush_spec hw src n
    refine ⟨?_, ?_, ?_⟩
    · intro b hb
      rw [hf b (by rw [ho]; simp [hb])]
      exact push_frozen h x.1 b hb
    · simp only [St.flush, ho]; exact List.prefix_append _ _
    · simp only [St.flush, List.length_append]; omega
  · exact ⟨push_frozen h x.1, by rw [ho]; exact List.prefix_refl _, hh⟩

theorem finish_heap (src : String) (s : St α) : (finish src s).heap = s.heap := by
  unfold finish; split <;> rfl

theorem finish_out (src : String) (s : St α) :
    (finish src s).out = s.out ∨ (finish src s).out = s.out ++ [(⟨s.cur, src, s.start⟩ : Sent)] := by
  unfold finish; split
  · exact Or.inr rfl
  · exact Or.inl rfl

theorem finish_prefix (src : String) (s : St α) : s.out <+: (finish src s).out := by
  rcases finish_out src s with h | h <;> rw [h]
  · exact List.prefix_refl _
  · exact List.prefix_append _ _

theorem step_src {s : St α} (src : String) (n : Nat) (x : α × Bool) (h : ∀ b ∈ s.out, b.source = src) :
    ∀ b ∈ (step src n s x).out, b.source = src := by
  have hp : (s.push x.1).out = s.out := by unfold St.push; split <;> rfl
  unfold step
  dsimp only
  split
  · intro b hb
    simp only [St.flush, hp, List.mem_append, List.mem_singleton] at hb
    rcases hb with hb | rfl
    · exact h b hb
    · rfl
  · rw [hp]; exact h

theorem finish_src {s : St α} (src : String) (h : ∀ b ∈ s.out, b.source = src) :
    ∀ b ∈ (finish src s).out, b.source = src := by
  intro b hb
  rcases finish_out src s with h1 | h1 <;> rw [h1] at hb
  · exact h b hb
  · simp only [List.mem_append, List.mem_singleton] at hb
    rcases hb with hb | rfl
    · exact h b hb
    · rfl

theorem fold_abs (src : String) (n : Nat) (ls : List (α × Bool)) : ∀ {s : St α}, WF s →
    WF (ls.foldl (step src n) s) ∧ (ls.foldl (step src n) s).abs = ls.foldl (Batcher.step n) s.abs := by
  induction ls with
  | nil => intro s h; exact ⟨h, rfl⟩
  | cons x xs ih =>
    intro s h
    obtain ⟨hw, ha⟩ := step_abs h src n x
    have := ih hw
    simp only [List.foldl_cons]
    rw [← ha]; exact this

theorem finish_abs {s : St α} (h : WF s) (src : String) :
    (finish src s).out.map (finish src s).read = Batcher.finish s.abs := by
  have hl := read_len h
  unfold finish Batcher.finish
  by_cases hc : s.cur.len > 0
  · have hc' : s.abs.cur.length > 0 := by simp only [St.abs, hl]; exact hc
    rw [if_pos hc, if_pos hc']
    simp [St.send, St.abs, St.read]
  · have hc' : ¬ s.abs.cur.length > 0 := by simp only [St.abs, hl]; exact hc
    rw [if_neg hc, if_neg hc']
    simp [St.abs]

/-- The heap-explicit loop sends exactly the batches of `Rare.Batcher.run`. -/
theorem run_refines (src : String) (n : Nat) (ls : List (α × Bool)) :
    (run src n ls).out.map (run src n ls).read = Batcher.run n ls := by
  obtain ⟨hw, ha⟩ := fold_abs src n ls (wf_init (α := α) n)
  unfold run Batcher.run
  rw [finish_abs hw, ha]
  rfl

end Rare.C15.Batch
