import Rare.Proofs.C19Fuel
import Rare.Spec.C19Grammar
/-!
`compile` succeeds exactly on the texts the token grammar of `Spec/C19Grammar.lean` accepts.

* `scan_operand`, `scan_climb`, `scan_compileTokens`: on a token list the grammar accepts,
  `getNextExpr` / the precedence-climbing loop / `compileTokens` never answer an error
  (provided the group compiler succeeds on the groups the grammar accepts).
* `flatten_scan`: the flattening of a well-precedenced tree is accepted.
* `compileF_accepts`, `accepts_compileF`: both directions for texts, by induction on the nesting budget.
-/
namespace Rare.C19

variable {α : Type} (A : Arith α)

/-- the literal check and operator check of the grammar, instantiated for the model -/
def okLitM (v : Bytes) : Bool := (classify A v).isSome
def isOpM (o : Bytes) : Bool := opKeys.contains o

theorem classifyE_of_okLit {v : Bytes} (h : okLitM A v = true) : ∃ a, classifyE A v = .ok a := by
  simp only [okLitM, classify] at h
  cases hc : classifyE A v with
  | error e => rw [hc] at h; cases h
  | ok a => exact ⟨a, rfl⟩

theorem grpLt_tail {N : Nat} {tk : Token} {rest : List Token} (h : GrpLt N (tk :: rest)) : GrpLt N rest :=
  fun x hx => h x (List.mem_cons_of_mem _ hx)

theorem grpLt_sub {N : Nat} {a b : List Token} (h : GrpLt N b) (hs : ∀ tk, tk ∈ a → tk ∈ b) : GrpLt N a :=
  fun x hx => h x (hs x hx)

section fwd
variable {cg : Bytes → Except Err (Parsed α)} {N : Nat} (okGrp : Bytes → Bool)
  (hg : ∀ g, g.length < N → okGrp g = true → ∃ r, cg g = .ok r)
include hg

/-- An operand the grammar accepts is compiled by `getNextExpr`, which leaves the rest. -/
theorem scan_operand :
    ∀ toks, GrpLt N toks → scan (okLitM A) okGrp isOpM true toks = true →
      ∃ r rest, getNextExpr A cg toks = .ok (r, rest) ∧
        scan (okLitM A) okGrp isOpM false rest = true := by
  intro toks
  induction toks with
  | nil => intro _ h; simp [scan] at h
  | cons tk tl ih =>
    intro hl h
    obtain ⟨val, ty⟩ := tk
    cases ty with
    | lit =>
      simp only [scan, Bool.and_eq_true] at h
      obtain ⟨a, ha⟩ := classifyE_of_okLit A h.1
      exact ⟨_, tl, (by simp only [getNextExpr, ha]; rfl), h.2⟩
    | group =>
      simp only [scan, Bool.and_eq_true] at h
      obtain ⟨r, hr⟩ := hg val (hl ⟨val, .group⟩ List.mem_cons_self rfl) h.1
      obtain ⟨t0, e0⟩ := r
      exact ⟨_, tl, (by simp only [getNextExpr, hr]; rfl), h.2⟩
    | op => simp [scan] at h
    | mod =>
      simp only [scan] at h
      obtain ⟨r, rest, hr, hs⟩ := ih (grpLt_tail hl) h
      obtain ⟨t0, e0⟩ := r
      exact ⟨_, rest, (by simp only [getNextExpr, hr]; rfl), hs⟩

/-- On what the grammar accepts after an operand, the loop of `compileTokens(last)` succeeds and
    leaves a list that the grammar accepts after an operand. -/
theorem scan_climb :
    ∀ (f : Nat) (last : Bytes) (ret : Parsed α) (toks : List Token), toks.length < f → GrpLt N toks →
      scan (okLitM A) okGrp isOpM false toks = true →
      ∃ r rest', climb A cg f last ret toks = .ok (r, rest') ∧
        scan (okLitM A) okGrp isOpM false rest' = true := by
  intro f
  induction f with
  | zero => intro last ret toks hl; omega
  | succ f ih =>
    intro last ret toks hl hgl hs
    cases toks with
    | nil => exact ⟨_, [], rfl, rfl⟩
    | cons tk rest =>
      -- the next operator
      have hop : ∃ op c, getNextOp tk = .ok (op, c) ∧
          scan (okLitM A) okGrp isOpM true (if c = true then rest else tk :: rest) = true := by
        obtain ⟨val, ty⟩ := tk
        cases ty with
        | lit => simp [scan] at hs
        | mod => simp [scan] at hs
        | op =>
          simp only [scan, Bool.and_eq_true] at hs
          have hk : opKeys.contains val = true := hs.1
          exact ⟨val, true, by simp only [getNextOp, hk, if_true], by simpa using hs.2⟩
        | group =>
          simp only [scan, Bool.and_eq_true] at hs
          refine ⟨starOp, false, rfl, ?_⟩
          simp only [Bool.false_eq_true, if_false, scan, hs.1, hs.2, Bool.and_self]
      obtain ⟨op, c, hop, hsc⟩ := hop
      have hlv := getNextOp_level hop
      cases hlvl : level orderOfOps op with
      | none => rw [hlvl] at hlv; cases hlv
      | some lb =>
        obtain ⟨ord, hord⟩ := order_total (a := last) hlvl
        have hord' : opCodeOrder last op = .ok ord := hord
        simp only [climb, hop, hord']
        by_cases h1 : ord = 1
        · simp only [h1, if_true]
          have hg0 : GrpLt N (if c = true then rest else tk :: rest) := by
            split
            · exact grpLt_tail hgl
            · exact hgl
          obtain ⟨r1, toks1, hne, hs1⟩ := scan_operand A okGrp hg _ hg0 hsc
          obtain ⟨t1, e1⟩ := r1
          simp only [hne]
          have l0 := getNextExpr_len A _ _ _ hne
          have s0 := getNextExpr_sub A _ _ _ hne
          have hg1 : GrpLt N toks1 := grpLt_sub hg0 s0
          have l0' : toks1.length < f := by
            simp only [List.length_cons] at hl
            split at l0 <;> (try simp only [List.length_cons] at l0) <;> omega
          obtain ⟨r2, toks2, hc1, hs2⟩ := ih op (t1, e1) toks1 l0' hg1 hs1
          obtain ⟨t2, e2⟩ := r2
          simp only [hc1]
          have l1 := climb_len A _ _ _ _ _ _ hc1
          have s1 := climb_sub A _ _ _ _ _ _ hc1
          exact ih last _ toks2 (by omega) (grpLt_sub hg1 s1) hs2
        · simp only [h1, if_false]
          exact ⟨_, _, rfl, hs⟩

/-- `compileTokens` succeeds on every token list the grammar accepts. -/
theorem scan_compileTokens (toks : List Token) (hgl : GrpLt N toks)
    (hs : scan (okLitM A) okGrp isOpM true toks = true) : ∃ r, compileTokens A cg toks = .ok r := by
  obtain ⟨r1, rest, hne, hs1⟩ := scan_operand A okGrp hg toks hgl hs
  obtain ⟨t1, e1⟩ := r1
  have s0 := getNextExpr_sub A _ _ _ hne
  obtain ⟨r2, rest2, hc, _⟩ := scan_climb A okGrp hg (rest.length + 1) [] (t1, e1) rest (Nat.lt_succ_self _)
    (grpLt_sub hgl s0) hs1
  exact ⟨r2, by simp only [compileTokens, hne, hc]⟩

end fwd

/-! ### the flattening of a well-precedenced tree is accepted -/

theorem isOpM_of_level {op : Bytes} {l : Nat} (h : level orderOfOps op = some l) : isOpM op = true :=
  level_some_mem h

theorem flatten_scan {N : Nat} (okGrp : Bytes → Bool)
    (hG : ∀ s0 e0, s0.length < N → tok s0 = some e0.flatten → WellPrec orderOfOps e0 → Deep tok e0 →
      Lits A e0 → okGrp s0 = true) :
    ∀ t : Tree, WellPrec orderOfOps t → Deep tok t → Lits A t → GrpLt N t.flatten →
      ∀ rest, scan (okLitM A) okGrp isOpM true (t.flatten ++ rest) =
        scan (okLitM A) okGrp isOpM false rest := by
  intro t
  induction t with
  | lit v =>
    intro _ _ hl _ rest
    have : okLitM A v = true := by simpa [Lits, Tree.allLits, okLitM] using hl
    simp [Tree.flatten, scan, this]
  | grp s e0 _ =>
    intro hwp hd hl hgl rest
    cases hwp with
    | grp _ _ hwp0 =>
      cases hd with
      | grp _ _ htok hd0 =>
        have hlen : s.length < N := hgl ⟨s, .group⟩ (by simp [Tree.flatten]) rfl
        have := hG s e0 hlen htok hwp0 hd0 hl
        simp [Tree.flatten, scan, this]
  | un m e0 ih =>
    intro hwp hd hl hgl rest
    cases hwp with
    | un _ _ hat hwp0 =>
      cases hd with
      | un _ _ hd0 =>
        have hg0 : GrpLt N e0.flatten := fun tk hm => hgl tk (by simp [Tree.flatten, hm])
        have := ih hwp0 hd0 hl hg0 rest
        simp only [Tree.flatten, List.cons_append, scan]
        exact this
  | bin i op l r ihl ihr =>
    intro hwp hd hl hgl rest
    cases hwp with
    | bin _ _ _ _ lv hwl hwr hlv _ _ himp =>
      cases hd with
      | bin _ _ _ _ hdl hdr =>
        have hll : Lits A l ∧ Lits A r := by
          simpa [Lits, Tree.allLits, Bool.and_eq_true] using hl
        have hgl' : GrpLt N l.flatten ∧ GrpLt N r.flatten := by
          constructor
          · exact fun tk hm => hgl tk (by simp [Tree.flatten, hm])
          · exact fun tk hm => hgl tk (by simp [Tree.flatten, hm])
        simp only [Tree.flatten, List.append_assoc]
        rw [ihl hwl hdl hll.1 hgl'.1]
        have hr := ihr hwr hdr hll.2 hgl'.2 rest
        cases i with
        | false =>
          simp only [Bool.false_eq_true, if_false, List.cons_append, List.nil_append, scan,
            isOpM_of_level hlv, Bool.true_and]
          exact hr
        | true =>
          obtain ⟨_, hswg⟩ := himp rfl
          obtain ⟨s, tl, hfl⟩ := swg_flatten r hswg
          simp only [if_true, List.nil_append]
          rw [hfl] at hr ⊢
          simp only [List.cons_append, scan] at hr ⊢
          exact hr

/-! ### texts -/

abbrev acceptsM (f : Nat) (s : Bytes) : Bool := acceptsF tok (okLitM A) isOpM f s

/-- what compiles is accepted -/
theorem compileF_accepts : ∀ (f : Nat) (s : Bytes) (r : Parsed α), s.length < f →
    compileF A f s = .ok r → acceptsM A f s = true := by
  intro f
  induction f with
  | zero => intro s r h; omega
  | succ f ih =>
    intro s r hlen h
    obtain ⟨t, e⟩ := r
    obtain ⟨htok, g⟩ := compileF_post A _ s t e h
    have hgl := tok_group_len htok
    have hG : ∀ s0 e0, s0.length < s.length → tok s0 = some e0.flatten → WellPrec orderOfOps e0 →
        Deep tok e0 → Lits A e0 → acceptsM A f s0 = true := by
      intro s0 e0 hl0 ht0 hw0 hd0 hll0
      obtain ⟨ex, hex⟩ := compileF_complete A f s0 e0 (by omega) ht0 hw0 hd0 hll0
      exact ih s0 _ (by omega) hex
    have := flatten_scan A (acceptsM A f) hG t g.wp g.deep g.lits hgl []
    simp only [List.append_nil] at this
    simp only [acceptsM, acceptsF, htok, this, scan]

/-- what is accepted compiles -/
theorem accepts_compileF : ∀ (f : Nat) (s : Bytes), s.length < f → acceptsM A f s = true →
    ∃ r, compileF A f s = .ok r := by
  intro f
  induction f with
  | zero => intro s h; omega
  | succ f ih =>
    intro s hlen h
    simp only [acceptsM, acceptsF] at h
    cases htk : tok s with
    | none => rw [htk] at h; cases h
    | some toks =>
      rw [htk] at h
      simp only at h
      have hgl := tok_group_len htk
      have hg : ∀ g, g.length < s.length → acceptsM A f g = true → ∃ r, compileF A f g = .ok r :=
        fun g hl0 ha => ih g (by omega) ha
      obtain ⟨r, hr⟩ := scan_compileTokens A (acceptsM A f) hg toks hgl h
      simp only [tok] at htk
      cases ht : tokenize s with
      | error err => rw [ht] at htk; cases htk
      | ok l =>
        rw [ht] at htk
        injection htk with htk
        subst htk
        exact ⟨r, by simp only [compileF, ht, hr]⟩

/-- **`compile` succeeds exactly on the texts of the grammar.** -/
theorem compile_iff_accepts (s : Bytes) :
    (∃ r, compile A s = .ok r) ↔ accepts tok (okLitM A) isOpM s = true := by
  constructor
  · rintro ⟨r, h⟩
    exact compileF_accepts A _ s r (Nat.lt_succ_self _) h
  · intro h
    exact accepts_compileF A _ s (Nat.lt_succ_self _) h

/-- The nesting budget of the grammar is irrelevant once it exceeds the length of the text. -/
theorem acceptsF_stable (f : Nat) (s : Bytes) (h : s.length < f) :
    acceptsM A f s = accepts tok (okLitM A) isOpM s := by
  have key : ∀ f1 f2, s.length < f1 → s.length < f2 → acceptsM A f1 s = true → acceptsM A f2 s = true := by
    intro f1 f2 h1 h2 ha
    obtain ⟨r, hr⟩ := accepts_compileF A f1 s h1 ha
    obtain ⟨t, e⟩ := r
    obtain ⟨htok, g⟩ := compileF_post A _ s t e hr
    obtain ⟨e2, he2⟩ := compileF_complete A f2 s t h2 htok g.wp g.deep g.lits
    exact compileF_accepts A f2 s _ h2 he2
  cases h1 : acceptsM A f s with
  | true => exact (key f _ h (Nat.lt_succ_self _) h1).symm
  | false =>
    cases h2 : accepts tok (okLitM A) isOpM s with
    | false => rfl
    | true =>
      have := key _ f (Nat.lt_succ_self _) h h2
      rw [h1] at this; cases this

end Rare.C19
