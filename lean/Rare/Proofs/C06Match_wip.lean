import Rare.Model.C06Glob
import Rare.Spec.C06Glob
namespace Rare.C06.Glob
open Rare.C20 (decode1 isCont accLo accHi runeError)
open Rare.C06.Spec

/-! ### `decode1` -/

theorem decode1_width_pos (s : Bytes) : 1 ≤ (decode1 s).2 := by
  unfold decode1
  split
  · simp
  · simp only [apply_ite Prod.snd]
    repeat' split
    all_goals simp

theorem decode1_width_le_length (s : Bytes) (h : s ≠ []) : (decode1 s).2 ≤ s.length := by
  unfold decode1
  split
  · simp at h
  · simp only [apply_ite Prod.snd]
    repeat' split
    all_goals simp

theorem decode1_ascii (c : UInt8) (s : Bytes) (h : c.toNat < 128) : decode1 (c :: s) = (c.toNat, 1) := by
  simp [decode1, h]

/-- A well-formed sequence is read the same way whatever follows it. -/
theorem decode1_local (s tail : Bytes) (hv : ValidRune s) :
    decode1 (s.take (decode1 s).2 ++ tail) = decode1 s := by
  unfold ValidRune at hv
  match s with
  | [] => simp [decode1, runeError] at hv
  | b0 :: tl =>
    by_cases h0 : b0.toNat < 128
    · simp [decode1, h0]
    · match tl with
      | [] => simp [decode1, h0, runeError] at hv
      | b1 :: tl1 =>
        by_cases h1 : 0xC2 ≤ b0.toNat ∧ b0.toNat ≤ 0xDF ∧ isCont b1.toNat
        · simp [decode1, h0, h1]
        · match tl1 with
          | [] => simp [decode1, h0, h1, runeError] at hv
          | b2 :: tl2 =>
            by_cases h2 : 0xE0 ≤ b0.toNat ∧ b0.toNat ≤ 0xEF ∧ accLo b0.toNat ≤ b1.toNat ∧ b1.toNat ≤ accHi b0.toNat ∧ isCont b2.toNat
            · simp [decode1, h0, h1, h2]
            · match tl2 with
              | [] => simp [decode1, h0, h1, h2, runeError] at hv
              | b3 :: tl3 =>
                by_cases h3 : 0xF0 ≤ b0.toNat ∧ b0.toNat ≤ 0xF4 ∧ accLo b0.toNat ≤ b1.toNat ∧ b1.toNat ≤ accHi b0.toNat ∧ isCont b2.toNat ∧ isCont b3.toNat
                · have h2' : ¬ (224 ≤ b0.toNat ∧ b0.toNat ≤ 239) := by omega
                  simp [decode1, h0, h1, h2', h3]
                · simp [decode1, h0, h1, h2, h3, runeError] at hv

/-- The bytes of a sequence wider than one byte are all ≥ 0x80. -/
theorem decode1_wide_bytes (s : Bytes) (h : 2 ≤ (decode1 s).2) :
    ∀ b ∈ s.take (decode1 s).2, 128 ≤ b.toNat := by
  match s with
  | [] => simp [decode1] at h
  | b0 :: tl =>
    by_cases h0 : b0.toNat < 128
    · simp [decode1, h0] at h
    · match tl with
      | [] => simp [decode1, h0] at h
      | b1 :: tl1 =>
        by_cases h1 : 0xC2 ≤ b0.toNat ∧ b0.toNat ≤ 0xDF ∧ isCont b1.toNat
        · simp [decode1, h0, h1]
          simp [isCont] at h1; omega
        · match tl1 with
          | [] => simp [decode1, h0, h1] at h
          | b2 :: tl2 =>
            by_cases h2 : 0xE0 ≤ b0.toNat ∧ b0.toNat ≤ 0xEF ∧ accLo b0.toNat ≤ b1.toNat ∧ b1.toNat ≤ accHi b0.toNat ∧ isCont b2.toNat
            · simp [decode1, h0, h1, h2]
              simp [isCont, accLo] at h2
              refine ⟨by omega, ?_, by omega⟩
              have := h2.2.2.1
              split at this <;> try split at this
              all_goals omega
            · match tl2 with
              | [] => simp [decode1, h0, h1, h2] at h
              | b3 :: tl3 =>
                by_cases h3 : 0xF0 ≤ b0.toNat ∧ b0.toNat ≤ 0xF4 ∧ accLo b0.toNat ≤ b1.toNat ∧ b1.toNat ≤ accHi b0.toNat ∧ isCont b2.toNat ∧ isCont b3.toNat
                · have h2' : ¬ (224 ≤ b0.toNat ∧ b0.toNat ≤ 239) := by omega
                  simp [decode1, h0, h1, h2', h3]
                  simp [isCont, accLo] at h3
                  refine ⟨by omega, ?_, by omega, by omega⟩
                  have := h3.2.2.1
                  split at this <;> try split at this
                  all_goals omega
                · simp [decode1, h0, h1, h2, h3] at h

/-! ### `matchChunk` = parse the chunk, then run the items -/

/-- Deterministic matcher for a star-free item list: the rest of `s` after the items, if they fit. -/
def matchItems : List Item → Bytes → Option Bytes
  | [], s => some s
  | .lit b :: its, s =>
    match s with
    | [] => none
    | c :: rest => if c = b then matchItems its rest else none
  | .any :: its, s =>
    if s = [] ∨ s.head? = some 47 then none else matchItems its (s.drop (decode1 s).2)
  | .cls neg rs :: its, s =>
    if s = [] ∨ inRanges (decode1 s).1 rs = neg then none else matchItems its (s.drop (decode1 s).2)
  | .star :: _, _ => none

/-- the parsing side of `classLoop` -/
def classRanges : Nat → Bytes → Nat → Option (List (Nat × Nat) × Bytes)
  | 0, _, _ => none
  | f + 1, chunk, nrange =>
    if chunk.head? = some 93 ∧ nrange > 0 then some ([], chunk.tail)
    else match getEsc chunk with
      | none => none
      | some (lo, chunk1) =>
        match (if chunk1.head? = some 45 then getEsc chunk1.tail else some (lo, chunk1)) with
        | none => none
        | some (hi, chunk2) => (classRanges f chunk2 (nrange + 1)).map fun p => ((lo, hi) :: p.1, p.2)

theorem classLoop_eq (f : Nat) : ∀ (chunk : Bytes) (r : Nat) (m : Bool) (n : Nat),
    classLoop f chunk r m n = (classRanges f chunk n).map fun p => (m || inRanges r p.1, p.2) := by
  induction f with
  | zero => intro chunk r m n; rfl
  | succ f ih =>
    intro chunk r m n
    unfold classLoop classRanges
    by_cases h0 : chunk.head? = some 93 ∧ n > 0
    · simp [h0, inRanges]
    · simp only [h0, if_false]
      cases h1 : getEsc chunk with
      | none => rfl
      | some p1 =>
        obtain ⟨lo, chunk1⟩ := p1
        simp only []
        cases h2 : (if chunk1.head? = some 45 then getEsc chunk1.tail else some (lo, chunk1)) with
        | none => rfl
        | some p2 =>
          obtain ⟨hi, chunk2⟩ := p2
          simp only [ih, Option.map_map]
          congr 1
          funext p
          simp [inRanges, Bool.or_assoc]

/-- the parsing side of `mcLoop` -/
def chunkItems : Nat → Bytes → Option (List Item)
  | _, [] => some []
  | 0, _ :: _ => none
  | f + 1, c :: ctl =>
    if c = 91 then
      let negated := ctl.head? = some 94
      let chunk1 := if negated then ctl.tail else ctl
      match classRanges (f + 1) chunk1 0 with
      | none => none
      | some (rs, chunk2) => (chunkItems f chunk2).map (Item.cls negated rs :: ·)
    else if c = 63 then (chunkItems f ctl).map (Item.any :: ·)
    else if c = 92 then
      match ctl with
      | [] => none
      | c1 :: ctl1 => (chunkItems f ctl1).map (Item.lit c1 :: ·)
    else (chunkItems f ctl).map (Item.lit c :: ·)

theorem chunkItems_ne_nil (f : Nat) (c : UInt8) (ctl : Bytes) : chunkItems f (c :: ctl) ≠ some [] := by
  cases f with
  | zero => simp [chunkItems]
  | succ f =>
    simp only [chunkItems]
    split
    · split
      · simp
      · cases chunkItems f _ <;> simp
    · split
      · cases chunkItems f ctl <;> simp
      · split
        · split
          · simp
          · cases chunkItems f _ <;> simp
        · cases chunkItems f ctl <;> simp

theorem mcLoop_failed (f : Nat) : ∀ (chunk s : Bytes),
    mcLoop f chunk s true = match chunkItems f chunk with | none => .bad | some _ => .ok none := by
  induction f with
  | zero => intro chunk s; cases chunk <;> simp [mcLoop, chunkItems]
  | succ f ih =>
    intro chunk s
    cases chunk with
    | nil => simp [mcLoop, chunkItems]
    | cons c ctl =>
      unfold mcLoop chunkItems
      simp only [Bool.true_or, if_true]
      split
      · rw [classLoop_eq]
        cases classRanges (f + 1) (if ctl.head? = some 94 then ctl.tail else ctl) 0 with
        | none => rfl
        | some p =>
          simp only [Option.map_some, ih]
          cases chunkItems f p.2 <;> rfl
      · split
        · rw [ih]; cases chunkItems f ctl <;> rfl
        · split
          · cases ctl with
            | nil => rfl
            | cons c1 ctl1 => simp only [ih]; cases chunkItems f ctl1 <;> rfl
          · rw [ih]; cases chunkItems f ctl <;> rfl

theorem mcLoop_eq (f : Nat) : ∀ (chunk s : Bytes),
    mcLoop f chunk s false = match chunkItems f chunk with
      | none => .bad
      | some its => .ok (matchItems its s) := by
  induction f with
  | zero => intro chunk s; cases chunk <;> simp [mcLoop, chunkItems, matchItems]
  | succ f ih =>
    intro chunk s
    cases chunk with
    | nil => simp [mcLoop, chunkItems, matchItems]
    | cons c ctl =>
      cases s with
      | nil =>
        -- the name is used up: `failed` is set, the chunk is only parsed
        have := mcLoop_failed (f + 1) (c :: ctl) []
        unfold mcLoop at this ⊢
        simp only [Bool.false_or, List.isEmpty_nil, Bool.true_or] at this ⊢
        rw [this]
        cases h : chunkItems (f + 1) (c :: ctl) with
        | none => rfl
        | some its =>
          cases its with
          | nil => exact absurd h (chunkItems_ne_nil _ _ _)
          | cons it its => cases it <;> simp [matchItems]
      | cons a s =>
        unfold mcLoop chunkItems
        simp only [Bool.false_or, List.isEmpty_cons, Bool.false_eq_true, if_false]
        split
        · rw [classLoop_eq]
          cases classRanges (f + 1) (if ctl.head? = some 94 then ctl.tail else ctl) 0 with
          | none => rfl
          | some p =>
            simp only [Option.map_some, Bool.false_or]
            by_cases hm : inRanges (decode1 (a :: s)).1 p.1 = decide (ctl.head? = some 94)
            · have : (inRanges (decode1 (a :: s)).1 p.1 == decide (ctl.head? = some 94)) = true := by simp [hm]
              rw [this, mcLoop_failed]
              cases chunkItems f p.2 with
              | none => rfl
              | some its => simp [matchItems, hm]
            · have : (inRanges (decode1 (a :: s)).1 p.1 == decide (ctl.head? = some 94)) = false := by simp [hm]
              rw [this, ih]
              cases chunkItems f p.2 with
              | none => rfl
              | some its => simp [matchItems, hm]
        · split
          · by_cases ha : a = 47
            · subst ha
              simp only [List.head?_cons, beq_self_eq_true, mcLoop_failed]
              cases chunkItems f ctl with
              | none => rfl
              | some its => simp [matchItems]
            · have : (((a :: s).head? == some 47)) = false := by simp [ha]
              rw [this, ih]
              cases chunkItems f ctl with
              | none => rfl
              | some its => simp [matchItems, ha]
          · split
            · cases ctl with
              | nil => rfl
              | cons c1 ctl1 =>
                simp only [List.head?_cons, List.tail_cons]
                by_cases hc : a = c1
                · subst hc
                  simp only [bne_self_eq_false, ih]
                  cases chunkItems f ctl1 with
                  | none => rfl
                  | some its => simp [matchItems]
                · have : (some a != some c1) = true := by simp [hc]
                  rw [this, mcLoop_failed]
                  cases chunkItems f ctl1 with
                  | none => rfl
                  | some its => simp [matchItems, hc]
            · simp only [List.head?_cons, List.tail_cons]
              by_cases hc : a = c
              · subst hc
                simp only [bne_self_eq_false, ih]
                cases chunkItems f ctl with
                | none => rfl
                | some its => simp [matchItems]
              · have : (some a != some c) = true := by simp [hc]
                rw [this, mcLoop_failed]
                cases chunkItems f ctl with
                | none => rfl
                | some its => simp [matchItems, hc]

theorem matchChunk_eq (chunk s : Bytes) :
    matchChunk chunk s = match chunkItems (chunk.length + 1) chunk with
      | none => .bad
      | some its => .ok (matchItems its s) := mcLoop_eq _ _ _

/-! ### `getEsc` / `classRanges` against the grammar -/

theorem _root_.Rare.C06.Spec.ClassChar.length_lt {s rest : Bytes} {r : Nat} (h : ClassChar s r rest) : rest.length < s.length := by
  cases h with
  | plain c s _ _ _ _ =>
    have := decode1_width_pos (c :: s)
    simp only [List.length_drop, List.length_cons]; omega
  | esc c s _ =>
    have := decode1_width_pos (c :: s)
    simp only [List.length_drop, List.length_cons]; omega

theorem _root_.Rare.C06.Spec.ClassChar.head_ne {s rest : Bytes} {r : Nat} (h : ClassChar s r rest) : s.head? ≠ some 93 := by
  cases h with
  | plain c s _ _ h3 _ => simpa using h3
  | esc c s _ => simp

theorem getEsc_iff (s : Bytes) (r : Nat) (rest : Bytes) :
    getEsc s = some (r, rest) ↔ ClassChar s r rest ∧ rest ≠ [] := by
  constructor
  · intro h
    unfold getEsc at h
    match s with
    | [] => simp at h
    | c :: tl =>
      simp only at h
      by_cases hc : c = 45 ∨ c = 93
      · simp [hc] at h
      · simp only [hc, if_false] at h
        have hc45 : c ≠ 45 := fun e => hc (Or.inl e)
        have hc93 : c ≠ 93 := fun e => hc (Or.inr e)
        by_cases hb : c = 92
        · subst hb
          simp only [if_true] at h
          match tl with
          | [] => simp at h
          | c1 :: tl1 =>
            simp only [reduceCtorEq, if_false] at h
            by_cases hv : (decode1 (c1 :: tl1)).1 = 0xFFFD ∧ (decode1 (c1 :: tl1)).2 = 1
            · simp [hv] at h
            · simp only [hv, if_false] at h
              by_cases hn : List.drop (decode1 (c1 :: tl1)).2 (c1 :: tl1) = []
              · simp [hn] at h
              · simp only [hn, if_false, Option.some.injEq, Prod.mk.injEq] at h
                obtain ⟨rfl, rfl⟩ := h
                exact ⟨ClassChar.esc c1 tl1 hv, hn⟩
        · simp only [hb, if_false, reduceCtorEq] at h
          by_cases hv : (decode1 (c :: tl)).1 = 0xFFFD ∧ (decode1 (c :: tl)).2 = 1
          · simp [hv] at h
          · simp only [hv, if_false] at h
            by_cases hn : List.drop (decode1 (c :: tl)).2 (c :: tl) = []
            · simp [hn] at h
            · simp only [hn, if_false, Option.some.injEq, Prod.mk.injEq] at h
              obtain ⟨rfl, rfl⟩ := h
              exact ⟨ClassChar.plain c tl hb hc45 hc93 hv, hn⟩
  · intro ⟨h, hn⟩
    cases h with
    | plain c s h1 h2 h3 hv =>
      unfold ValidRune at hv
      simp [getEsc, h1, h2, h3, hv, hn]
    | esc c s hv =>
      unfold ValidRune at hv
      simp [getEsc, hv, hn]

theorem _root_.Rare.C06.Spec.ClassBody.ne_nil {s rest : Bytes} {rs : List (Nat × Nat)} (h : ClassBody s rs rest) : s ≠ [] := by
  cases h with
  | close => simp
  | single hc _ _ => intro e; subst e; cases hc
  | range hc _ _ => intro e; subst e; cases hc

theorem _root_.Rare.C06.Spec.ClassBody.length_lt {s rest : Bytes} {rs : List (Nat × Nat)} (h : ClassBody s rs rest) :
    rest.length < s.length := by
  induction h with
  | close => simp
  | single hc _ _ ih => have := hc.length_lt; omega
  | range hc hc2 _ ih =>
    have := hc.length_lt; have := hc2.length_lt
    simp only [List.length_cons] at *; omega

theorem classRanges_sound (f : Nat) : ∀ (s : Bytes) (n : Nat) (rs : List (Nat × Nat)) (rest : Bytes),
    classRanges f s n = some (rs, rest) → ClassBody s rs rest ∧ (n = 0 → rs ≠ []) := by
  induction f with
  | zero => intro s n rs rest h; simp [classRanges] at h
  | succ f ih =>
    intro s n rs rest h
    unfold classRanges at h
    by_cases h0 : s.head? = some 93 ∧ n > 0
    · simp only [h0, and_self, if_true, Option.some.injEq, Prod.mk.injEq] at h
      obtain ⟨rfl, rfl⟩ := h
      match s, h0 with
      | c :: tl, h0 =>
        simp only [List.head?_cons, Option.some.injEq] at h0
        rw [h0.1]
        exact ⟨ClassBody.close _, by omega⟩
    · simp only [h0, if_false] at h
      cases h1 : getEsc s with
      | none => simp [h1] at h
      | some p1 =>
        obtain ⟨lo, s1⟩ := p1
        simp only [h1] at h
        have hc1 := (getEsc_iff s lo s1).1 h1
        by_cases h45 : s1.head? = some 45
        · simp only [h45, if_true] at h
          cases h2 : getEsc s1.tail with
          | none => simp [h2] at h
          | some p2 =>
            obtain ⟨hi, s2⟩ := p2
            simp only [h2] at h
            cases h3 : classRanges f s2 (n + 1) with
            | none => simp [h3] at h
            | some p3 =>
              simp only [h3, Option.map_some, Option.some.injEq, Prod.mk.injEq] at h
              obtain ⟨rfl, rfl⟩ := h
              have hc2 := (getEsc_iff _ hi s2).1 h2
              have hb := (ih s2 (n + 1) p3.1 p3.2 (by rw [h3])).1
              match s1, h45, hc1, hc2 with
              | c :: tl, h45, hc1, hc2 =>
                simp only [List.head?_cons, Option.some.injEq] at h45
                subst h45
                exact ⟨ClassBody.range hc1.1 hc2.1 hb, by simp⟩
        · simp only [h45, if_false] at h
          cases h3 : classRanges f s1 (n + 1) with
          | none => simp [h3] at h
          | some p3 =>
            simp only [h3, Option.map_some, Option.some.injEq, Prod.mk.injEq] at h
            obtain ⟨rfl, rfl⟩ := h
            have hb := (ih s1 (n + 1) p3.1 p3.2 (by rw [h3])).1
            exact ⟨ClassBody.single hc1.1 h45 hb, by simp⟩

theorem classRanges_complete {s rest : Bytes} {rs : List (Nat × Nat)} (h : ClassBody s rs rest) :
    ∀ (f n : Nat), s.length ≤ f → (n = 0 → rs ≠ []) → classRanges f s n = some (rs, rest) := by
  induction h with
  | close rest =>
    intro f n hf hn
    cases f with
    | zero => simp at hf
    | succ f =>
      have : n > 0 := by
        cases n with
        | zero => exact absurd rfl (hn rfl)
        | succ n => omega
      simp [classRanges, this]
  | @single s s1 rest lo rs hc h45 hb ih =>
    intro f n hf _
    cases f with
    | zero => have := hb.ne_nil; have := hc.length_lt; cases s <;> simp_all
    | succ f =>
      unfold classRanges
      have h0 : ¬ (s.head? = some 93 ∧ n > 0) := fun h => hc.head_ne h.1
      have h1 : getEsc s = some (lo, s1) := (getEsc_iff s lo s1).2 ⟨hc, hb.ne_nil⟩
      have := hc.length_lt
      simp only [h0, if_false, h1, h45, ih f (n + 1) (by omega) (by omega), Option.map_some]
  | @range s s1 s2 rest lo hi rs hc hc2 hb ih =>
    intro f n hf _
    cases f with
    | zero => have := hc.length_lt; cases s <;> simp_all
    | succ f =>
      unfold classRanges
      have h0 : ¬ (s.head? = some 93 ∧ n > 0) := fun h => hc.head_ne h.1
      have h1 : getEsc s = some (lo, 45 :: s1) := (getEsc_iff s lo _).2 ⟨hc, by simp⟩
      have h2 : getEsc s1 = some (hi, s2) := (getEsc_iff s1 hi s2).2 ⟨hc2, hb.ne_nil⟩
      have := hc.length_lt
      have := hc2.length_lt
      simp only [List.length_cons] at *
      simp only [h0, if_false, h1, List.head?_cons, if_true, List.tail_cons, h2,
        ih f (n + 1) (by omega) (by omega), Option.map_some]

/-! ### `scanChunk` follows the grammar -/

theorem scanLen_cons_ord (inr : Bool) (c : UInt8) (cs : Bytes) (h92 : c ≠ 92) (h91 : c ≠ 91) (h93 : c ≠ 93)
    (h42 : c ≠ 42 ∨ inr = true) : scanLen inr (c :: cs) = 1 + scanLen inr cs := by
  cases cs <;> rcases h42 with h | h <;> simp [scanLen, h92, h91, h93, h]
theorem scanLen_cons_open (inr : Bool) (cs : Bytes) : scanLen inr (91 :: cs) = 1 + scanLen true cs := by
  cases cs <;> simp [scanLen]
theorem scanLen_cons_close (inr : Bool) (cs : Bytes) : scanLen inr (93 :: cs) = 1 + scanLen false cs := by
  cases cs <;> simp [scanLen]
theorem scanLen_cons_esc (inr : Bool) (c : UInt8) (cs : Bytes) : scanLen inr (92 :: c :: cs) = 2 + scanLen inr cs := by
  simp [scanLen]
theorem scanLen_cons_star (cs : Bytes) : scanLen false (42 :: cs) = 0 := by
  cases cs <;> simp [scanLen]

theorem scanLen_high (inr : Bool) : ∀ (pre tail : Bytes), (∀ b ∈ pre, 128 ≤ b.toNat) →
    scanLen inr (pre ++ tail) = pre.length + scanLen inr tail := by
  intro pre
  induction pre with
  | nil => intro tail _; simp
  | cons b pre ih =>
    intro tail h
    have hb : 128 ≤ b.toNat := h b (by simp)
    have h92 : b ≠ 92 := by intro e; subst e; simp at hb
    have h91 : b ≠ 91 := by intro e; subst e; simp at hb
    have h93 : b ≠ 93 := by intro e; subst e; simp at hb
    have h42 : b ≠ 42 := by intro e; subst e; simp at hb
    rw [List.cons_append, scanLen_cons_ord inr b _ h92 h91 h93 (Or.inl h42),
      ih tail (fun b hb => h b (by simp [hb])), List.length_cons]
    omega

/-- one UTF-8 character (not `\`, `]`) inside a class: the scan loop steps over it -/
theorem scanLen_rune (c : UInt8) (s tail : Bytes) (h92 : c ≠ 92) (h93 : c ≠ 93) :
    scanLen true ((c :: s).take (decode1 (c :: s)).2 ++ tail) = (decode1 (c :: s)).2 + scanLen true tail := by
  have hpos := decode1_width_pos (c :: s)
  have hlen := decode1_width_le_length (c :: s) (by simp)
  by_cases h1 : (decode1 (c :: s)).2 = 1
  · rw [h1]
    simp only [List.take_succ_cons, List.take_zero, List.cons_append, List.nil_append]
    by_cases h91 : c = 91
    · subst h91; rw [scanLen_cons_open]
    · rw [scanLen_cons_ord true c _ h92 h91 h93 (Or.inr rfl)]
  · have hw := decode1_wide_bytes (c :: s) (by omega)
    rw [scanLen_high true _ tail hw]
    simp only [List.length_take, List.length_cons] at *
    omega

theorem _root_.Rare.C06.Spec.ClassChar.scan {s rest : Bytes} {r : Nat} (h : ClassChar s r rest) :
    ∃ pre, s = pre ++ rest ∧ pre ≠ [] ∧ pre.head? = s.head? ∧ (∀ tail, ClassChar (pre ++ tail) r tail) ∧
      ∀ tail, scanLen true (pre ++ tail) = pre.length + scanLen true tail := by
  cases h with
  | plain c s h1 h2 h3 hv =>
    have hpos := decode1_width_pos (c :: s)
    have hlen := decode1_width_le_length (c :: s) (by simp)
    refine ⟨(c :: s).take (decode1 (c :: s)).2, (List.take_append_drop _ _).symm, ?_, ?_, ?_, ?_⟩
    · intro e
      have := congrArg List.length e
      simp only [List.length_take, List.length_cons, List.length_nil] at this hlen
      omega
    · cases hd : (decode1 (c :: s)).2 with
      | zero => omega
      | succ k => simp
    · intro tail
      have hloc := decode1_local (c :: s) tail hv
      obtain ⟨k, hk⟩ : ∃ k, (decode1 (c :: s)).2 = k + 1 := ⟨(decode1 (c :: s)).2 - 1, by omega⟩
      have hshape : (c :: s).take (decode1 (c :: s)).2 ++ tail = c :: (s.take k ++ tail) := by
        rw [hk]; simp
      have hv' : ValidRune (c :: (s.take k ++ tail)) := by
        unfold ValidRune; rw [← hshape, hloc]; exact hv
      have := ClassChar.plain c (s.take k ++ tail) h1 h2 h3 hv'
      rw [← hshape, hloc] at this
      rw [show (decode1 (c :: s)).1 = (decode1 (c :: s)).1 from rfl] at this
      have hdrop : List.drop (decode1 (c :: s)).2 ((c :: s).take (decode1 (c :: s)).2 ++ tail) = tail := by
        rw [List.drop_append_of_le_length (by simp only [List.length_take, List.length_cons] at *; omega)]
        simp only [List.drop_take_self, List.nil_append]
      rw [hdrop] at this
      exact this
    · intro tail
      rw [scanLen_rune c s tail h1 h3]
      simp only [List.length_take, List.length_cons] at *
      omega
  | esc c s hv =>
    have hpos := decode1_width_pos (c :: s)
    have hlen := decode1_width_le_length (c :: s) (by simp)
    refine ⟨92 :: (c :: s).take (decode1 (c :: s)).2, ?_, by simp, by simp, ?_, ?_⟩
    · simp only [List.cons_append, List.take_append_drop]
    · intro tail
      have hloc := decode1_local (c :: s) tail hv
      obtain ⟨k, hk⟩ : ∃ k, (decode1 (c :: s)).2 = k + 1 := ⟨(decode1 (c :: s)).2 - 1, by omega⟩
      have hshape : (c :: s).take (decode1 (c :: s)).2 ++ tail = c :: (s.take k ++ tail) := by
        rw [hk]; simp
      have hv' : ValidRune (c :: (s.take k ++ tail)) := by
        unfold ValidRune; rw [← hshape, hloc]; exact hv
      have := ClassChar.esc c (s.take k ++ tail) hv'
      rw [← hshape, hloc] at this
      have hdrop : List.drop (decode1 (c :: s)).2 ((c :: s).take (decode1 (c :: s)).2 ++ tail) = tail := by
        rw [List.drop_append_of_le_length (by simp only [List.length_take, List.length_cons] at *; omega)]
        simp only [List.drop_take_self, List.nil_append]
      rw [hdrop] at this
      exact this
    · intro tail
      obtain ⟨k, hk⟩ : ∃ k, (decode1 (c :: s)).2 = k + 1 := ⟨(decode1 (c :: s)).2 - 1, by omega⟩
      have hshape : (c :: s).take (decode1 (c :: s)).2 = c :: s.take k := by rw [hk]; simp
      rw [hshape]
      simp only [List.cons_append, scanLen_cons_esc, List.length_cons]
      by_cases hk0 : k = 0
      · subst hk0; simp
      · have hw := decode1_wide_bytes (c :: s) (by omega)
        rw [hshape] at hw
        rw [scanLen_high true _ tail (fun b hb => hw b (by simp [hb]))]
        omega

theorem head?_append_ne {α : Type} {l : List α} (h : l ≠ []) (l2 : List α) : (l ++ l2).head? = l.head? := by
  cases l with
  | nil => exact absurd rfl h
  | cons a l => rfl

theorem _root_.Rare.C06.Spec.ClassBody.scan {s rest : Bytes} {rs : List (Nat × Nat)} (h : ClassBody s rs rest) :
    ∃ body, s = body ++ rest ∧ body ≠ [] ∧ body.head? = s.head? ∧ (∀ tail, ClassBody (body ++ tail) rs tail) ∧
      ∀ tail, scanLen true (body ++ tail) = body.length + scanLen false tail := by
  induction h with
  | close rest =>
    refine ⟨[93], rfl, by simp, rfl, fun tail => ClassBody.close tail, fun tail => ?_⟩
    simp [scanLen_cons_close]
  | @single s s1 rest lo rs hc h45 hb ih =>
    obtain ⟨pre, hs, hpne, hph, hpl, hps⟩ := hc.scan
    obtain ⟨body, hs1, hbne, hbh, hbl, hbs⟩ := ih
    refine ⟨pre ++ body, by rw [hs, hs1, List.append_assoc], by simp [hpne], ?_, ?_, ?_⟩
    · rw [head?_append_ne hpne]; exact hph
    · intro tail
      rw [List.append_assoc]
      refine ClassBody.single (hpl _) ?_ (hbl tail)
      rw [head?_append_ne hbne, hbh]; exact h45
    · intro tail
      rw [List.append_assoc, hps, hbs, List.length_append]; omega
  | @range s s1 s2 rest lo hi rs hc hc2 hb ih =>
    obtain ⟨pre, hs, hpne, hph, hpl, hps⟩ := hc.scan
    obtain ⟨pre2, hs2, hpne2, hph2, hpl2, hps2⟩ := hc2.scan
    obtain ⟨body, hs3, hbne, hbh, hbl, hbs⟩ := ih
    refine ⟨pre ++ 45 :: (pre2 ++ body), ?_, by simp [hpne], ?_, ?_, ?_⟩
    · rw [hs, hs2, hs3]; simp
    · rw [head?_append_ne hpne]; exact hph
    · intro tail
      have h1 := hpl (45 :: (pre2 ++ (body ++ tail)))
      have h2 := hpl2 (body ++ tail)
      have := ClassBody.range h1 h2 (hbl tail)
      simpa [List.append_assoc] using this
    · intro tail
      have e : (pre ++ 45 :: (pre2 ++ body)) ++ tail = pre ++ (45 :: (pre2 ++ (body ++ tail))) := by simp
      rw [e, hps, scanLen_cons_ord true 45 _ (by decide) (by decide) (by decide) (Or.inr rfl), hps2, hbs]
      simp only [List.length_append, List.length_cons]; omega

/-- an item list without `*` -/
def StarFree (its : List Item) : Prop := ∀ it ∈ its, it ≠ Item.star

/-- Forward: a well-formed pattern is cut by the scan loop exactly before its first top-level `*`, and
    the piece before it is parsed by `matchChunk` into the items the grammar gives. -/
theorem parses_scan {q : Bytes} {ast : Pat} (h : Parses q ast) :
    ∃ chunk rest items astRest, q = chunk ++ rest ∧ scanLen false q = chunk.length ∧ ast = items ++ astRest ∧
      StarFree items ∧ (∀ f, chunk.length ≤ f → chunkItems f chunk = some items) ∧ Parses rest astRest ∧
      (rest = [] ∨ rest.head? = some 42) := by
  induction h with
  | nil => exact ⟨[], [], [], [], rfl, rfl, rfl, by simp [StarFree], fun f _ => by cases f <;> rfl, Parses.nil, Or.inl rfl⟩
  | @star p ast hp _ =>
    exact ⟨[], 42 :: p, [], .star :: ast, rfl, scanLen_cons_star p, rfl, by simp [StarFree],
      fun f _ => by cases f <;> rfl, Parses.star hp, Or.inr rfl⟩
  | @any p ast hp ih =>
    obtain ⟨chunk, rest, items, astRest, hq, hsl, hast, hsf, hci, hpr, hrest⟩ := ih
    refine ⟨63 :: chunk, rest, .any :: items, astRest, by rw [hq]; rfl, ?_, by rw [hast]; rfl, ?_, ?_, hpr, hrest⟩
    · rw [scanLen_cons_ord false 63 p (by decide) (by decide) (by decide) (Or.inl (by decide)), hsl, List.length_cons]; omega
    · intro it hit
      simp only [List.mem_cons] at hit
      rcases hit with rfl | hit
      · simp
      · exact hsf it hit
    · intro f hf
      cases f with
      | zero => simp at hf
      | succ f =>
        simp only [List.length_cons] at hf
        simp [chunkItems, hci f (by omega)]
  | @lit c p ast h42 h63 h92 h91 hp ih =>
    obtain ⟨chunk, rest, items, astRest, hq, hsl, hast, hsf, hci, hpr, hrest⟩ := ih
    refine ⟨c :: chunk, rest, .lit c :: items, astRest, by rw [hq]; rfl, ?_, by rw [hast]; rfl, ?_, ?_, hpr, hrest⟩
    · by_cases h93 : c = 93
      · subst h93; rw [scanLen_cons_close, hsl, List.length_cons]; omega
      · rw [scanLen_cons_ord false c p h92 h91 h93 (Or.inl h42), hsl, List.length_cons]; omega
    · intro it hit
      simp only [List.mem_cons] at hit
      rcases hit with rfl | hit
      · simp
      · exact hsf it hit
    · intro f hf
      cases f with
      | zero => simp at hf
      | succ f =>
        simp only [List.length_cons] at hf
        simp [chunkItems, hci f (by omega), h63, h92, h91]
  | @esc c p ast hp ih =>
    obtain ⟨chunk, rest, items, astRest, hq, hsl, hast, hsf, hci, hpr, hrest⟩ := ih
    refine ⟨92 :: c :: chunk, rest, .lit c :: items, astRest, by rw [hq]; rfl, ?_, by rw [hast]; rfl, ?_, ?_, hpr, hrest⟩
    · rw [scanLen_cons_esc, hsl]; simp only [List.length_cons]; omega
    · intro it hit
      simp only [List.mem_cons] at hit
      rcases hit with rfl | hit
      · simp
      · exact hsf it hit
    · intro f hf
      cases f with
      | zero => simp at hf
      | succ f =>
        simp only [List.length_cons] at hf
        simp [chunkItems, hci f (by omega)]
  | @cls s rest0 rs ast h94 hb hrs hp ih =>
    obtain ⟨chunk, rest, items, astRest, hq, hsl, hast, hsf, hci, hpr, hrest⟩ := ih
    obtain ⟨body, hs, hbne, hbh, hbl, hbs⟩ := hb.scan
    refine ⟨91 :: (body ++ chunk), rest, .cls false rs :: items, astRest, ?_, ?_, by rw [hast]; rfl, ?_, ?_, hpr, hrest⟩
    · rw [hs, hq]; simp
    · rw [scanLen_cons_open, hs, hbs, hsl]; simp only [List.length_cons, List.length_append]; omega
    · intro it hit
      simp only [List.mem_cons] at hit
      rcases hit with rfl | hit
      · simp
      · exact hsf it hit
    · intro f hf
      cases f with
      | zero => simp at hf
      | succ f =>
        simp only [List.length_cons, List.length_append] at hf
        have hneg : ¬ ((body ++ chunk).head? = some 94) := by
          rw [head?_append_ne hbne, hbh]; exact h94
        have hcr := classRanges_complete (hbl chunk) (f + 1) 0 (by simp only [List.length_append]; omega) (fun _ => hrs)
        simp only [chunkItems, ↓reduceIte, hneg, hcr, hci f (by omega), Option.map_some, decide_false]
  | @ncls s rest0 rs ast hb hrs hp ih =>
    obtain ⟨chunk, rest, items, astRest, hq, hsl, hast, hsf, hci, hpr, hrest⟩ := ih
    obtain ⟨body, hs, hbne, hbh, hbl, hbs⟩ := hb.scan
    refine ⟨91 :: 94 :: (body ++ chunk), rest, .cls true rs :: items, astRest, ?_, ?_, by rw [hast]; rfl, ?_, ?_, hpr, hrest⟩
    · rw [hs, hq]; simp
    · rw [scanLen_cons_open, scanLen_cons_ord true 94 _ (by decide) (by decide) (by decide) (Or.inr rfl), hs, hbs, hsl]
      simp only [List.length_cons, List.length_append]; omega
    · intro it hit
      simp only [List.mem_cons] at hit
      rcases hit with rfl | hit
      · simp
      · exact hsf it hit
    · intro f hf
      cases f with
      | zero => simp at hf
      | succ f =>
        simp only [List.length_cons, List.length_append] at hf
        have hcr := classRanges_complete (hbl chunk) (f + 1) 0 (by simp only [List.length_append]; omega) (fun _ => hrs)
        simp [chunkItems, hcr, hci f (by omega)]

/-- Backward: whatever `matchChunk` parses out of the piece the scan loop cut off is what the grammar
    says, and the piece ends at a term boundary. -/
theorem scan_parses (f : Nat) : ∀ (chunk rest : Bytes) (items astRest : Pat),
    scanLen false (chunk ++ rest) = chunk.length → chunkItems f chunk = some items → Parses rest astRest →
    Parses (chunk ++ rest) (items ++ astRest) ∧ StarFree items := by
  induction f with
  | zero =>
    intro chunk rest items astRest _ hci hp
    cases chunk with
    | nil => simp only [chunkItems, Option.some.injEq] at hci; subst hci; exact ⟨hp, by simp [StarFree]⟩
    | cons c ctl => simp [chunkItems] at hci
  | succ f ih =>
    intro chunk rest items astRest hsl hci hp
    cases chunk with
    | nil => simp only [chunkItems, Option.some.injEq] at hci; subst hci; exact ⟨hp, by simp [StarFree]⟩
    | cons c ctl =>
      have consSF : ∀ (it : Item) (its : List Item), it ≠ .star → StarFree its → StarFree (it :: its) := by
        intro it its h1 h2 x hx
        simp only [List.mem_cons] at hx
        rcases hx with rfl | hx
        · exact h1
        · exact h2 x hx
      simp only [chunkItems] at hci
      by_cases h91 : c = 91
      · subst h91
        simp only [↓reduceIte] at hci
        cases hcr : classRanges (f + 1) (if ctl.head? = some 94 then ctl.tail else ctl) 0 with
        | none => simp [hcr] at hci
        | some pr =>
          obtain ⟨rs, chunk2⟩ := pr
          simp only [hcr] at hci
          cases hci2 : chunkItems f chunk2 with
          | none => simp [hci2] at hci
          | some its =>
            simp only [hci2, Option.map_some, Option.some.injEq] at hci
            subst hci
            obtain ⟨hbody, hrs⟩ := classRanges_sound _ _ _ _ _ hcr
            obtain ⟨body, hs, hbne, hbh, hbl, hbs⟩ := hbody.scan
            by_cases hneg : ctl.head? = some 94
            · simp only [hneg, if_true] at hs
              obtain ⟨ctl', rfl⟩ : ∃ ctl', ctl = 94 :: ctl' := by
                cases ctl with
                | nil => simp at hneg
                | cons a ctl' => simp at hneg; exact ⟨ctl', by rw [hneg]⟩
              simp only [List.tail_cons] at hs
              subst hs
              have hsl' : scanLen false (chunk2 ++ rest) = chunk2.length := by
                have e : (91 :: 94 :: (body ++ chunk2)) ++ rest = 91 :: 94 :: (body ++ (chunk2 ++ rest)) := by simp
                rw [e, scanLen_cons_open, scanLen_cons_ord true 94 _ (by decide) (by decide) (by decide) (Or.inr rfl), hbs] at hsl
                simp only [List.length_cons, List.length_append] at hsl
                omega
              obtain ⟨hp2, hsf2⟩ := ih chunk2 rest its astRest hsl' hci2 hp
              refine ⟨?_, consSF _ _ (by simp) hsf2⟩
              have := Parses.ncls (hbl (chunk2 ++ rest)) (hrs rfl) hp2
              simpa [hneg] using this
            · simp only [hneg, if_false] at hs
              subst hs
              have hsl' : scanLen false (chunk2 ++ rest) = chunk2.length := by
                have e : (91 :: (body ++ chunk2)) ++ rest = 91 :: (body ++ (chunk2 ++ rest)) := by simp
                rw [e, scanLen_cons_open, hbs] at hsl
                simp only [List.length_cons, List.length_append] at hsl
                omega
              obtain ⟨hp2, hsf2⟩ := ih chunk2 rest its astRest hsl' hci2 hp
              refine ⟨?_, consSF _ _ (by simp) hsf2⟩
              have hneg' : (body ++ (chunk2 ++ rest)).head? ≠ some 94 := by
                rw [head?_append_ne hbne]
                rw [head?_append_ne hbne] at hneg
                exact hneg
              have := Parses.cls hneg' (hbl (chunk2 ++ rest)) (hrs rfl) hp2
              have hd : decide ((body ++ chunk2).head? = some 94) = false := by simp only [hneg, decide_false]
              rw [hd]
              simpa using this
      · simp only [h91, if_false] at hci
        by_cases h63 : c = 63
        · subst h63
          simp only [↓reduceIte] at hci
          cases hci2 : chunkItems f ctl with
          | none => simp [hci2] at hci
          | some its =>
            simp only [hci2, Option.map_some, Option.some.injEq] at hci
            subst hci
            have hsl' : scanLen false (ctl ++ rest) = ctl.length := by
              rw [List.cons_append, scanLen_cons_ord false 63 _ (by decide) (by decide) (by decide) (Or.inl (by decide))] at hsl
              simp only [List.length_cons] at hsl; omega
            obtain ⟨hp2, hsf2⟩ := ih ctl rest its astRest hsl' hci2 hp
            exact ⟨Parses.any hp2, consSF _ _ (by simp) hsf2⟩
        · simp only [h63, if_false] at hci
          by_cases h92 : c = 92
          · subst h92
            simp only [↓reduceIte] at hci
            cases ctl with
            | nil => simp at hci
            | cons c1 ctl1 =>
              simp only at hci
              cases hci2 : chunkItems f ctl1 with
              | none => simp [hci2] at hci
              | some its =>
                simp only [hci2, Option.map_some, Option.some.injEq] at hci
                subst hci
                have hsl' : scanLen false (ctl1 ++ rest) = ctl1.length := by
                  rw [List.cons_append, List.cons_append, scanLen_cons_esc] at hsl
                  simp only [List.length_cons] at hsl; omega
                obtain ⟨hp2, hsf2⟩ := ih ctl1 rest its astRest hsl' hci2 hp
                exact ⟨Parses.esc c1 hp2, consSF _ _ (by simp) hsf2⟩
          · simp only [h92, if_false] at hci
            cases hci2 : chunkItems f ctl with
            | none => simp [hci2] at hci
            | some its =>
              simp only [hci2, Option.map_some, Option.some.injEq] at hci
              subst hci
              have h42 : c ≠ 42 := by
                intro e; subst e
                rw [List.cons_append, scanLen_cons_star] at hsl
                simp at hsl
              have hsl' : scanLen false (ctl ++ rest) = ctl.length := by
                by_cases h93 : c = 93
                · subst h93
                  rw [List.cons_append, scanLen_cons_close] at hsl
                  simp only [List.length_cons] at hsl; omega
                · rw [List.cons_append, scanLen_cons_ord false c _ h92 h91 h93 (Or.inl h42)] at hsl
                  simp only [List.length_cons] at hsl; omega
              obtain ⟨hp2, hsf2⟩ := ih ctl rest its astRest hsl' hci2 hp
              exact ⟨Parses.lit c h42 h63 h92 h91 hp2, consSF _ _ (by simp) hsf2⟩
