import Rare.Proofs.C17
/-!
Helper lemmas for C17, part 2: running stages (`Comp.run`), sub-contexts, the splitter and the
`for !splitter.Done()` loop as a fold over the remaining elements.
-/
namespace Rare.C17
open Rare Rare.Expr Rare.Expr.Funcs.Range

/-! ## Running stages -/

theorem run_bind {α β : Type} (ctx : Ctx) (c : Comp α) (f : α → Comp β) :
    (c.bind f).run ctx = (c.run ctx).bind fun a => (f a).run ctx := by
  induction c with
  | ret a => rfl
  | getMatch i k ih => simp only [Comp.bind, Comp.run, ih]
  | getKey s k ih => simp only [Comp.bind, Comp.run, ih]
  | panic m => rfl

theorem run_bind_ok {α β : Type} (ctx : Ctx) (c : Comp α) (f : α → Comp β) (a : α)
    (h : c.run ctx = .ok a) : (c.bind f).run ctx = (f a).run ctx := by
  rw [run_bind, h]; rfl

/-- The context a sub-expression of `@map`, `@filter`, `@reduce`, `@for` is evaluated in:
    `{0}` and `{1}` are the two bound values, every larger index is empty, a negative index (not an
    element index; used by `{time live}` to touch the context) and every named key is whatever the
    enclosing match says. -/
def subCtx (ctx : Ctx) (v0 v1 : Bytes) : Ctx :=
  { getMatch := fun i => if i < 0 then ctx.getMatch i else if i = 0 then v0 else if i = 1 then v1 else [],
    getKey := ctx.getKey }

theorem withSub_run {α : Type} (ctx : Ctx) (v0 v1 : Bytes) (c : Comp α) :
    (c.withSub v0 v1).run ctx = c.run (subCtx ctx v0 v1) := by
  induction c with
  | ret a => rfl
  | getMatch i k ih =>
    simp only [Comp.withSub]
    split
    · rename_i h; simp only [Comp.run, ih, subCtx, h, if_true]
    · rename_i h; simp only [Comp.run, ih, subCtx, h, if_false]
  | getKey s k ih => simp only [Comp.withSub, Comp.run, ih, subCtx]
  | panic m => rfl

/-! ## `strings.Builder` -/

@[simp] theorem Sb.str_write (sb : Sb) (x : Bytes) : (sb.write x).str = sb.str ++ x := by
  simp [Sb.write, Sb.str]

@[simp] theorem Sb.str_empty : ({} : Sb).str = [] := rfl

/-- `Len()` is the length of the content. -/
def SbWf (sb : Sb) : Prop := sb.n = sb.rev.length

theorem sbWf_empty : SbWf {} := rfl

theorem sbWf_write (sb : Sb) (x : Bytes) (h : SbWf sb) : SbWf (sb.write x) := by
  simp only [SbWf, Sb.write, List.length_append, List.length_reverse] at *; omega

theorem sb_len_eq (sb : Sb) (h : SbWf sb) : sb.len = sb.str.length := by
  simp only [SbWf] at h
  simp [Sb.len, Sb.str, h]

/-! ## The splitter -/

/-- What is left to split: `none` when `Done()`. -/
def view (sp : Splitter) : Option Bytes :=
  if sp.next < 0 then none else some (sp.S.drop sp.next.toNat)

def remaining (d : Bytes) : Option Bytes → List Bytes
  | none => []
  | some r => splitOn d r

def vlen : Option Bytes → Nat
  | none => 0
  | some r => r.length + 1

theorem view_init (s d : Bytes) : view { S := s, Delim := d } = some s := by
  simp [view]

theorem done_iff (sp : Splitter) : sp.Done = true ↔ view sp = none := by
  simp [Splitter.Done, view]

/-- One `Next()`: it hands out the first remaining element and leaves the rest. -/
theorem next_view (sp : Splitter) (hd : sp.Delim ≠ []) (r : Bytes) (hv : view sp = some r) :
    remaining sp.Delim (view sp) = sp.Next.1 :: remaining sp.Delim (view sp.Next.2) ∧
    sp.Next.2.Delim = sp.Delim ∧ vlen (view sp.Next.2) < vlen (view sp) := by
  have hn : ¬ sp.next < 0 := by
    intro h; simp [view, h] at hv
  have hr : sp.S.drop sp.next.toNat = r := by
    simpa [view, hn] using hv
  rw [hv]
  unfold Splitter.Next
  simp only [hn, if_false, hr]
  cases hi : indexOf sp.Delim r with
  | none =>
    simp only [remaining, view]
    rw [splitOn_index _ hd, hi]
    simp [vlen]
  | some i =>
    have hnn : ¬ ((i : Int) + sp.next + (sp.Delim.length : Int) < 0) := by omega
    have ht : ((i : Int) + sp.next + (sp.Delim.length : Int)).toNat = sp.next.toNat + (i + sp.Delim.length) := by
      omega
    simp only [remaining, view, hnn, if_false, ht]
    rw [← List.drop_drop, hr]
    refine ⟨?_, ?_, ?_⟩
    · rw [splitOn_index _ hd r, hi]
    · first | rfl | trivial
    · have := indexOf_some_lt sp.Delim r i hd hi
      simp only [vlen]; omega

/-! ## The loop over the splitter -/

/-- `for guard(st) && more { st = step(st, x) }` over a list. -/
def foldWhile {σ : Type} (g : σ → Bool) (φ : σ → Bytes → σ) : List Bytes → σ → σ
  | [], st => st
  | x :: xs, st => if g st then foldWhile g φ xs (φ st x) else st

theorem foldWhile_false {σ : Type} (g : σ → Bool) (φ : σ → Bytes → σ) (xs : List Bytes) (st : σ)
    (h : g st = false) : foldWhile g φ xs st = st := by
  cases xs <;> simp [foldWhile, h]

theorem foldWhile_true {σ : Type} (φ : σ → Bytes → σ) (xs : List Bytes) (st : σ) :
    foldWhile (fun _ => true) φ xs st = xs.foldl φ st := by
  induction xs generalizing st with
  | nil => rfl
  | cons x xs ih => simp [foldWhile, ih]

/-- The splitter loop with a body that (in the given context) always returns: it never runs out of
    fuel and computes the fold over the remaining elements. -/
theorem splitLoop_run {σ : Type} (ctx : Ctx) (g : σ → Bool) (body : σ → Bytes → Comp σ)
    (φ : σ → Bytes → σ) (hb : ∀ st x, (body st x).run ctx = .ok (φ st x)) :
    ∀ (fuel : Nat) (sp : Splitter) (st : σ), sp.Delim ≠ [] → vlen (view sp) < fuel →
      (splitLoop fuel sp st g body).run ctx =
        .ok (foldWhile g φ (remaining sp.Delim (view sp)) st) := by
  intro fuel
  induction fuel with
  | zero => intro sp st _ h; omega
  | succ fuel ih =>
    intro sp st hd hf
    unfold splitLoop
    by_cases hg : g st = true
    · cases hv : view sp with
      | none =>
        have : sp.Done = true := (done_iff sp).mpr hv
        simp [hg, this, remaining, foldWhile, Comp.run]
      | some r =>
        have hnd : sp.Done = false := by
          cases h : sp.Done
          · rfl
          · rw [(done_iff sp).mp h] at hv; cases hv
        obtain ⟨h1, h2, h3⟩ := next_view sp hd r hv
        simp only [hg, hnd, Bool.not_false, Bool.and_self, if_true]
        rw [run_bind_ok ctx _ _ _ (hb st sp.Next.1)]
        rw [ih sp.Next.2 _ (by rw [h2]; exact hd) (by omega)]
        rw [← hv, h1, h2]
        simp [foldWhile, hg]
    · have hg' : g st = false := by simpa using hg
      simp [hg', foldWhile_false g φ _ st hg', Comp.run]

/-- The loop started on a fresh splitter over `s`. -/
theorem splitLoop_run_init {σ : Type} (ctx : Ctx) (g : σ → Bool) (body : σ → Bytes → Comp σ)
    (φ : σ → Bytes → σ) (hb : ∀ st x, (body st x).run ctx = .ok (φ st x))
    (s d : Bytes) (hd : d ≠ []) (st : σ) :
    (splitLoop (loopFuel s) { S := s, Delim := d } st g body).run ctx =
      .ok (foldWhile g φ (splitOn d s) st) := by
  rw [splitLoop_run ctx g body φ hb _ _ _ hd]
  · simp [view_init, remaining]
  · simp [view_init, vlen, loopFuel]

/-- After the first `Next()` on a fresh splitter. -/
theorem first_next (s d : Bytes) (hd : d ≠ []) :
    splitOn d s = (Splitter.Next { S := s, Delim := d }).1 ::
      remaining d (view (Splitter.Next { S := s, Delim := d }).2) ∧
    (Splitter.Next { S := s, Delim := d }).2.Delim = d ∧
    vlen (view (Splitter.Next { S := s, Delim := d }).2) < s.length + 1 := by
  have := next_view { S := s, Delim := d } hd s (view_init s d)
  simpa [view_init, remaining, vlen] using this

end Rare.C17
