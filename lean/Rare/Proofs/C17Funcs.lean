import Rare.Proofs.C17Loop
/-!
Helper lemmas for C17, part 3: each helper's stage computes the list function of the specification.
-/
namespace Rare.C17
open Rare Rare.Expr Rare.Expr.Funcs.Range

theorem wrap64_id (x : Int) (h1 : minInt64 ≤ x) (h2 : x ≤ maxInt64) : wrap64 x = x := by
  unfold wrap64; unfold minInt64 at h1; unfold maxInt64 at h2; omega

/-! ## join as "first element, then delimiter-prefixed elements" -/

def joinTail (j : Bytes) (ys : List Bytes) : Bytes := (ys.map fun y => j ++ y).flatten

theorem join_cons_tail (j y : Bytes) (ys : List Bytes) : join j (y :: ys) = y ++ joinTail j ys := by
  induction ys generalizing y with
  | nil => simp [join, joinTail]
  | cons z r ih =>
    have : join j (y :: z :: r) = y ++ j ++ join j (z :: r) := rfl
    rw [this, ih]; simp [joinTail]

theorem joinTail_append (j : Bytes) (ys zs : List Bytes) :
    joinTail j (ys ++ zs) = joinTail j ys ++ joinTail j zs := by
  simp [joinTail]

theorem join_append_singleton (j : Bytes) (ys : List Bytes) (x : Bytes) (h : ys ≠ []) :
    join j (ys ++ [x]) = join j ys ++ j ++ x := by
  cases ys with
  | nil => exact absurd rfl h
  | cons y r => simp [join_cons_tail, joinTail]

/-! ## arrayOperator: split, map, join -/

theorem foldl_write (j : Bytes) (m : Bytes → Bytes) (xs : List Bytes) (sb : Sb) :
    (xs.foldl (fun ret x => (ret.write j).write (m x)) sb).str = sb.str ++ joinTail j (xs.map m) := by
  induction xs generalizing sb with
  | nil => simp [joinTail]
  | cons x xs ih => simp [ih, joinTail]

/-- `arrayOperator(arr, delim, joiner, mapper)` = split at `delim`, map, join with `joiner`. -/
theorem arrayOperator_run (ctx : Ctx) (arr d j : Bytes) (hd : d ≠ []) (mapper : Bytes → Stage)
    (m : Bytes → Bytes) (hm : ∀ x, (mapper x).run ctx = .ok (m x)) :
    (arrayOperator arr d j mapper).run ctx = .ok (join j ((splitOn d arr).map m)) := by
  unfold arrayOperator
  by_cases he : arr = []
  · subst he
    simp [hm, splitOn, splitGo, join]
  · simp only [he, if_false]
    obtain ⟨h1, h2, h3⟩ := first_next arr d hd
    rw [run_bind_ok ctx _ _ _ (hm _)]
    rw [run_bind]
    rw [splitLoop_run ctx (fun _ => true) _ (fun ret x => (ret.write j).write (m x))
      (by intro st x; rw [run_bind_ok ctx _ _ _ (hm x)]; rfl) _ _ _ (by rw [h2]; exact hd)
      (by simp only [loopFuel]; omega)]
    simp only [Except.bind, Comp.run]
    rw [foldWhile_true, foldl_write, h2, h1]
    simp [join_cons_tail]

theorem noop_run (ctx : Ctx) (x : Bytes) : (noopMapper x).run ctx = .ok x := rfl

/-! ## @len -/

theorem splitGo_single_length (b : UInt8) (s cur : Bytes) :
    (splitGo [b] s 0 cur).length = s.count b + 1 := by
  induction s generalizing cur with
  | nil => simp [splitGo]
  | cons c r ih =>
    simp only [splitGo, List.length_cons, List.length_nil, Nat.sub_self]
    by_cases h : c = b
    · subst h; simp [List.isPrefixOf, ih]
    · have h' : (b == c) = false := by simpa using fun e => h e.symm
      have h2 : (c == b) = false := by simpa using h
      simp [List.isPrefixOf, h', ih, List.count_cons, h2]

theorem elems_length (s : Bytes) : (elems s).length = s.count NUL + 1 :=
  splitGo_single_length NUL s []

/-! ## strings.Split on one byte -/

theorem splitByte_eq (b : UInt8) (s cur : Bytes) : splitByte b s cur = splitGo [b] s 0 cur := by
  induction s generalizing cur with
  | nil => simp [splitByte, splitGo]
  | cons c r ih =>
    simp only [splitByte, splitGo, List.length_cons, List.length_nil, Nat.sub_self]
    by_cases h : c = b
    · subst h; simp [List.isPrefixOf, ih]
    · have h' : (b == c) = false := by simpa using fun e => h e.symm
      simp [List.isPrefixOf, h', h, ih]

/-! ## @filter -/

structure FilterInv (p : Bytes → Bool) (st : FilterSt) (ys : List Bytes) : Prop where
  str : st.sb.str = pack ys
  sep : st.needSep = !ys.isEmpty

theorem filter_fold (p : Bytes → Bool) (xs ys : List Bytes) (st : FilterSt)
    (h : FilterInv p st ys) :
    (xs.foldl (fun st item =>
        if p item then
          ⟨(if st.needSep then st.sb.write ArraySeparatorString else st.sb).write item, true⟩
        else st) st).sb.str = pack (ys ++ xs.filter p) := by
  induction xs generalizing ys st with
  | nil => simp [h.str]
  | cons x xs ih =>
    simp only [List.foldl_cons, List.filter_cons]
    by_cases hp : p x = true
    · simp only [hp, if_true]
      have : ys ++ x :: List.filter p xs = (ys ++ [x]) ++ List.filter p xs := by simp
      rw [this]
      apply ih
      constructor
      · cases ys with
        | nil =>
          have := h.sep; simp at this
          simp [this, h.str, pack, join]
        | cons y r =>
          have := h.sep; simp at this
          have e : pack ((y :: r) ++ [x]) = pack (y :: r) ++ [NUL] ++ x :=
            join_append_singleton _ _ _ (by simp)
          rw [e]
          simp [this, h.str, ArraySeparatorString, ArraySeparator, NUL]
      · simp
    · simp only [hp]
      exact ih ys st h

/-! ## @reduce -/

theorem reduce_fold (f : Bytes → Bytes → Bytes) (xs : List Bytes) (memo : Bytes) :
    foldWhile (fun _ => true) f xs memo = xs.foldl f memo := foldWhile_true f xs memo

/-! ## `{$ ..}` / `{@ ..}` -/

theorem joinArgsLoop_run (ctx : Ctx) (delim : UInt8) (args : List Stage) (vals : List Bytes)
    (h : args.map (fun a => a.run ctx) = vals.map Except.ok) (sb : Sb) :
    ∃ sb', (joinArgsLoop delim args sb).run ctx = .ok sb' ∧
      sb'.str = sb.str ++ joinTail [delim] vals := by
  induction args generalizing vals sb with
  | nil =>
    cases vals with
    | nil => exact ⟨sb, rfl, by simp [joinTail]⟩
    | cons v vs => simp at h
  | cons a as ih =>
    cases vals with
    | nil => simp at h
    | cons v vs =>
      simp only [List.map_cons, List.cons.injEq] at h
      obtain ⟨sb', h1, h2⟩ := ih vs h.2 ((sb.write [delim]).write v)
      refine ⟨sb', ?_, ?_⟩
      · simp only [joinArgsLoop]
        rw [run_bind_ok ctx _ _ _ h.1]; exact h1
      · rw [h2]; simp [joinTail]

end Rare.C17
