import Rare.Proofs.C04
import Rare.Proofs.C04Buf
/-!
Round-4 additions for C04 (helpers): characterisation of the specification, stalls, allocation sizes.
-/
namespace Rare.C04

/-! ### the specification is the unique solution of its three defining equations -/

theorem splitLines_nil : splitLines [] = [] := by simp [splitLines, splitGo]

theorem splitLines_line (a rest : Bytes) (h : nl ∉ a) :
    splitLines (a ++ nl :: rest) = dropCR a :: splitLines rest := by
  have := splitGo_line [] a rest h
  simpa [splitLines] using this

theorem splitLines_tail (a : Bytes) (h : nl ∉ a) (hne : a ≠ []) : splitLines a = [a] := by
  have := splitGo_tail [] a h
  simp only [splitLines, List.nil_append] at this ⊢
  rw [this]; simp [hne]

/-- every byte string is newline-free or has a first newline -/
theorem nl_cases (d : Bytes) : nl ∉ d ∨ ∃ a rest, nl ∉ a ∧ d = a ++ nl :: rest := by
  cases h : idxNl d with
  | none => exact Or.inl (idxNl_none.mp h)
  | some k =>
    obtain ⟨a, r, ha, hd, _⟩ := split_at_idx h
    exact Or.inr ⟨a, r, ha, hd⟩

theorem splitLines_unique_aux (f : Bytes → List Bytes) (h0 : f [] = [])
    (h1 : ∀ a rest, nl ∉ a → f (a ++ nl :: rest) = dropCR a :: f rest)
    (h2 : ∀ a, nl ∉ a → a ≠ [] → f a = [a]) :
    ∀ (n : Nat) (d : Bytes), d.length ≤ n → f d = splitLines d := by
  intro n
  induction n with
  | zero =>
    intro d hd
    have : d = [] := List.eq_nil_of_length_eq_zero (by omega)
    subst this
    rw [h0, splitLines_nil]
  | succ n ih =>
    intro d hd
    rcases nl_cases d with hn | ⟨a, rest, ha, rfl⟩
    · by_cases hne : d = []
      · subst hne; rw [h0, splitLines_nil]
      · rw [h2 d hn hne, splitLines_tail d hn hne]
    · rw [h1 a rest ha, splitLines_line a rest ha, ih rest (by simp at hd; omega)]

/-- compositionality: a stream cut right after a newline splits into the lines of both halves -/
theorem splitLines_append_terminated (p x : Bytes) :
    splitLines (p ++ [nl] ++ x) = splitLines (p ++ [nl]) ++ splitLines x := by
  suffices h : ∀ (n : Nat) (p : Bytes), p.length ≤ n →
      splitLines (p ++ [nl] ++ x) = splitLines (p ++ [nl]) ++ splitLines x from h _ p (Nat.le_refl _)
  intro n
  induction n with
  | zero =>
    intro p hp
    have : p = [] := List.eq_nil_of_length_eq_zero (by omega)
    subst this
    have e1 := splitLines_line [] x (by simp)
    have e2 := splitLines_line [] [] (by simp)
    simp only [List.nil_append] at e1 e2 ⊢
    rw [show [nl] ++ x = nl :: x by rfl, e1, e2, splitLines_nil]; simp
  | succ n ih =>
    intro p hp
    rcases nl_cases p with hn | ⟨a, rest, ha, rfl⟩
    · have e1 := splitLines_line p x hn
      have e2 := splitLines_line p [] hn
      rw [show p ++ [nl] ++ x = p ++ nl :: x by simp, show p ++ [nl] = p ++ nl :: [] by simp, e1, e2,
        splitLines_nil]; simp
    · have e1 := splitLines_line a (rest ++ [nl] ++ x) ha
      have e2 := splitLines_line a (rest ++ [nl]) ha
      rw [show a ++ nl :: rest ++ [nl] ++ x = a ++ nl :: (rest ++ [nl] ++ x) by simp,
        show a ++ nl :: rest ++ [nl] = a ++ nl :: (rest ++ [nl]) by simp, e1, e2,
        ih rest (by simp at hp; omega)]
      simp

/-! ### stalls: the immediate scanner has no bound on consecutive `(0, nil)` reads -/

theorem zero_read (rest : Bytes) (ss : List Step) (room : Nat) :
    (Reader.read ⟨rest, ⟨0, none⟩ :: ss⟩ room) = ([], none, ⟨rest, ss⟩) := by
  simp [Reader.read]

theorem readLoop_stalls (N : Nat) : ∀ (s : Imm) (ss : List Step), s.buf.length < s.cap → 1 ≤ s.bufSize →
    s.rd.script = List.replicate N ⟨0, none⟩ ++ ss →
    s.readLoop N = (.fuel, { s with rd := ⟨s.rd.rest, ss⟩ }) := by
  induction N with
  | zero =>
    intro s ss _ _ hs
    simp only [List.replicate, List.nil_append] at hs
    simp only [Imm.readLoop]
    have : s.rd = ⟨s.rd.rest, ss⟩ := by rw [← hs]
    rw [← this]
  | succ N ih =>
    intro s ss hcap hb hs
    have hg : s.grown = s := by simp [Imm.grown]; omega
    have hrd : s.rd = ⟨s.rd.rest, ⟨0, none⟩ :: (List.replicate N ⟨0, none⟩ ++ ss)⟩ := by
      rw [← List.cons_append, ← List.replicate_succ, ← hs]
    simp only [Imm.readLoop, hg]
    rw [hrd, zero_read]
    simp only [idxNl]
    have := ih (s.recv [] ⟨s.rd.rest, List.replicate N ⟨0, none⟩ ++ ss⟩) ss
      (by simpa [Imm.recv] using hcap) hb rfl
    rw [this]
    simp [Imm.recv]

/-! ### allocation sizes of the immediate scanner -/

/-- The current backing array has the initial size, or the size "an unterminated fragment of the input
    plus `bufSize`". -/
def AllocOK (s : Imm) : Prop :=
  s.cap = s.bufSize ∨ ∃ w, w <:+: s.delivered ∧ nl ∉ w ∧ s.cap = w.length + s.bufSize

theorem infix_append_right {w d : Bytes} (bs : Bytes) (h : w <:+: d) : w <:+: d ++ bs := by
  obtain ⟨p, q, hpq⟩ := h
  exact ⟨p, q ++ bs, by rw [← hpq]; simp⟩

theorem allocOK_of_eq {s s' : Imm} (h : AllocOK s) (hc : s'.cap = s.cap) (hb : s'.bufSize = s.bufSize)
    (hd : ∃ bs, s'.delivered = s.delivered ++ bs) : AllocOK s' := by
  obtain ⟨bs, hd⟩ := hd
  rcases h with h | ⟨w, hw, hn, hcap⟩
  · exact Or.inl (by rw [hc, hb, h])
  · exact Or.inr ⟨w, by rw [hd]; exact infix_append_right bs hw, hn, by rw [hc, hb, hcap]⟩

theorem emitAt_alloc {s : Imm} (k : Nat) (h : AllocOK s) : AllocOK (s.emitAt k).2 :=
  allocOK_of_eq h rfl rfl ⟨[], by simp [Imm.emitAt]⟩

theorem emitTail_alloc {s : Imm} (h : AllocOK s) : AllocOK s.emitTail.2 :=
  allocOK_of_eq h rfl rfl ⟨[], by simp [Imm.emitTail]⟩

theorem topEof_alloc {s : Imm} (h : AllocOK s) : AllocOK s.topEof.2 := by
  unfold Imm.topEof
  split
  · split
    · exact emitAt_alloc _ h
    · exact emitTail_alloc h
  · exact h

theorem grown_alloc {s : Imm} {C : Bytes} (hinv : Inv s C) (hn : nl ∉ s.pending) (h : AllocOK s) :
    AllocOK s.grown := by
  unfold Imm.grown
  split
  · refine Or.inr ⟨s.pending, ?_, hn, ?_⟩
    · show s.pending <:+: s.delivered
      rw [hinv.del]; exact (List.suffix_append _ _).isInfix
    · simp [Imm.regrow, Imm.pending]
  · exact h

theorem readLoop_alloc (f : Nat) : ∀ {s : Imm} {C : Bytes}, Inv s C → nl ∉ s.pending → AllocOK s →
    AllocOK (s.readLoop f).2 := by
  induction f with
  | zero => intro s C _ _ h; exact h
  | succ f ih =>
    intro s C hinv hn h
    have hg := grown_spec hinv
    have hga := grown_alloc hinv hn h
    simp only [Imm.readLoop]
    generalize s.grown.rd.read (s.grown.cap - s.grown.buf.length) = r
    have h1 := recv_spec hg.1 r.1 r.2.2
    have hra : AllocOK (s.grown.recv r.1 r.2.2) :=
      allocOK_of_eq hga rfl rfl ⟨r.1, by simp [Imm.recv]⟩
    split
    · rename_i e _
      exact topEof_alloc (allocOK_of_eq hra rfl rfl ⟨[], by simp [Imm.fail]⟩)
    · split
      · exact emitAt_alloc _ hra
      · rename_i heq
        have hnb : nl ∉ r.1 := idxNl_none.mp heq
        apply ih h1.1 _ hra
        rw [h1.2.1, hg.2.1]; simp; exact ⟨hn, hnb⟩

theorem scan_alloc (f : Nat) {s : Imm} {C : Bytes} (hinv : Inv s C) (h : AllocOK s) :
    AllocOK (s.scan f).2 := by
  unfold Imm.scan
  split
  · rename_i r ht
    unfold Imm.top at ht
    split at ht
    · split at ht
      · simp at ht; rw [← ht]; exact emitAt_alloc _ h
      · split at ht
        · simp at ht; rw [← ht]; exact emitTail_alloc h
        · simp at ht
    · split at ht
      · simp at ht; rw [← ht]; exact h
      · simp at ht
  · rename_i ht
    exact readLoop_alloc f hinv (top_none ht).1 h

theorem scanAll_alloc (f : Nat) : ∀ (n : Nat) {s : Imm} {E : List Bytes}, Good s E →
    AllocOK s → AllocOK (s.scanAll f n).2.2 := by
  intro n
  induction n with
  | zero => intro s E _ h; exact h
  | succ n ih =>
    intro s E hg h
    obtain ⟨C, hinv, _⟩ := id hg
    have hsg := scan_good f hg
    have hc := scan_alloc f hinv h
    simp only [Imm.scanAll]
    generalize s.scan f = r at hsg hc
    obtain ⟨res, s'⟩ := r
    cases res with
    | tok v b => exact ih hsg hc
    | done => exact hc
    | fuel => exact hc

/-- the valid part never exceeds the array (`end ≤ len(buf)`): no `Read` is handed a negative-length slice
    and no write lands outside the allocation -/
theorem closed_end_le_cap : Closed (fun s => s.buf.length ≤ s.cap) where
  emitAt := fun _ _ h => h
  emitTail := fun _ h => h
  grown := fun s h => by
    unfold Imm.grown
    split
    · simp [Imm.regrow]
    · exact h
  read := fun s h _ hlt => by
    have hlen : ∀ (r : Reader) (room : Nat), (r.read room).1.length ≤ room := by
      intro r room
      unfold Reader.read
      split
      · split
        · simp
        · simp [List.length_take]; omega
      · simp [List.length_take]; omega
    intro r
    have : r.1.length ≤ s.cap - s.buf.length := hlen s.rd (s.cap - s.buf.length)
    split
    · simp [Imm.recv]; omega
    · simp [Imm.recv, Imm.fail]; omega

/-! ### allocation sizes of the buffered scanner -/

theorem read_len (r : Reader) (room : Nat) : (r.read room).1.length ≤ room := by
  unfold Reader.read
  split
  · split
    · simp
    · simp [List.length_take]; omega
  · simp [List.length_take]; omega

theorem fill_len : ∀ (f cap : Nat) (acc : Bytes) (rd : Reader) (errs : Nat) (dl : Bytes)
    (res : Bytes × Reader × Bool × Nat × Bytes), Buf.fill f cap acc rd errs dl = some res →
    acc.length ≤ cap → res.1.length ≤ cap := by
  intro f
  induction f with
  | zero => intro cap acc rd errs dl res h; simp [Buf.fill] at h
  | succ f ih =>
    intro cap acc rd errs dl res h hle
    simp only [Buf.fill] at h
    split at h
    · rename_i hlt
      have hr := read_len rd (cap - acc.length)
      split at h
      · simp only [Option.some.injEq] at h
        rw [← h]; simp; omega
      · exact ih _ _ _ _ _ _ h (by simp; omega)
    · simp only [Option.some.injEq] at h
      rw [← h]; exact hle

/-- Every array of the buffered scanner is at most `max(maxBufLen, |w| + maxBufLen/2)` long for an
    unterminated fragment `w` of the input. -/
def BAllocOK (s : Buf) : Prop :=
  ∀ a ∈ s.arrays, ∃ w, w <:+: s.delivered ∧ nl ∉ w ∧ a.length ≤ max s.maxBufLen (w.length + s.maxBufLen / 2)

theorem bscan_alloc (f : Nat) : ∀ {s : Buf} {C : Bytes}, BInv s C → BAllocOK s → BAllocOK (s.scan f).2 := by
  induction f with
  | zero => intro s C _ h; exact h
  | succ f ih =>
    intro s C hinv h
    simp only [Buf.scan]
    split
    · exact h
    · rename_i heq
      have hn : nl ∉ s.pending := idxNl_none.mp heq
      split
      · exact h
      · split
        · cases hfill : Buf.fill (s.rd.measure + 2) (max s.maxBufLen ((s.buf.drop s.offset).length + s.maxBufLen / 2))
              (s.buf.drop s.offset) s.rd s.errs s.delivered with
          | none => exact h
          | some r =>
            obtain ⟨acc, rd', eof', errs', dl'⟩ := r
            obtain ⟨new, hacc, hdl, _⟩ := refill_facts s hfill
            have hlen := fill_len _ _ _ _ _ _ _ hfill (by omega)
            simp only
            apply ih (C := C)
            · refine ⟨by simp, ?_, hinv.bs⟩
              simp only [Buf.pending, List.drop_zero]
              rw [hdl, hacc, hinv.del]; simp [Buf.pending]
            · intro a ha
              simp only [Buf.arrays, List.mem_append, List.mem_singleton] at ha
              rcases ha with ha | rfl
              · obtain ⟨w, hw, hnw, hl⟩ := h a (by simpa [Buf.arrays] using ha)
                exact ⟨w, by show w <:+: dl'; rw [hdl]; exact infix_append_right new hw, hnw, hl⟩
              · refine ⟨s.pending, ?_, hn, hlen⟩
                show s.pending <:+: dl'
                rw [hdl, hinv.del]
                exact infix_append_right new (List.suffix_append _ _).isInfix
        · exact h

theorem bscanAll_alloc (f : Nat) (hf : 0 < f) : ∀ (n : Nat) {s : Buf} {E : List Bytes},
    BGood s E → BAllocOK s → BAllocOK (s.scanAll f n).2.2 := by
  intro n
  induction n with
  | zero => intro s E _ h; exact h
  | succ n ih =>
    intro s E hg h
    obtain ⟨C, hinv, _⟩ := id hg
    have hsg := bscan_good f hf hg
    have hc := bscan_alloc f hinv h
    simp only [Buf.scanAll]
    generalize s.scan f = r at hsg hc
    obtain ⟨res, s'⟩ := r
    cases res with
    | tok v b => exact ih hsg hc
    | done => exact hc
    | fuel => exact hc

theorem closed_bufSize (b : Nat) : Closed (fun s => s.bufSize = b) where
  emitAt := fun _ _ h => h
  emitTail := fun _ h => h
  grown := fun s h => by unfold Imm.grown; split <;> exact h
  read := fun s h _ _ => by
    intro r
    split <;> exact h

theorem bclosed_maxBufLen (m : Nat) : BClosed (fun s => s.maxBufLen = m) where
  emit := fun _ _ h => h
  refill := fun _ _ _ _ _ _ h _ _ => h

/-! ### a finished scanner stays finished -/

theorem scanAll_final (f : Nat) : ∀ (n : Nat) {s : Imm} {E : List Bytes}, Good s E →
    (s.scanAll f n).2.1 = true → ∀ g, (s.scanAll f n).2.2.scan g = (.done, (s.scanAll f n).2.2) := by
  intro n
  induction n with
  | zero => intro s E _ h; simp [Imm.scanAll] at h
  | succ n ih =>
    intro s E hg hdone
    obtain ⟨C, hinv, _⟩ := id hg
    have hsg := scan_good f hg
    have hpost := scan_post f hinv
    simp only [Imm.scanAll] at hdone ⊢
    generalize s.scan f = r at hsg hpost hdone
    obtain ⟨res, s'⟩ := r
    cases res with
    | tok v b => exact ih hsg hdone
    | done => intro g; exact scan_final g hpost.2.2 hpost.1 hpost.2.1
    | fuel => simp at hdone

theorem bscanAll_final (f : Nat) (hf : 0 < f) : ∀ (n : Nat) {s : Buf} {E : List Bytes}, BGood s E →
    (s.scanAll f n).2.1 = true → ∀ g, 0 < g → (s.scanAll f n).2.2.scan g = (.done, (s.scanAll f n).2.2) := by
  intro n
  induction n with
  | zero => intro s E _ h; simp [Buf.scanAll] at h
  | succ n ih =>
    intro s E hg hdone
    obtain ⟨C, hinv, _⟩ := id hg
    have hsg := bscan_good f hf hg
    have hpost := bscan_post f hinv
    simp only [Buf.scanAll] at hdone ⊢
    generalize s.scan f = r at hsg hpost hdone
    obtain ⟨res, s'⟩ := r
    cases res with
    | tok v b => exact ih hsg hdone
    | done => intro g hgp; exact bscan_final g hpost.2.2 hpost.1 hpost.2.1 hgp
    | fuel => simp at hdone

end Rare.C04
