import Rare.Proofs.C18Layout
import Rare.Proofs.C18Dur
/-!
C18: the layout-driven parser reads back what the layout-driven formatter printed
(`format_parse_roundtrip`), token by token.
-/
namespace Rare.C18

/-! ## fixed-width numbers -/

theorem dig_zero : dig 0 = 48 := rfl

theorem natPad2 (n : Nat) (h : n < 100) : natPad n 2 = [dig (n / 10), dig (n % 10)] := by
  unfold natPad
  by_cases h10 : n < 10
  · rw [natDigits_lt n h10]
    have e1 : n / 10 = 0 := by omega
    have e2 : n % 10 = n := by omega
    rw [e1, e2]; rfl
  · rw [natDigits_ge n (by omega), natDigits_lt (n / 10) (by omega)]; rfl

theorem natPad4 (n : Nat) (h : n < 10000) :
    natPad n 4 = [dig (n / 1000), dig (n / 100 % 10), dig (n / 10 % 10), dig (n % 10)] := by
  unfold natPad
  by_cases h10 : n < 10
  · rw [natDigits_lt n h10]
    have e1 : n / 1000 = 0 := by omega
    have e2 : n / 100 % 10 = 0 := by omega
    have e3 : n / 10 % 10 = 0 := by omega
    have e4 : n % 10 = n := by omega
    rw [e1, e2, e3, e4]; rfl
  · by_cases h100 : n < 100
    · rw [natDigits_ge n (by omega), natDigits_lt (n / 10) (by omega)]
      have e1 : n / 1000 = 0 := by omega
      have e2 : n / 100 % 10 = 0 := by omega
      have e3 : n / 10 % 10 = n / 10 := by omega
      rw [e1, e2, e3]; rfl
    · by_cases h1000 : n < 1000
      · rw [natDigits_ge n (by omega), natDigits_ge (n / 10) (by omega), natDigits_lt (n / 10 / 10) (by omega)]
        have e1 : n / 1000 = 0 := by omega
        have e2 : n / 100 % 10 = n / 10 / 10 := by omega
        have e3 : n / 10 % 10 = n / 10 % 10 := rfl
        rw [e1, e2]; rfl
      · rw [natDigits_ge n (by omega), natDigits_ge (n / 10) (by omega), natDigits_ge (n / 10 / 10) (by omega),
          natDigits_lt (n / 10 / 10 / 10) (by omega)]
        have e1 : n / 1000 = n / 10 / 10 / 10 := by omega
        have e2 : n / 100 % 10 = n / 10 / 10 % 10 := by omega
        rw [e1, e2]; rfl

theorem appendInt_nonneg (x : Int) (h : 0 ≤ x) (w : Nat) : appendInt x w = natPad x.toNat w := by
  unfold appendInt
  have : ¬ (x < 0) := by omega
  simp only [this, if_false]
  congr 1; omega

theorem dig_range : ∀ a : Nat, a < 10 → (48 ≤ dig a ∧ dig a ≤ 57) := by decide
theorem dig_digitVal : ∀ a : Nat, a < 10 → digitVal (dig a) = (a : Int) := by decide
theorem dig_isDigitAt (a : Nat) (h : a < 10) (r : Bytes) : isDigitAt (dig a :: r) = true := by
  simp [isDigitAt, dig_range a h]

theorem getnum_two (a b : Nat) (ha : a < 10) (hb : b < 10) (rest : Bytes) (fixed : Bool) :
    getnum (dig a :: dig b :: rest) fixed = .ok ((a : Int) * 10 + (b : Int), rest) := by
  simp [getnum, dig_range a ha, dig_range b hb, dig_digitVal a ha, dig_digitVal b hb]

/-- Two-digit zero-padded field. -/
theorem getnum_pad2 (x : Int) (h0 : 0 ≤ x) (h1 : x ≤ 99) (rest : Bytes) (fixed : Bool) :
    getnum (appendInt x 2 ++ rest) fixed = .ok (x, rest) := by
  rw [appendInt_nonneg x h0, natPad2 _ (by omega)]
  simp only [List.cons_append, List.nil_append]
  rw [getnum_two _ _ (by omega) (by omega)]
  congr 2; omega

def NonDigitHead (rest : Bytes) : Prop := rest = [] ∨ ∃ c r, rest = c :: r ∧ ¬ (48 ≤ c ∧ c ≤ 57)

theorem getnum_one (a : Nat) (ha : a < 10) (rest : Bytes) (hr : NonDigitHead rest) :
    getnum (dig a :: rest) false = .ok ((a : Int), rest) := by
  rcases hr with h | ⟨c, r, h, hc⟩
  · subst h; simp [getnum, dig_range a ha, dig_digitVal a ha]
  · subst h; simp [getnum, dig_range a ha, dig_digitVal a ha, hc]

/-! ## single tokens: the parser on the formatter's output -/

theorem parse_pad2_min (x : Int) (h0 : 0 ≤ x) (h1 : x ≤ 59) (next : Option Std) (rest : Bytes) (st : PState) :
    parseStd .zeroMinute next (appendInt x 2 ++ rest) st = .ok (rest, { st with min := x }) := by
  have hr : ¬ (x < 0 ∨ 60 ≤ x) := by omega
  simp [parseStd, getnum_pad2 x h0 (by omega), hr, bind, Except.bind, pure, Except.pure]

theorem parse_hour (x : Int) (h0 : 0 ≤ x) (h1 : x ≤ 23) (next : Option Std) (rest : Bytes) (st : PState) :
    parseStd .hour next (appendInt x 2 ++ rest) st = .ok (rest, { st with hour := x }) := by
  have hr : ¬ (x < 0 ∨ 24 ≤ x) := by omega
  simp [parseStd, getnum_pad2 x h0 (by omega), hr, bind, Except.bind, pure, Except.pure]

theorem parse_zeroMonth (x : Int) (h0 : 1 ≤ x) (h1 : x ≤ 12) (next : Option Std) (rest : Bytes) (st : PState) :
    parseStd .zeroMonth next (appendInt x 2 ++ rest) st = .ok (rest, { st with month := x }) := by
  have hr : ¬ (x ≤ 0 ∨ 12 < x) := by omega
  simp [parseStd, getnum_pad2 x (by omega) (by omega), hr, bind, Except.bind, pure, Except.pure]

theorem parse_zeroDay (x : Int) (h0 : 1 ≤ x) (h1 : x ≤ 31) (next : Option Std) (rest : Bytes) (st : PState) :
    parseStd .zeroDay next (appendInt x 2 ++ rest) st = .ok (rest, { st with day := x }) := by
  simp [parseStd, getnum_pad2 x (by omega) (by omega), bind, Except.bind, pure, Except.pure]

/-- The text after a seconds field does not look like a fraction (`[.,]` then a digit). -/
def NoFracHead (rest : Bytes) : Prop :=
  rest = [] ∨ ∃ c r, rest = c :: r ∧ (commaOrPeriod c = false ∨ isDigitAt r = false)

theorem parse_zeroSecond (x : Int) (h0 : 0 ≤ x) (h1 : x ≤ 59) (next : Option Std) (rest : Bytes) (st : PState)
    (hf : NoFracHead rest ∨ isFrac next = true) :
    parseStd .zeroSecond next (appendInt x 2 ++ rest) st = .ok (rest, { st with sec := x }) := by
  have hr : ¬ (x < 0 ∨ 60 ≤ x) := by omega
  simp only [parseStd, getnum_pad2 x h0 (by omega), bind, Except.bind, hr, if_false]
  cases rest with
  | nil => rfl
  | cons c r =>
    simp only
    have : (commaOrPeriod c && isDigitAt r && !isFrac next) = false := by
      rcases hf with h | h
      · rcases h with h | ⟨c', r', h, hc⟩
        · cases h
        · cases h
          rcases hc with hc | hc <;> simp [hc]
      · simp [h]
    simp only [this, Bool.false_eq_true, if_false]
    rfl

theorem parse_longYear (x : Int) (h0 : 0 ≤ x) (h1 : x ≤ 9999) (next : Option Std) (rest : Bytes) (st : PState) :
    parseStd .longYear next (appendInt x 4 ++ rest) st = .ok (rest, { st with year := x }) := by
  rw [appendInt_nonneg x h0, natPad4 _ (by omega)]
  have ha : x.toNat / 1000 < 10 := by omega
  have hb : x.toNat / 100 % 10 < 10 := by omega
  have hc : x.toNat / 10 % 10 < 10 := by omega
  have hd : x.toNat % 10 < 10 := by omega
  have hall : ([dig (x.toNat / 1000), dig (x.toNat / 100 % 10), dig (x.toNat / 10 % 10), dig (x.toNat % 10)] : Bytes).all isDigitB = true := by
    simp [dig_isDigit _ ha, dig_isDigit _ hb, dig_isDigit _ hc, dig_isDigit _ hd]
  have hs := isDigitB_ne_sign (dig_isDigit _ ha)
  have hval : digitsVal [dig (x.toNat / 1000), dig (x.toNat / 100 % 10), dig (x.toNat / 10 % 10), dig (x.toNat % 10)] 0 = x.toNat := by
    simp only [digitsVal, dig_val _ ha, dig_val _ hb, dig_val _ hc, dig_val _ hd]; omega
  have hat : timeAtoi [dig (x.toNat / 1000), dig (x.toNat / 100 % 10), dig (x.toNat / 10 % 10), dig (x.toNat % 10)] = some x := by
    unfold timeAtoi
    split
    next neg ds heq =>
      split at heq
      · next r' h' => exact absurd (List.cons.inj h').1 hs.2
      · next r' h' => exact absurd (List.cons.inj h').1 hs.1
      · cases heq
        simp only [hall, if_true, hval, Bool.false_eq_true, if_false]
        congr 1; omega
  simp only [parseStd, List.cons_append, List.nil_append, List.length_cons, dig_isDigitAt _ ha,
    List.take, List.drop, hat]
  have : ¬ (rest.length + 1 + 1 + 1 + 1 < 4) := by omega
  simp [this]

/-- The two-digit year, read back with Go's pivot (69..99 → 19xx, 00..68 → 20xx). -/
theorem parse_year (y : Int) (h0 : 1969 ≤ y) (h1 : y ≤ 2068) (next : Option Std) (rest : Bytes) (st : PState) :
    parseStd .year next (appendInt ((if y < 0 then -y else y) % 100) 2 ++ rest) st = .ok (rest, { st with year := y }) := by
  have hneg : ¬ (y < 0) := by omega
  simp only [hneg, if_false]
  have hm0 : 0 ≤ y % 100 := by omega
  rw [appendInt_nonneg _ hm0, natPad2 _ (by omega)]
  have ha : (y % 100).toNat / 10 < 10 := by omega
  have hb : (y % 100).toNat % 10 < 10 := by omega
  have hs := isDigitB_ne_sign (dig_isDigit _ ha)
  have hat : timeAtoi [dig ((y % 100).toNat / 10), dig ((y % 100).toNat % 10)] = some (y % 100) := by
    unfold timeAtoi
    split
    next neg ds heq =>
      split at heq
      · next r' h' => exact absurd (List.cons.inj h').1 hs.2
      · next r' h' => exact absurd (List.cons.inj h').1 hs.1
      · cases heq
        have hall : ([dig ((y % 100).toNat / 10), dig ((y % 100).toNat % 10)] : Bytes).all isDigitB = true := by
          simp [dig_isDigit _ ha, dig_isDigit _ hb]
        simp only [hall, if_true, digitsVal, dig_val _ ha, dig_val _ hb, Bool.false_eq_true, if_false]
        congr 1; omega
  simp only [parseStd, List.cons_append, List.nil_append, List.length_cons, List.take, List.drop, hat]
  have : ¬ (rest.length + 1 + 1 < 2) := by omega
  simp only [this, if_false]
  congr 2
  by_cases h69 : y % 100 ≥ 69
  · simp only [h69, if_true]; congr 1; omega
  · simp only [h69, if_false]; congr 1; omega

theorem format_underDay (t : TimeV) : formatStd t .underDay = (if t.dt.d < 10 then [32] else []) ++ appendInt t.dt.d 0 := rfl

theorem dropSpace1_ne (c : UInt8) (r : Bytes) (h : c ≠ 32) : dropSpace1 (c :: r) = c :: r := by
  unfold dropSpace1
  split
  · next r' h' => exact absurd (List.cons.inj h').1 h
  · rfl

theorem dig_ne_space (a : Nat) (h : a < 10) : dig a ≠ 32 := by
  have := dig_range a h
  intro e; rw [e] at this; revert this; decide

theorem parse_underDay (t : TimeV) (h0 : 1 ≤ t.dt.d) (h1 : t.dt.d ≤ 31) (next : Option Std) (rest : Bytes) (st : PState)
    (hr : NonDigitHead rest) :
    parseStd .underDay next (formatStd t .underDay ++ rest) st = .ok (rest, { st with day := t.dt.d }) := by
  rw [format_underDay, appendInt_nonneg _ (by omega)]
  have hdec : decide (Std.underDay = Std.zeroDay) = false := by decide
  unfold natPad
  by_cases h10 : t.dt.d < 10
  · have hn : t.dt.d.toNat < 10 := by omega
    simp only [h10, if_true, natDigits_lt _ hn]
    simp only [parseStd, List.cons_append, List.nil_append, List.length_cons, List.length_nil, Nat.zero_sub, List.replicate,
      if_true, bind, Except.bind, pure, Except.pure]
    have e : dropSpace1 (32 :: dig t.dt.d.toNat :: rest) = dig t.dt.d.toNat :: rest := rfl
    rw [e, hdec, getnum_one _ hn rest hr]
    simp only
    congr 3; omega
  · have hn : 10 ≤ t.dt.d.toNat := by omega
    simp only [h10, if_false, natDigits_ge _ hn, natDigits_lt (t.dt.d.toNat / 10) (by omega)]
    simp only [parseStd, List.cons_append, List.nil_append, List.length_cons, List.length_nil, List.replicate,
      if_true, bind, Except.bind, pure, Except.pure, Nat.zero_sub]
    rw [dropSpace1_ne _ _ (dig_ne_space _ (by omega)), hdec, getnum_two _ _ (by omega) (by omega)]
    simp only
    congr 3; omega

/-- … and the same day without its padding space (the parser's `skip` of a literal ending in a space
swallows the padding space too: `Jan _2` prints `Jan  4`). -/
theorem parse_underDay_ns (d : Int) (h0 : 1 ≤ d) (h1 : d ≤ 31) (next : Option Std) (rest : Bytes) (st : PState)
    (hr : NonDigitHead rest) :
    parseStd .underDay next (appendInt d 0 ++ rest) st = .ok (rest, { st with day := d }) := by
  rw [appendInt_nonneg _ (by omega)]
  have hdec : decide (Std.underDay = Std.zeroDay) = false := by decide
  unfold natPad
  by_cases h10 : d < 10
  · have hn : d.toNat < 10 := by omega
    simp only [natDigits_lt _ hn]
    simp only [parseStd, List.cons_append, List.nil_append, List.length_cons, List.length_nil, Nat.zero_sub, List.replicate,
      if_true, bind, Except.bind, pure, Except.pure]
    rw [dropSpace1_ne _ _ (dig_ne_space _ hn), hdec, getnum_one _ hn rest hr]
    simp only
    congr 3; omega
  · have hn : 10 ≤ d.toNat := by omega
    simp only [natDigits_ge _ hn, natDigits_lt (d.toNat / 10) (by omega)]
    simp only [parseStd, List.cons_append, List.nil_append, List.length_cons, List.length_nil, List.replicate,
      if_true, bind, Except.bind, pure, Except.pure, Nat.zero_sub]
    rw [dropSpace1_ne _ _ (dig_ne_space _ (by omega)), hdec, getnum_two _ _ (by omega) (by omega)]
    simp only
    congr 3; omega

/-! ## names -/

theorem parse_month (m : Int) (h0 : 1 ≤ m) (h1 : m ≤ 12) (next : Option Std) (rest : Bytes) (st : PState) :
    parseStd .month next (nameAt shortMonthNames (m - 1) ++ rest) st = .ok (rest, { st with month := m }) := by
  have h : m = 1 ∨ m = 2 ∨ m = 3 ∨ m = 4 ∨ m = 5 ∨ m = 6 ∨ m = 7 ∨ m = 8 ∨ m = 9 ∨ m = 10 ∨ m = 11 ∨ m = 12 := by omega
  rcases h with h | h | h | h | h | h | h | h | h | h | h | h <;> subst h <;> rfl

theorem parse_weekDay (w : Int) (h0 : 0 ≤ w) (h1 : w ≤ 6) (next : Option Std) (rest : Bytes) (st : PState) :
    parseStd .weekDay next (nameAt shortDayNames w ++ rest) st = .ok (rest, st) := by
  have h : w = 0 ∨ w = 1 ∨ w = 2 ∨ w = 3 ∨ w = 4 ∨ w = 5 ∨ w = 6 := by omega
  rcases h with h | h | h | h | h | h | h <;> subst h <;> rfl

theorem nameAt_month_head (m : Int) (h0 : 1 ≤ m) (h1 : m ≤ 12) :
    ∃ c r, nameAt shortMonthNames (m - 1) = c :: r ∧ 65 ≤ c ∧ c ≤ 90 := by
  have h : m = 1 ∨ m = 2 ∨ m = 3 ∨ m = 4 ∨ m = 5 ∨ m = 6 ∨ m = 7 ∨ m = 8 ∨ m = 9 ∨ m = 10 ∨ m = 11 ∨ m = 12 := by omega
  rcases h with h | h | h | h | h | h | h | h | h | h | h | h <;> subst h <;> exact ⟨_, _, rfl, by decide, by decide⟩

theorem nameAt_day_head (w : Int) (h0 : 0 ≤ w) (h1 : w ≤ 6) :
    ∃ c r, nameAt shortDayNames w = c :: r ∧ 65 ≤ c ∧ c ≤ 90 := by
  have h : w = 0 ∨ w = 1 ∨ w = 2 ∨ w = 3 ∨ w = 4 ∨ w = 5 ∨ w = 6 := by omega
  rcases h with h | h | h | h | h | h | h <;> subst h <;> exact ⟨_, _, rfl, by decide, by decide⟩

theorem parse_longMonth (m : Int) (h0 : 1 ≤ m) (h1 : m ≤ 12) (next : Option Std) (rest : Bytes) (st : PState) :
    parseStd .longMonth next (nameAt longMonthNames (m - 1) ++ rest) st = .ok (rest, { st with month := m }) := by
  have h : m = 1 ∨ m = 2 ∨ m = 3 ∨ m = 4 ∨ m = 5 ∨ m = 6 ∨ m = 7 ∨ m = 8 ∨ m = 9 ∨ m = 10 ∨ m = 11 ∨ m = 12 := by omega
  rcases h with h | h | h | h | h | h | h | h | h | h | h | h <;> subst h <;> rfl

theorem parse_longWeekDay (w : Int) (h0 : 0 ≤ w) (h1 : w ≤ 6) (next : Option Std) (rest : Bytes) (st : PState) :
    parseStd .longWeekDay next (nameAt longDayNames w ++ rest) st = .ok (rest, st) := by
  have h : w = 0 ∨ w = 1 ∨ w = 2 ∨ w = 3 ∨ w = 4 ∨ w = 5 ∨ w = 6 := by omega
  rcases h with h | h | h | h | h | h | h <;> subst h <;> rfl

theorem nameAt_longMonth_head (m : Int) (h0 : 1 ≤ m) (h1 : m ≤ 12) :
    ∃ c r, nameAt longMonthNames (m - 1) = c :: r ∧ 65 ≤ c ∧ c ≤ 90 := by
  have h : m = 1 ∨ m = 2 ∨ m = 3 ∨ m = 4 ∨ m = 5 ∨ m = 6 ∨ m = 7 ∨ m = 8 ∨ m = 9 ∨ m = 10 ∨ m = 11 ∨ m = 12 := by omega
  rcases h with h | h | h | h | h | h | h | h | h | h | h | h <;> subst h <;> exact ⟨_, _, rfl, by decide, by decide⟩

theorem nameAt_longDay_head (w : Int) (h0 : 0 ≤ w) (h1 : w ≤ 6) :
    ∃ c r, nameAt longDayNames w = c :: r ∧ 65 ≤ c ∧ c ≤ 90 := by
  have h : w = 0 ∨ w = 1 ∨ w = 2 ∨ w = 3 ∨ w = 4 ∨ w = 5 ∨ w = 6 := by omega
  rcases h with h | h | h | h | h | h | h <;> subst h <;> exact ⟨_, _, rfl, by decide, by decide⟩

/-! ## zone abbreviations -/

def utcB : Bytes := asc "UTC"

/-- Abbreviations the parser reads back in full when they end the text or are followed by a space
(`parseTimeZone`: three upper-case letters, four or five ending in `T`, `±hh` up to 23 – see
`abbrOK_upper3` …; NOT e.g. `+0545`), not starting with a space; `UTC` only with offset 0 (the
parser turns the text `UTC` into the zone UTC whatever the location says). -/
structure AbbrOK (abbr : Bytes) (off : Int) : Prop where
  len : 3 ≤ abbr.length
  head : ∃ c r, abbr = c :: r ∧ c ≠ 32
  utc : abbr.take 3 = utcB → abbr = utcB ∧ off = 0
  atEnd : parseTimeZone abbr = some abbr.length
  beforeSpace : ∀ r, parseTimeZone (abbr ++ 32 :: r) = some abbr.length

theorem parse_tz (t : TimeV) (h : AbbrOK t.abbr t.off) (next : Option Std) (rest : Bytes) (st : PState)
    (hr : rest = [] ∨ ∃ r, rest = 32 :: r) :
    parseStd .tz next (formatStd t .tz ++ rest) st =
      .ok (rest, if t.abbr = utcB then { st with zUTC := true } else { st with zoneName := t.abbr }) := by
  have hne : t.abbr ≠ [] := by intro e; have := h.len; rw [e] at this; simp at this
  have hf : formatStd t .tz = t.abbr := by simp [formatStd, hne]
  rw [hf]
  have htake : (t.abbr ++ rest).take 3 = t.abbr.take 3 := List.take_append_of_le_length h.len
  have hptz : parseTimeZone (t.abbr ++ rest) = some t.abbr.length := by
    rcases hr with hr | ⟨r, hr⟩
    · subst hr; rw [List.append_nil]; exact h.atEnd
    · subst hr; exact h.beforeSpace r
  by_cases hu : t.abbr = utcB
  · rw [hu]
    have hd : (utcB ++ rest).drop 3 = rest := rfl
    have ht3 : (utcB ++ rest).take 3 = asc "UTC" := rfl
    simp only [parseStd, ht3, if_true, hd]
  · have hnu : ¬ ((t.abbr ++ rest).take 3 = asc "UTC") := by
      rw [htake]; intro e; exact hu (h.utc e).1
    simp only [parseStd, hnu, if_false, hptz, hu, List.drop_left, List.take_left]

/-! ## numeric zone offsets -/

/-- Offsets the numeric zone tokens carry exactly: whole minutes, at most 24 h 59 min. -/
def OffOK (off : Int) : Prop := off % 60 = 0 ∧ -89940 ≤ off ∧ off ≤ 89940

theorem tdiv60 (off : Int) (h : off % 60 = 0) : Int.tdiv off 60 = off / 60 := by
  rw [Int.tdiv_eq_ediv]
  have : (60 : Int) ∣ off := Int.dvd_of_emod_eq_zero h
  simp [this]

theorem getnum_two' (a b : Nat) (ha : a < 10) (hb : b < 10) :
    getnum [dig a, dig b] true = .ok ((a : Int) * 10 + (b : Int), []) := getnum_two a b ha hb [] true

theorem appendInt_div60 (Z : Nat) : appendInt ((Z : Int) / 60) 2 = natPad (Z / 60) 2 := by
  rw [appendInt_nonneg _ (by omega)]; congr 1 <;> omega

theorem appendInt_mod60 (Z : Nat) : appendInt ((Z : Int) % 60) 2 = natPad (Z % 60) 2 := by
  rw [appendInt_nonneg _ (by omega)]; congr 1 <;> omega

theorem formatOffset_shape (k : ZKind) (hk : k = .hhmm ∨ k = .colon) (off : Int) (h : OffOK off) :
    ∃ z : Nat, z ≤ 1499 ∧ (off = (z : Int) * 60 ∨ (off = -((z : Int) * 60) ∧ 0 < z)) ∧
      formatOffset k off = (if off < 0 then 45 else 43) :: dig (z / 60 / 10) :: dig (z / 60 % 10)
        :: ((if k = .colon then [58] else []) ++ [dig (z % 60 / 10), dig (z % 60 % 10)]) := by
  obtain ⟨hm, hlo, hhi⟩ := h
  refine ⟨(off / 60).natAbs, by omega, by omega, ?_⟩
  unfold formatOffset
  rw [tdiv60 off hm]
  have hneg : decide (off / 60 < 0) = decide (off < 0) := by
    by_cases h : off < 0
    · have : off / 60 < 0 := by omega
      simp [h, this]
    · have : ¬ (off / 60 < 0) := by omega
      simp [h, this]
  simp only [hneg]
  have hz : (if decide (off < 0) = true then -(off / 60) else off / 60) = ((off / 60).natAbs : Int) := by
    by_cases h : off < 0
    · simp only [h, decide_true, if_true]; omega
    · simp only [h, decide_false, Bool.false_eq_true, if_false]; omega
  rw [hz, appendInt_div60, appendInt_mod60, natPad2 _ (by omega), natPad2 _ (by omega)]
  rcases hk with hk | hk <;> subst hk <;> by_cases hlt : off < 0 <;>
    simp only [hlt, decide_true, decide_false, if_true, if_false, zoneHasColon, zoneHasSeconds, Bool.false_eq_true,
      reduceCtorEq, List.cons_append, List.nil_append, List.append_nil]

theorem parseNumZone_hhmm (sign : UInt8) (a b c d : Nat) (ha : a < 10) (hb : b < 10) (hc : c < 10) (hd : d < 10)
    (h24 : a * 10 + b ≤ 24) (h60 : c * 10 + d ≤ 59) (rest : Bytes) (st : PState) :
    parseNumZone .hhmm (sign :: dig a :: dig b :: dig c :: dig d :: rest) st =
      if sign = 43 then .ok (rest, { st with zoneOffset := (((a * 10 + b) * 60 + (c * 10 + d)) * 60 : Nat) })
      else if sign = 45 then .ok (rest, { st with zoneOffset := -((((a * 10 + b) * 60 + (c * 10 + d)) * 60 : Nat) : Int) })
      else .error "bad" := by
  have g00 : getnum (asc "00") true = .ok (0, []) := rfl
  have hr : ¬ (((a : Int) * 10 + (b : Int) > 24) ∨ ((c : Int) * 10 + (d : Int) > 60) ∨ ((0 : Int) > 60)) := by omega
  have hl : ¬ (rest.length + 1 + 1 + 1 + 1 + 1 < 5) := by omega
  simp only [parseNumZone, List.length_cons, hl, if_false, List.take, List.drop, getnum_two' _ _ ha hb,
    getnum_two' _ _ hc hd, g00, hr]
  by_cases h43 : sign = 43
  · subst h43; simp only [if_true]; congr 3 <;> omega
  · have : ¬ ([sign] = ([43] : Bytes)) := by intro h; exact h43 (List.cons.inj h).1
    simp only [this, h43, if_false]
    by_cases h45 : sign = 45
    · subst h45; simp only [if_true]; congr 3 <;> omega
    · have : ¬ ([sign] = ([45] : Bytes)) := by intro h; exact h45 (List.cons.inj h).1
      simp only [this, h45, if_false]

theorem parseNumZone_colon (sign : UInt8) (a b c d : Nat) (ha : a < 10) (hb : b < 10) (hc : c < 10) (hd : d < 10)
    (h24 : a * 10 + b ≤ 24) (h60 : c * 10 + d ≤ 59) (rest : Bytes) (st : PState) :
    parseNumZone .colon (sign :: dig a :: dig b :: 58 :: dig c :: dig d :: rest) st =
      if sign = 43 then .ok (rest, { st with zoneOffset := (((a * 10 + b) * 60 + (c * 10 + d)) * 60 : Nat) })
      else if sign = 45 then .ok (rest, { st with zoneOffset := -((((a * 10 + b) * 60 + (c * 10 + d)) * 60 : Nat) : Int) })
      else .error "bad" := by
  have g00 : getnum (asc "00") true = .ok (0, []) := rfl
  have hr : ¬ (((a : Int) * 10 + (b : Int) > 24) ∨ ((c : Int) * 10 + (d : Int) > 60) ∨ ((0 : Int) > 60)) := by omega
  have hl : ¬ (rest.length + 1 + 1 + 1 + 1 + 1 + 1 < 6) := by omega
  simp only [parseNumZone, List.length_cons, hl, if_false, List.take, List.drop, List.getD_cons_succ, List.getD_cons_zero,
    ne_eq, not_true_eq_false, getnum_two' _ _ ha hb, getnum_two' _ _ hc hd, g00, hr]
  by_cases h43 : sign = 43
  · subst h43; simp only [if_true]; congr 3 <;> omega
  · have : ¬ ([sign] = ([43] : Bytes)) := by intro h; exact h43 (List.cons.inj h).1
    simp only [this, h43, if_false]
    by_cases h45 : sign = 45
    · subst h45; simp only [if_true]; congr 3 <;> omega
    · have : ¬ ([sign] = ([45] : Bytes)) := by intro h; exact h45 (List.cons.inj h).1
      simp only [this, h45, if_false]

theorem parseNumZone_format (k : ZKind) (hk : k = .hhmm ∨ k = .colon) (off : Int) (h : OffOK off) (rest : Bytes) (st : PState) :
    parseNumZone k (formatOffset k off ++ rest) st = .ok (rest, { st with zoneOffset := off }) := by
  obtain ⟨z, hz, hoff, hf⟩ := formatOffset_shape k hk off h
  rw [hf]
  have ha : z / 60 / 10 < 10 := by omega
  have hb : z / 60 % 10 < 10 := by omega
  have hc : z % 60 / 10 < 10 := by omega
  have hd : z % 60 % 10 < 10 := by omega
  rcases hk with hk | hk <;> subst hk
  · simp only [reduceCtorEq, if_false, List.nil_append, List.cons_append]
    rw [parseNumZone_hhmm _ _ _ _ _ ha hb hc hd (by omega) (by omega)]
    by_cases hlt : off < 0
    · simp only [hlt, if_true, show ¬ ((45 : UInt8) = 43) from by decide, if_false]; congr 3; omega
    · simp only [hlt, if_false, if_true]; congr 3; omega
  · simp only [if_true, List.cons_append, List.nil_append]
    rw [parseNumZone_colon _ _ _ _ _ ha hb hc hd (by omega) (by omega)]
    by_cases hlt : off < 0
    · simp only [hlt, if_true, show ¬ ((45 : UInt8) = 43) from by decide, if_false]; congr 3; omega
    · simp only [hlt, if_false, if_true]; congr 3; omega

theorem formatOffset_head (k : ZKind) (hk : k = .hhmm ∨ k = .colon) (off : Int) (h : OffOK off) :
    ∃ c r, formatOffset k off = c :: r ∧ (c = 43 ∨ c = 45) := by
  obtain ⟨z, _, _, hf⟩ := formatOffset_shape k hk off h
  rw [hf]
  by_cases hlt : off < 0
  · simp only [hlt, if_true]; exact ⟨45, _, rfl, Or.inr rfl⟩
  · simp only [hlt, if_false]; exact ⟨43, _, rfl, Or.inl rfl⟩

theorem parse_numTZ (k : ZKind) (hk : k = .hhmm ∨ k = .colon) (t : TimeV) (h : OffOK t.off) (next : Option Std) (rest : Bytes) (st : PState) :
    parseStd (.numTZ k) next (formatStd t (.numTZ k) ++ rest) st = .ok (rest, { st with zoneOffset := t.off }) :=
  parseNumZone_format k hk t.off h rest st

theorem parse_isoTZ (k : ZKind) (hk : k = .hhmm ∨ k = .colon) (t : TimeV) (h : OffOK t.off) (next : Option Std) (rest : Bytes) (st : PState) :
    parseStd (.isoTZ k) next (formatStd t (.isoTZ k) ++ rest) st =
      .ok (rest, if t.off = 0 then { st with zUTC := true } else { st with zoneOffset := t.off }) := by
  by_cases h0 : t.off = 0
  · simp only [formatStd, h0, if_true]; rfl
  · obtain ⟨c, r, hf, hc⟩ := formatOffset_head k hk t.off h
    simp only [formatStd, h0, if_false, parseStd]
    have := parseNumZone_format k hk t.off h rest st
    rw [hf] at this ⊢
    simp only [List.cons_append] at this ⊢
    split
    · next r' h' =>
      have := (List.cons.inj h').1
      rcases hc with hc | hc <;> (rw [hc] at this; exact absurd this (by decide))
    · exact this

theorem parse_frac9 (n : Nat) (sep : UInt8) (t : TimeV) (hns : t.dt.ns = 0) (next : Option Std) (rest : Bytes) (st : PState)
    (hr : NoFracHead rest) :
    parseStd (.frac9 n sep) next (formatStd t (.frac9 n sep) ++ rest) st = .ok (rest, st) := by
  have hf : formatStd t (.frac9 n sep) = [] := by simp [formatStd, appendNano, hns]
  rw [hf, List.nil_append]
  rcases hr with h | ⟨c, r, h, hc⟩
  · subst h; rfl
  · subst h
    simp only [parseStd]
    have : (!commaOrPeriod c || !isDigitAt r) = true := by rcases hc with hc | hc <;> simp [hc]
    simp only [this, if_true]

/-! ## literals -/

theorem cutspace_nospace (rest : Bytes) (h : rest = [] ∨ ∃ c r, rest = c :: r ∧ c ≠ 32) : cutspace rest = rest := by
  rcases h with h | ⟨c, r, h, hc⟩
  · subst h; rfl
  · subst h
    have : (c == 32) = false := by simpa using hc
    simp [cutspace, List.dropWhile, this]

theorem cutspace_space (x : Bytes) : cutspace (32 :: x) = cutspace x := by simp [cutspace, List.dropWhile]
theorem cutspace_cons (c : UInt8) (x : Bytes) (h : c ≠ 32) : cutspace (c :: x) = c :: x := by
  have : (c == 32) = false := by simpa using h
  simp [cutspace, List.dropWhile, this]

/-- Literal text of the layout is skipped exactly when what follows does not start with a space. -/
theorem skipAux_lit (p rest : Bytes) (h : rest = [] ∨ ∃ c r, rest = c :: r ∧ c ≠ 32) :
    skipAux false (p ++ rest) p = .ok rest ∧ skipAux true (cutspace (p ++ rest)) p = .ok rest := by
  induction p with
  | nil => exact ⟨rfl, by rw [List.nil_append, cutspace_nospace rest h]; rfl⟩
  | cons c ps ih =>
    by_cases hc : c = 32
    · subst hc
      constructor
      · simp only [List.cons_append, skipAux, if_true, Bool.false_eq_true, if_false, ne_eq, not_true_eq_false]
        rw [cutspace_space]; exact ih.2
      · simp only [List.cons_append, skipAux, if_true]
        rw [cutspace_space]; exact ih.2
    · constructor
      · simp only [List.cons_append, skipAux, hc, if_false, if_true]; exact ih.1
      · simp only [List.cons_append, cutspace_cons c _ hc, skipAux, hc, if_false, if_true]; exact ih.1

theorem skip_lit (p rest : Bytes) (h : rest = [] ∨ ∃ c r, rest = c :: r ∧ c ≠ 32) : skip (p ++ rest) p = .ok rest :=
  (skipAux_lit p rest h).1

def endsSpace (p : Bytes) : Bool := p.getLast? == some 32

/-- A literal ending in a space also swallows one more space of the text (runs of spaces are
equivalent for `skip`). -/
theorem skipAux_lit_sp (p r : Bytes) (hp : endsSpace p = true) (h : r = [] ∨ ∃ c r', r = c :: r' ∧ c ≠ 32) :
    skipAux false (p ++ 32 :: r) p = .ok r ∧ skipAux true (cutspace (p ++ 32 :: r)) p = .ok r := by
  induction p with
  | nil => simp [endsSpace] at hp
  | cons c ps ih =>
    by_cases hps : ps = []
    · subst hps
      have hc : c = 32 := by simpa [endsSpace] using hp
      subst hc
      have e : cutspace (32 :: 32 :: r) = r := by rw [cutspace_space, cutspace_space, cutspace_nospace r h]
      constructor
      · simp only [List.cons_append, List.nil_append, skipAux, if_true, Bool.false_eq_true, if_false, ne_eq, not_true_eq_false, e]
      · simp only [List.cons_append, List.nil_append, skipAux, if_true, e]
    · have hp' : endsSpace ps = true := by
        cases ps with
        | nil => exact absurd rfl hps
        | cons c' ps' => simpa [endsSpace, List.getLast?_cons_cons] using hp
      have ih' := ih hp'
      by_cases hc : c = 32
      · subst hc
        constructor
        · simp only [List.cons_append, skipAux, if_true, Bool.false_eq_true, if_false, ne_eq, not_true_eq_false]
          rw [cutspace_space]; exact ih'.2
        · simp only [List.cons_append, skipAux, if_true]
          rw [cutspace_space]; exact ih'.2
      · constructor
        · simp only [List.cons_append, skipAux, hc, if_false, if_true]; exact ih'.1
        · simp only [List.cons_append, cutspace_cons c _ hc, skipAux, hc, if_false, if_true]; exact ih'.1

theorem skip_lit_sp (p r : Bytes) (hp : endsSpace p = true) (h : r = [] ∨ ∃ c r', r = c :: r' ∧ c ≠ 32) :
    skip (p ++ 32 :: r) p = .ok r := (skipAux_lit_sp p r hp h).1

/-! ## the class of layouts, and the induction over the token list -/

def zkOK (k : ZKind) : Bool := k == .hhmm || k == .colon

/-- Tokens of the round-trip class. -/
def supported : Std → Bool
  | .longYear | .year | .zeroMonth | .month | .zeroDay | .underDay | .hour | .zeroMinute | .zeroSecond | .weekDay => true
  | .longMonth | .longWeekDay | .tz => true
  | .frac9 _ _ => true
  | .numTZ k | .isoTZ k => zkOK k
  | _ => false

def zoneTok : Std → Bool
  | .numTZ k | .isoTZ k => zkOK k
  | _ => false

/-- Supported tokens that always print something, starting with neither a space nor `.`/`,`. -/
def startsSafe : Std → Bool
  | .underDay | .frac9 _ _ => false
  | s => supported s

/-- What may follow a token so that the parser cuts the text where the formatter did. -/
def okAfter (s : Std) (rest : List Tok) : Bool :=
  match s with
  | .underDay =>
    match rest with
    | [] => true
    | .lit (c :: _) :: _ => !(decide (48 ≤ c ∧ c ≤ 57))
    | _ => false
  | .zeroSecond =>
    match rest with
    | [] => true
    | .lit (c :: _) :: _ => !commaOrPeriod c
    | .std (.frac9 _ _) :: _ => true
    | .std s' :: _ => zoneTok s'
    | _ => false
  | .frac9 _ _ =>
    match rest with
    | [] => true
    | .lit (c :: _) :: _ => !commaOrPeriod c
    | .std s' :: _ => zoneTok s'
    | _ => false
  | .tz =>
    match rest with
    | [] => true
    | .lit (c :: _) :: _ => c == 32
    | _ => false
  | _ => true

/-- The layouts for which `format_parse_roundtrip` is proved: supported tokens; a space-padded day
is followed by a non-digit literal; seconds (or an omitted fraction) are not followed by `.`/`,`;
literal text is followed by a token that never prints a leading space, or ends in a space and is
followed by the space-padded day (`Jan _2`). -/
def RT : List Tok → Bool
  | [] => true
  | .lit p :: r => (match r with
      | [] => true
      | .std s :: _ => startsSafe s || (s == .underDay && endsSpace p)
      | .lit _ :: _ => false) && RT r
  | .std s :: r => supported s && okAfter s r && RT r

/-- The field a token sets in the parser state. -/
def stepTok (t : TimeV) (st : PState) : Tok → PState
  | .lit _ => st
  | .std .longYear | .std .year => { st with year := t.dt.y }
  | .std .zeroMonth | .std .month | .std .longMonth => { st with month := t.dt.m }
  | .std .zeroDay | .std .underDay => { st with day := t.dt.d }
  | .std .hour => { st with hour := t.dt.hh }
  | .std .zeroMinute => { st with min := t.dt.mi }
  | .std .zeroSecond => { st with sec := t.dt.ss }
  | .std (.numTZ _) => { st with zoneOffset := t.off }
  | .std (.isoTZ _) => if t.off = 0 then { st with zUTC := true } else { st with zoneOffset := t.off }
  | .std .tz => if t.abbr = utcB then { st with zUTC := true } else { st with zoneName := t.abbr }
  | .std _ => st

structure TOK (t : TimeV) (L : List Tok) : Prop where
  valid : t.dt.valid
  ns : t.dt.ns = 0
  wd : 0 ≤ t.wd ∧ t.wd ≤ 6
  off : OffOK t.off
  y2 : .std .year ∈ L → 1969 ≤ t.dt.y ∧ t.dt.y ≤ 2068
  abbr : .std .tz ∈ L → AbbrOK t.abbr t.off

theorem daysIn_le (m y : Int) : daysIn m y ≤ 31 := by
  unfold daysIn; split
  · split <;> omega
  · split <;> omega

theorem zkOK_iff (k : ZKind) (h : zkOK k = true) : k = .hhmm ∨ k = .colon := by
  cases k <;> simp [zkOK] at h ⊢

/-- Head of what a "safe" token prints. -/
theorem startsSafe_head (s : Std) (hs : startsSafe s = true) (t : TimeV) (L : List Tok) (h : TOK t L) (hy : s = .year → .std .year ∈ L)
    (ha : s = .tz → .std .tz ∈ L) :
    ∃ c r, formatStd t s = c :: r ∧ c ≠ 32 ∧ (zoneTok s = true → commaOrPeriod c = false) := by
  obtain ⟨y0, y1, m0, m1, d0, d1, h0, h1, mi0, mi1, s0, s1, _, _⟩ := h.valid
  have d31 : t.dt.d ≤ 31 := Int.le_trans d1 (daysIn_le _ _)
  have pad2 : ∀ x : Int, 0 ≤ x → x ≤ 99 → ∃ c r, appendInt x 2 = c :: r ∧ c ≠ 32 := fun x hx0 hx1 => by
    rw [appendInt_nonneg x hx0, natPad2 _ (by omega)]
    exact ⟨_, _, rfl, dig_ne_space _ (by omega)⟩
  cases s <;> simp only [startsSafe, supported, Bool.false_eq_true] at hs
  case longYear =>
    simp only [formatStd, zoneTok, Bool.false_eq_true, false_imp_iff, and_true]
    rw [appendInt_nonneg _ y0, natPad4 _ (by omega)]
    exact ⟨_, _, rfl, dig_ne_space _ (by omega)⟩
  case year =>
    have := (h.y2 (hy rfl))
    simp only [formatStd, zoneTok, Bool.false_eq_true, false_imp_iff, and_true]
    exact pad2 _ (by split <;> omega) (by split <;> omega)
  case zeroMonth => simp only [formatStd, zoneTok, Bool.false_eq_true, false_imp_iff, and_true]; exact pad2 _ (by omega) (by omega)
  case zeroDay => simp only [formatStd, zoneTok, Bool.false_eq_true, false_imp_iff, and_true]; exact pad2 _ (by omega) (by omega)
  case hour => simp only [formatStd, zoneTok, Bool.false_eq_true, false_imp_iff, and_true]; exact pad2 _ (by omega) (by omega)
  case zeroMinute => simp only [formatStd, zoneTok, Bool.false_eq_true, false_imp_iff, and_true]; exact pad2 _ (by omega) (by omega)
  case zeroSecond => simp only [formatStd, zoneTok, Bool.false_eq_true, false_imp_iff, and_true]; exact pad2 _ (by omega) (by omega)
  case month =>
    obtain ⟨c, r, e, hc0, hc1⟩ := nameAt_month_head t.dt.m m0 m1
    simp only [formatStd, zoneTok, Bool.false_eq_true, false_imp_iff, and_true]
    exact ⟨c, r, e, by intro h; rw [h] at hc0; revert hc0; decide⟩
  case weekDay =>
    obtain ⟨c, r, e, hc0, hc1⟩ := nameAt_day_head t.wd h.wd.1 h.wd.2
    simp only [formatStd, zoneTok, Bool.false_eq_true, false_imp_iff, and_true]
    exact ⟨c, r, e, by intro h; rw [h] at hc0; revert hc0; decide⟩
  case longMonth =>
    obtain ⟨c, r, e, hc0, hc1⟩ := nameAt_longMonth_head t.dt.m m0 m1
    simp only [formatStd, zoneTok, Bool.false_eq_true, false_imp_iff, and_true]
    exact ⟨c, r, e, by intro h; rw [h] at hc0; revert hc0; decide⟩
  case longWeekDay =>
    obtain ⟨c, r, e, hc0, hc1⟩ := nameAt_longDay_head t.wd h.wd.1 h.wd.2
    simp only [formatStd, zoneTok, Bool.false_eq_true, false_imp_iff, and_true]
    exact ⟨c, r, e, by intro h; rw [h] at hc0; revert hc0; decide⟩
  case tz =>
    have hab := h.abbr (ha rfl)
    obtain ⟨c, r, e, hc⟩ := hab.head
    have hne : t.abbr ≠ [] := by rw [e]; simp
    simp only [formatStd, zoneTok, Bool.false_eq_true, false_imp_iff, and_true, hne, ne_eq, not_false_eq_true, if_true]
    exact ⟨c, r, e, hc⟩
  case numTZ k =>
    obtain ⟨c, r, e, hc⟩ := formatOffset_head k (zkOK_iff k hs) t.off h.off
    exact ⟨c, r, e, by rcases hc with hc | hc <;> subst hc <;> decide, fun _ => by rcases hc with hc | hc <;> subst hc <;> decide⟩
  case isoTZ k =>
    by_cases h0' : t.off = 0
    · exact ⟨90, [], by simp [formatStd, h0'], by decide, fun _ => by decide⟩
    · obtain ⟨c, r, e, hc⟩ := formatOffset_head k (zkOK_iff k hs) t.off h.off
      refine ⟨c, r, by simp [formatStd, h0', e], ?_, fun _ => ?_⟩ <;> rcases hc with hc | hc <;> subst hc <;> decide

theorem formatToks_cons (a : Tok) (L : List Tok) (t : TimeV) : formatToks (a :: L) t = formatTok t a ++ formatToks L t := by
  simp [formatToks]

theorem zoneTok_startsSafe (s : Std) (h : zoneTok s = true) : startsSafe s = true := by
  cases s <;> simp [zoneTok] at h <;> simp [startsSafe, supported, h]

theorem TOK.tail {t : TimeV} {a : Tok} {L : List Tok} (h : TOK t (a :: L)) : TOK t L :=
  ⟨h.valid, h.ns, h.wd, h.off, fun hm => h.y2 (List.mem_cons_of_mem _ hm), fun hm => h.abbr (List.mem_cons_of_mem _ hm)⟩

/-- The text printed for the rest of the layout does not start like a fraction. -/
theorem noFrac_rest (L : List Tok) (t : TimeV) (h : TOK t L)
    (hc : (match L with
      | [] => true
      | .lit (c :: _) :: _ => !commaOrPeriod c
      | .std s' :: _ => zoneTok s'
      | _ => false) = true) : NoFracHead (formatToks L t) := by
  match L, h, hc with
  | [], _, _ => exact Or.inl rfl
  | .lit (c :: p) :: L', _, hc =>
    simp only [Bool.not_eq_eq_eq_not, Bool.not_true] at hc
    exact Or.inr ⟨c, _, by rw [formatToks_cons]; rfl, Or.inl hc⟩
  | .std s' :: L', h, hc =>
    simp only at hc
    obtain ⟨c, r, e, _, hz⟩ := startsSafe_head s' (zoneTok_startsSafe s' hc) t _ h (fun hs => by subst hs; exact List.mem_cons_self)
      (fun hs => by subst hs; exact List.mem_cons_self)
    exact Or.inr ⟨c, r ++ formatToks L' t, by rw [formatToks_cons]; simp [formatTok, e], Or.inl (hz hc)⟩

/-- What follows a space-padded day in the text does not start with a digit. -/
theorem underDay_after (L : List Tok) (t : TimeV) (hafter : okAfter .underDay L = true) : NonDigitHead (formatToks L t) := by
  match L, hafter with
  | [], _ => exact Or.inl rfl
  | .lit (c :: p) :: L', hc =>
    simp only [okAfter, Bool.not_eq_eq_eq_not, Bool.not_true, decide_eq_false_iff_not] at hc
    exact Or.inr ⟨c, _, by rw [formatToks_cons]; rfl, hc⟩

theorem parse_format_toks_aux (L : List Tok) (t : TimeV) (h : TOK t L) (hRT : RT L = true) :
    (∀ st, parseToks L (formatToks L t) st = .ok (L.foldl (stepTok t) st))
    ∧ (∀ L', L = .std .underDay :: L' → ∀ st,
        parseToks L (appendInt t.dt.d 0 ++ formatToks L' t) st = .ok (L.foldl (stepTok t) st)) := by
  induction L with
  | nil => exact ⟨fun _ => rfl, fun L' e => by cases e⟩
  | cons a L ih =>
    obtain ⟨y0, y1, m0, m1, d0, d1, h0, h1, mi0, mi1, s0, s1, _, _⟩ := h.valid
    have d31 : t.dt.d ≤ 31 := Int.le_trans d1 (daysIn_le _ _)
    constructor
    · intro st
      rw [formatToks_cons, List.foldl_cons]
      cases a with
      | lit p =>
        simp only [RT, Bool.and_eq_true] at hRT
        have ih' := ih h.tail hRT.2
        have ht := h.tail
        match L, ht, hRT.1, ih' with
        | [], _, _, ih' =>
          have hrest : formatToks ([] : List Tok) t = [] ∨ ∃ c r, formatToks ([] : List Tok) t = c :: r ∧ c ≠ 32 := Or.inl rfl
          simp only [formatTok, parseToks, skip_lit p _ hrest, stepTok]
          exact ih'.1 st
        | .std s :: L', ht, hs, ih' =>
          simp only [Bool.or_eq_true, Bool.and_eq_true, beq_iff_eq] at hs
          by_cases hsafe : startsSafe s = true
          · obtain ⟨c, r, e, hc, _⟩ := startsSafe_head s hsafe t _ ht (fun hs => by subst hs; exact List.mem_cons_self)
              (fun hs => by subst hs; exact List.mem_cons_self)
            have hrest : formatToks (.std s :: L') t = [] ∨ ∃ c r, formatToks (.std s :: L') t = c :: r ∧ c ≠ 32 :=
              Or.inr ⟨c, r ++ formatToks L' t, by rw [formatToks_cons]; simp [formatTok, e], hc⟩
            simp only [formatTok, parseToks, skip_lit p _ hrest, stepTok]
            exact ih'.1 st
          · obtain ⟨hs1, hs2⟩ := hs.resolve_left hsafe
            subst hs1
            by_cases h10 : t.dt.d < 10
            · -- the padding space is swallowed with the literal
              have hn : t.dt.d.toNat < 10 := by omega
              have hfmt : formatToks (.std .underDay :: L') t = 32 :: (appendInt t.dt.d 0 ++ formatToks L' t) := by
                rw [formatToks_cons]; simp [formatTok, format_underDay, h10]
              have hr : (appendInt t.dt.d 0 ++ formatToks L' t) = [] ∨
                  ∃ c r', (appendInt t.dt.d 0 ++ formatToks L' t) = c :: r' ∧ c ≠ 32 := by
                rw [appendInt_nonneg _ (by omega)]
                unfold natPad
                rw [natDigits_lt _ hn]
                exact Or.inr ⟨dig t.dt.d.toNat, formatToks L' t, rfl, dig_ne_space _ hn⟩
              simp only [formatTok, parseToks, hfmt, skip_lit_sp p _ hs2 hr, stepTok]
              exact ih'.2 L' rfl st
            · have hn : 10 ≤ t.dt.d.toNat := by omega
              have hrest : formatToks (.std .underDay :: L') t = [] ∨ ∃ c r, formatToks (.std .underDay :: L') t = c :: r ∧ c ≠ 32 := by
                rw [formatToks_cons]
                simp only [formatTok, format_underDay, h10, if_false, List.nil_append]
                rw [appendInt_nonneg _ (by omega)]
                unfold natPad
                rw [natDigits_ge _ hn, natDigits_lt (t.dt.d.toNat / 10) (by omega)]
                exact Or.inr ⟨dig (t.dt.d.toNat / 10), _, rfl, dig_ne_space _ (by omega)⟩
              simp only [formatTok, parseToks, skip_lit p _ hrest, stepTok]
              exact ih'.1 st
      | std s =>
        simp only [RT, Bool.and_eq_true] at hRT
        obtain ⟨⟨hsup, hafter⟩, hRTL⟩ := hRT
        have key : parseStd s (nextStd L) (formatStd t s ++ formatToks L t) st = .ok (formatToks L t, stepTok t st (.std s)) := by
          cases s <;> simp only [supported, Bool.false_eq_true] at hsup
          case longYear => exact parse_longYear _ y0 y1 _ _ _
          case year =>
            have := h.y2 List.mem_cons_self
            exact parse_year _ this.1 this.2 _ _ _
          case zeroMonth => exact parse_zeroMonth _ m0 m1 _ _ _
          case month => exact parse_month _ m0 m1 _ _ _
          case zeroDay => exact parse_zeroDay _ d0 d31 _ _ _
          case underDay =>
            refine parse_underDay t d0 d31 _ _ _ ?_
            match L, hafter with
            | [], _ => exact Or.inl rfl
            | .lit (c :: p) :: L', hc =>
              simp only [okAfter, Bool.not_eq_eq_eq_not, Bool.not_true, decide_eq_false_iff_not] at hc
              exact Or.inr ⟨c, _, by rw [formatToks_cons]; rfl, hc⟩
          case hour => exact parse_hour _ h0 h1 _ _ _
          case zeroMinute => exact parse_pad2_min _ mi0 mi1 _ _ _
          case zeroSecond =>
            refine parse_zeroSecond _ s0 s1 _ _ _ ?_
            have ht := h.tail
            match L, ht, hafter with
            | [], _, _ => exact Or.inl (Or.inl rfl)
            | .lit (c :: p) :: L', ht, hc =>
              exact Or.inl (noFrac_rest _ t ht (by simpa [okAfter] using hc))
            | .std (.frac9 n sep) :: L', _, _ => exact Or.inr rfl
            | .std (.numTZ k) :: L', ht, hc => exact Or.inl (noFrac_rest _ t ht (by simpa [okAfter, zoneTok] using hc))
            | .std (.isoTZ k) :: L', ht, hc => exact Or.inl (noFrac_rest _ t ht (by simpa [okAfter, zoneTok] using hc))
          case weekDay => exact parse_weekDay _ h.wd.1 h.wd.2 _ _ _
          case longMonth => exact parse_longMonth _ m0 m1 _ _ _
          case longWeekDay => exact parse_longWeekDay _ h.wd.1 h.wd.2 _ _ _
          case tz =>
            refine parse_tz t (h.abbr List.mem_cons_self) _ _ _ ?_
            match L, hafter with
            | [], _ => exact Or.inl rfl
            | .lit (c :: p) :: L', hc =>
              simp only [okAfter, beq_iff_eq] at hc
              subst hc
              exact Or.inr ⟨p ++ formatToks L' t, by rw [formatToks_cons]; rfl⟩
          case frac9 n sep =>
            refine parse_frac9 n sep t h.ns _ _ _ ?_
            have ht := h.tail
            match L, ht, hafter with
            | [], _, _ => exact Or.inl rfl
            | .lit (c :: p) :: L', ht, hc => exact noFrac_rest _ t ht (by simpa [okAfter] using hc)
            | .std s' :: L', ht, hc => exact noFrac_rest _ t ht (by simpa [okAfter] using hc)
          case numTZ k => exact parse_numTZ k (zkOK_iff k hsup) t h.off _ _ _
          case isoTZ k => exact parse_isoTZ k (zkOK_iff k hsup) t h.off _ _ _
        simp only [formatTok, parseToks, key]
        exact (ih h.tail hRTL).1 _
    · intro L' e st
      cases e
      simp only [RT, Bool.and_eq_true] at hRT
      obtain ⟨⟨hsup, hafter⟩, hRTL⟩ := hRT
      have key := parse_underDay_ns t.dt.d d0 d31 (nextStd L) (formatToks L t) st (underDay_after L t hafter)
      simp only [List.foldl_cons, parseToks, key]
      exact (ih h.tail hRTL).1 _

theorem parse_format_toks (L : List Tok) (t : TimeV) (h : TOK t L) (hRT : RT L = true) (st : PState) :
    parseToks L (formatToks L t) st = .ok (L.foldl (stepTok t) st) :=
  (parse_format_toks_aux L t h hRT).1 st

/-! ## the parser state after the whole layout -/

theorem carries_cons_lit (b : Bytes) (L : List Tok) : carries (.lit b :: L) = carries L := rfl
theorem carries_cons_std (s : Std) (L : List Tok) : carries (.std s :: L) = stdLetter s :: carries L := rfl

theorem fold_fields (t : TimeV) (L : List Tok) (hs : ∀ x ∈ L, ∀ s, x = .std s → supported s = true) (st : PState) :
    let r := L.foldl (stepTok t) st
    r.year = (if (carries L).contains 'Y' || (carries L).contains 'y' then t.dt.y else st.year)
    ∧ r.month = (if (carries L).contains 'M' then t.dt.m else st.month)
    ∧ r.day = (if (carries L).contains 'D' then t.dt.d else st.day)
    ∧ r.hour = (if (carries L).contains 'h' then t.dt.hh else st.hour)
    ∧ r.min = (if (carries L).contains 'm' then t.dt.mi else st.min)
    ∧ r.sec = (if (carries L).contains 's' then t.dt.ss else st.sec)
    ∧ r.nsec = st.nsec ∧ r.pmSet = st.pmSet ∧ r.amSet = st.amSet := by
  induction L generalizing st with
  | nil => simp [carries]
  | cons a L ih =>
    have ih' := ih (fun x hx => hs x (List.mem_cons_of_mem _ hx)) (stepTok t st a)
    simp only [List.foldl_cons]
    cases a with
    | lit b => simpa [carries_cons_lit, stepTok] using ih'
    | std s =>
      have hsup := hs (.std s) List.mem_cons_self s rfl
      cases s <;> simp only [supported, Bool.false_eq_true] at hsup <;>
        simp only [carries_cons_std, stdLetter, List.contains_cons] at ih' ⊢ <;>
        (try (by_cases h0 : t.off = 0 <;> simp only [stepTok, h0, if_true, if_false] at ih')) <;>
        (try (by_cases hu : t.abbr = utcB <;> simp only [stepTok, hu, if_true, if_false] at ih')) <;>
        simp_all [stepTok]

theorem stepTok_zoneName (t : TimeV) (st : PState) (a : Tok) :
    (stepTok t st a).zoneName = (if a = .std .tz ∧ t.abbr ≠ utcB then t.abbr else st.zoneName) := by
  cases a with
  | lit b => simp [stepTok]
  | std s => cases s <;> simp only [stepTok] <;> (try split) <;> simp_all

theorem carries_a_cons (a : Tok) (L : List Tok) :
    (carries (a :: L)).contains 'a' = (decide (a = .std .tz) || (carries L).contains 'a') := by
  cases a with
  | lit b => simp [carries_cons_lit]
  | std s => cases s <;> simp [carries_cons_std, stdLetter]

/-- The zone name in the state: the abbreviation, once a `MST` token was seen and unless it is `UTC`. -/
theorem fold_zoneName (t : TimeV) (L : List Tok) (st : PState) :
    (L.foldl (stepTok t) st).zoneName =
      (if (carries L).contains 'a' = true ∧ t.abbr ≠ utcB then t.abbr else st.zoneName) := by
  induction L generalizing st with
  | nil => simp [carries]
  | cons a L ih =>
    simp only [List.foldl_cons]
    rw [ih, stepTok_zoneName, carries_a_cons]
    by_cases hu : t.abbr = utcB
    · simp [hu]
    · by_cases ha : 'a' ∈ carries L
      · simp [ha, hu]
      · by_cases hz : a = .std .tz <;> simp [ha, hu, hz]

/-- The zone part of the state: consistent with `t.off`, and set once a zone token was seen. -/
theorem fold_zone (t : TimeV) (hoff : t.off ≠ -1) (L : List Tok) (habbr : .std .tz ∈ L → t.abbr = utcB → t.off = 0) (st : PState)
    (hz : (st.zUTC = true → t.off = 0) ∧ (st.zoneOffset = -1 ∨ st.zoneOffset = t.off)) :
    let r := L.foldl (stepTok t) st
    ((r.zUTC = true → t.off = 0) ∧ (r.zoneOffset = -1 ∨ r.zoneOffset = t.off))
    ∧ ((st.zUTC = true ∨ st.zoneOffset = t.off ∨ (carries L).contains 'z') → (r.zUTC = true ∨ r.zoneOffset = t.off)) := by
  induction L generalizing st with
  | nil => simpa [carries] using hz
  | cons a L ih =>
    simp only [List.foldl_cons]
    cases a with
    | lit b => simpa [carries_cons_lit, stepTok] using ih (fun hm => habbr (List.mem_cons_of_mem _ hm)) st hz
    | std s =>
      have step_inv : ((stepTok t st (.std s)).zUTC = true → t.off = 0) ∧
          ((stepTok t st (.std s)).zoneOffset = -1 ∨ (stepTok t st (.std s)).zoneOffset = t.off) := by
        cases s <;> (try exact hz) <;> (try (simp only [stepTok]; exact hz))
        · simp only [stepTok]; split
          · exact ⟨fun _ => habbr List.mem_cons_self ‹_›, hz.2⟩
          · exact hz
        · simp only [stepTok]; split <;> simp_all
        · simp only [stepTok]; exact ⟨hz.1, by simp⟩
      have ih' := ih (fun hm => habbr (List.mem_cons_of_mem _ hm)) _ step_inv
      refine ⟨ih'.1, fun hw => ih'.2 ?_⟩
      simp only [carries_cons_std, List.contains_cons] at hw
      cases s <;> simp only [stdLetter, stepTok] at hw ⊢ <;>
        (try (rcases hw with hw | hw | hw <;> simp_all; done)) <;>
        (try (split <;> simp_all; done)) <;> simp_all

theorem RT_supported (L : List Tok) (h : RT L = true) : ∀ x ∈ L, ∀ s, x = .std s → supported s = true := by
  induction L with
  | nil => intro x hx; cases hx
  | cons a L ih =>
    intro x hx s hs
    cases a with
    | lit b =>
      simp only [RT, Bool.and_eq_true] at h
      rcases List.mem_cons.mp hx with e | e
      · subst e; cases hs
      · exact ih h.2 x e s hs
    | std s' =>
      simp only [RT, Bool.and_eq_true] at h
      rcases List.mem_cons.mp hx with e | e
      · subst e; cases hs; exact h.1.1
      · exact ih h.2 x e s hs

/-- `time.ParseInLocation(layout, value, loc)` up to the zone, on tokens. -/
def parseTokens (L : List Tok) (value : Bytes) : Except String Parsed :=
  match parseToks L value {} with
  | .ok st => finish st
  | .error e => .error e

theorem parseLayout_eq (layout value : Bytes) : parseLayout layout value = parseTokens (tokenize layout) value := rfl

theorem roundtrip_core (L : List Tok) (hRT : RT L = true) (hI : holdsInstant L = true) (t : TimeV) (h : TOK t L) :
    ∃ p, parseTokens L (formatToks L t) = .ok p ∧ p.dt = truncTo (precOf L) t.dt ∧
      ∀ lo la, instantOf p lo la = some (wallSeconds (truncTo (precOf L) t.dt) - t.off) := by
  obtain ⟨y0, y1, m0, m1, d0, d1, h0, h1, mi0, mi1, s0, s1, _, _⟩ := h.valid
  have hoff : t.off ≠ -1 := by have := h.off.1; omega
  have hp := parse_format_toks L t h hRT {}
  obtain ⟨fy, fm, fd, fh, fmi, fs, fns, fpm, fam⟩ := fold_fields t L (RT_supported L hRT) {}
  obtain ⟨⟨fz1, fz2⟩, fz3⟩ := fold_zone t hoff L (fun hm hu => ((h.abbr hm).utc (by rw [hu]; rfl)).2) {} ⟨by simp, Or.inl rfl⟩
  simp only [holdsInstant, Bool.and_eq_true] at hI
  obtain ⟨⟨⟨⟨⟨cY, cM⟩, cD⟩, ch⟩, cm⟩, cz⟩ := hI
  simp only [cY, cM, cD, ch, cm, if_true] at fy fm fd fh fmi
  have fz := fz3 (Or.inr (Or.inr cz))
  generalize L.foldl (stepTok t) {} = r at *
  have hfin : finish r = .ok ⟨⟨t.dt.y, t.dt.m, t.dt.d, t.dt.hh, t.dt.mi, r.sec, 0⟩,
      if r.zUTC then ZoneSrc.utc else .offset t.off⟩ := by
    unfold finish
    have e1 : ¬ (t.dt.m < 0) := by omega
    have e2 : ¬ (t.dt.d < 0) := by omega
    have e3 : ¬ (t.dt.d < 1 ∨ t.dt.d > daysIn t.dt.m t.dt.y) := by omega
    simp only [fpm, fam, fy, fm, fd, fh, fmi, fns, e1, e2, e3, if_false, Bool.false_and, Bool.false_eq_true]
    congr 2
    by_cases hu : r.zUTC = true
    · simp [hu]
    · have ho : r.zoneOffset = t.off := by rcases fz with h | h; exact absurd h hu; exact h
      simp [hu, ho, hoff]
  refine ⟨⟨⟨t.dt.y, t.dt.m, t.dt.d, t.dt.hh, t.dt.mi, r.sec, 0⟩, if r.zUTC then ZoneSrc.utc else .offset t.off⟩,
    by simp only [parseTokens, hp, hfin], ?_, ?_⟩
  · simp only [precOf, cY, cM, cD, ch, cm, Bool.not_true, Bool.false_eq_true, if_false]
    by_cases cs : (carries L).contains 's' = true
    · simp only [cs, if_true] at fs
      by_cases cf : (carries L).contains 'f' = true
      · simp only [cs, cf, Bool.not_true, Bool.false_eq_true, if_false, truncTo, fs]
        have := h.ns
        cases hdt : t.dt
        simp_all
      · simp only [cs, cf, Bool.not_true, Bool.not_false, Bool.false_eq_true, if_false, if_true, truncTo, fs]
    · simp only [cs, if_false] at fs
      simp only [cs, Bool.not_false, if_true, truncTo, fs]
      rfl
  · intro lo la
    have hw : wallSeconds ⟨t.dt.y, t.dt.m, t.dt.d, t.dt.hh, t.dt.mi, r.sec, 0⟩ = wallSeconds (truncTo (precOf L) t.dt) := by
      simp only [precOf, cY, cM, cD, ch, cm, Bool.not_true, Bool.false_eq_true, if_false]
      by_cases cs : (carries L).contains 's' = true
      · simp only [cs, if_true] at fs
        by_cases cf : (carries L).contains 'f' = true
        · simp only [cs, cf, Bool.not_true, Bool.false_eq_true, if_false, truncTo, fs, wallSeconds]
        · simp only [cs, cf, Bool.not_true, Bool.not_false, Bool.false_eq_true, if_false, if_true, truncTo, fs, wallSeconds]
      · simp only [cs, if_false] at fs
        simp only [cs, Bool.not_false, if_true, truncTo, fs, wallSeconds]
        rfl
    by_cases hu : r.zUTC = true
    · have := fz1 hu
      simp only [instantOf, hu, if_true, hw, this]
      congr 1; omega
    · simp only [instantOf, hu, Bool.false_eq_true, if_false, hw]

/-! ## layouts that do not hold a full instant: the fields they carry come back, the others take their defaults -/

theorem stepTok_nozone (t : TimeV) (st : PState) (a : Tok) (h : ∀ s, a = .std s → stdLetter s ≠ 'z') :
    (stepTok t st a).zoneOffset = st.zoneOffset
    ∧ (stepTok t st a).zUTC = (st.zUTC || (decide (a = .std .tz) && decide (t.abbr = utcB))) := by
  cases a with
  | lit b => simp [stepTok]
  | std s =>
    have hs := h s rfl
    cases s <;> simp only [stdLetter, ne_eq, not_true_eq_false] at hs <;> simp only [stepTok] <;> (try split) <;> simp_all

theorem carries_z_cons (a : Tok) (L : List Tok) (h : (carries (a :: L)).contains 'z' = false) :
    (∀ s, a = .std s → stdLetter s ≠ 'z') ∧ (carries L).contains 'z' = false := by
  cases a with
  | lit b => exact ⟨fun s hs => (by cases hs), (by simpa [carries_cons_lit] using h)⟩
  | std s =>
    simp only [carries_cons_std, List.contains_cons, Bool.or_eq_false_iff] at h
    refine ⟨fun s' hs' => ?_, h.2⟩
    cases hs'
    intro e; rw [e] at h; simp at h

/-- Without a numeric zone token the offset stays unset; `Z`/`UTC` is recorded exactly when the
abbreviation `UTC` was printed. -/
theorem fold_nozone (t : TimeV) (L : List Tok) (st : PState) (hz : (carries L).contains 'z' = false) :
    (L.foldl (stepTok t) st).zoneOffset = st.zoneOffset
    ∧ (L.foldl (stepTok t) st).zUTC = (st.zUTC || ((carries L).contains 'a' && decide (t.abbr = utcB))) := by
  induction L generalizing st with
  | nil => simp [carries]
  | cons a L ih =>
    obtain ⟨h1, h2⟩ := carries_z_cons a L hz
    obtain ⟨s1, s2⟩ := stepTok_nozone t st a h1
    obtain ⟨i1, i2⟩ := ih (stepTok t st a) h2
    simp only [List.foldl_cons]
    refine ⟨by rw [i1, s1], ?_⟩
    rw [i2, s2, carries_a_cons]
    cases st.zUTC <;> cases decide (a = .std .tz) <;> cases (carries L).contains 'a' <;> cases decide (t.abbr = utcB) <;> rfl

/-- The fields a layout carries, the others at the parser's defaults (year 0, 1 January, 00:00:00). -/
def projectDT (c : List Char) (d : DateTime) : DateTime :=
  ⟨if c.contains 'Y' || c.contains 'y' then d.y else 0, if c.contains 'M' then d.m else 1, if c.contains 'D' then d.d else 1,
   if c.contains 'h' then d.hh else 0, if c.contains 'm' then d.mi else 0, if c.contains 's' then d.ss else 0, 0⟩

theorem daysIn_ge (m y : Int) : 28 ≤ daysIn m y := by
  unfold daysIn; split
  · split <;> omega
  · split <;> omega

theorem daysIn_jan (y : Int) : daysIn 1 y = 31 := by
  unfold daysIn; simp

theorem daysIn_le_year0 (m y : Int) : daysIn m y ≤ daysIn m 0 := by
  have h0 : isLeap 0 = true := by decide
  unfold daysIn
  split
  · split <;> omega
  · exact Int.le_refl _

/-- The day-of-month check at the end of `parse` passes for the projection of a valid date. -/
theorem project_day_ok (c : List Char) (d : DateTime) (hv : d.valid) :
    ¬ ((projectDT c d).d < 1 ∨ (projectDT c d).d > daysIn (projectDT c d).m (projectDT c d).y) := by
  obtain ⟨y0, y1, m0, m1, d0, d1, _⟩ := hv
  have d31 : d.d ≤ 31 := Int.le_trans d1 (daysIn_le _ _)
  simp only [projectDT]
  by_cases cD : c.contains 'D' = true
  · by_cases cM : c.contains 'M' = true
    · by_cases cY : (c.contains 'Y' || c.contains 'y') = true
      · simp only [cD, cM, cY, if_true]; omega
      · have := daysIn_le_year0 d.m d.y
        simp only [cD, cM, cY, if_true, if_false, Bool.false_eq_true]; omega
    · simp only [cD, cM, if_true, if_false, Bool.false_eq_true, daysIn_jan]; omega
  · have := daysIn_ge (if c.contains 'M' = true then d.m else 1) (if (c.contains 'Y' || c.contains 'y') = true then d.y else 0)
    simp only [cD, if_false, Bool.false_eq_true]; omega

theorem roundtrip_fields (L : List Tok) (hRT : RT L = true) (t : TimeV) (h : TOK t L) :
    ∃ p, parseTokens L (formatToks L t) = .ok p ∧ p.dt = projectDT (carries L) t.dt
      ∧ ((carries L).contains 'z' = true → ∀ lo la, instantOf p lo la = some (wallSeconds p.dt - t.off))
      ∧ ((carries L).contains 'z' = false → (carries L).contains 'a' = true →
          instantOf p t.off t.abbr = some (wallSeconds p.dt - t.off))
      ∧ ((carries L).contains 'z' = false → (carries L).contains 'a' = false → p.zone = .default) := by
  obtain ⟨y0, y1, m0, m1, d0, d1, h0, h1, mi0, mi1, s0, s1, _, _⟩ := h.valid
  have hoff : t.off ≠ -1 := by have := h.off.1; omega
  have habbr : .std .tz ∈ L → t.abbr = utcB → t.off = 0 := fun hm hu => ((h.abbr hm).utc (by rw [hu]; rfl)).2
  have hp := parse_format_toks L t h hRT {}
  obtain ⟨fy, fm, fd, fh, fmi, fs, fns, fpm, fam⟩ := fold_fields t L (RT_supported L hRT) {}
  have fzn := fold_zoneName t L {}
  obtain ⟨⟨fz1, fz2⟩, fz3⟩ := fold_zone t hoff L habbr {} ⟨by simp, Or.inl rfl⟩
  have fnz := fold_nozone t L {}
  have hdayok := project_day_ok (carries L) t.dt h.valid
  generalize L.foldl (stepTok t) {} = r at *
  have hm : (if r.month < 0 then 1 else r.month) = (projectDT (carries L) t.dt).m := by
    simp only [projectDT, fm]; split <;> split <;> omega
  have hd : (if r.day < 0 then 1 else r.day) = (projectDT (carries L) t.dt).d := by
    simp only [projectDT, fd]; split <;> split <;> omega
  have hy : r.year = (projectDT (carries L) t.dt).y := by simp only [projectDT, fy]
  have hfin : finish r = .ok ⟨projectDT (carries L) t.dt,
      if r.zUTC then ZoneSrc.utc else if r.zoneOffset ≠ -1 then .offset r.zoneOffset
        else if r.zoneName ≠ [] then .name r.zoneName else .default⟩ := by
    unfold finish
    simp only [fpm, fam, Bool.false_and, Bool.false_eq_true, if_false, hm, hd, hy, hdayok]
    congr 2
    simp only [projectDT, fh, fmi, fs, fns]
  refine ⟨_, (by simp only [parseTokens, hp]; exact hfin), rfl, ?_, ?_, ?_⟩
  · intro cz lo la
    have fz := fz3 (Or.inr (Or.inr cz))
    by_cases hu : r.zUTC = true
    · have := fz1 hu
      simp only [instantOf, hu, if_true, this]
      congr 1; omega
    · have ho : r.zoneOffset = t.off := by rcases fz with h' | h'; exact absurd h' hu; exact h'
      simp only [instantOf, hu, Bool.false_eq_true, if_false, ho, ne_eq, hoff, not_false_eq_true, if_true]
  · intro cz ca
    obtain ⟨n1, n2⟩ := fnz cz
    have hmem : .std .tz ∈ L := by
      have : 'a' ∈ carries L := by simpa using ca
      simp only [carries, List.mem_filterMap] at this
      obtain ⟨x, hx, hx2⟩ := this
      cases x with
      | lit b => simp at hx2
      | std s =>
        simp only [Option.some.injEq] at hx2
        cases s <;> simp only [stdLetter] at hx2 <;> first | exact hx | (exact absurd hx2 (by decide))
    have ca' : 'a' ∈ carries L := by simpa using ca
    by_cases hu : t.abbr = utcB
    · have hz : r.zUTC = true := by rw [n2]; simp [ca', hu]
      have := habbr hmem hu
      simp only [instantOf, hz, if_true, this]
      congr 1; omega
    · have hz : r.zUTC = false := by rw [n2]; simp [hu]
      have hzn : r.zoneName = t.abbr := by rw [fzn]; simp [ca', hu]
      have hne : t.abbr ≠ [] := by
        intro e; have := (h.abbr hmem).len; rw [e] at this; simp at this
      have h1 : r.zoneOffset = -1 := by rw [n1]
      simp only [instantOf, hz, Bool.false_eq_true, if_false, h1, ne_eq, not_true_eq_false, hzn, hne, not_false_eq_true, if_true]
  · intro cz ca
    obtain ⟨n1, n2⟩ := fnz cz
    have ca' : ¬ 'a' ∈ carries L := by simpa using ca
    have hz : r.zUTC = false := by rw [n2]; simp [ca']
    have h1 : r.zoneOffset = -1 := by rw [n1]
    have hzn : r.zoneName = [] := by rw [fzn]; simp [ca']
    simp only [hz, Bool.false_eq_true, if_false, h1, ne_eq, not_true_eq_false, hzn]

end Rare.C18
