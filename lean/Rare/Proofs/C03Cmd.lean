import Rare.Proofs.C03Det
import Rare.Proofs.C03Run
import Rare.Proofs.C07Sorted
import Rare.Proofs.C07Table
import Rare.Model.C03Cmd
/-! Helper lemmas for the command-function theorems of C03 (`Model/C03Cmd.lean`): the sorters a `--sort` name can
denote without hidden state are strict total orders on rows with distinct names; the rows the histogram shows, the
footers, the CSV and the exit status are functions of the aggregator's observable state. -/
namespace Rare.C03
open Rare.C07 Rare.C13

/-- `ValueSorterEx(ByName)`: ascending by value, ties by name -/
def nvValueAscLess (a b : NV) : Bool := (valueSorterEx (pureCmp byName) () a b).1

theorem nvValueAscLess_eq (a b : NV) :
    nvValueAscLess a b = if a.value = b.value then bytesLt a.name b.name else decide (a.value < b.value) := by
  simp only [nvValueAscLess, valueSorterEx, pureCmp, byName]
  by_cases h : a.value = b.value
  · simp [h]
  · have : (a.value == b.value) = false := by simpa using h
    simp [this, if_neg h]

theorem nvValueAscLess_order (items : List NV) (hnd : (items.map (·.name)).Nodup) : OrderOn (· ∈ items) nvValueAscLess := by
  refine ⟨?_, ?_, ?_⟩
  · intro a b _ _ _ hab
    rw [nvValueAscLess_eq] at hab ⊢
    by_cases h : a.value = b.value
    · rw [if_pos h] at hab; rw [if_pos h.symm]; exact bytesLt_asymm hab
    · rw [if_neg h] at hab; rw [if_neg (Ne.symm h)]
      simp only [decide_eq_true_eq] at hab
      simp only [decide_eq_false_iff_not]; omega
  · intro a b ha hb hne
    rw [nvValueAscLess_eq, nvValueAscLess_eq]
    by_cases h : a.value = b.value
    · rw [if_pos h, if_pos h.symm]
      exact bytesLt_strictTotal.total a.name b.name trivial trivial (name_inj hnd ha hb hne)
    · rw [if_neg h, if_neg (Ne.symm h)]
      simp only [decide_eq_true_eq]; omega
  · intro a b c _ _ _ _ _ _ hab hbc
    rw [nvValueAscLess_eq] at hab hbc ⊢
    by_cases h1 : a.value = b.value <;> by_cases h2 : b.value = c.value
    · rw [if_pos h1] at hab; rw [if_pos h2] at hbc; rw [if_pos (h1.trans h2)]
      exact bytesLt_strictTotal.trans a.name b.name c.name trivial trivial trivial hab hbc
    · rw [if_neg h2] at hbc
      have : ¬ a.value = c.value := by omega
      rw [if_neg this]; simp only [decide_eq_true_eq] at hbc ⊢; omega
    · rw [if_neg h1] at hab
      have : ¬ a.value = c.value := by omega
      rw [if_neg this]; simp only [decide_eq_true_eq] at hab ⊢; omega
    · rw [if_neg h1] at hab; rw [if_neg h2] at hbc
      simp only [decide_eq_true_eq] at hab hbc
      have : ¬ a.value = c.value := by omega
      rw [if_neg this]; simp only [decide_eq_true_eq]; omega

/-- `ValueNilSorter(ByNameSmart)`: numbers by magnitude ahead of text (`--sort numeric`) -/
def nvSmartLess (a b : NV) : Bool := (valueNilSorter (pureCmp byNameSmartF) () a b).1

theorem nvSmartLess_order (hs : StrictTotalOn (fun _ => True) byNameSmartF) (items : List NV)
    (hnd : (items.map (·.name)).Nodup) : OrderOn (· ∈ items) nvSmartLess := by
  refine ⟨?_, ?_, ?_⟩
  · intro a b _ _ _ hab
    show byNameSmartF b.name a.name = false
    have hab' : byNameSmartF a.name b.name = true := hab
    cases hba : byNameSmartF b.name a.name with
    | false => rfl
    | true =>
      have := hs.trans a.name b.name a.name trivial trivial trivial hab' hba
      rw [hs.irrefl a.name trivial] at this
      cases this
  · intro a b ha hb hne
    exact hs.total a.name b.name trivial trivial (name_inj hnd ha hb hne)
  · intro a b c _ _ _ _ _ _ hab hbc
    exact hs.trans a.name b.name c.name trivial trivial trivial hab hbc

/-- what `pureSortLess` answers, case by case -/
theorem pureSortLess_cases (fullName : Bytes) (less : NV → NV → Bool) (h : pureSortLess fullName = some less) :
    less = nvNameLess ∨ less = revLess nvNameLess ∨ less = nvValueAscLess ∨ less = revLess nvValueAscLess ∨
    less = nvSmartLess ∨ less = revLess nvSmartLess := by
  unfold pureSortLess at h
  split at h
  · cases h
  · rename_i name rev _
    split at h
    · cases rev
      · left; simp only [Bool.false_eq_true, if_false, Option.some.injEq] at h; exact h.symm
      · right; left; simp only [if_true, Option.some.injEq] at h; exact h.symm
    · cases rev
      · right; right; left; simp only [Bool.false_eq_true, if_false, Option.some.injEq] at h; exact h.symm
      · right; right; right; left; simp only [if_true, Option.some.injEq] at h; exact h.symm
    · cases rev
      · right; right; right; right; left; simp only [Bool.false_eq_true, if_false, Option.some.injEq] at h; exact h.symm
      · right; right; right; right; right; simp only [if_true, Option.some.injEq] at h; exact h.symm
    · cases h

/-- Every sorter a `text` / `value` / `numeric` name (any spelling, any modifier) denotes is a strict total order on rows
with distinct names: the hypothesis of `sorted_rows_eq`.  `hs` is C13's `numeric_real_strict_total`. -/
theorem pureSortLess_order (hs : StrictTotalOn (fun _ => True) byNameSmartF) (fullName : Bytes) (less : NV → NV → Bool)
    (h : pureSortLess fullName = some less)
    (items : List NV) (hnd : (items.map (·.name)).Nodup) : OrderOn (· ∈ items) less := by
  rcases pureSortLess_cases fullName less h with rfl | rfl | rfl | rfl | rfl | rfl
  · exact nvNameLess_order items hnd
  · exact (nvNameLess_order items hnd).rev
  · exact nvValueAscLess_order items hnd
  · exact (nvValueAscLess_order items hnd).rev
  · exact nvSmartLess_order hs items hnd
  · exact (nvSmartLess_order hs items hnd).rev

/-- two association lists with duplicate-free keys and the same key set have the same number of entries (`len(map)`) -/
theorem length_eq_of_same_keys {α β : Type} (m₁ : List (Bytes × α)) (m₂ : List (Bytes × β)) (h₁ : (akeys m₁).Nodup)
    (h₂ : (akeys m₂).Nodup) (hk : ∀ k, (aget m₁ k).isSome = (aget m₂ k).isSome) : m₁.length = m₂.length := by
  have r₁ : IsRangeOf (akeys m₁) m₁ := ⟨h₁, fun k => mem_akeys_iff _ _⟩
  have r₂ : IsRangeOf (akeys m₂) m₂ := ⟨h₂, fun k => mem_akeys_iff _ _⟩
  have := (range_perm r₁ r₂ hk).length_eq
  simpa [akeys] using this

/-- The rows `writeHistoOutput` puts on the screen: one answer for every contract-abiding `sort.Sort`, every map
iteration order and every counter with the same look-ups. -/
theorem histoShown_det (alg : List NV → Algo NV (List NV)) (hc : SortContract alg) (less : NV → NV → Bool)
    (hless : ∀ items : List NV, (items.map (·.name)).Nodup → OrderOn (· ∈ items) less)
    (c₁ c₂ : Counter) (hobs : ∀ k, aget c₁.items k = aget c₂.items k)
    (o₁ o₂ : List Bytes) (r₁ : IsRangeOf o₁ c₁.items) (r₂ : IsRangeOf o₂ c₂.items) (count : Nat) (atLeast : Int) :
    histoShown (sortOf alg) less o₂ c₂ count atLeast = histoShown isortFn less o₁ c₁ count atLeast := by
  have hp : o₂.Perm o₁ := range_perm r₂ r₁ (fun k => by rw [hobs])
  have e := sorted_rows_eq alg hc less hless o₁ o₂ (fun k => (aget c₁.items k).getD 0)
    (fun k => (aget c₂.items k).getD 0) r₁.1 hp (fun k _ => by rw [hobs])
  simp only [histoShown, e, isortFn]

/-- `histoFunction`'s complete result is a function of the counter's observable state and the extractor counters. -/
theorem histoCmd_det (alg : List NV → Algo NV (List NV)) (hc : SortContract alg) (less : NV → NV → Bool)
    (hless : ∀ items : List NV, (items.map (·.name)).Nodup → OrderOn (· ∈ items) less)
    (c₁ c₂ : Counter) (hobs : ∀ k, aget c₁.items k = aget c₂.items k) (herr : c₁.errors = c₂.errors)
    (hn₁ : (akeys c₁.items).Nodup) (hn₂ : (akeys c₂.items).Nodup)
    (o₁ o₂ : List Bytes) (r₁ : IsRangeOf o₁ c₁.items) (r₂ : IsRangeOf o₂ c₂.items)
    (num : Nat) (atLeast : Int) (all : Bool) (k : Counters) (readErrors : Int) :
    histoCmd (sortOf alg) less o₂ num atLeast all c₂ k readErrors = histoCmd isortFn less o₁ num atLeast all c₁ k readErrors := by
  have hlen : c₁.items.length = c₂.items.length :=
    length_eq_of_same_keys _ _ hn₁ hn₂ (fun k => by rw [hobs])
  have hs := fun n => histoShown_det alg hc less hless c₁ c₂ hobs o₁ o₂ r₁ r₂ n atLeast
  have hp : o₂.Perm o₁ := range_perm r₂ r₁ (fun k => by rw [hobs])
  have e2 := sorted_rows_eq alg hc nvValueLess nvValueLess_order o₁ o₂ (fun k => (aget c₁.items k).getD 0)
    (fun k => (aget c₂.items k).getD 0) r₁.1 hp (fun k _ => by rw [hobs])
  have hcsv : counterCsvRows (sortOf alg) o₂ c₂ = counterCsvRows isortFn o₁ c₁ := by
    simp only [counterCsvRows, counterRows, e2, isortFn]
  simp only [histoCmd, hs, hcsv, herr, hlen]

/-- `tabulateFunction` / `heatmapFunction`: the same for the table aggregator. -/
theorem tableCmd_det (alg : List NV → Algo NV (List NV)) (hc : SortContract alg)
    (t₁ t₂ : Table) (hcols : ∀ c, aget t₁.cols c = aget t₂.cols c)
    (hrows : ∀ r, (aget t₁.rows r).isSome = (aget t₂.rows r).isSome)
    (hcells : ∀ r row1 row2, aget t₁.rows r = some row1 → aget t₂.rows r = some row2 →
      row1.name = row2.name ∧ row1.sum = row2.sum ∧ ∀ c, aget row1.cols c = aget row2.cols c)
    (herr : t₁.errors = t₂.errors)
    (hnr₁ : (akeys t₁.rows).Nodup) (hnr₂ : (akeys t₂.rows).Nodup) (hnc₁ : (akeys t₁.cols).Nodup) (hnc₂ : (akeys t₂.cols).Nodup)
    (hcsv : tableCsvRows (sortOf alg) co₂ ro₂ t₂ = tableCsvRows isortFn co₁ ro₁ t₁)
    (k : Counters) (readErrors : Int) :
    tableCmd (sortOf alg) co₂ ro₂ t₂ k readErrors = tableCmd isortFn co₁ ro₁ t₁ k readErrors := by
  have hr : t₁.rows.length = t₂.rows.length := length_eq_of_same_keys _ _ hnr₁ hnr₂ hrows
  have hcl : t₁.cols.length = t₂.cols.length := length_eq_of_same_keys _ _ hnc₁ hnc₂ (fun c => by rw [hcols])
  have _ := hcells
  have _ := hc
  simp only [tableCmd, hcsv, herr, hr, hcl]

end Rare.C03
