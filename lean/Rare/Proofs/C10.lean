import Rare.Proofs.ExprCore
import Rare.Model.C10
/-! Optimised and unoptimised compilation produce the same stage (C10). -/
namespace Rare.Expr

/-- One unfolding of the rune loop for a rune that is not a backslash. -/
theorem compileLoop_cons {fuel : Nat} {reg : Registry} {opt : Bool} {all : List Char} {r : Char} {rest : List Char}
    {i : Nat} {st : CompSt} (hr : ¬ r = '\\') :
    compileLoop fuel reg opt all (r :: rest) i st =
      if r = '{' then
        if st.inStatement = 0 then
          compileLoop fuel reg opt all rest (i + 1)
            { st with stages := (if st.sb.isEmpty then st.stages else st.stages ++ [Stage.lit (charsToBytes st.sb)]),
                      sb := (if st.sb.isEmpty then st.sb else []), startStatement := i, inStatement := 1 }
        else
          compileLoop fuel reg opt all rest (i + 1) { st with sb := st.sb ++ [r], inStatement := st.inStatement + 1 }
      else if r = '}' && st.inStatement > 0 then
        if st.inStatement = 1 then
          match closeStatement fuel reg opt all i st with
          | .error m => .error m
          | .ok st' => compileLoop fuel reg opt all rest (i + 1) { st' with sb := [], inStatement := 0 }
        else
          compileLoop fuel reg opt all rest (i + 1) { st with sb := st.sb ++ [r], inStatement := st.inStatement - 1 }
      else compileLoop fuel reg opt all rest (i + 1) { st with sb := st.sb ++ [r] } := by
  cases rest <;> simp only [compileLoop, hr, if_false] <;> (repeat' split) <;> simp_all [compileLoop]

def M1 (reg : Registry) (fuel : Nat) (all rs : List Char) (i : Nat) (st : CompSt) : Prop :=
  ∀ st', compileLoop fuel reg true all rs i st = .ok st' → compileLoop fuel reg false all rs i st = .ok st'
def M2 (reg : Registry) (fuel : Nat) (all : List Char) (i : Nat) (st : CompSt) : Prop :=
  ∀ st', closeStatement fuel reg true all i st = .ok st' → closeStatement fuel reg false all i st = .ok st'
def M3 (reg : Registry) (fuel : Nat) (as : List (List Char)) : Prop :=
  ∀ r, compileArgs fuel reg true as = .ok r → compileArgs fuel reg false as = .ok r
def M4 (reg : Registry) (fuel : Nat) (t : List Char) : Prop :=
  ∀ s e, compileF fuel reg true t = .ok (s, e) →
    ∃ s', compileF fuel reg false t = .ok (s', e) ∧ concatStages s' = concatStages s

theorem opt_mutual (reg : Registry) :
    (∀ fuel all rs i st, M1 reg fuel all rs i st) ∧ (∀ fuel all i st, M2 reg fuel all i st) ∧
    (∀ fuel as, M3 reg fuel as) ∧ (∀ fuel t, M4 reg fuel t) := by
  apply compileLoop.mutual_induct reg true (M1 reg) (M2 reg) (M3 reg) (M4 reg)
  -- compileLoop
  · intro fuel all x st st' h; simpa [compileLoop] using h
  · intro fuel all i st st' h; simpa [compileLoop] using h
  · intro fuel all i st e rest' ih st' h
    simp only [compileLoop, if_true] at h ⊢
    exact ih _ h
  · intro fuel all rest i st h0 stages sb hne ih st' h
    rw [compileLoop_cons hne] at h ⊢
    simp only [if_false, if_true, h0] at h ⊢
    exact ih _ h
  · intro fuel all rest i st h0 hne ih st' h
    rw [compileLoop_cons hne] at h ⊢
    simp only [if_false, if_true, h0] at h ⊢
    exact ih _ h
  · intro fuel all r rest i st h1 h2 h3 h4 m hcl ih2 st' h
    rw [compileLoop_cons h1, if_neg h2, if_pos h3, if_pos h4, hcl] at h
    cases h
  · intro fuel all r rest i st h1 h2 h3 h4 st'' hcl ih2 ih1 st' h
    rw [compileLoop_cons h1, if_neg h2, if_pos h3, if_pos h4] at h ⊢
    rw [hcl] at h; rw [ih2 _ hcl]
    exact ih1 _ h
  · intro fuel all r rest i st h1 h2 h3 h4 ih st' h
    rw [compileLoop_cons h1, if_neg h2, if_pos h3, if_neg h4] at h ⊢
    exact ih _ h
  · intro fuel all r rest i st h1 h2 h3 ih st' h
    rw [compileLoop_cons h1, if_neg h2, if_neg h3] at h ⊢
    exact ih _ h
  -- closeStatement
  · intro fuel all i st args hargs st' h
    simp only [closeStatement] at h ⊢
    rw [show splitArgs st.sb = [] from hargs] at h ⊢
    exact h
  · intro fuel all i st args a hargs st' h
    simp only [closeStatement] at h ⊢
    rw [show splitArgs st.sb = [a] from hargs] at h ⊢
    exact h
  · intro fuel all i st args name fargs hne hargs hreg st' h
    simp only [closeStatement] at h ⊢
    rw [show splitArgs st.sb = name :: fargs from hargs] at h ⊢
    cases fargs with
    | nil => exact absurd rfl hne
    | cons b r => simp only [hreg] at h ⊢; exact h
  · intro fuel all i st args name fargs hne hargs f hreg m hca ih3 st' h
    simp only [closeStatement] at h
    rw [show splitArgs st.sb = name :: fargs from hargs] at h
    cases fargs with
    | nil => exact absurd rfl hne
    | cons b r => simp only [hreg, hca] at h; cases h
  · intro fuel all i st args name fargs hne hargs f hreg cargs aerrs hca m hf ih3 st' h
    simp only [closeStatement] at h
    rw [show splitArgs st.sb = name :: fargs from hargs] at h
    cases fargs with
    | nil => exact absurd rfl hne
    | cons b r => simp only [hreg, hca, hf] at h; cases h
  · intro fuel all i st args name fargs hne hargs f hreg cargs aerrs hca b hf ih3 st' h
    have hca' := ih3 _ hca
    simp only [closeStatement] at h ⊢
    rw [show splitArgs st.sb = name :: fargs from hargs] at h ⊢
    cases fargs with
    | nil => exact absurd rfl hne
    | cons b' r => simp only [hreg, hca, hca', hf] at h ⊢; exact h
  -- compileArgs
  · intro fuel r h; simpa [compileArgs] using h
  · intro fuel a rest m hcf ih4 r h
    simp only [compileArgs, hcf] at h; cases h
  · intro fuel a rest cargs aerrs hcf m hca ih4 ih3 r h
    simp only [compileArgs, hcf, hca] at h; cases h
  · intro fuel a rest cargs aerrs hcf cargs' aerrs' hca ih4 ih3 r h
    obtain ⟨s', hs', hcs⟩ := ih4 _ _ hcf
    have := ih3 _ hca
    simp only [compileArgs, hcf, hca, hs', this] at h ⊢
    simp only [joinStages_eq] at h ⊢
    rw [hcs]; exact h
  -- compileF
  · intro t s e h; simp [compileF] at h
  · intro t fuel m hl ih1 s e h
    simp only [compileF, hl] at h; cases h
  · intro t fuel st' hl stages _ m ho ih1 s e h
    simp only [compileF, hl, if_true] at h
    rw [show optimize (if st'.sb.isEmpty = true then st'.stages else st'.stages ++ [Stage.lit (charsToBytes st'.sb)])
        = .error m from ho] at h
    cases h
  · intro t fuel st' hl stages _ s0 ho ih1 s e h
    have hl' := ih1 _ hl
    simp only [compileF, hl, if_true] at h
    rw [show optimize (if st'.sb.isEmpty = true then st'.stages else st'.stages ++ [Stage.lit (charsToBytes st'.sb)])
        = .ok s0 from ho] at h
    simp only [Except.ok.injEq, Prod.mk.injEq] at h
    obtain ⟨rfl, rfl⟩ := h
    refine ⟨_, by simp only [compileF, hl']; rfl, ?_⟩
    exact (optimize_sound _ _ ho).symm
  · intro t fuel st' hl hne; exact absurd rfl hne

/-- **Optimisation never changes a value.**  If compiling a template with static optimisation
    succeeds, compiling it without succeeds too, reports the same errors, and the two compiled
    expressions are the same stage – hence evaluate identically in every context. -/
theorem compile_opt_sound (reg : Registry) (t : List Char) (s : List Stage) (e : List CErr)
    (h : compile reg true t = .ok (s, e)) :
    ∃ s', compile reg false t = .ok (s', e) ∧ buildKey s' = buildKey s :=
  (opt_mutual reg).2.2.2 _ t s e h

end Rare.Expr

namespace Rare.C10
open Rare.Expr

theorem run_bind {α β : Type} (c : Comp α) (f : α → Comp β) (ctx : Ctx) :
    (c.bind f).run ctx = match c.run ctx with
      | .ok a => (f a).run ctx
      | .error m => .error m := by
  induction c with
  | ret a => rfl
  | getMatch i k ih => simp only [Comp.bind, Comp.run]; exact ih _
  | getKey s k ih => simp only [Comp.bind, Comp.run]; exact ih _
  | panic m => rfl

theorem withArgs_run {α : Type} (args : List Stage) (ctx : Ctx) (vals : List Bytes)
    (hargs : args.map (·.run ctx) = vals.map .ok) (c : Comp α) :
    (withArgs args c).run ctx = c.run (argCtx ctx args.length vals) := by
  induction c with
  | ret a => rfl
  | getKey s k ih => simp only [withArgs, Comp.run, argCtx]; exact ih _
  | panic m => rfl
  | getMatch i k ih =>
    simp only [withArgs]
    split
    · rename_i h
      simp only [Comp.run, argCtx, h, if_true]
      exact ih _
    split
    · rename_i h0 h
      simp only [Comp.run, argCtx, h0, h, if_true, if_false]
      exact ih _
    · rename_i h0 h
      have hlt : i.toNat < args.length := by omega
      have hlen : vals.length = args.length := by
        have := congrArg List.length hargs; simpa using this.symm
      have hget : (args.getD i.toNat (.ret [])).run ctx = .ok (vals.getD i.toNat []) := by
        have h1 := congrArg (fun l => l[i.toNat]?) hargs
        simp only [List.getElem?_map] at h1
        rw [List.getD_eq_getElem?_getD, List.getD_eq_getElem?_getD]
        rw [List.getElem?_eq_getElem hlt] at h1 ⊢
        rw [List.getElem?_eq_getElem (by omega)] at h1 ⊢
        simpa using h1
      rw [run_bind, hget]
      simp only [Comp.run, argCtx, h0, h, if_false]
      exact ih _

/-! ### the definitions-file joiner -/

def clean (l : Bytes) : Bytes := trimSpaceGo (trimAfterHash l)

/-- Specification of the joiner on already cleaned, non-blank lines: a line ending in `\` continues
    into the next one (the backslash dropped, nothing inserted). -/
def groupCont : List Bytes → Bytes → List Bytes
  | [], sb => if sb.isEmpty then [] else [sb]
  | l :: rest, sb =>
    if l.getLast? = some 92 then groupCont rest (sb ++ l.dropLast) else (sb ++ l) :: groupCont rest []

theorem joinPhrases_eq_groupCont (lines : List Bytes) : ∀ sb,
    joinPhrases lines sb = groupCont ((lines.map clean).filter (fun l => !l.isEmpty)) sb := by
  induction lines with
  | nil => intro sb; rfl
  | cons l rest ih =>
    intro sb
    simp only [joinPhrases, List.map_cons, List.filter_cons, clean]
    by_cases he : (trimSpaceGo (trimAfterHash l)).isEmpty = true
    · simp only [he, if_true, Bool.not_true, Bool.false_eq_true, if_false]; exact ih sb
    · simp only [he, Bool.false_eq_true, if_false, Bool.not_false, if_true, groupCont]
      split
      · exact ih _
      · rw [ih]

end Rare.C10
