import Rare.Model.AggLoopTrace
import Rare.Proofs.AggLoop
import Rare.Proofs.TraceOrder
/-!
The named, executable transition function `AggLoop.apply` is exactly the transition relation
`AggLoop.Step`; a successful replay of logged events is a labelled path, hence a path of `Step`.
-/
namespace Rare.AggLoop

variable {κ : Type}

theorem apply_sound {s s' : St κ} {l : Label} (h : apply s l = some s') : Step s s' := by
  cases l with
  | arrive =>
    simp only [apply] at h
    split at h
    · rename_i b rest hf
      simp only [Option.some.injEq] at h; subst h
      exact .arrive s b rest hf
    · simp at h
  | close =>
    simp only [apply] at h
    split at h
    · rename_i hf
      split at h
      · rename_i hc
        simp only [Option.some.injEq] at h; subst h
        exact .close s hf hc
      · simp at h
    · simp at h
  | recv =>
    simp only [apply] at h
    split at h
    · rename_i b rest hm hrc
      simp only [Option.some.injEq] at h; subst h
      exact .recv s b rest hm hrc
    · simp at h
  | mlock =>
    simp only [apply] at h
    split at h
    · rename_i b hm hmu
      simp only [Option.some.injEq] at h; subst h
      exact .mlock s b hm hmu
    · simp at h
  | sample =>
    simp only [apply] at h
    split at h
    · rename_i x xs hm
      simp only [Option.some.injEq] at h; subst h
      exact .sample s x xs hm
    · simp at h
  | munlock =>
    simp only [apply] at h
    split at h
    · rename_i hm
      simp only [Option.some.injEq] at h; subst h
      exact .munlock s hm
    · simp at h
  | eof =>
    simp only [apply] at h
    split at h
    · rename_i hm hrc
      split at h
      · rename_i hc
        simp only [Option.some.injEq] at h; subst h
        exact .eof s hm hrc hc
      · simp at h
    · simp at h
  | handshake =>
    simp only [apply] at h
    split at h
    · rename_i hm ht
      simp only [Option.some.injEq] at h; subst h
      exact .handshake s hm ht
    · simp at h
  | final =>
    simp only [apply] at h
    split at h
    · rename_i hm
      simp only [Option.some.injEq] at h; subst h
      exact .final s hm
    · simp at h
  | fire =>
    simp only [apply] at h
    split at h
    · rename_i ht
      simp only [Option.some.injEq] at h; subst h
      exact .fire s ht
    · simp at h
  | tlock =>
    simp only [apply] at h
    split at h
    · rename_i ht hmu
      simp only [Option.some.injEq] at h; subst h
      exact .tlock s ht hmu
    · simp at h
  | tunlock =>
    simp only [apply] at h
    split at h
    · rename_i ht
      simp only [Option.some.injEq] at h; subst h
      exact .tunlock s ht
    · simp at h

/-- Every transition of the relation has a name. -/
theorem apply_complete {s s' : St κ} (h : Step s s') : ∃ l, apply s l = some s' := by
  cases h with
  | arrive b rest hf => exact ⟨.arrive, by simp [apply, hf]⟩
  | close hf hc => exact ⟨.close, by simp [apply, hf, hc]⟩
  | recv b rest hm hrc => exact ⟨.recv, by simp [apply, hm, hrc]⟩
  | mlock b hm hmu => exact ⟨.mlock, by simp [apply, hm, hmu]⟩
  | sample x xs hm => exact ⟨.sample, by simp [apply, hm]⟩
  | munlock hm => exact ⟨.munlock, by simp [apply, hm]⟩
  | eof hm hrc hc => exact ⟨.eof, by simp [apply, hm, hrc, hc]⟩
  | handshake hm ht => exact ⟨.handshake, by simp [apply, hm, ht]⟩
  | final hm => exact ⟨.final, by simp [apply, hm]⟩
  | fire ht => exact ⟨.fire, by simp [apply, ht]⟩
  | tlock ht hmu => exact ⟨.tlock, by simp [apply, ht, hmu]⟩
  | tunlock ht => exact ⟨.tunlock, by simp [apply, ht]⟩

theorem applyAll_lpath : ∀ (ls : List Label) (s s' : St κ), applyAll s ls = some s' → LPath s ls s'
  | [], s, s', h => by
    simp only [applyAll, Option.some.injEq] at h; subst h; exact .nil s
  | l :: ls, s, s', h => by
    simp only [applyAll] at h
    cases ha : apply s l with
    | none => rw [ha] at h; simp at h
    | some s1 =>
      rw [ha] at h
      simp only [Option.bind_some] at h
      exact .cons ha (applyAll_lpath ls s1 s' h)

theorem LPath.append {s s' s'' : St κ} {l1 l2 : List Label}
    (h1 : LPath s l1 s') (h2 : LPath s' l2 s'') : LPath s (l1 ++ l2) s'' := by
  induction h1 with
  | nil s => exact h2
  | cons ha _ ih => exact .cons ha (ih h2)

theorem LPath.reach {s0 s s' : St κ} {ls : List Label}
    (h : LPath s ls s') (hr : Reach s0 s) : Reach s0 s' := by
  induction h with
  | nil s => exact hr
  | cons ha _ ih => exact ih (.step hr (apply_sound ha))

end Rare.AggLoop

namespace Rare.AggLoopTrace
open Rare.AggLoop Rare.TraceOrder

/-- The labelled path a sequence of logged events stands for. -/
inductive EvPath : ASt → List Ev → List Label → ASt → Prop
  | nil (as) : EvPath as [] [] as
  | cons {as as1 as' e es ls ls'} : evLabels as e = some ls → LPath as.lts ls as1.lts →
      EvPath as1 es ls' as' → EvPath as (e :: es) (ls ++ ls') as'

theorem astep_sound {as as' : ASt} {e : Ev} (h : astep as e = some as') :
    ∃ ls, evLabels as e = some ls ∧ LPath as.lts ls as'.lts := by
  unfold astep at h
  split at h
  · simp at h
  · rename_i ls hl
    split at h
    · simp at h
    · rename_i s' ha
      simp only [Option.some.injEq] at h
      subst h
      exact ⟨ls, hl, applyAll_lpath ls _ _ ha⟩

theorem replay_evpath : ∀ (evs : List Ev) (as as' : ASt),
    replay machine as evs = some as' → ∃ labels, EvPath as evs labels as'
  | [], as, as', h => by
    simp only [replay, Option.some.injEq] at h; subst h; exact ⟨[], .nil as⟩
  | e :: es, as, as', h => by
    simp only [replay] at h
    cases hs : machine.step as e with
    | none => rw [hs] at h; simp at h
    | some as1 =>
      rw [hs] at h
      simp only [Option.bind_some] at h
      obtain ⟨ls, hl, hp⟩ := astep_sound hs
      obtain ⟨ls', hr⟩ := replay_evpath es as1 as' h
      exact ⟨ls ++ ls', .cons hl hp hr⟩

theorem EvPath.lpath {as as' : ASt} {evs : List Ev} {labels : List Label}
    (h : EvPath as evs labels as') : LPath as.lts labels as'.lts := by
  induction h with
  | nil as => exact .nil _
  | cons _ hp _ ih => exact hp.append ih

end Rare.AggLoopTrace
