import Rare.Model.C13Lower
import Rare.Proofs.C13Model
/-! A repair of F19 that was examined and rejected (round 4c): `sorting.Sort` / `sorting.SortBy` show every element
to the sorter, compared with itself (`less(x, x)`), before `sort.Sort` runs ("survey").  The sorters are plain Go
funcs handed through generic `Sort[TElem, TSort ~func(a, b TElem) bool]` (pinned by the repo's tests), so calling the
func is the only way to tell a closure about the key set.  The definitions below model that patch on top of the
closures of `Model/C13.lean`; `Props/C13.lean` states what it repairs and what it does not. -/
namespace Rare.C13

/-- `for i := range arr { less(arr[i], arr[i]) }` – the captured variables afterwards -/
def survey {α σ : Type} (cmp : SCmp α σ) (s : σ) (l : List α) : σ :=
  l.foldl (fun s x => (cmp s x x).2) s

/-- the patched `Sort`: survey, then `sort.Sort` (insertion sort for `n ≤ 12`) -/
def surveyedSort {α σ : Type} (cmp : SCmp α σ) (s : σ) (l : List α) : List α :=
  (goInsertionSort cmp (survey cmp s l) l).1

/-- A survey never hurts: where the closure answers a pure order whatever happened before, it still does after
having been shown any of these keys. -/
theorem Faithful.after_survey {α σ : Type} {cmp : SCmp α σ} {init : σ} {P : α → Prop} {less : α → α → Bool}
    (h : Faithful cmp init P less) (l : List α) (hl : ∀ x ∈ l, P x) :
    Faithful cmp (survey cmp init l) P less := by
  obtain ⟨Inv, h0, hstep⟩ := h
  refine ⟨Inv, ?_, hstep⟩
  have : ∀ (l : List α) (s : σ), Inv s → (∀ x ∈ l, P x) → Inv (survey cmp s l) := by
    intro l
    induction l with
    | nil => intro s hs _; exact hs
    | cons x xs ih =>
      intro s hs hp
      have hx := hp x (List.mem_cons_self ..)
      exact ih _ (hstep s x x hs hx hx).2 (fun y hy => hp y (List.mem_cons_of_mem _ hy))
  exact this l init h0 hl

/-- Library behaviour at the nested witness `{2022-01-01, mon, fri}` (recorded from the real `dateparse`/`time`):
only `2022-01-01` has a layout.  `ParseFloat`/`ToLower` are the models. -/
def nestedWitness : Oracle := realOracle {
  dfmt := fun k => if k = asc "2022-01-01" then some 0 else none
  dparse := fun _ k => if k = asc "2022-01-01" then some 1640995200000000000 else none }

end Rare.C13
