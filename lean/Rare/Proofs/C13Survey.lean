import Rare.Model.C13Lower
import Rare.Proofs.C13Model
import Rare.Proofs.C13Main
/-! A repair of F19 that was examined and rejected (round 4c): `sorting.Sort` / `sorting.SortBy` show every element
to the sorter, compared with itself (`less(x, x)`), before `sort.Sort` runs ("survey").  The sorters are plain Go
funcs handed through generic `Sort[TElem, TSort ~func(a, b TElem) bool]` (pinned by the repo's tests), so calling the
func is the only way to tell a closure about the key set.  The definitions below model that patch on top of the
closures of `Model/C13.lean`; `Props/C13.lean` states what it repairs and what it does not. -/
namespace Rare.C13

/-- `for i := range arr { less(arr[i], arr[i]) }` – the captured variables afterwards -/
def survey {α σ : Type} (cmp : SCmp α σ) (s : σ) (l : List α) : σ :=
  l.foldl (fun s x => (cmp s x x).2) s

/-- the patched `Sort`: survey, then `sort.Sort` (insertion sort for `n ≤ 12`) -/
def surveyedSort {α σ : Type} (cmp : SCmp α σ) (s : σ) (l : List α) : List α :=
  (goInsertionSort cmp (survey cmp s l) l).1

/-- A survey never hurts: where the closure answers a pure order whatever happened before, it still does after
having been shown any of these keys. -/
theorem Faithful.after_survey {α σ : Type} {cmp : SCmp α σ} {init : σ} {P : α → Prop} {less : α → α → Bool}
    (h : Faithful cmp init P less) (l : List α) (hl : ∀ x ∈ l, P x) :
    Faithful cmp (survey cmp init l) P less := by
  obtain ⟨Inv, h0, hstep⟩ := h
  refine ⟨Inv, ?_, hstep⟩
  have : ∀ (l : List α) (s : σ), Inv s → (∀ x ∈ l, P x) → Inv (survey cmp s l) := by
    intro l
    induction l with
    | nil => intro s hs _; exact hs
    | cons x xs ih =>
      intro s hs hp
      have hx := hp x (List.mem_cons_self ..)
      exact ih _ (hstep s x x hs hx hx).2 (fun y hy => hp y (List.mem_cons_of_mem _ hy))
  exact this l init h0 hl

/-- Library behaviour at the nested witness `{2022-01-01, mon, fri}` (recorded from the real `dateparse`/`time`):
only `2022-01-01` has a layout.  `ParseFloat`/`ToLower` are the models. -/
def nestedWitness : Oracle := realOracle {
  dfmt := fun k => if k = asc "2022-01-01" then some 0 else none
  dparse := fun _ k => if k = asc "2022-01-01" then some 1640995200000000000 else none }

/-! ### what the survey WOULD repair: `contextual` on every key set -/

def TablesDisjoint (lower : Key → Key) (sets : List SortSet) : Prop :=
  ∀ k (s1 s2 : SortSet), s1 ∈ sets → s2 ∈ sets → (s1.get (lower k)).isSome = true → (s2.get (lower k)).isSome = true → s1 = s2

theorem infer_of_mem {lower : Key → Key} {sets : List SortSet} (hd : TablesDisjoint lower sets) {T : SortSet} (hT : T ∈ sets)
    {k : Key} (hk : (T.get (lower k)).isSome = true) : inferSortSetByValue sets lower k = some T := by
  unfold inferSortSetByValue
  cases h : sets.find? (fun set => (set.get (lower k)).isSome) with
  | none =>
    rw [List.find?_eq_none] at h
    exact absurd hk (by simpa using h T hT)
  | some T' =>
    have h1 := List.mem_of_find?_eq_some h
    have h2 := List.find?_some h
    rw [hd k T' T h1 hT h2 hk]

theorem ctx_fallback_step (o : Oracle) (sets : List SortSet) (s : CtxState × Unit) (h : s.1.fallback = true) (a b : Key) :
    byContextual o sets s a b = (byNameSmart o.num a b, s) := by
  obtain ⟨⟨set, fb⟩, u⟩ := s
  simp only at h
  subst h
  simp [byContextual, byContextualEx, pureCmp]

theorem survey_fallback_sticky (o : Oracle) (sets : List SortSet) : ∀ (l : List Key) (s : CtxState × Unit),
    s.1.fallback = true → survey (byContextual o sets) s l = s
  | [], _, _ => rfl
  | x :: xs, s, h => by
    simp only [survey, List.foldl_cons]
    rw [ctx_fallback_step o sets s h]
    exact survey_fallback_sticky o sets xs s h

theorem ctx_faithful_fallback (o : Oracle) (sets : List SortSet) (s : CtxState × Unit) (h : s.1.fallback = true) (P : Key → Prop) :
    Faithful (byContextual o sets) s P (byNameSmart o.num) :=
  ⟨fun t => t.1.fallback = true, h, fun t a b ht _ _ => by rw [ctx_fallback_step o sets t ht]; exact ⟨rfl, ht⟩⟩

/-- one look at `x` from `set = T`, not fallen back -/
theorem ctx_look_set (o : Oracle) (sets : List SortSet) (T : SortSet) (x : Key) :
    (byContextual o sets ({ set := some T, fallback := false }, ()) x x).2 =
      if (T.get (o.lower x)).isSome then ({ set := some T, fallback := false }, ()) else ({ set := some T, fallback := true }, ()) := by
  cases h : T.get (o.lower x) with
  | none => simp [byContextual, byContextualEx, pureCmp, h]
  | some v => simp [byContextual, byContextualEx, h]

theorem survey_from_set (o : Oracle) (sets : List SortSet) (hd : TablesDisjoint o.lower sets) (T : SortSet) (hT : T ∈ sets) :
    ∀ l : List Key, (survey (byContextual o sets) ({ set := some T, fallback := false }, ()) l).1.fallback = true
      ∨ ∀ x ∈ l, inferSortSetByValue sets o.lower x = some T
  | [] => Or.inr (fun _ h => absurd h (by simp))
  | x :: xs => by
    simp only [survey, List.foldl_cons]
    rw [ctx_look_set]
    cases h : (T.get (o.lower x)).isSome with
    | false =>
      simp only [Bool.false_eq_true, if_false]
      left
      have := survey_fallback_sticky o sets xs ({ set := some T, fallback := true }, ()) rfl
      simp only [survey] at this
      rw [this]
    | true =>
      simp only [if_true]
      rcases survey_from_set o sets hd T hT xs with h' | h'
      · exact Or.inl h'
      · right
        intro y hy
        rcases List.mem_cons.mp hy with rfl | hy
        · exact infer_of_mem hd hT h
        · exact h' y hy

theorem ctx_look_fresh (o : Oracle) (sets : List SortSet) (x : Key) :
    (byContextual o sets ({}, ()) x x).2 =
      match inferSortSetByValue sets o.lower x with
      | some T => ({ set := some T, fallback := false }, ())
      | none => ({ set := none, fallback := true }, ()) := by
  cases h : inferSortSetByValue sets o.lower x with
  | none => simp [byContextual, byContextualEx, pureCmp, h]
  | some T =>
    have := infer_some_get h
    obtain ⟨v, hv⟩ := Option.isSome_iff_exists.mp this
    simp [byContextual, byContextualEx, h, hv]

theorem survey_fresh (o : Oracle) (sets : List SortSet) (hd : TablesDisjoint o.lower sets) (x : Key) (xs : List Key) :
    (survey (byContextual o sets) ({}, ()) (x :: xs)).1.fallback = true
      ∨ ∃ T, ∀ y ∈ x :: xs, inferSortSetByValue sets o.lower y = some T := by
  simp only [survey, List.foldl_cons]
  rw [ctx_look_fresh]
  cases h : inferSortSetByValue sets o.lower x with
  | none =>
    left
    have := survey_fallback_sticky o sets xs ({ set := none, fallback := true }, ()) rfl
    simp only [survey] at this
    simp only [this]
  | some T =>
    have hT : T ∈ sets := List.mem_of_find?_eq_some h
    rcases survey_from_set o sets hd T hT xs with h' | h'
    · exact Or.inl h'
    · right
      refine ⟨T, fun y hy => ?_⟩
      rcases List.mem_cons.mp hy with rfl | hy
      · exact h
      · exact h' y hy

theorem ctxUniform_of_all {o : Oracle} {sets : List SortSet} {keys : List Key} {r : Option SortSet}
    (h : ∀ k ∈ keys, inferSortSetByValue sets o.lower k = r) : ctxUniform o sets keys = true := by
  cases keys with
  | nil => rfl
  | cons k0 rest =>
    simp only [ctxUniform, List.all_eq_true]
    intro k hk
    rw [h k hk, h k0 (List.mem_cons_self ..)]
    exact beq_self_eq_true _

theorem contextualSpec_nonuniform (o : Oracle) (sets : List SortSet) (hd : TablesDisjoint o.lower sets) (keys : List Key)
    (hu : ctxUniform o sets keys = false) : contextualSpec o sets keys = numericSpec o := by
  unfold contextualSpec contextualSpecLess
  rw [tablesOf_find]
  cases h : sets.find? (fun set => keys.all (fun k => (set.get (o.lower k)).isSome)) with
  | none => rfl
  | some T =>
    exfalso
    have hT := List.mem_of_find?_eq_some h
    have hall := List.find?_some h
    rw [List.all_eq_true] at hall
    have : ctxUniform o sets keys = true := ctxUniform_of_all (r := some T) (fun k hk => infer_of_mem hd hT (hall k hk))
    rw [this] at hu
    exact absurd hu (by decide)

/-- with the survey step the `contextual` closure is set-level on EVERY key set -/
theorem survey_ctx_faithful (o : Oracle) (sets : List SortSet) (hd : TablesDisjoint o.lower sets) (keys arrival : List Key)
    (hp : arrival.Perm keys) :
    Faithful (byContextual o sets) (survey (byContextual o sets) ({}, ()) arrival) (· ∈ keys) (contextualSpec o sets keys) := by
  cases hu : ctxUniform o sets keys with
  | true => exact (ctx_faithful o sets keys hu).after_survey arrival (fun x hx => hp.mem_iff.mp hx)
  | false =>
    rw [contextualSpec_nonuniform o sets hd keys hu]
    have hfb : (survey (byContextual o sets) ({}, ()) arrival).1.fallback = true := by
      cases arrival with
      | nil =>
        have : keys = [] := hp.symm.eq_nil
        subst this
        simp [ctxUniform] at hu
      | cons x xs =>
        rcases survey_fresh o sets hd x xs with h | ⟨T, h⟩
        · exact h
        · have : ctxUniform o sets keys = true :=
            ctxUniform_of_all (r := some T) (fun k hk => h k (hp.mem_iff.mpr hk))
          rw [this] at hu
          exact absurd hu (by decide)
    exact (ctx_faithful_fallback o sets _ hfb _).congr (fun a b _ _ => byNameSmart_eq_numeric o.num a b)


theorem lookup_isSome_mem {β : Type} (v : Key) : ∀ l : List (Key × β), (l.lookup v).isSome = true → v ∈ l.map (·.1)
  | [], h => by simp at h
  | (k, x) :: rest, h => by
    rw [List.lookup_cons] at h
    cases hv : v == k with
    | true => simp [eq_of_beq hv]
    | false =>
      rw [hv] at h
      exact List.mem_cons_of_mem _ (lookup_isSome_mem v rest h)

/-- the weekday and month tables share no name (whatever `ToLower` is) -/
theorem sortSets_disjoint (lower : Key → Key) : TablesDisjoint lower sortSets := by
  intro k s1 s2 h1 h2 g1 g2
  have key : ∀ v : Key, (weekdays.get v).isSome = true → (months.get v).isSome = true → False := by
    intro v hw hm
    have hmem := lookup_isSome_mem v weekdays hw
    have hall : (weekdays.map (·.1)).all (fun v => (months.get v).isNone) = true := by decide
    rw [List.all_eq_true] at hall
    have := hall v hmem
    rw [Option.isNone_iff_eq_none] at this
    rw [this] at hm
    exact absurd hm (by decide)
  simp only [sortSets, List.mem_cons, List.not_mem_nil, or_false] at h1 h2
  rcases h1 with rfl | rfl <;> rcases h2 with rfl | rfl
  · rfl
  · exact (key _ g1 g2).elim
  · exact (key _ g2 g1).elim
  · rfl

end Rare.C13
