import Rare.Proofs.C14Legend
import Rare.Proofs.C14F64
/-!
# C14 – the linear legend on IEEE-754 binary64 (`ScaleKeys` with the real float operations)

`legend_linear_exact` (exact rationals) carried over to the float computation Go performs, for ranges with
`|min|, |max| ≤ 2^53` and `(max - min) * 5 ≤ 2^53` (`LinExact`; every range within `±2^49` is one): `float64(min)`, `float64(max)`, `math.Floor/Ceil` of them, the span `maxf - minf` and the
products `span * float64(i)` (`i ≤ 5`, below `2^53`) are all EXACT; the quotient by `float64(5)` and the sum with `minf`
round once each, and rounding is monotone and fixes the floats `min`, `max` – so the six raw values are non-decreasing,
the first is `min` and the last is `max`.  For `max ≤ min` (all cells equal) `remapMinMax` widens the range to `[min, min + 1]` and the
legend is exactly `min`, `min + 1` (`scaleKeys_linear_f64_deg`).
-/
namespace Rare.C14
open Rare Rare.F64

theorem truncRat_mono {p q : Rat} (h : p ≤ q) : truncRat p ≤ truncRat q := by
  unfold truncRat
  by_cases hp : p < 0
  · rw [if_pos hp]
    by_cases hq : q < 0
    · rw [if_pos hq]
      have : (-q).floor ≤ (-p).floor := Rat.floor_monotone (by grind)
      omega
    · rw [if_neg hq]
      have h1 : (0 : Int) ≤ (-p).floor := Rat.le_floor_iff.mpr (by simp; grind)
      have h2 : (0 : Int) ≤ q.floor := Rat.le_floor_iff.mpr (by simp; grind)
      omega
  · rw [if_neg hp]
    have hq : ¬ q < 0 := by grind
    rw [if_neg hq]
    exact Rat.floor_monotone h

/-- one raw legend value of the linear scale: `int64((maxf - minf) * float64(i) / float64(5) + minf)` -/
def linStepF (a b : F64) (i : Nat) : F64 := add (div (mul (sub b a) (ofInt (i : Int))) (ofInt 5)) a

/-- the class of ranges on which every operation of the linear `ScaleKeys` before the quotient is EXACT: both ends are
floats (`|·| ≤ 2^53`) and `span * 5 ≤ 2^53` (the largest product `span * float64(5)` is still an exact integer) -/
def LinExact (mn mx : Int) : Prop := -9007199254740992 ≤ mn ∧ mx ≤ 9007199254740992 ∧ (mx - mn) * 5 ≤ 9007199254740992

theorem ofInt_some {n : Int} (h : n.natAbs ≤ P53) : (ofInt n).toRat? = some (n : Rat) :=
  toRat?_eq_some.mpr (isFinite_ofInt n h)

theorem floor_ofInt {n : Int} (h : n.natAbs ≤ P53) : (floor (ofInt n)).toRat? = some (n : Rat) := by
  obtain ⟨f, v⟩ := isFinite_ofInt n h
  rw [floor_spec f, v, Rat.floor_intCast]

theorem ceil_ofInt {n : Int} (h : n.natAbs ≤ P53) : (ceil (ofInt n)).toRat? = some (n : Rat) := by
  obtain ⟨f, v⟩ := isFinite_ofInt n h
  rw [ceil_spec f, v, Rat.ceil_intCast]

section
variable {a b : F64} {mn mx : Int}

/-- the quotient step: finite, between 0 and the span, exact at both ends, monotone in `i` -/
theorem linQuot_props (ha : a.toRat? = some (mn : Rat)) (hb : b.toRat? = some (mx : Rat)) (hx : LinExact mn mx)
    (hlt : mn < mx) (i : Nat) (hi : i ≤ 5) :
    (div (mul (sub b a) (ofInt (i : Int))) (ofInt 5)).isFinite = true ∧
    ∃ s, div (mul (sub b a) (ofInt (i : Int))) (ofInt 5) = ofRatS s ((((mx - mn) * (i : Int) : Int) : Rat) / 5) := by
  unfold LinExact at hx
  have hd := sub_exact_int hb ha (by omega)
  have hi' := ofInt_some (n := (i : Int)) (by omega)
  have hbnd : ((mx - mn) * (i : Int)).natAbs ≤ P53 := by
    have h1 : 0 ≤ (mx - mn) * (i : Int) := Int.mul_nonneg (by omega) (by omega)
    have h2 : (mx - mn) * (i : Int) ≤ (mx - mn) * 5 := Int.mul_le_mul_of_nonneg_left (by omega) (by omega)
    omega
  have hp := mul_exact_int hd hi' hbnd
  obtain ⟨fp, vp⟩ := toRat?_eq_some.mp hp
  obtain ⟨f5, v5⟩ := isFinite_ofInt 5 (by decide)
  have hz : (ofInt 5).mag ≠ 0 := by decide +kernel
  have e := div_finite fp f5 hz
  rw [vp, v5] at e
  have e5 : ((5 : Int) : Rat) = 5 := rfl
  rw [e5] at e
  refine ⟨?_, _, e⟩
  rw [e]
  have h0 : (0 : Rat) ≤ (((mx - mn) * (i : Int) : Int) : Rat) / 5 := by
    have : (0 : Rat) ≤ (((mx - mn) * (i : Int) : Int) : Rat) := by
      have : (0 : Int) ≤ (mx - mn) * (i : Int) := Int.mul_nonneg (by omega) (by omega)
      exact_mod_cast this
    rw [Rat.div_def]; exact Rat.mul_nonneg this (by decide +kernel)
  have h1 : (((mx - mn) * (i : Int) : Int) : Rat) / 5 ≤ ((P53 : Int) : Rat) := by
    rw [rat_div_le_iff (by decide +kernel)]
    have h3 : (mx - mn) * (i : Int) ≤ (P53 : Int) * 5 := by
      have h2 : (mx - mn) * (i : Int) ≤ (mx - mn) * 5 := Int.mul_le_mul_of_nonneg_left (by omega) (by omega)
      omega
    have h4 : (((mx - mn) * (i : Int) : Int) : Rat) ≤ (((P53 : Int) * 5 : Int) : Rat) := (Rat.intCast_le_intCast).mpr h3
    have e6 : (((P53 : Int) * 5 : Int) : Rat) = ((P53 : Int) : Rat) * 5 := Rat.intCast_mul _ _
    rw [e6] at h4
    exact h4
  exact (round_between (rep_int (n := 0) (by decide)) (rep_int (n := (P53 : Int)) (by decide)) h0 h1 _).1


theorem span_cast_le (hlt : mn < mx) {i j : Nat} (h : i ≤ j) :
    (((mx - mn) * (i : Int) : Int) : Rat) / 5 ≤ (((mx - mn) * (j : Int) : Int) : Rat) / 5 := by
  apply rat_div_le_div_right (by decide +kernel)
  exact (Rat.intCast_le_intCast).mpr (Int.mul_le_mul_of_nonneg_left (by omega) (by omega))

theorem span_five : (((mx - mn) * ((5 : Nat) : Int) : Int) : Rat) / 5 = ((mx - mn : Int) : Rat) := by
  have e : (((mx - mn) * ((5 : Nat) : Int) : Int) : Rat) = ((mx - mn : Int) : Rat) * 5 := Rat.intCast_mul _ _
  rw [e, Rat.div_def, Rat.mul_assoc, Rat.mul_inv_cancel 5 (by decide +kernel), Rat.mul_one]

theorem span_zero : (((mx - mn) * ((0 : Nat) : Int) : Int) : Rat) / 5 = ((0 : Int) : Rat) := by
  have e : ((mx - mn) * ((0 : Nat) : Int) : Int) = 0 := by simp
  rw [e, Rat.div_def]; exact Rat.zero_mul _

/-- the value of the quotient: between 0 and the span, exact at both ends -/
theorem linQuot_val (ha : a.toRat? = some (mn : Rat)) (hb : b.toRat? = some (mx : Rat)) (hx : LinExact mn mx)
    (hlt : mn < mx) (i : Nat) (hi : i ≤ 5) :
    ((0 : Int) : Rat) ≤ (div (mul (sub b a) (ofInt (i : Int))) (ofInt 5)).toRat ∧
    (div (mul (sub b a) (ofInt (i : Int))) (ofInt 5)).toRat ≤ ((mx - mn : Int) : Rat) ∧
    (i = 0 → (div (mul (sub b a) (ofInt (i : Int))) (ofInt 5)).toRat = ((0 : Int) : Rat)) ∧
    (i = 5 → (div (mul (sub b a) (ofInt (i : Int))) (ofInt 5)).toRat = ((mx - mn : Int) : Rat)) := by
  obtain ⟨_, s, e⟩ := linQuot_props ha hb hx hlt i hi
  rw [e]
  have r0 : Rep ((0 : Int) : Rat) := rep_int (by decide)
  have rs : Rep ((mx - mn : Int) : Rat) := rep_int (by unfold LinExact at hx; omega)
  have l0 : ((0 : Int) : Rat) ≤ (((mx - mn) * (i : Int) : Int) : Rat) / 5 := by
    rw [← span_zero (mn := mn) (mx := mx)]; exact span_cast_le hlt (Nat.zero_le i)
  have l5 : (((mx - mn) * (i : Int) : Int) : Rat) / 5 ≤ ((mx - mn : Int) : Rat) := by
    rw [← span_five (mn := mn) (mx := mx)]; exact span_cast_le hlt hi
  obtain ⟨_, b1, b2⟩ := round_between r0 rs l0 l5 s
  refine ⟨b1, b2, ?_, ?_⟩
  · intro h0; subst h0
    rw [span_zero]
    obtain ⟨_, c1, c2⟩ := round_between r0 r0 (Rat.le_refl) (Rat.le_refl) s
    exact Rat.le_antisymm c2 c1
  · intro h5; subst h5
    rw [span_five]
    obtain ⟨_, c1, c2⟩ := round_between rs rs (Rat.le_refl) (Rat.le_refl) s
    exact Rat.le_antisymm c2 c1

theorem linQuot_mono (ha : a.toRat? = some (mn : Rat)) (hb : b.toRat? = some (mx : Rat)) (hx : LinExact mn mx)
    (hlt : mn < mx) {i j : Nat} (hij : i ≤ j) (hj : j ≤ 5) :
    (div (mul (sub b a) (ofInt (i : Int))) (ofInt 5)).toRat ≤ (div (mul (sub b a) (ofInt (j : Int))) (ofInt 5)).toRat := by
  obtain ⟨fi, si, ei⟩ := linQuot_props ha hb hx hlt i (by omega)
  obtain ⟨fj, sj, ej⟩ := linQuot_props ha hb hx hlt j hj
  rw [ei] at fi ⊢
  rw [ej] at fj ⊢
  exact round_mono (span_cast_le hlt hij) si sj fi fj

/-- THE RAW VALUE: finite, within `[min, max]`, exactly `min` for `i = 0` and exactly `max` for `i = 5` -/
theorem linStepF_val (ha : a.toRat? = some (mn : Rat)) (hb : b.toRat? = some (mx : Rat)) (hx : LinExact mn mx)
    (hlt : mn < mx) (i : Nat) (hi : i ≤ 5) :
    (linStepF a b i).isFinite = true ∧ (mn : Rat) ≤ (linStepF a b i).toRat ∧ (linStepF a b i).toRat ≤ (mx : Rat) ∧
    (i = 0 → (linStepF a b i).toRat = (mn : Rat)) ∧ (i = 5 → (linStepF a b i).toRat = (mx : Rat)) := by
  obtain ⟨fq, _, _⟩ := linQuot_props ha hb hx hlt i hi
  obtain ⟨q0, q1, qz, q5⟩ := linQuot_val ha hb hx hlt i hi
  obtain ⟨fa, va⟩ := toRat?_eq_some.mp ha
  unfold linStepF
  rw [add_finite fq fa, va]
  have rmn : Rep (mn : Rat) := rep_int (by unfold LinExact at hx; omega)
  have rmx : Rep (mx : Rat) := rep_int (by unfold LinExact at hx; omega)
  have e0 : ((0 : Int) : Rat) = 0 := rfl
  have es : ((mx - mn : Int) : Rat) = (mx : Rat) - (mn : Rat) := Rat.intCast_sub _ _
  rw [e0] at q0 qz
  rw [es] at q1 q5
  have l0 : (mn : Rat) ≤ (div (mul (sub b a) (ofInt (i : Int))) (ofInt 5)).toRat + (mn : Rat) := by grind
  have l1 : (div (mul (sub b a) (ofInt (i : Int))) (ofInt 5)).toRat + (mn : Rat) ≤ (mx : Rat) := by grind
  obtain ⟨f, b1, b2⟩ := round_between rmn rmx l0 l1 (((div (mul (sub b a) (ofInt (i : Int))) (ofInt 5))).sign && a.sign)
  refine ⟨f, b1, b2, ?_, ?_⟩
  · intro h0
    have e : (div (mul (sub b a) (ofInt (i : Int))) (ofInt 5)).toRat + (mn : Rat) = (mn : Rat) := by rw [qz h0]; grind
    rw [e]
    obtain ⟨_, c1, c2⟩ := round_between rmn rmn (Rat.le_refl) (Rat.le_refl) (((div (mul (sub b a) (ofInt (i : Int))) (ofInt 5))).sign && a.sign)
    exact Rat.le_antisymm c2 c1
  · intro h5
    have e : (div (mul (sub b a) (ofInt (i : Int))) (ofInt 5)).toRat + (mn : Rat) = (mx : Rat) := by rw [q5 h5]; grind
    rw [e]
    obtain ⟨_, c1, c2⟩ := round_between rmx rmx (Rat.le_refl) (Rat.le_refl) (((div (mul (sub b a) (ofInt (i : Int))) (ofInt 5))).sign && a.sign)
    exact Rat.le_antisymm c2 c1

theorem linStepF_mono (ha : a.toRat? = some (mn : Rat)) (hb : b.toRat? = some (mx : Rat)) (hx : LinExact mn mx)
    (hlt : mn < mx) {i j : Nat} (hij : i ≤ j) (hj : j ≤ 5) :
    (linStepF a b i).toRat ≤ (linStepF a b j).toRat := by
  obtain ⟨fi, _⟩ := linStepF_val ha hb hx hlt i (by omega)
  obtain ⟨fj, _⟩ := linStepF_val ha hb hx hlt j hj
  obtain ⟨fqi, _, _⟩ := linQuot_props ha hb hx hlt i (by omega)
  obtain ⟨fqj, _, _⟩ := linQuot_props ha hb hx hlt j hj
  obtain ⟨fa, va⟩ := toRat?_eq_some.mp ha
  have hq := linQuot_mono ha hb hx hlt hij hj
  unfold linStepF at fi fj ⊢
  rw [add_finite fqi fa] at fi ⊢
  rw [add_finite fqj fa] at fj ⊢
  exact round_mono (Rat.add_le_add_right.mpr hq) _ _ fi fj

/-- `int64(x)` of a finite float between two int64 integers is the truncation of its value, between them -/
theorem toInt64_between {x : F64} (hx : x.isFinite = true) {lo hi : Int} (h1 : (lo : Rat) ≤ x.toRat) (h2 : x.toRat ≤ (hi : Rat))
    (hlo : minInt64 ≤ lo) (hhi : hi ≤ maxInt64) : toInt64 x = truncRat x.toRat ∧ lo ≤ truncRat x.toRat ∧ truncRat x.toRat ≤ hi := by
  have a1 := truncRat_mono h1
  have a2 := truncRat_mono h2
  rw [truncRat_intCast] at a1 a2
  refine ⟨?_, a1, a2⟩
  unfold toInt64
  rw [hx]
  have : ¬ (truncRat x.toRat < minInt64 ∨ maxInt64 < truncRat x.toRat) := by omega
  simp [this]

end

/-- the raw values of the linear legend on binary64, `min < max` -/
theorem rawKeys_linear_f64 (L2 L10 P2 P10 : F64 → F64) (mn mx : Int) (hlt : mn < mx) :
    rawKeys (f64Arith L2 L10 P2 P10) .linear 6 mn mx =
      (List.range 6).map fun (i : Nat) => toInt64 (linStepF (floor (ofInt mn)) (ceil (ofInt mx)) i) := by
  have hr : remapMinMax (f64Arith L2 L10 P2 P10) .linear mn mx = (floor (ofInt mn), ceil (ofInt mx)) := by
    unfold remapMinMax
    have : ¬ mx ≤ mn := by omega
    simp only [this, if_false, mapVal, f64Arith]
  unfold rawKeys
  rw [hr]
  have e1 : (6 : Int).toNat = 6 := by decide
  have e2 : (6 : Int) - 1 = 5 := by decide
  simp only [e1, e2, unmapVal, f64Arith, linStepF]

/-- THE LINEAR LEGEND on IEEE-754 binary64 (the computation Go performs), `min < max` in `LinExact`
(`|min|, |max| ≤ 2^53`, `(max - min) * 5 ≤ 2^53` – e.g. every range with `|min|, |max| ≤ 2^49`): the keys are
STRICTLY INCREASING, the first is `min`, the last is `max`, every key lies in `[min, max]` -/
theorem scaleKeys_linear_f64 (L2 L10 P2 P10 : F64 → F64) (mn mx : Int) (hlt : mn < mx) (hx : LinExact mn mx) :
    (scaleKeys (f64Arith L2 L10 P2 P10) .linear 6 mn mx).Pairwise (· < ·) ∧
    (scaleKeys (f64Arith L2 L10 P2 P10) .linear 6 mn mx).head? = some mn ∧
    (scaleKeys (f64Arith L2 L10 P2 P10) .linear 6 mn mx).getLast? = some mx ∧
    (∀ k ∈ scaleKeys (f64Arith L2 L10 P2 P10) .linear 6 mn mx, mn ≤ k ∧ k ≤ mx) := by
  have ha : (floor (ofInt mn)).toRat? = some (mn : Rat) := floor_ofInt (by unfold LinExact at hx; omega)
  have hb : (ceil (ofInt mx)).toRat? = some (mx : Rat) := ceil_ofInt (by unfold LinExact at hx; omega)
  have h64 : minInt64 ≤ mn ∧ mx ≤ maxInt64 := by unfold LinExact at hx; unfold minInt64 maxInt64; omega
  -- the key number `i`
  have key : ∀ i, i ≤ 5 → toInt64 (linStepF (floor (ofInt mn)) (ceil (ofInt mx)) i) = truncRat (linStepF (floor (ofInt mn)) (ceil (ofInt mx)) i).toRat ∧
      mn ≤ truncRat (linStepF (floor (ofInt mn)) (ceil (ofInt mx)) i).toRat ∧ truncRat (linStepF (floor (ofInt mn)) (ceil (ofInt mx)) i).toRat ≤ mx := by
    intro i hi
    obtain ⟨f, b1, b2, _, _⟩ := linStepF_val ha hb hx hlt i hi
    exact toInt64_between f b1 b2 h64.1 h64.2
  have kmono : ∀ i j, i ≤ j → j ≤ 5 → toInt64 (linStepF (floor (ofInt mn)) (ceil (ofInt mx)) i) ≤ toInt64 (linStepF (floor (ofInt mn)) (ceil (ofInt mx)) j) := by
    intro i j hij hj
    rw [(key i (by omega)).1, (key j hj).1]
    exact truncRat_mono (linStepF_mono ha hb hx hlt hij hj)
  have k0 : toInt64 (linStepF (floor (ofInt mn)) (ceil (ofInt mx)) 0) = mn := by
    rw [(key 0 (by omega)).1, (linStepF_val ha hb hx hlt 0 (by omega)).2.2.2.1 rfl, truncRat_intCast]
  have k5 : toInt64 (linStepF (floor (ofInt mn)) (ceil (ofInt mx)) 5) = mx := by
    rw [(key 5 (by omega)).1, (linStepF_val ha hb hx hlt 5 (by omega)).2.2.2.2 rfl, truncRat_intCast]
  obtain ⟨_, _, _, hh, hl⟩ := scaleKeys_shape (f64Arith L2 L10 P2 P10) .linear 6 mn mx (by decide)
  have hraw := rawKeys_linear_f64 L2 L10 P2 P10 mn mx hlt
  have hr6 : List.range 6 = [0, 1, 2, 3, 4, 5] := by decide
  have hsorted : (rawKeys (f64Arith L2 L10 P2 P10) .linear 6 mn mx).Pairwise (· ≤ ·) := by
    rw [hraw, List.pairwise_map]
    have hp : (List.range 6).Pairwise (fun a b => a < b ∧ b < 6) := by rw [hr6]; decide
    exact List.Pairwise.imp (fun {a b} hab => kmono a b (Nat.le_of_lt hab.1) (by omega)) hp
  refine ⟨?_, ?_, ?_, ?_⟩
  · rw [scaleKeys_eq]
    exact (dedupFrom_sorted _ none hsorted (by intro a ha; cases ha)).1
  · rw [hh, hraw, hr6]; simp [k0]
  · rw [hl, hraw, hr6]; simp [k5]
  · intro k hk
    rw [scaleKeys_eq] at hk
    have := dedupFrom_mem _ none k hk
    rw [hraw] at this
    obtain ⟨i, hi, rfl⟩ := List.mem_map.mp this
    have hi' : i < 6 := List.mem_range.mp hi
    rw [(key i (by omega)).1]
    exact (key i (by omega)).2

/-! ### degenerate and reversed ranges (`max ≤ min`): the range is widened to `[min, min + 1]` -/

/-- the raw values of the linear legend on binary64 for a degenerate or reversed range (`max ≤ min`): `remapMinMax` widens
it to `[min, min + 1]` -/
theorem rawKeys_linear_f64_deg (L2 L10 P2 P10 : F64 → F64) (mn mx : Int) (hle : mx ≤ mn) :
    rawKeys (f64Arith L2 L10 P2 P10) .linear 6 mn mx =
      (List.range 6).map fun (i : Nat) => toInt64 (linStepF (floor (ofInt mn)) (ceil (ofInt (wrap64 (mn + 1)))) i) := by
  have hr : remapMinMax (f64Arith L2 L10 P2 P10) .linear mn mx = (floor (ofInt mn), ceil (ofInt (wrap64 (mn + 1)))) := by
    unfold remapMinMax
    simp only [hle, if_true, mapVal, f64Arith]
  unfold rawKeys
  rw [hr]
  have e1 : (6 : Int).toNat = 6 := by decide
  have e2 : (6 : Int) - 1 = 5 := by decide
  simp only [e1, e2, unmapVal, f64Arith, linStepF]

/-- the keys of a legend whose raw values are `toInt64 (linStepF a b i)` with exact ends `lo < hi` in `LinExact` -/
theorem linKeys_of_raw {A : Arith F64} {k : Scaler} {mn mx : Int} {a b : F64} {lo hi : Int}
    (hraw : rawKeys A k 6 mn mx = (List.range 6).map fun (i : Nat) => toInt64 (linStepF a b i))
    (ha : a.toRat? = some (lo : Rat)) (hb : b.toRat? = some (hi : Rat)) (hlt : lo < hi) (hx : LinExact lo hi) :
    (scaleKeys A k 6 mn mx).Pairwise (· < ·) ∧ (scaleKeys A k 6 mn mx).head? = some lo ∧
    (scaleKeys A k 6 mn mx).getLast? = some hi ∧ (∀ x ∈ scaleKeys A k 6 mn mx, lo ≤ x ∧ x ≤ hi) := by
  have h64 : minInt64 ≤ lo ∧ hi ≤ maxInt64 := by unfold LinExact at hx; unfold minInt64 maxInt64; omega
  have key : ∀ i, i ≤ 5 → toInt64 (linStepF a b i) = truncRat (linStepF a b i).toRat ∧
      lo ≤ truncRat (linStepF a b i).toRat ∧ truncRat (linStepF a b i).toRat ≤ hi := by
    intro i hi'
    obtain ⟨f, b1, b2, _, _⟩ := linStepF_val ha hb hx hlt i hi'
    exact toInt64_between f b1 b2 h64.1 h64.2
  have kmono : ∀ i j, i ≤ j → j ≤ 5 → toInt64 (linStepF a b i) ≤ toInt64 (linStepF a b j) := by
    intro i j hij hj
    rw [(key i (by omega)).1, (key j hj).1]
    exact truncRat_mono (linStepF_mono ha hb hx hlt hij hj)
  have k0 : toInt64 (linStepF a b 0) = lo := by
    rw [(key 0 (by omega)).1, (linStepF_val ha hb hx hlt 0 (by omega)).2.2.2.1 rfl, truncRat_intCast]
  have k5 : toInt64 (linStepF a b 5) = hi := by
    rw [(key 5 (by omega)).1, (linStepF_val ha hb hx hlt 5 (by omega)).2.2.2.2 rfl, truncRat_intCast]
  obtain ⟨_, _, _, hh, hl⟩ := scaleKeys_shape A k 6 mn mx (by decide)
  have hr6 : List.range 6 = [0, 1, 2, 3, 4, 5] := by decide
  have hsorted : (rawKeys A k 6 mn mx).Pairwise (· ≤ ·) := by
    rw [hraw, List.pairwise_map]
    have hp : (List.range 6).Pairwise (fun a b => a < b ∧ b < 6) := by rw [hr6]; decide
    exact List.Pairwise.imp (fun {a b} hab => kmono a b (Nat.le_of_lt hab.1) (by omega)) hp
  refine ⟨?_, ?_, ?_, ?_⟩
  · rw [scaleKeys_eq]
    exact (dedupFrom_sorted _ none hsorted (by intro a ha; cases ha)).1
  · rw [hh, hraw, hr6]; simp [k0]
  · rw [hl, hraw, hr6]; simp [k5]
  · intro x hxm
    rw [scaleKeys_eq] at hxm
    have := dedupFrom_mem _ none x hxm
    rw [hraw] at this
    obtain ⟨i, hi', rfl⟩ := List.mem_map.mp this
    have hi'' : i < 6 := List.mem_range.mp hi'
    rw [(key i (by omega)).1]
    exact (key i (by omega)).2

/-- a strictly increasing integer list from `n` to `n + 1` inside `[n, n + 1]` is `[n, n + 1]` -/
theorem two_keys {l : List Int} {n : Int} (hp : l.Pairwise (· < ·)) (hh : l.head? = some n) (hl : l.getLast? = some (n + 1))
    (hin : ∀ x ∈ l, n ≤ x ∧ x ≤ n + 1) : l = [n, n + 1] := by
  match l, hp, hh, hl, hin with
  | [], _, hh, _, _ => simp at hh
  | [x], _, hh, hl, _ => simp at hh hl; omega
  | [x, y], _, hh, hl, _ => simp at hh hl; rw [hh, hl]
  | x :: y :: z :: r, hp, hh, _, hin =>
    exfalso
    simp at hh
    have hxy : x < y := (List.pairwise_cons.mp hp).1 y (by simp)
    have hyz : y < z := (List.pairwise_cons.mp (List.pairwise_cons.mp hp).2).1 z (by simp)
    have hz := (hin z (by simp)).2
    omega

/-- DEGENERATE OR REVERSED RANGE on binary64 (`max ≤ min`, e.g. every cell holds the same value): the legend is exactly the two
numbers `min`, `min + 1` -/
theorem scaleKeys_linear_f64_deg (L2 L10 P2 P10 : F64 → F64) (mn mx : Int) (hle : mx ≤ mn)
    (hmn : -9007199254740992 ≤ mn) (hmn' : mn < 9007199254740992) :
    scaleKeys (f64Arith L2 L10 P2 P10) .linear 6 mn mx = [mn, mn + 1] := by
  have hw : wrap64 (mn + 1) = mn + 1 := by unfold wrap64; omega
  have ha : (floor (ofInt mn)).toRat? = some (mn : Rat) := floor_ofInt (by omega)
  have hb : (ceil (ofInt (wrap64 (mn + 1)))).toRat? = some ((mn + 1 : Int) : Rat) := by rw [hw]; exact ceil_ofInt (by omega)
  obtain ⟨p, h, l, i⟩ := linKeys_of_raw (rawKeys_linear_f64_deg L2 L10 P2 P10 mn mx hle) ha hb (by omega) ⟨hmn, by omega, by omega⟩
  exact two_keys p h l i

end Rare.C14
