import Rare.Model.C01Classify
import Rare.Model.PipelineTrace
import Rare.Proofs.Batcher
/-!
Helper lemmas for the classification theorems of C01 (`Props/C01.lean`): the reference lines carry their
own source index and 1-based position; the short-circuit loop of `IgnoreMatch` is `any Truthy`;
`processLine` against the specification `classify`.
-/
namespace Rare.C01
open Rare.Pipeline Rare.Expr Rare.Batcher

/-! ### the reference lines -/

theorem mem_zipIdx_map {β : Type} (mk : Bytes × Nat → β) :
    ∀ (xs : List Bytes) (k : Nat) (y : β), y ∈ (xs.zipIdx k).map mk →
      ∃ j, ∃ t, xs[j]? = some t ∧ y = mk (t, k + j) := by
  intro xs
  induction xs with
  | nil => intro k y h; simp at h
  | cons x xs ih =>
    intro k y h
    simp only [List.zipIdx_cons, List.map_cons, List.mem_cons] at h
    rcases h with rfl | h
    · exact ⟨0, x, by simp, by simp⟩
    · obtain ⟨j, t, hj, hy⟩ := ih (k + 1) y h
      exact ⟨j + 1, t, by simpa using hj, by rw [hy]; congr 2; omega⟩

/-- A line of `linesOf i data` is the `j`-th segment of `splitLines data`, numbered `j + 1`, of source `i`. -/
theorem mem_linesOf {i : Nat} {data : Bytes} {l : Line} (h : l ∈ linesOf i data) :
    l.src = i ∧ 1 ≤ l.num ∧ (C04.splitLines data)[l.num - 1]? = some l.text := by
  unfold linesOf at h
  obtain ⟨j, t, hj, hl⟩ := mem_zipIdx_map (fun p => (⟨i, p.2, p.1⟩ : Line)) _ 1 l h
  subst hl
  refine ⟨rfl, by simp, ?_⟩
  simpa using hj

theorem mem_zipIdx_flatMap {β : Type} (f : Bytes × Nat → List β) :
    ∀ (xs : List Bytes) (k : Nat) (y : β), y ∈ (xs.zipIdx k).flatMap f →
      ∃ j, ∃ t, xs[j]? = some t ∧ y ∈ f (t, k + j) := by
  intro xs
  induction xs with
  | nil => intro k y h; simp at h
  | cons x xs ih =>
    intro k y h
    simp only [List.zipIdx_cons, List.flatMap_cons, List.mem_append] at h
    rcases h with h | h
    · exact ⟨0, x, by simp, by simpa using h⟩
    · obtain ⟨j, t, hj, hy⟩ := ih (k + 1) y h
      exact ⟨j + 1, t, by simpa using hj, by have : k + 1 + j = k + (j + 1) := by omega
                                             rw [this] at hy; exact hy⟩

/-- Every line of the sequential reference carries its own source index and its 1-based position in
    that source's `splitLines`. -/
theorem mem_allLines {datas : List Bytes} {l : Line} (h : l ∈ allLines datas) :
    ∃ data, datas[l.src]? = some data ∧ 1 ≤ l.num ∧ (C04.splitLines data)[l.num - 1]? = some l.text := by
  unfold allLines at h
  obtain ⟨j, t, hj, hl⟩ := mem_zipIdx_flatMap (fun p => linesOf p.2 p.1) datas 0 l h
  obtain ⟨h1, h2, h3⟩ := mem_linesOf hl
  simp only [Nat.zero_add] at h1
  exact ⟨t, by rw [h1]; exact hj, h2, h3⟩

/-- `(l, n) ∈ ls.zipIdx k` for lines numbered consecutively from `k`: `n = l.num`. -/
theorem zipIdx_num : ∀ (ls : List Line) (k : Nat), (∀ j (h : j < ls.length), ls[j].num = k + j) →
    ∀ p ∈ ls.zipIdx k, p.2 = p.1.num := by
  intro ls
  induction ls with
  | nil => intro k _ p hp; simp at hp
  | cons x xs ih =>
    intro k hnum p hp
    simp only [List.zipIdx_cons, List.mem_cons] at hp
    rcases hp with rfl | hp
    · have := hnum 0 (by simp); simp at this; simp [this]
    · apply ih (k + 1) _ p hp
      intro j hj
      have := hnum (j + 1) (by simp; omega)
      simp at this; omega

theorem linesOf_num (i : Nat) (data : Bytes) :
    ∀ j (h : j < (linesOf i data).length), (linesOf i data)[j].num = 1 + j := by
  intro j h
  have : ∀ (ls : List Line) (hl : ls = linesOf i data) (h : j < ls.length), ls[j].num = 1 + j := by
    intro ls hl h
    subst hl
    simp [linesOf, List.getElem_zipIdx]
  exact this _ rfl h

/-! ### `IgnoreMatch` -/

/-- all ignore expressions evaluated (no short-circuit): the results, or the first panic -/
def evalAll (c : C02.MatchCtx) : List Stage → Except String (List Bytes)
  | [] => .ok []
  | e :: rest =>
    match evalStage c e with
    | .error m => .error m
    | .ok r =>
      match evalAll c rest with
      | .error m => .error m
      | .ok rs => .ok (r :: rs)

theorem ignoreLoop_any (c : C02.MatchCtx) : ∀ (es : List Stage) (rs : List Bytes), evalAll c es = .ok rs →
    ignoreLoop c es = .ok (rs.any Expr.truthy) := by
  intro es
  induction es with
  | nil => intro rs h; simp [evalAll] at h; subst h; rfl
  | cons e rest ih =>
    intro rs h
    unfold evalAll at h
    cases he : evalStage c e with
    | error m => simp [he] at h
    | ok r =>
      simp only [he] at h
      cases hr : evalAll c rest with
      | error m => simp [hr] at h
      | ok rs' =>
        simp only [hr, Except.ok.injEq] at h
        subst h
        unfold ignoreLoop
        simp only [he, List.any_cons]
        by_cases ht : Expr.truthy r = true
        · simp [ht]
        · simp only [ht, Bool.false_eq_true, if_false, Bool.false_or]
          exact ih rs' hr

theorem ignoreMatch_any (c : C02.MatchCtx) (ig : Option (List Stage)) (rs : List Bytes)
    (h : evalAll c (ig.getD []) = .ok rs) : ignoreMatch c ig = .ok (rs.any Expr.truthy) := by
  cases ig with
  | none => simp [evalAll] at h; subst h; rfl
  | some es =>
    simp only [Option.getD_some] at h
    show (if es.length = 0 then Except.ok false else ignoreLoop c es) = _
    by_cases hl : es.length = 0
    · have : es = [] := List.eq_nil_of_length_eq_zero hl
      subst this
      simp [evalAll] at h; subst h; rfl
    · rw [if_neg hl]; exact ignoreLoop_any c es rs h

/-- `processLineSync` against the specification: with every ignore expression and the extract expression
    evaluated in the line's OWN context, the outcome is `classify`'s. -/
theorem processLine_classify (e : Extractor) (l : Line) (rs : List Bytes) (key : Bytes)
    (hig : evalAll (ctxOf e l) (e.ignore.getD []) = .ok rs)
    (hkey : evalStage (ctxOf e l) e.extract = .ok key) :
    ∃ o, processLine e l = .ok o ∧ o.cls = classify (decide ((e.matcher l.text).length > 0)) rs key ∧
      (o.cls = .matched → o = .matched key) := by
  have hm := ignoreMatch_any (ctxOf e l) e.ignore rs hig
  unfold processLine classify
  by_cases hmatch : (e.matcher l.text).length > 0
  · simp only [hmatch, if_true, hm, hkey, decide_true]
    cases hany : rs.any Expr.truthy with
    | true => exact ⟨.ignored, rfl, by simp [Outcome.cls], by simp [Outcome.cls]⟩
    | false =>
      by_cases hk : key.length > 0
      · exact ⟨.matched key, by simp [hk], by simp [Outcome.cls, hk], fun _ => rfl⟩
      · exact ⟨.ignored, by simp [hk], by simp [Outcome.cls, hk], by simp [Outcome.cls]⟩
  · simp only [hmatch, if_false, decide_false]
    exact ⟨.unmatched, rfl, by simp [Outcome.cls], by simp [Outcome.cls]⟩

theorem clsOf_of_ok {e : Extractor} {l : Line} {o : Outcome} (h : processLine e l = .ok o) : clsOf e l = o.cls := by
  simp [clsOf, h]

theorem keyOf_of_matched {e : Extractor} {l : Line} {k : Bytes} (h : processLine e l = .ok (.matched k)) :
    keyOf e l = k := by
  simp [keyOf, h]

theorem matched_of_clsOf {e : Extractor} {l : Line} (h : clsOf e l = .matched) :
    processLine e l = .ok (.matched (keyOf e l)) := by
  unfold clsOf at h
  cases hp : processLine e l with
  | error m => simp [hp] at h
  | ok o =>
    cases o with
    | matched k => simp [keyOf, hp]
    | ignored => simp [hp, Outcome.cls] at h
    | unmatched => simp [hp, Outcome.cls] at h

/-- A matched line has a non-empty key. -/
theorem matched_key_nonempty {e : Extractor} {l : Line} {k : Bytes} (h : processLine e l = .ok (.matched k)) :
    k ≠ [] := by
  unfold processLine at h
  split at h
  · split at h
    · simp at h
    · simp at h
    · split at h
      · simp at h
      · rename_i key _
        split at h
        · rename_i hk
          simp only [Except.ok.injEq, Outcome.matched.injEq] at h
          subst h
          intro hn; simp [hn] at hk
        · simp at h
  · simp at h

theorem decide_clsOf_eq {e : Extractor} {all : List Line} (hnp : NoPanic e all) (c : Cls) :
    ∀ l ∈ all, decide (clsOf e l = c) = outcomeIs e c l := by
  intro l hl
  obtain ⟨o, ho⟩ := hnp l hl
  simp only [clsOf, outcomeIs, ho]
  by_cases h : o.cls = c <;> simp [h]

theorem filter_matched_eq {e : Extractor} {all : List Line} (hnp : NoPanic e all) :
    all.filter (isMatched (clsOf e)) = all.filter (outcomeIs e .matched) :=
  List.filter_congr (decide_clsOf_eq hnp .matched)

theorem filter_ignored_eq {e : Extractor} {all : List Line} (hnp : NoPanic e all) :
    all.filter (isIgnored (clsOf e)) = all.filter (outcomeIs e .ignored) :=
  List.filter_congr (decide_clsOf_eq hnp .ignored)

/-- Every line that is evaluated without a panic falls in exactly one class. -/
theorem class_counts (e : Extractor) : ∀ (all : List Line), NoPanic e all →
    all.length = (all.filter (outcomeIs e .matched)).length + (all.filter (outcomeIs e .ignored)).length +
      (all.filter (outcomeIs e .unmatched)).length := by
  intro all
  induction all with
  | nil => intro _; simp
  | cons x xs ih =>
    intro h
    have ih' := ih (fun l hl => h l (by simp [hl]))
    obtain ⟨o, ho⟩ := h x (by simp)
    have e1 : ∀ c, outcomeIs e c x = (o.cls == c) := fun c => by simp [outcomeIs, ho]
    simp only [List.length_cons, List.filter_cons, e1]
    cases o <;> simp [Outcome.cls] <;> omega

theorem ok_of_toOption {α : Type} {x : Except String α} {a : α} (h : x.toOption = some a) : x = .ok a := by
  cases x with
  | error m => simp [Except.toOption] at h
  | ok b => simp [Except.toOption] at h; rw [h]

/-! ### a small accepted log under a configured classifier (non-vacuity examples of Props/C01) -/

open Rare.TraceOrder Rare.PipelineTrace in
/-- `exampleCfg` (one reader source `ab⏎x⏎`, batch size 1, one worker) with the classifier of
    `exampleExtractor` (ignore `{eq {line} 1}`): line 1 is ignored, line 2 (`x`) does not match. -/
def exampleCfg2 : PipelineTrace.Cfg := { PipelineTrace.exampleCfg with cls := clsOf exampleExtractor }

open Rare.TraceOrder Rare.PipelineTrace in
/-- the log of such a run: no match batch is ever sent -/
def exampleLog2 : List Ev :=
  let mk (g : Nat) (k : String) (src a b : Nat) : Ev := ⟨g, k, src, a, b, []⟩
  [mk 0 "so" 0 0 0, mk 0 "sb" 0 1 1, mk 0 "fl" 0 1 1, mk 1 "ws" noSrc 0 0, mk 0 "st" 0 1 1, mk 0 "fl" 0 2 1,
   mk 1 "wr" 0 1 1, mk 1 "li" 0 1 0, mk 0 "st" 0 2 1, mk 0 "sn" 0 0 0, mk 0 "cc" noSrc 0 0,
   mk 1 "wr" 0 2 1, mk 1 "lu" 0 2 0, mk 1 "wx" noSrc 0 0, mk 3 "rc" noSrc 0 0,
   mk 2 "cd" noSrc 0 0]

end Rare.C01
