import Rare.Proofs.C13Model
/-! C13: the model of `sort.insertionSort` (`goInsertionSort`, what `sort.Sort` runs for `n ≤ 12` and what
the driver's `sort` op executes) returns the sorted arrangement when the comparator is a pure order –
one concrete algorithm for which the `sort.Sort` contract is discharged on the Go-shaped code. -/
namespace Rare.C13

/-- `insertBack` with a pure comparator, as a plain function on the reversed prefix. -/
def insDesc {α : Type} (less : α → α → Bool) (x : α) : List α → List α
  | [] => [x]
  | y :: ys => if less x y then y :: insDesc less x ys else x :: y :: ys

theorem insertBack_pure {α : Type} (less : α → α → Bool) (x : α) : ∀ (ys : List α) (s : Unit),
    (insertBack (pureCmp less) x s ys).1 = insDesc less x ys
  | [], _ => rfl
  | y :: ys, s => by
    cases h : less x y with
    | true =>
      have e : insertBack (pureCmp less) x s (y :: ys)
          = (y :: (insertBack (pureCmp less) x s ys).1, (insertBack (pureCmp less) x s ys).2) := by
        simp [insertBack, pureCmp, h]
      rw [e]
      simp [insDesc, h, insertBack_pure less x ys]
    | false => simp [insertBack, pureCmp, insDesc, h]

theorem insDesc_perm {α : Type} (less : α → α → Bool) (x : α) : ∀ ys : List α, (insDesc less x ys).Perm (x :: ys)
  | [] => List.Perm.refl _
  | y :: ys => by
    unfold insDesc
    split
    · exact ((insDesc_perm less x ys).cons y).trans (List.Perm.swap x y ys)
    · exact List.Perm.refl _

/-- `ys` is the sorted prefix read backwards (descending). -/
def Desc {α : Type} (less : α → α → Bool) (ys : List α) : Prop := ys.Pairwise (fun a b => less b a = true)

theorem insDesc_desc {α : Type} {P : α → Prop} {less : α → α → Bool} (ho : OrderOn P less) (x : α) (hx : P x) :
    ∀ ys : List α, (∀ y ∈ ys, P y) → x ∉ ys → ys.Nodup → Desc less ys → Desc less (insDesc less x ys)
  | [], _, _, _, _ => by simp [insDesc, Desc]
  | y :: ys, hP, hx', hnd, hd => by
    have hy : P y := hP y (List.mem_cons_self ..)
    have hxy : x ≠ y := fun e => hx' (by rw [e]; exact List.mem_cons_self ..)
    have hxys : x ∉ ys := fun h => hx' (List.mem_cons_of_mem _ h)
    rw [List.nodup_cons] at hnd
    unfold Desc at hd ⊢
    rw [List.pairwise_cons] at hd
    unfold insDesc
    split
    · -- x < y: y stays in front, x goes further back
      rename_i hlt
      refine List.pairwise_cons.mpr ⟨?_, insDesc_desc ho x hx ys (fun z hz => hP z (List.mem_cons_of_mem _ hz)) hxys hnd.2 hd.2⟩
      intro z hz
      rcases List.mem_cons.mp ((insDesc_perm less x ys).mem_iff.mp hz) with e | hz
      · rw [e]; exact hlt
      · exact hd.1 z hz
    · -- ¬ x < y, x ≠ y: y < x, so x goes in front
      rename_i hnlt
      have hyx : less y x = true := by
        rcases ho.total x y hx hy hxy with h | h
        · exact absurd h hnlt
        · exact h
      refine List.pairwise_cons.mpr ⟨?_, List.pairwise_cons.mpr hd⟩
      intro z hz
      rcases List.mem_cons.mp hz with e | hz
      · rw [e]; exact hyx
      · have hzy : z ≠ y := fun e => hnd.1 (by rw [← e]; exact hz)
        have hzx : z ≠ x := fun e => hxys (by rw [← e]; exact hz)
        exact ho.trans z y x (hP z (List.mem_cons_of_mem _ hz)) hy hx hzy (Ne.symm hxy) hzx (hd.1 z hz) hyx

theorem goAux_pure {α : Type} {P : α → Prop} {less : α → α → Bool} (ho : OrderOn P less) :
    ∀ (rest rev : List α) (s : Unit), (∀ y ∈ rev ++ rest, P y) → (rev ++ rest).Nodup → Desc less rev →
      IsSorted less (goInsertionSortAux (pureCmp less) s rev rest).1 (rev ++ rest)
  | [], rev, s, _, _, hd => by
    simp only [goInsertionSortAux, List.append_nil]
    refine ⟨List.reverse_perm rev, ?_⟩
    rw [List.pairwise_reverse]
    exact hd
  | x :: rest, rev, s, hP, hnd, hd => by
    simp only [goInsertionSortAux]
    rw [insertBack_pure]
    have hperm : (insDesc less x rev ++ rest).Perm (rev ++ x :: rest) :=
      ((insDesc_perm less x rev).append_right rest).trans
        (by simpa using (List.perm_middle (l₁ := rev) (l₂ := rest) (a := x)).symm)
    have hx : P x := hP x (by simp)
    have hxrev : x ∉ rev := by
      intro h
      have := List.nodup_append.mp hnd
      exact this.2.2 x h x (List.mem_cons_self ..) rfl
    have hndrev : rev.Nodup := (List.nodup_append.mp hnd).1
    have hd' := insDesc_desc ho x hx rev (fun y hy => hP y (by simp [hy])) hxrev hndrev hd
    have ih := goAux_pure ho rest (insDesc less x rev) ((insertBack (pureCmp less) x s rev).2)
      (fun y hy => hP y (hperm.mem_iff.mp hy)) (hperm.nodup_iff.mpr hnd) hd'
    exact ⟨ih.1.trans hperm, ih.2⟩

/-- Go's insertion sort with a pure comparator that orders the distinct elements of `l`: the result
is the sorted arrangement of `l`. -/
theorem goInsertionSort_sorted {α : Type} {less : α → α → Bool} {l : List α} (hnd : l.Nodup)
    (ho : OrderOn (· ∈ l) less) : IsSorted less (goInsertionSort (pureCmp less) () l).1 l := by
  have := goAux_pure ho l [] () (fun y hy => by simpa using hy) (by simpa using hnd) (by simp [Desc])
  simpa [goInsertionSort] using this

/-- … hence it is the reference sorted sequence. -/
theorem goInsertionSort_eq_isort {α : Type} {less : α → α → Bool} {l : List α} (hnd : l.Nodup)
    (ho : OrderOn (· ∈ l) less) : (goInsertionSort (pureCmp less) () l).1 = isort less l :=
  sorted_unique' ho (goInsertionSort_sorted hnd ho) (isort_sorted hnd ho)

end Rare.C13
