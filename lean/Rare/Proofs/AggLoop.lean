import Rare.Model.AggLoop
namespace Rare.AggLoop

variable {κ : Type}

/-- Inductive invariant; `stream` = all batches the extractor will ever send. -/
structure Inv (stream : List (List κ)) (s : St κ) : Prop where
  /-- mutex bookkeeping: the owner field says who is inside a critical section -/
  mainOwns : s.main.isSampling = true ↔ s.mutex = .main
  tickOwns : s.ticker = .rendering ↔ s.mutex = .ticker
  /-- nothing lost or reordered between the channel and the aggregator -/
  flow : s.received ++ s.rc.flatten ++ s.future.flatten = stream.flatten
  hand : s.sampled ++ s.main.inHand = s.received
  /-- the channel is closed only after the last batch was sent -/
  closed : s.rcClosed = true → s.future = []
  /-- once main has left the loop, everything has been sampled -/
  drained : (s.main = .sendDone ∨ s.main = .finalRender ∨ s.main = .finished) →
      s.sampled = stream.flatten ∧ s.rc = [] ∧ s.future = []
  /-- the ticker has stopped exactly when main got past the hand-shake -/
  stopped : s.ticker = .stopped ↔ (s.main = .finalRender ∨ s.main = .finished)
  /-- a running periodic render sees a frozen aggregator -/
  frozen : s.ticker = .rendering → s.snap = s.sampled
  /-- every completed render saw a prefix of the final sample history -/
  prefixes : ∀ r ∈ s.renders, r <+: stream.flatten
  /-- after the final render, the last render is complete -/
  last : s.main = .finished → s.renders.getLast? = some stream.flatten

theorem inv_init (stream : List (List κ)) : Inv stream (init stream) := by
  refine ⟨by simp [init, Main.isSampling], by simp [init], by simp [init], by simp [init, Main.inHand],
    by simp [init], by simp [init], by simp [init], by simp [init], by simp [init], by simp [init]⟩

theorem sampled_prefix {stream : List (List κ)} {s : St κ} (h : Inv stream s) : s.sampled <+: stream.flatten := by
  have h1 := h.flow
  have h2 := h.hand
  exact ⟨s.main.inHand ++ s.rc.flatten ++ s.future.flatten, by rw [← h1, ← h2]; simp⟩

theorem inv_step {stream : List (List κ)} {s s' : St κ} (h : Inv stream s) (hs : Step s s') : Inv stream s' := by
  cases hs with
  | arrive b rest hf =>
    refine ⟨h.mainOwns, h.tickOwns, ?_, h.hand, ?_, ?_, h.stopped, h.frozen, h.prefixes, h.last⟩
    · have := h.flow; rw [hf] at this; simpa using this
    · intro hc; have := h.closed hc; rw [hf] at this; cases this
    · intro hm; have := (h.drained hm).2.2; rw [hf] at this; cases this
  | close hf hc =>
    exact ⟨h.mainOwns, h.tickOwns, h.flow, h.hand, fun _ => hf, h.drained, h.stopped, h.frozen, h.prefixes, h.last⟩
  | recv b rest hm hrc =>
    have hns : s.mutex ≠ .main := by
      intro he; have := h.mainOwns.mpr he; rw [hm] at this; cases this
    refine ⟨by simp [Main.isSampling]; exact hns, h.tickOwns, ?_, ?_, h.closed, by simp, ?_, h.frozen, h.prefixes, by simp⟩
    · have := h.flow; rw [hrc] at this; simpa using this
    · have := h.hand; rw [hm] at this; simp [Main.inHand] at this ⊢; rw [this]
    · have := h.stopped; rw [hm] at this; simpa using this
  | mlock b hm hmu =>
    have hnr : s.ticker ≠ .rendering := by
      intro he; have := h.tickOwns.mp he; rw [hmu] at this; cases this
    refine ⟨by simp [Main.isSampling], by simp; exact hnr, h.flow, ?_, h.closed, by simp, ?_,
      fun hr => absurd hr hnr, h.prefixes, by simp⟩
    · have := h.hand; rw [hm] at this; simpa [Main.inHand] using this
    · have := h.stopped; rw [hm] at this; simpa using this
  | sample x xs hm =>
    have hown : s.mutex = .main := h.mainOwns.mp (by rw [hm]; rfl)
    have hnr : s.ticker ≠ .rendering := by
      intro he; have := h.tickOwns.mp he; rw [hown] at this; cases this
    refine ⟨by simp [Main.isSampling, hown], h.tickOwns, h.flow, ?_, h.closed, by simp, ?_,
      fun hr => absurd hr hnr, h.prefixes, by simp⟩
    · have := h.hand; rw [hm] at this; simpa [Main.inHand] using this
    · have := h.stopped; rw [hm] at this; simpa using this
  | munlock hm =>
    have hown : s.mutex = .main := h.mainOwns.mp (by rw [hm]; rfl)
    have hnr : s.ticker ≠ .rendering := by
      intro he; have := h.tickOwns.mp he; rw [hown] at this; cases this
    refine ⟨by simp [Main.isSampling], by simp; exact hnr, h.flow, ?_, h.closed, by simp, ?_,
      fun hr => absurd hr hnr, h.prefixes, by simp⟩
    · have := h.hand; rw [hm] at this; simpa [Main.inHand] using this
    · have := h.stopped; rw [hm] at this; simpa using this
  | eof hm hrc hcl =>
    have hf := h.closed hcl
    have hns : s.mutex ≠ .main := by
      intro he; have := h.mainOwns.mpr he; rw [hm] at this; cases this
    refine ⟨by simp [Main.isSampling]; exact hns, h.tickOwns, h.flow, ?_, h.closed, ?_, ?_, h.frozen, h.prefixes, by simp⟩
    · have := h.hand; rw [hm] at this; simpa [Main.inHand] using this
    · intro _
      have h1 := h.flow; have h2 := h.hand
      rw [hm] at h2; simp [Main.inHand] at h2
      rw [hrc, hf] at h1; simp at h1
      exact ⟨by rw [h2, h1], hrc, hf⟩
    · have := h.stopped; rw [hm] at this; simpa using this
  | handshake hm ht =>
    have hns : s.mutex ≠ .main := by
      intro he; have := h.mainOwns.mpr he; rw [hm] at this; cases this
    have hnt : s.mutex ≠ .ticker := by
      intro he; have := h.tickOwns.mpr he; rw [ht] at this; cases this
    refine ⟨by simp [Main.isSampling]; exact hns, by simp; exact hnt, h.flow, ?_, h.closed, ?_, by simp,
      by simp, h.prefixes, by simp⟩
    · have := h.hand; rw [hm] at this; simpa [Main.inHand] using this
    · intro _; exact h.drained (Or.inl hm)
  | final hm =>
    have hns : s.mutex ≠ .main := by
      intro he; have := h.mainOwns.mpr he; rw [hm] at this; cases this
    have hd := h.drained (Or.inr (Or.inl hm))
    refine ⟨by simp [Main.isSampling]; exact hns, h.tickOwns, h.flow, ?_, h.closed, fun _ => hd, ?_, h.frozen, ?_, ?_⟩
    · have := h.hand; rw [hm] at this; simpa [Main.inHand] using this
    · have := h.stopped; rw [hm] at this; simpa using this
    · intro r hr; simp at hr
      rcases hr with hr | rfl
      · exact h.prefixes r hr
      · rw [hd.1]; exact List.prefix_refl _
    · intro _; simp [hd.1]
  | fire ht =>
    have hnt : s.mutex ≠ .ticker := by
      intro he; have := h.tickOwns.mpr he; rw [ht] at this; cases this
    refine ⟨h.mainOwns, by simp; exact hnt, h.flow, h.hand, h.closed, h.drained, ?_, by simp, h.prefixes, h.last⟩
    have := h.stopped; rw [ht] at this; simpa using this
  | tlock ht hmu =>
    have hns : s.main.isSampling ≠ true := by
      intro he; have := h.mainOwns.mp he; rw [hmu] at this; cases this
    refine ⟨by simp; simpa using hns, by simp, h.flow, h.hand, h.closed, h.drained, ?_, by simp, h.prefixes, h.last⟩
    have := h.stopped; rw [ht] at this; simpa using this
  | tunlock ht =>
    have hown : s.mutex = .ticker := h.tickOwns.mp ht
    have hns : s.main.isSampling ≠ true := by
      intro he; have := h.mainOwns.mp he; rw [hown] at this; cases this
    have hnf : s.main ≠ .finished := by
      intro he; have := h.stopped.mpr (Or.inr he); rw [ht] at this; cases this
    refine ⟨by simp; simpa using hns, by simp, h.flow, h.hand, h.closed, h.drained, ?_, by simp, ?_, fun he => absurd he hnf⟩
    · have := h.stopped; rw [ht] at this; simpa using this
    · intro r hr; simp at hr
      rcases hr with hr | rfl
      · exact h.prefixes r hr
      · exact sampled_prefix h

theorem inv_reach {stream : List (List κ)} {s : St κ} (hr : Reach (init stream) s) : Inv stream s := by
  induction hr with
  | refl => exact inv_init stream
  | step _ hs ih => exact inv_step ih hs

/-! ### progress and the main-thread measure -/

theorem progress {stream : List (List κ)} {s : St κ} (h : Inv stream s) (hf : s.main ≠ .finished) :
    ∃ s', Step s s' := by
  cases hm : s.main with
  | finished => exact absurd hm hf
  | finalRender => exact ⟨_, .final s hm⟩
  | sampling todo =>
    cases todo with
    | nil => exact ⟨_, .munlock s hm⟩
    | cons x xs => exact ⟨_, .sample s x xs hm⟩
  | wantLock b =>
    cases hmu : s.mutex with
    | none => exact ⟨_, .mlock s b hm hmu⟩
    | main => have := h.mainOwns.mpr hmu; rw [hm] at this; cases this
    | ticker => exact ⟨_, .tunlock s (h.tickOwns.mpr hmu)⟩
  | sendDone =>
    cases ht : s.ticker with
    | idle => exact ⟨_, .handshake s hm ht⟩
    | rendering => exact ⟨_, .tunlock s ht⟩
    | stopped => have := h.stopped.mp ht; rw [hm] at this; simp at this
    | wantLock =>
      cases hmu : s.mutex with
      | none => exact ⟨_, .tlock s ht hmu⟩
      | main => have := h.mainOwns.mpr hmu; rw [hm] at this; cases this
      | ticker => have := h.tickOwns.mpr hmu; rw [ht] at this; cases this
  | loop =>
    cases hrc : s.rc with
    | cons b rest => exact ⟨_, .recv s b rest hm hrc⟩
    | nil =>
      cases hcl : s.rcClosed with
      | true => exact ⟨_, .eof s hm hrc hcl⟩
      | false =>
        cases hfu : s.future with
        | nil => exact ⟨_, .close s hfu hcl⟩
        | cons b rest => exact ⟨_, .arrive s b rest hfu⟩

def mainW : Main κ → Nat
  | .loop => 4
  | .wantLock b => 2 * b.length + 6
  | .sampling t => 2 * t.length + 5
  | .sendDone => 3
  | .finalRender => 2
  | .finished => 0

/-- Progress measure of everything except the ticker. -/
def measure (s : St κ) : Nat :=
  (s.future.map fun b => 2 * b.length + 8).sum + (s.rc.map fun b => 2 * b.length + 7).sum +
  (if s.rcClosed then 0 else 1) + mainW s.main

/-- Every step strictly decreases the measure, except the three ticker steps, which leave it unchanged. -/
theorem step_measure {s s' : St κ} (hs : Step s s') :
    measure s' < measure s ∨ (measure s' = measure s ∧ s'.main = s.main ∧ s'.sampled = s.sampled) := by
  cases hs with
  | arrive b rest hf => left; simp [measure, hf]; omega
  | close hf hc => left; simp [measure, hc]
  | recv b rest hm hrc => left; simp [measure, hm, hrc, mainW]; omega
  | mlock b hm hmu => left; simp [measure, hm, mainW]
  | sample x xs hm => left; simp [measure, hm, mainW]
  | munlock hm => left; simp [measure, hm, mainW]
  | eof hm hrc hcl => left; simp [measure, hm, mainW]
  | handshake hm ht => left; simp [measure, hm, mainW]
  | final hm => left; simp [measure, hm, mainW]
  | fire ht => right; exact ⟨rfl, rfl, rfl⟩
  | tlock ht hmu => right; exact ⟨rfl, rfl, rfl⟩
  | tunlock ht => right; exact ⟨rfl, rfl, rfl⟩

end Rare.AggLoop
