import Rare.Proofs.C08Size
import Rare.Proofs.C18Dur
/-!
C08, the family the caps do not bound, for ALL round counts: `{@for s "{lt {1} n}" "{0}{0}"}` – an increment that
returns its own previous value twice – answers exactly `|s|·(2^n − 1)` bytes plus `n − 1` separators after `n`
rounds, for every `n ≤ MAX_ITERATIONS` (round 4 had the kernel-evaluated instance `n = 12`).
-/
namespace Rare.C08
open Rare Rare.Expr Rare.Expr.Funcs

/-- The increment `{0}{0}` (the previous value twice) and a condition that holds until round `n`. -/
def dblIncr : Stage := .getMatch 0 fun a => .getMatch 0 fun b => .ret (a ++ b)
def untilRound (n : Nat) : Stage := .getMatch 1 fun i => .ret (if i = itoa (n : Int) then [] else [49])

theorem itoa_nat_inj (a b : Nat) (ha : a ≤ Gen.maxIterations) (hb : b ≤ Gen.maxIterations)
    (h : itoa (a : Int) = itoa (b : Int)) : a = b := by
  have ia : inInt64 (a : Int) = true := by
    rw [C11.inInt64_iff]; unfold minInt64 maxInt64; simp only [Gen.maxIterations] at ha; omega
  have ib : inInt64 (b : Int) = true := by
    rw [C11.inInt64_iff]; unfold minInt64 maxInt64; simp only [Gen.maxIterations] at hb; omega
  have h1 := C18.atoi_itoa (a : Int) ia
  have h2 := C18.atoi_itoa (b : Int) ib
  rw [h] at h1
  rw [h1] at h2
  have := Option.some.inj h2
  omega

theorem ret_bind {α β : Type} (a : α) (f : α → Comp β) : (Comp.ret a).bind f = f a := rfl

theorem untilRound_withSub (n : Nat) (val i : Bytes) :
    (untilRound n).withSub val i = .ret (if i = itoa (n : Int) then [] else [49]) := rfl

theorem dblIncr_withSub (val i : Bytes) : dblIncr.withSub val i = .ret (val ++ val) := rfl

/-- The loop invariant: `k` rounds to go from round `idx` with a value of `L` bytes. -/
theorem forLoop_doubling (c : Ctx) :
    ∀ (k fuel idx : Nat) (val : Bytes) (sb : Range.Sb), idx + k ≤ Gen.maxIterations → k < fuel →
      ∃ out, (Range.forLoop (untilRound (idx + k)) dblIncr fuel val idx sb).run c = .ok out ∧
        out.length + val.length + (if idx = 0 ∧ 0 < k then 1 else 0) = sb.rev.length + val.length * 2 ^ k + k := by
  intro k
  induction k with
  | zero =>
    intro fuel idx val sb _ hf
    obtain ⟨fuel, rfl⟩ : ∃ f, fuel = f + 1 := ⟨fuel - 1, by omega⟩
    refine ⟨sb.str, ?_, ?_⟩
    · rw [Range.forLoop]
      simp only [Nat.add_zero, untilRound_withSub, if_true]
      rfl
    · simp [Range.Sb.str]
  | succ k ih =>
    intro fuel idx val sb hle hf
    obtain ⟨fuel, rfl⟩ : ∃ f, fuel = f + 1 := ⟨fuel - 1, by omega⟩
    have hne : itoa (idx : Int) ≠ itoa ((idx + (k + 1) : Nat) : Int) := by
      intro h
      have := itoa_nat_inj idx (idx + (k + 1)) (by omega) hle h
      omega
    have hnext : ¬ idx + 1 > Gen.maxIterations := by omega
    obtain ⟨out, hrun, hlen⟩ := ih fuel (idx + 1) (val ++ val)
      ((if idx > 0 then sb.write Range.ArraySeparatorString else sb).write val) (by omega) (by omega)
    refine ⟨out, ?_, ?_⟩
    · rw [Range.forLoop]
      have ht : truthy [49] = true := by decide
      have e : idx + 1 + k = idx + (k + 1) := by omega
      rw [e] at hrun
      simp only [untilRound_withSub, dblIncr_withSub, ret_bind, if_neg hne, ht, Bool.not_true, Bool.false_eq_true,
        if_false, if_neg hnext]
      exact hrun
    · have hsb : ((if idx > 0 then sb.write Range.ArraySeparatorString else sb).write val).rev.length
          = sb.rev.length + (if idx > 0 then 1 else 0) + val.length := by
        rw [Sb.write_rev_length]
        split
        · rw [Sb.write_rev_length]; simp [Range.ArraySeparatorString]
        · simp
      rw [hsb] at hlen
      simp only [List.length_append] at hlen
      have hpow : val.length * 2 ^ (k + 1) = (val.length + val.length) * 2 ^ k := by
        rw [Nat.pow_succ, Nat.add_mul]; rw [Nat.mul_comm (2 ^ k) 2, ← Nat.mul_assoc, Nat.mul_two, Nat.add_mul]
      rw [hpow]
      generalize (val.length + val.length) * 2 ^ k = P at hlen ⊢
      have h10 : ¬ (idx + 1 = 0 ∧ 0 < k) := by omega
      rw [if_neg h10] at hlen
      by_cases h0 : idx = 0
      · subst h0; simp at hlen ⊢; omega
      · have : idx > 0 := by omega
        simp [this, h0] at hlen ⊢; omega

/-- **Doubling for every round count**: `{@for s <until round n> "{0}{0}"}` returns, and its answer has exactly
    `|s|·(2^n − 1)` bytes of values and `n − 1` separators. -/
theorem forStage_doubling (c : Ctx) (s : Bytes) (n : Nat) (hn : n ≤ Gen.maxIterations) :
    ∃ out, (Range.forStage (.ret s) (untilRound n) dblIncr).run c = .ok out ∧
      out.length + s.length + (if 0 < n then 1 else 0) = s.length * 2 ^ n + n := by
  obtain ⟨out, h, hl⟩ := forLoop_doubling c n (Gen.maxIterations + 2) 0 s {} (by omega) (by omega)
  refine ⟨out, ?_, ?_⟩
  · simp only [Nat.zero_add] at h
    exact h
  · simpa using hl

end Rare.C08
