import Rare.Proofs.C16Names
import Rare.Proofs.C16Table
import Rare.Proofs.C16Num
/-!
C16: `rare expression -k name=value` (`parseKeyValue`, `parseKeyValuesIntoMap`, the emulated special
keys), `MarshalStringMapInferred`, `WriteInt`.
-/
namespace Rare.C16

/-! ### parseKeyValue -/

theorem idxOf_lt_of_mem (s : Bytes) (c : UInt8) (h : c ∈ s) : s.idxOf c < s.length :=
  List.idxOf_lt_length_iff.mpr h

theorem parseKeyValue_none (s : Bytes) (h : (0x3d : UInt8) ∉ s) : parseKeyValue s = (s, s) := by
  have : ¬ s.idxOf (0x3d : UInt8) < s.length := fun hl => h (List.idxOf_lt_length_iff.mp hl)
  simp [parseKeyValue, indexByte, this]

theorem idxOf_append_cons (k v : Bytes) (c : UInt8) (h : c ∉ k) : (k ++ c :: v).idxOf c = k.length := by
  induction k with
  | nil => simp
  | cons a k ih =>
    simp only [List.mem_cons, not_or] at h
    have hne : ¬ (a == c) = true := by simpa using fun e => h.1 e.symm
    simp only [List.cons_append, List.idxOf_cons, hne, cond_false]
    rw [ih h.2]; simp

theorem parseKeyValue_split (k v : Bytes) (h : (0x3d : UInt8) ∉ k) : parseKeyValue (k ++ 0x3d :: v) = (k, v) := by
  have e := idxOf_append_cons k v 0x3d h
  have hl : (k ++ 0x3d :: v).idxOf (0x3d : UInt8) < (k ++ 0x3d :: v).length := by rw [e]; simp
  simp only [parseKeyValue, indexByte, e]
  have : ¬ ((k.length : Nat) : Int) < 0 := by omega
  simp [this]

theorem exists_first_split (s : Bytes) (c : UInt8) (h : c ∈ s) : ∃ k v, s = k ++ c :: v ∧ c ∉ k := by
  induction s with
  | nil => simp at h
  | cons a s ih =>
    by_cases e : a = c
    · exact ⟨[], s, by simp [e], by simp⟩
    · have hs : c ∈ s := by
        rcases List.mem_cons.mp h with h' | h'
        · exact absurd h'.symm e
        · exact h'
      obtain ⟨k, v, e1, e2⟩ := ih hs
      exact ⟨a :: k, v, by simp [e1], by simp [e2]; exact fun h' => e h'.symm⟩

/-- what `parseKeyValue` returns, for every argument -/
theorem parseKeyValue_cases (s : Bytes) :
    ((0x3d : UInt8) ∉ s ∧ parseKeyValue s = (s, s)) ∨
    (s = (parseKeyValue s).1 ++ 0x3d :: (parseKeyValue s).2 ∧ (0x3d : UInt8) ∉ (parseKeyValue s).1) := by
  by_cases h : (0x3d : UInt8) ∈ s
  · obtain ⟨k, v, e, hk⟩ := exists_first_split s 0x3d h
    right
    rw [e, parseKeyValue_split k v hk]
    exact ⟨rfl, hk⟩
  · exact Or.inl ⟨h, parseKeyValue_none s h⟩

/-! ### parseKeyValuesIntoMap -/

/-- the pair that `ret[k] = v` in a loop leaves for `k`: the LAST argument whose key is `k` -/
def lastValue (pairs : List (Bytes × Bytes)) (k : Bytes) : Option Bytes :=
  (pairs.reverse.find? (fun p => p.1 == k)).map (·.2)

def setAll (m : List (Bytes × Bytes)) (pairs : List (Bytes × Bytes)) : List (Bytes × Bytes) :=
  pairs.foldl (fun m p => mapSet m p.1 p.2) m

theorem kvMap_eq (kvs : List Bytes) : parseKeyValuesIntoMap kvs = setAll [] (kvs.map parseKeyValue) := by
  unfold parseKeyValuesIntoMap setAll
  rw [List.foldl_map]

theorem setAll_nodup : ∀ (pairs m : List (Bytes × Bytes)), (m.map (·.1)).Nodup → ((setAll m pairs).map (·.1)).Nodup := by
  intro pairs
  induction pairs with
  | nil => intro m h; exact h
  | cons p ps ih => intro m h; exact ih _ (mapSet_nodup m p.1 p.2 h)

theorem mapSet_mem_iff (m : List (Bytes × Bytes)) (k v : Bytes) (q : Bytes × Bytes) :
    q ∈ mapSet m k v ↔ (q ∈ m ∧ q.1 ≠ k) ∨ q = (k, v) := by
  constructor
  · exact mapSet_mem' m k v q
  · rintro (⟨hq, hne⟩ | e)
    · unfold mapSet
      split
      · exact List.mem_map.mpr ⟨q, hq, by simp [hne]⟩
      · simp [hq]
    · rw [e]; exact mapSet_has m k v

theorem setAll_mem_iff : ∀ (pairs m : List (Bytes × Bytes)) (q : Bytes × Bytes),
    q ∈ setAll m pairs ↔ (lastValue pairs q.1 = some q.2 ∨ (lastValue pairs q.1 = none ∧ q ∈ m)) := by
  intro pairs
  induction pairs with
  | nil => intro m q; simp [setAll, lastValue]
  | cons p ps ih =>
    intro m q
    have hl : lastValue (p :: ps) q.1 =
        match lastValue ps q.1 with
        | some v => some v
        | none => if p.1 == q.1 then some p.2 else none := by
      unfold lastValue
      simp only [List.reverse_cons, List.find?_append]
      cases h : ps.reverse.find? (fun x => x.1 == q.1) with
      | some x => simp
      | none =>
        by_cases e : (p.1 == q.1) = true
        · simp [e]
        · simp [e]
    show q ∈ setAll (mapSet m p.1 p.2) ps ↔ _
    rw [ih, hl, mapSet_mem_iff]
    cases h : lastValue ps q.1 with
    | some v => simp
    | none =>
      by_cases e : p.1 = q.1
      · simp only [e, beq_self_eq_true, if_true, Option.some.injEq, ne_eq, not_true_eq_false, and_false, false_or,
          reduceCtorEq, false_and, or_false, true_and]
        constructor
        · intro h'; rw [h']
        · intro h'; cases q; simp_all
      · have e' : ¬ (p.1 == q.1) = true := by simpa using e
        have e2 : q.1 ≠ p.1 := fun h' => e h'.symm
        simp only [e', if_false, Bool.false_eq_true, reduceCtorEq, false_or, true_and, ne_eq, e2, not_false_eq_true, and_true]
        constructor
        · rintro (h' | h')
          · exact h'
          · exact absurd (congrArg Prod.fst h') e2
        · intro h'; exact Or.inl h'

/-- **The map `-k` arguments build.**  Names are distinct, and the entry of a name is the value of the LAST
`-k` argument with that name (earlier ones are overwritten – "last wins"). -/
theorem kvMap_spec (kvs : List Bytes) :
    ((parseKeyValuesIntoMap kvs).map (·.1)).Nodup ∧
    ∀ q : Bytes × Bytes, q ∈ parseKeyValuesIntoMap kvs ↔ lastValue (kvs.map parseKeyValue) q.1 = some q.2 := by
  rw [kvMap_eq]
  refine ⟨setAll_nodup _ [] (by simp), ?_⟩
  intro q
  rw [setAll_mem_iff]
  simp

/-! ### names of the special object -/

theorem indexedMembers_names : ∀ (texts : List Bytes) (i : Nat),
    (indexedMembers i texts).map (·.1) = (List.range' i texts.length).map natAscii := by
  intro texts
  induction texts with
  | nil => intro i; simp [indexedMembers]
  | cons v r ih => intro i; simp [indexedMembers, ih, List.range'_succ]

theorem specialMembers_names (texts : List Bytes) (order : List (Bytes × Bytes)) :
    (specialMembers texts order).map (·.1) =
      (List.range texts.length).map natAscii ++ sortNames (order.map (·.1)) := by
  simp [specialMembers, indexedMembers_names, List.range_eq_range', Function.comp_def]

theorem indexed_names_nodup (n : Nat) : ((List.range n).map natAscii).Nodup := by
  unfold List.Nodup
  rw [List.pairwise_map]
  exact List.Pairwise.imp (fun h e => h (natAscii_inj _ _ e)) List.nodup_range

/-! ### MarshalStringMapInferred -/

theorem marshal_text (order : List (Bytes × Bytes)) : marshalStringMap order = objText stringR order := by
  have : order.foldl (fun (jb : JB) p => jb.writeString p.1 p.2) JB.opened = writeAllW JB.writeString JB.opened order := rfl
  unfold marshalStringMap
  rw [this]
  exact writeAllW_opened writeString_eq order

theorem membersDecode_string (l : List (Bytes × Bytes)) : membersDecode (l.map (dec stringR)) l = true := by
  induction l with
  | nil => simp [membersDecode]
  | cons m l ih =>
    have e : dec stringR m = (m.1, JVal.str m.2) := rfl
    simp only [List.map_cons, e, membersDecode, decodesTo, ih]
    simp

/-! ### WriteInt -/

theorem digVal_cons (c : UInt8) (r : Bytes) : digVal (c :: r) = (c.toNat - 48) * 10 ^ r.length + digVal r := by
  have := digVal_append [c] r
  simpa [digVal] using this

theorem digVal_lt : ∀ b : Bytes, b.all isDig = true → digVal b < 10 ^ b.length := by
  intro b
  induction b with
  | nil => intro _; simp [digVal]
  | cons c r ih =>
    intro h
    simp only [List.all_cons, Bool.and_eq_true] at h
    have h1 := ih h.2
    have hc : c.toNat - 48 ≤ 9 := by
      have := h.1
      simp only [isDig, Bool.and_eq_true, decide_eq_true_eq] at this
      have := UInt8.le_iff_toNat_le.mp this.2
      simp at this; omega
    rw [digVal_cons, List.length_cons, Nat.pow_succ]
    calc (c.toNat - 48) * 10 ^ r.length + digVal r
        < (c.toNat - 48) * 10 ^ r.length + 10 ^ r.length := by omega
      _ = (c.toNat - 48 + 1) * 10 ^ r.length := by rw [Nat.add_mul]; simp
      _ ≤ 10 * 10 ^ r.length := Nat.mul_le_mul_right _ (by omega)
      _ = 10 ^ r.length * 10 := Nat.mul_comm _ _

theorem natDigits_all (n : Nat) : (natDigits n).all isDig = true := by
  simp only [natDigits, List.all_map, List.all_eq_true]
  intro c hc
  have hd := Nat.isDigit_of_mem_toDigits (by decide) (by decide) hc
  simp only [Char.isDigit, Bool.and_eq_true, decide_eq_true_eq] at hd
  have h1 : 48 ≤ c.toNat := UInt32.le_iff_toNat_le.mp hd.1
  have h2 : c.toNat ≤ 57 := UInt32.le_iff_toNat_le.mp hd.2
  simp only [Function.comp, isDig, Bool.and_eq_true, decide_eq_true_eq]
  constructor
  · apply UInt8.le_iff_toNat_le.mpr; simp; omega
  · apply UInt8.le_iff_toNat_le.mpr; simp; omega

theorem natDigits_ne (n : Nat) : natDigits n ≠ [] := by
  simp [natDigits, Nat.toDigits_ne_nil]

theorem natDigits_length (n : Nat) : (natDigits n).length = (Nat.toDigits 10 n).length := by simp [natDigits]

/-- `strconv.Itoa` never writes a superfluous leading zero -/
theorem natDigits_no_leading_zero (n : Nat) : ¬ (1 < (natDigits n).length ∧ (natDigits n).head? = some 0x30) := by
  rintro ⟨hl, hh⟩
  have hv : digVal (natDigits n) = n := digVal_natAscii n
  have hall := natDigits_all n
  match hd : natDigits n, hl, hh with
  | a :: b :: r, _, hh =>
    simp at hh; subst hh
    rw [hd] at hv hall
    simp only [List.all_cons, Bool.and_eq_true] at hall
    have hlt := digVal_lt (b :: r) (by simp [hall.2])
    rw [digVal_cons] at hv
    have hn : n < 10 ^ (b :: r).length := by rw [← hv]; simpa using hlt
    have := (Nat.length_toDigits_le_iff (b := 10) (n := n) (k := (b :: r).length) (by decide) (by simp)).mpr hn
    rw [← natDigits_length, hd] at this
    simp at this
    omega

theorem parseNumber_itoa (n : Int) (t : Bytes) (ht : EndsNumber t) :
    parseNumber (itoa n ++ t) = some (.num n 0, t) := by
  by_cases hneg : n < 0
  · have hi : itoa n = 0x2d :: natDigits n.natAbs := by simp [itoa, hneg]
    have hp := parseNumber_int (natDigits n.natAbs) t (natDigits_ne _) (natDigits_all _)
      (natDigits_no_leading_zero _) ht
    obtain ⟨a, ha, hda⟩ := head_digit_append (natDigits n.natAbs) t (natDigits_ne _) (natDigits_all _)
    have hnn : ¬ ((natDigits n.natAbs ++ t).head? = some 0x2d) := by
      rw [ha]; intro e; simp at e; subst e; simp [isDig] at hda
    rw [hi]
    unfold parseNumber at hp ⊢
    simp only [hnn, if_false] at hp
    simp only [List.cons_append, List.head?_cons, if_true, List.tail_cons]
    revert hp
    generalize ((natDigits n.natAbs ++ t).span isDig) = sp
    intro hp
    by_cases h1 : sp.1 = []
    · simp [h1] at hp
    · rw [if_neg h1] at hp ⊢
      by_cases h2 : 1 < sp.1.length ∧ sp.1.head? = some 0x30
      · rw [if_pos h2] at hp; cases hp
      · rw [if_neg h2] at hp ⊢
        cases h3 : parseFrac sp.2 with
        | none => simp [h3] at hp
        | some p =>
          obtain ⟨fp, b2⟩ := p
          simp only [h3] at hp ⊢
          cases h4 : parseExp b2 with
          | none => simp [h4] at hp
          | some q =>
            obtain ⟨e, b3⟩ := q
            simp only [h4, Option.some.injEq, Prod.mk.injEq, JVal.num.injEq] at hp ⊢
            refine ⟨⟨?_, hp.1.2⟩, hp.2⟩
            have hv : digVal (natDigits n.natAbs) = n.natAbs := digVal_natAscii _
            rw [hp.1.1, hv]
            omega
  · have hi : itoa n = natDigits n.natAbs := by simp [itoa, hneg]
    rw [hi, parseNumber_int (natDigits n.natAbs) t (natDigits_ne _) (natDigits_all _)
      (natDigits_no_leading_zero _) ht]
    have : digVal (natDigits n.natAbs) = n.natAbs := digVal_natAscii _
    rw [this]
    simp; omega

/-- the renderer of `WriteInt(_, n)` (constant in the string argument) -/
def intR (n : Int) : ValR :=
  ⟨fun _ => itoa n, fun _ => .num n 0,
   by
    intro _ t ht
    have hp := parseNumber_itoa n t ht.endsNumber
    have hne : itoa n ≠ [] := by
      unfold itoa; split
      · simp
      · exact natDigits_ne _
    match hi : itoa n, hne with
    | c :: r, _ =>
      rw [hi] at hp
      have hc : c = 0x2d ∨ isDig c = true := by
        unfold itoa at hi
        split at hi
        · simp at hi; exact Or.inl hi.1.symm
        · have := natDigits_all n.natAbs
          rw [hi] at this
          simp only [List.all_cons, Bool.and_eq_true] at this
          exact Or.inr this.1
      have h1 : c ≠ 0x22 := by rcases hc with h | h; subst h; decide; exact isDig_ne c _ h (by decide)
      have h2 : c ≠ 0x74 := by rcases hc with h | h; subst h; decide; exact isDig_ne c _ h (by decide)
      have h3 : c ≠ 0x66 := by rcases hc with h | h; subst h; decide; exact isDig_ne c _ h (by decide)
      have h4 : c ≠ 0x6e := by rcases hc with h | h; subst h; decide; exact isDig_ne c _ h (by decide)
      simp only [List.cons_append] at hp ⊢
      simp only [parseValue, h1, h2, h3, h4, if_false]
      exact hp,
   by
    intro _ t
    have hne : itoa n ≠ [] := by
      unfold itoa; split
      · simp
      · exact natDigits_ne _
    match hi : itoa n, hne with
    | c :: r, _ =>
      have hc : c = 0x2d ∨ isDig c = true := by
        unfold itoa at hi
        split at hi
        · simp at hi; exact Or.inl hi.1.symm
        · have := natDigits_all n.natAbs
          rw [hi] at this
          simp only [List.all_cons, Bool.and_eq_true] at this
          exact Or.inr this.1
      have : isWs c = false := by
        rcases hc with h | h
        · subst h; decide
        · exact isWs_of_isDig c h
      simp [skipWs, this]⟩

theorem writeInt_eq (n : Int) : Writes (intR n) (fun j k _ => j.writeInt k n) := by
  intro j k v
  by_cases hk : 0 < j.keyCount <;> simp [hk, JB.writeInt, JB.writeLiteral, JB.writeKey, renderMember, intR]

end Rare.C16
