import Rare.Proofs.C16Rat
import Rare.Proofs.C16Json
/-! C16: member names of the numbered part are the decimal numerals of the group numbers. -/
namespace Rare.C16

theorem digFold_chars : ∀ (l : List Char) (acc : Nat), (∀ c ∈ l, c.isDigit = true) →
    (l.map (fun c => UInt8.ofNat c.toNat)).foldl (fun a c => a * 10 + (c.toNat - 48)) acc
      = Nat.ofDigitChars 10 l acc := by
  intro l
  induction l with
  | nil => intro acc _; rfl
  | cons c l ih =>
    intro acc h
    have hd := h c (by simp)
    simp only [Char.isDigit, Bool.and_eq_true, decide_eq_true_eq] at hd
    have h2 : c.toNat ≤ 57 := UInt32.le_iff_toNat_le.mp hd.2
    simp only [List.map_cons, List.foldl_cons, Nat.ofDigitChars]
    have e : (UInt8.ofNat c.toNat).toNat = c.toNat := by simp; omega
    rw [e, ih _ (fun d hd => h d (by simp [hd]))]
    simp [Nat.ofDigitChars, Nat.mul_comm]

/-- the name of numbered member `n` reads back as `n` -/
theorem digVal_natAscii (n : Nat) : digVal (natAscii n) = n := by
  unfold digVal natAscii natDigits
  rw [digFold_chars _ 0 (fun c hc => Nat.isDigit_of_mem_toDigits (by decide) (by decide) hc)]
  exact Nat.ofDigitChars_toDigits (by decide) (by decide)

theorem natAscii_inj (a b : Nat) (h : natAscii a = natAscii b) : a = b := by
  rw [← digVal_natAscii a, ← digVal_natAscii b, h]

theorem numbered_names_nodup (indices : List Int) (line : Bytes) :
    ((expectedNumbered indices line).map (·.1)).Nodup := by
  unfold expectedNumbered
  have hn : (List.range (indices.length / 2)).Nodup := List.nodup_range
  generalize List.range (indices.length / 2) = is at hn
  induction is with
  | nil => simp
  | cons i is ih =>
    rw [List.nodup_cons] at hn
    simp only [List.filterMap_cons]
    split
    · exact ih hn.2
    · rename_i b hb
      simp only [List.map_cons, List.nodup_cons]
      refine ⟨?_, ih hn.2⟩
      split at hb
      · cases hb
      · simp only [Option.some.injEq] at hb
        subst hb
        simp only [List.mem_map, List.mem_filterMap, not_exists, not_and]
        intro p ⟨j, hj, hp⟩ e
        split at hp
        · cases hp
        · simp only [Option.some.injEq] at hp
          subst hp
          have := natAscii_inj _ _ e
          subst this
          exact hn.1 hj

theorem named_names (order : List (Bytes × Int)) (indices : List Int) (line : Bytes) :
    (namedMembers order indices line).map (·.1) = sortNames (order.map (·.1)) := by
  simp [namedMembers, List.map_map, Function.comp_def]

end Rare.C16
