import Rare.Proofs.C12Lazy
import Rare.Proofs.C12Amd64
import Rare.Proofs.C12Ext
/-! Mode-level (case-sensitive / ignore-case) forms of the facts of `Proofs/C12Lazy.lean`. -/
namespace Rare.C12

/-- the pattern a mode really searches for: the literals as written, or folded -/
def patFor (ic : Bool) (p : Pat) : Pat := if ic then p.lowerLits else p

/-- the backtracking matcher of a mode -/
def lazyFor (ic : Bool) (p : Pat) (line : Bytes) : Option (List Nat) :=
  if ic then lazyDissectIC p line else lazyDissect p line

theorem specFor_patFor (ic : Bool) (p : Pat) (line : Bytes) :
    specFor ic p line = specDissect (patFor ic p) (foldFor ic line) := by
  cases ic <;> simp [specFor, patFor, foldFor, specDissectIC]

theorem lazyFor_eq_specFor (ic : Bool) (p : Pat) (line : Bytes) : lazyFor ic p line = specFor ic p line := by
  cases ic <;> simp [lazyFor, specFor, lazyDissectIC, specDissectIC, lazyDissect_eq_spec]

theorem patFor_toks_length (ic : Bool) (p : Pat) : (patFor ic p).toks.length = p.toks.length := by
  cases ic <;> simp [patFor, Pat.lowerLits]

theorem patFor_pre (ic : Bool) (p : Pat) : (patFor ic p).pre = foldFor ic p.pre := by
  cases ic <;> simp [patFor, Pat.lowerLits, foldFor]

theorem foldFor_length (ic : Bool) (b : Bytes) : (foldFor ic b).length = b.length := by
  cases ic <;> simp [foldFor, lower_length]

theorem foldFor_take (ic : Bool) (b : Bytes) (k : Nat) : foldFor ic (b.take k) = (foldFor ic b).take k := by
  cases ic <;> simp [foldFor, lower_take]

theorem foldFor_drop (ic : Bool) (b : Bytes) (k : Nat) : foldFor ic (b.drop k) = (foldFor ic b).drop k := by
  cases ic <;> simp [foldFor, lower_drop]

theorem foldFor_append (ic : Bool) (a b : Bytes) : foldFor ic (a ++ b) = foldFor ic a ++ foldFor ic b := by
  cases ic <;> simp [foldFor, lower]

theorem patFor_lit_ne (ic : Bool) (p : Pat) (h : ∀ t ∈ p.toks, t.lit ≠ []) :
    ∀ t ∈ (patFor ic p).toks, t.lit ≠ [] := by
  cases ic
  · simpa [patFor] using h
  · intro t ht
    simp only [patFor, Pat.lowerLits, if_true, List.mem_map] at ht
    obtain ⟨t0, ht0, rfl⟩ := ht
    simp only [Tok.lowerLit, ne_eq, lower_eq_nil]
    exact h t0 ht0

/-- single-line answer of a compiled pattern, read off `matchAll` -/
theorem matchAll_one {ic : Bool} {p : Pat} (hp : p.Shape) {d : Dissect}
    (hc : compileEx p.render ic = .ok d) (line : Bytes) (r : Option (List Int)) :
    matchAll d [line] = .ok [r] ↔ r = (specFor ic p line).map (·.map Int.ofNat) := by
  rw [matchAll_eq hp hc]
  simp only [List.map_cons, List.map_nil, Except.ok.injEq, List.cons.injEq, and_true]
  exact eq_comm

theorem map_ofNat_injective {a b : List Nat} (h : a.map Int.ofNat = b.map Int.ofNat) : a = b := by
  induction a generalizing b with
  | nil => cases b <;> simp_all
  | cons x xs ih =>
    cases b with
    | nil => simp at h
    | cons y ys =>
      simp only [List.map_cons, List.cons.injEq] at h
      rw [ih h.2, Int.ofNat_inj.mp h.1]

end Rare.C12
