import Rare.Model.C07Acc
import Rare.Spec.C07Acc
import Rare.Proofs.C07Split
/-! Refinement proof: the `AccumulatingGroup` model computes the spec fold (`Spec/C07Acc`). -/
namespace Rare.C07
open Rare.Expr (Comp Stage Ctx)

/-! ### the part look-up -/

theorem nul_ne_nil : nul ≠ [] := by decide

theorem nthNext_tracks (n : Nat) (s : Splitter) (fs : List Bytes) (r : Bytes) (hd : s.delim ≠ [])
    (h : Tracks s fs) : Splitter.nthNext (n + 1) s r = fs.getD n [] := by
  induction n generalizing s fs r with
  | zero =>
    obtain ⟨a, _, _⟩ := tracks_next s fs hd h
    have hdone := tracks_done s fs h
    simp only [Splitter.nthNext, hdone]
    cases fs with
    | nil => simp
    | cons x t => simpa using a
  | succ m ih =>
    obtain ⟨a, t, d⟩ := tracks_next s fs hd h
    have hdone := tracks_done s fs h
    rw [Splitter.nthNext, hdone]
    cases fs with
    | nil => simp
    | cons x t' =>
      simp only [List.isEmpty_cons, Bool.false_eq_true, if_false]
      rw [ih s.next'.2 t' s.next'.1 (by rw [d]; exact hd) t]
      simp

theorem accGetMatch_eq (m : Bytes) : accGetMatch m = partOf m := by
  funext idx
  unfold accGetMatch partOf
  by_cases h0 : idx = 0
  · simp [h0]
  · simp only [h0, if_false]
    by_cases hneg : idx < 0
    · have : idx.toNat = 0 := by omega
      simp [hneg, this, Splitter.nthNext]
    · simp only [hneg, if_false]
      obtain ⟨n, hn⟩ : ∃ n, idx.toNat = n + 1 := ⟨idx.toNat - 1, by omega⟩
      rw [hn, nthNext_tracks n _ (splitOn nul m) [] nul_ne_nil (tracks_init nul m)]
      simp

/-- The sort context numbers the parts of the group key from 0. -/
theorem sortGetMatch_eq (k : Bytes) (idx : Int) :
    sortGetMatch k idx = if idx < 0 then [] else (splitOn nul k).getD idx.toNat [] := by
  unfold sortGetMatch
  split
  · rfl
  · rw [nthNext_tracks _ _ (splitOn nul k) [] nul_ne_nil (tracks_init nul k)]

/-! ### the group key -/

theorem nulJoin_cons (a : Bytes) (r : List Bytes) : nulJoin (a :: r) = a ++ r.flatMap (fun x => nul ++ x) := by
  induction r generalizing a with
  | nil => simp [nulJoin]
  | cons b r ih => rw [nulJoin, ih]; simp

/-- Evaluate a list of stages in order (what `mapM` does in `Except`). -/
theorem mapM_except_cons {α β : Type} (f : α → Except String β) (a : α) (l : List α) :
    (a :: l).mapM f = (match f a with
      | .error m => .error m
      | .ok b => match l.mapM f with
        | .error m => .error m
        | .ok bs => .ok (b :: bs)) := by
  rw [List.mapM_cons]
  cases f a <;> simp [bind, Except.bind, pure, Except.pure]
  cases l.mapM f <;> rfl

theorem joinGroupKey_succ (ctx : Ctx) (gs : List AccGroupDef) (i : Nat) (sb : Bytes) :
    joinGroupKey ctx gs (i + 1) sb =
      (gs.mapM (m := Except String) fun g => g.expr.run ctx).map fun vs => sb ++ vs.flatMap (fun x => nul ++ x) := by
  induction gs generalizing i sb with
  | nil => simp [joinGroupKey, Except.map, pure, Except.pure]
  | cons g rest ih =>
    rw [joinGroupKey, mapM_except_cons]
    cases hg : g.expr.run ctx with
    | error m => simp [Except.map]
    | ok v =>
      simp only [Nat.zero_lt_succ, if_true]
      rw [ih]
      cases rest.mapM (m := Except String) fun g => g.expr.run ctx with
      | error m => simp [Except.map]
      | ok vs => simp [Except.map]

theorem buildGroupKey_eq (s : AccGroup) (ctx : Ctx) :
    s.buildGroupKey ctx = (s.groupDef.mapM (m := Except String) fun g => g.expr.run ctx).map nulJoin := by
  unfold AccGroup.buildGroupKey
  match hg : s.groupDef with
  | [] => simp [Except.map, pure, Except.pure, nulJoin]
  | [g] =>
    simp only [mapM_except_cons, List.mapM_nil, pure, Except.pure]
    cases g.expr.run ctx <;> simp [Except.map, nulJoin]
  | g :: g2 :: rest =>
    simp only
    rw [joinGroupKey, mapM_except_cons]
    cases g.expr.run ctx with
    | error m => simp [Except.map]
    | ok v =>
      simp only [Nat.lt_irrefl, if_false, List.nil_append]
      rw [joinGroupKey_succ]
      cases (g2 :: rest).mapM (m := Except String) fun g => g.expr.run ctx with
      | error m => simp [Except.map]
      | ok vs => simp [Except.map, nulJoin_cons]


/-! ### model definitions seen as spec definitions -/

def stageExpr (e : Stage) : SExpr := fun L => e.run { getMatch := L.part, getKey := L.key }

def AccDataDef.toSpec (d : AccDataDef) : SCol := ⟨d.name, d.initial, stageExpr d.expr⟩
def AccGroup.specCols (s : AccGroup) : List SCol := s.colDef.map AccDataDef.toSpec
def AccGroup.specGroups (s : AccGroup) : List SExpr := s.groupDef.map fun g => stageExpr g.expr

/-- Invariant of `AccumulatingGroup`: data-column names are distinct, `colIdxLookup` is exactly the
inverse of the column list, every row has one entry per data column, group names are distinct. -/
structure AccWF (s : AccGroup) : Prop where
  names_nodup : s.dataCols.Nodup
  idx : ∀ k j, aget s.colIdx k = some j ↔ s.dataCols[j]? = some k
  rows : ∀ k row, aget s.data k = some row → row.length = s.colDef.length
  gnames_nodup : s.groupCols.Nodup

theorem specCols_names (s : AccGroup) : s.specCols.map (·.name) = s.dataCols := by
  simp [AccGroup.specCols, AccGroup.dataCols, AccDataDef.toSpec]

theorem specCols_length (s : AccGroup) : s.specCols.length = s.colDef.length := by
  simp [AccGroup.specCols]

/-! ### named look-up -/

theorem zip_lookup_none (names : List Bytes) (row : List Bytes) (k : Bytes) (h : k ∉ names) :
    (names.zip row).lookup k = none := by
  induction names generalizing row with
  | nil => simp
  | cons n ns ih =>
    cases row with
    | nil => simp
    | cons r rs =>
      have hne : ¬ k = n := fun e => h (by simp [e])
      have : (k == n) = false := by simpa using hne
      simp only [List.zip_cons_cons, List.lookup_cons, this]
      exact ih rs (fun hm => h (List.mem_cons_of_mem _ hm))

theorem zip_lookup_some (names : List Bytes) (row : List Bytes) (k : Bytes) (j : Nat)
    (hn : names.Nodup) (hj : names[j]? = some k) : (names.zip row).lookup k = row[j]? := by
  induction names generalizing row j with
  | nil => simp at hj
  | cons n ns ih =>
    have hnd := List.nodup_cons.mp hn
    cases j with
    | zero =>
      have : n = k := by simpa using hj
      subst this
      cases row with
      | nil => simp
      | cons r rs => simp
    | succ j =>
      have hj' : ns[j]? = some k := by simpa using hj
      have hmem : k ∈ ns := List.mem_of_getElem? hj'
      have hne : (k == n) = false := by
        have : ¬ k = n := fun e => hnd.1 (e ▸ hmem)
        simpa using this
      cases row with
      | nil => simp
      | cons r rs =>
        simp only [List.zip_cons_cons, List.lookup_cons, hne, List.getElem?_cons_succ]
        exact ih rs j hnd.2 hj'

theorem accKeyLookup_eq (s : AccGroup) (wf : AccWF s) (row : List Bytes) (k : Bytes) :
    accKeyLookup s.colIdx row k = named s.dataCols row k := by
  unfold accKeyLookup named
  cases hg : aget s.colIdx k with
  | some j =>
    have := (wf.idx k j).mp hg
    rw [zip_lookup_some _ row k j wf.names_nodup this]
    simp [List.getD_eq_getElem?_getD]
  | none =>
    have hnot : k ∉ s.dataCols := by
      intro hm
      obtain ⟨j, hj⟩ := List.getElem?_of_mem hm
      have := (wf.idx k j).mpr hj
      rw [hg] at this; cases this
    rw [zip_lookup_none _ row k hnot]; rfl

/-- Every index the look-up closure uses is inside the row (no Go panic, no default value taken). -/
theorem accKeyLookup_in_range (s : AccGroup) (wf : AccWF s) (k : Bytes) (j : Nat) (row : List Bytes)
    (hrow : row.length = s.colDef.length) (h : aget s.colIdx k = some j) : j < row.length := by
  have := (wf.idx k j).mp h
  have hlt : j < s.dataCols.length := by
    rcases Nat.lt_or_ge j s.dataCols.length with h1 | h1
    · exact h1
    · rw [List.getElem?_eq_none h1] at this; cases this
  simpa [hrow, AccGroup.dataCols] using hlt

/-! ### the column loop -/

theorem sampleCols_length (colIdx : List (Bytes × Nat)) (e : Bytes) (ds : List AccDataDef) (i : Nat)
    (row row' : List Bytes) (h : sampleCols colIdx e ds i row = .ok row') : row'.length = row.length := by
  induction ds generalizing i row with
  | nil => simp [sampleCols] at h; subst h; rfl
  | cons d rest ih =>
    rw [sampleCols] at h
    split at h
    · cases h
    · split at h
      · cases h
      · have := ih _ _ h
        simpa using this

theorem accCtx_col (s : AccGroup) (wf : AccWF s) (e cur : Bytes) (row : List Bytes) (i : Nat)
    (hcur : row[i]? = some cur) :
    accCtx e cur (some (accKeyLookup s.colIdx row)) =
      { getMatch := (colLookups s.dataCols e row i).part, getKey := (colLookups s.dataCols e row i).key } := by
  unfold accCtx colLookups
  congr 1
  · exact accGetMatch_eq e
  · funext k
    unfold accGetKey dot
    by_cases hk : k = [46]
    · simp [hk, List.getD_eq_getElem?_getD, hcur]
    · simp only [hk, if_false]
      exact accKeyLookup_eq s wf row k

theorem updCol_at (cols : List SCol) (e : Bytes) (row : List Bytes) (i : Nat) (c : SCol) (h : cols[i]? = some c) :
    updCol cols e row i = (c.eval (colLookups (cols.map (·.name)) e row i)).map fun v => row.set i v := by
  unfold updCol; rw [h]

theorem sampleCols_eq (s : AccGroup) (wf : AccWF s) (e : Bytes) (k i : Nat) (row : List Bytes)
    (hk : k = s.colDef.length - i) (hrow : row.length = s.colDef.length) :
    sampleCols s.colIdx e (s.colDef.drop i) i row =
      (List.range' i k).foldlM (updCol s.specCols e) row := by
  induction k generalizing i row with
  | zero =>
    have : s.colDef.drop i = [] := List.drop_eq_nil_of_le (by omega)
    rw [this]; simp [sampleCols, pure, Except.pure]
  | succ k ih =>
    have hi : i < s.colDef.length := by omega
    rw [List.drop_eq_getElem_cons hi, sampleCols, List.range'_succ, List.foldlM_cons]
    have hcur : row[i]? = some row[i] := List.getElem?_eq_getElem (by omega)
    rw [hcur]
    simp only
    have hcol : s.specCols[i]? = some (s.colDef[i]).toSpec := by
      simp [AccGroup.specCols, List.getElem?_map, List.getElem?_eq_getElem hi]
    rw [updCol_at _ _ _ _ _ hcol]
    simp only [specCols_names, AccDataDef.toSpec, stageExpr]
    rw [accCtx_col s wf e row[i] row i hcur]
    cases hr : (s.colDef[i]).expr.run
        { getMatch := (colLookups s.dataCols e row i).part, getKey := (colLookups s.dataCols e row i).key } with
    | error m => simp [Except.map, bind, Except.bind]
    | ok v =>
      simp only [Except.map, bind, Except.bind]
      exact ih (i + 1) (row.set i v) (by omega) (by simpa using hrow)

theorem sampleCols_updRow (s : AccGroup) (wf : AccWF s) (e : Bytes) (row : List Bytes)
    (hrow : row.length = s.colDef.length) :
    sampleCols s.colIdx e s.colDef 0 row = updRow s.specCols row e := by
  have := sampleCols_eq s wf e s.colDef.length 0 row (by omega) hrow
  simpa [updRow, specCols_length, List.range_eq_range'] using this


/-! ### one sample, then a history -/

/-- The model state holds exactly the spec map. -/
def Holds (s : AccGroup) (st : SState) : Prop := ∀ k, aget s.data k = st k

/-- Only `data` differs. -/
def SameDefs (s s' : AccGroup) : Prop :=
  s'.groupDef = s.groupDef ∧ s'.colDef = s.colDef ∧ s'.colIdx = s.colIdx ∧ s'.sortExpr = s.sortExpr

theorem SameDefs.refl (s : AccGroup) : SameDefs s s := ⟨rfl, rfl, rfl, rfl⟩
theorem SameDefs.trans {a b c : AccGroup} (h1 : SameDefs a b) (h2 : SameDefs b c) : SameDefs a c :=
  ⟨h2.1.trans h1.1, h2.2.1.trans h1.2.1, h2.2.2.1.trans h1.2.2.1, h2.2.2.2.trans h1.2.2.2⟩

theorem SameDefs.specCols {a b : AccGroup} (h : SameDefs a b) : b.specCols = a.specCols := by
  unfold AccGroup.specCols; rw [h.2.1]
theorem SameDefs.specGroups {a b : AccGroup} (h : SameDefs a b) : b.specGroups = a.specGroups := by
  unfold AccGroup.specGroups; rw [h.1]

/-- Both sides fail with the same message, or both succeed with related results. -/
inductive ExRel {α β : Type} (R : α → β → Prop) : Except String α → Except String β → Prop
  | ok {a : α} {b : β} : R a b → ExRel R (.ok a) (.ok b)
  | error {m : String} : ExRel R (.error m) (.error m)

theorem ExRel.cases {α β : Type} {R : α → β → Prop} {x : Except String α} {y : Except String β}
    (h : ExRel R x y) : (∃ a b, x = .ok a ∧ y = .ok b ∧ R a b) ∨ (∃ m, x = .error m ∧ y = .error m) := by
  cases h with
  | ok r => exact Or.inl ⟨_, _, rfl, rfl, r⟩
  | error => exact Or.inr ⟨_, rfl, rfl⟩

theorem mapM_map_except {α β γ : Type} (f : α → β) (g : β → Except String γ) (l : List α) :
    (l.map f).mapM g = l.mapM (fun a => g (f a)) := by
  induction l with
  | nil => rfl
  | cons a l ih => rw [List.map_cons, mapM_except_cons, mapM_except_cons, ih]

theorem groupCtx_eq (e : Bytes) :
    accCtx e [] none = { getMatch := (groupLookups e).part, getKey := (groupLookups e).key } := by
  unfold accCtx groupLookups
  congr 1
  · exact accGetMatch_eq e
  · funext k; unfold accGetKey; split <;> rfl

theorem buildGroupKey_spec (s : AccGroup) (e : Bytes) :
    s.buildGroupKey (accCtx e [] none) = groupKeyOf s.specGroups e := by
  rw [buildGroupKey_eq, groupKeyOf, AccGroup.specGroups, mapM_map_except, groupCtx_eq]
  rfl

theorem initialRow_spec (s : AccGroup) : initialRow s.specCols = s.colDef.map (·.initial) := by
  simp [initialRow, AccGroup.specCols, AccDataDef.toSpec]

theorem sample_refines (s : AccGroup) (wf : AccWF s) (st : SState) (hh : Holds s st) (e : Bytes) :
    ExRel (fun s' st' => Holds s' st' ∧ AccWF s' ∧ SameDefs s s')
      (s.sample e) (specSample s.specGroups s.specCols st e) := by
  unfold AccGroup.sample specSample
  rw [buildGroupKey_spec]
  cases groupKeyOf s.specGroups e with
  | error m => exact ExRel.error
  | ok gk =>
    simp only
    have hrowEq : s.rowOrInit gk = (st gk).getD (initialRow s.specCols) := by
      unfold AccGroup.rowOrInit
      rw [← hh gk, initialRow_spec]
      cases aget s.data gk <;> rfl
    rw [hrowEq]
    have hlen : ((st gk).getD (initialRow s.specCols)).length = s.colDef.length := by
      rw [← hh gk]
      cases hg : aget s.data gk with
      | some row => simpa using wf.rows gk row hg
      | none => simp [initialRow_spec]
    rw [sampleCols_updRow s wf e _ hlen]
    cases hu : updRow s.specCols ((st gk).getD (initialRow s.specCols)) e with
    | error m => exact ExRel.error
    | ok row =>
      refine ExRel.ok ⟨?_, ?_, ⟨rfl, rfl, rfl, rfl⟩⟩
      · intro k
        show aget (aset s.data gk row) k = _
        rw [aget_aset]
        by_cases hk : gk = k
        · subst hk; simp
        · have : ¬ k = gk := fun e => hk e.symm
          simp [hk, this, hh k]
      · have hrl : row.length = s.colDef.length := by
          rw [← sampleCols_updRow s wf e _ hlen] at hu
          rw [sampleCols_length _ _ _ _ _ _ hu, hlen]
        refine ⟨wf.names_nodup, wf.idx, ?_, wf.gnames_nodup⟩
        intro k r hr
        change aget (aset s.data gk row) k = some r at hr
        rw [aget_aset] at hr
        by_cases hk : gk = k
        · simp [hk] at hr; subst hr; exact hrl
        · simp [hk] at hr; exact wf.rows k r hr

theorem foldlM_except_cons {α σ : Type} (f : σ → α → Except String σ) (s : σ) (a : α) (l : List α) :
    (a :: l).foldlM f s = (match f s a with
      | .error m => .error m
      | .ok s' => l.foldlM f s') := by
  rw [List.foldlM_cons]; cases f s a <;> rfl

theorem run_refines (s : AccGroup) (wf : AccWF s) (st : SState) (hh : Holds s st) (h : List Bytes) :
    ExRel (fun s' st' => Holds s' st' ∧ AccWF s' ∧ SameDefs s s')
      (s.run h) (h.foldlM (specSample s.specGroups s.specCols) st) := by
  induction h generalizing s st with
  | nil => exact ExRel.ok ⟨hh, wf, SameDefs.refl s⟩
  | cons e h ih =>
    unfold AccGroup.run
    rw [foldlM_except_cons, foldlM_except_cons]
    rcases (sample_refines s wf st hh e).cases with ⟨s1, st1, e1, e2, hh1, wf1, sd1⟩ | ⟨m, e1, e2⟩
    · rw [e1, e2]
      simp only
      have := ih s1 wf1 st1 hh1
      rw [sd1.specCols, sd1.specGroups] at this
      unfold AccGroup.run at this
      rcases this.cases with ⟨s2, st2, f1, f2, r2⟩ | ⟨m, f1, f2⟩
      · rw [f1, f2]; exact ExRel.ok ⟨r2.1, r2.2.1, sd1.trans r2.2.2⟩
      · rw [f1, f2]; exact ExRel.error
    · rw [e1, e2]; exact ExRel.error

end Rare.C07
