import Rare.Proofs.C09WFAll
import Rare.Spec.C09Pos
/-! C09: the syntax errors `Compile` reports are exactly `synErrs` – kind, text, index, order – for all templates. -/
namespace Rare.C09
open Rare Rare.Expr

def synKindOf : ErrKind → Option SynKind
  | .unterminated => some .unterminated
  | .emptyStatement => some .emptyStatement
  | .missingFunction => some .missingFunction
  | .func _ => none

/-- The syntax errors among the recorded errors, in the order recorded (builder errors – `.func` – dropped). -/
def synOf (errs : List CErr) : List SynErr :=
  errs.filterMap fun e => (synKindOf e.kind).map fun k => ⟨k, e.context, e.index⟩

theorem synOf_nil : synOf [] = [] := rfl

theorem synOf_append (a b : List CErr) : synOf (a ++ b) = synOf a ++ synOf b := by
  simp [synOf, List.filterMap_append]

theorem synOf_shift (l : List CErr) (k : Nat) :
    synOf (l.map fun e => { e with index := e.index + k }) = (synOf l).map (SynErr.shift k) := by
  induction l with
  | nil => rfl
  | cons e r ih =>
    have ih' : synOf (List.map (fun e => ({ e with index := e.index + k } : CErr)) r) = (synOf r).map (SynErr.shift k) := ih
    simp only [List.map_cons]
    show synOf ([_] ++ _) = _
    rw [synOf_append, ih']
    show _ = List.map (SynErr.shift k) (synOf ([e] ++ r))
    rw [synOf_append, List.map_append]
    congr 1
    obtain ⟨kind, c, i⟩ := e
    cases kind <;> simp [synOf, synKindOf, SynErr.shift]

theorem synOf_func (tag : String) (c : List Char) (i : Nat) : synOf [⟨.func tag, c, i⟩] = [] := by
  simp [synOf, synKindOf]

/-- a syntax error as a recorded error -/
def SynErr.toCErr (e : SynErr) : CErr :=
  ⟨match e.kind with
    | .unterminated => .unterminated | .emptyStatement => .emptyStatement | .missingFunction => .missingFunction,
   e.context, e.index⟩

theorem synOf_allSyn (l : List CErr) (h : AllSyn l) : l = (synOf l).map SynErr.toCErr := by
  induction l with
  | nil => rfl
  | cons e r ih =>
    have hr : AllSyn r := fun x hx => h x (List.mem_cons_of_mem _ hx)
    have he := h e (by simp)
    show [e] ++ r = List.map _ (synOf ([e] ++ r))
    rw [synOf_append, List.map_append, ← ih hr]
    congr 1
    obtain ⟨kind, c, i⟩ := e
    cases kind with
    | unterminated => rfl
    | emptyStatement => rfl
    | missingFunction => rfl
    | func tag => simp [syntactic] at he

theorem flatMap_congr' {α β : Type} (l : List α) (f g : α → List β) (h : ∀ a ∈ l, f a = g a) :
    l.flatMap f = l.flatMap g := by
  induction l with
  | nil => rfl
  | cons a r ih =>
    simp only [List.flatMap_cons]
    rw [h a (by simp), ih (fun b hb => h b (List.mem_cons_of_mem _ hb))]

/-! ### unfolding `stmtsGo` / `openGo` -/

theorem stmts_nil (d : Nat) (cur : List Char) (s i : Nat) : stmtsGo false d cur s i [] = [] := by rw [stmtsGo]
theorem stmts_esc_last (d : Nat) (cur : List Char) (s i : Nat) : stmtsGo false d cur s i ['\\'] = [] := by
  rw [stmtsGo]; simp [stmtsGo]
theorem stmts_esc (d : Nat) (cur : List Char) (s i : Nat) (e : Char) (rest : List Char) :
    stmtsGo false d cur s i ('\\' :: e :: rest) = stmtsGo false d (cur ++ [unescape e]) s (i + 2) rest := by
  rw [stmtsGo]; simp [stmtsGo, unescapeSpec_eq]
theorem stmts_open0 (cur : List Char) (s i : Nat) (rest : List Char) :
    stmtsGo false 0 cur s i ('{' :: rest) = stmtsGo false 1 [] i (i + 1) rest := by
  rw [stmtsGo]; simp
theorem stmts_openN (d : Nat) (hd : d ≠ 0) (cur : List Char) (s i : Nat) (rest : List Char) :
    stmtsGo false d cur s i ('{' :: rest) = stmtsGo false (d + 1) (cur ++ ['{']) s (i + 1) rest := by
  rw [stmtsGo]; simp [hd]
theorem stmts_close1 (cur : List Char) (s i : Nat) (rest : List Char) :
    stmtsGo false 1 cur s i ('}' :: rest) = ⟨s, i, cur⟩ :: stmtsGo false 0 [] s (i + 1) rest := by
  rw [stmtsGo]; simp
theorem stmts_closeN (d : Nat) (hd : 1 < d) (cur : List Char) (s i : Nat) (rest : List Char) :
    stmtsGo false d cur s i ('}' :: rest) = stmtsGo false (d - 1) (cur ++ ['}']) s (i + 1) rest := by
  have h0 : d ≠ 0 := by omega
  have h1 : d ≠ 1 := by omega
  rw [stmtsGo]; simp [h0, h1]
theorem stmts_plain (d : Nat) (cur : List Char) (s i : Nat) (r : Char) (rest : List Char)
    (h1 : r ≠ '\\') (h2 : r ≠ '{') (h3 : r ≠ '}' ∨ d = 0) :
    stmtsGo false d cur s i (r :: rest) = stmtsGo false d (cur ++ [r]) s (i + 1) rest := by
  rw [stmtsGo]
  rcases h3 with h3 | h3
  · simp [h1, h2, h3]
  · by_cases hr : r = '}'
    · subst hr; simp [h3]
    · simp [h1, h2, hr]

theorem open_nil (d s i : Nat) : openGo false d s i [] = if d = 0 then none else some s := by rw [openGo]
theorem open_esc_last (d s i : Nat) : openGo false d s i ['\\'] = if d = 0 then none else some s := by
  rw [openGo]; simp [openGo]
theorem open_esc (d s i : Nat) (e : Char) (rest : List Char) :
    openGo false d s i ('\\' :: e :: rest) = openGo false d s (i + 2) rest := by
  rw [openGo]; simp [openGo]
theorem open_open0 (s i : Nat) (rest : List Char) :
    openGo false 0 s i ('{' :: rest) = openGo false 1 i (i + 1) rest := by
  rw [openGo]; simp
theorem open_openN (d : Nat) (hd : d ≠ 0) (s i : Nat) (rest : List Char) :
    openGo false d s i ('{' :: rest) = openGo false (d + 1) s (i + 1) rest := by
  rw [openGo]; simp [hd]
theorem open_close (d : Nat) (hd : d ≠ 0) (s i : Nat) (rest : List Char) :
    openGo false d s i ('}' :: rest) = openGo false (d - 1) s (i + 1) rest := by
  rw [openGo]; simp [hd]
theorem open_plain (d s i : Nat) (r : Char) (rest : List Char)
    (h1 : r ≠ '\\') (h2 : r ≠ '{') (h3 : r ≠ '}' ∨ d = 0) :
    openGo false d s i (r :: rest) = openGo false d s (i + 1) rest := by
  rw [openGo]
  rcases h3 with h3 | h3
  · simp [h1, h2, h3]
  · by_cases hr : r = '}'
    · subst hr; simp [h3]
    · simp [h1, h2, hr]

/-! ### one statement -/

section
variable (g : Nat) (reg : Registry) (opt : Bool) (inner : List Char → List SynErr)

theorem args_syn (fargs : List (List Char))
    (hA : ∀ a ∈ fargs, ∀ s e, compileF g reg opt a = .ok (s, e) → synOf e = inner a) :
    ∀ cargs aerrs, compileArgs g reg opt fargs = .ok (cargs, aerrs) → synOf aerrs = fargs.flatMap inner := by
  induction fargs with
  | nil =>
    intro cargs aerrs h
    rw [compileArgs] at h; cases h; rfl
  | cons a r ih =>
    intro cargs aerrs h
    rw [compileArgs] at h
    cases h1 : compileF g reg opt a with
    | error m => rw [h1] at h; cases h
    | ok p =>
      obtain ⟨s, e⟩ := p
      rw [h1] at h
      cases h2 : compileArgs g reg opt r with
      | error m => rw [h2] at h; cases h
      | ok q =>
        obtain ⟨ss, es⟩ := q
        rw [h2] at h
        cases h
        rw [synOf_append, hA a (by simp) s e h1, ih (fun b hb => hA b (by simp [hb])) ss es h2]
        simp

theorem close_syn (all : List Char) (i : Nat) (st st' : CompSt)
    (hA : ∀ a ∈ splitArgs st.sb, ∀ s e, compileF g reg opt a = .ok (s, e) → synOf e = inner a)
    (h : closeStatement g reg opt all i st = .ok st') :
    synOf st'.errs = synOf st.errs ++ stmtErrs splitArgs (knownOf reg) inner all ⟨st.startStatement, i, st.sb⟩ ∧
      st'.startStatement = st.startStatement := by
  rw [closeStatement] at h
  match hs : splitArgs st.sb with
  | [] =>
    simp only [hs] at h; cases h
    simp [stmtErrs, hs, synOf, synKindOf]
  | [a] =>
    simp only [hs] at h; cases h
    simp [stmtErrs, hs]
  | name :: b :: r =>
    simp only [hs] at h
    cases hr : reg name with
    | none =>
      simp only [hr] at h; cases h
      simp [stmtErrs, hs, knownOf, hr, synOf, synKindOf]
    | some f =>
      simp only [hr] at h
      cases hc : compileArgs g reg opt (b :: r) with
      | error m => simp only [hc] at h; cases h
      | ok p =>
        obtain ⟨cargs, aerrs⟩ := p
        simp only [hc] at h
        cases hf : f cargs with
        | error m => simp only [hf] at h; cases h
        | ok bt =>
          simp only [hf] at h
          cases h
          have hargs := args_syn g reg opt inner (b :: r)
            (fun a ha => hA a (by rw [hs]; simp at ha ⊢; exact Or.inr ha)) cargs aerrs hc
          have hst : stmtErrs splitArgs (knownOf reg) inner all ⟨st.startStatement, i, st.sb⟩ =
              ((b :: r).flatMap inner).map (SynErr.shift st.startStatement) := by
            simp [stmtErrs, hs, knownOf, hr]
          rw [hst, ← hargs]
          cases bt.err with
          | none => refine ⟨?_, rfl⟩; simp only [synOf_append, synOf_shift]
          | some tag => refine ⟨?_, rfl⟩; simp only [synOf_append, synOf_shift, synOf_func, List.append_nil]

/-! ### the rune loop -/

/-- what the loop's final state says about an open statement -/
def openOf (st : CompSt) : Option Nat := if st.inStatement = 0 then none else some st.startStatement

theorem loop_syn (all : List Char)
    (hA : ∀ (a : List Char) s e, compileF g reg opt a = .ok (s, e) → synOf e = inner a) :
    ∀ (m : Nat) (rest : List Char) (i : Nat) (st st' : CompSt), rest.length ≤ m →
      compileLoop g reg opt all rest i st = .ok st' →
      synOf st'.errs = synOf st.errs ++
          (stmtsGo false st.inStatement st.sb st.startStatement i rest).flatMap
            (stmtErrs splitArgs (knownOf reg) inner all) ∧
        openOf st' = openGo false st.inStatement st.startStatement i rest := by
  intro m
  induction m with
  | zero =>
    intro rest i st st' hm h
    have : rest = [] := List.length_eq_zero_iff.mp (by omega)
    subst this; rw [loop_nil] at h; cases h; simp [stmts_nil, open_nil, openOf]
  | succ m ih =>
    intro rest i st st' hm h
    cases rest with
    | nil => rw [loop_nil] at h; cases h; simp [stmts_nil, open_nil, openOf]
    | cons r rest =>
      simp only [List.length_cons] at hm
      by_cases h1 : r = '\\'
      · subst h1
        cases rest with
        | nil => rw [loop_esc_last] at h; cases h; simp [stmts_esc_last, open_esc_last, openOf]
        | cons e rest =>
          simp only [List.length_cons] at hm
          rw [loop_esc] at h
          rw [stmts_esc, open_esc]
          exact ih _ _ _ _ (by omega) h
      · by_cases h2 : r = '{'
        · subst h2
          by_cases h0 : st.inStatement = 0
          · rw [loop_open0 _ _ _ _ _ _ _ h0] at h
            rw [h0, stmts_open0, open_open0]
            exact ih _ _ _ _ (by omega) h
          · rw [loop_openN _ _ _ _ _ _ _ h0] at h
            rw [stmts_openN _ h0, open_openN _ h0]
            exact ih _ _ _ _ (by omega) h
        · by_cases h3 : r = '}' ∧ st.inStatement ≠ 0
          · obtain ⟨h3, h4⟩ := h3
            subst h3
            by_cases h5 : st.inStatement = 1
            · rw [loop_close1 _ _ _ _ _ _ _ h5] at h
              cases hc : closeStatement g reg opt all i st with
              | error e => rw [hc] at h; cases h
              | ok st2 =>
                rw [hc] at h
                obtain ⟨hcl, hstart⟩ := close_syn g reg opt inner all i st st2 (fun a _ => hA a) hc
                have := ih _ _ _ _ (by omega) h
                rw [open_close _ h4, h5, stmts_close1]
                simp only at this
                rw [hstart] at this
                rw [this.1, hcl]
                simp only [List.flatMap_cons, List.append_assoc, true_and]
                exact this.2
            · rw [loop_closeN _ _ _ _ _ _ _ (by omega)] at h
              rw [stmts_closeN _ (by omega), open_close _ h4]
              exact ih _ _ _ _ (by omega) h
          · have h3' : r ≠ '}' ∨ st.inStatement = 0 := by
              by_cases hr : r = '}'
              · right; exact Classical.byContradiction fun hc => h3 ⟨hr, hc⟩
              · left; exact hr
            rw [loop_plain _ _ _ _ _ _ _ _ h1 h2 h3'] at h
            rw [stmts_plain _ _ _ _ _ _ h1 h2 h3', open_plain _ _ _ _ _ h1 h2 h3']
            exact ih _ _ _ _ (by omega) h

end

/-- **Main lemma**: at every fuel at which `compileF` answers. -/
theorem compileF_syn (reg : Registry) (opt : Bool) :
    ∀ (f : Nat) (t : List Char) s e, compileF f reg opt t = .ok (s, e) →
      synOf e = synErrsF splitArgs (knownOf reg) f t := by
  intro f
  induction f with
  | zero => intro t s e h; rw [compileF] at h; cases h
  | succ g ih =>
    intro t s e h
    rw [compileF_eq] at h
    cases hl : compileLoop g reg opt t t 0 ⟨[], [], [], 0, 0⟩ with
    | error m => rw [hl] at h; cases h
    | ok st =>
      rw [hl] at h
      have he := finishC_errs h
      obtain ⟨hw, ho⟩ := loop_syn g reg opt (synErrsF splitArgs (knownOf reg) g) t
        (fun a s' e' h' => ih a s' e' h') t.length t 0 _ st (Nat.le_refl _) hl
      simp only [synOf_nil, List.nil_append] at hw ho
      rw [synErrsF, he]
      show _ = (stmtsGo false 0 [] 0 0 t).flatMap _ ++ openErr t
      rw [← hw]
      have ho' : openStart t = openOf st := ho.symm
      unfold openErr; rw [ho']; unfold openOf
      by_cases hz : st.inStatement = 0
      · simp [hz]
      · simp [hz, synOf, synKindOf]

/-! ### fuel -/

theorem stmtErrs_congr (split : List Char → List (List Char)) (known : List Char → Bool)
    (i1 i2 : List Char → List SynErr) (t : List Char) (s : Stmt) (h : ∀ a ∈ split s.body, i1 a = i2 a) :
    stmtErrs split known i1 t s = stmtErrs split known i2 t s := by
  unfold stmtErrs
  match hs : split s.body with
  | [] => rfl
  | [_] => rfl
  | name :: x :: xs =>
    simp only []
    have : (x :: xs).flatMap i1 = (x :: xs).flatMap i2 := by
      apply flatMap_congr'
      intro a ha
      exact h a (by rw [hs]; exact List.mem_cons_of_mem _ ha)
    rw [this]

theorem stmtsGo_length : ∀ (rest : List Char) (esc : Bool) (d : Nat) (cur : List Char) (s i : Nat) (x : Stmt),
    x ∈ stmtsGo esc d cur s i rest → x.body.length + 1 ≤ cur.length + rest.length := by
  intro rest
  induction rest with
  | nil => intro esc d cur s i x h; cases esc <;> simp [stmtsGo] at h
  | cons c rest ih =>
    intro esc d cur s i x h
    cases esc with
    | true =>
      rw [stmtsGo] at h
      have := ih _ _ _ _ _ _ h
      simp at this ⊢; omega
    | false =>
      rw [stmtsGo] at h
      split at h
      · have := ih _ _ _ _ _ _ h; simp at this ⊢; omega
      · split at h
        · split at h
          · have := ih _ _ _ _ _ _ h; simp at this ⊢; omega
          · have := ih _ _ _ _ _ _ h; simp at this ⊢; omega
        · split at h
          · split at h
            · have := ih _ _ _ _ _ _ h; simp at this ⊢; omega
            · split at h
              · rcases List.mem_cons.mp h with h | h
                · subst h; simp
                · have := ih _ _ _ _ _ _ h; simp at this ⊢; omega
              · have := ih _ _ _ _ _ _ h; simp at this ⊢; omega
          · have := ih _ _ _ _ _ _ h; simp at this ⊢; omega

theorem stmts_length {t : List Char} {x : Stmt} (h : x ∈ stmts t) : x.body.length < t.length := by
  have := stmtsGo_length t false 0 [] 0 0 x h
  simp at this; omega

/-- More fuel than the template has runes is always enough. -/
theorem synErrsF_fuel (split : List Char → List (List Char)) (known : List Char → Bool)
    (hsplit : ∀ b a, a ∈ split b → a.length ≤ b.length) :
    ∀ (f g : Nat) (t : List Char), t.length < f → t.length < g →
      synErrsF split known f t = synErrsF split known g t := by
  intro f
  induction f with
  | zero => intro g t h; omega
  | succ f ih =>
    intro g t hf hg
    obtain ⟨g', rfl⟩ : ∃ g', g = g' + 1 := ⟨g - 1, by omega⟩
    rw [synErrsF, synErrsF]
    congr 1
    apply flatMap_congr'
    intro s hs
    apply stmtErrs_congr
    intro a ha
    have h1 := stmts_length hs
    have h2 := hsplit _ _ ha
    exact ih g' a (by omega) (by omega)

theorem synErrs_unfold_gen (split : List Char → List (List Char)) (known : List Char → Bool)
    (hsplit : ∀ b a, a ∈ split b → a.length ≤ b.length) (t : List Char) :
    synErrs split known t =
      (stmts t).flatMap (stmtErrs split known (synErrs split known) t) ++ openErr t := by
  rw [synErrs, synErrsF]
  congr 1
  apply flatMap_congr'
  intro s hs
  apply stmtErrs_congr
  intro a ha
  have h1 := stmts_length hs
  have h2 := hsplit _ _ ha
  exact synErrsF_fuel split known hsplit _ _ a (by omega) (by omega)

/-! ### positions -/

theorem stmtsGo_bodies : ∀ (rest : List Char) (esc : Bool) (d : Nat) (cur : List Char) (s i : Nat),
    (stmtsGo esc d cur s i rest).map (·.body) = bodiesGo esc d cur rest := by
  intro rest
  induction rest with
  | nil => intro esc d cur s i; cases esc <;> simp [stmtsGo, bodiesGo]
  | cons c rest ih =>
    intro esc d cur s i
    cases esc with
    | true => rw [stmtsGo, bodiesGo]; exact ih _ _ _ _ _
    | false =>
      rw [stmtsGo, bodiesGo]
      split
      · exact ih _ _ _ _ _
      · split
        · split <;> exact ih _ _ _ _ _
        · split
          · split
            · exact ih _ _ _ _ _
            · split
              · simp only [List.map_cons]; rw [ih]
              · exact ih _ _ _ _ _
          · exact ih _ _ _ _ _

theorem stmts_bodies (t : List Char) : (stmts t).map (·.body) = bodies t := stmtsGo_bodies t false 0 [] 0 0

theorem getElem?_pre (pre rest : List Char) (c : Char) : (pre ++ c :: rest)[pre.length]? = some c := by
  simp

/-- Every closed statement starts at a `{`, ends at a `}` behind it, and lies behind the scan position. -/
theorem stmtsGo_pos (all : List Char) : ∀ (rest : List Char) (esc : Bool) (d : Nat) (cur : List Char) (s i : Nat)
    (pre : List Char), all = pre ++ rest → pre.length = i → (d ≠ 0 → s < i ∧ all[s]? = some '{') →
    ∀ x ∈ stmtsGo esc d cur s i rest,
      all[x.start]? = some '{' ∧ all[x.stop]? = some '}' ∧ x.start < x.stop ∧ (if d = 0 then i else s) ≤ x.start := by
  intro rest
  induction rest with
  | nil => intro esc d cur s i pre _ _ _ x h; cases esc <;> simp [stmtsGo] at h
  | cons c rest ih =>
    intro esc d cur s i pre hall hpre hd x h
    have hall' : all = (pre ++ [c]) ++ rest := by rw [hall]; simp
    have hpre' : (pre ++ [c]).length = i + 1 := by simp [hpre]
    have hci : all[i]? = some c := by rw [hall, ← hpre]; exact getElem?_pre pre rest c
    have keep : d ≠ 0 → s < i + 1 ∧ all[s]? = some '{' := fun h0 => ⟨by have := (hd h0).1; omega, (hd h0).2⟩
    have weaken : ∀ {d' : Nat}, (d' = 0 ↔ d = 0) →
        (all[x.start]? = some '{' ∧ all[x.stop]? = some '}' ∧ x.start < x.stop ∧ (if d' = 0 then i + 1 else s) ≤ x.start) →
        (all[x.start]? = some '{' ∧ all[x.stop]? = some '}' ∧ x.start < x.stop ∧ (if d = 0 then i else s) ≤ x.start) := by
      intro d' hdd ⟨a, b, c', e⟩
      refine ⟨a, b, c', ?_⟩
      by_cases h0 : d = 0
      · rw [if_pos h0]; rw [if_pos (hdd.mpr h0)] at e; omega
      · rw [if_neg h0]; rw [if_neg (fun h => h0 (hdd.mp h))] at e; exact e
    cases esc with
    | true =>
      rw [stmtsGo] at h
      exact weaken Iff.rfl (ih _ _ _ _ _ _ hall' hpre' keep x h)
    | false =>
      rw [stmtsGo] at h
      split at h
      · exact weaken Iff.rfl (ih _ _ _ _ _ _ hall' hpre' keep x h)
      · split at h
        · rename_i hc
          subst hc
          split at h
          · rename_i h0
            have := ih false 1 [] i (i + 1) _ hall' hpre' (fun _ => ⟨by omega, hci⟩) x h
            simp only [Nat.succ_ne_zero, if_false] at this
            obtain ⟨a, b, c', e⟩ := this
            exact ⟨a, b, c', by rw [if_pos h0]; exact e⟩
          · rename_i h0
            have := ih false (d + 1) _ s (i + 1) _ hall' hpre' (fun _ => keep h0) x h
            simp only [Nat.succ_ne_zero, if_false] at this
            obtain ⟨a, b, c', e⟩ := this
            exact ⟨a, b, c', by rw [if_neg h0]; exact e⟩
        · split at h
          · rename_i hc
            subst hc
            split at h
            · rename_i h0
              exact weaken (d' := 0) (by simp [h0]) (ih _ _ _ _ _ _ hall' hpre' (fun hh => absurd rfl hh) x h)
            · rename_i h0
              split at h
              · rename_i h1
                rcases List.mem_cons.mp h with h | h
                · subst h
                  simp only [if_neg h0]
                  exact ⟨(hd h0).2, hci, (hd h0).1, Nat.le_refl _⟩
                · have := ih false 0 [] s (i + 1) _ hall' hpre' (fun hh => absurd rfl hh) x h
                  simp only [if_true] at this
                  obtain ⟨a, b, c', e⟩ := this
                  exact ⟨a, b, c', by rw [if_neg h0]; have := (hd h0).1; omega⟩
              · rename_i h1
                have hne : d - 1 ≠ 0 := by omega
                have := ih false (d - 1) _ s (i + 1) _ hall' hpre' (fun _ => keep h0) x h
                simp only [hne, if_false] at this
                obtain ⟨a, b, c', e⟩ := this
                exact ⟨a, b, c', by rw [if_neg h0]; exact e⟩
          · exact weaken Iff.rfl (ih _ _ _ _ _ _ hall' hpre' keep x h)

/-- Statements are listed in the order of their position and do not overlap. -/
theorem stmtsGo_sorted (all : List Char) : ∀ (rest : List Char) (esc : Bool) (d : Nat) (cur : List Char) (s i : Nat)
    (pre : List Char), all = pre ++ rest → pre.length = i → (d ≠ 0 → s < i ∧ all[s]? = some '{') →
    (stmtsGo esc d cur s i rest).Pairwise fun x y => x.stop < y.start := by
  intro rest
  induction rest with
  | nil => intro esc d cur s i pre _ _ _; cases esc <;> simp [stmtsGo]
  | cons c rest ih =>
    intro esc d cur s i pre hall hpre hd
    have hall' : all = (pre ++ [c]) ++ rest := by rw [hall]; simp
    have hpre' : (pre ++ [c]).length = i + 1 := by simp [hpre]
    have hci : all[i]? = some c := by rw [hall, ← hpre]; exact getElem?_pre pre rest c
    have keep : d ≠ 0 → s < i + 1 ∧ all[s]? = some '{' := fun h0 => ⟨by have := (hd h0).1; omega, (hd h0).2⟩
    cases esc with
    | true => rw [stmtsGo]; exact ih _ _ _ _ _ _ hall' hpre' keep
    | false =>
      rw [stmtsGo]
      split
      · exact ih _ _ _ _ _ _ hall' hpre' keep
      · split
        · rename_i hc
          subst hc
          split
          · exact ih false 1 [] i (i + 1) _ hall' hpre' (fun _ => ⟨by omega, hci⟩)
          · rename_i h0
            exact ih false (d + 1) _ s (i + 1) _ hall' hpre' (fun _ => keep h0)
        · split
          · split
            · exact ih _ _ _ _ _ _ hall' hpre' (fun hh => absurd rfl hh)
            · rename_i h0
              split
              · refine List.Pairwise.cons ?_ (ih false 0 [] s (i + 1) _ hall' hpre' (fun hh => absurd rfl hh))
                intro y hy
                have := stmtsGo_pos all rest false 0 [] s (i + 1) _ hall' hpre' (fun hh => absurd rfl hh) y hy
                simp only [if_true] at this
                show i < y.start
                omega
              · exact ih false (d - 1) _ s (i + 1) _ hall' hpre' (fun _ => keep h0)
          · exact ih _ _ _ _ _ _ hall' hpre' keep

theorem stmts_pos (t : List Char) (x : Stmt) (h : x ∈ stmts t) :
    t[x.start]? = some '{' ∧ t[x.stop]? = some '}' ∧ x.start < x.stop :=
  let r := stmtsGo_pos t t false 0 [] 0 0 [] rfl rfl (fun h => absurd rfl h) x h
  ⟨r.1, r.2.1, r.2.2.1⟩

theorem stmts_sorted (t : List Char) : (stmts t).Pairwise fun x y => x.stop < y.start :=
  stmtsGo_sorted t t false 0 [] 0 0 [] rfl rfl (fun h => absurd rfl h)

/-- The open statement starts at a `{`. -/
theorem openGo_pos (all : List Char) : ∀ (rest : List Char) (esc : Bool) (d s i : Nat) (pre : List Char),
    all = pre ++ rest → pre.length = i → (d ≠ 0 → all[s]? = some '{') →
    ∀ k, openGo esc d s i rest = some k → all[k]? = some '{' := by
  intro rest
  induction rest with
  | nil =>
    intro esc d s i pre _ _ hd k h
    cases esc <;> (rw [openGo] at h; split at h; · cases h
                   · rename_i h0; cases h; exact hd h0)
  | cons c rest ih =>
    intro esc d s i pre hall hpre hd k h
    have hall' : all = (pre ++ [c]) ++ rest := by rw [hall]; simp
    have hpre' : (pre ++ [c]).length = i + 1 := by simp [hpre]
    have hci : all[i]? = some c := by rw [hall, ← hpre]; exact getElem?_pre pre rest c
    cases esc with
    | true => rw [openGo] at h; exact ih _ _ _ _ _ hall' hpre' hd k h
    | false =>
      rw [openGo] at h
      split at h
      · exact ih _ _ _ _ _ hall' hpre' hd k h
      · split at h
        · rename_i hc
          subst hc
          split at h
          · exact ih false 1 i (i + 1) _ hall' hpre' (fun _ => hci) k h
          · rename_i h0
            exact ih false (d + 1) s (i + 1) _ hall' hpre' (fun _ => hd h0) k h
        · split at h
          · split at h
            · exact ih _ _ _ _ _ hall' hpre' (fun hh => absurd rfl hh) k h
            · rename_i h0
              exact ih false (d - 1) s (i + 1) _ hall' hpre' (fun _ => hd h0) k h
          · exact ih _ _ _ _ _ hall' hpre' hd k h

theorem openStart_pos (t : List Char) (k : Nat) (h : openStart t = some k) : t[k]? = some '{' :=
  openGo_pos t t false 0 0 0 [] rfl rfl (fun h => absurd rfl h) k h

/-- A statement is open at the end iff the braces do not balance (`Unterminated`). -/
theorem openGo_none : ∀ (rest : List Char) (esc : Bool) (d s i : Nat),
    openGo esc d s i rest = none ↔ braceDepth esc d rest = 0 := by
  intro rest
  induction rest with
  | nil => intro esc d s i; cases esc <;> (rw [openGo, braceDepth]; by_cases h : d = 0 <;> simp [h])
  | cons c rest ih =>
    intro esc d s i
    cases esc with
    | true => rw [openGo, braceDepth]; exact ih _ _ _ _
    | false =>
      rw [openGo, braceDepth]
      split
      · exact ih _ _ _ _
      · split
        · split
          · rename_i h0; rw [h0]; exact ih _ _ _ _
          · exact ih _ _ _ _
        · split
          · split
            · rename_i h0; rw [h0]; exact ih _ _ _ _
            · exact ih _ _ _ _
          · exact ih _ _ _ _

theorem openStart_none_iff (t : List Char) : openStart t = none ↔ braceDepth false 0 t = 0 :=
  openGo_none t false 0 0 0

/-! ### the error list and the grammar agree -/

theorem openErr_nil_iff (t : List Char) : openErr t = [] ↔ braceDepth false 0 t = 0 := by
  rw [← openStart_none_iff]
  unfold openErr
  cases openStart t <;> simp

theorem stmtErrs_nil_iff (split : List Char → List (List Char)) (known : List Char → Bool)
    (inner : List Char → List SynErr) (t : List Char) (s : Stmt)
    (hA : ∀ a ∈ split s.body, (inner a = [] ↔ WellFormed split known a)) :
    stmtErrs split known inner t s = [] ↔ WellFormedStmt split known s.body := by
  unfold stmtErrs
  match hs : split s.body with
  | [] =>
    simp only []
    constructor
    · intro h; cases h
    · intro h
      cases h with
      | lone _ a h => rw [hs] at h; cases h
      | call _ n x xs h => rw [hs] at h; cases h
  | [a] => exact ⟨fun _ => .lone _ a hs, fun _ => rfl⟩
  | name :: x :: xs =>
    simp only []
    have hargs : ∀ a ∈ x :: xs, (inner a = [] ↔ WellFormed split known a) := fun a ha =>
      hA a (by rw [hs]; exact List.mem_cons_of_mem _ ha)
    by_cases hk : known name = true
    · rw [if_pos hk]
      rw [List.map_eq_nil_iff, List.flatMap_eq_nil_iff]
      constructor
      · intro h
        exact .call _ name x xs hs hk fun a ha => (hargs a ha).mp (h a ha)
      · intro h
        cases h with
        | lone _ a h => rw [hs] at h; cases h
        | call _ n x' xs' h _ hall =>
          rw [hs] at h; cases h
          exact fun a ha => (hargs a ha).mpr (hall a ha)
    · rw [if_neg hk]
      constructor
      · intro h; cases h
      · intro h
        cases h with
        | lone _ a h => rw [hs] at h; cases h
        | call _ n x' xs' h hk' =>
          rw [hs] at h; cases h
          exact absurd hk' hk

/-- The two specs agree: the error list is empty exactly for the templates of the grammar. -/
theorem synErrs_nil_iff_wf (split : List Char → List (List Char)) (known : List Char → Bool)
    (hsplit : ∀ b a, a ∈ split b → a.length ≤ b.length) :
    ∀ (N : Nat) (t : List Char), t.length < N → (synErrs split known t = [] ↔ WellFormed split known t) := by
  intro N
  induction N with
  | zero => intro t h; omega
  | succ N ih =>
    intro t ht
    rw [synErrs_unfold_gen split known hsplit t, wfTemplate_iff, List.append_eq_nil_iff, List.flatMap_eq_nil_iff,
      openErr_nil_iff, ← stmts_bodies]
    rw [and_comm]
    refine and_congr Iff.rfl ?_
    simp only [List.mem_map, forall_exists_index, and_imp, forall_apply_eq_imp_iff₂]
    refine forall_congr' fun s => imp_congr_right fun hs => ?_
    apply stmtErrs_nil_iff
    intro a ha
    have h1 := stmts_length hs
    have h2 := hsplit _ _ ha
    exact ih a (by omega)

/-! ### every index points inside the template -/

/-- A statement's body is no longer than the text between its braces, and its `}` lies inside the template. -/
theorem stmtsGo_span : ∀ (rest : List Char) (esc : Bool) (d : Nat) (cur : List Char) (s i : Nat),
    (d ≠ 0 → cur.length + s + 1 ≤ i) →
    ∀ x ∈ stmtsGo esc d cur s i rest, x.body.length + x.start + 1 ≤ x.stop ∧ x.stop < i + rest.length := by
  intro rest
  induction rest with
  | nil => intro esc d cur s i _ x h; cases esc <;> simp [stmtsGo] at h
  | cons c rest ih =>
    intro esc d cur s i hd x h
    have fin : ∀ {y : Stmt}, (y.body.length + y.start + 1 ≤ y.stop ∧ y.stop < i + 1 + rest.length) →
        (y.body.length + y.start + 1 ≤ y.stop ∧ y.stop < i + (c :: rest).length) := by
      intro y ⟨a, b⟩; exact ⟨a, by simp; omega⟩
    have grow : ∀ r : Char, d ≠ 0 → (cur ++ [r]).length + s + 1 ≤ i + 1 := by
      intro r h0; have := hd h0; simp; omega
    cases esc with
    | true =>
      rw [stmtsGo] at h
      exact fin (ih _ _ _ _ _ (grow _) x h)
    | false =>
      rw [stmtsGo] at h
      split at h
      · exact fin (ih _ _ _ _ _ (fun h0 => by have := hd h0; omega) x h)
      · split at h
        · split at h
          · exact fin (ih false 1 [] i (i + 1) (fun _ => by simp) x h)
          · rename_i h0
            exact fin (ih false (d + 1) _ s (i + 1) (fun _ => grow _ h0) x h)
        · split at h
          · split at h
            · exact fin (ih false 0 _ s (i + 1) (fun hh => absurd rfl hh) x h)
            · rename_i h0
              split at h
              · rcases List.mem_cons.mp h with h | h
                · subst h
                  exact ⟨hd h0, by simp⟩
                · exact fin (ih false 0 [] s (i + 1) (fun hh => absurd rfl hh) x h)
              · exact fin (ih false (d - 1) _ s (i + 1) (fun _ => grow _ h0) x h)
          · exact fin (ih _ _ _ _ _ (grow _) x h)

theorem stmts_span (t : List Char) (x : Stmt) (h : x ∈ stmts t) :
    x.body.length + x.start + 1 ≤ x.stop ∧ x.stop < t.length := by
  have := stmtsGo_span t false 0 [] 0 0 (fun hh => absurd rfl hh) x h
  simpa using this

/-- Every reported index points inside the template. -/
theorem synErrsF_index (split : List Char → List (List Char)) (known : List Char → Bool)
    (hsplit : ∀ b a, a ∈ split b → a.length ≤ b.length) :
    ∀ (f : Nat) (t : List Char), ∀ e ∈ synErrsF split known f t, e.index < t.length := by
  intro f
  induction f with
  | zero => intro t e h; simp [synErrsF] at h
  | succ f ih =>
    intro t e h
    rw [synErrsF] at h
    rcases List.mem_append.mp h with h | h
    · obtain ⟨s, hs, he⟩ := List.mem_flatMap.mp h
      have hsp := stmts_span t s hs
      unfold stmtErrs at he
      split at he
      · simp at he; subst he; show s.start < t.length; omega
      · cases he
      · rename_i name x xs hsplt
        split at he
        · obtain ⟨e', he', rfl⟩ := List.mem_map.mp he
          obtain ⟨a, ha, hea⟩ := List.mem_flatMap.mp he'
          have h1 := ih a e' hea
          have h2 := hsplit s.body a (by rw [hsplt]; exact List.mem_cons_of_mem _ ha)
          show e'.index + s.start < t.length
          omega
        · simp at he; subst he; show s.start < t.length; omega
    · unfold openErr at h
      cases ho : openStart t with
      | none => rw [ho] at h; cases h
      | some k =>
        rw [ho] at h
        simp at h; subst h
        have := openStart_pos t k ho
        obtain ⟨hk, _⟩ := List.getElem?_eq_some_iff.mp this
        exact hk

theorem mem_synOf {errs : List CErr} {e : CErr} {k : SynKind} (he : e ∈ errs) (hk : synKindOf e.kind = some k) :
    (⟨k, e.context, e.index⟩ : SynErr) ∈ synOf errs := by
  unfold synOf
  exact List.mem_filterMap.mpr ⟨e, he, by simp [hk]⟩

end Rare.C09
