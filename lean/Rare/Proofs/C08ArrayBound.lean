import Rare.Proofs.ExprSafe
import Rare.Proofs.C17Funcs
/-!
C08, output sizes of the array helpers that run a sub-expression per element: `{@filter}` never answers more bytes
than its array has, `{@map}` is linear in the number of elements times the size of one mapped value.  Both follow
from the functional descriptions of the two loops (C17's `arrayOperator_run` / `filter_fold`: the splitter loop is a
fold over the elements); the only family left without a bound is the one whose sub-expression returns its own
accumulator (`@reduce`, `@for`: `for_doubling_all`).
-/
namespace Rare.C08
open Rare Rare.Expr Rare.Expr.Funcs Rare.Expr.Funcs.Range Rare.C17

/-- bytes of the elements plus one separator each -/
def packSize : List Bytes → Nat
  | [] => 0
  | x :: r => x.length + 1 + packSize r

theorem pack_length (ys : List Bytes) (h : ys ≠ []) : (pack ys).length + 1 = packSize ys := by
  induction ys with
  | nil => exact absurd rfl h
  | cons x r ih =>
    cases r with
    | nil => simp [pack, join, packSize]
    | cons y r' =>
      have := ih (by simp)
      simp only [pack] at this ⊢
      simp only [join, List.length_append, packSize] at this ⊢
      simp only [List.length_cons, List.length_nil]
      omega

theorem pack_length_le (ys : List Bytes) : (pack ys).length ≤ packSize ys - 1 := by
  by_cases h : ys = []
  · subst h; simp [pack, join, packSize]
  · have := pack_length ys h; omega

theorem packSize_filter_le (p : Bytes → Bool) (ys : List Bytes) : packSize (ys.filter p) ≤ packSize ys := by
  induction ys with
  | nil => simp [packSize]
  | cons x r ih =>
    simp only [List.filter_cons]
    split
    · simp only [packSize]; omega
    · simp only [packSize]; omega

theorem packSize_map_le (m : Bytes → Bytes) (B : Nat) (ys : List Bytes) (h : ∀ x ∈ ys, (m x).length ≤ B) :
    packSize (ys.map m) ≤ ys.length * (B + 1) := by
  induction ys with
  | nil => simp [packSize]
  | cons x r ih =>
    have hx := h x (by simp)
    have hr := ih fun y hy => h y (by simp [hy])
    simp only [List.map_cons, packSize, List.length_cons, Nat.succ_mul]
    omega

theorem elems_length_le (arr : Bytes) : (elems arr).length ≤ arr.length + 1 := by
  have h := congrArg List.length (join_splitOn [NUL] (by simp) arr)
  have hne : elems arr ≠ [] := by unfold elems splitOn; exact splitGo_ne_nil _ _ _ _
  have hp := pack_length (elems arr) hne
  have e : (pack (elems arr)).length = arr.length := h
  have : (elems arr).length ≤ packSize (elems arr) := by
    generalize elems arr = ys
    induction ys with
    | nil => simp [packSize]
    | cons x r ih => simp only [packSize, List.length_cons]; omega
  omega

/-- what a sub-expression that cannot panic answers in the sub-context of an element -/
noncomputable def subVal (c : Ctx) (a1 : Stage) (h1 : Safe a1) (v0 v1 : Bytes) : Bytes :=
  Classical.choose (Safe.run h1 (subCtx c v0 v1))

theorem subVal_spec (c : Ctx) (a1 : Stage) (h1 : Safe a1) (v0 v1 : Bytes) :
    a1.run (subCtx c v0 v1) = .ok (subVal c a1 h1 v0 v1) :=
  Classical.choose_spec (Safe.run h1 (subCtx c v0 v1))

/-- `{@filter a sub}` answers at most as many bytes as the array has. -/
theorem filterStage_length (c : Ctx) (a0 a1 : Stage) (h0 : Safe a0) (h1 : Safe a1) :
    ∃ arr out, a0.run c = .ok arr ∧ (filterStage a0 a1).run c = .ok out ∧ out.length ≤ arr.length := by
  obtain ⟨arr, ha⟩ := Safe.run h0 c
  obtain ⟨f, hf⟩ : ∃ f : Bytes → Bytes → Bytes, ∀ v0 v1, a1.run (subCtx c v0 v1) = .ok (f v0 v1) :=
    ⟨subVal c a1 h1, subVal_spec c a1 h1⟩
  have hrun : (filterStage a0 a1).run c = .ok (pack ((elems arr).filter fun x => truthy (f x []))) := by
    unfold filterStage
    rw [run_bind_ok c _ _ _ ha, run_bind]
    rw [splitLoop_run_init c _ _
      (fun st item => if truthy (f item []) then
          ⟨(if st.needSep then st.sb.write ArraySeparatorString else st.sb).write item, true⟩ else st)
      (by
        intro st x
        rw [run_bind_ok c _ _ _ (by rw [withSub_run]; exact hf x [])]
        by_cases ht : truthy (f x []) = true <;> simp [ht, Comp.run])
      arr _ (by simp [ArraySeparatorString])]
    simp only [Except.bind, Comp.run, foldWhile_true]
    have := filter_fold (fun x => truthy (f x [])) (splitOn ArraySeparatorString arr) [] ⟨{}, false⟩
      ⟨rfl, rfl⟩
    simp only [List.nil_append] at this
    rw [this]; rfl
  refine ⟨arr, _, ha, hrun, ?_⟩
  have hne : elems arr ≠ [] := by unfold elems splitOn; exact splitGo_ne_nil _ _ _ _
  have e : (pack (elems arr)).length = arr.length := congrArg List.length (join_splitOn [NUL] (by simp) arr)
  have h1 := pack_length (elems arr) hne
  have h2 := pack_length_le ((elems arr).filter fun x => truthy (f x []))
  have h3 := packSize_filter_le (fun x => truthy (f x [])) (elems arr)
  omega

/-- `{@map a sub}` is linear: at most `(B + 1)` bytes per element when every value of `sub` has at most `B`. -/
theorem mapStage_length (c : Ctx) (a0 a1 : Stage) (h0 : Safe a0) (h1 : Safe a1) (B : Nat)
    (hB : ∀ v0 v1 o, a1.run (subCtx c v0 v1) = .ok o → o.length ≤ B) :
    ∃ arr out, a0.run c = .ok arr ∧ (mapStage a0 a1).run c = .ok out ∧
      out.length + 1 ≤ (elems arr).length * (B + 1) ∧ (elems arr).length ≤ arr.length + 1 := by
  obtain ⟨arr, ha⟩ := Safe.run h0 c
  obtain ⟨f, hf⟩ : ∃ f : Bytes → Bytes → Bytes, ∀ v0 v1, a1.run (subCtx c v0 v1) = .ok (f v0 v1) :=
    ⟨subVal c a1 h1, subVal_spec c a1 h1⟩
  have hrun : (mapStage a0 a1).run c = .ok (pack ((elems arr).map fun x => f x [])) := by
    unfold mapStage
    rw [run_bind_ok c _ _ _ ha,
      arrayOperator_run c arr _ _ (by simp [ArraySeparatorString]) _ (fun x => f x [])
        (fun x => by rw [withSub_run]; exact hf x [])]
    simp [pack, elems, ArraySeparatorString, ArraySeparator, NUL]
  refine ⟨arr, _, ha, hrun, ?_, elems_length_le arr⟩
  have hne : (elems arr).map (fun x => f x []) ≠ [] := by
    simp only [ne_eq, List.map_eq_nil_iff]; unfold elems splitOn; exact splitGo_ne_nil _ _ _ _
  have h1' := pack_length _ hne
  have h2 := packSize_map_le (fun x => f x []) B (elems arr)
    (fun x _ => hB x [] _ (hf x []))
  omega

end Rare.C08
