import Rare.Proofs.C18Dur
/-!
C18 (round 4d): Go's `leadingInt` overflows by VALUE, not by digit count, and `parseSignedOffset`
(the numeric part of the abbreviations `GMT+7`, `+03`) reads its digits through it: a run of digits of
any length is an hour as long as its value is at most 23 – `GMT+0000000000000000000007` is one
26-byte abbreviation.
-/
namespace Rare.C18

/-- The text after a run of digits: nothing, or a byte that is not a digit. -/
def NoDigitHead (tail : Bytes) : Prop := tail = [] ∨ ∃ c r, tail = c :: r ∧ isDigitB c = false

theorem leadingInt_tail (tail : Bytes) (x : Nat) (ht : NoDigitHead tail) : leadingInt tail x = some (x, tail) := by
  rcases ht with h | ⟨c, r, h, hc⟩
  · subst h; rfl
  · subst h; exact leadingInt_stop c r x hc

theorem digit_not_out {c : UInt8} (h : isDigitB c = true) : ¬ (c < 48 ∨ c > 57) := by
  unfold isDigitB at h
  simp only [Bool.and_eq_true, decide_eq_true_eq] at h
  intro h'; rcases h' with h' | h'
  · exact absurd h.1 (by simpa using h')
  · exact absurd h.2 (by simpa using h')

/-- `leadingInt` exactly: the run of digits is read in full iff its VALUE is at most 2^63 (`1<<63/10`
before each multiplication, `1<<63` after it – both tests are implied by the final value, which only
grows); the number of digits does not matter. -/
theorem leadingInt_exact (ds : Bytes) (hd : ds.all isDigitB = true) (x : Nat) (tail : Bytes) (ht : NoDigitHead tail)
    (hx : x ≤ 9223372036854775808) :
    leadingInt (ds ++ tail) x = if digitsVal ds x ≤ 9223372036854775808 then some (digitsVal ds x, tail) else none := by
  induction ds generalizing x with
  | nil => simp only [List.nil_append, digitsVal, hx, if_true]; exact leadingInt_tail tail x ht
  | cons c r ih =>
    simp only [List.all_cons, Bool.and_eq_true] at hd
    have hc := digit_not_out hd.1
    have hmono := digitsVal_mono r (x * 10 + (c.toNat - 48))
    simp only [List.cons_append, leadingInt, hc, if_false, digitsVal]
    by_cases h1 : x > 9223372036854775808 / 10
    · have : ¬ digitsVal r (x * 10 + (c.toNat - 48)) ≤ 9223372036854775808 := by omega
      simp only [h1, if_true, this, if_false]
    · simp only [h1, if_false]
      by_cases h2 : x * 10 + (c.toNat - 48) > 9223372036854775808
      · have : ¬ digitsVal r (x * 10 + (c.toNat - 48)) ≤ 9223372036854775808 := by omega
        simp only [h2, if_true, this, if_false]
      · simp only [h2, if_false]
        exact ih hd.2 _ (by omega)

/-- `parseSignedOffset` exactly, on a sign followed by a run of digits: the whole run is the hour iff
there is at least one digit and the VALUE is at most 23. -/
theorem parseSignedOffset_exact (s : UInt8) (hs : s = 43 ∨ s = 45) (ds : Bytes) (hd : ds.all isDigitB = true)
    (tail : Bytes) (ht : NoDigitHead tail) :
    parseSignedOffset (s :: (ds ++ tail)) = if ds ≠ [] ∧ digitsVal ds 0 ≤ 23 then 1 + ds.length else 0 := by
  have hs' : ¬ (s ≠ 45 ∧ s ≠ 43) := by rcases hs with e | e <;> subst e <;> decide
  unfold parseSignedOffset
  simp only [hs', if_false]
  rw [leadingInt_exact ds hd 0 tail ht (by omega)]
  by_cases hv : digitsVal ds 0 ≤ 9223372036854775808
  · simp only [hv, if_true, List.length_append]
    cases ds with
    | nil => simp
    | cons c r =>
      have : ¬ (tail.length = (c :: r).length + tail.length) := by simp
      simp only [this, if_false, ne_eq, reduceCtorEq, not_false_eq_true, true_and]
      by_cases h23 : digitsVal (c :: r) 0 > 23
      · have : ¬ digitsVal (c :: r) 0 ≤ 23 := by omega
        simp only [h23, if_true, this, if_false]
      · have : digitsVal (c :: r) 0 ≤ 23 := by omega
        simp only [h23, if_false, this, if_true]
        omega
  · have : ¬ digitsVal ds 0 ≤ 23 := by omega
    simp only [hv, if_false, this, and_false]

/-- leading zeros change neither the value nor the verdict -/
theorem digitsVal_zeros (k : Nat) (ds : Bytes) : digitsVal (List.replicate k 48 ++ ds) 0 = digitsVal ds 0 := by
  induction k with
  | zero => rfl
  | succ k ih => simpa [List.replicate_succ, digitsVal] using ih

theorem zeros_all (k : Nat) : (List.replicate k (48 : UInt8)).all isDigitB = true := by
  simp only [List.all_replicate]
  split <;> first | rfl | decide

end Rare.C18
