import Rare.Proofs.C09Errors
import Rare.Proofs.ExprCore
/-!
C09: the out-of-fuel branch of the model's `compile` is never the answer – optimiser ON as well.

With the optimiser on, `Compile` probes every stage it has built (`optimize` → `EvalStaticStage`), and a
stage that panics while being probed makes `Compile` panic with that stage's message.  So the statement
needs a hypothesis about panic *messages*: no stage that a builder of the registry returns can panic with
the model's own out-of-fuel text (`NoMsg`), given argument stages that cannot.  `NoMsgReg` states it; it
is discharged for the standard registry in `Rare/Proofs/C09FuelStd.lean`.
-/
namespace Rare.C09
open Rare Rare.Expr

/-- No `panic m` node is reachable in the interaction tree, whatever the context answers
    (other panic messages are allowed). -/
inductive NoMsg (m : String) {α : Type} : Comp α → Prop
  | ret (a : α) : NoMsg m (.ret a)
  | getMatch (i : Int) (k : Bytes → Comp α) : (∀ b, NoMsg m (k b)) → NoMsg m (.getMatch i k)
  | getKey (s : Bytes) (k : Bytes → Comp α) : (∀ b, NoMsg m (k b)) → NoMsg m (.getKey s k)
  | panic (m' : String) : m' ≠ m → NoMsg m (.panic m')

namespace NoMsg
variable {m : String}

theorem bind {α β : Type} {c : Comp α} {f : α → Comp β} (h : NoMsg m c) (hf : ∀ a, NoMsg m (f a)) :
    NoMsg m (c.bind f) := by
  induction h with
  | ret a => exact hf a
  | getMatch i k _ ih => exact .getMatch _ _ ih
  | getKey s k _ ih => exact .getKey _ _ ih
  | panic m' hne => exact .panic m' hne

theorem bind' {α β : Type} {c : Comp α} {f : α → Comp β} (h : NoMsg m c) (hf : ∀ a, NoMsg m (f a)) :
    NoMsg m (c >>= f) := bind h hf

theorem pure {α : Type} (a : α) : NoMsg m (Pure.pure a : Comp α) := .ret a

theorem map {α β : Type} {c : Comp α} (f : α → β) (h : NoMsg m c) : NoMsg m (f <$> c) :=
  bind h fun a => .ret (f a)

theorem probeN {α : Type} {c : Comp α} (h : NoMsg m c) : ∀ n, c.probeN n ≠ .error m := by
  induction h with
  | ret a => intro n; simp [Comp.probeN]
  | getMatch i k _ ih => intro n; exact ih _ _
  | getKey s k _ ih => intro n; exact ih _ _
  | panic m' hne => intro n; simp [Comp.probeN, hne]

theorem probe {α : Type} {c : Comp α} (h : NoMsg m c) : c.probe ≠ .error m := by
  have := h.probeN 0
  unfold Comp.probe
  cases hp : c.probeN 0 with
  | error e => rw [hp] at this; simpa using this
  | ok p => simp

theorem run {α : Type} {c : Comp α} (h : NoMsg m c) (ctx : Ctx) : c.run ctx ≠ .error m := by
  induction h with
  | ret a => simp [Comp.run]
  | getMatch i k _ ih => exact ih _
  | getKey s k _ ih => exact ih _
  | panic m' hne => simp [Comp.run, hne]

theorem withSub {α : Type} {c : Comp α} (h : NoMsg m c) (v0 v1 : Bytes) : NoMsg m (c.withSub v0 v1) := by
  induction h with
  | ret a => exact .ret a
  | getMatch i k _ ih =>
    simp only [Comp.withSub]
    split
    · exact .getMatch _ _ ih
    · exact ih _
  | getKey s k _ ih => exact .getKey _ _ ih
  | panic m' hne => exact .panic m' hne

theorem lit (b : Bytes) : NoMsg m (Stage.lit b) := .ret b
theorem match_ (i : Int) : NoMsg m (Comp.match_ i) := .getMatch _ _ fun b => .ret b
theorem key (k : Bytes) : NoMsg m (Comp.key k) := .getKey _ _ fun b => .ret b

/-- A stage that cannot panic at all cannot panic with `m`. -/
theorem of_constant {α : Type} (a : α) : NoMsg m (Comp.ret a) := .ret a

end NoMsg

def AllNoMsg (m : String) (l : List Stage) : Prop := ∀ s ∈ l, NoMsg m s

theorem AllNoMsg.nil {m : String} : AllNoMsg m [] := fun _ h => by cases h

theorem AllNoMsg.append {m : String} {a b : List Stage} (ha : AllNoMsg m a) (hb : AllNoMsg m b) :
    AllNoMsg m (a ++ b) := by
  intro s hs; rcases List.mem_append.mp hs with h | h
  · exact ha s h
  · exact hb s h

theorem AllNoMsg.single {m : String} {s : Stage} (h : NoMsg m s) : AllNoMsg m [s] := by
  intro x hx; simp at hx; rw [hx]; exact h

theorem AllNoMsg.snocLit {m : String} {l : List Stage} (h : AllNoMsg m l) (sb : List Char) :
    AllNoMsg m (if sb.isEmpty then l else l ++ [Stage.lit (charsToBytes sb)]) := by
  split
  · exact h
  · exact h.append (AllNoMsg.single (NoMsg.lit _))

theorem NoMsg.concat {m : String} {l : List Stage} (h : AllNoMsg m l) : NoMsg m (concatStages l) := by
  induction l with
  | nil => exact .ret _
  | cons s rest ih =>
    exact NoMsg.bind (h s (by simp)) fun a => NoMsg.bind (ih fun x hx => h x (by simp [hx])) fun b => .ret _

theorem NoMsg.join {m : String} {l : List Stage} (h : AllNoMsg m l) : NoMsg m (joinStages l) := by
  rw [joinStages_eq]; exact NoMsg.concat h

theorem stageSimpleVariable_noMsg (m : String) (a : List Char) : NoMsg m (stageSimpleVariable a) := by
  unfold stageSimpleVariable; split
  · exact NoMsg.match_ _
  · exact NoMsg.key _

/-- `optimize` of stages that cannot panic with `m` does not fail with `m`, and its output cannot either. -/
theorem optimizeGo_noMsg (m : String) : ∀ (stages : List Stage) (sb : Bytes) (acc : List Stage),
    AllNoMsg m stages → AllNoMsg m acc →
    optimizeGo stages sb acc ≠ .error m ∧ ∀ out, optimizeGo stages sb acc = .ok out → AllNoMsg m out := by
  intro stages
  induction stages with
  | nil =>
    intro sb acc _ ha
    refine ⟨by simp [optimizeGo], fun out h => ?_⟩
    simp only [optimizeGo, Except.ok.injEq] at h
    subst h
    split
    · exact ha
    · exact ha.append (AllNoMsg.single (NoMsg.lit _))
  | cons st rest ih =>
    intro sb acc hs ha
    have hst : NoMsg m st := hs st (by simp)
    have hrest : AllNoMsg m rest := fun x hx => hs x (by simp [hx])
    have hp := hst.probe
    simp only [optimizeGo]
    cases hpr : st.probe with
    | error e =>
      rw [hpr] at hp
      refine ⟨by simpa using hp, fun out h => by simp at h⟩
    | ok p =>
      obtain ⟨v, b⟩ := p
      cases b with
      | true => exact ih _ _ hrest ha
      | false =>
        apply ih _ _ hrest
        apply AllNoMsg.append _ (AllNoMsg.single hst)
        split
        · exact ha
        · exact ha.append (AllNoMsg.single (NoMsg.lit _))

/-- The registry hypothesis: given argument stages that cannot panic with the out-of-fuel message, no
    builder fails with it at compile time, and the stage it returns cannot panic with it either. -/
def NoMsgReg (m : String) (reg : Registry) : Prop :=
  ∀ name f args, reg name = some f → AllNoMsg m args →
    f args ≠ .error m ∧ ∀ b s, f args = .ok b → b.stage = some s → NoMsg m s

def fuelMsg : String := "out of fuel"

section
variable (g : Nat) (reg : Registry) (opt : Bool) (hreg : NoMsgReg fuelMsg reg)

/-- What is known about a compile result: it is not the out-of-fuel error, and its stages cannot panic with
    that message. -/
def GoodC (r : Except String (List Stage × List CErr)) : Prop :=
  r ≠ .error fuelMsg ∧ ∀ s e, r = .ok (s, e) → AllNoMsg fuelMsg s

def GoodSt (r : Except String CompSt) : Prop :=
  r ≠ .error fuelMsg ∧ ∀ st, r = .ok st → AllNoMsg fuelMsg st.stages

omit hreg in
theorem args_good (fargs : List (List Char)) (h : ∀ a ∈ fargs, GoodC (compileF g reg opt a)) :
    compileArgs g reg opt fargs ≠ .error fuelMsg ∧
      ∀ cs es, compileArgs g reg opt fargs = .ok (cs, es) → AllNoMsg fuelMsg cs := by
  induction fargs with
  | nil =>
    rw [compileArgs]
    refine ⟨by simp, fun cs es h => ?_⟩
    simp only [Except.ok.injEq, Prod.mk.injEq] at h
    rw [← h.1]; exact AllNoMsg.nil
  | cons a r ih =>
    rw [compileArgs]
    have h1 := h a (by simp)
    have h2 := ih (fun b hb => h b (by simp [hb]))
    cases hc : compileF g reg opt a with
    | error m => rw [hc] at h1; exact ⟨by simpa using h1.1, fun cs es h => by simp at h⟩
    | ok p =>
      obtain ⟨st, er⟩ := p
      simp only []
      cases hc2 : compileArgs g reg opt r with
      | error m => rw [hc2] at h2; exact ⟨by simpa using h2.1, fun cs es h => by simp at h⟩
      | ok q =>
        obtain ⟨ss, es⟩ := q
        refine ⟨by simp, fun cs es' h => ?_⟩
        simp only [Except.ok.injEq, Prod.mk.injEq] at h
        rw [← h.1]
        rw [hc] at h1
        intro x hx
        rcases List.mem_cons.mp hx with rfl | hx
        · exact NoMsg.join (h1.2 st er rfl)
        · exact h2.2 ss es hc2 x hx

include hreg

theorem close_good (all : List Char) (i : Nat) (st : CompSt) (hst : AllNoMsg fuelMsg st.stages)
    (h : ∀ a ∈ splitArgs st.sb, GoodC (compileF g reg opt a)) :
    GoodSt (closeStatement g reg opt all i st) := by
  rw [closeStatement]
  match hs : splitArgs st.sb with
  | [] =>
    refine ⟨by simp, fun st' h => ?_⟩
    simp only [Except.ok.injEq] at h; rw [← h]; exact hst
  | [a] =>
    refine ⟨by simp, fun st' h => ?_⟩
    simp only [Except.ok.injEq] at h; rw [← h]
    exact hst.append (AllNoMsg.single (stageSimpleVariable_noMsg _ a))
  | name :: b :: r =>
    simp only []
    cases hr : reg name with
    | none =>
      refine ⟨by simp, fun st' h => ?_⟩
      simp only [Except.ok.injEq] at h; rw [← h]
      exact hst.append (AllNoMsg.single (NoMsg.lit _))
    | some f =>
      simp only []
      have h2 := args_good g reg opt (b :: r) (fun a ha => h a (by rw [hs]; simp [List.mem_cons.mp ha]))
      cases hc : compileArgs g reg opt (b :: r) with
      | error m => rw [hc] at h2; exact ⟨by simpa using h2.1, fun st' h => by simp at h⟩
      | ok q =>
        obtain ⟨cargs, aerrs⟩ := q
        simp only []
        have h3 := hreg name f cargs hr (h2.2 cargs aerrs hc)
        cases hf : f cargs with
        | error m => rw [hf] at h3; exact ⟨by simpa using h3.1, fun st' h => by simp at h⟩
        | ok bt =>
          refine ⟨by simp, fun st' h => ?_⟩
          simp only [Except.ok.injEq] at h; rw [← h]
          simp only []
          cases hbs : bt.stage with
          | none => exact hst
          | some s => exact hst.append (AllNoMsg.single (h3.2 bt s hf hbs))

theorem loop_good (N : Nat) (all : List Char)
    (hA : ∀ a : List Char, a.length < N → GoodC (compileF g reg opt a)) :
    ∀ (m : Nat) (rest : List Char) (i : Nat) (st : CompSt), rest.length ≤ m →
      st.sb.length + rest.length ≤ N → AllNoMsg fuelMsg st.stages →
      GoodSt (compileLoop g reg opt all rest i st) := by
  intro m
  induction m with
  | zero =>
    intro rest i st hm _ hst
    have : rest = [] := List.length_eq_zero_iff.mp (by omega)
    subst this; rw [loop_nil]
    exact ⟨by simp, fun st' h => by simp only [Except.ok.injEq] at h; rw [← h]; exact hst⟩
  | succ m ih =>
    intro rest i st hm hN hst
    cases rest with
    | nil =>
      rw [loop_nil]
      exact ⟨by simp, fun st' h => by simp only [Except.ok.injEq] at h; rw [← h]; exact hst⟩
    | cons r rest =>
      simp only [List.length_cons] at hm hN
      by_cases h1 : r = '\\'
      · subst h1
        cases rest with
        | nil =>
          rw [loop_esc_last]
          exact ⟨by simp, fun st' h => by simp only [Except.ok.injEq] at h; rw [← h]; exact hst⟩
        | cons e rest =>
          simp only [List.length_cons] at hm hN
          rw [loop_esc]
          exact ih _ _ _ (by omega) (by simp; omega) hst
      · by_cases h2 : r = '{'
        · subst h2
          by_cases h0 : st.inStatement = 0
          · rw [loop_open0 _ _ _ _ _ _ _ h0]
            exact ih _ _ _ (by omega) (by simp; omega) (hst.snocLit st.sb)
          · rw [loop_openN _ _ _ _ _ _ _ h0]
            exact ih _ _ _ (by omega) (by simp; omega) hst
        · by_cases h3 : r = '}' ∧ st.inStatement ≠ 0
          · obtain ⟨h3, h4⟩ := h3
            subst h3
            by_cases h5 : st.inStatement = 1
            · rw [loop_close1 _ _ _ _ _ _ _ h5]
              have hc := close_good g reg opt hreg all i st hst
                (fun a ha => hA a (by have := splitArgs_length ha; omega))
              cases hcl : closeStatement g reg opt all i st with
              | error e => rw [hcl] at hc; exact ⟨by simpa using hc.1, fun st' h => by simp at h⟩
              | ok st' =>
                rw [hcl] at hc
                exact ih _ _ _ (by omega) (by simp; omega) (hc.2 st' rfl)
            · rw [loop_closeN _ _ _ _ _ _ _ (by omega)]
              exact ih _ _ _ (by omega) (by simp; omega) hst
          · have h3' : r ≠ '}' ∨ st.inStatement = 0 := by
              by_cases hr : r = '}'
              · right; exact Classical.byContradiction fun hc => h3 ⟨hr, hc⟩
              · left; exact hr
            rw [loop_plain _ _ _ _ _ _ _ _ h1 h2 h3']
            exact ih _ _ _ (by omega) (by simp; omega) hst

end

/-- With fuel above the template length the recursive compiler never answers "out of fuel", optimiser on or
    off, and none of the stages it returns can panic with that message. -/
theorem compileF_good (reg : Registry) (opt : Bool) (hreg : NoMsgReg fuelMsg reg) :
    ∀ (L : Nat) (t : List Char), t.length < L → ∀ f, t.length < f → GoodC (compileF f reg opt t) := by
  intro L
  induction L with
  | zero => intro t h; omega
  | succ L ih =>
    intro t hL f h1
    obtain ⟨g, rfl⟩ : ∃ g, f = g + 1 := ⟨f - 1, by omega⟩
    have hl := loop_good g reg opt hreg t.length t (fun a ha => ih a (by omega) g (by omega)) t.length t 0
      ⟨[], [], [], 0, 0⟩ (Nat.le_refl _) (by simp) AllNoMsg.nil
    rw [compileF_eq]
    cases hc : compileLoop g reg opt t t 0 ⟨[], [], [], 0, 0⟩ with
    | error m => rw [hc] at hl; exact ⟨by simpa using hl.1, fun s e h => by simp at h⟩
    | ok st =>
      rw [hc] at hl
      have hst := (hl.2 st rfl).snocLit st.sb
      simp only [finishC]
      cases opt with
      | false =>
        refine ⟨by simp, fun s e h => ?_⟩
        simp only [Bool.false_eq_true, if_false, Except.ok.injEq, Prod.mk.injEq] at h
        rw [← h.1]; exact hst
      | true =>
        have ho := optimizeGo_noMsg fuelMsg _ [] [] hst AllNoMsg.nil
        simp only [if_true]
        unfold optimize
        cases hopt : optimizeGo (if st.sb.isEmpty = true then st.stages else st.stages ++ [Stage.lit (charsToBytes st.sb)]) [] [] with
        | error m => rw [hopt] at ho; exact ⟨by simpa using ho.1, fun s e h => by simp at h⟩
        | ok out =>
          refine ⟨by simp, fun s e h => ?_⟩
          simp only [Except.ok.injEq, Prod.mk.injEq] at h
          rw [← h.1]; exact ho.2 out hopt

end Rare.C09
