import Rare.Proofs.C11
import Rare.Proofs.C14Utf8
import Rare.Proofs.C08Format
/-!
C11 for `{format}`: what a call computes (`format_call`), literal text and `%%`, `%s`, and the width field
(`%<w>s`, `%-<w>s`) of the model of `fmt.Sprintf` on string operands (`Funcs/Format.lean`).
-/
namespace Rare.C11
open Rare Rare.Expr Rare.Expr.Funcs Rare.Expr.Funcs.Format

theorem evalAll_run (c : Ctx) : ∀ as : List Arg, (evalAll (as.map Arg.stage)).run c = .ok (as.map (Arg.val c))
  | [] => rfl
  | a :: rest => by
    simp only [List.map_cons, evalAll, run_bind, Arg.run_stage]
    rw [evalAll_run c rest]
    rfl

/-- `{format f a₁ … aₙ}` is `fmt.Sprintf` of the values of its arguments. -/
theorem format_call (isPrint : Nat → Bool) (c : Ctx) (f : Arg) (as : List Arg) :
    callHelper (kfFormat isPrint) (f :: as) c = sprintf isPrint (f.val c) (as.map (Arg.val c)) := by
  obtain ⟨out, ho⟩ := sprintf_total isPrint (f.val c) (as.map (Arg.val c))
  simp only [callHelper, kfFormat, List.map_cons, ok, run_bind, Arg.run_stage, evalAll_run, ho]
  rfl

/-! ### literal text -/

/-- Text without `%` is copied. -/
theorem formatLoop_literal (isPrint : Nat → Bool) (a : List Bytes) :
    ∀ (l : Bytes) (fuel : Nat) (rest : Bytes) (st : St), (∀ b ∈ l, b ≠ 37) →
      formatLoop isPrint a (fuel + l.length) (l ++ rest) st =
        formatLoop isPrint a fuel rest { st with out := st.out ++ l } := by
  intro l
  induction l with
  | nil => intro fuel rest st _; simp
  | cons b l ih =>
    intro fuel rest st h
    have hb : b ≠ 37 := h b (by simp)
    rw [show fuel + (b :: l).length = (fuel + l.length) + 1 by simp; omega]
    simp only [List.cons_append, formatLoop, hb, ne_eq, not_false_eq_true, if_true]
    rw [ih fuel rest _ (fun x hx => h x (by simp [hx]))]
    simp

theorem runeCount_spaces_append (n : Nat) (x : Bytes) :
    runeCount (List.replicate n 32 ++ x) = n + runeCount x := by
  unfold runeCount C09.decodeUtf8
  induction n with
  | zero => simp
  | succ n ih =>
    rw [List.replicate_succ, List.cons_append]
    have := C14.decodeUtf8_before_ascii [] 32 (by decide) (List.replicate n 32 ++ x)
    simp only [List.nil_append] at this
    rw [this]
    simp [C20.decodeUtf8_nil, ih]; omega

theorem runeCount_append_spaces (n : Nat) (x : Bytes) :
    runeCount (x ++ List.replicate n 32) = runeCount x + n := by
  unfold runeCount C09.decodeUtf8
  induction n generalizing x with
  | zero => simp
  | succ n ih =>
    rw [List.replicate_succ]
    rw [C14.decodeUtf8_before_ascii x 32 (by decide) (List.replicate n 32)]
    have := ih []
    simp only [List.nil_append, C20.decodeUtf8_nil, List.length_nil, Nat.zero_add] at this
    simp [this]

/-! ### the width field -/

theorem digitsVal_ge : ∀ (ds : Bytes) (acc : Nat), acc ≤ digitsVal ds acc := by
  intro ds
  induction ds with
  | nil => intro acc; exact Nat.le_refl _
  | cons c r ih =>
    intro acc
    simp only [digitsVal]
    have := ih (acc * 10 + (c.toNat - 48))
    omega

/-- `parsenum` reads a decimal numeral of value `≤ 9 999 999` completely. -/
theorem parsenumGo_digits : ∀ (ds : Bytes) (acc : Nat) (b : Bool) (rest : Bytes),
    ds.all isDigitB = true → digitsVal ds acc ≤ 9999999 →
    (∀ c r, rest = c :: r → ¬ (48 ≤ c ∧ c ≤ 57)) →
    parsenumGo (ds ++ rest) acc b = (digitsVal ds acc, b || !ds.isEmpty, rest) := by
  intro ds
  induction ds with
  | nil =>
    intro acc b rest _ _ hr
    cases rest with
    | nil => simp [parsenumGo, digitsVal]
    | cons c r => simp [parsenumGo, digitsVal, hr c r rfl]
  | cons c ds ih =>
    intro acc b rest hall hval hr
    simp only [List.all_cons, Bool.and_eq_true] at hall
    have hc : 48 ≤ c ∧ c ≤ 57 := by
      have := hall.1; simp only [isDigitB, Bool.and_eq_true, decide_eq_true_eq] at this; exact this
    simp only [digitsVal] at hval ⊢
    have hacc : ¬ acc > 1000000 := by
      have := digitsVal_ge ds (acc * 10 + (c.toNat - 48)); omega
    simp only [List.cons_append, parsenumGo, hc, and_self, if_true, hacc, if_false]
    rw [ih _ true rest hall.2 hval hr]
    simp


/-- `fmt.Sprintf("%s", x)` is `x`. -/
theorem sprintf_s (isPrint : Nat → Bool) (x : Bytes) : sprintf isPrint [37, 115] [x] = .ok x := by
  simp [sprintf, formatLoop, verbStep, flagLoop, argAt, printArg, fmtS, truncateString, padString]


/-- `%%` writes one `%`, consumes no operand; the text around it is copied. -/
theorem sprintf_percent (isPrint : Nat → Bool) (l1 l2 : Bytes) (h1 : ∀ b ∈ l1, b ≠ 37) (h2 : ∀ b ∈ l2, b ≠ 37) :
    sprintf isPrint (l1 ++ 37 :: 37 :: l2) [] = .ok (l1 ++ 37 :: l2) := by
  unfold sprintf
  rw [show (l1 ++ 37 :: 37 :: l2).length + 1 = (l2.length + 3) + l1.length by simp; omega]
  rw [formatLoop_literal isPrint [] l1 _ _ _ h1]
  have hstep : ∀ st : St, verbStep isPrint [] (37 :: l2) st = .ok ({ st with out := st.out ++ [37] }, l2, false) := by
    intro st
    simp [verbStep, flagLoop, slowPath, argNumber, widthPart, parsenum, parsenumGo, precPart, indexPart, verbPart,
      verbSwitch]
  simp only [formatLoop, ne_eq, not_true_eq_false, if_false, hstep]
  have := formatLoop_literal isPrint [] l2 2 [] { out := [] ++ l1 ++ [37], argNum := 0, reordered := false } h2
  simp only [List.append_nil] at this
  rw [show l2.length + 2 = 2 + l2.length by omega]
  simp only [Bool.false_eq_true, if_false]
  rw [this]
  simp [formatLoop]

/-- The width field: `%<w>s` with `w` a decimal numeral `d ds` (first digit not 0, value ≤ 9 999 999)
    pads on the left with blanks to `w` runes; `%-<w>s` pads on the right. -/
theorem sprintf_width (isPrint : Nat → Bool) (d : UInt8) (ds x : Bytes) (hd : 49 ≤ d ∧ d ≤ 57)
    (hds : ds.all isDigitB = true) (hw : digitsVal (d :: ds) 0 ≤ 9999999) :
    sprintf isPrint (37 :: d :: ds ++ [115]) [x] =
      .ok (List.replicate (digitsVal (d :: ds) 0 - runeCount x) 32 ++ x) ∧
    sprintf isPrint (37 :: 45 :: d :: ds ++ [115]) [x] =
      .ok (x ++ List.replicate (digitsVal (d :: ds) 0 - runeCount x) 32) := by
  have hall : (d :: ds).all isDigitB = true := by
    simp only [List.all_cons, hds, Bool.and_true, isDigitB, Bool.and_eq_true, decide_eq_true_eq]
    exact ⟨UInt8.le_trans (by decide) hd.1, hd.2⟩
  have hp : parsenum (d :: (ds ++ [115])) = (digitsVal (d :: ds) 0, true, [115]) := by
    have := parsenumGo_digits (d :: ds) 0 false [115] hall hw (by
      intro c r h; simp only [List.cons.injEq] at h; rw [← h.1]; decide)
    simpa [parsenum] using this
  have hpos : digitsVal (d :: ds) 0 ≠ 0 := by
    show digitsVal ds (0 * 10 + (d.toNat - 48)) ≠ 0
    have h1 := digitsVal_ge ds (0 * 10 + (d.toNat - 48))
    have h2 : 49 ≤ d.toNat := by have := UInt8.le_iff_toNat_le.mp hd.1; simpa using this
    generalize d.toNat = n at h1 h2 ⊢
    generalize digitsVal ds (0 * 10 + (n - 48)) = v at h1 ⊢
    omega
  have hflag : ∀ f : Fl, flagLoop (d :: ds ++ [115]) f = (f, d :: ds ++ [115]) := by
    intro f
    have e1 : d ≠ 35 := by intro h; subst h; exact absurd hd.1 (by decide)
    have e2 : d ≠ 48 := by intro h; subst h; exact absurd hd.1 (by decide)
    have e3 : d ≠ 43 := by intro h; subst h; exact absurd hd.1 (by decide)
    have e4 : d ≠ 45 := by intro h; subst h; exact absurd hd.1 (by decide)
    have e5 : d ≠ 32 := by intro h; subst h; exact absurd hd.1 (by decide)
    simp [flagLoop, e1, e2, e3, e4, e5]
  have hfast : ¬ (97 ≤ d ∧ d ≤ 122 ∧ (0 : Nat) < 1) := by
    intro h
    have a := UInt8.le_iff_toNat_le.mp h.1
    have b := UInt8.le_iff_toNat_le.mp hd.2
    simp at a b; omega
  have e91 : d ≠ 91 := by intro h; subst h; exact absurd hd.2 (by decide)
  have e42 : d ≠ 42 := by intro h; subst h; exact absurd hd.1 (by decide)
  have hslow : ∀ (f : Fl) (st : St), st.argNum = 0 → st.reordered = false →
      slowPath isPrint [x] f (d :: ds ++ [115]) st =
        .ok ({ out := st.out ++ fmtS { f with wid := digitsVal (d :: ds) 0, widPresent := true } x, argNum := 1,
               reordered := false }, [], false) := by
    intro f st h0 hr
    have hn : argNumber st.argNum (d :: ds ++ [115]) 1 st.reordered true =
        ⟨0, d :: ds ++ [115], false, false, true⟩ := by
      unfold argNumber
      split
      · rename_i after heq
        simp only [List.cons_append, List.cons.injEq] at heq
        exact absurd heq.1 e91
      · rw [h0, hr]
    simp only [slowPath, List.length_singleton, hn]
    have hwd : widthPart [x] f st.out ⟨0, d :: ds ++ [115], false, false, true⟩ =
        ⟨{ f with wid := digitsVal (d :: ds) 0, widPresent := true }, st.out, 0, [115], false, true, false⟩ := by
      unfold widthPart
      split
      · rename_i r heq
        simp only [List.cons_append, List.cons.injEq] at heq
        exact absurd heq.1 e42
      · simp [hp]
    rw [hwd]
    simp [precPart, indexPart, argNumber, verbPart, verbSwitch, argAt, printArg]
  constructor
  · unfold sprintf
    rw [show (37 :: d :: ds ++ [115]) = 37 :: (d :: (ds ++ [115])) from rfl, List.length_cons, formatLoop]
    simp only [ne_eq, not_true_eq_false, if_false]
    have hvs : verbStep isPrint [x] (d :: ds ++ [115]) {} =
        .ok ({ out := fmtS { wid := digitsVal (d :: ds) 0, widPresent := true } x, argNum := 1, reordered := false },
          [], false) := by
      unfold verbStep
      simp only [hflag]
      have := hslow {} {} rfl rfl
      simp only [List.cons_append] at this ⊢
      simp only [List.length_singleton, hfast, if_false]
      simpa using this
    simp only [List.cons_append] at hvs
    rw [hvs]
    simp [formatLoop, fmtS, truncateString, padString, hpos, padding]
  · unfold sprintf
    rw [show (37 :: 45 :: d :: ds ++ [115]) = 37 :: (45 :: d :: (ds ++ [115])) from rfl, List.length_cons, formatLoop]
    simp only [ne_eq, not_true_eq_false, if_false]
    have hvs : verbStep isPrint [x] (45 :: d :: ds ++ [115]) {} =
        .ok ({ out := fmtS { wid := digitsVal (d :: ds) 0, widPresent := true, minus := true } x, argNum := 1,
               reordered := false }, [], false) := by
      unfold verbStep
      have hf2 : flagLoop (45 :: d :: ds ++ [115]) {} = ({ minus := true }, d :: ds ++ [115]) := by
        have := hflag { minus := true }
        simp only [List.cons_append] at this
        simp only [List.cons_append]
        rw [flagLoop]
        simp [this]
      simp only [hf2]
      have := hslow { minus := true } {} rfl rfl
      simp only [List.cons_append] at this ⊢
      simp only [List.length_singleton, hfast, if_false]
      simpa using this
    simp only [List.cons_append] at hvs
    rw [hvs]
    simp [formatLoop, fmtS, truncateString, padString, hpos, padding]

end Rare.C11
