import Rare.Model.Expr.Std
/-!
C08: a table with every name once (the first entry of a name is the one `lookupTable` – and so the registry –
resolves; later entries of the same name are dead).  `stdTable` lists `bytesize` `bytesizesi` `downscale` twice: the
binary64 builders of `Funcs/Float.lean` come first, the integer-only ones of `Funcs/Strings.lean` are shadowed.
-/
namespace Rare.C08
open Rare Rare.Expr

/-- keep the first entry of every name (`seen`: names already met) -/
def dedup : Table → List String → Table
  | [], _ => []
  | p :: r, seen => if p.1 ∈ seen then dedup r seen else p :: dedup r (p.1 :: seen)

theorem beq_false_of_ne {a b : String} (h : a ≠ b) : (a == b) = false := by
  apply Bool.eq_false_iff.mpr
  intro he
  exact h (by simpa using he)

/-- an entry of the deduplicated table is the entry `find?` resolves for its name -/
theorem mem_dedup_find (t : Table) : ∀ (seen : List String) (p : String × Builder), p ∈ dedup t seen →
    t.find? (fun x => x.1 == p.1) = some p ∧ p.1 ∉ seen := by
  induction t with
  | nil => intro seen p h; simp [dedup] at h
  | cons q r ih =>
    intro seen p h
    simp only [dedup] at h
    by_cases hs : q.1 ∈ seen
    · rw [if_pos hs] at h
      obtain ⟨h1, h2⟩ := ih seen p h
      refine ⟨?_, h2⟩
      have hne : (q.1 == p.1) = false := beq_false_of_ne fun (e : q.1 = p.1) => h2 (e ▸ hs)
      rw [List.find?_cons, hne]
      exact h1
    · rw [if_neg hs] at h
      rcases List.mem_cons.mp h with e | h'
      · subst e
        exact ⟨by rw [List.find?_cons]; simp, hs⟩
      · obtain ⟨h1, h2⟩ := ih (q.1 :: seen) p h'
        have hne' : q.1 ≠ p.1 := fun e => h2 (by simp [e])
        refine ⟨?_, fun hin => h2 (List.mem_cons_of_mem _ hin)⟩
        rw [List.find?_cons, beq_false_of_ne hne']
        exact h1

/-- looking a name up in the deduplicated table is looking it up in the table -/
theorem find_dedup (t : Table) (n : String) : ∀ seen : List String,
    (dedup t seen).find? (fun x => x.1 == n) = if n ∈ seen then none else t.find? (fun x => x.1 == n) := by
  induction t with
  | nil => intro seen; simp [dedup]
  | cons q r ih =>
    intro seen
    simp only [dedup]
    by_cases hs : q.1 ∈ seen
    · rw [if_pos hs, ih seen]
      by_cases hn : n ∈ seen
      · rw [if_pos hn, if_pos hn]
      · rw [if_neg hn, if_neg hn, List.find?_cons, beq_false_of_ne fun (e : q.1 = n) => hn (e ▸ hs)]
    · rw [if_neg hs]
      by_cases hq : q.1 = n
      · have hn : n ∉ seen := hq ▸ hs
        rw [if_neg hn, List.find?_cons, List.find?_cons]
        have : (q.1 == n) = true := by simp [hq]
        rw [this]
      · rw [List.find?_cons, beq_false_of_ne hq, ih (q.1 :: seen), List.find?_cons, beq_false_of_ne hq]
        by_cases hn : n ∈ seen
        · rw [if_pos hn, if_pos (List.mem_cons_of_mem _ hn)]
        · have : n ∉ q.1 :: seen := by
            intro h
            rcases List.mem_cons.mp h with e | e
            · exact hq e.symm
            · exact hn e
          rw [if_neg hn, if_neg this]

theorem find?_congr' {α : Type} (p q : α → Bool) : ∀ l : List α, (∀ x ∈ l, p x = q x) → l.find? p = l.find? q
  | [], _ => rfl
  | a :: r, h => by
    rw [List.find?_cons, List.find?_cons, h a (by simp), find?_congr' p q r fun x hx => h x (by simp [hx])]

theorem lookup_dedup (t : Table) (n : String) : lookupTable (dedup t []) n = lookupTable t n := by
  unfold lookupTable
  rw [find_dedup t n []]
  simp

end Rare.C08
