import Rare.Model.C18Zone
/-! C18: facts about zone tables: `lookup` finds the segment of the instant; on a sorted table every
instant of that segment gets the same answer; `dateIn` inverts the wall clock away from transitions. -/
namespace Rare.C18

theorem lookupFrom_inSeg (off : Int) (abbr : Bytes) (start : Option Int) (tr : List (Int × Int × Bytes)) (sec : Int)
    (hs : geStart start sec = true) : inSeg (lookupFrom off abbr start tr sec) sec = true := by
  induction tr generalizing off abbr start with
  | nil => simp [lookupFrom, inSeg, hs, ltStop]
  | cons e r ih =>
    obtain ⟨t, o, a⟩ := e
    simp only [lookupFrom]
    split
    · next h => simp [inSeg, hs, ltStop, h]
    · next h => exact ih o a (some t) (by simp [geStart]; omega)

/-- The start of the segment found is not before the start given. -/
theorem lookupFrom_start (off : Int) (abbr : Bytes) (t0 : Int) (tr : List (Int × Int × Bytes)) (sec : Int)
    (hsorted : sortedTrans ((t0, off, abbr) :: tr) = true) :
    ∃ t1, (lookupFrom off abbr (some t0) tr sec).start = some t1 ∧ t0 ≤ t1 := by
  induction tr generalizing off abbr t0 with
  | nil => exact ⟨t0, rfl, Int.le_refl _⟩
  | cons e r ih =>
    obtain ⟨t, o, a⟩ := e
    simp only [sortedTrans, Bool.and_eq_true, decide_eq_true_eq] at hsorted
    simp only [lookupFrom]
    split
    · exact ⟨t0, rfl, Int.le_refl _⟩
    · obtain ⟨t1, h1, h2⟩ := ih o a t hsorted.2
      exact ⟨t1, h1, by omega⟩

theorem lookupFrom_same (off : Int) (abbr : Bytes) (start : Option Int) (tr : List (Int × Int × Bytes)) (u v : Int)
    (hsorted : sortedTrans tr = true) (hv : inSeg (lookupFrom off abbr start tr u) v = true) :
    lookupFrom off abbr start tr v = lookupFrom off abbr start tr u := by
  induction tr generalizing off abbr start with
  | nil => rfl
  | cons e r ih =>
    obtain ⟨t, o, a⟩ := e
    have hs' : sortedTrans r = true := by
      cases r with
      | nil => rfl
      | cons e' r' => obtain ⟨t', x⟩ := e'; simp only [sortedTrans, Bool.and_eq_true] at hsorted; exact hsorted.2
    simp only [lookupFrom] at hv ⊢
    by_cases hu : u < t
    · simp only [hu, if_true] at hv ⊢
      have : v < t := by
        have := hv; simp only [inSeg, ltStop, Bool.and_eq_true, decide_eq_true_eq] at this; exact this.2
      simp [this]
    · simp only [hu, if_false] at hv ⊢
      obtain ⟨t1, h1, h2⟩ := lookupFrom_start o a t r u hsorted
      have hvt : ¬ (v < t) := by
        simp only [inSeg, h1, geStart, Bool.and_eq_true, decide_eq_true_eq] at hv
        omega
      simp only [hvt, if_false]
      exact ih o a (some t) hs' hv

theorem lookup_inSeg (z : ZoneTab) (u : Int) : inSeg (z.lookup u) u = true :=
  lookupFrom_inSeg _ _ _ _ _ rfl

theorem lookup_same (z : ZoneTab) (hs : sortedTrans z.trans = true) (u v : Int) (hv : inSeg (z.lookup u) v = true) :
    z.lookup v = z.lookup u :=
  lookupFrom_same _ _ _ _ _ _ hs hv

theorem dateIn_roundtrip' (z : ZoneTab) (hs : sortedTrans z.trans = true) (u : Int)
    (hin : inSeg (z.lookup u) (z.wall u) = true) : dateIn z (z.wall u) = u := by
  have h1 := lookup_same z hs u (z.wall u) hin
  have h2 := lookup_inSeg z u
  unfold dateIn
  simp only [h1]
  by_cases h0 : (z.lookup u).off = 0
  · simp [h0, ZoneTab.wall]
  · have e : z.wall u - (z.lookup u).off = u := by unfold ZoneTab.wall; omega
    simp [h0, e, h2]

end Rare.C18
