import Rare.Model.C15
/-!
# C15 — in-place truncation of the followed file (copytruncate rotation)

The property is about a file that "stays in place" and only grows; `logrotate copytruncate` (and
`: > file`) shrink the file that is being followed without changing its inode.  Neither reader of
`pkg/followreader` looks for that: the descriptor keeps its offset, `read(2)` past the end of a file
answers 0 bytes, and

* notify.go and plain polling follow never seek backwards: everything the new generation writes BELOW
  the old offset is never delivered; delivery resumes at the old offset once the file has grown past it;
* polling follow with re-open compares `Stat().Size()` with `readBytes` after `ReadAttempts` empty
  reads: a file that is shorter than the offset is taken for a new file and read again from its
  beginning (so a truncation to `n > 0` bytes delivers those `n` bytes a second time); a file that has
  grown back to exactly the old offset is not noticed, one that has grown past it is resumed at the
  old offset (as with a re-created file outside the proviso of the property).

This file extends the two transition systems of `Rare.Model.C15` by the writer operation
`truncate` (content of the inode at the path cut to its first `n` bytes, `n` < size; inotify reports
`IN_MODIFY`, i.e. a Write event).  Nothing else changes: `unread fs h = (content h.ino).drop h.pos` is
`[]` for a handle beyond the end, which is what `read(2)` does.  The behaviour above is stated in
`Rare.Props.C15` (`*_truncate_*`) and compared with the real readers on real files by the `t<n>` step
of the `follow` op.
-/
namespace Rare.Follow

variable {β : Type}

/-- `truncate(path, n)` on inode `i`. -/
def FS.truncate (fs : FS β) (i n : Nat) : FS β :=
  { fs with content := fun j => if j = i then (fs.content i).take n else fs.content j }

/-- notify.go under a writer that may also truncate in place -/
inductive NStepT (cfg : NCfg) : Who → NSt β → NSt β → Prop
  | base {w : Who} {s s' : NSt β} : NStep cfg w s s' → NStepT cfg w s s'
  | truncate (s : NSt β) (i n : Nat) : s.fs.path = some i → n < (s.fs.content i).length →
      NStepT cfg Who.writer s { s with fs := s.fs.truncate i n, evq := s.evq ++ [.write] }

inductive NReachT (cfg : NCfg) (s0 : NSt β) : NSt β → Prop
  | refl : NReachT cfg s0 s0
  | step {w s s'} : NReachT cfg s0 s → NStepT cfg w s s' → NReachT cfg s0 s'

/-- poller.go under a writer that may also truncate in place -/
inductive PStepT (cfg : PCfg) : Who → PSt β → PSt β → Prop
  | base {w : Who} {s s' : PSt β} : PStep cfg w s s' → PStepT cfg w s s'
  | truncate (s : PSt β) (i n : Nat) : s.fs.path = some i → n < (s.fs.content i).length →
      PStepT cfg Who.writer s { s with fs := s.fs.truncate i n }

inductive PReachT (cfg : PCfg) (s0 : PSt β) : PSt β → Prop
  | refl : PReachT cfg s0 s0
  | step {w s s'} : PReachT cfg s0 s → PStepT cfg w s s' → PReachT cfg s0 s'

/-- The notify reader and the fsnotify goroutine have nothing left to do: the reader sits in its
    `select`, both signal channels are empty and no event is queued.  Only the writer can move. -/
def NSt.quiet (s : NSt β) : Prop := s.rd = .selecting ∧ s.pw = 0 ∧ s.pd = 0 ∧ s.evq = []

/-- The handle sits at or beyond the end of its file (after a truncation: beyond). -/
def beyondEnd (fs : FS β) (h : Handle) : Prop := (fs.content h.ino).length ≤ h.pos

end Rare.Follow
