import Rare.Model.AggLoopTrace
import Rare.Model.C05Signal
/-!
# Trace inclusion for the aggregation loop WITH the signal path (C05)

`Model/AggLoopTrace.lean` checks the event log of a real run of `RunAggregationLoop` against `AggLoop.Step`; the
event `ms` (hook `m.signal`: the `case <-exitSignal` branch was taken) was not a transition there.  Here it is: the
machine `smachine` runs `astep` on every other event and the step `SStep.signal` (Model/C05Signal.lean) on `ms`,
and remembers that a signal was seen.  The stream the run is checked against is what main RECEIVED (`streamOf`):
with a signal the extractor's later batches are never taken off the channel and the channel is never seen closed.
-/
namespace Rare.AggLoopTrace
open Rare.AggLoop Rare.TraceOrder

structure SASt where
  a : ASt
  signalled : Bool

/-- The state of the signal transition system the machine state stands for. -/
def SASt.sst (s : SASt) : SSt Bytes := ⟨s.a.lts, s.signalled⟩

def sastep (s : SASt) (e : Ev) : Option SASt :=
  if e.kind = "ms" then
    match s.a.lts.main with
    | .loop => some ⟨{ s.a with lts := { s.a.lts with main := .sendDone } }, true⟩
    | _ => none
  else (astep s.a e).map fun a' => ⟨a', s.signalled⟩

def smachine : Machine SASt := { step := sastep, final := fun s => isFinished s.a.lts.main }

def sinitSt (stream : List (List Bytes)) : SASt := ⟨initSt stream, false⟩

def slin : Lin SASt := { isChoice := fun _ => false, rank := fun _ _ p => some p.1 }

/-- A small real-shaped log with a signal: one batch of two keys is received and sampled, Ctrl-C arrives while main
    sits in its select, hand-shake, final render of the two keys (goroutine 0 = main, 1 = ticker). -/
def exampleSignalLog : List Ev :=
  let mk (g : Nat) (k : String) (a b : Nat) (key : Bytes) : Ev := ⟨g, k, noSrc, a, b, key⟩
  [mk 0 "mr" 2 0 [], mk 0 "ml" 0 0 [], mk 0 "sa" 0 0 [97], mk 0 "sa" 0 0 [98], mk 0 "mu" 0 0 [],
   mk 0 "ms" 0 0 [], mk 0 "md" 0 0 [], mk 0 "mt" 0 0 [], mk 0 "mf" 0 0 [], mk 0 "rb" 5 2 [], mk 0 "rn" 0 0 [],
   mk 0 "mg" 0 0 [], mk 1 "td" 0 0 []]

end Rare.AggLoopTrace
