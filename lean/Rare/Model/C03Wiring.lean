import Rare.Model.C03
/-!
Types of the regenerated wiring table `Rare/Gen/C03.lean` (written by `harness/extract/c03.go` from the Go AST of
`cmd/{histo,tabulate,heatmap,spark,bargraph,analyze,reduce}.go`, `cmd/helpers/{sorting,exitCodes}.go`,
`pkg/csv/aggWriters.go`, `pkg/aggregation/sorting/namevalue.go`) and their interpretation in the models of C13 / C03:

* `SortExpr` – a sorter expression as the source spells it; `SortExpr.nvCmp` is the comparator of the C13 model it
  denotes WHEN IT IS A PURE FUNCTION of the two rows (`none` for the inferring closures `ByContextual()` /
  `ByDateWithContextual()`, for `ByNameSmart` – which needs the `ParseFloat` oracle – and for anything the
  translator does not know);
* `CsvWriter`, `Command` – plain data, compared with what the models assume by `decide`;
* `Cond` – the conditions of `DetermineErrorState`, evaluated by `evalExitChain`.

The CSV row builders of `Model/C03.lean` are restated with the comparator as a parameter (`…RowsBy`), so that the
theorems of `Props/C03.lean` can be instantiated with the comparator the SOURCE names.
-/
namespace Rare.C03
open Rare.C07 Rare.C13

inductive SortExpr
  | byName
  | byNameSmart
  | byContextual
  | byDateWithContextual
  | reverse (e : SortExpr)
  | valueSorterEx (e : SortExpr)
  | valueNilSorter (e : SortExpr)
  /-- a package-level sorter variable (`NVNameSorter` …) -/
  | named (n : String)
  | other (src : String)
  deriving DecidableEq, Repr

/-- Replace package-level names by their definitions (which mention no further names). -/
def SortExpr.subst (vars : List (String × SortExpr)) : SortExpr → SortExpr
  | .reverse e => .reverse (e.subst vars)
  | .valueSorterEx e => .valueSorterEx (e.subst vars)
  | .valueNilSorter e => .valueNilSorter (e.subst vars)
  | .named n => ((vars.find? (·.1 == n)).map (·.2)).getD (.named n)
  | e => e

/-- A `NameSorter` expression as a stateless closure of the C13 model. -/
def SortExpr.nameCmp : SortExpr → Option (SCmp Key Unit)
  | .byName => some (pureCmp C13.byName)
  | .reverse e => e.nameCmp.map C13.reverse
  | _ => none

/-- A `NameValueSorter` expression as a stateless closure of the C13 model. -/
def SortExpr.nvCmp : SortExpr → Option (SCmp NV Unit)
  | .valueNilSorter e => e.nameCmp.map C13.valueNilSorter
  | .valueSorterEx e => e.nameCmp.map C13.valueSorterEx
  | .reverse e => e.nvCmp.map C13.reverse
  | _ => none

/-- The comparison a `NameValueSorter` expression of the source denotes (`fun _ _ => false` when it is not a pure one;
the theorems then fail to instantiate). -/
def SortExpr.nvLess (vars : List (String × SortExpr)) (e : SortExpr) : NV → NV → Bool :=
  match (e.subst vars).nvCmp with
  | some c => fun a b => (c () a b).1
  | none => fun _ _ => false

/-- The comparison a `NameSorter` expression denotes (`Groups(sorting.ByName)`). -/
def SortExpr.nameLess (vars : List (String × SortExpr)) (e : SortExpr) : Bytes → Bytes → Bool :=
  match (e.subst vars).nameCmp with
  | some c => fun a b => (c () a b).1
  | none => fun _ _ => false

structure CsvWriter where
  name : String
  /-- type of the aggregator parameter -/
  aggType : String
  /-- the operand of every `for … range`, in source order -/
  ranges : List String
  /-- `(accessor, sorter)` for every call on the aggregator that is handed a `sorting.…` value -/
  sorted : List (String × SortExpr)
  /-- every method called on the aggregator parameter, in source order -/
  aggCalls : List String
  deriving DecidableEq, Repr

structure Command where
  name : String
  /-- `aggregation.New…` -/
  aggCtor : String
  aggVar : String
  /-- second argument of `helpers.RunAggregationLoop` (every call) -/
  loopAgg : String
  /-- `(variable, flag, default)` of every `helpers.BuildSorterOrFail(c.String(flag))` -/
  sorterFlags : List (String × String × String)
  /-- sorters built from `sorting.…` directly: `(variable, expression)` -/
  otherSorters : List (String × SortExpr)
  /-- third argument of `helpers.TryWriteCSV` (`""` = the command has no CSV export) and its second -/
  csvWriter : String
  csvAgg : String
  exitArgs : List String
  /-- `RunAggregationLoop`, `Close`, `TryWriteCSV`, `DetermineErrorState` in source order -/
  order : List String
  deriving DecidableEq, Repr

inductive Obs
  | readErrors | parseErrors | matchedLines
  | other (src : String)
  deriving DecidableEq, Repr

inductive Cond
  | gt0 (o : Obs)
  | eq0 (o : Obs)
  | aggNotNil
  | and (a b : Cond)
  | other (src : String)
  deriving DecidableEq, Repr

def Obs.eval (readErrors : Int) (parseErrors matched : Nat) : Obs → Int
  | .readErrors => readErrors
  | .parseErrors => parseErrors
  | .matchedLines => matched
  | .other _ => 0

def Cond.eval (readErrors : Int) (aggNil : Bool) (parseErrors matched : Nat) : Cond → Bool
  | .gt0 o => decide (o.eval readErrors parseErrors matched > 0)
  | .eq0 o => decide (o.eval readErrors parseErrors matched = 0)
  | .aggNotNil => !aggNil
  | .and a b => a.eval readErrors aggNil parseErrors matched && b.eval readErrors aggNil parseErrors matched
  | .other _ => false

/-- `if c₁ { return code₁ }; if c₂ { return code₂ }; …; return dflt`. -/
def evalExitChain (chain : List (Cond × Nat)) (dflt : Nat) (readErrors : Int) (aggNil : Bool) (parseErrors matched : Nat) : Nat :=
  match chain with
  | [] => dflt
  | (c, code) :: rest =>
    if c.eval readErrors aggNil parseErrors matched then code
    else evalExitChain rest dflt readErrors aggNil parseErrors matched

/-! ### small Go fragments evaluated from the source: `helpers.SortsByValue` and the guard of spark's trim step -/

/-- a Go boolean expression over identifiers (variables, `x == nil`, `x == "lit"`, calls of Bool-valued helpers on
identifiers); anything else is `other` and has no value -/
inductive GoB
  | lit (b : Bool)
  | var (v : String)
  | isNil (v : String)
  | notNil (v : String)
  | strEq (v lit : String)
  | strNe (v lit : String)
  | call (f : String) (args : List String)
  | not (a : GoB)
  | and (a b : GoB)
  | or (a b : GoB)
  | other (src : String)
  deriving DecidableEq, Repr

/-- what the identifiers of a `GoB` stand for -/
structure GoEnv where
  bools : String → Option Bool := fun _ => none
  /-- string variables, as bytes -/
  strs : String → Option Bytes := fun _ => none
  /-- `true` = the (error) variable is nil -/
  nils : String → Option Bool := fun _ => none
  calls : String → List String → Option Bool := fun _ _ => none

def GoB.eval (env : GoEnv) : GoB → Option Bool
  | .lit b => some b
  | .var v => env.bools v
  | .isNil v => env.nils v
  | .notNil v => (env.nils v).map (!·)
  | .strEq v l => (env.strs v).map (· == asc l)
  | .strNe v l => (env.strs v).map (· != asc l)
  | .call f args => env.calls f args
  | .not a => (a.eval env).map (!·)
  | .and a b => match a.eval env, b.eval env with
    | some x, some y => some (x && y)
    | _, _ => none
  | .or a b => match a.eval env, b.eval env with
    | some x, some y => some (x || y)
    | _, _ => none
  | .other _ => none

/-- a function of one string parameter whose body is `lhs… := callee(args…)` followed by `return ret`
(`helpers.SortsByValue`); arguments are identifiers or literals as the source spells them -/
structure SbvSrc where
  param : String
  lhs : List String
  callee : String
  args : List String
  ret : GoB
  deriving DecidableEq, Repr

/-- the bytes before the first `:` (`strings.Cut(s, ":")`, first result) -/
def cutColon (s : Bytes) : Bytes := s.takeWhile (· != 58)

/-- Run such a function on `fullName`.  Known callees: `parseSort(param)` – three results `(name, reverse, err)`, on an
error Go hands back `"", false, err` – with `parse` standing for it, and `strings.Cut(param, ":")` – `(before, after,
found)`.  The result is Bool-valued whenever `ret` only looks at the name (first result) and the error (third). -/
def SbvSrc.eval (parse : Bytes → Except C13.SortErr (Bytes × Bool)) (s : SbvSrc) (fullName : Bytes) : Option Bool :=
  match s.lhs with
  | [n, r, e] =>
    if s.callee = "parseSort" ∧ s.args = [s.param] then
      let res := parse fullName
      let name : Bytes := match res with | .ok (nm, _) => nm | .error _ => []
      let rev : Bool := match res with | .ok (_, rv) => rv | .error _ => false
      let isNil : Bool := match res with | .ok _ => true | .error _ => false
      s.ret.eval { strs := fun v => if v ≠ "_" ∧ v = n then some name else none,
                   bools := fun v => if v ≠ "_" ∧ v = r then some rev else none,
                   nils := fun v => if v ≠ "_" ∧ v = e then some isNil else none }
    else if s.callee = "strings.Cut" ∧ s.args = [s.param, "\":\""] then
      s.ret.eval { strs := fun v => if v ≠ "_" ∧ v = n then some (cutColon fullName) else none,
                   bools := fun v => if v ≠ "_" ∧ v = e then some (fullName.contains 58) else none }
    else none
  | _ => none

/-! ### the CSV row builders with the comparator as a parameter -/

def counterRowsBy (less : NV → NV → Bool) (srt : SortFn) (order : List Bytes) (count : Bytes → Int) : List (List Bytes) :=
  [hdrGroup, hdrValue] ::
    (srt less (order.map fun k => (⟨k, count k⟩ : NV))).map fun nv => [nv.name, itoa nv.value]

def tableRowsBy (colLess rowLess : NV → NV → Bool) (srt : SortFn) (colOrder rowOrder : List Bytes)
    (colTotal rowSum : Bytes → Int) (cell : Bytes → Bytes → Int) : List (List Bytes) :=
  let cols := (srt colLess (colOrder.map fun c => (⟨c, colTotal c⟩ : NV))).map (·.name)
  ([] :: cols) ::
    (srt rowLess (rowOrder.map fun r => (⟨r, rowSum r⟩ : NV))).map fun nv =>
      nv.name :: cols.map fun c => itoa (cell nv.name c)

def subCounterRowsBy (less : NV → NV → Bool) (srt : SortFn) (order : List Bytes) (subKeys : List Bytes)
    (count : Bytes → Int) (vec : Bytes → List Int) : List (List Bytes) :=
  (hdrGroup :: subKeys) ::
    (srt less (order.map fun k => (⟨k, count k⟩ : NV))).map fun nv => nv.name :: (vec nv.name).map itoa

theorem counterRows_eq_by : counterRows = counterRowsBy nvValueLess := rfl
theorem tableRows_eq_by : tableRows = tableRowsBy nvNameLess nvNameLess := rfl
theorem subCounterRows_eq_by : subCounterRows = subCounterRowsBy nvNameLess := rfl

/-- The sorter of `sortExpr` in the shape `(accessor, sorter)` list of a writer. -/
def CsvWriter.sorterOf (w : CsvWriter) (accessor : String) : SortExpr :=
  ((w.sorted.find? (·.1 == accessor)).map (·.2)).getD (.other "missing")

def findWriter (ws : List CsvWriter) (name : String) : CsvWriter :=
  (ws.find? (·.name == name)).getD ⟨"missing", "", [], [], []⟩

def findCommand (cs : List Command) (name : String) : Command :=
  (cs.find? (·.name == name)).getD ⟨"missing", "", "", "", [], [], "", "", [], []⟩

/-! ### flag tables (`Gen.C03.commandFlags`, `commandFlagReads`) -/

/-- `(kind, name, aliases, default as spelled in the source)` -/
abbrev FlagDecl := String × String × List String × String

def flagOf (tbl : List (String × List FlagDecl)) (cmd name : String) : Option FlagDecl :=
  ((tbl.find? (·.1 == cmd)).map (·.2)).bind fun fs => fs.find? (·.2.1 == name)

/-- the command lists the shared flag variable / helper call `src` -/
def hasShared (tbl : List (String × List FlagDecl)) (cmd src : String) : Bool :=
  match flagOf tbl cmd src with
  | some (k, _, _, _) => k == "shared"
  | none => false

def readOf (tbl : List (String × List (String × String))) (cmd var : String) : Option String :=
  ((tbl.find? (·.1 == cmd)).map (·.2)).bind fun rs => (rs.find? (·.1 == var)).map (·.2)

end Rare.C03
