import Rare.Base.Bytes
/-!
Labelled transition system of the extraction pipeline (DESIGN.md 3.7):

  file/reader goroutines (at most `R` at a time, `OpenFilesToChan`'s semaphore)
    ──batches──▶ channel `c` (capacity `B`, `Batcher.c`)
    ──▶ `W` workers (`Extractor.asyncWorker`: one `processLineSync` per line, three atomic counters)
    ──match batches──▶ channel `rc` (capacity `K`, `Extractor.readChan`)
    ──▶ the consumer (`for matchBatch := range ext.ReadChan()`).

Closer goroutines: `wg.Wait(); close(c)` once every source is finished, `wg.Wait();
close(readChan)` once every worker has returned.  One transition per channel operation, per
line processed and per goroutine start/exit.  The batches a source will send are precomputed by
the sequential batching loop (`Rare.Batcher.run`, any flush-timer oracle), because only the
sends interleave with other goroutines.

`α` is the type of input lines (already carrying source and line number if desired);
`cls` classifies a line as the extractor would: matched (non-empty key), ignored, unmatched.
-/
namespace Rare.Pipeline

inductive Cls | matched | ignored | unmatched
  deriving DecidableEq, Repr

inductive SrcSt (α : Type)
  | waiting (bs : List (List α))   -- not yet started (still in the file-name channel / blocked on the semaphore)
  | active (bs : List (List α))    -- goroutine running, batches still to send
  | done
  deriving Repr

inductive WSt (α : Type)
  | idle                                   -- blocked in `<-inputBatch`
  | busy (todo : List α) (acc : List α)    -- inside the per-line loop; `acc` = matchBatch so far
  | exited
  deriving Repr

structure St (α : Type) where
  srcs : List (SrcSt α)
  c : List (List α)
  cClosed : Bool
  workers : List (WSt α)
  rc : List (List α)
  rcClosed : Bool
  consumed : List α        -- matches received by the consumer, in order
  consDone : Bool          -- the consumer saw the closed, drained channel
  processed : List α       -- ghost: lines that have gone through `processLineSync`
  nRead : Nat              -- atomic counters of the Extractor
  nMatched : Nat
  nIgnored : Nat

def init {α : Type} (inputs : List (List (List α))) (W : Nat) : St α :=
  { srcs := inputs.map SrcSt.waiting, c := [], cClosed := false,
    workers := List.replicate W WSt.idle, rc := [], rcClosed := false,
    consumed := [], consDone := false, processed := [], nRead := 0, nMatched := 0, nIgnored := 0 }

def SrcSt.isActive {α} : SrcSt α → Bool
  | .active _ => true
  | _ => false

def SrcSt.isDone {α} : SrcSt α → Bool
  | .done => true
  | _ => false

def WSt.isExited {α} : WSt α → Bool
  | .exited => true
  | _ => false

def activeCount {α} (s : St α) : Nat := (s.srcs.filter SrcSt.isActive).length

/-- One atomic step of some goroutine.  `R` = reader concurrency, `B`, `K` = channel capacities. -/
inductive Step {α : Type} (cls : α → Cls) (R B K : Nat) : St α → St α → Prop
  /-- the spawner acquires a semaphore slot and starts the goroutine of source `i` -/
  | start (s : St α) (i : Nat) (bs : List (List α)) :
      s.srcs[i]? = some (.waiting bs) → activeCount s < R →
      Step cls R B K s { s with srcs := s.srcs.set i (.active bs) }
  /-- `s.c <- batch` (blocks while the channel is full) -/
  | send (s : St α) (i : Nat) (b : List α) (bs : List (List α)) :
      s.srcs[i]? = some (.active (b :: bs)) → s.c.length < B →
      Step cls R B K s { s with srcs := s.srcs.set i (.active bs), c := s.c ++ [b] }
  /-- the reader goroutine returns (EOF, read error, or open error): releases its slot -/
  | finish (s : St α) (i : Nat) :
      s.srcs[i]? = some (.active []) →
      Step cls R B K s { s with srcs := s.srcs.set i .done }
  /-- `wg.Wait(); out.close()` -/
  | closeC (s : St α) :
      s.srcs.all SrcSt.isDone = true → s.cClosed = false →
      Step cls R B K s { s with cClosed := true }
  /-- `batch, more := <-inputBatch` with a batch available -/
  | wrecv (s : St α) (j : Nat) (b : List α) (rest : List (List α)) :
      s.workers[j]? = some .idle → s.c = b :: rest →
      Step cls R B K s { s with workers := s.workers.set j (.busy b []), c := rest }
  /-- `processLineSync` on the next line of the batch -/
  | wproc (s : St α) (j : Nat) (x : α) (todo acc : List α) :
      s.workers[j]? = some (.busy (x :: todo) acc) →
      Step cls R B K s { s with
        workers := s.workers.set j (.busy todo (if cls x = .matched then acc ++ [x] else acc)),
        processed := s.processed ++ [x],
        nRead := s.nRead + 1,
        nMatched := if cls x = .matched then s.nMatched + 1 else s.nMatched,
        nIgnored := if cls x = .ignored then s.nIgnored + 1 else s.nIgnored }
  /-- `s.readChan <- matchBatch` (only when the batch produced matches) -/
  | wsend (s : St α) (j : Nat) (acc : List α) :
      s.workers[j]? = some (.busy [] acc) → acc ≠ [] → s.rc.length < K →
      Step cls R B K s { s with workers := s.workers.set j .idle, rc := s.rc ++ [acc] }
  /-- batch without matches: back to the receive -/
  | wskip (s : St α) (j : Nat) :
      s.workers[j]? = some (.busy [] []) →
      Step cls R B K s { s with workers := s.workers.set j .idle }
  /-- `<-inputBatch` observes closed and drained: the worker returns (`wg.Done()`) -/
  | wexit (s : St α) (j : Nat) :
      s.workers[j]? = some .idle → s.c = [] → s.cClosed = true →
      Step cls R B K s { s with workers := s.workers.set j .exited }
  /-- `wg.Wait(); close(extractor.readChan)` -/
  | closeRC (s : St α) :
      s.workers.all WSt.isExited = true → s.rcClosed = false →
      Step cls R B K s { s with rcClosed := true }
  /-- the consumer receives a match batch -/
  | crecv (s : St α) (m : List α) (rest : List (List α)) :
      s.rc = m :: rest → s.consDone = false →
      Step cls R B K s { s with rc := rest, consumed := s.consumed ++ m }
  /-- the consumer's range loop ends -/
  | cdone (s : St α) :
      s.rc = [] → s.rcClosed = true → s.consDone = false →
      Step cls R B K s { s with consDone := true }

/-- Reachability. -/
inductive Reach {α : Type} (cls : α → Cls) (R B K : Nat) (s0 : St α) : St α → Prop
  | refl : Reach cls R B K s0 s0
  | step {s s'} : Reach cls R B K s0 s → Step cls R B K s s' → Reach cls R B K s0 s'

/-! Observables used by the correspondence harness and the theorems. -/

def SrcSt.lines {α} : SrcSt α → List α
  | .waiting bs => bs.flatten
  | .active bs => bs.flatten
  | .done => []

def WSt.todo {α} : WSt α → List α
  | .busy t _ => t
  | _ => []

def WSt.acc {α} : WSt α → List α
  | .busy _ a => a
  | _ => []

def srcLines {α} (s : St α) : List α := s.srcs.flatMap SrcSt.lines
def wTodo {α} (s : St α) : List α := s.workers.flatMap WSt.todo
def wAcc {α} (s : St α) : List α := s.workers.flatMap WSt.acc

def isMatched {α} (cls : α → Cls) (x : α) : Bool := cls x = .matched
def isIgnored {α} (cls : α → Cls) (x : α) : Bool := cls x = .ignored

end Rare.Pipeline
