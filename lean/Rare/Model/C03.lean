import Rare.Spec.C03
import Rare.Model.C07
import Rare.Model.C13
import Rare.Model.C01
/-!
Model for C03.

* `encoding/csv.Writer` as rare uses it (`csv.NewWriter`: `Comma = ','`, `UseCRLF = false`):
  `fieldNeedsQuotes`, the quoting loop, the `\n` record terminator.
* the CSV writers of `pkg/csv/aggWriters.go` over the aggregator models of C07: which accessor
  and which sorter each one uses.  Go's randomised map iteration is the explicit argument
  `order` (the keys in the order `range` yields them); `sort.Sort` is the argument `srt`.
* `DetermineErrorState`.
* the sequential reference for every command with a CSV export.
-/
namespace Rare.C03
open Rare.C07 Rare.C13

/-! ### encoding/csv Writer -/

/-- `c == '\n' || c == '\r' || c == '"' || c == byte(w.Comma)` -/
def isSpecial (b : UInt8) : Bool := b = 10 || b = 13 || b = 34 || b = 44

/-- `r1, _ := utf8.DecodeRuneInString(field); unicode.IsSpace(r1)` as a function of the leading bytes:
TAB LF VT FF CR SPACE, U+0085, U+00A0, U+1680, U+2000–U+200A, U+2028, U+2029, U+202F, U+205F, U+3000.
(An invalid leading sequence decodes to U+FFFD, which is not a space.) -/
def firstRuneIsSpace : Bytes → Bool
  | [] => false
  | b0 :: r =>
    if b0 = 9 || b0 = 10 || b0 = 11 || b0 = 12 || b0 = 13 || b0 = 32 then true
    else match b0, r with
      | 0xC2, b1 :: _ => b1 = 0x85 || b1 = 0xA0
      | 0xE1, b1 :: b2 :: _ => b1 = 0x9A && b2 = 0x80
      | 0xE2, b1 :: b2 :: _ =>
        (b1 = 0x80 && ((0x80 ≤ b2 && b2 ≤ 0x8A) || b2 = 0xA8 || b2 = 0xA9 || b2 = 0xAF)) || (b1 = 0x81 && b2 = 0x9F)
      | 0xE3, b1 :: b2 :: _ => b1 = 0x80 && b2 = 0x80
      | _, _ => false

/-- `Writer.fieldNeedsQuotes` -/
def fieldNeedsQuotes (field : Bytes) : Bool :=
  if field = [] then false
  else if field = [92, 46] then true          -- `\.`
  else if field.any isSpecial then true
  else firstRuneIsSpace field

/-- The loop between the two `"`: every `"` is doubled, CR and LF are written as they are
(`UseCRLF` is false), every other run of bytes is copied. -/
def quoteBody : Bytes → Bytes
  | [] => []
  | b :: r => if b = 34 then 34 :: 34 :: quoteBody r else b :: quoteBody r

def writeField (field : Bytes) : Bytes :=
  if fieldNeedsQuotes field then 34 :: (quoteBody field ++ [34]) else field

/-- `Writer.Write(record)`: fields joined by `,`, then `\n` (also for a record without fields). -/
def writeRecord : List Bytes → Bytes
  | [] => [10]
  | [f] => writeField f ++ [10]
  | f :: r => writeField f ++ 44 :: writeRecord r

def writeCsv (rows : List (List Bytes)) : Bytes := rows.flatMap writeRecord

/-! ### sorters used by the CSV writers (`sorting/namevalue.go`) -/

/-- `NVValueSorter = Reverse(ValueSorterEx(Reverse(ByName)))` -/
def nvValueSorter : SCmp NV Unit := C13.reverse (valueSorterEx (C13.reverse (pureCmp byName)))
/-- `NVNameSorter = ValueNilSorter(ByName)` -/
def nvNameSorter : SCmp NV Unit := valueNilSorter (pureCmp byName)

def nvValueLess (a b : NV) : Bool := (nvValueSorter () a b).1
def nvNameLess (a b : NV) : Bool := (nvNameSorter () a b).1

/-- A sorting routine on name/value pairs: given `less` and a list, a list.
(`sort.Sort` through `sorting.SortBy`; executable stand-in: `isort`.) -/
abbrev SortFn := (NV → NV → Bool) → List NV → List NV

/-- the header words `group`, `value` -/
def hdrGroup : Bytes := [103, 114, 111, 117, 112]
def hdrValue : Bytes := [118, 97, 108, 117, 101]

/-! ### pkg/csv/aggWriters.go

Each writer is a function of (i) the map keys in iteration order, (ii) look-ups.  -/

/-- `WriteCounter`: header, then `ItemsSortedBy(GroupCount(), NVValueSorter)` as `name,count`. -/
def counterRows (srt : SortFn) (order : List Bytes) (count : Bytes → Int) : List (List Bytes) :=
  [hdrGroup, hdrValue] ::
    (srt nvValueLess (order.map fun k => (⟨k, count k⟩ : NV))).map fun nv => [nv.name, itoa nv.value]

/-- `WriteTable`: `"" :: OrderedColumns(NVNameSorter)`, then per `OrderedRows(NVNameSorter)` the name
and `row.Value(col)` for every column.  `colTotal`/`rowSum` are the values the sorter is handed. -/
def tableRows (srt : SortFn) (colOrder rowOrder : List Bytes) (colTotal rowSum : Bytes → Int)
    (cell : Bytes → Bytes → Int) : List (List Bytes) :=
  let cols := (srt nvNameLess (colOrder.map fun c => (⟨c, colTotal c⟩ : NV))).map (·.name)
  ([] :: cols) ::
    (srt nvNameLess (rowOrder.map fun r => (⟨r, rowSum r⟩ : NV))).map fun nv =>
      nv.name :: cols.map fun c => itoa (cell nv.name c)

/-- `WriteSubCounter`: `"group" :: SubKeys()`, then per `ItemsSorted(NVNameSorter)` the name and the vector. -/
def subCounterRows (srt : SortFn) (order : List Bytes) (subKeys : List Bytes) (count : Bytes → Int)
    (vec : Bytes → List Int) : List (List Bytes) :=
  (hdrGroup :: subKeys) ::
    (srt nvNameLess (order.map fun k => (⟨k, count k⟩ : NV))).map fun nv => nv.name :: (vec nv.name).map itoa

/-! instantiation on the aggregator states of C07 -/

def counterCsvRows (srt : SortFn) (order : List Bytes) (c : Counter) : List (List Bytes) :=
  counterRows srt order fun k => (aget c.items k).getD 0

def tableCsvRows (srt : SortFn) (colOrder rowOrder : List Bytes) (t : Table) : List (List Bytes) :=
  tableRows srt colOrder rowOrder t.colTotal (fun r => ((aget t.rows r).map (·.sum)).getD 0)
    fun r c => ((aget t.rows r).map (·.value c)).getD 0

def subKeyCsvRows (srt : SortFn) (order : List Bytes) (s : SubKeyCounter) : List (List Bytes) :=
  subCounterRows srt order s.subKeys (fun k => ((aget s.items k).map (·.count)).getD 0)
    fun k => ((aget s.items k).map (·.submatches)).getD []

/-- executable instance of `sort.Sort` for the driver -/
def isortFn : SortFn := fun less l => isort less l

/-! ### spark: the truncation inside every render (`cmd/spark.go`)

`keepCols := OrderedColumns(colSorter)`; when there are more than `numCols`, every cell of a column
that is not among the LAST `numCols` is trimmed.  Modelled for the name-ordered sorter. -/
def sparkTrim (numCols : Nat) (t : Table) : Table :=
  let cols := (isort nvNameLess ((akeys t.cols).map fun c => (⟨c, t.colTotal c⟩ : NV))).map (·.name)
  if cols.length > numCols then
    let keep := cols.drop (cols.length - numCols)
    (t.trim (fun c _ _ => !keep.contains c) (akeys t.cols) (fun _ => akeys t.rows)).1
  else t

/-- What the table aggregator of a `spark` run sees: a sample, or the trim step of a render (the periodic 100 ms
renders and the final one). -/
inductive SparkEv
  | sample (e : Bytes)
  | render
  deriving Repr, DecidableEq

def sparkStep (numCols : Nat) (t : Table) : SparkEv → Table
  | .sample e => t.sample e
  | .render => sparkTrim numCols t

/-- The aggregator after a whole script of samples and renders. -/
def sparkRun (numCols : Nat) (delim : Bytes) (evs : List SparkEv) : Table :=
  evs.foldl (sparkStep numCols) { delim := delim }

def sparkSamples : List SparkEv → List Bytes
  | [] => []
  | .sample e :: r => e :: sparkSamples r
  | .render :: r => sparkSamples r

/-- `samples` with a render after `k` samples for every `k` in `renders` (ascending; a count may repeat; counts
beyond the number of samples are ignored). -/
def sparkScript : Nat → List Bytes → List Nat → List SparkEv
  | _, [], [] => []
  | i, s :: ss, [] => .sample s :: sparkScript (i + 1) ss []
  | i, [], r :: rs => if r ≤ i then .render :: sparkScript i [] rs else sparkScript i [] rs
  | i, s :: ss, r :: rs =>
    if r ≤ i then .render :: sparkScript i (s :: ss) rs else .sample s :: sparkScript (i + 1) ss (r :: rs)
termination_by _ ss rs => ss.length + rs.length

/-! ### the same with the column sorter of `--sort-cols` as a parameter

`colSorter := helpers.BuildSorter(sortCols)` – `less` is that comparator on `(column name, column total)` pairs
(`Model/C03Cmd.pureSortLess`: `text`, `numeric` – spark's default –, any modifier).  `sparkTrim = sparkTrimBy nvNameLess`. -/
def sparkTrimBy (less : NV → NV → Bool) (numCols : Nat) (t : Table) : Table :=
  let cols := (isort less ((akeys t.cols).map fun c => (⟨c, t.colTotal c⟩ : NV))).map (·.name)
  if cols.length > numCols then
    let keep := cols.drop (cols.length - numCols)
    (t.trim (fun c _ _ => !keep.contains c) (akeys t.cols) (fun _ => akeys t.rows)).1
  else t

def sparkStepBy (less : NV → NV → Bool) (numCols : Nat) (t : Table) : SparkEv → Table
  | .sample e => t.sample e
  | .render => sparkTrimBy less numCols t

def sparkRunBy (less : NV → NV → Bool) (numCols : Nat) (delim : Bytes) (evs : List SparkEv) : Table :=
  evs.foldl (sparkStepBy less numCols) { delim := delim }

/-! ### cmd/helpers/exitCodes.go -/

/-- `DetermineErrorState`: the exit code (0 = `nil`); `aggNil` = the aggregator argument is nil. -/
def determineErrorState (readErrors : Int) (aggNil : Bool) (parseErrors : Nat) (matchedLines : Nat) : Nat :=
  if readErrors > 0 then 2
  else if !aggNil && parseErrors > 0 then 2
  else if matchedLines = 0 then 1
  else 0

/-! ### the sequential reference of each command's CSV export -/

def refCounterCsv (samples : List Bytes) : Bytes :=
  let c := Counter.run samples
  writeCsv (counterCsvRows isortFn (akeys c.items) c)

def refTableCsv (delim : Bytes) (samples : List Bytes) : Bytes :=
  let t := Table.run delim samples
  writeCsv (tableCsvRows isortFn (akeys t.cols) (akeys t.rows) t)

def refSparkCsv (delim : Bytes) (numCols : Nat) (samples : List Bytes) : Bytes :=
  let t := sparkTrim numCols (Table.run delim samples)
  writeCsv (tableCsvRows isortFn (akeys t.cols) (akeys t.rows) t)

def refSubKeyCsv (samples : List Bytes) : Except String Bytes :=
  (SubKeyCounter.run samples).map fun s => writeCsv (subKeyCsvRows isortFn (akeys s.items) s)

end Rare.C03
