import Rare.Model.Expr.Std
import Rare.Model.C09Utf8
/-!
User-defined functions (`pkg/expressions/funcfile`): the definitions-file loader and
`keyBuilderToFunction` / `lazySubContext`.
-/
namespace Rare.C10
open Rare.Expr

/-- Evaluate a compiled body inside a `lazySubContext{args, sub}`: `GetMatch(i)` evaluates the call's
    `i`-th argument stage in the caller's context (each time it is read), an index beyond the arguments
    reads as empty, a negative index passes through to the caller's context, `GetKey` goes to the
    caller's context. -/
def withArgs {α : Type} (args : List Stage) : Comp α → Comp α
  | .ret a => .ret a
  | .getMatch i k =>
    if i < 0 then .getMatch i fun b => withArgs args (k b)
    else if i ≥ args.length then withArgs args (k [])
    else (args.getD i.toNat (.ret [])).bind fun v => withArgs args (k v)
  | .getKey s k => .getKey s fun b => withArgs args (k b)
  | .panic m => .panic m

/-- `keyBuilderToFunction(stage)` -/
def userFunction (body : List Stage) : Builder := fun args =>
  .ok ⟨some (withArgs args (buildKey body)), none⟩

/-- The context a function body sees: `{i}` is the value of the call's `i`-th argument in the caller's
    match, a missing argument is empty, named keys (and negative indices) are the caller's. -/
def argCtx (ctx : Ctx) (nargs : Nat) (vals : List Bytes) : Ctx :=
  { getMatch := fun i => if i < 0 then ctx.getMatch i else if i ≥ nargs then [] else vals.getD i.toNat [],
    getKey := ctx.getKey }

/-! ### the definitions file -/

def trimAfterHash (l : Bytes) : Bytes := l.takeWhile (· ≠ 35)

/-- Length of the white-space rune (`unicode.IsSpace`) encoded at the head of `s`, 0 when there is none. -/
def spaceLenFront (s : Bytes) : Nat :=
  match s with
  | [] => 0
  | b :: _ =>
    if isAsciiSpace b then 1
    else match s with
      | 0xC2 :: 0x85 :: _ => 2
      | 0xC2 :: 0xA0 :: _ => 2
      | 0xE1 :: 0x9A :: 0x80 :: _ => 3
      | 0xE2 :: 0x80 :: x :: _ =>
        if (0x80 ≤ x && x ≤ 0x8A) || x == 0xA8 || x == 0xA9 || x == 0xAF then 3 else 0
      | 0xE2 :: 0x81 :: 0x9F :: _ => 3
      | 0xE3 :: 0x80 :: 0x80 :: _ => 3
      | _ => 0

/-- The same at the END of a string, given REVERSED (`utf8.DecodeLastRuneInString`: the lead byte of each of
    these encodings is a start byte, so a match of the last 1/2/3 bytes is the last rune). -/
def spaceLenBack (rev : Bytes) : Nat :=
  match rev with
  | [] => 0
  | b :: _ =>
    if isAsciiSpace b then 1
    else match rev with
      | 0x85 :: 0xC2 :: _ => 2
      | 0xA0 :: 0xC2 :: _ => 2
      | 0x80 :: 0x9A :: 0xE1 :: _ => 3
      | x :: 0x80 :: 0xE2 :: _ =>
        if (0x80 ≤ x && x ≤ 0x8A) || x == 0xA8 || x == 0xA9 || x == 0xAF then 3 else 0
      | 0x9F :: 0x81 :: 0xE2 :: _ => 3
      | 0x80 :: 0x80 :: 0xE3 :: _ => 3
      | _ => 0

def trimFront : Nat → Bytes → Bytes
  | 0, s => s
  | f + 1, s => match spaceLenFront s with
    | 0 => s
    | k => trimFront f (s.drop k)

def trimBackRev : Nat → Bytes → Bytes
  | 0, s => s
  | f + 1, s => match spaceLenBack s with
    | 0 => s
    | k => trimBackRev f (s.drop k)

/-- `strings.TrimSpace`: leading and trailing runes with the Unicode `White_Space` property (ASCII blanks,
    NEL, NBSP, U+1680, U+2000–200A, U+2028/9, U+202F, U+205F, U+3000) are removed; interior ones stay. -/
def trimSpaceGo (l : Bytes) : Bytes :=
  let a := trimFront l.length l
  (trimBackRev a.length a.reverse).reverse

/-- `bufio.MaxScanTokenSize`: a line of this many bytes (before its `\n`) or more does not fit the scanner's
    buffer; `Scan()` then answers false and the rest of the file is silently ignored. -/
def maxLine : Nat := 65536

/-- `bufio.Scanner` lines: split at `\n`, one trailing `\r` dropped, no final empty line; stops at a line
    that does not fit the buffer. -/
def scanLines (text : Bytes) : List Bytes :=
  let rec go (cur : Bytes) (n : Nat) : Bytes → List Bytes
    | [] => if cur.isEmpty then [] else [if cur.getLast? = some 13 then cur.dropLast else cur]
    | b :: r =>
      if b = 10 then (if cur.getLast? = some 13 then cur.dropLast else cur) :: go [] 0 r
      else if n + 1 ≥ maxLine then []
      else go (cur ++ [b]) (n + 1) r
  go [] 0 text

/-- The multi-line joiner of `LoadDefinitions`: returns the phrases in file order.
    `sb` = text accumulated for the phrase under construction, `open_` = a continuation is pending. -/
def joinPhrases : List Bytes → Bytes → List Bytes
  | [], sb => if sb.isEmpty then [] else [sb]
  | l :: rest, sb =>
    let line := trimSpaceGo (trimAfterHash l)
    if line.isEmpty then joinPhrases rest sb
    else if line.getLast? = some 92 then joinPhrases rest (sb ++ line.dropLast)
    else
      let phrase := sb ++ line
      -- `if sb.Len() == 0 { break }` cannot trigger here: `line` is non-empty
      phrase :: joinPhrases rest []

/-- `strings.SplitN(phrase, " ", 2)` -/
def splitName : Bytes → Option (Bytes × Bytes)
  | [] => none
  | b :: r => if b = 32 then some ([], r) else (splitName r).map fun p => (b :: p.1, p.2)

def parseDefs (text : Bytes) : List (Option (Bytes × Bytes)) := (joinPhrases (scanLines text) []).map splitName

/-- Extend a registry with one more function (later definitions shadow earlier ones and builtins). -/
def extend (reg : Registry) (name : List Char) (b : Builder) : Registry := fun n => if n = name then some b else reg n

/-- `LoadDefinitions` over a compiler that optimises (main.go uses `funclib.NewKeyBuilder()`):
    returns the compiler's registry after all definitions and the list of added functions (in order).

    * The expression is a Go string handed to `Compile`: decoded like `[]rune(s)` (`C09.compileBytes`; an
      invalid byte is U+FFFD).
    * `createAndAddFunc` compiles FIRST and registers AFTER: the body sees the builtins and the definitions
      before it – never itself, never a later one; an unknown name is `ErrorMissingFunction`, hence a compile
      error, hence "logged, not added" (recursion and forward references are rejected this way).
    * The name is registered as the raw byte string (`compiler.Func(name, fnc)`); a call site spells names in
      runes (`string(runes)`), so a name that is not well-formed UTF-8 can never be called: it is compiled
      (a panicking builder still panics) but not added. -/
def loadDefs (reg : Registry) : List (Option (Bytes × Bytes)) → Except String (Registry × List (List Char × Builder))
  | [] => .ok (reg, [])
  | none :: rest => loadDefs reg rest                      -- "Missing expression": skipped
  | some (name, expr) :: rest =>
    match Rare.C09.compileBytes reg true expr with
    | .error m => .error m
    | .ok (stages, errs) =>
      if errs.isEmpty && Rare.C09.wellFormed name then
        let n := Rare.C09.decodeRunes name
        let f := userFunction stages
        match loadDefs (extend reg n f) rest with
        | .error m => .error m
        | .ok (r, fs) => .ok (r, (n, f) :: fs)
      else loadDefs reg rest                                -- compile error: logged, not added

/-- The registry the CLI evaluates with after `--funcs file`: builtins plus the loaded functions. -/
def withFuncs (base : Registry) (fs : List (List Char × Builder)) : Registry :=
  fs.foldl (fun r nf => extend r nf.1 nf.2) base

end Rare.C10
