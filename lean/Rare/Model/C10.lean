import Rare.Model.Expr.Std
/-!
User-defined functions (`pkg/expressions/funcfile`): the definitions-file loader and
`keyBuilderToFunction` / `lazySubContext`.
-/
namespace Rare.C10
open Rare.Expr

/-- Evaluate a compiled body inside a `lazySubContext{args, sub}`: `GetMatch(i)` evaluates the call's
    `i`-th argument stage in the caller's context (each time it is read), an index beyond the arguments
    reads as empty, a negative index passes through to the caller's context, `GetKey` goes to the
    caller's context. -/
def withArgs {α : Type} (args : List Stage) : Comp α → Comp α
  | .ret a => .ret a
  | .getMatch i k =>
    if i < 0 then .getMatch i fun b => withArgs args (k b)
    else if i ≥ args.length then withArgs args (k [])
    else (args.getD i.toNat (.ret [])).bind fun v => withArgs args (k v)
  | .getKey s k => .getKey s fun b => withArgs args (k b)
  | .panic m => .panic m

/-- `keyBuilderToFunction(stage)` -/
def userFunction (body : List Stage) : Builder := fun args =>
  .ok ⟨some (withArgs args (buildKey body)), none⟩

/-! ### the definitions file -/

def trimAfterHash (l : Bytes) : Bytes := l.takeWhile (· ≠ 35)

def trimRightSpace (l : Bytes) : Bytes := (l.reverse.dropWhile isAsciiSpace).reverse
def trimSpaceAscii (l : Bytes) : Bytes := trimRightSpace (l.dropWhile isAsciiSpace)

/-- `bufio.Scanner` lines: split at `\n`, one trailing `\r` dropped, no final empty line. -/
def scanLines (text : Bytes) : List Bytes :=
  let rec go (cur : Bytes) : Bytes → List Bytes
    | [] => if cur.isEmpty then [] else [cur]
    | b :: r => if b = 10 then (if cur.getLast? = some 13 then cur.dropLast else cur) :: go [] r else go (cur ++ [b]) r
  go [] text

/-- The multi-line joiner of `LoadDefinitions`: returns the phrases in file order.
    `sb` = text accumulated for the phrase under construction, `open_` = a continuation is pending. -/
def joinPhrases : List Bytes → Bytes → List Bytes
  | [], sb => if sb.isEmpty then [] else [sb]
  | l :: rest, sb =>
    let line := trimSpaceAscii (trimAfterHash l)
    if line.isEmpty then joinPhrases rest sb
    else if line.getLast? = some 92 then joinPhrases rest (sb ++ line.dropLast)
    else
      let phrase := sb ++ line
      -- `if sb.Len() == 0 { break }` cannot trigger here: `line` is non-empty
      phrase :: joinPhrases rest []

/-- `strings.SplitN(phrase, " ", 2)` -/
def splitName : Bytes → Option (Bytes × Bytes)
  | [] => none
  | b :: r => if b = 32 then some ([], r) else (splitName r).map fun p => (b :: p.1, p.2)

def parseDefs (text : Bytes) : List (Option (Bytes × Bytes)) := (joinPhrases (scanLines text) []).map splitName

def bytesToChars (b : Bytes) : Option (List Char) :=
  (String.fromUTF8? (ByteArray.mk b.toArray)).map String.toList

/-- Extend a registry with one more function (later definitions shadow earlier ones and builtins). -/
def extend (reg : Registry) (name : List Char) (b : Builder) : Registry := fun n => if n = name then some b else reg n

/-- `LoadDefinitions` over a compiler that optimises (main.go uses `funclib.NewKeyBuilder()`):
    returns the compiler's registry after all definitions and the list of added functions (in order). -/
def loadDefs (reg : Registry) : List (Option (Bytes × Bytes)) → Except String (Registry × List (List Char × Builder))
  | [] => .ok (reg, [])
  | none :: rest => loadDefs reg rest                      -- "Missing expression": skipped
  | some (name, expr) :: rest =>
    match bytesToChars name, bytesToChars expr with
    | some n, some e =>
      match compile reg true e with
      | .error m => .error m
      | .ok (stages, errs) =>
        if errs.isEmpty then
          let f := userFunction stages
          match loadDefs (extend reg n f) rest with
          | .error m => .error m
          | .ok (r, fs) => .ok (r, (n, f) :: fs)
        else loadDefs reg rest                              -- compile error: logged, not added
    | _, _ => .error "unmodelled:non-utf8 definition"

/-- The registry the CLI evaluates with after `--funcs file`: builtins plus the loaded functions. -/
def withFuncs (base : Registry) (fs : List (List Char × Builder)) : Registry :=
  fs.foldl (fun r nf => extend r nf.1 nf.2) base

end Rare.C10
