import Rare.Model.Expr.Funcs.Math
import Rare.Model.C19F64
/-! `{! formula}` (kfMath, funcsMath.go) over the IEEE instance of `Model/C19F64.lean`: capture text
through the modelled `strconv.ParseFloat`, the result through the modelled `strconv.FormatFloat`.
A value that went through a libm-backed function is answered `unmodelled`. -/
namespace Rare.C19.IEEE
open Rare.Expr Rare.Expr.Funcs.Math

def mathInst : MathInst TV where
  arith := arithT
  conv := fun s => (some (conv s).1, (conv s).2)
  render := fun v =>
    match v with
    | none => Comp.panic "unmodelled:!inexact"
    | some x => pure (render x)
  unmodelledLit := fun w => ⟨some (.panic ("unmodelled:!" ++ w)), none⟩

/-- `kfMath` with the IEEE instance. -/
def kfMath : Builder := kfMathWith mathInst

end Rare.C19.IEEE
