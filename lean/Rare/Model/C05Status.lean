import Rare.Base.Proto
/-!
C05 — the status bookkeeping of `Batcher` (pkg/extractor/batchers/batcher.go), the state the render
goroutine reads through `StatusString` while reader goroutines update it under `mux`:
`setSourceCount`, `startFileReading` (append), `stopFileReading` (remove the first equal entry in place,
count it as read), `incErrors`, and the deterministic part of `StatusString` (the `[read/sources]` prefix
and the active-file list; byte counts and rates are time dependent and left out).
-/
namespace Rare.C05Status

inductive Op where
  | start (name : String)
  | stop (name : String)
  | setCount (n : Nat)
  | err
  deriving Repr, DecidableEq

structure St where
  sourceCount : Nat := 0
  readCount : Nat := 0
  errorCount : Nat := 0
  active : List String := []
  deriving Repr, DecidableEq

/-- `for idx, ele := range s.activeFiles { if ele == source { s.activeFiles = append(s.activeFiles[:idx],
    s.activeFiles[idx+1:]...); s.readCount++; break } }` -/
def removeFirst (x : String) : List String → Option (List String)
  | [] => none
  | y :: r => if y = x then some r else (removeFirst x r).map (y :: ·)

def step (s : St) : Op → St
  | .start n => { s with active := s.active ++ [n] }
  | .stop n =>
    match removeFirst n s.active with
    | some l => { s with active := l, readCount := s.readCount + 1 }
    | none => s
  | .setCount n => { s with sourceCount := n }
  | .err => { s with errorCount := s.errorCount + 1 }

def run (s : St) (ops : List Op) : St := ops.foldl step s

/-- States after every prefix of `ops` (the first is the state before). -/
def states (s : St) : List Op → List St
  | [] => [s]
  | o :: r => s :: states (step s o) r

def maxFilesToWrite : Nat := 2

/-- The active-file part of the status line. -/
def activePart (s : St) : String :=
  if s.active.length > 0 then
    "| " ++ ", ".intercalate (s.active.take maxFilesToWrite) ++
      (if s.active.length > maxFilesToWrite then s!" (and {s.active.length - maxFilesToWrite} more...)" else "")
  else ""

/-- The `[read/sources] ` prefix. -/
def countPart (s : St) : String :=
  if s.sourceCount > 1 then s!"[{s.readCount}/{s.sourceCount}] " else ""

def observable (s : St) : String := countPart s ++ activePart s

/-- Script syntax of the harness: `+name`, `-name`, `#n`, `!`, comma separated (`.` = empty). -/
def parseOp (t : String) : Option Op :=
  match t.toList with
  | '+' :: r => some (.start (String.ofList r))
  | '-' :: r => some (.stop (String.ofList r))
  | '#' :: r => (String.ofList r).toNat?.map .setCount
  | ['!'] => some .err
  | _ => none

def parseScript (s : String) : Option (List Op) :=
  if s = "." then some [] else (s.splitOn ",").mapM parseOp

end Rare.C05Status
