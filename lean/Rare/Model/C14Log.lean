import Rare.Base.F64
import Rare.Model.C14F64
/-!
# C14: Go's `math.Log`, `math.Log2`, `math.Log10` on the software binary64 (`Rare.F64`)

The log scalers call `math.Log2` / `math.Log10` (Go 1.23: `src/math/log.go`, `log10.go`, `frexp.go`; on amd64 `Log` is
`log_amd64.s`, the same FreeBSD `e_log.c` algorithm operation by operation, no fused multiply-add), i.e. a fixed
sequence of binary64 operations.  This file repeats that sequence with the kernel-reducible operations of `Rare/Base/F64.lean`:

    log(x):   special cases; f1, ki := Frexp(x); if f1 < Sqrt2/2 { f1 *= 2; ki-- }; f := f1 - 1; k := float64(ki)
              s := f/(2+f); s2 := s*s; s4 := s2*s2
              t1 := s2*(L1+s4*(L3+s4*(L5+s4*L7))); t2 := s4*(L2+s4*(L4+s4*L6)); R := t1+t2; hfsq := 0.5*f*f
              return k*Ln2Hi - ((hfsq - (s*(hfsq+R) + k*Ln2Lo)) - f)
    log2(x):  frac, exp := Frexp(x); if frac == 0.5 { return float64(exp - 1) }; return Log(frac)*(1/Ln2) + float64(exp)
    log10(x): return Log(x) * (1/Ln10)

(Subnormal arguments follow the pure-Go `Frexp` normalisation; amd64's assembly `Log` reads the exponent field of a subnormal
as `2^-1023` – e.g. `math.Log(5e-324) = -709.09` – which no `float64(int64)` can reach; they are not compared.)
The op `log` of the driver compares these definitions with the real `math.Log/Log2/Log10` bit for bit (and with the
native port the renderer ops use).  `Props/C14.lean` proves the exact integer cases from them.
-/
namespace Rare.C14
open Rare Rare.F64

/-- a float given by its bit pattern -/
def fb64 (n : Nat) : F64 := F64.ofSM (decide (P63 ≤ n)) n

/-- `math.Frexp(x)`: `x = frac × 2^exp` with `|frac|` in `[1/2, 1)`; `(x, 0)` for `±0`, `±Inf`, `NaN`; subnormals are normalised -/
def frexpF (x : F64) : F64 × Int :=
  if x.isZero || x.isInf || x.isNaN then (x, 0)
  else if x.expField = 0 then
    let f := x.frac
    let shift := 52 - f.log2
    (F64.ofSM x.sign (1022 * P52 + (f <<< shift) - P52), (-1021 : Int) - shift)
  else (F64.ofSM x.sign (1022 * P52 + x.frac), (x.expField : Int) - 1022)

def ln2Hi : F64 := fb64 0x3fe62e42fee00000
def ln2Lo : F64 := fb64 0x3dea39ef35793c76
def lgL1 : F64 := fb64 0x3fe5555555555593
def lgL2 : F64 := fb64 0x3fd999999997fa04
def lgL3 : F64 := fb64 0x3fd2492494229359
def lgL4 : F64 := fb64 0x3fcc71c51d8e78af
def lgL5 : F64 := fb64 0x3fc7466496cb03de
def lgL6 : F64 := fb64 0x3fc39a09d078c69f
def lgL7 : F64 := fb64 0x3fc2f112df3e5244
/-- `Sqrt2/2` -/
def halfSqrt2 : F64 := fb64 0x3fe6a09e667f3bcd
/-- `1/Ln2` -/
def invLn2 : F64 := fb64 0x3ff71547652b82fe
/-- `1/Ln10` -/
def invLn10 : F64 := fb64 0x3fdbcb7b1526e50e
def fTwo : F64 := fb64 0x4000000000000000
def fHalf : F64 := fb64 0x3fe0000000000000

/-- `math.Log` -/
def goLogF (x : F64) : F64 :=
  if x.isNaN || (x.isInf && !x.sign) then x
  else if F64.lt x (F64.zero false) then F64.nan
  else if x.isZero then F64.inf true
  else
    let (f1, ki) := frexpF x
    let (f1, ki) := if F64.lt f1 halfSqrt2 then (F64.mul f1 fTwo, ki - 1) else (f1, ki)
    let f := F64.sub f1 F64.one
    let k := F64.ofInt ki
    let s := F64.div f (F64.add fTwo f)
    let s2 := F64.mul s s
    let s4 := F64.mul s2 s2
    let t1 := F64.mul s2 (F64.add lgL1 (F64.mul s4 (F64.add lgL3 (F64.mul s4 (F64.add lgL5 (F64.mul s4 lgL7))))))
    let t2 := F64.mul s4 (F64.add lgL2 (F64.mul s4 (F64.add lgL4 (F64.mul s4 lgL6))))
    let r := F64.add t1 t2
    let hfsq := F64.mul (F64.mul fHalf f) f
    F64.sub (F64.mul k ln2Hi) (F64.sub (F64.sub hfsq (F64.add (F64.mul s (F64.add hfsq r)) (F64.mul k ln2Lo))) f)

/-- `math.Log2` -/
def goLog2F (x : F64) : F64 :=
  let (frac, exp) := frexpF x
  if F64.eq frac fHalf then F64.ofInt (exp - 1)
  else F64.add (F64.mul (goLogF frac) invLn2) (F64.ofInt exp)

/-- `math.Log10` -/
def goLog10F (x : F64) : F64 := F64.mul (goLogF x) invLn10

/-- the scaler arithmetic with Go's logarithms (`math.Pow` plays no role in `Scale`) -/
def goArith : Arith F64 := f64Arith goLog2F goLog10F id id

end Rare.C14
