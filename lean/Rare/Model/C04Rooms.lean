import Rare.Model.C04
/-!
The scanners of `Model/C04.lean` with a log of the destination size `len(p)` of every `Read(p)` they issue (round 4c, op
`rooms`): the same functions, statement for statement, with one more accumulator.  `Proofs/C04Rooms.lean` proves that
dropping the log gives back `Imm.scan` / `Buf.scan` / `scanAll` exactly, so the log belongs to the verified run.
The sizes are `len(s.buf) - s.end` (immediate: `cap - buf.length`, after the regrow) and `len(s.buf) - readOffset`
(buffered: `cap - acc.length` inside the fill loop) - the only place where the allocation sizes of the scanners become
visible to the reader.  The log is kept newest first.
-/
namespace Rare.C04

def Imm.readLoopL : Nat → Imm → List Nat → List Nat × (Res × Imm)
  | 0, s, log => (log, (.fuel, s))
  | f + 1, s, log =>
    let s0 := s.grown
    let r := s0.rd.read (s0.cap - s0.buf.length)
    let s1 := s0.recv r.1 r.2.2
    match r.2.1 with
    | some e => ((s0.cap - s0.buf.length) :: log, (s1.fail e).topEof)
    | none =>
      match idxNl r.1 with
      | some eol => ((s0.cap - s0.buf.length) :: log, s1.emitAt (s0.buf.length + eol - s0.offset))
      | none => Imm.readLoopL f s1 ((s0.cap - s0.buf.length) :: log)

def Imm.scanL (fuel : Nat) (s : Imm) (log : List Nat) : List Nat × (Res × Imm) :=
  match s.top with
  | some r => (log, r)
  | none => s.readLoopL fuel log

def Imm.scanAllL (fuel : Nat) : Nat → Imm → List Nat → List Nat × (List (View × Bytes) × Bool × Imm)
  | 0, s, log => (log, ([], false, s))
  | n + 1, s, log =>
    match s.scanL fuel log with
    | (log', (.tok v b, s')) =>
      let r := Imm.scanAllL fuel n s' log'
      (r.1, ((v, b) :: r.2.1, r.2.2.1, r.2.2.2))
    | (log', (.done, s')) => (log', ([], true, s'))
    | (log', (.fuel, s')) => (log', ([], false, s'))

def Buf.fillL : Nat → Nat → Bytes → Reader → Nat → Bytes → List Nat →
    List Nat × Option (Bytes × Reader × Bool × Nat × Bytes)
  | 0, _, _, _, _, _, log => (log, none)
  | f + 1, cap, acc, rd, errs, dl, log =>
    if acc.length < cap then
      let r := rd.read (cap - acc.length)
      let acc' := acc ++ r.1
      match r.2.1 with
      | some e => ((cap - acc.length) :: log, some (acc', r.2.2, true, if e = .fail then errs + 1 else errs, dl ++ r.1))
      | none => Buf.fillL f cap acc' r.2.2 errs (dl ++ r.1) ((cap - acc.length) :: log)
    else (log, some (acc, rd, false, errs, dl))

def Buf.scanL : Nat → Buf → List Nat → List Nat × (Res × Buf)
  | 0, s, log => (log, (.fuel, s))
  | f + 1, s, log =>
    match idxNl (s.buf.drop s.offset) with
    | some rel =>
      let line := dropCR ((s.buf.drop s.offset).take rel)
      (log, (.tok ⟨s.mem.length, s.offset, s.offset + line.length⟩ line, { s with offset := s.offset + rel + 1 }))
    | none =>
      if s.eof && s.offset < s.buf.length then
        (log, (.tok ⟨s.mem.length, s.offset, s.buf.length⟩ (s.buf.drop s.offset), { s with offset := s.buf.length }))
      else if !s.eof then
        let keep := s.buf.drop s.offset
        let cap := max s.maxBufLen (keep.length + s.maxBufLen / 2)
        match Buf.fillL (s.rd.measure + 2) cap keep s.rd s.errs s.delivered log with
        | (log', none) => (log', (.fuel, s))
        | (log', some (acc, rd', eof', errs', dl')) =>
          Buf.scanL f { s with mem := s.mem ++ [s.buf], buf := acc, offset := 0, rd := rd',
                                eof := eof', errs := errs', delivered := dl' } log'
      else (log, (.done, s))

def Buf.scanAllL (fuel : Nat) : Nat → Buf → List Nat → List Nat × (List (View × Bytes) × Bool × Buf)
  | 0, s, log => (log, ([], false, s))
  | n + 1, s, log =>
    match s.scanL fuel log with
    | (log', (.tok v b, s')) =>
      let r := Buf.scanAllL fuel n s' log'
      (r.1, ((v, b) :: r.2.1, r.2.2.1, r.2.2.2))
    | (log', (.done, s')) => (log', ([], true, s'))
    | (log', (.fuel, s')) => (log', ([], false, s'))

end Rare.C04
