import Rare.Model.C10State
/-!
# Several workers on one compiled expression (C10, round 4c)

Two things of a compiled funcs-file call are SHARED by the goroutines that evaluate it (`--workers`): the call site's
`ctxPool` of `lazySubContext` objects (`keyBuilderToFunction`) and – when the body contains `{time …}` /
`{buckettime …}` without an explicit layout – the layout cell of `smartDateParseWrapper`'s `cache` closure.

## Part 1: the pool, as a transition system over ALL schedules

```go
return func(kbc expressions.KeyBuilderContext) string {
    subCtx := ctxPool.Get()          // (1) mutex-atomic: pop the last free object, or `newer()`
    defer ctxPool.Return(subCtx)     // (4) mutex-atomic: append to the free list (also when the body panics)
    subCtx.sub = kbc                 // (2)
    return stage.BuildKey(subCtx)    // (3) the body; every look-up goes through subCtx.GetMatch/GetKey
}
```

`step … w` is ONE atomic action of worker `w` (the scheduler's choice is the worker): `Get`, the store of `sub`, one
look-up of the body resolved by `(*lazySubContext).GetMatch/GetKey` READING `subCtx.sub` AT THAT MOMENT, `Return`.
Between two actions of a worker any number of actions of the others happen.  Workers are natural numbers (any number of
them); objects are natural numbers; the objects lying in the pool at the start carry ARBITRARY `sub` fields.

An argument stage `args[idx](s.sub)` is evaluated in one action: it is handed the caller's context (read once) and never
sees the pooled object; if it is itself a call of a user function it has a pool of its OWN call site, to which this
model applies again, and the binders' global `subContextPool` is C17's `pooled_template_interleaved`.

## Part 2: the layout cell under two workers (`atomicFormat`)

`atomicFormat atomic.Value` is read with `Load` and written with `Store` – separately: two goroutines can both find
it empty, each detect the layout of ITS value and store it ("may end up run by a few different threads").  The action
sequence of one evaluation is load, (detect, store), parse; `TStep` lists them, `texec` runs a schedule.
-/
namespace Rare.C10.Conc
open Rare.Expr Rare.C10

/-! ## Part 1 -/

/-- Where a worker is in the closure above. -/
inductive Pc where
  /-- before `ctxPool.Get()` -/
  | idle
  /-- holds object `o`; `subCtx.sub = kbc` not yet executed (the object still has its stale `sub`) -/
  | got (o : Nat)
  /-- evaluating the body against object `o`; `c` is what is left of the body -/
  | run (o : Nat) (c : Comp Bytes)
  /-- the body has answered (or panicked); the deferred `Return` not yet executed -/
  | fin (o : Nat) (r : Except String Bytes)
  /-- the closure has returned `r` -/
  | done (r : Except String Bytes)

/-- The object a worker has checked out. -/
def Pc.holds : Pc → Option Nat
  | .got o => some o
  | .run o _ => some o
  | .fin o _ => some o
  | _ => none

/-- The shared memory and the workers. -/
structure St where
  /-- `ObjectPool.pool` -/
  free : List Nat
  /-- objects allocated so far (`newer()` makes object `next`) -/
  next : Nat
  /-- the field `sub` of every object -/
  sub : Nat → Ctx
  pcs : Nat → Pc

def St.setPc (st : St) (w : Nat) (pc : Pc) : St :=
  { st with pcs := fun v => if v = w then pc else st.pcs v }

/-- One look-up of the body through the object `o` whose field `sub` is `s` right now:
    `(*lazySubContext).GetMatch` (negative: the caller's; beyond the arguments: empty; else the argument stage
    evaluated in `s.sub`) and `GetKey`. -/
def resolve (args : List Stage) (s : Ctx) (o : Nat) : Comp Bytes → Pc
  | .ret v => .fin o (.ok v)
  | .panic m => .fin o (.error m)
  | .getKey n k => .run o (k (s.getKey n))
  | .getMatch i k =>
    if i < 0 then .run o (k (s.getMatch i))
    else if i ≥ args.length then .run o (k [])
    else
      match (args.getD i.toNat (.ret [])).run s with
      | .ok v => .run o (k v)
      | .error m => .fin o (.error m)

/-- One atomic action of worker `w`, called with the context `ctxs w`.  `install = false` is the closure WITHOUT the
    line `subCtx.sub = kbc`. -/
def step (install : Bool) (args : List Stage) (body : Stage) (ctxs : Nat → Ctx) (w : Nat) (st : St) : St :=
  match st.pcs w with
  | .idle =>
    match st.free.getLast? with
    | none => { st with next := st.next + 1 }.setPc w (.got st.next)
    | some o => { st with free := st.free.dropLast }.setPc w (.got o)
  | .got o =>
    (if install then { st with sub := fun p => if p = o then ctxs w else st.sub p } else st).setPc w (.run o body)
  | .run o c => st.setPc w (resolve args (st.sub o) o c)
  | .fin o r => { st with free := st.free ++ [o] }.setPc w (.done r)
  | .done _ => st

/-- A schedule: which worker acts next. -/
def exec (install : Bool) (args : List Stage) (body : Stage) (ctxs : Nat → Ctx) (sched : List Nat) (st : St) : St :=
  sched.foldl (fun s w => step install args body ctxs w s) st

/-- A start: nobody has begun, the pool holds distinct allocated objects with whatever `sub` fields. -/
structure Start (st : St) : Prop where
  idle : ∀ w, st.pcs w = .idle
  nodup : st.free.Nodup
  lt : ∀ o ∈ st.free, o < st.next

/-- What holds after every schedule. -/
structure Inv (args : List Stage) (body : Stage) (ctxs : Nat → Ctx) (st : St) : Prop where
  nodup : st.free.Nodup
  lt : ∀ o ∈ st.free, o < st.next
  /-- a checked-out object is allocated and NOT in the free list … -/
  held : ∀ w o, (st.pcs w).holds = some o → o < st.next ∧ o ∉ st.free
  /-- … and checked out by nobody else -/
  excl : ∀ w w' o, (st.pcs w).holds = some o → (st.pcs w').holds = some o → w = w'
  /-- the object a worker evaluates against carries ITS context, and what is left of the body answers what the whole
      body answers in the stateless model -/
  run : ∀ w o c, st.pcs w = .run o c →
    st.sub o = ctxs w ∧ (withArgs args c).run (ctxs w) = (withArgs args body).run (ctxs w)
  fin : ∀ w o r, st.pcs w = .fin o r → r = (withArgs args body).run (ctxs w)
  done : ∀ w r, st.pcs w = .done r → r = (withArgs args body).run (ctxs w)

/-- How many actions a body still needs against an object whose `sub` is `s` (the number of its look-ups plus the
    final answer) – the length of the SEQUENTIAL run. -/
def stepsLeft (args : List Stage) (s : Ctx) : Comp Bytes → Nat
  | .ret _ => 1
  | .panic _ => 1
  | .getKey n k => stepsLeft args s (k (s.getKey n)) + 1
  | .getMatch i k =>
    if i < 0 then stepsLeft args s (k (s.getMatch i)) + 1
    else if i ≥ args.length then stepsLeft args s (k []) + 1
    else
      match (args.getD i.toNat (.ret [])).run s with
      | .ok v => stepsLeft args s (k v) + 1
      | .error _ => 1

/-- Actions a worker called with context `s` still has to perform. -/
def Pc.left (args : List Stage) (body : Stage) (s : Ctx) : Pc → Nat
  | .idle => stepsLeft args s body + 3
  | .got _ => stepsLeft args s body + 2
  | .run _ c => stepsLeft args s c + 1
  | .fin _ _ => 1
  | .done _ => 0

/-! ## Part 2 -/

/-- Where an evaluation of the `cache` closure is (an evaluation on input; the date expression is not constant and its
    static value is empty, as for `{time {0}}`, so a non-empty date is never "the static value"). -/
inductive TPc (L : Type) where
  | start
  /-- `format.Load()` answered `l` (`none` = empty) -/
  | loaded (l : Option L)
  /-- `dateparse.ParseFormat(s)` answered `l`; `format.Store(l)` not yet executed -/
  | detected (l : L)
  | done (v : Bytes)

/-- The cell `atomicFormat` and the two workers' positions. -/
structure TSt (L : Type) where
  cell : Option L
  pcs : Nat → TPc L

def TSt.setPc {L : Type} (st : TSt L) (w : Nat) (pc : TPc L) : TSt L :=
  { st with pcs := fun v => if v = w then pc else st.pcs v }

/-- One atomic action of worker `w` evaluating the date string `dates w`: the empty check and `Load`; then with a
    remembered layout `time.Parse`, without one `ParseFormat` (failure: `<PARSE-ERROR>`); `Store` and parse. -/
def tstep {L : Type} (lib : TimeLib L) (dates : Nat → Bytes) (w : Nat) (st : TSt L) : TSt L :=
  match st.pcs w with
  | .start => if dates w = [] then st.setPc w (.done ErrorParsing) else st.setPc w (.loaded st.cell)
  | .loaded (some l) => st.setPc w (.done (lib.parseOr l (dates w)))
  | .loaded none =>
    match lib.detect (dates w) with
    | none => st.setPc w (.done ErrorParsing)
    | some l => st.setPc w (.detected l)
  | .detected l => { st with cell := some l }.setPc w (.done (lib.parseOr l (dates w)))
  | .done _ => st

def texec {L : Type} (lib : TimeLib L) (dates : Nat → Bytes) (sched : List Nat) (st : TSt L) : TSt L :=
  sched.foldl (fun s w => tstep lib dates w s) st

def TSt.fresh {L : Type} : TSt L := ⟨none, fun _ => .start⟩

def TPc.answer {L : Type} : TPc L → Option Bytes
  | .done v => some v
  | _ => none

/-- The sequential answers: worker `a`'s whole evaluation, then worker `b`'s (`timeStep .cur` on input). -/
def seqAnswers {L : Type} (lib : TimeLib L) (da db : Bytes) : Bytes × Bytes :=
  let ra := timeStep .cur lib [] false da TimeSt.fresh
  (ra.1, (timeStep .cur lib [] false db ra.2).1)

/-- What an answer can be, whatever the schedule: `<PARSE-ERROR>` for an empty or undetectable date, else the date
    parsed by the layout of SOME worker's (non-empty) date – its own, or one that another worker stored. -/
def Good {L : Type} (lib : TimeLib L) (dates : Nat → Bytes) (w : Nat) (v : Bytes) : Prop :=
  (dates w = [] ∧ v = ErrorParsing) ∨ (lib.detect (dates w) = none ∧ v = ErrorParsing) ∨
    (dates w ≠ [] ∧ ∃ w' l, dates w' ≠ [] ∧ lib.detect (dates w') = some l ∧ v = lib.parseOr l (dates w))

structure TInv {L : Type} (lib : TimeLib L) (dates : Nat → Bytes) (st : TSt L) : Prop where
  cell : ∀ l, st.cell = some l → ∃ w', dates w' ≠ [] ∧ lib.detect (dates w') = some l
  loaded : ∀ w l, st.pcs w = .loaded (some l) → ∃ w', dates w' ≠ [] ∧ lib.detect (dates w') = some l
  nonempty : ∀ w x, st.pcs w = .loaded x → dates w ≠ []
  detected : ∀ w l, st.pcs w = .detected l → dates w ≠ [] ∧ lib.detect (dates w) = some l
  done : ∀ w v, st.pcs w = .done v → Good lib dates w v

end Rare.C10.Conc
