/-!
# Reader exit, close-after-WaitGroup and the status line (C05)

`pkg/extractor/batchers/fileBatcher.go: OpenFilesToChan` (and `tailBatcher.go: TailFilesToChan`): every reader
goroutine ends with the deferred block `<-sema; out.stopFileReading(name); wg.Done()`; the spawning goroutine does
`wg.Wait(); out.close()`.  So the batch channel is closed after every reader's `wg.Done()`, and a reader's status
bookkeeping (`stopFileReading`: remove from the active list, `readCount++`) comes BEFORE its `wg.Done()`: a closed
channel implies a complete status.  Until /repo 7025f4b the two calls stood in the other order (`wg.Done()`, then
`stopFileReading`) and the status could lag behind the close (`oldOrder`, finding "closelag").

Abstract protocol: reader `i` has a program counter 0 → 1 → 2 (two exit actions in program order); `doneAt` is
the pc value from which the WaitGroup counts it as done, `stoppedAt` the one from which the status shows it as
finished.  The code: `doneAt = 2`, `stoppedAt = 1`.  The order before the repair: `doneAt = 1`, `stoppedAt = 2`.
-/
namespace Rare.C05Close

structure Cfg where
  doneAt : Nat
  stoppedAt : Nat

/-- The order in the source: `stopFileReading` before `wg.Done()`. -/
def code : Cfg := ⟨2, 1⟩
/-- The order in the source before /repo 7025f4b: `wg.Done()` before `stopFileReading`. -/
def oldOrder : Cfg := ⟨1, 2⟩

structure St where
  pcs : List Nat          -- one per reader
  closed : Bool := false  -- out.close() happened

inductive Step (c : Cfg) : St → St → Prop
  | adv (s : St) (i : Nat) (h : i < s.pcs.length) : s.pcs[i] < 2 →
      Step c s { s with pcs := s.pcs.set i (s.pcs[i] + 1) }
  | close (s : St) : s.closed = false → (∀ p ∈ s.pcs, c.doneAt ≤ p) → Step c s { s with closed := true }

inductive Reach (c : Cfg) (s0 : St) : St → Prop
  | refl : Reach c s0 s0
  | step {s s'} : Reach c s0 s → Step c s s' → Reach c s0 s'

def init (n : Nat) : St := { pcs := List.replicate n 0 }

/-- What `StatusString` shows: sources still listed as active, sources counted as read. -/
def active (c : Cfg) (s : St) : Nat := (s.pcs.filter fun p => p < c.stoppedAt).length
def readCount (c : Cfg) (s : St) : Nat := (s.pcs.filter fun p => c.stoppedAt ≤ p).length

end Rare.C05Close
