import Rare.Spec.C15
/-!
# C15 — transition systems of `pkg/followreader` (notify.go and poller.go)

Processes
* the **writer** of the followed path: `append` bytes to the file at the path, `remove` it,
  `create` a new empty file (a fresh inode) at the path;
* (notify) the **kernel + fsnotify goroutine** of `startWatcher`: every file operation puts an
  event into the queue `evq`; the goroutine takes one event at a time and does a NON-BLOCKING send
  on the buffered channels (`writeSignalNonBlock`): Write → `eventWrite`, Remove → `eventDelete`,
  Create → `eventWrite` and, when `ReOpen` is set, also `eventDelete` (a file may have been renamed ONTO
  the path over the followed one – there is no Remove event then; the handler of the delete signal
  compares the open file with the path), anything else (Chmod, other files of the directory) → nothing;
  Rename of the followed name: `Rare.Model.C15Rename`.  A channel is a token count bounded by its
  capacity, so signals coalesce;
* the **reader**: the consumer calling `Read` again and again.
  notify.go: `reading` = at the top of the `for` (about to `s.f.Read`), `selecting` = in the
  `select`; poller.go: `attempt i` = about to do read attempt `i` of the inner `for`, `check` = about
  to `os.Stat`, `opening sz` = `Stat` answered size `sz ≠ readBytes`, about to `os.Open`.

A file is an inode id plus its content (`FS.content`); an open file (`Handle`) keeps reading its
inode after the path was removed.  `Handle.start` is a ghost: the offset at which this handle
started to deliver.  Ghost state: `hist` (handles closed so far), `delivered`, `removes`.

The model is of the code after the `fix:` commits of this package (`reopenIfReplaced`).
Atomicity: one transition per file operation, per channel operation and per `Read`/`Stat`/`Open`
system call (`reopenIfReplaced`'s `Stat`+`Open` is one transition, linearised at the `Stat` when it
reports the same file and at the `Open` otherwise).
-/
namespace Rare.Follow
open Rare.C15.Spec

abbrev Handle := Segment

/-- The file system as far as the followed path is concerned. -/
structure FS (β : Type) where
  content : Nat → List β     -- content of every inode
  next : Nat                 -- next fresh inode id
  path : Option Nat          -- inode at the followed path

variable {β : Type}

def FS.append (fs : FS β) (i : Nat) (bs : List β) : FS β :=
  { fs with content := fun j => if j = i then fs.content i ++ bs else fs.content j }

def FS.create (fs : FS β) : FS β :=
  { content := fun j => if j = fs.next then [] else fs.content j, next := fs.next + 1, path := some fs.next }

def FS.remove (fs : FS β) : FS β := { fs with path := none }

def unread (fs : FS β) (h : Handle) : List β := (fs.content h.ino).drop h.pos

def seg (fs : FS β) (h : Handle) : List β := extract (fs.content h.ino) h.start h.pos

/-- `os.Open(path)` followed by a seek to `pos`. -/
def openAt (fs : FS β) (pos : Nat) : Option Handle :=
  match fs.path with
  | some i => some { ino := i, start := pos, pos := pos }
  | none => none

/-- `select { case c <- struct{}{}: default: }` on a channel of capacity `cap` holding `n` tokens. -/
def sendNB (cap n : Nat) : Nat := if n < cap then n + 1 else n

/-- Which process a transition belongs to. -/
inductive Who | writer | kernel | reader
  deriving DecidableEq, Repr

/-! ## notify.go -/

inductive Ev | write | remove | create | other
  deriving DecidableEq, Repr

inductive NRd | reading | selecting | ended
  deriving DecidableEq, Repr

structure NCfg where
  capW : Nat        -- cap(eventWrite)
  capD : Nat        -- cap(eventDelete)
  reopen : Bool

structure NSt (β : Type) where
  fs : FS β
  evq : List Ev
  pw : Nat                 -- tokens in eventWrite
  pd : Nat                 -- tokens in eventDelete
  f : Option Handle
  rd : NRd
  hist : List Handle       -- ghost
  delivered : List β       -- ghost: every byte `Read` has returned, in order
  removes : Nat            -- ghost: number of removals so far

/-- The body of the `switch` in the goroutine of `startWatcher` for an event on the followed name. -/
def dispatch1 (cfg : NCfg) (s : NSt β) : Ev → NSt β
  | .write => { s with pw := sendNB cfg.capW s.pw }
  | .remove => { s with pd := sendNB cfg.capD s.pd }
  | .create => { s with pw := sendNB cfg.capW s.pw, pd := if cfg.reopen then sendNB cfg.capD s.pd else s.pd }
  | .other => s

def NSt.closeFile (s : NSt β) : NSt β := { s with f := none, hist := s.hist ++ s.f.toList }

/-- `case <-s.eventWrite:` -/
def onWrite (cfg : NCfg) (s : NSt β) : NSt β :=
  if s.f.isNone && cfg.reopen then { s with f := openAt s.fs 0 } else s

/-- `os.SameFile(Stat(path), s.f.Stat())` -/
def sameFile (s : NSt β) : Bool :=
  match s.f, s.fs.path with
  | some h, some i => h.ino == i
  | _, _ => false

/-- `reopenIfReplaced` -/
def reopenIfReplaced (s : NSt β) : NSt β :=
  if sameFile s then s else { s.closeFile with f := openAt s.fs 0 }

inductive NStep (cfg : NCfg) : Who → NSt β → NSt β → Prop
  /- writer -/
  | append (s : NSt β) (i : Nat) (bs : List β) : s.fs.path = some i → bs ≠ [] →
      NStep cfg Who.writer s { s with fs := s.fs.append i bs, evq := s.evq ++ [.write] }
  | remove (s : NSt β) (i : Nat) : s.fs.path = some i →
      NStep cfg Who.writer s { s with fs := s.fs.remove, evq := s.evq ++ [.remove], removes := s.removes + 1 }
  | create (s : NSt β) : s.fs.path = none →
      NStep cfg Who.writer s { s with fs := s.fs.create, evq := s.evq ++ [.create] }
  | noise (s : NSt β) : NStep cfg Who.writer s { s with evq := s.evq ++ [.other] }
  /- kernel / fsnotify goroutine -/
  | dispatch (s : NSt β) (e : Ev) (rest : List Ev) : s.evq = e :: rest →
      NStep cfg Who.kernel s (dispatch1 cfg { s with evq := rest } e)
  /- reader -/
  | readSome (s : NSt β) (h : Handle) (n : Nat) : s.rd = .reading → s.f = some h → 1 ≤ n →
      n ≤ (unread s.fs h).length →
      NStep cfg Who.reader s { s with f := some { h with pos := h.pos + n }, delivered := s.delivered ++ (unread s.fs h).take n }
  | readEmpty (s : NSt β) (h : Handle) : s.rd = .reading → s.f = some h → unread s.fs h = [] →
      NStep cfg Who.reader s { s with rd := .selecting }
  | readNil (s : NSt β) : s.rd = .reading → s.f = none → NStep cfg Who.reader s { s with rd := .selecting }
  | recvW (s : NSt β) : s.rd = .selecting → 0 < s.pw →
      NStep cfg Who.reader s { onWrite cfg { s with pw := s.pw - 1 } with rd := .reading }
  | recvD (s : NSt β) : s.rd = .selecting → 0 < s.pd → cfg.reopen = true →
      NStep cfg Who.reader s { reopenIfReplaced { s with pd := s.pd - 1 } with rd := .reading }
  | recvDPlain (s : NSt β) : s.rd = .selecting → 0 < s.pd → cfg.reopen = false →
      NStep cfg Who.reader s { NSt.closeFile { s with pd := s.pd - 1 } with rd := .ended }

inductive NReach (cfg : NCfg) (s0 : NSt β) : NSt β → Prop
  | refl : NReach cfg s0 s0
  | step {w s s'} : NReach cfg s0 s → NStep cfg w s s' → NReach cfg s0 s'

/-- Runs in which the writer is silent: only the kernel goroutine and the reader move. -/
inductive NSysReach (cfg : NCfg) : NSt β → NSt β → Prop
  | refl (s : NSt β) : NSysReach cfg s s
  | step {w : Who} {s s' s'' : NSt β} : w ≠ .writer → NStep cfg w s s' → NSysReach cfg s' s'' → NSysReach cfg s s''

/-- State after `NewNotify` (+ `Drain` when `tail`): `c0 = some c` – the file exists with content
    `c` (inode 0); `none` – it does not exist (only allowed with re-open). -/
def ninit (c0 : Option (List β)) (tail : Bool) : NSt β :=
  match c0 with
  | some c =>
    let p := if tail then c.length else 0
    { fs := { content := fun _ => c, next := 1, path := some 0 }, evq := [], pw := 0, pd := 0,
      f := some { ino := 0, start := p, pos := p }, rd := .reading, hist := [], delivered := [], removes := 0 }
  | none =>
    { fs := { content := fun _ => [], next := 0, path := none }, evq := [], pw := 0, pd := 0,
      f := none, rd := .reading, hist := [], delivered := [], removes := 0 }

/-- start position of the initial handle -/
def start0 (c0 : Option (List β)) (tail : Bool) : Nat :=
  match c0 with
  | some c => if tail then c.length else 0
  | none => 0

/-- The reader is blocked: in the `select` with both channels empty. -/
def NSt.blocked (s : NSt β) : Prop := s.rd = .selecting ∧ s.pw = 0 ∧ s.pd = 0

/-! ## poller.go -/

inductive PRd | attempt (i : Nat) | check | opening (sz : Nat) | ended
  deriving DecidableEq, Repr

structure PCfg where
  attempts : Nat    -- ReadAttempts
  reopen : Bool

structure PSt (β : Type) where
  fs : FS β
  f : Option Handle
  rd : PRd
  readBytes : Nat
  hist : List Handle       -- ghost
  delivered : List β       -- ghost
  removes : Nat            -- ghost
  skips : Nat              -- ghost: re-opens of a replaced file at a non-zero offset (outside the proviso)

/-- The ghost bookkeeping of `s.f, _ = os.Open(...)` + `Seek`: re-opening the same inode at the
    offset the old descriptor already has is indistinguishable from keeping the old descriptor. -/
def merges (s : PSt β) (sz : Nat) : Bool :=
  match s.f, s.fs.path with
  | some h, some j => h.ino == j && s.readBytes ≤ sz && h.pos == s.readBytes
  | _, _ => false

def PSt.pushOld (s : PSt β) : List Handle := s.hist ++ s.f.toList

/-- `s.f, _ = os.Open(s.filename); if st.Size() >= s.readBytes { s.f.Seek(s.readBytes) } else { s.readBytes = 0 }`
    for a `Stat` that reported size `sz`. -/
def openNew (s : PSt β) (sz : Nat) : PSt β :=
  let rb := if s.readBytes ≤ sz then s.readBytes else 0
  { s with f := openAt s.fs rb, readBytes := rb, hist := s.pushOld, rd := .attempt 0,
           skips := if s.readBytes ≤ sz ∧ 0 < s.readBytes ∧ s.fs.path.isSome then s.skips + 1 else s.skips }

def openStep (s : PSt β) (sz : Nat) : PSt β :=
  if merges s sz then { s with rd := .attempt 0 } else openNew s sz

inductive PStep (cfg : PCfg) : Who → PSt β → PSt β → Prop
  /- writer -/
  | append (s : PSt β) (i : Nat) (bs : List β) : s.fs.path = some i → bs ≠ [] →
      PStep cfg Who.writer s { s with fs := s.fs.append i bs }
  | remove (s : PSt β) (i : Nat) : s.fs.path = some i →
      PStep cfg Who.writer s { s with fs := s.fs.remove, removes := s.removes + 1 }
  | create (s : PSt β) : s.fs.path = none → PStep cfg Who.writer s { s with fs := s.fs.create }
  /- reader -/
  | readSome (s : PSt β) (h : Handle) (i n : Nat) : s.rd = .attempt i → i < cfg.attempts → s.f = some h →
      1 ≤ n → n ≤ (unread s.fs h).length →
      PStep cfg Who.reader s { s with f := some { h with pos := h.pos + n }, readBytes := s.readBytes + n, delivered := s.delivered ++ (unread s.fs h).take n, rd := .attempt 0 }
  | readEmpty (s : PSt β) (h : Handle) (i : Nat) : s.rd = .attempt i → i < cfg.attempts → s.f = some h →
      unread s.fs h = [] → PStep cfg Who.reader s { s with rd := .attempt (i + 1) }
  | loopDone (s : PSt β) (h : Handle) : s.rd = .attempt cfg.attempts → s.f = some h →
      PStep cfg Who.reader s { s with rd := .check }
  | nilSleep (s : PSt β) (i : Nat) : s.rd = .attempt i → s.f = none → PStep cfg Who.reader s { s with rd := .check }
  | statGone (s : PSt β) : s.rd = .check → cfg.reopen = false → s.fs.path = none →
      PStep cfg Who.reader s { s with f := none, hist := s.pushOld, rd := .ended }
  | statThere (s : PSt β) (j : Nat) : s.rd = .check → cfg.reopen = false → s.fs.path = some j →
      PStep cfg Who.reader s { s with rd := .attempt 0 }
  | statNil (s : PSt β) : s.rd = .check → cfg.reopen = true → s.fs.path = none →
      PStep cfg Who.reader s { s with rd := .attempt 0 }
  | statSame (s : PSt β) (j : Nat) : s.rd = .check → cfg.reopen = true → s.fs.path = some j →
      (s.fs.content j).length = s.readBytes → PStep cfg Who.reader s { s with rd := .attempt 0 }
  | statDiff (s : PSt β) (j : Nat) : s.rd = .check → cfg.reopen = true → s.fs.path = some j →
      (s.fs.content j).length ≠ s.readBytes → PStep cfg Who.reader s { s with rd := .opening (s.fs.content j).length }
  | reopen (s : PSt β) (sz : Nat) : s.rd = .opening sz → PStep cfg Who.reader s (openStep s sz)

inductive PReach (cfg : PCfg) (s0 : PSt β) : PSt β → Prop
  | refl : PReach cfg s0 s0
  | step {w s s'} : PReach cfg s0 s → PStep cfg w s s' → PReach cfg s0 s'

/-- Runs in which the writer is silent. -/
inductive PSysReach (cfg : PCfg) : PSt β → PSt β → Prop
  | refl (s : PSt β) : PSysReach cfg s s
  | step {s s' s'' : PSt β} : PStep cfg .reader s s' → PSysReach cfg s' s'' → PSysReach cfg s s''

/-- State after `NewPolling` (+ `Drain` when `tail`). -/
def pinit (c0 : Option (List β)) (tail : Bool) : PSt β :=
  match c0 with
  | some c =>
    let p := if tail then c.length else 0
    { fs := { content := fun _ => c, next := 1, path := some 0 }, f := some { ino := 0, start := p, pos := p },
      rd := .attempt 0, readBytes := p, hist := [], delivered := [], removes := 0, skips := 0 }
  | none =>
    { fs := { content := fun _ => [], next := 0, path := none }, f := none, rd := .attempt 0, readBytes := 0,
      hist := [], delivered := [], removes := 0, skips := 0 }

end Rare.Follow
