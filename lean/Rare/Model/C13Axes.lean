import Rare.Model.C13
/-!
C13: the two axes of `rare table | heatmap | spark`, and the render loop.

    rowSorter := helpers.BuildSorterOrFail(sortRows)      // cmd/tabulate.go, heatmap.go, spark.go
    colSorter := helpers.BuildSorterOrFail(sortCols)
    helpers.RunAggregationLoop(ext, counter, func() {      // called once per refresh and once at the end
        writer.WriteTable(counter, rowSorter, colSorter)   // cols := OrderedColumns(colSorter) … rows := OrderedRows(rowSorter)
    })

Each `BuildSorter` call returns a NEW closure (`lookupSorter` calls `sorting.ByContextual()` /
`sorting.ByDateWithContextual()` inside its switch), so the two axes have separate captured variables; the
closures live as long as the command, so their variables survive from one render to the next (the same holds
for the single sorter of `histo`, `bars` and `reduce`).

`sortRun s l` is one `sort.Sort` call with a closure whose captured variables are `s`: the sorted keys and
the variables afterwards (`Algo.run cmp · (alg ·)` in the theorems, `goInsertionSort cmp` in the driver).
-/
namespace Rare.C13

/-- One sorter, built once before the render loop, sorts the keys present at each render. -/
def axisRenders {α σ : Type} (sortRun : σ → List α → List α × σ) : σ → List (List α) → List (List α)
  | _, [] => []
  | s, a :: rest =>
    let r := sortRun s a
    r.1 :: axisRenders sortRun r.2 rest

/-- The render loop of `table` / `heatmap` / `spark`: at every render first the columns with the column
sorter, then the rows with the row sorter; a render is (columns present, rows present) in map order. -/
def tableRenders {α σr σc : Type} (rowRun : σr → List α → List α × σr) (colRun : σc → List α → List α × σc) :
    σr → σc → List (List α × List α) → List (List α × List α)
  | _, _, [] => []
  | sr, sc, (cols, rows) :: rest =>
    let c := colRun sc cols
    let r := rowRun sr rows
    (c.1, r.1) :: tableRenders rowRun colRun r.2 c.2 rest

/-- What the code must NOT do (a sorter per sort NAME instead of per `BuildSorter` call): both axes run on
the same captured variables. -/
def tableRendersShared {α σ : Type} (rowRun colRun : σ → List α → List α × σ) :
    σ → List (List α × List α) → List (List α × List α)
  | _, [] => []
  | s, (cols, rows) :: rest =>
    let c := colRun s cols
    let r := rowRun c.2 rows
    (c.1, r.1) :: tableRendersShared rowRun colRun r.2 rest

/-! ## `-n` / `--rows` / `--cols`: the sorted sequence is cut AFTER sorting (counter.go)

    func minSlice(items []MatchPair, count int) []MatchPair {
        if len(items) < count { return items }
        return items[:count]
    }
    func (s *MatchCounter) ItemsSortedBy(count int, sorter sorting.NameValueSorter) []MatchPair {
        items := s.Items(); sorting.SortBy(items, sorter, …); return minSlice(items, count)
    }
-/

/-- `minSlice`; `items[:count]` with a negative count panics (the commands reject negative `-n`) -/
def minSlice {α : Type} (items : List α) (count : Int) : Except String (List α) :=
  if (items.length : Int) < count then .ok items
  else if count < 0 then .error "slice bounds out of range"
  else .ok (items.take count.toNat)

/-- `ItemsSortedBy(count, sorter)`: collect from the map (`arrival`), sort, then cut -/
def itemsSortedBy {α σ : Type} (sortRun : σ → List α → List α × σ) (s : σ) (arrival : List α) (count : Int) :
    Except String (List α) :=
  minSlice (sortRun s arrival).1 count

/-- What must NOT happen: cutting the map-ordered items before sorting them. -/
def itemsCutThenSorted {α σ : Type} (sortRun : σ → List α → List α × σ) (s : σ) (arrival : List α) (count : Int) :
    Except String (List α) :=
  match minSlice arrival count with
  | .ok l => .ok (sortRun s l).1
  | .error e => .error e

/-- `SortsByValue(fullName)` of cmd/helpers/sorting.go (`spark` trims old columns only when the column order does
not depend on the changing totals): `name, _, err := parseSort(fullName); return err == nil && name == "value"` -/
def sortsByValue (lower : Key → Key) (fullName : Key) : Bool :=
  match parseSort lower fullName with
  | .ok (name, _) => name == asc "value"
  | .error _ => false

/-- Two render histories with the same keys at every render, handed over in another (map) order. -/
inductive SameRenders {α : Type} : List (List α) → List (List α) → Prop
  | nil : SameRenders [] []
  | cons {a b : List α} {l1 l2 : List (List α)} : a.Perm b → SameRenders l1 l2 → SameRenders (a :: l1) (b :: l2)

end Rare.C13
