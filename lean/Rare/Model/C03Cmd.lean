import Rare.Model.C03Reduce
import Rare.Model.C13Lower
/-!
Model of the five counting commands' functions (`histoFunction`, `tabulateFunction`, `heatmapFunction`, `sparkFunction`,
`bargraphFunction`) on top of the aggregator models of C07, the CSV writers of `Model/C03` and the sorter names of C13.
The in-process op `cmd` (harness/corr/c03cmd.go) runs the real command functions against it.
-/
namespace Rare.C03
open Rare.C07 Rare.C13

/-! ### the command functions: `cmd/histo.go`, `tabulate.go`, `heatmap.go`, `spark.go`, `bargraph.go`

What the final render's footer, the histogram's rows, `--csv` and the exit status are computed from.  The drawing of the
rows (padding, bars, colours) is C14/C20; here is WHICH rows, numbers and counters reach the screen. -/

/-- `helpers.BuildSorter(fullName)` for the names whose comparator is a pure function of the two rows: `text`, `value` and
`numeric` (`ByNameSmart` with the real `strconv.ParseFloat`: C13 `byNameSmartF`) with any modifier (C13 `parseSort` / `lookupMode` / `modeSorter`, `Reverse`).  `lowerK` is C13's look-up equivalent of
`strings.ToLower` for ALL byte strings (`Props/C13 to_lower_lookup`): sort names are case-insensitive. -/
def pureSortLess (fullName : Bytes) : Option (NV → NV → Bool) :=
  match parseSort lowerK fullName with
  | .error _ => none
  | .ok (name, rev) =>
    match lookupMode lowerK name with
    | some .text =>
      some fun a b => ((if rev then C13.reverse (valueNilSorter (pureCmp byName)) else valueNilSorter (pureCmp byName)) () a b).1
    | some .value =>
      some fun a b => ((if rev then C13.reverse (valueSorterEx (pureCmp byName)) else valueSorterEx (pureCmp byName)) () a b).1
    | some .numeric =>
      some fun a b => ((if rev then C13.reverse (valueNilSorter (pureCmp byNameSmartF)) else valueNilSorter (pureCmp byNameSmartF)) () a b).1
    | _ => none

/-- `helpers.SortsByValue(fullName)`: `name, _, err := parseSort(fullName); return err == nil && name == "value"` – the
SAME spelling rule as `BuildSorter` (both go through `parseSort`): `VALUE`, `Value:asc` … are value-ordered. -/
def sortsByValue (fullName : Bytes) : Bool :=
  match parseSort lowerK fullName with
  | .ok (name, _) => name == asc "value"
  | .error _ => false

/-- `SortsByValue` with `strings.ToLower = lower` -/
def sortsByValueWith (lower : Bytes → Bytes) (fullName : Bytes) : Bool :=
  match parseSort lower fullName with
  | .ok (name, _) => name == asc "value"
  | .error _ => false

/-- which comparator `BuildSorter(fullName)` builds: `none` = an error (`logger.Fatal`, exit 2); else
`(ordered by value, reversed)` -/
def builtSorter (lower : Bytes → Bytes) (fullName : Bytes) : Option (Bool × Bool) :=
  match parseSort lower fullName with
  | .error _ => none
  | .ok (name, rev) =>
    match lookupMode lower name with
    | some .value => some (true, rev)
    | some _ => some (false, rev)
    | none => none

/-- what the built sorter answers on the row pairs (a,1)<(b,2), (b,2)<(a,1), (a,2)<(b,1), (b,1)<(a,2) (op `sbv`) -/
def sorterSignature (byValue rev : Bool) : List Bool :=
  let base : SCmp NV Unit := if byValue then valueSorterEx (pureCmp byName) else valueNilSorter (pureCmp byName)
  let c := if rev then C13.reverse base else base
  let a1 : NV := ⟨[97], 1⟩
  let b2 : NV := ⟨[98], 2⟩
  let a2 : NV := ⟨[97], 2⟩
  let b1 : NV := ⟨[98], 1⟩
  [(c () a1 b2).1, (c () b2 a1).1, (c () a2 b1).1, (c () b1 a2).1]

/-- `writeHistoOutput`: `items := counter.ItemsSortedBy(count, sorter)` (sort all groups, keep the first `count`), then the
rows whose count is at least `--atleast`, on consecutive lines. -/
def histoShown (srt : SortFn) (less : NV → NV → Bool) (order : List Bytes) (c : Counter) (count : Nat) (atLeast : Int) : List NV :=
  ((srt less (order.map fun k => (⟨k, (aget c.items k).getD 0⟩ : NV))).take count).filter fun nv => decide (atLeast ≤ nv.value)

/-- a histogram line with the padding and the decorations taken out: key, blanks, count -/
def histoLine (nv : NV) : Bytes := nv.name ++ [32, 32, 32, 32] ++ itoa nv.value

/-- `(Groups: g)` / `(R: r; C: c)` of the footers -/
def groupsPart (g : Nat) : Bytes := ascii "(Groups: " ++ natDigits g ++ ascii ")"
def rcPart (r c : Nat) : Bytes := ascii "(R: " ++ natDigits r ++ ascii "; C: " ++ natDigits c ++ ascii ")"

/-- footer 0 of the final render (`--nocolor --noformat`): `FWriteExtractorSummary(ext, agg.ParseErrors(), parts…)` -/
def footer (k : Counters) (parseErrors : Nat) (parts : List Bytes) : Bytes := summaryLine k parseErrors parts

structure CmdOut where
  exit : Nat
  csv : Bytes
  /-- stdout of `--snapshot` (histo: without the batcher's status line, undecorated; others: footer 0 only) -/
  lines : List Bytes
  deriving Repr

/-- `histoFunction`: the `--num` lines of the histogram (unused ones blank), footer 0, with `--all` the full table and
the footer again; `csv.WriteCounter`; `DetermineErrorState`. -/
def histoCmd (srt : SortFn) (less : NV → NV → Bool) (order : List Bytes) (num : Nat) (atLeast : Int) (all : Bool)
    (c : Counter) (k : Counters) (readErrors : Int) : CmdOut :=
  let shown := (histoShown srt less order c num atLeast).map histoLine
  let foot := footer k c.errors [groupsPart c.items.length]
  let full := if all then
      ascii "Full Table:" :: ((histoShown srt less order c c.items.length atLeast).map histoLine ++ [foot])
    else []
  { exit := determineErrorState readErrors false c.errors k.matched
    csv := writeCsv (counterCsvRows srt order c)
    lines := shown ++ List.replicate (num - shown.length) [] ++ [foot] ++ full }

/-- `tabulateFunction`, `heatmapFunction`: footer 0, `csv.WriteTable`, `DetermineErrorState`. -/
def tableCmd (srt : SortFn) (colOrder rowOrder : List Bytes) (t : Table) (k : Counters) (readErrors : Int) : CmdOut :=
  { exit := determineErrorState readErrors false t.errors k.matched
    csv := writeCsv (tableCsvRows srt colOrder rowOrder t)
    lines := [footer k t.errors [rcPart t.rows.length t.cols.length]] }

/-- `sparkFunction` with a name-ordered column sort (`text`): the final render trims first (unless `--notruncate` or a
value-ordered `--sort-cols`), so footer, CSV and exit status see the trimmed table. -/
def sparkCmd (numCols : Nat) (noTruncate : Bool) (sortCols : Bytes) (t : Table) (k : Counters) (readErrors : Int) : CmdOut :=
  let t := if !noTruncate && !sortsByValue sortCols then sparkTrim numCols t else t
  tableCmd isortFn (akeys t.cols) (akeys t.rows) t k readErrors

/-- `sparkFunction` for EVERY `--sort-cols` whose comparator is a pure function of the two columns (`text`, `numeric` – the
default –, `value`; any spelling, any modifier): `colSorter = BuildSorter(sortCols)` is the order the trim keeps the LAST
`--cols` columns of.  `none` = a name outside that class (`contextual`, `date`: inferring; or an error, exit 2). -/
def sparkCmdBy (numCols : Nat) (noTruncate : Bool) (sortCols : Bytes) (t : Table) (k : Counters) (readErrors : Int) : Option CmdOut :=
  match pureSortLess sortCols with
  | none => none
  | some less =>
    let t := if !noTruncate && !sortsByValue sortCols then sparkTrimBy less numCols t else t
    some (tableCmd isortFn (akeys t.cols) (akeys t.rows) t k readErrors)

/-- `bargraphFunction`: footer 0 (no extra part), `csv.WriteSubCounter`, `DetermineErrorState`. -/
def barsCmd (srt : SortFn) (order : List Bytes) (s : SubKeyCounter) (k : Counters) (readErrors : Int) : CmdOut :=
  { exit := determineErrorState readErrors false s.errors k.matched
    csv := writeCsv (subKeyCsvRows srt order s)
    lines := [footer k s.errors []] }

end Rare.C03
