import Rare.Base.F64
import Rare.Model.C14
/-!
# C14: the `float64` operations of the scalers as IEEE-754 binary64 (`Rare.F64`)

`f64Arith` instantiates the operations record of `Rare/Model/C14.lean` with the software binary64
model of `Rare/Base/F64.lean` (round to nearest even on every `+ - * /`, `float64(int64)` correctly
rounded, `math.Floor/Ceil`, `<=`/`==` with NaN unordered, `int(f)` as amd64 compiles it).  With this
instance `scale`, `bucket`, `lengthVal`, `barWriteR`, `heatWrite`, `sparkWrite` are EXACTLY the sequence of
conversions, subtractions, divisions, multiplications and truncations that
`pkg/multiterm/termscaler/scale.go` performs – the theorems `…_f64` of `Props/C14.lean` are about these
definitions and the driver runs the same definitions against Go bit for bit.

`math.Log2`, `math.Log10` and `math.Pow` are parameters (`L2 L10 P2 P10 : F64 → F64`): a trusted
library, of which the theorems assume only `LogLikeF64` (finite and monotone on `[1, ∞)`, `log 1 = 0`).
-/
namespace Rare.C14
open Rare

def f64Arith (L2 L10 P2 P10 : F64 → F64) : Arith F64 :=
  { ofInt := F64.ofInt, add := F64.add, sub := F64.sub, mul := F64.mul, div := F64.div,
    floor := F64.floor, ceil := F64.ceil, le := F64.le, beq := F64.eq,
    trunc := F64.toInt64, log2 := L2, log10 := L10, pow2 := P2, pow10 := P10 }

end Rare.C14
