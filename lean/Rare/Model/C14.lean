import Rare.Base.GoInt
import Rare.Model.C20
/-!
# C14 model: scalers, bar/heat/spark glyph writers, table layout, the renderers and how the commands drive them

Mirrors (branch by branch) `pkg/multiterm/termscaler/scale.go`, `pkg/multiterm/termunicode/{bars,heat,spark}.go`,
`pkg/color/coloring.go` (`Wrap`, `Write`, `HighlightSingleRune`, `StrLen`),
`pkg/multiterm/termrenderers/{table,histoWriter,bargraph,datatable,heatmap,spark}.go`, the render callbacks of
`cmd/{histo,bargraph,reduce}.go` and `pkg/multiterm/termformat/scaleformatter.go` as they are
AFTER the repairs b2c2a9f, 7206d40, 0b7fa09, a20c03a, b1ca348, 9780d5d, 6408ebf, c54b92c, 73473fc, 7b183e0, f0d0278, cde79bf, writing into the
`VirtualTerm` model of C20.  (`termformat/expression.go` is in `C14Format.lean`.)

* Every Go panic source is an explicit `.error` (index out of range, slice bounds, negative
  `strings.Repeat`/`make`, integer divide by zero).  Loops whose termination is not structural carry fuel.
* Numbers: `int`/`int64` are `Int` with `wrap64`; `float64` is a parameter `α` with the operations the
  code uses (`Arith α`).  Theorems instantiate `α := Rat` (`ratArith L` with an abstract monotone
  logarithm `L`); only the driver instantiates `α := Float`.
* Text is `Bytes`; rune iteration is `C20.decodeUtf8` (Go semantics: every bad byte is U+FFFD).
* A formatter is a function of (value, min, max) (`Fmt`); every renderer passes the range it passes in Go.
* The table-based renderers (data table, sparkline, reduce table) are sequences of `TableOp`s (`WriteRow` /
  `WriteFooter` calls) run by `TableWriter.runOps`; their scripts are pure functions of the aggregated state.
-/
namespace Rare.C14
open Rare Rare.C20

abbrev Res := Except String

/-- the two package-level switches (`color.Enabled`, `termunicode.UnicodeEnabled`) -/
structure Env where
  color : Bool
  unicode : Bool
  deriving Repr, DecidableEq

/-! ## Go slice/strings primitives that can panic -/

/-- `l[i]` -/
def getIdx {α : Type} (l : List α) (i : Int) : Res α :=
  if i < 0 then .error "index out of range"
  else match l[i.toNat]? with
    | some x => .ok x
    | none => .error "index out of range"

/-- `l[i] = x` -/
def setIdx {α : Type} (l : List α) (i : Int) (x : α) : Res (List α) :=
  if i < 0 ∨ i ≥ l.length then .error "index out of range" else .ok (l.set i.toNat x)

/-- `l[:n]` (for `n ≤ len`; capacity is not modelled: callers only slice within the length) -/
def sliceTo {α : Type} (l : List α) (n : Int) : Res (List α) :=
  if n < 0 ∨ n > l.length then .error "slice bounds out of range" else .ok (l.take n.toNat)

/-- `l[n:]` -/
def sliceFrom {α : Type} (l : List α) (n : Int) : Res (List α) :=
  if n < 0 ∨ n > l.length then .error "slice bounds out of range" else .ok (l.drop n.toNat)

/-- `strings.Repeat(" ", n)` -/
def repeatStr (piece : Bytes) (n : Int) : Res Bytes :=
  if n < 0 then .error "strings: negative Repeat count" else .ok (List.replicate n.toNat piece).flatten

/-- `make([]T, n)` -/
def makeSlice {α : Type} (n : Int) (zero : α) : Res (List α) :=
  if n < 0 then .error "makeslice: len out of range" else .ok (List.replicate n.toNat zero)

/-- `writeRepeat(&sb, r, count)` / `for j := 0; j < n; j++ { sb.WriteRune(' ') }`: nothing for `n ≤ 0` -/
def writeRepeat (r : Nat) (count : Int) : Bytes := (List.replicate count.toNat (encodeRune r)).flatten

def spaces (n : Int) : Bytes := List.replicate n.toNat 32

def mini (i j : Int) : Int := if i < j then i else j

/-! ## pkg/color -/

def escB (s : String) : Bytes := 27 :: ascii s

def cReset : Bytes := escB "[0m"
def cRed : Bytes := escB "[31m"
def cGreen : Bytes := escB "[32m"
def cYellow : Bytes := escB "[33m"
def cBlue : Bytes := escB "[34m"
def cMagenta : Bytes := escB "[35m"
def cCyan : Bytes := escB "[36m"
def cBrightBlack : Bytes := escB "[30;1m"
def cBrightRed : Bytes := escB "[31;1m"
def cBrightGreen : Bytes := escB "[32;1m"
def cBrightYellow : Bytes := escB "[33;1m"
def cBrightBlue : Bytes := escB "[34;1m"
def cBrightMagenta : Bytes := escB "[35;1m"
def cBrightCyan : Bytes := escB "[36;1m"
def cBrightWhite : Bytes := escB "[37;1m"
def cUnderline : Bytes := escB "[4m"

def groupColors : List Bytes :=
  [cRed, cGreen, cYellow, cBlue, cMagenta, cCyan, cBrightRed, cBrightGreen, cBrightYellow, cBrightBlue, cBrightMagenta, cBrightCyan]

/-- `color.Wrap` -/
def wrap (env : Env) (color s : Bytes) : Bytes :=
  if !env.color then s
  else
    let tail := if s.length < cReset.length || s.drop (s.length - cReset.length) != cReset then cReset else []
    color ++ s ++ tail

/-- `color.Write(w, color, f)` where `f` wrote `body` -/
def colorWrite (env : Env) (color body : Bytes) : Bytes :=
  if !env.color then body else color ++ body ++ cReset

/-- `color.StrLen`, colour-enabled branch: the scanner over runes -/
def strLenGo : Bool → List Nat → Nat → Nat
  | _, [], n => n
  | inCode, r :: rest, n =>
    if r = 27 then strLenGo true rest n
    else if inCode && r = 109 then strLenGo false rest n
    else if !inCode then strLenGo inCode rest (n + 1)
    else strLenGo inCode rest n

/-- `color.StrLen` -/
def strLen (env : Env) (s : Bytes) : Int :=
  if !env.color then ((decodeUtf8 s).length : Int) else (strLenGo false (decodeUtf8 s) 0 : Nat)

/-- `color.HighlightSingleRune(word, runeIndex, base, highlight)` -/
def highlightSingleRune (env : Env) (word : Bytes) (runeIndex : Int) (base highlight : Bytes) : Bytes :=
  if !env.color then word
  else if runeIndex ≥ 0 ∧ runeIndex < word.length then
    let body := (decodeUtf8 word).zipIdx.flatMap fun (r, idx) =>
      if (idx : Int) = runeIndex then highlight ++ encodeRune r ++ (cReset ++ base) else encodeRune r
    base ++ body ++ cReset
  else wrap env base word

/-- `fmt.Sprintf("%-*s", width, s)` for `width ≥ 0`: pad on the right to `width` runes -/
def padRight (s : Bytes) (width : Int) : Bytes := s ++ spaces (width - (decodeUtf8 s).length)

/-- `padVisible(s, width)` (termrenderers, after f0d0278): blanks up to `width` VISIBLE characters (`color.StrLen`) – the unit
the key columns of the histogram and the bar graph are measured in -/
def padVis (env : Env) (s : Bytes) (width : Int) : Bytes := s ++ spaces (width - strLen env s)

/-! ## Formatters (`termformat.Formatter`)

`termformat.Passthru`, `termformat.Default` (= `humanize.Hi`) and the expression formatter
`termformat.FromExpression(expr)`.  In the model a formatter is a FUNCTION of (value, min, max): the
same arguments always give the same text, whatever was formatted before.  `Rare/Model/C14Format.lean`
builds the `fn` of an expression from the shared expression model. -/

inductive Fmt where
  | raw | hi
  /-- `FromExpression(expr)`: `kb.BuildKey` on the context (val, min, max) -/
  | fn (f : Int → Int → Int → Bytes)

/-- digits right-to-left with a comma after every third (`humanizeInt`'s loop) -/
def commaRev : List UInt8 → Nat → List UInt8
  | [], _ => []
  | d :: rest, ci => if ci = 3 then 44 :: d :: commaRev rest 1 else d :: commaRev rest (ci + 1)

def humanizeInt (v : Int) : Bytes :=
  if 0 ≤ v ∧ v < 100 then itoa v
  else
    let ds := (commaRev (natDigits v.natAbs).reverse 0).reverse
    if v < 0 then 45 :: ds else ds

/-- `formatter(val, min, max)` -/
def Fmt.apply (f : Fmt) (v mn mx : Int) : Bytes :=
  match f with
  | .raw => itoa v
  | .hi => humanizeInt v
  | .fn g => g v mn mx

/-! ## termscaler -/

/-- the `float64` operations the code uses -/
structure Arith (α : Type) where
  ofInt : Int → α
  add : α → α → α
  sub : α → α → α
  mul : α → α → α
  div : α → α → α
  floor : α → α
  ceil : α → α
  le : α → α → Bool
  beq : α → α → Bool
  /-- Go `int(f)` / `int64(f)` -/
  trunc : α → Int
  /-- `math.Log2`, `math.Log10` (trusted library) -/
  log2 : α → α
  log10 : α → α
  /-- `math.Pow(2, f)`, `math.Pow(10, f)` (only the heatmap legend) -/
  pow2 : α → α
  pow10 : α → α

inductive Scaler where
  | linear | log2 | log10
  deriving Repr, DecidableEq

/-- `Scaler.mapVal` -/
def mapVal {α : Type} (A : Arith α) (k : Scaler) (f : α) : α :=
  match k with
  | .linear => f
  | .log2 => if A.le f (A.ofInt 1) then A.ofInt 0 else A.log2 f
  | .log10 => if A.le f (A.ofInt 1) then A.ofInt 0 else A.log10 f

def unmapVal {α : Type} (A : Arith α) (k : Scaler) (f : α) : α :=
  match k with
  | .linear => f
  | .log2 => A.pow2 f
  | .log10 => A.pow10 f

/-- `Scaler.remapMinMax` -/
def remapMinMax {α : Type} (A : Arith α) (k : Scaler) (min max : Int) : α × α :=
  let max := if max ≤ min then wrap64 (min + 1) else max
  (A.floor (mapVal A k (A.ofInt min)), A.ceil (mapVal A k (A.ofInt max)))

/-- `Scaler.Scale`: guard chain, then the linear map of the mapped value -/
def scale {α : Type} (A : Arith α) (k : Scaler) (val min max : Int) : α :=
  if max < min then A.ofInt 0
  else if val < min then A.ofInt 0
  else if val > max then A.ofInt 1
  else
    let (minf, maxf) := remapMinMax A k min max
    if A.le maxf minf then A.ofInt 0
    else A.div (A.sub (mapVal A k (A.ofInt val)) minf) (A.sub maxf minf)

/-- `termscaler.Bucket` -/
def bucket {α : Type} (A : Arith α) (buckets : Int) (u : α) : Int := A.trunc (A.mul u (A.ofInt (buckets - 1)))

/-- `termscaler.LengthVal` -/
def lengthVal {α : Type} (A : Arith α) (maxLen : Int) (u : α) : Int := A.trunc (A.mul u (A.ofInt maxLen))

/-- `Scaler.ScaleKeys` (consecutive duplicates dropped) -/
def scaleKeys {α : Type} (A : Arith α) (k : Scaler) (buckets min max : Int) : List Int :=
  let (minf, maxf) := remapMinMax A k min max
  let vals := (List.range buckets.toNat).map fun (i : Nat) =>
    A.trunc (unmapVal A k (A.add (A.div (A.mul (A.sub maxf minf) (A.ofInt i)) (A.ofInt (buckets - 1))) minf))
  vals.foldl (fun acc v => if acc.isEmpty || acc.getLast? != some v then acc ++ [v] else acc) []

/-- `unicode.ToLower` as far as it can matter for the scaler names: ASCII upper case, and U+0130 (İ, whose lower case
is `i` in Go's tables); U+212A (Kelvin sign) lowers to `k`, which no name contains; every other rune stays outside
ASCII letters -/
def lowerRuneName (r : Nat) : Nat := if 65 ≤ r ∧ r ≤ 90 then r + 32 else if r = 0x130 then 105 else if r = 0x212A then 107 else r

def asciiRunes (s : String) : List Nat := s.toList.map Char.toNat

/-- `termscaler.ScalerByName(name)` (the `--scale` flag of every renderer): `switch strings.ToLower(name)`; `none` is
`ScalerNull, false` (the commands then fail with "invalid scaler") -/
def scalerByName (name : Bytes) : Option Scaler :=
  let l := (decodeUtf8 name).map lowerRuneName
  if l = asciiRunes "linear" ∨ l = asciiRunes "lin" ∨ l = [] then some .linear
  else if l = asciiRunes "log10" ∨ l = asciiRunes "log" then some .log10
  else if l = asciiRunes "log2" then some .log2
  else none

/-! ## termunicode -/

def fullBlock : Nat := 0x2588
def nonUnicodeBlock : Nat := 124  -- '|'
def heatmapNonUnicode : Nat := 35 -- '#'

def barUnicode : List Nat := [0x0000, 0x258f, 0x258e, 0x258d, 0x258c, 0x258b, 0x258a, 0x2589, 0x2588]
def barAscii : List Nat := [48, 49, 50, 51, 52, 53, 54, 55, 56, 57, 65, 66, 67, 68, 69, 70]
def barUnicodePartCount : Int := barUnicode.length

def heatEsc (n : String) : Bytes := escB ("[38;5;" ++ n ++ "m")
def heatmapColors : List Bytes :=
  ["16", "17", "18", "19", "20", "21", "57", "93", "129", "165", "201", "200", "199", "198", "197", "196"].map heatEsc
def heatmapAscii : List Bytes := ["-", "1", "2", "3", "4", "5", "6", "7", "8", "9"].map ascii

def sparkBlocks : List Nat := [95, 0x2581, 0x2582, 0x2583, 0x2584, 0x2585, 0x2586, 0x2587, 0x2588]
def sparkAscii : List Nat := [95, 46, 45, 94]

/-- number of glyphs and last partial glyph of `BarWrite`'s unicode loop
(`for rem >= 9 { full; rem -= 9 }; if rem > 0 { barUnicode[rem] }`) -/
def barParts (rem : Int) : Int × Int := if rem < 0 then (0, rem) else (rem / barUnicodePartCount, rem % barUnicodePartCount)

/-- the glyphs (runes) `termunicode.BarWrite(w, val, maxLen)` writes -/
def barWriteR {α : Type} (A : Arith α) (env : Env) (u : α) (maxLen : Int) : Res (List Nat) :=
  if env.unicode then do
    let rem := lengthVal A (wrap64 (maxLen * barUnicodePartCount)) u
    let (full, part) := barParts rem
    let head := List.replicate full.toNat fullBlock
    if part > 0 then
      let g ← getIdx barUnicode part
      pure (head ++ [g])
    else pure head
  else
    pure (List.replicate (lengthVal A maxLen u).toNat nonUnicodeBlock)

/-- `termunicode.BarWrite(w, val, maxLen)` -/
def barWrite {α : Type} (A : Arith α) (env : Env) (u : α) (maxLen : Int) : Res Bytes := do
  let rs ← barWriteR A env u maxLen
  pure (rs.flatMap encodeRune)

/-- number of runes `barWriteRunes` writes (after 7206d40: exact 128-bit product, no wrap) -/
def barBlocks (val maxVal maxLen : Int) : Int :=
  if maxVal ≤ 0 then 0
  else
    let val := if val > maxVal then maxVal else val
    if val ≤ 0 ∨ maxLen ≤ 0 then 0
    else val * maxLen / maxVal

/-- `barWriteRunes(w, blockChar, val, maxVal, maxLen)` -/
def barWriteRunes (blockChar : Nat) (val maxVal maxLen : Int) : Bytes :=
  writeRepeat blockChar (barBlocks val maxVal maxLen)

/-- `termunicode.BarKey(idx)` -/
def barKey (env : Env) (idx : Int) : Res Bytes := do
  let blockChar := if env.unicode then fullBlock else nonUnicodeBlock
  if env.color then
    let c ← getIdx groupColors (idx % groupColors.length)
    pure (wrap env c (encodeRune blockChar))
  else
    let g ← getIdx barAscii (idx % barAscii.length)
    pure (encodeRune g)

/-- one segment of `BarWriteStacked`: value `v` at position `i` -/
def stackedSegment (env : Env) (maxVal maxLen : Int) (v : Int) (i : Nat) : Res Bytes := do
  let blockChar := if env.unicode then fullBlock else nonUnicodeBlock
  if env.color then
    let c ← getIdx groupColors ((i : Int) % groupColors.length)
    pure (colorWrite env c (barWriteRunes blockChar v maxVal maxLen))
  else
    let g ← getIdx barAscii ((i : Int) % barAscii.length)
    pure (barWriteRunes g v maxVal maxLen)

/-- `termunicode.BarWriteStacked(w, maxVal, maxLen, vals...)` -/
def barWriteStacked (env : Env) (maxVal maxLen : Int) (vals : List Int) : Res Bytes := do
  let parts ← vals.zipIdx.mapM fun p => stackedSegment env maxVal maxLen p.1 p.2
  pure parts.flatten

/-- `termunicode.HeatWrite(w, scaled)` -/
def heatWrite {α : Type} (A : Arith α) (env : Env) (u : α) : Res Bytes := do
  if !env.color then
    getIdx heatmapAscii (bucket A heatmapAscii.length u)
  else
    let blockChar := if env.unicode then fullBlock else heatmapNonUnicode
    let hc ← getIdx heatmapColors (bucket A heatmapColors.length u)
    pure (wrap env hc (encodeRune blockChar))

/-- `termunicode.SparkWrite(w, scaled)` -/
def sparkWrite {α : Type} (A : Arith α) (env : Env) (u : α) : Res Bytes := do
  if !env.unicode then
    let g ← getIdx sparkAscii (bucket A sparkAscii.length u)
    pure (encodeRune g)
  else
    let g ← getIdx sparkBlocks (bucket A sparkBlocks.length u)
    pure (encodeRune g)

/-! ## termrenderers/table.go -/

structure TableWriter where
  maxCols : Int
  maxRows : Int
  activeRows : Int
  colWidth : List Int
  rows : List (List Bytes)
  deriving Repr

/-- `NewTable(term, maxCols, maxRows)` -/
def TableWriter.new (maxCols maxRows : Int) : Res TableWriter := do
  let rows ← makeSlice maxRows ([] : List Bytes)
  let cw ← makeSlice maxCols (0 : Int)
  pure { maxCols, maxRows, activeRows := 0, colWidth := cw, rows }

/-- the text of one row: every cell padded to its column width plus one blank -/
def TableWriter.rowText (env : Env) (maxCols : Int) (colWidth : List Int) (cols : List Bytes) : Res Bytes := do
  let shown := cols.take maxCols.toNat
  let parts ← shown.zipIdx.mapM fun (c, i) => do
    let w ← getIdx colWidth i
    pure (c ++ spaces (w - strLen env c) ++ [32])
  pure parts.flatten

/-- `TableWriter.writeRow` -/
def TableWriter.drawRow (env : Env) (t : TableWriter) (vt : VirtualTerm) (rowNum : Int) (cols : List Bytes) : Res VirtualTerm := do
  let s ← TableWriter.rowText env t.maxCols t.colWidth cols
  vt.writeForLine rowNum s

/-- the width-tracking loop of `WriteRow` -/
def TableWriter.widen (env : Env) (maxCols : Int) (cols : List Bytes) (colWidth : List Int) : Res (List Int × Bool) :=
  (cols.take maxCols.toNat).zipIdx.foldlM (fun (acc : List Int × Bool) (ci : Bytes × Nat) => do
    let w ← getIdx acc.1 ci.2
    let runeLen := strLen env ci.1
    if runeLen > w then
      let cw ← setIdx acc.1 ci.2 runeLen
      pure (cw, true)
    else pure acc) (colWidth, false)

/-- `TableWriter.WriteRow(rowNum, cols...)` -/
def TableWriter.writeRow (env : Env) (t : TableWriter) (vt : VirtualTerm) (rowNum : Int) (cols : List Bytes) :
    Res (TableWriter × VirtualTerm) := do
  if rowNum ≥ t.maxRows then pure (t, vt)
  else
    let active := if rowNum ≥ t.activeRows then rowNum + 1 else t.activeRows
    let rows ← setIdx t.rows rowNum cols
    let (cw, need) ← TableWriter.widen env t.maxCols cols t.colWidth
    let t' := { t with activeRows := active, rows := rows, colWidth := cw }
    if need then
      let vt' ← (List.range active.toNat).foldlM (fun (v : VirtualTerm) (i : Nat) => do
        let r ← getIdx rows i
        t'.drawRow env v i r) vt
      pure (t', vt')
    else
      let vt' ← t'.drawRow env vt rowNum cols
      pure (t', vt')

/-- `TableWriter.WriteFooter(idx, line)` -/
def TableWriter.writeFooter (t : TableWriter) (vt : VirtualTerm) (idx : Int) (line : Bytes) : Res VirtualTerm :=
  vt.writeForLine (t.activeRows + idx) line

/-- one call on a `TableWriter`: `WriteRow(rowNum, cols...)` or `WriteFooter(idx, line)` -/
inductive TableOp where
  | row (rowNum : Int) (cols : List Bytes)
  | footer (idx : Int) (line : Bytes)
  deriving Repr

def TableWriter.apply (env : Env) (st : TableWriter × VirtualTerm) : TableOp → Res (TableWriter × VirtualTerm)
  | .row n cols => st.1.writeRow env st.2 n cols
  | .footer idx line => do
    let vt ← st.1.writeFooter st.2 idx line
    pure (st.1, vt)

/-- a sequence of calls, in order (every table-based renderer is such a sequence) -/
def TableWriter.runOps (env : Env) (st : TableWriter × VirtualTerm) (ops : List TableOp) : Res (TableWriter × VirtualTerm) :=
  ops.foldlM (TableWriter.apply env) st

/-! ## Aggregated states (what the renderers read; the folds themselves belong to C07)

A state is the set of present cells.  Keys are referred to by their index in the key lists of the
case; the order of keys is the index order (the harness sorts with a sorter built from the list). -/

/-- table / sub-key counter cells `((row, col), value)` in first-sample order -/
abbrev Cells := List ((Nat × Nat) × Int)

def Cells.sample (c : Cells) (r k : Nat) (inc : Int) : Cells :=
  if c.any (fun e => e.1 == (r, k)) then c.map (fun e => if e.1 == (r, k) then (e.1, wrap64 (e.2 + inc)) else e)
  else c ++ [((r, k), wrap64 inc)]

def sortedDistinct (l : List Nat) : List Nat := (l.mergeSort (· ≤ ·)).eraseDups

def Cells.rows (c : Cells) : List Nat := sortedDistinct (c.map (·.1.1))
def Cells.cols (c : Cells) : List Nat := sortedDistinct (c.map (·.1.2))

/-- `TableRow.Value(col)`: 0 for an absent cell -/
def Cells.value (c : Cells) (r k : Nat) : Int :=
  match c.find? (fun e => e.1 == (r, k)) with
  | some e => e.2
  | none => 0

def sumWrap (l : List Int) : Int := l.foldl (fun a v => wrap64 (a + v)) 0

def Cells.rowSum (c : Cells) (r : Nat) : Int := sumWrap ((c.filter (·.1.1 == r)).map (·.2))
def Cells.colTotal (c : Cells) (k : Nat) : Int := sumWrap ((c.filter (·.1.2 == k)).map (·.2))
def Cells.sum (c : Cells) : Int := sumWrap (c.map (·.2))

/-- `TableAggregator.ComputeMinMax` -/
def Cells.minMax (c : Cells) : Int × Int :=
  if c.rows.isEmpty || c.cols.isEmpty then (0, 0)
  else
    c.rows.foldl (fun acc r => c.cols.foldl (fun (acc : Int × Int) k =>
      let v := c.value r k
      (if v < acc.1 then v else acc.1, if v > acc.2 then v else acc.2)) acc) (maxInt64, minInt64)

/-- `TableAggregator.Trim` with the predicate "column not kept" -/
def Cells.keepCols (c : Cells) (keep : List Nat) : Cells := c.filter (fun e => keep.contains e.1.2)

def keyAt (keys : List Bytes) (i : Nat) : Bytes := keys.getD i []

/-! ## termrenderers/histoWriter.go -/

structure Histo where
  maxVal : Int := 0
  total : Int := 0
  textSpacing : Int := 16
  /-- `items []histoPair`: `none` is the zero value (`set == false`, an unused line), `some (key, val)` a written row -/
  items : List (Option (Bytes × Int))
  showBar : Bool
  showPct : Bool
  scaler : Scaler
  fmt : Fmt

def Histo.new (maxLines : Int) (showBar showPct : Bool) (scaler : Scaler) (fmt : Fmt) : Res Histo := do
  let items ← makeSlice maxLines (none : Option (Bytes × Int))
  pure { items, showBar, showPct, scaler, fmt }

/-- the canonical stand-in of `[%4.1f%%]` (float formatting is outside the model) -/
def pctText : Bytes := ascii "[P%]"

/-- `HistoWriter.writeLine` -/
def Histo.writeLine {α : Type} (A : Arith α) (env : Env) (h : Histo) (vt : VirtualTerm) (line : Int) (key : Bytes) (val : Int) :
    Res VirtualTerm := do
  let s := wrap env cYellow (padVis env key h.textSpacing) ++ ascii "    " ++ padRight (h.fmt.apply val 0 h.maxVal) 10
  let s := if h.showPct ∧ h.total > 0 then s ++ [32] ++ wrap env cCyan pctText else s
  if h.showBar ∧ h.maxVal > 0 then
    let bar ← barWrite A env (scale A h.scaler val 0 h.maxVal) 50
    vt.writeForLine line (s ++ [32] ++ colorWrite env cBlue bar)
  else vt.writeForLine line s

/-- one iteration of `fullRender`'s loop: `if item.set { s.writeLine(idx, item.key, item.val) }` -/
def Histo.renderItem {α : Type} (A : Arith α) (env : Env) (h : Histo) (v : VirtualTerm) (it : Option (Bytes × Int) × Nat) : Res VirtualTerm :=
  match it.1 with
  | some (key, val) => h.writeLine A env v it.2 key val
  | none => pure v

/-- `HistoWriter.fullRender` (after 7b183e0: every written line, whatever its value) -/
def Histo.fullRender {α : Type} (A : Arith α) (env : Env) (h : Histo) (vt : VirtualTerm) : Res VirtualTerm :=
  h.items.zipIdx.foldlM (h.renderItem A env) vt

/-- `HistoWriter.WriteForLine(line, key, val)` (after 4855857: a line AT or beyond `len(items)` is ignored; the guard was
`line > len(items)` and `line == len(items)` indexed out of range) -/
def Histo.writeForLine {α : Type} (A : Arith α) (env : Env) (h : Histo) (vt : VirtualTerm) (line : Int) (key : Bytes) (val : Int) :
    Res (Histo × VirtualTerm) := do
  if line ≥ h.items.length then pure (h, vt)
  else
    let klen := strLen env key
    let (ts, need) := if klen > h.textSpacing then (klen, true) else (h.textSpacing, false)
    let (mv, need) := if val > h.maxVal then (val, true) else (h.maxVal, need)
    let items ← setIdx h.items line (some (key, val))
    let h' := { h with textSpacing := ts, maxVal := mv, items := items }
    if need then
      let vt' ← h'.fullRender A env vt
      pure (h', vt')
    else
      let vt' ← h'.writeLine A env vt line key val
      pure (h', vt')

/-- `HistoWriter.UpdateTotal(total)` -/
def Histo.updateTotal {α : Type} (A : Arith α) (env : Env) (h : Histo) (vt : VirtualTerm) (total : Int) : Res (Histo × VirtualTerm) := do
  let h' := { h with total := total }
  let vt' ← h'.fullRender A env vt
  pure (h', vt')

/-- a call on a `HistoWriter`: `WriteForLine(n, key, val)` or `UpdateTotal(total)` -/
inductive HistoOp where
  | line (n : Nat) (key : Bytes) (val : Int)
  | total (t : Int)

def Histo.applyOp {α : Type} (A : Arith α) (env : Env) (st : Histo × VirtualTerm) : HistoOp → Res (Histo × VirtualTerm)
  | .line n key val => st.1.writeForLine A env st.2 (n : Int) key val
  | .total t => st.1.updateTotal A env st.2 t

/-- a sequence of calls, in order -/
def Histo.runOps {α : Type} (A : Arith α) (env : Env) (st : Histo × VirtualTerm) (ops : List HistoOp) : Res (Histo × VirtualTerm) :=
  ops.foldlM (Histo.applyOp A env) st

def Histo.writeFooter (h : Histo) (vt : VirtualTerm) (idx : Int) (line : Bytes) : Res VirtualTerm :=
  vt.writeForLine (h.items.length + idx) line

/-! ## termrenderers/bargraph.go -/

structure BarGraph where
  maxKeyLength : Int := 4
  subKeys : List Bytes := []
  rows : List (Bytes × List Int) := []
  maxLineVal : Int := 0
  maxRows : Int := 0
  prefixLines : Int := 0
  barSize : Int := 50
  stacked : Bool := false
  scaler : Scaler := .linear
  fmt : Fmt := .hi

/-- `maxi64` (starts from 0) -/
def maxi64 (vals : List Int) : Int := vals.foldl (fun r v => if v > r then v else r) 0
/-- `sumPositive` -/
def sumPositive (vals : List Int) : Int := vals.foldl (fun r v => if v > 0 then wrap64 (r + v) else r) 0

/-- `BarGraph.SetKeys(keyItems...)` -/
def BarGraph.setKeys (env : Env) (g : BarGraph) (vt : VirtualTerm) (keyItems : List Bytes) : Res (BarGraph × VirtualTerm) := do
  let g := { g with subKeys := keyItems }
  if keyItems.length > 1 ∨ (keyItems.length = 1 ∧ keyItems.head? ≠ some []) then
    let g := { g with prefixLines := 1 }
    let lead ← repeatStr [32] (g.maxKeyLength + 2)
    let parts ← keyItems.zipIdx.mapM fun (item, idx) => do
      let k ← barKey env idx
      pure (ascii "  " ++ k ++ [32] ++ item)
    let vt' ← vt.writeForLine 0 (lead ++ parts.flatten)
    pure (g, vt')
  else pure (g, vt)

/-- `BarGraph.writeBarGrouped` -/
def BarGraph.writeBarGrouped {α : Type} (A : Arith α) (env : Env) (g : BarGraph) (vt : VirtualTerm) (idx : Int) (key : Bytes) (vals : List Int) :
    Res (BarGraph × VirtualTerm) := do
  let mlv := vals.foldl (fun m v => if v > m then v else m) g.maxLineVal
  let g := { g with maxLineVal := mlv }
  let head := wrap env cYellow (padVis env key g.maxKeyLength) ++ ascii "  "
  let line := wrap64 (g.prefixLines + wrap64 (idx * g.subKeys.length))
  let maxRow := wrap64 (line + g.subKeys.length)
  let g := if maxRow > g.maxRows then { g with maxRows := maxRow } else g
  let vt' ← vals.zipIdx.foldlM (fun (v : VirtualTerm) (vi : Int × Nat) => do
    let pre ← if vi.2 > 0 then repeatStr [32] (g.maxKeyLength + 2) else pure (if vi.2 = 0 then head else [])
    let c ← getIdx groupColors ((vi.2 : Int) % groupColors.length)
    let bar ← barWrite A env (scale A g.scaler vi.1 0 g.maxLineVal) g.barSize
    let s := pre ++ colorWrite env c bar ++ [32] ++ g.fmt.apply vi.1 0 g.maxLineVal
    v.writeForLine (line + vi.2) s) vt
  pure (g, vt')

/-- `BarGraph.writeBarStacked` -/
def BarGraph.writeBarStacked (env : Env) (g : BarGraph) (vt : VirtualTerm) (idx : Int) (key : Bytes) (vals : List Int) :
    Res (BarGraph × VirtualTerm) := do
  let total := sumWrap vals
  let drawn := sumPositive vals
  let g := if drawn > g.maxLineVal then { g with maxLineVal := drawn } else g
  let head := wrap env cYellow (padVis env key g.maxKeyLength) ++ ascii "  "
  let line := wrap64 (idx + g.prefixLines)
  let g := if line + 1 > g.maxRows then { g with maxRows := line + 1 } else g
  let bar ← barWriteStacked env g.maxLineVal g.barSize vals
  let vt' ← vt.writeForLine line (head ++ bar ++ ascii "  " ++ g.fmt.apply total 0 g.maxLineVal)
  pure (g, vt')

def BarGraph.writeBar {α : Type} (A : Arith α) (env : Env) (g : BarGraph) (vt : VirtualTerm) (idx : Int) (key : Bytes) (vals : List Int) :
    Res (BarGraph × VirtualTerm) :=
  if g.stacked then g.writeBarStacked env vt idx key vals else g.writeBarGrouped A env vt idx key vals

/-- `BarGraph.WriteBar(idx, key, vals...)` (after cde79bf: a key that widens the key column re-draws every row, like a new maximum) -/
def BarGraph.writeBarTop {α : Type} (A : Arith α) (env : Env) (g : BarGraph) (vt : VirtualTerm) (idx : Int) (key : Bytes) (vals : List Int) :
    Res (BarGraph × VirtualTerm) := do
  let klen := strLen env key
  let widened := decide (klen > g.maxKeyLength)
  let g := if klen > g.maxKeyLength then { g with maxKeyLength := klen } else g
  let rows := g.rows ++ List.replicate (idx + 1 - g.rows.length).toNat (([] : Bytes), ([] : List Int))
  let rows ← setIdx rows idx (key, vals)
  let g := { g with rows := rows }
  let max := if g.stacked then sumPositive vals else maxi64 vals
  let raised := decide (max > g.maxLineVal)
  let g := if max > g.maxLineVal then { g with maxLineVal := max } else g
  if widened || raised then
    g.rows.zipIdx.foldlM (fun (st : BarGraph × VirtualTerm) (ri : (Bytes × List Int) × Nat) =>
      st.1.writeBar A env st.2 ri.2 ri.1.1 ri.1.2) (g, vt)
  else g.writeBar A env vt idx key vals

def BarGraph.writeFooter (g : BarGraph) (vt : VirtualTerm) (idx : Int) (line : Bytes) : Res VirtualTerm :=
  vt.writeForLine (g.maxRows + idx) line

/-! ## termrenderers/datatable.go -/

structure DataTable where
  table : TableWriter
  numRows : Int
  numCols : Int
  showRowTotals : Bool
  showColTotals : Bool
  fmt : Fmt := .hi
  needsMinMax : Bool := false

/-- `NewDataTable(term, numCols, numRows)` (default formatter) with the two `Show…Totals` fields set -/
def DataTable.new (numCols numRows : Int) (rowTot colTot : Bool) : Res DataTable := do
  let t ← TableWriter.new (wrap64 (numCols + 2)) (wrap64 (numRows + 2))
  pure { table := t, numRows, numCols, showRowTotals := rowTot, showColTotals := colTot }

/-- `DataTable.SetFormatter(f)` -/
def DataTable.setFormatter (d : DataTable) (f : Fmt) : DataTable := { d with fmt := f, needsMinMax := true }

/-- `var min, max int64; if s.needsMinMax { min, max = counter.ComputeMinMax() }` -/
def DataTable.range (d : DataTable) (c : Cells) : Int × Int := if d.needsMinMax then c.minMax else (0, 0)

/-- `minColSlice(count, cols)` -/
def minColSlice {α : Type} (count : Int) (cols : List α) : Res (List α) :=
  if (cols.length : Int) < count then pure cols else sliceTo cols count

/-- the header row of `DataTable.WriteTable` -/
def DataTable.headerCells (env : Env) (d : DataTable) (ckeys : List Bytes) (cols : List Nat) : List Bytes :=
  [[]] ++ cols.map (fun k => wrap env (cUnderline ++ cBrightBlue) (keyAt ckeys k)) ++
    [if d.showRowTotals then wrap env (cUnderline ++ cBrightBlack) (ascii "Total") else []]

/-- one data row: the row key, the formatted value of every displayed column, the formatted row sum -/
def DataTable.rowCells (env : Env) (d : DataTable) (rkeys : List Bytes) (c : Cells) (cols : List Nat) (r : Nat) : List Bytes :=
  [wrap env cYellow (keyAt rkeys r)] ++ cols.map (fun k => d.fmt.apply (c.value r k) (d.range c).1 (d.range c).2) ++
    [if d.showRowTotals then wrap env cBrightBlack (d.fmt.apply (c.rowSum r) (d.range c).1 (d.range c).2) else []]

/-- the totals row -/
def DataTable.totalCells (env : Env) (d : DataTable) (c : Cells) (cols : List Nat) : List Bytes :=
  [wrap env (cBrightBlack ++ cUnderline) (ascii "Total")] ++
    cols.map (fun k => wrap env cBrightBlack (d.fmt.apply (c.colTotal k) (d.range c).1 (d.range c).2)) ++
    [if d.showRowTotals then wrap env cBrightWhite (d.fmt.apply c.sum (d.range c).1 (d.range c).2) else []]

/-- the displayed columns: `minColSlice(s.numCols, counter.OrderedColumns(..))` -/
def DataTable.shownCols (d : DataTable) (c : Cells) : Res (List Nat) := minColSlice d.numCols c.cols

/-- the displayed rows: `for i := 0; i < len(rows) && i < s.numRows; i++` -/
def DataTable.shownRows (d : DataTable) (c : Cells) : List Nat := c.rows.take d.numRows.toNat

/-- the `WriteRow` calls of `DataTable.WriteTable`, in order: header at 0, data rows from 1, totals after them -/
def DataTable.script (env : Env) (d : DataTable) (rkeys ckeys : List Bytes) (c : Cells) : Res (List TableOp) := do
  let cols ← d.shownCols c
  let rows := d.shownRows c
  let rowOps := rows.zipIdx.map fun (ri : Nat × Nat) => TableOp.row ((ri.2 : Int) + 1) (d.rowCells env rkeys c cols ri.1)
  let totals := if d.showColTotals then [TableOp.row ((rows.length : Int) + 1) (d.totalCells env c cols)] else []
  pure ([TableOp.row 0 (d.headerCells env ckeys cols)] ++ rowOps ++ totals)

/-- `DataTable.WriteTable` -/
def DataTable.writeTable (env : Env) (d : DataTable) (vt : VirtualTerm) (rkeys ckeys : List Bytes) (c : Cells) :
    Res (DataTable × VirtualTerm) := do
  let ops ← d.script env rkeys ckeys c
  let (t, vt) ← TableWriter.runOps env (d.table, vt) ops
  pure ({ d with table := t }, vt)

/-! ## termrenderers/heatmap.go -/

structure Heatmap where
  rowCount : Int
  colCount : Int
  minVal : Int := 0
  maxVal : Int := 1
  fixedMin : Bool := false
  fixedMax : Bool := false
  maxRowKeyWidth : Int := 0
  currentRows : Int := 0
  scaler : Scaler := .linear
  fmt : Fmt := .hi

/-- `underlineHeaderChar(word, letter)` -/
def underlineHeaderChar (env : Env) (word : Bytes) (letter : Int) : Bytes :=
  highlightSingleRune env word letter cBrightBlue (cUnderline ++ cBrightCyan)

def moreNote (n : Int) : Bytes := ascii "(" ++ itoa n ++ ascii " more)"

/-- the header loop of `WriteHeader` (after b1ca348: name, then delimiters).  `i` is the column
position, `sb` the text so far.  Runs out of fuel only if the loop does not terminate. -/
def headerLoop (env : Env) (names : List Bytes) (colCount : Int) : Nat → Int → Bytes → Res Bytes
  | 0, _, _ => .error "header loop does not terminate"
  | fuel + 1, i, sb =>
    if ¬ (i < colCount) then .ok sb
    else do
      let name ← getIdx names i
      let nameLen := strLen env name
      if i ≠ 0 ∧ i + nameLen + 2 ≥ colCount then
        let name ← getIdx names (colCount - 1)
        let nameLen := strLen env name
        let indent := colCount - i - nameLen
        let (sb, i) := if indent > 0 then (sb ++ writeRepeat 46 indent, i + indent) else (sb, i)
        pure (sb ++ underlineHeaderChar env name (colCount - i - 1))
      else
        let sb := sb ++ underlineHeaderChar env name 0
        let i := i + nameLen
        let count := mini (colCount - i) 2
        if count > 0 then headerLoop env names colCount fuel (i + count) (sb ++ writeRepeat 46 count)
        else headerLoop env names colCount fuel i sb

/-- `Heatmap.WriteHeader(colNames...)`: the header text and the number of displayed columns -/
def Heatmap.headerText (env : Env) (h : Heatmap) (names : List Bytes) : Res (Bytes × Int) := do
  let colCount := mini names.length h.colCount
  let sb ← headerLoop env names colCount (colCount.toNat + 1) 0 (writeRepeat 32 (h.maxRowKeyWidth + 1))
  let sb := if colCount < names.length then sb ++ wrap env cBrightBlack ([32] ++ moreNote (names.length - h.colCount)) else sb
  pure (sb, colCount)

/-- `Heatmap.UpdateMinMax(min, max)`: state and the legend line -/
def Heatmap.updateMinMax {α : Type} (A : Arith α) (env : Env) (h : Heatmap) (vt : VirtualTerm) (min max : Int) :
    Res (Heatmap × VirtualTerm) := do
  let h := { h with minVal := min, maxVal := max }
  let keys := scaleKeys A h.scaler 6 h.minVal h.maxVal
  let parts ← keys.zipIdx.mapM fun (item, idx) => do
    let cell ← heatWrite A env (scale A h.scaler item h.minVal h.maxVal)
    pure ((if idx > 0 then ascii "    " else []) ++ cell ++ [32] ++ h.fmt.apply item min max)
  let vt' ← vt.writeForLine 0 (writeRepeat 32 (h.maxRowKeyWidth + 1) ++ parts.flatten)
  pure (h, vt')

/-- `Heatmap.WriteRow(idx, row, cols)` -/
def Heatmap.writeRow {α : Type} (A : Arith α) (env : Env) (h : Heatmap) (vt : VirtualTerm) (idx : Int) (name : Bytes) (vals : List Int) :
    Res (Heatmap × VirtualTerm) := do
  let rlen := strLen env name
  let h := if rlen > h.maxRowKeyWidth then { h with maxRowKeyWidth := rlen } else h
  let cells ← vals.mapM fun v => heatWrite A env (scale A h.scaler v h.minVal h.maxVal)
  let vt' ← vt.writeForLine (2 + idx) (wrap env cYellow name ++ writeRepeat 32 (h.maxRowKeyWidth - rlen + 1) ++ cells.flatten)
  pure (h, vt')

/-- `UpdateMinMaxFromData`: the range the table is drawn with (fixed ends stay) -/
def Heatmap.range (h : Heatmap) (c : Cells) : Int × Int :=
  let (tmin, tmax) := if !h.fixedMin || !h.fixedMax then c.minMax else (h.minVal, h.maxVal)
  (if !h.fixedMin then tmin else h.minVal, if !h.fixedMax then tmax else h.maxVal)

/-- the row loop of `WriteTable`: `s.WriteRow(i, rows[i], colNames[:colCount])` -/
def Heatmap.writeRows {α : Type} (A : Arith α) (env : Env) (h : Heatmap) (vt : VirtualTerm) (rkeys : List Bytes) (c : Cells)
    (shownCols : List Nat) (rows : List Nat) : Res (Heatmap × VirtualTerm) :=
  rows.zipIdx.foldlM (fun (st : Heatmap × VirtualTerm) (ri : Nat × Nat) =>
    st.1.writeRow A env st.2 ri.2 (keyAt rkeys ri.1) (shownCols.map (c.value ri.1))) (h, vt)

/-- "If more rows than can display, write how many were missed" -/
def Heatmap.writeRowsNote (env : Env) (h : Heatmap) (vt : VirtualTerm) (nrows rowCount : Int) : Res (Heatmap × VirtualTerm) :=
  if nrows > rowCount then do
    let vt ← vt.writeForLine (2 + rowCount) (wrap env cBrightBlack (moreNote (nrows - rowCount)))
    pure ({ h with currentRows := 3 + rowCount }, vt)
  else pure ({ h with currentRows := 2 + rowCount }, vt)

/-- `Heatmap.WriteTable(agg, rowSorter, colSorter)` -/
def Heatmap.writeTable {α : Type} (A : Arith α) (env : Env) (h : Heatmap) (vt : VirtualTerm) (rkeys ckeys : List Bytes) (c : Cells) :
    Res (Heatmap × VirtualTerm) := do
  let (h, vt) ← h.updateMinMax A env vt (h.range c).1 (h.range c).2
  let (hdr, colCount) ← h.headerText env (c.cols.map (keyAt ckeys))
  let vt ← vt.writeForLine 1 hdr
  let rowCount := mini c.rows.length h.rowCount
  let shownCols ← sliceTo c.cols colCount
  let (h, vt) ← h.writeRows A env vt rkeys c shownCols (c.rows.take rowCount.toNat)
  h.writeRowsNote env vt c.rows.length rowCount

def Heatmap.writeFooter (h : Heatmap) (vt : VirtualTerm) (idx : Int) (line : Bytes) : Res VirtualTerm :=
  vt.writeForLine (h.currentRows + idx) line

/-! ## termrenderers/spark.go -/

structure Spark where
  rowCount : Int
  colCount : Int
  footerOffset : Int := 0
  scaler : Scaler
  fmt : Fmt
  table : TableWriter

def Spark.new (rows cols : Int) (scaler : Scaler) (fmt : Fmt) : Res Spark := do
  let t ← TableWriter.new 4 (wrap64 (rows + 1))
  pure { rowCount := rows, colCount := cols, scaler, fmt, table := t }

/-- the sparkline of one row: one glyph per displayed column -/
def sparkCells {α : Type} (A : Arith α) (env : Env) (k : Scaler) (vals : List Int) (min max : Int) : Res (List Bytes) :=
  vals.mapM fun v => sparkWrite A env (scale A k v min max)

/-- the displayed columns: the LAST `colCount` ones -/
def Spark.shownCols (s : Spark) (c : Cells) : Res (List Nat) :=
  let all := c.cols
  if (all.length : Int) > s.colCount then sliceFrom all (all.length - s.colCount) else pure all

/-- the `First...Last` text above the sparklines (after c54b92c: visible widths): as wide as the
sparkline when both names fit -/
def sparkHeaderText (env : Env) (names : List Bytes) : Bytes :=
  let first := names.head!
  let last := names.getLast!
  let dots : Int := (names.length : Int) - strLen env first - strLen env last
  let dots := if dots < 0 then 0 else dots
  first ++ writeRepeat 46 dots ++ last

def Spark.headerCells (env : Env) (names : List Bytes) : List Bytes :=
  [[], wrap env cUnderline (ascii "First"), sparkHeaderText env names, wrap env cUnderline (ascii "Last")]

/-- one row: key, first value, one glyph per displayed column, last value -/
def Spark.rowCells {α : Type} (A : Arith α) (env : Env) (s : Spark) (rkeys : List Bytes) (c : Cells) (colIdx : List Nat)
    (minVal maxVal : Int) (r : Nat) : Res (List Bytes) := do
  let cells ← sparkCells A env s.scaler (colIdx.map (c.value r)) minVal maxVal
  let (vFirst, vLast) := match colIdx.head?, colIdx.getLast? with
    | some f, some l => (s.fmt.apply (c.value r f) minVal maxVal, s.fmt.apply (c.value r l) minVal maxVal)
    | _, _ => ([], [])
  pure [wrap env cYellow (keyAt rkeys r), wrap env cBrightBlack vFirst, cells.flatten, wrap env cBrightBlack vLast]

/-- the displayed rows -/
def Spark.shownRows (s : Spark) (c : Cells) : List Nat := c.rows.take (mini c.rows.length s.rowCount).toNat

/-- "Write header": only when a column is displayed (9780d5d) -/
def Spark.headerOps (env : Env) (names : List Bytes) : List TableOp :=
  if names.length > 0 then [TableOp.row 0 (Spark.headerCells env names)] else []

/-- one iteration of "Each row...": `s.table.WriteRow(i+1, …)` -/
def Spark.rowOp {α : Type} (A : Arith α) (env : Env) (s : Spark) (rkeys : List Bytes) (c : Cells) (colIdx : List Nat)
    (ri : Nat × Nat) : Res TableOp := do
  let cells ← s.rowCells A env rkeys c colIdx c.minMax.1 c.minMax.2 ri.1
  pure (TableOp.row ((ri.2 : Int) + 1) cells)

/-- "If more rows than can display, write how many were missed", and the new footer offset -/
def Spark.noteOps (env : Env) (s : Spark) (c : Cells) : List TableOp × Int :=
  let rowCount := mini c.rows.length s.rowCount
  if (c.rows.length : Int) > rowCount then
    ([TableOp.footer 0 (wrap env cBrightBlack (moreNote ((c.rows.length : Int) - rowCount)))], 1)
  else ([], 0)

/-- the calls of `Spark.WriteTable` on its table, in order, and the new footer offset -/
def Spark.script {α : Type} (A : Arith α) (env : Env) (s : Spark) (rkeys ckeys : List Bytes) (c : Cells) : Res (List TableOp × Int) := do
  let colIdx ← s.shownCols c
  let rowOps ← (s.shownRows c).zipIdx.mapM (s.rowOp A env rkeys c colIdx)
  pure (Spark.headerOps env (colIdx.map (keyAt ckeys)) ++ rowOps ++ (s.noteOps env c).1, (s.noteOps env c).2)

/-- `Spark.WriteTable(agg, rowSorter, colSorter)` (after 9780d5d, c54b92c) -/
def Spark.writeTable {α : Type} (A : Arith α) (env : Env) (s : Spark) (vt : VirtualTerm) (rkeys ckeys : List Bytes) (c : Cells) :
    Res (Spark × VirtualTerm) := do
  let (ops, off) ← s.script A env rkeys ckeys c
  let (t, vt) ← TableWriter.runOps env (s.table, vt) ops
  pure ({ s with table := t, footerOffset := off }, vt)

def Spark.writeFooter (s : Spark) (vt : VirtualTerm) (idx : Int) (line : Bytes) : Res VirtualTerm :=
  s.table.writeFooter vt (s.footerOffset + idx) line

/-! ## cmd/histo.go, cmd/bargraph.go: how the commands drive the writers -/

/-- `writeHistoOutput(writer, counter, count, sorter, atLeast)`; `items` are the top `count` items in
sorted order with their counts, `total` is `counter.Total()` -/
def Histo.writeOutput {α : Type} (A : Arith α) (env : Env) (h : Histo) (vt : VirtualTerm) (items : List (Bytes × Int))
    (total atLeast : Int) : Res (Histo × VirtualTerm) := do
  let (h, vt) ← h.updateTotal A env vt total
  let (h, vt, _) ← items.foldlM (fun (s : Histo × VirtualTerm × Int) (it : Bytes × Int) =>
    if it.2 ≥ atLeast then do
      let (h, vt) ← s.1.writeForLine A env s.2.1 s.2.2 it.1 it.2
      pure (h, vt, s.2.2 + 1)
    else pure s) (h, vt, (0 : Int))
  pure (h, vt)

/-- the render callback of `bargraphFunction`: `SetKeys(counter.SubKeys()...)`, then one `WriteBar` per sorted row -/
def BarGraph.writeOutput {α : Type} (A : Arith α) (env : Env) (g : BarGraph) (vt : VirtualTerm) (subKeys : List Bytes)
    (rows : List (Bytes × List Int)) : Res (BarGraph × VirtualTerm) := do
  let (g, vt) ← g.setKeys env vt subKeys
  let (g, vt, _) ← rows.foldlM (fun (s : BarGraph × VirtualTerm × Int) (row : Bytes × List Int) => do
    let (g, vt) ← s.1.writeBarTop A env s.2.1 s.2.2 row.1 row.2
    pure (g, vt, s.2.2 + 1)) (g, vt, (0 : Int))
  pure (g, vt)

/-! ## cmd/reduce.go: the table output path (after 73473fc) -/

/-- `strings.Split(s, sep)` for a one-byte separator -/
def splitByte (sep : UInt8) : Bytes → List Bytes
  | [] => [[]]
  | b :: rest =>
    if b = sep then [] :: splitByte sep rest
    else match splitByte sep rest with
      | [] => [[b]]
      | h :: t => (b :: h) :: t

/-- `GroupKey.Parts()`: no parts for the empty key, else split at `expressions.ArraySeparator` (NUL) -/
def groupParts (key : Bytes) : List Bytes := if key = [] then [] else splitByte 0 key

structure Reduce where
  table : TableWriter
  /-- `aggr.GroupCols()` -/
  gnames : List Bytes
  /-- `aggr.DataCols()` -/
  dnames : List Bytes

/-- `termrenderers.NewTable(vt, colCount, rowCount)` -/
def Reduce.new (colCount rowCount : Int) (gnames dnames : List Bytes) : Res Reduce := do
  let t ← TableWriter.new colCount rowCount
  pure { table := t, gnames, dnames }

/-- the header row: group columns, then data columns -/
def Reduce.headerCells (env : Env) (r : Reduce) : List Bytes :=
  r.gnames.map (wrap env (cUnderline ++ cBrightYellow)) ++ r.dnames.map (wrap env (cUnderline ++ cBrightBlue))

/-- one data row: `rowBuf := make([]string, ColCount)`; the first `GroupColCount` parts of the key
(73473fc: a key with more parts no longer indexes past the buffer), then `copy(rowBuf[ng:], data)` -/
def Reduce.rowCells (env : Env) (r : Reduce) (key : Bytes) (data : List Bytes) : List Bytes :=
  let ng := r.gnames.length
  let nd := r.dnames.length
  let parts := (groupParts key).take ng
  parts.map (wrap env cBrightWhite) ++ List.replicate (ng - parts.length) [] ++
    (data.take nd ++ List.replicate (nd - data.length) [])

/-- the calls of one render callback: one row per group (sorted), then the two footers -/
def Reduce.script (env : Env) (r : Reduce) (groups : List (Bytes × List Bytes)) (f0 f1 : Bytes) : List TableOp :=
  groups.zipIdx.map (fun (gi : (Bytes × List Bytes) × Nat) => TableOp.row ((gi.2 : Int) + 1) (r.rowCells env gi.1.1 gi.1.2)) ++
    [TableOp.footer 0 f0, TableOp.footer 1 f1]

/-- "write header (will never shift)" -/
def Reduce.start (env : Env) (r : Reduce) (vt : VirtualTerm) : Res (Reduce × VirtualTerm) := do
  let (t, vt) ← TableWriter.runOps env (r.table, vt) [TableOp.row 0 (r.headerCells env)]
  pure ({ r with table := t }, vt)

def Reduce.render (env : Env) (r : Reduce) (vt : VirtualTerm) (groups : List (Bytes × List Bytes)) (f0 f1 : Bytes) :
    Res (Reduce × VirtualTerm) := do
  let (t, vt) ← TableWriter.runOps env (r.table, vt) (r.script env groups f0 f1)
  pure ({ r with table := t }, vt)

end Rare.C14
