import Rare.Model.C14
import Rare.Model.Expr.Std
/-!
# C14 model: `pkg/multiterm/termformat/expression.go`

`FromExpression(expr)` compiles `expr` with `funclib.NewKeyBuilder()` (optimiser on; a bare function
name `f` is expanded to `{f {0}}`) and returns a closure that evaluates the compiled key on the context
`formatExpressionContext{val, min, max}`.  The expression engine is the shared model of C08–C11
(`Rare/Model/Expr`); what this file adds is the context and the fact that the result is a FUNCTION of
(val, min, max) – the Go closure reuses one context object but overwrites all of it on every call.
-/
namespace Rare.C14
open Rare Rare.Expr

/-- `formatExpressionContext.GetMatch` / `GetKey` -/
def formatCtx (val mn mx : Int) : Ctx :=
  { getMatch := fun i => if i = 0 then itoa val else if i = 1 then itoa mn else if i = 2 then itoa mx else [],
    getKey := fun k =>
      if k = ascii "val" ∨ k = ascii "value" then itoa val
      else if k = ascii "min" then itoa mn
      else if k = ascii "max" then itoa mx
      else [] }

/-- what a formatter shows when the model of the expression predicts a Go panic (never for the safe
registries of C08; the driver turns a line containing it into the answer `panic`) -/
def fmtPanicMark : Bytes := ascii "\x00<PANIC>\x00"

/-- `expandCompileExpression(expr)` -/
def expandExpression (reg : Registry) (expr : List Char) : List Char :=
  if (reg expr).isSome then ['{'] ++ expr ++ [' ', '{', '0', '}', '}'] else expr

/-- the closure returned by `FromExpression`: evaluate the compiled stages on (val, min, max) -/
def exprFormat (stages : List Stage) (val mn mx : Int) : Bytes :=
  match (buildKey stages).run (formatCtx val mn mx) with
  | .ok b => b
  | .error _ => fmtPanicMark

/-- `FromExpression(expr)`: `.error` for a compile error (then rare refuses the `--format` flag), and the
list of compile diagnostics is returned for the driver (to tell `unmodelled` helpers apart) -/
def Fmt.ofExpression (reg : Registry) (expr : List Char) : Except String (Fmt × List CErr) :=
  match compile reg true (expandExpression reg expr) with
  | .error m => .error m
  | .ok (stages, errs) => .ok (.fn (exprFormat stages), errs)

end Rare.C14
