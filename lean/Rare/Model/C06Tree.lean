import Rare.Model.C06
import Rare.Model.C06Glob
/-!
The file-system oracle of `Rare.C06` (`FsOracle`: `isDir`, `walk`, `glob`) computed by the Lean model of
`path/filepath` over an abstract directory tree — what `dirwalk.GlobExpand` sees when the tree is the file
system — and helpers to build trees (used by the correspondence driver and by examples).
-/
namespace Rare.C06
open Rare.C06.Glob

/-- `filepath.Glob` as the oracle answer -/
def globRes (root : Node) (p : Path) : GlobRes :=
  match glob root p with
  | .badPattern => .badPattern
  | .ok l => .found l

/-- the file system `GlobExpand` runs on, given the tree -/
def treeFs (root : Node) : FsOracle where
  isDir p := Glob.isDir root p
  walk p := Glob.walk root (walkRoot p)
  glob p := globRes root p

namespace Glob

def Ents.remove (n : Name) : Ents → Ents
  | .nil => .nil
  | .cons m node rest => if m = n then rest.remove n else .cons m node (rest.remove n)

/-- create `node` at the physical path `cs` (`mkdir -p` for the parents; nothing happens when a parent
    exists and is not a directory, or the entry itself exists) -/
def Node.insert : Node → List Name → Node → Node
  | t, [], _ => t
  | .dir ents, [c], node =>
    match ents.find c with
    | some _ => .dir ents
    | none => .dir (.cons c node ents)
  | .dir ents, c :: c2 :: cs, node =>
    match ents.find c with
    | some (.dir sub) => .dir (.cons c (Node.insert (.dir sub) (c2 :: cs) node) (ents.remove c))
    | some _ => .dir ents
    | none => .dir (.cons c (Node.insert (.dir .nil) (c2 :: cs) node) ents)
  | t, _ :: _, _ => t

mutual
  /-- the targets of all symbolic links of a tree, each with the depth of the directory that holds the link -/
  def Node.linkTargets (depth : Nat) : Node → List (Nat × Bytes)
    | .file => []
    | .link t => [(depth, t)]
    | .dir e => e.linkTargets (depth + 1)
  def Ents.linkTargets (depth : Nat) : Ents → List (Nat × Bytes)
    | .nil => []
    | .cons _ n rest => n.linkTargets depth ++ rest.linkTargets depth
end

/-- Conservative test used by the correspondence driver only: may the look-up of `p` from a directory
    `depth` levels below the root apply `..` to the root?  (`none` = depth unknown but ≥ 1 after a name, because
    no link of a generated tree resolves to the root; `some k` = known.) -/
def mayEscape (depth : Nat) (p : Bytes) : Bool :=
  p.head? == some 47 ||
  ((comps p).foldl (fun (st : Option (Option Nat)) c =>
    match st with
    | none => none                                 -- escaped
    | some d =>
      if c = dot then some d
      else if c = dotdot then
        match d with
        | some 0 => none
        | some (k + 1) => some (some k)
        | none => some (some 0)                     -- was ≥ 1, now ≥ 0: treat as exactly at the root
      else some none) (some (some depth))).isNone

end Glob
end Rare.C06
