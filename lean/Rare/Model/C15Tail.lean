import Rare.Model.C04
import Rare.Model.C15Batch
/-!
# C15 — observation point (b): the batches of `batchers.TailFilesToChan`

    r, err := followreader.New(filename, reopen, poll)        -- Rare.Model.C15 (the two LTSs)
    if tail { r.Drain() }
    out.syncReaderToBatcherWithTimeFlush(filename, r, batchSize, AutoFlushTimeout)

`syncReaderToBatcherWithTimeFlush` wraps the follow reader into `readahead.NewImmediate`
(`Rare.C04.Imm`, the scanner of C04) and runs

    for readahead.Scan() {
        batch = append(batch, readahead.Bytes())
        if len(batch) >= batchSize || time.Since(lastBatchFlush) >= autoFlush { send; batch = make(…) }
    }
    if len(batch) > 0 { send }

(`Rare.C15.Batch`, the loop with the batch slice as a heap object).  This file composes them.

* The follow reader as the scanner sees it: the bytes it has delivered (`Rare.Follow.NSt.delivered` /
  `PSt.delivered` of a reachable state of the LTS – the composition is through that stream) cut into
  the pieces the individual `Read` calls returned.  That is exactly a scripted reader of `Rare.C04`:
  `⟨delivered, script⟩`, one `Step` per `Read` (`want` = how much that call was willing to return,
  `err` = a non-EOF error of `os.File.Read`); when the script is used up the rest is handed out and
  then `io.EOF` (the follow reader's `Read` returned EOF: plain follow after the removal, or the
  reader was closed).
* The flush timer is an oracle `timer : Nat → Bool`: `timer k` = "`time.Since(lastBatchFlush) >=
  autoFlush` held when line `k` (0-based) was appended".  Nothing else about time matters to the loop:
  there is no background timer, a line is only ever flushed by the arrival of a line or by EOF.
* A line in a batch is a `View` (slice header into the scanner's buffers `imm.arrays`); a batch slice is
  a `Batch.Slice` (header into the batch heap `b.heap`).  `readBatch` reads a sent batch through both.

`iter` is one trip round the `for`, `iterN k` the first `k` trips.  While the follow reader has not
ended, the loop is blocked inside `Scan()`: the state then is `iterN k` for `k` = number of complete
lines delivered so far (`live`), and `b.out` is what has been sent – the lines still in `b.cur` have
NOT been sent and will not be until another line arrives (there is no timer goroutine).
-/
namespace Rare.C15.Tail
open Rare.C04 Rare.C15.Batch

inductive Status
  | running   -- in the `for`
  | closed    -- `Scan()` returned false, the remainder was flushed, the channel gets closed
  | stuck     -- model artefact: `Scan()` ran out of fuel (never happens: `tail_terminates`)
  deriving DecidableEq, Repr

structure TSt where
  imm : Imm
  b : St View
  lines : Nat                      -- lines scanned so far (index into the timer oracle)
  status : Status
  -- ghost
  toks : List (View × Bytes)       -- every token `Scan()` handed out, with its bytes at that moment
  sentAt : List (List Bytes)       -- for each batch in `b.out`: its lines as read at the moment of the send

/-- A batch as the consumer reads it in state `s`: through the batch header and each line's header. -/
def TSt.readBatch (s : TSt) (sl : Slice) : List Bytes :=
  (readSlice s.b.heap sl).map (readView s.imm.arrays)

/-- Everything in the channel / with the consumer, as it reads in state `s`: (Source, BatchStart, lines). -/
def TSt.batches (s : TSt) : List (String × Nat × List Bytes) :=
  s.b.out.map fun b => (b.source, b.start, s.readBatch b.batch)

/-- The same as value-level batches `(lines, BatchStart)` of `Rare.Model.Batcher`. -/
def TSt.numbered (s : TSt) : List (Batcher.Batch Bytes) :=
  s.b.out.map fun b => ⟨s.readBatch b.batch, b.start⟩

/-- The lines appended to `batch` that have not been sent (yet). -/
def TSt.pending (s : TSt) : List Bytes := s.readBatch s.b.cur

def TSt.init (bufSize batchSize : Nat) (rd : Reader) : TSt :=
  { imm := Imm.init bufSize rd, b := St.init batchSize, lines := 0, status := .running, toks := [], sentAt := [] }

/-- Install the new scanner / batch state and record, for every batch sent by this trip, how it reads now. -/
def TSt.advance (s : TSt) (imm' : Imm) (b' : St View) (lines' : Nat) (st : Status)
    (toks' : List (View × Bytes)) : TSt :=
  let s' : TSt := { imm := imm', b := b', lines := lines', status := st, toks := toks', sentAt := s.sentAt }
  { s' with sentAt := s.sentAt ++ (b'.out.drop s.b.out.length).map fun x => s'.readBatch x.batch }

/-- One trip round `for readahead.Scan() { … }` (or, when `Scan()` answers false, the code after it). -/
def iter (source : String) (batchSize fuel : Nat) (timer : Nat → Bool) (s : TSt) : TSt :=
  match s.status with
  | .running =>
    match s.imm.scan fuel with
    | (.tok v bytes, imm') =>
      s.advance imm' (step source batchSize s.b (v, timer s.lines)) (s.lines + 1) .running (s.toks ++ [(v, bytes)])
    | (.done, imm') => s.advance imm' (finish source s.b) s.lines .closed s.toks
    | (.fuel, imm') => s.advance imm' s.b s.lines .stuck s.toks
  | _ => s

def iterN (source : String) (batchSize fuel : Nat) (timer : Nat → Bool) : Nat → TSt → TSt
  | 0, s => s
  | k + 1, s => iterN source batchSize fuel timer k (iter source batchSize fuel timer s)

/-- Enough fuel for every `Scan()` and enough trips for the whole stream (as `Rare.C04.Imm.run`). -/
def budget (data : Bytes) (script : List Step) : Nat := data.length + script.length + 3

/-- **tailToChan**: the state of the batcher goroutine of `TailFilesToChan` for one followed file after
    the follow reader has delivered `data` through `Read` calls shaped by `script` and has then
    reported EOF.  `(tailToChan …).batches` are the batches on the channel. -/
def tailToChan (source : String) (bufSize batchSize : Nat) (timer : Nat → Bool) (data : Bytes)
    (script : List Step) : TSt :=
  iterN source batchSize (budget data script) timer (budget data script) (TSt.init bufSize batchSize ⟨data, script⟩)

/-- The same goroutine after its first `k` trips (still in the loop if `k` ≤ the number of lines). -/
def tailAfter (source : String) (bufSize batchSize : Nat) (timer : Nat → Bool) (data : Bytes)
    (script : List Step) (k : Nat) : TSt :=
  iterN source batchSize (budget data script) timer k (TSt.init bufSize batchSize ⟨data, script⟩)

/-- Number of complete (newline-terminated) lines in a stream. -/
def completeLines (data : Bytes) : Nat := data.count nl

/-- The batcher goroutine while the follow reader is still following (blocked in `Read` after having
    delivered `data`): every complete line has been scanned, the unterminated rest is waiting in the
    scanner's buffer, the lines in `b.cur` are waiting for the next line to arrive. -/
def live (source : String) (bufSize batchSize : Nat) (timer : Nat → Bool) (data : Bytes)
    (script : List Step) : TSt :=
  tailAfter source bufSize batchSize timer data script (completeLines data)

end Rare.C15.Tail
