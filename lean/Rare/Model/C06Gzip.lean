import Rare.Base.Bytes
/-!
Model of the HEADER part of Go's `compress/gzip` reader (go1.23 `src/compress/gzip/gunzip.go`), which is
what decides whether `rare -z` treats a file as gzip or falls back to reading it as a plain file
(`openFileToReader`: `gzip.NewReader(file)` fails ⇒ "Gunzip error …; Reading as plain file" + `Seek(0)`).

Mirrored function by function:

* `crc32.Update` (IEEE polynomial, the bit-at-a-time definition)      → `crcUpdate`
* `io.ReadFull(z.r, buf[:n])` on what is left of the file             → `readFull`
* `(*Reader).readString` (NUL-terminated, at most 512 bytes with the NUL) → `readString`
* `(*Reader).readHeader`                                                → `readHeader`
* `noEOF`                                                               → `noEOF`

Kept as the code has it (RFC 1952 says otherwise for the first two):
* the reserved FLG bits 5‥7 and FTEXT are NOT looked at (RFC 1952 2.3.1.2: "reserved bits must be zero",
  a compliant decompressor must give an error) – a header with them set is accepted;
* XFL, OS and MTIME are not validated; the header CRC16, when FHCRC is set, is;
* a file name / comment longer than 511 bytes is `ErrHeader`, not truncated;
* an empty file is `io.EOF` ("zero members"), 1‥9 bytes are `io.ErrUnexpectedEOF`.

DEFLATE itself (and the trailer check) stays an oracle (`FileOracle.gzDecoded`, `gzFails`).
-/
namespace Rare.C06.Gz

/-! ## CRC-32 -/

/-- one byte into the (inverted) shift register, least significant bit first, polynomial 0xEDB88320 -/
def crcByte (crc : UInt32) (b : UInt8) : UInt32 :=
  (List.range 8).foldl (fun c _ => if c &&& 1 = 1 then (c >>> 1) ^^^ 0xEDB88320 else c >>> 1) (crc ^^^ b.toUInt32)

/-- `crc32.Update(crc, crc32.IEEETable, p)` -/
def crcUpdate (crc : UInt32) (p : Bytes) : UInt32 := ~~~ (p.foldl crcByte (~~~ crc))

/-! ## The header -/

/-- the errors `readHeader` can return -/
inductive HdrErr
  | eof             -- io.EOF: nothing at all could be read
  | unexpectedEOF   -- io.ErrUnexpectedEOF
  | header          -- gzip.ErrHeader
  deriving DecidableEq, Repr

/-- `noEOF` -/
def noEOF : HdrErr → HdrErr
  | .eof => .unexpectedEOF
  | e => e

def flagText : UInt8 := 1
def flagHdrCrc : UInt8 := 2
def flagExtra : UInt8 := 4
def flagName : UInt8 := 8
def flagComment : UInt8 := 16

/-- `io.ReadFull(z.r, buf[:n])` over the rest of the file: the `n` bytes and what follows, or `io.EOF`
    (nothing left and `n > 0`) / `io.ErrUnexpectedEOF` (fewer than `n` left) -/
def readFull (n : Nat) (s : Bytes) : Except HdrErr (Bytes × Bytes) :=
  if n ≤ s.length then .ok (s.take n, s.drop n)
  else if s = [] then .error .eof else .error .unexpectedEOF

/-- little-endian 16-bit value of the first two bytes -/
def le16 (p : Bytes) : Nat := (p.getD 0 0).toNat + 256 * (p.getD 1 0).toNat

/-- `readString`: `i` = bytes stored in `z.buf` so far (`acc`), answers the bytes read (NUL included) and the rest -/
def readString : Bytes → Nat → Bytes → Except HdrErr (Bytes × Bytes)
  | s, i, acc =>
    if i ≥ 512 then .error .header
    else match s with
      | [] => .error .eof                      -- `z.r.ReadByte()` at the end of the file
      | b :: rest => if b = 0 then .ok (acc ++ [b], rest) else readString rest (i + 1) (acc ++ [b])

/-- `if flg&flagExtra != 0 { … }`: the length, the data; answers the rest and the running digest -/
def stageExtra (flg : UInt8) (r : Bytes) (dg : UInt32) : Except HdrErr (Bytes × UInt32) :=
  if flg &&& flagExtra ≠ 0 then
    match readFull 2 r with
    | .error e => .error (noEOF e)
    | .ok (l, r1) =>
      match readFull (le16 l) r1 with
      | .error e => .error (noEOF e)
      | .ok (data, r2) => .ok (r2, crcUpdate (crcUpdate dg l) data)
  else .ok (r, dg)

/-- `if flg&flagName != 0 { … }` / `if flg&flagComment != 0 { … }` -/
def stageString (flg bit : UInt8) (r : Bytes) (dg : UInt32) : Except HdrErr (Bytes × UInt32) :=
  if flg &&& bit ≠ 0 then
    match readString r 0 [] with
    | .error e => .error (noEOF e)
    | .ok (str, r1) => .ok (r1, crcUpdate dg str)
  else .ok (r, dg)

/-- `if flg&flagHdrCrc != 0 { … }`: the low 16 bits of the CRC-32 of everything before -/
def stageCrc (flg : UInt8) (r : Bytes) (dg : UInt32) : Except HdrErr Bytes :=
  if flg &&& flagHdrCrc ≠ 0 then
    match readFull 2 r with
    | .error e => .error (noEOF e)
    | .ok (c, r1) => if le16 c ≠ dg.toNat % 65536 then .error .header else .ok r1
  else .ok r

/-- `readHeader` on a file with content `s`: the rest of the file after the header (where DEFLATE data starts) -/
def readHeaderRest (s : Bytes) : Except HdrErr Bytes :=
  match readFull 10 s with
  | .error e => .error e                                  -- io.EOF for an empty file is NOT converted
  | .ok (h, r0) =>
    if h.getD 0 0 ≠ 0x1f ∨ h.getD 1 0 ≠ 0x8b ∨ h.getD 2 0 ≠ 8 then .error .header
    else
      let flg := h.getD 3 0
      match stageExtra flg r0 (crcUpdate 0 h) with
      | .error e => .error e
      | .ok (r1, dg1) =>
        match stageString flg flagName r1 dg1 with
        | .error e => .error e
        | .ok (r2, dg2) =>
          match stageString flg flagComment r2 dg2 with
          | .error e => .error e
          | .ok (r3, dg3) => stageCrc flg r3 dg3

/-- Answer of `gzip.NewReader` as far as rare can see it: the offset at which the compressed data starts,
    or the error. -/
inductive HdrRes
  | ok (off : Nat)
  | err (e : HdrErr)
  deriving DecidableEq, Repr

def readHeader (s : Bytes) : HdrRes :=
  match readHeaderRest s with
  | .ok rest => .ok (s.length - rest.length)
  | .error e => .err e

/-- `gzip.NewReader(file)` returns no error -/
def headerOk (s : Bytes) : Bool :=
  match readHeader s with
  | .ok _ => true
  | .err _ => false

end Rare.C06.Gz
