import Rare.Model.C16
/-!
C16, the command side of `rare expression` (cmd/expressions.go) that a JSON view passes through before it
is printed, and rare's array convention (pkg/expressions/stage.go):

* `expressions.ArraySeparator` (`'\x00'`), `expressions.MakeArray`, `strings.Split(s, "\x00")`;
* `smartFormatResult`: a result that contains the separator is printed as `[a, b, …]`, any other result as it is;
* the whole "Emulate special keys" block: `expCtx.Keys` after the assignments (the emulated keys are assigned
  AFTER the `-k` pairs were put into the map, so `-k .=x` cannot replace a view).
-/
namespace Rare.C16

/-- `expressions.ArraySeparator` (hand copy; `Props` proves it equal to the constant in the source) -/
def arraySeparator : UInt8 := 0

/-- `strings.Split(s, string(sep))` for a one-byte separator -/
def splitSep (sep : UInt8) : Bytes → List Bytes
  | [] => [[]]
  | c :: r =>
    if c = sep then [] :: splitSep sep r
    else match splitSep sep r with
      | [] => [[c]]
      | h :: t => (c :: h) :: t

/-- `expressions.MakeArray(args...)`: `for i := 0; i < len(args); i++ { if i > 0 { sb.WriteRune(sep) }; sb.WriteString(args[i]) }` -/
def makeArrayGo : Nat → List Bytes → Bytes
  | _, [] => []
  | i, a :: r => (if 0 < i then [arraySeparator] else []) ++ a ++ makeArrayGo (i + 1) r

def makeArray (args : List Bytes) : Bytes := makeArrayGo 0 args

/-- the loop of `smartFormatResult`: `if idx > 0 { sb.WriteString(", ") }; sb.WriteString(val)` -/
def joinComma : Nat → List Bytes → Bytes
  | _, [] => []
  | idx, v :: r => (if 0 < idx then [0x2c, 0x20] else []) ++ v ++ joinComma (idx + 1) r

/-- `smartFormatResult(s)` -/
def smartFormatResult (s : Bytes) : Bytes :=
  if s.contains arraySeparator then [0x5b] ++ joinComma 0 (splitSep arraySeparator s) ++ [0x5d] else s

/-- `expCtx.Keys` of `rare expression -d data… -k kvs…` after the "Emulate special keys" block; `σ` = the entries
of the second `parseKeyValuesIntoMap(keyPairs...)` in the order `range` produced them (inside `buildSpecialKeyJson`). -/
def expressionKeys (data kvs : List Bytes) (σ : List (Bytes × Bytes)) : List (Bytes × Bytes) :=
  let m := parseKeyValuesIntoMap kvs
  let m := mapSet m [0x73, 0x72, 0x63] [0x3c, 0x61, 0x72, 0x67, 0x73, 0x3e]   -- "src" = "<args>"
  let m := mapSet m [0x6c, 0x69, 0x6e, 0x65] [0x30]                             -- "line" = "0"
  let m := mapSet m [0x2e] (buildSpecialKeyJson [] σ)                           -- "."
  let m := mapSet m [0x23] (buildSpecialKeyJson data [])                        -- "#"
  let m := mapSet m [0x2e, 0x23] (buildSpecialKeyJson data σ)                   -- ".#"
  let m := mapSet m [0x23, 0x2e] (mapGet [] m [0x2e, 0x23])                     -- "#." = Keys[".#"]
  mapSet m [0x40] (makeArray data)                                               -- "@"

/-- What urfave/cli (v2.11, `StringSliceFlag` with an alias) hands to rare for one `-d` / `-k` value that has no comma
and no white space at its ends: `normalizeFlags` copies the parsed slice from the flag name that was used to its
other names through `StringSlice.Serialize` = `encoding/json`, which replaces every ill-formed UTF-8 byte by
U+FFFD (`sanitize`, Spec/C16.lean) – before `expressionFunction` runs.  (A value with a comma is split there, white
space at the ends is trimmed; the correspondence generator avoids both.)  Third-party behaviour in front of the code
under study, for the `rare expression` helper command only; the views of real matches never pass through it. -/
def cliValue (s : Bytes) : Bytes := sanitize s

/-- what `rare expression '{<key>}'` prints for a key of the context: `BuildKey` of the one-stage expression is
the map entry, formatted unless `--raw`, followed by a line feed unless `-n` -/
def expressionPrints (raw skipNewline : Bool) (data kvs : List Bytes) (σ : List (Bytes × Bytes)) (key : Bytes) : Bytes :=
  let result := mapGet [] (expressionKeys data kvs σ) key
  (if raw then result else smartFormatResult result) ++ (if skipNewline then [] else [0x0a])

/-! ### the view as an aggregation key: what two matches must share to get the same text -/

/-- a capture up to what the view does not show: the letter case of the words `true` / `false` -/
def canonVal (v : Bytes) : Bytes :=
  if equalFoldLen v litTrue then litTrue else if equalFoldLen v litFalse then litFalse else v

/-- two matches of one extractor (same name table) show the same members: every named group (when the view has
them) and every numbered group (when it has them) captured the same text, up to `canonVal` -/
def sameShown (named numbered : Bool) (order : List (Bytes × Int)) (i1 : List Int) (l1 : Bytes) (i2 : List Int)
    (l2 : Bytes) : Bool :=
  (!named || order.all fun p => canonVal (capture i1 l1 p.2) == canonVal (capture i2 l2 p.2)) &&
  (!numbered || (List.range (i1.length / 2 + i2.length / 2)).all fun i =>
    canonVal (capture i1 l1 (i : Nat)) == canonVal (capture i2 l2 (i : Nat)))

end Rare.C16
