import Rare.Spec.C19
import Rare.Base.F64Str
/-!
Executable model of `pkg/expressions/stdmath` (tokenizer.go, parser.go, ops.go, simplify.go,
expression.go) as of the repaired code (`%` by zero and negative shift counts give NaN, a
dangling unary operator is a compile error).

Everything is generic in the arithmetic `A : Arith α` (float64 in the real code).  Instances:
`IEEE.arith L` / `IEEE.arithT` over the software binary64 model (`Model/C19F64.lean`: the instance of
the `*_f64` theorems and of the driver), the exact `ratArith` (`Proofs/C19Rat.lean`, examples), and
the native-`Float` instance of `Model/C19Float.lean` (driver-only cross-check).  Next to the compiled
expression (`Expr`, what Go builds, simplified) every function also returns the ghost parse tree
(`Tree`, never simplified, groups kept) that the specification talks about.
-/
namespace Rare.C19

/-! ### Operator tables (hand copy; `Props/C19.lean` proves them equal to `Gen/C19.lean`) -/

/-- `orderOfOps`: ^ | >> << | * / % | & | | + - | == <= >= > < | && || -/
def orderOfOps : List (List Bytes) :=
  [[[94]], [[62, 62], [60, 60]], [[42], [47], [37]], [[38], [124]], [[43], [45]],
   [[61, 61], [60, 61], [62, 61], [62], [60]], [[38, 38], [124, 124]]]

/-- keys of `ops`: % & && * + - / < << <= == > >= >> ^ | || -/
def opKeys : List Bytes :=
  [[37], [38], [38, 38], [42], [43], [45], [47], [60], [60, 60], [60, 61], [61, 61], [62], [62, 61],
   [62, 62], [94], [124], [124, 124]]

/-- keys of `uniOps`: ! - abs acos asin atan ceil cos exp exp2 floor log log10 log2 round sin sqrt tan -/
def uniKeys : List Bytes :=
  [[33], [45], [97, 98, 115], [97, 99, 111, 115], [97, 115, 105, 110], [97, 116, 97, 110],
   [99, 101, 105, 108], [99, 111, 115], [101, 120, 112], [101, 120, 112, 50], [102, 108, 111, 111, 114],
   [108, 111, 103], [108, 111, 103, 49, 48], [108, 111, 103, 50], [114, 111, 117, 110, 100],
   [115, 105, 110], [115, 113, 114, 116], [116, 97, 110]]

/-- `maxLen` in prefixInOps -/
def maxOpLen : Nat := 2

inductive Err
  | overclosed | unclosed | numeric            -- tokenizer / literal errors
  | unexpectedEnd | expectedExpr | unknownOp | expectedOp
  | panic (msg : String)                        -- the Go code would panic
  | fuel                                        -- model recursion budget exhausted (never, see Props)
  | unmodelled (why : String)                   -- literal spelling outside the modelled grammar
  deriving DecidableEq, Repr

/-! ### ops.go -/

/-- `opCodeOrder(op0, op1)`: -1 = op0 binds tighter, 0 = same set, 1 = op1 binds tighter;
    panics when neither operator is in the table. -/
def opCodeOrderGo : List (List Bytes) → Bytes → Bytes → Except Err Int
  | [], _, _ => .error (.panic "op not found")
  | set :: rest, op0, op1 =>
    let has0 := set.contains op0
    let has1 := set.contains op1
    if has0 && has1 then .ok 0
    else if has0 then .ok (-1)
    else if has1 then .ok 1
    else opCodeOrderGo rest op0 op1

def opCodeOrder (op0 op1 : Bytes) : Except Err Int := opCodeOrderGo orderOfOps op0 op1

/-- `prefixInOps(s)`: longest prefix of `s` (at most `maxLen` bytes) that is a binary operator. -/
def prefixInOps (s : Bytes) : Option Bytes :=
  let code := s.take maxOpLen
  let rec go : Nat → Option Bytes
    | 0 => none                      -- `code[:0]` is "", never a key
    | i + 1 => if opKeys.contains (code.take (i + 1)) then some (code.take (i + 1)) else go i
  go code.length

def hasUnaryOp (r : UInt8) : Bool := uniKeys.contains [r]

/-! ### tokenizer.go -/

structure TokSt where
  ret : List Token
  sb : Bytes
  parens : Nat
  skip : Nat          -- bytes of a multi-byte operator still to be stepped over (`i += len(opCode)-1`)

def lastIsOp (ret : List Token) : Bool :=
  match ret.getLast? with
  | some tk => tk.t == .op
  | none => false

/-- One iteration of the byte loop; `s` is `s[i:]` (head = current byte). -/
def tokStep (st : TokSt) (r : UInt8) (s : Bytes) : Except Err TokSt :=
  if st.skip > 0 then .ok { st with skip := st.skip - 1 }
  else if r = 40 && st.parens > 0 then
    .ok { st with sb := st.sb ++ [40], parens := st.parens + 1 }
  else if r = 40 && !st.sb.isEmpty then
    let t := if uniKeys.contains st.sb then TokT.mod else TokT.lit
    .ok { st with ret := st.ret ++ [⟨st.sb, t⟩], sb := [], parens := st.parens + 1 }
  else if r = 40 then .ok { st with parens := st.parens + 1 }
  else if r = 41 then
    if st.parens = 1 then .ok { st with ret := st.ret ++ [⟨st.sb, .group⟩], sb := [], parens := 0 }
    else if st.parens = 0 then .error .overclosed
    else .ok { st with sb := st.sb ++ [41], parens := st.parens - 1 }
  else if r = 32 then .ok st
  else if st.parens = 0 && st.sb.isEmpty && (st.ret.isEmpty || lastIsOp st.ret) && hasUnaryOp r then
    .ok { st with ret := st.ret ++ [⟨[r], .mod⟩] }
  else
    match (if st.parens = 0 then prefixInOps s else none) with
    | some opCode =>
      let ret := if st.sb.isEmpty then st.ret else st.ret ++ [⟨st.sb, .lit⟩]
      .ok { st with ret := ret ++ [⟨opCode, .op⟩], sb := [], skip := opCode.length - 1 }
    | none => .ok { st with sb := st.sb ++ [r] }

def tokLoop : Bytes → TokSt → Except Err TokSt
  | [], st => .ok st
  | r :: rest, st =>
    match tokStep st r (r :: rest) with
    | .error e => .error e
    | .ok st' => tokLoop rest st'

/-- `tokenizeExpr` -/
def tokenize (s : Bytes) : Except Err (List Token) :=
  match tokLoop s ⟨[], [], 0, 0⟩ with
  | .error e => .error e
  | .ok st =>
    if st.parens > 0 then .error .unclosed
    else .ok (if st.sb.isEmpty then st.ret else st.ret ++ [⟨st.sb, .lit⟩])

/-! ### Literals (`compileToken`, literal part) -/

/-- `isBoxed` -/
def isBoxed (s : Bytes) : Bool :=
  s.length ≥ 2 && s.head? == some 91 && s.getLast? == some 93

def isAlpha (b : UInt8) : Bool := (65 ≤ b && b ≤ 90) || (97 ≤ b && b ≤ 122)

/-- `validVariableName`: `(?i)^[a-z][a-z0-9]*$` -/
def validVariableName (s : Bytes) : Bool :=
  match s with
  | [] => false
  | c :: rest => isAlpha c && rest.all (fun b => isAlpha b || isDigitB b)

def lowerB (b : UInt8) : UInt8 := if 65 ≤ b && b ≤ 90 then b + 32 else b

def digitVal (b : UInt8) : Option Nat :=
  if 48 ≤ b && b ≤ 57 then some (b.toNat - 48)
  else if 97 ≤ lowerB b && lowerB b ≤ 122 then some ((lowerB b).toNat - 97 + 10)
  else none

def digitsBase (base : Nat) : Bytes → Nat → Option Nat
  | [], acc => some acc
  | b :: r, acc =>
    match digitVal b with
    | some d => if d < base then digitsBase base r (acc * base + d) else none
    | none => none

/-- `strconv.ParseInt(s, 0, 64)` for the spellings a literal token can have (no sign: `+`/`-`
    are operators) and no underscore; `parseIntU` adds the underscores. -/
def parseIntLit (s : Bytes) : Option Int :=
  match s with
  | [] => none
  | 48 :: rest =>
    let (base, ds) : Nat × Bytes :=
      match rest with
      | c :: r2 =>
        if s.length ≥ 3 && lowerB c = 98 then (2, r2)
        else if s.length ≥ 3 && lowerB c = 111 then (8, r2)
        else if s.length ≥ 3 && lowerB c = 120 then (16, r2)
        else (8, rest)
      | [] => (8, rest)
    match digitsBase base ds 0 with
    | some n => if n ≤ 9223372036854775807 then some (n : Int) else none
    | none => none
  | _ =>
    match digitsBase 10 s 0 with
    | some n => if n ≤ 9223372036854775807 then some (n : Int) else none
    | none => none

/-- The digit loop of `ParseUint` with `base0`: `c == '_'` is skipped. -/
def digitsBaseU (base : Nat) : Bytes → Nat → Option Nat
  | [], acc => some acc
  | b :: r, acc =>
    if b = 95 then digitsBaseU base r acc
    else match digitVal b with
    | some d => if d < base then digitsBaseU base r (acc * base + d) else none
    | none => none

/-- `strconv.ParseInt(s, 0, 64)` on a literal token, underscores included (`1_000`, `0x_ff`: with base
    argument 0 the digit loop skips `_`, and afterwards `underscoreOK(s)` must hold: underscores only
    between digits or between the base prefix and a digit).  Without an underscore this is `parseIntLit`. -/
def parseIntU (s : Bytes) : Option Int :=
  if s.contains 95 then
    match s with
    | [] => none
    | 48 :: rest =>
      let (base, ds) : Nat × Bytes :=
        match rest with
        | c :: r2 =>
          if s.length ≥ 3 && lowerB c = 98 then (2, r2)
          else if s.length ≥ 3 && lowerB c = 111 then (8, r2)
          else if s.length ≥ 3 && lowerB c = 120 then (16, r2)
          else (8, rest)
        | [] => (8, rest)
      match digitsBaseU base ds 0 with
      | some n => if F64.underscoreOK s && decide (n ≤ 9223372036854775807) then some (n : Int) else none
      | none => none
    | _ =>
      match digitsBaseU 10 s 0 with
      | some n => if F64.underscoreOK s && decide (n ≤ 9223372036854775807) then some (n : Int) else none
      | none => none
  else parseIntLit s

def spanDigits : Bytes → Bytes × Bytes
  | [] => ([], [])
  | b :: r => if isDigitB b then let (d, rest) := spanDigits r; (b :: d, rest) else ([], b :: r)

/-- Decimal floating literal `digits[.digits][(e|E)digits]` (at least one mantissa digit, no
    sign anywhere: `-`/`+` split tokens) as `(mantissa, decimal exponent)`. -/
def parseDecLit (s : Bytes) : Option (Nat × Int) :=
  let (ip, r1) := spanDigits s
  let (fp, r2) : Bytes × Bytes := match r1 with
    | 46 :: r => spanDigits r
    | _ => ([], r1)
  if ip.isEmpty && fp.isEmpty then none
  else
    let mant := digitsVal (ip ++ fp) 0
    match r2 with
    | [] => some (mant, -(fp.length : Int))
    | c :: r3 =>
      if lowerB c = 101 then
        let (ep, r4) := spanDigits r3
        if ep.isEmpty || !r4.isEmpty then none
        else some (mant, (digitsVal ep 0 : Int) - fp.length)
      else none

/-- A decimal-only reading of `strconv.ParseFloat(s, 64)` on a literal token (no sign can occur:
    `+`/`-` split tokens), for instances that bring their own conversion `ofDec m e` of the decimal
    `m·10^e` (`none` = out of range): `inf`, `infinity`, `nan` in any case, `digits[.digits][e digits]`;
    hexadecimal floats and underscores in a numeric spelling (`1_0.5`) are declared unmodelled.
    (The exact rational instance and the native-`Float` cross-check instance use it; the IEEE instance
    uses the modelled `F64.parseFloat` instead, which covers those spellings too.) -/
def decParse {α : Type} (ofDec : Nat → Int → Option α) (inf nan : α) (s : Bytes) : NumRes α :=
  let low := s.map lowerB
  match s with
  | [] => .notNum
  | c :: _ =>
    if (isDigitB c || c = 46) && s.contains 95 then .unmodelled "underscore"
    else if low = [105, 110, 102] || low = [105, 110, 102, 105, 110, 105, 116, 121] then .val inf
    else if low = [110, 97, 110] then .val nan
    else if low.take 2 = [48, 120] then
      if low.contains 112 then .unmodelled "hexfloat" else .notNum
    else match parseDecLit s with
    | some (m, e) =>
      match ofDec m e with
      | some v => .val v
      | none => .notNum         -- ParseFloat reports a range error; the token is rejected
    | none => .notNum

/-- `ParseInt(s, 0, 64)` then `ParseFloat(s, 64)` (`compileToken`, numeric literal). -/
def parseNum {α : Type} (A : Arith α) (s : Bytes) : NumRes α :=
  match s with
  | [] => .notNum
  | _ :: _ =>
    match parseIntU s with
    | some v => .val (A.ofInt v)
    | none => A.parseFloat s

/-- What a literal token denotes (`compileToken`, `typeLiteral` cases); the outer `Except`
    carries `ErrTokenizerNumeric` / unmodelled spellings. -/
def classifyE {α : Type} (A : Arith α) (v : Bytes) : Except Err (Atom α) :=
  if isBoxed v then
    let inner := (v.drop 1).dropLast
    match atoi inner with
    | some i => .ok (.idx i)
    | none => .ok (.named inner)
  else match parseNum A v with
    | .val x => .ok (.num x)
    | .unmodelled w => .error (.unmodelled w)
    | .notNum => if validVariableName v then .ok (.named v) else .error .numeric

def classify {α : Type} (A : Arith α) (v : Bytes) : Option (Atom α) :=
  match classifyE A v with
  | .ok a => some a
  | .error _ => none

/-! ### expression.go, simplify.go -/

inductive Expr (α : Type) where
  | val (v : α)
  | named (n : Bytes)
  | idx (i : Int)
  | un (m : Bytes) (e : Expr α)
  | bin (op : Bytes) (l r : Expr α)
  deriving DecidableEq

def Expr.ofAtom {α : Type} : Atom α → Expr α
  | .num v => .val v
  | .named n => .named n
  | .idx i => .idx i

def Expr.eval {α : Type} (A : Arith α) (b : Binding α) : Expr α → α
  | .val v => v
  | .named n => b.getKey n
  | .idx i => b.getMatch i
  | .un m e => A.un m (e.eval A b)
  | .bin op l r => A.bin op (l.eval A b) (r.eval A b)

/-- `expr.Eval(&simplifyContext{})`: every look-up answers 0 and is counted. -/
def Expr.probe {α : Type} (A : Arith α) : Expr α → α × Nat
  | .val v => (v, 0)
  | .named _ => (A.zero, 1)
  | .idx _ => (A.zero, 1)
  | .un m e => let (v, h) := e.probe A; (A.un m v, h)
  | .bin op l r =>
    let (v1, h1) := l.probe A
    let (v2, h2) := r.probe A
    (A.bin op v1 v2, h1 + h2)

/-- `simplify` -/
def simplify {α : Type} (A : Arith α) (e : Expr α) : Expr α :=
  let (v, hits) := e.probe A
  if hits = 0 then .val v else e

/-! ### ops.go: the operator functions over primitive arithmetic -/

/-- The primitive arithmetic the operator table is written in (float64 in Go). -/
structure Prim (α : Type) where
  zero : α
  nan : α
  inf : α
  ofInt : Int → α
  /-- `strconv.ParseFloat(s, 64)` on a literal token -/
  parseFloat : Bytes → NumRes α
  add : α → α → α
  sub : α → α → α
  mul : α → α → α
  div : α → α → α
  pow : α → α → α
  /-- `conditionalOp(l < r)` etc. -/
  ltF : α → α → α
  leF : α → α → α
  eqF : α → α → α
  andF : α → α → α
  orF : α → α → α
  /-- `float64(f(int64(l), int64(r)))`; NaN where `f` is undefined -/
  intBin : (Int → Int → Option Int) → α → α → α
  neg : α → α
  notF : α → α
  /-- `math.Abs`, `math.Sin`, … by name -/
  fn : Bytes → α → α

/-- two's complement view of an int64 -/
def toU64 (x : Int) : Nat := (x % 18446744073709551616).toNat

def modI (l r : Int) : Option Int := if r = 0 then none else some (Int.tmod l r)
def shlI (l n : Int) : Option Int :=
  if n < 0 then none else some (if n ≥ 64 then 0 else wrap64 (l * 2 ^ n.toNat))
def shrI (l n : Int) : Option Int :=
  if n < 0 then none else some (if n ≥ 64 then (if l < 0 then -1 else 0) else l / 2 ^ n.toNat)
def andI (l r : Int) : Option Int := some (wrap64 (Nat.land (toU64 l) (toU64 r)))
def orI (l r : Int) : Option Int := some (wrap64 (Nat.lor (toU64 l) (toU64 r)))

/-- `ops[code]` -/
def binOf {α : Type} (P : Prim α) (code : Bytes) (l r : α) : α :=
  if code = [43] then P.add l r
  else if code = [42] then P.mul l r
  else if code = [45] then P.sub l r
  else if code = [47] then P.div l r
  else if code = [94] then P.pow l r
  else if code = [37] then P.intBin modI l r
  else if code = [60, 60] then P.intBin shlI l r
  else if code = [62, 62] then P.intBin shrI l r
  else if code = [38] then P.intBin andI l r
  else if code = [124] then P.intBin orI l r
  else if code = [60] then P.ltF l r
  else if code = [60, 61] then P.leF l r
  else if code = [62] then P.ltF r l
  else if code = [62, 61] then P.leF r l
  else if code = [61, 61] then P.eqF l r
  else if code = [38, 38] then P.andF l r
  else if code = [124, 124] then P.orF l r
  else P.nan      -- not a key of `ops`: never built by the parser

/-- `uniOps[code]` -/
def unOf {α : Type} (P : Prim α) (code : Bytes) (x : α) : α :=
  if code = [45] then P.neg x
  else if code = [33] then P.notF x
  else P.fn code x

def arithOf {α : Type} (P : Prim α) : Arith α :=
  { zero := P.zero, ofInt := P.ofInt, parseFloat := P.parseFloat, inf := P.inf, nan := P.nan,
    bin := binOf P, un := unOf P }

/-! ### parser.go -/

/-- A compiled sub-formula: ghost parse tree and the Go expression. -/
abbrev Parsed (α : Type) := Tree × Expr α

/-- `getNextOp`: the operator code and whether popping it consumes the token (an implied
    multiplication before a group consumes nothing). -/
def getNextOp (tk : Token) : Except Err (Bytes × Bool) :=
  match tk.t with
  | .op => if opKeys.contains tk.val then .ok (tk.val, true) else .error .unknownOp
  | .group => .ok (starOp, false)
  | _ => .error .expectedOp

/-- `getNextExpr`; `cg` compiles the text of a group (`Compile(t.val)`). -/
def getNextExpr {α : Type} (A : Arith α) (cg : Bytes → Except Err (Parsed α)) :
    List Token → Except Err (Parsed α × List Token)
  | [] => .error .unexpectedEnd
  | tk :: rest =>
    match tk.t with
    | .lit =>
      match classifyE A tk.val with
      | .ok a => .ok ((.lit tk.val, Expr.ofAtom a), rest)
      | .error e => .error e
    | .group =>
      match cg tk.val with
      | .ok (t, e) => .ok ((.grp tk.val t, e), rest)
      | .error e => .error e
    | .mod =>
      match getNextExpr A cg rest with
      | .ok ((t, e), rest') => .ok ((.un tk.val t, .un tk.val e), rest')
      | .error e => .error e
    | .op => .error .expectedExpr

/-- The `for !s.done()` loop of `compileTokens(lastOpCode)` with `ret` already parsed; the
    recursive `compileTokens(opCode)` call is inlined (`getNextExpr` followed by the loop). -/
def climb {α : Type} (A : Arith α) (cg : Bytes → Except Err (Parsed α)) :
    Nat → Bytes → Parsed α → List Token → Except Err (Parsed α × List Token)
  | 0, _, _, _ => .error .fuel
  | _ + 1, _, ret, [] => .ok ((ret.1, simplify A ret.2), [])
  | f + 1, last, ret, tk :: rest =>
    match getNextOp tk with
    | .error e => .error e
    | .ok (opCode, consumes) =>
      match opCodeOrder last opCode with
      | .error e => .error e
      | .ok ord =>
        if ord = 1 then
          let toks := if consumes then rest else tk :: rest
          match getNextExpr A cg toks with          -- compileTokens(opCode): first operand …
          | .error e => .error e
          | .ok (first, toks') =>
            match climb A cg f opCode first toks' with   -- … and its loop
            | .error e => .error e
            | .ok (rhs, toks'') =>
              climb A cg f last
                (.bin (!consumes) opCode ret.1 rhs.1, .bin opCode (simplify A ret.2) (simplify A rhs.2)) toks''
        else .ok (ret, tk :: rest)

/-- `scanner.compileTokens("")` on a fresh token list. -/
def compileTokens {α : Type} (A : Arith α) (cg : Bytes → Except Err (Parsed α)) (toks : List Token) :
    Except Err (Parsed α) :=
  match getNextExpr A cg toks with
  | .error e => .error e
  | .ok (first, rest) =>
    match climb A cg (rest.length + 1) [] first rest with
    | .error e => .error e
    | .ok (r, _) => .ok r

/-- `Compile(expr)`, with fuel for the recursion through groups. -/
def compileF {α : Type} (A : Arith α) : Nat → Bytes → Except Err (Parsed α)
  | 0, _ => .error .fuel
  | f + 1, s =>
    match tokenize s with
    | .error e => .error e
    | .ok toks => compileTokens A (compileF A f) toks

/-- A group is strictly shorter than the text around it, so this fuel always suffices. -/
def compile {α : Type} (A : Arith α) (s : Bytes) : Except Err (Parsed α) := compileF A (s.length + 1) s

end Rare.C19
