import Rare.Model.C12
/-!
What Go really runs behind `strings.Index` / `bytes.Index` (go1.23 `internal/stringslite.Index`,
`internal/bytealg.IndexRabinKarp`, `HashStr`), mirrored branch by branch, so that the "by contract"
`stringsIndex` of `Model/C12.lean` is a THEOREM about an executable search (`Props/C12.lean`
`go_index_eq_contract`) and not an assumption:

* the `switch`: `n == 0` → 0, `n == 1` → `IndexByte`, `n == len(s)` → equality, `n > len(s)` → -1;
* the portable search loop (the code after the `switch`; on amd64 the arm `n <= bytealg.MaxLen`
  runs the same loop with the assembly routine `bytealg.IndexString` as its fall-back, which stays
  an oracle): skip to the next `c0` with `IndexByte(s[i+1:t], c0)`, test `s[i+1] == c1 &&
  s[i:i+n] == substr`, count `fails`, and after `fails >= 4+i>>4` hand the rest to Rabin–Karp;
* `IndexRabinKarp` with its `uint32` rolling hash (`h*PrimeRK + s[i] - pow*s[i-n]`, wrap-around
  arithmetic) and the square-and-multiply loop of `HashStr` for `pow`.

Index expressions that would panic in Go (`s[i]`, `s[i+1]`) answer `-3`, running out of fuel `-2`;
the theorems show neither happens.  Also `lowerASCII` of `case.go` (a `for i := range b` loop).
-/
namespace Rare.C12

/-- `strings.IndexByte(s, c)` (assembly in Go; the obvious scan) -/
def goIndexByte : Bytes → UInt8 → Int
  | [], _ => -1
  | x :: xs, c =>
    if x = c then 0
    else
      let r := goIndexByte xs c
      if r < 0 then -1 else r + 1

/-- `s[i:i+n] == substr` -/
def windowEq (s : Bytes) (i : Nat) (sub : Bytes) : Bool := (s.drop i).take sub.length == sub

def primeRK : UInt32 := 16777619

/-- first loop of `HashStr` (also the first loop of `IndexRabinKarp`): `hash = hash*PrimeRK + sep[i]` -/
def hashBytes (l : Bytes) : UInt32 := l.foldl (fun h c => h * primeRK + c.toUInt32) 0

/-- second loop of `HashStr`: `for i := len(sep); i > 0; i >>= 1 { if i&1 != 0 { pow *= sq }; sq *= sq }` -/
def powLoop : Nat → Nat → UInt32 → UInt32 → UInt32
  | 0, _, pow, _ => pow
  | fuel + 1, i, pow, sq =>
    if i > 0 then powLoop fuel (i >>> 1) (if i &&& 1 ≠ 0 then pow * sq else pow) (sq * sq)
    else pow

def hashPow (n : Nat) : UInt32 := powLoop (n + 1) n 1 primeRK

/-- main loop of `IndexRabinKarp`: `old` = `s[i-n:]`, `new` = `s[i:]`, `k` = `i - n` -/
def rkLoop (sub : Bytes) (hashss pow : UInt32) : Bytes → Bytes → UInt32 → Nat → Int
  | o :: old, c :: new, h, k =>
    let h := h * primeRK
    let h := h + c.toUInt32
    let h := h - pow * o.toUInt32
    if h == hashss && old.take sub.length == sub then ((k + 1 : Nat) : Int)
    else rkLoop sub hashss pow old new h (k + 1)
  | _, _, _, _ => -1

/-- `bytealg.IndexRabinKarp(s, sep)`; Go requires `len(s) >= len(sep)` (else `s[i]` panics: `-3`) -/
def indexRabinKarp (s sub : Bytes) : Int :=
  let n := sub.length
  if s.length < n then -3
  else
    let hashss := hashBytes sub
    let pow := hashPow n
    let h := hashBytes (s.take n)
    if h == hashss && s.take n == sub then 0
    else rkLoop sub hashss pow s (s.drop n) h 0

/-- the `for i < t { … }` loop after the `switch` of `stringslite.Index` -/
def goIndexLoop (fb : Bytes → Bytes → Int) (s sub : Bytes) (c0 c1 : UInt8) (t : Nat) : Nat → Nat → Nat → Int
  | 0, _, _ => -2
  | fuel + 1, i, fails =>
    if ¬ i < t then -1
    else
      match s[i]? with
      | none => -3
      | some si =>
        -- if s[i] != c0 { o := IndexByte(s[i+1:t], c0); if o < 0 { return -1 }; i += o + 1 }
        let i' : Option Nat :=
          if si ≠ c0 then
            let o := goIndexByte ((s.take t).drop (i + 1)) c0
            if o < 0 then none else some (i + (o.toNat + 1))
          else some i
        match i' with
        | none => -1
        | some i =>
          match s[i + 1]? with
          | none => -3
          | some s1 =>
            if s1 = c1 ∧ windowEq s i sub = true then (i : Int)
            else
              let i := i + 1
              let fails := fails + 1
              if fails ≥ 4 + i >>> 4 ∧ i < t then
                let j := fb (s.drop i) sub
                if j < 0 then -1 else (i : Int) + j
              else goIndexLoop fb s sub c0 c1 t fuel i fails

/-- `stringslite.Index(s, substr)` with `fb` as the fall-back search of the last arm -/
def goIndexWith (fb : Bytes → Bytes → Int) (s sub : Bytes) : Int :=
  match sub with
  | [] => 0                                   -- case n == 0
  | [c] => goIndexByte s c                    -- case n == 1
  | c0 :: c1 :: rest =>
    let n := rest.length + 2
    if n = s.length then (if (c0 :: c1 :: rest) = s then 0 else -1)   -- case n == len(s)
    else if n > s.length then -1                                    -- case n > len(s)
    else goIndexLoop fb s (c0 :: c1 :: rest) c0 c1 (s.length - n + 1) (s.length + 1) 0 0

/-- `strings.Index` = `bytes.Index` on the portable path: fall-back `IndexRabinKarp` -/
def goIndex (s sub : Bytes) : Int := goIndexWith indexRabinKarp s sub

/-! ### `stringslite.Index` as compiled for amd64 (what this platform runs)

On amd64 `bytealg.MaxLen` is 63 (AVX2) or 31, `bytealg.MaxBruteForce` is 64 and `bytealg.Cutover(n)` is
`(n + 16) / 8`.  For needles of `2 ≤ n ≤ MaxLen` bytes – practically every dissect literal – the
`switch` takes the arm `case n <= bytealg.MaxLen`: a hay of at most 64 bytes goes straight to the
assembly routine `bytealg.IndexString`, a longer one through an `IndexByte`-skip loop that hands the
rest to `IndexString` once `fails > Cutover(i)` (WITHOUT testing `i < t` first: the routine may be
given a rest that is one byte shorter than the needle).  The assembly routine is the parameter `asm`
(an oracle with the documented contract "index of the first instance, -1 if not present, requires
`2 <= len(b) <= MaxLen`"); everything around it is mirrored. -/

/-- `bytealg.Cutover(n)` of index_amd64.go -/
def cutoverAmd64 (n : Nat) : Nat := (n + 16) / 8

/-- `bytealg.MaxBruteForce` of index_amd64.go -/
def maxBruteForce : Nat := 64

/-- the `for i < t { … }` loop of the arm `case n <= bytealg.MaxLen` -/
def goIndexLoopAsm (asm : Bytes → Bytes → Int) (s sub : Bytes) (c0 c1 : UInt8) (t : Nat) : Nat → Nat → Nat → Int
  | 0, _, _ => -2
  | fuel + 1, i, fails =>
    if ¬ i < t then -1
    else
      match s[i]? with
      | none => -3
      | some si =>
        let i' : Option Nat :=
          if si ≠ c0 then
            let o := goIndexByte ((s.take t).drop (i + 1)) c0
            if o < 0 then none else some (i + (o.toNat + 1))
          else some i
        match i' with
        | none => -1
        | some i =>
          match s[i + 1]? with
          | none => -3
          | some s1 =>
            if s1 = c1 ∧ windowEq s i sub = true then (i : Int)
            else
              let fails := fails + 1
              let i := i + 1
              -- if fails > bytealg.Cutover(i) { r := bytealg.IndexString(s[i:], substr); … }
              if fails > cutoverAmd64 i then
                let r := asm (s.drop i) sub
                if r ≥ 0 then r + (i : Int) else -1
              else goIndexLoopAsm asm s sub c0 c1 t fuel i fails

/-- `stringslite.Index(s, substr)` on amd64: `maxLen` = `bytealg.MaxLen`, `asm` = `bytealg.IndexString` -/
def goIndexAmd64 (maxLen : Nat) (asm : Bytes → Bytes → Int) (s sub : Bytes) : Int :=
  match sub with
  | [] => 0                                   -- case n == 0
  | [c] => goIndexByte s c                    -- case n == 1
  | c0 :: c1 :: rest =>
    let n := rest.length + 2
    if n = s.length then (if (c0 :: c1 :: rest) = s then 0 else -1)   -- case n == len(s)
    else if n > s.length then -1                                    -- case n > len(s)
    else if n ≤ maxLen then                                         -- case n <= bytealg.MaxLen
      if s.length ≤ maxBruteForce then asm s (c0 :: c1 :: rest)
      else goIndexLoopAsm asm s (c0 :: c1 :: rest) c0 c1 (s.length - n + 1) (s.length + 1) 0 0
    else goIndexLoop indexRabinKarp s (c0 :: c1 :: rest) c0 c1 (s.length - n + 1) (s.length + 1) 0 0

/-- `lowerASCII(s)`: `b := []byte(s); for i := range b { b[i] = lowerByte(b[i]) }` -/
def lowerASCIILoop : Bytes → Nat → Nat → Bytes
  | b, _, 0 => b
  | b, i, fuel + 1 =>
    match b[i]? with
    | none => b
    | some c => lowerASCIILoop (b.set i (lowerByte c)) (i + 1) fuel

def lowerASCII (s : Bytes) : Bytes := lowerASCIILoop s 0 s.length

/-- Two instances of ONE compiled pattern (two extractor workers), their calls interleaved by a
schedule: `true` = the call goes to the first instance.  The `Dissect` is shared, each instance
has its own pool (`CreateInstance`). -/
def runTwo : Instance → Instance → List (Bool × Bytes) →
    Except String (List (Bool × Option View) × Instance × Instance)
  | a, b, [] => .ok ([], a, b)
  | a, b, (w, l) :: rest =>
    if w then
      match findSubmatchIndex a l with
      | .error e => .error e
      | .ok (r, a') =>
        match runTwo a' b rest with
        | .error e => .error e
        | .ok (rs, a'', b'') => .ok ((true, r) :: rs, a'', b'')
    else
      match findSubmatchIndex b l with
      | .error e => .error e
      | .ok (r, b') =>
        match runTwo a b' rest with
        | .error e => .error e
        | .ok (rs, a'', b'') => .ok ((false, r) :: rs, a'', b'')

/-- `Compile(expr)` = `CompileEx(expr, false)` -/
def compile (expr : Bytes) : Except CErr Dissect := compileEx expr false

/-- `MustCompile(expr)`: `panic(err)` when `Compile` fails -/
def mustCompile (expr : Bytes) : Except String Dissect :=
  match compile expr with
  | .error _ => .error "panic"
  | .ok d => .ok d

end Rare.C12
