import Rare.Spec.C07
/-!
Executable model of `pkg/stringSplitter/splitter.go` and of the aggregators in
`pkg/aggregation/{counter,countersubkey,table,numerical}.go` (as of the `fix:` commits
764f328 splitter advance, f6f463b / 907408d Table.Trim, c2042cd ComputeMinMax, 561f90b Quantile).

Go maps are association lists in insertion order (`aget`/`aset`/`adel`); wherever the Go code
*ranges* over a map the model takes the iteration order as an explicit argument, and the
theorems quantify over it.  `int64` arithmetic is `wrap64` after every `+`/`-`.
`AccumulatingGroup` (accumulator.go) is modelled in `Model/C07Acc.lean` (it needs the expression evaluator),
the counted / sorted accessors in `Model/C07Sorted.lean`.
-/
namespace Rare.C07

/-! ### association lists standing for Go maps -/

def aget {α : Type} : List (Bytes × α) → Bytes → Option α
  | [], _ => none
  | (k', v) :: m, k => if k' = k then some v else aget m k

/-- `m[k] = v`: replace the entry or append a new one. -/
def aset {α : Type} : List (Bytes × α) → Bytes → α → List (Bytes × α)
  | [], k, v => [(k, v)]
  | (k', v') :: m, k, v => if k' = k then (k, v) :: m else (k', v') :: aset m k v

/-- `delete(m, k)`. -/
def adel {α : Type} : List (Bytes × α) → Bytes → List (Bytes × α)
  | [], _ => []
  | (k', v') :: m, k => if k' = k then adel m k else (k', v') :: adel m k

def akeys {α : Type} (m : List (Bytes × α)) : List Bytes := m.map (·.1)

/-! ### stringSplitter.Splitter -/

/-- `strings.Index(s, d)`. -/
def indexOf (d : Bytes) : Bytes → Option Nat
  | [] => if d = [] then some 0 else none
  | b :: r => if d.isPrefixOf (b :: r) then some 0 else (indexOf d r).map (· + 1)

structure Splitter where
  S : Bytes
  delim : Bytes
  next : Int := 0
  deriving Repr

def Splitter.done (s : Splitter) : Bool := s.next < 0

/-- `Next()`: the text up to the next delimiter; afterwards `next` is just past the delimiter, or -1. -/
def Splitter.next' (s : Splitter) : Bytes × Splitter :=
  if s.next < 0 then ([], s)
  else
    let rest := s.S.drop s.next.toNat
    match indexOf s.delim rest with
    | none => (rest, { s with next := -1 })
    | some i =>
      let idx : Int := i + s.next
      ((s.S.take idx.toNat).drop s.next.toNat, { s with next := idx + s.delim.length })

/-- `NextOk()`. -/
def Splitter.nextOk (s : Splitter) : Bytes × Bool × Splitter :=
  let ok := !s.done
  let (r, s') := s.next'
  (r, ok, s')

/-! ### MatchCounter (counter.go) -/

structure Counter where
  items : List (Bytes × Int) := []
  errors : Nat := 0
  total : Int := 0
  deriving Repr

def Counter.sampleValue (s : Counter) (element : Bytes) (count : Int) : Counter :=
  let item := (aget s.items element).getD 0
  { s with items := aset s.items element (wrap64 (item + count)), total := wrap64 (s.total + count) }

def Counter.sample (s : Counter) (element : Bytes) : Counter :=
  let sp : Splitter := { S := element, delim := nul }
  let (key, sp) := sp.next'
  let (val, hasVal, _) := sp.nextOk
  if hasVal then
    match atoi val with
    | none => { s with errors := s.errors + 1 }
    | some n => s.sampleValue key n
  else s.sampleValue key 1

def Counter.run (h : List Bytes) : Counter := h.foldl Counter.sample {}

/-! ### SubKeyCounter (countersubkey.go) -/

structure SubItem where
  count : Int
  submatches : List Int
  deriving Repr

structure SubKeyCounter where
  items : List (Bytes × SubItem) := []
  subKeys : List Bytes := []
  subKeyIdx : List (Bytes × Nat) := []
  errors : Nat := 0
  deriving Repr

/-- `insertAt` / `insertAti64`: `append`, shift right by one from `idx`, store. -/
def insertAt {α : Type} (l : List α) (idx : Nat) (x : α) : List α := l.take idx ++ x :: l.drop idx

/-- `insertAlphanumeric`: before the first element greater than `ele`, else at the end. -/
def insertAlphanumeric : List Bytes → Bytes → List Bytes × Nat
  | [], ele => ([ele], 0)
  | v :: r, ele =>
    if bLt ele v then (ele :: v :: r, 0)
    else let (l, i) := insertAlphanumeric r ele; (v :: l, i + 1)

/-- The loop `for i, name := range s.subKeys { s.subKeyIdx[name] = i }`. -/
def regenIdx (m : List (Bytes × Nat)) (keys : List Bytes) (start : Nat) : List (Bytes × Nat) :=
  match keys with
  | [] => m
  | k :: r => regenIdx (aset m k start) r (start + 1)

def SubKeyCounter.getOrCreateKeyItem (s : SubKeyCounter) (key : Bytes) : SubKeyCounter :=
  match aget s.items key with
  | some _ => s
  | none => { s with items := aset s.items key ⟨0, List.replicate s.subKeys.length 0⟩ }

def SubKeyCounter.getOrCreateSubkeyIndex (s : SubKeyCounter) (subkey : Bytes) : SubKeyCounter × Nat :=
  match aget s.subKeyIdx subkey with
  | some idx => (s, idx)
  | none =>
    let (keys, idx) := insertAlphanumeric s.subKeys subkey
    ({ s with subKeys := keys,
              subKeyIdx := regenIdx s.subKeyIdx keys 0,
              items := s.items.map fun (k, it) => (k, { it with submatches := insertAt it.submatches idx 0 }) },
     idx)

/-- `SampleValue`; `item.submatches[subKeyIndex] += count` panics when the index is out of range. -/
def SubKeyCounter.sampleValue (s : SubKeyCounter) (key subkey : Bytes) (count : Int) : Except String SubKeyCounter :=
  let s := s.getOrCreateKeyItem key
  let s := match aget s.items key with
    | some it => { s with items := aset s.items key { it with count := wrap64 (it.count + count) } }
    | none => s
  let (s, idx) := s.getOrCreateSubkeyIndex subkey
  match aget s.items key with
  | none => .error "nil item"
  | some it =>
    match it.submatches[idx]? with
    | none => .error "index out of range"
    | some v => .ok { s with items := aset s.items key { it with submatches := it.submatches.set idx (wrap64 (v + count)) } }

def SubKeyCounter.sample (s : SubKeyCounter) (element : Bytes) : Except String SubKeyCounter :=
  let sp : Splitter := { S := element, delim := nul }
  let (key, sp) := sp.next'
  let (subkey, sp) := sp.next'
  let (sVal, hasVal, _) := sp.nextOk
  if hasVal then
    match atoi sVal with
    | none => .ok { s with errors := s.errors + 1 }
    | some n => s.sampleValue key subkey n
  else s.sampleValue key subkey 1

def SubKeyCounter.run (h : List Bytes) : Except String SubKeyCounter :=
  h.foldlM SubKeyCounter.sample {}

/-! ### TableAggregator (table.go) -/

structure TableRow where
  cols : List (Bytes × Int) := []
  name : Bytes
  sum : Int := 0
  deriving Repr

structure Table where
  delim : Bytes
  errors : Nat := 0
  rows : List (Bytes × TableRow) := []
  cols : List (Bytes × Int) := []
  deriving Repr

def Table.sampleItem (s : Table) (colKey rowKey : Bytes) (inc : Int) : Table :=
  let cols := aset s.cols colKey (wrap64 ((aget s.cols colKey).getD 0 + inc))
  let row := (aget s.rows rowKey).getD { name := rowKey }
  let row := { row with cols := aset row.cols colKey (wrap64 ((aget row.cols colKey).getD 0 + inc)),
                        sum := wrap64 (row.sum + inc) }
  { s with cols := cols, rows := aset s.rows rowKey row }

def Table.sample (s : Table) (ele : Bytes) : Table :=
  let sp : Splitter := { S := ele, delim := s.delim }
  let (part0, sp) := sp.next'
  let (part1, has1, sp) := sp.nextOk
  let (part2, has2, _) := sp.nextOk
  if has2 then
    match atoi part2 with
    | none => { s with errors := s.errors + 1 }
    | some inc => s.sampleItem part0 part1 inc
  else if has1 then s.sampleItem part0 part1 1
  else s.sampleItem part0 [] 1

def Table.run (d : Bytes) (h : List Bytes) : Table := h.foldl Table.sample { delim := d }

def Table.colTotal (s : Table) (k : Bytes) : Int := (aget s.cols k).getD 0

/-- `Sum()`: `ret += v` over the column totals. -/
def Table.sum (s : Table) : Int := s.cols.foldl (fun acc kv => wrap64 (acc + kv.2)) 0

def TableRow.value (r : TableRow) (c : Bytes) : Int := (aget r.cols c).getD 0

/-- `ComputeMinMax`, ranging over the rows in order `rs` and, per row, over the column keys in order `cs`. -/
def Table.computeMinMaxWith (rs : List TableRow) (cs : List Bytes) : Int × Int :=
  if rs.length = 0 ∨ cs.length = 0 then (0, 0)
  else
    rs.foldl (fun acc r =>
      cs.foldl (fun (acc : Int × Int) c =>
        let val := r.value c
        let mn := if val < acc.1 then val else acc.1
        let mx := if val > acc.2 then val else acc.2
        (mn, mx)) acc) (maxInt64, minInt64)

def Table.computeMinMax (s : Table) : Int × Int :=
  Table.computeMinMaxWith (s.rows.map (·.2)) (akeys s.cols)

/-- State of one `Trim` call: table, number trimmed. -/
abbrev Pred := Bytes → Bytes → Int → Bool

/-- Body of the inner loop of `Trim` for column `c` and the row named `rn`.  A row deleted earlier in
this call is no longer produced by Go's `range`, so it is skipped. -/
def Table.trimCell (p : Pred) (c : Bytes) (st : Table × Nat × Bool) (rn : Bytes) : Table × Nat × Bool :=
  let (t, n, removeAll) := st
  match aget t.rows rn with
  | none => st
  | some row =>
    let (row, tcols, n, removeAll) :=
      match aget row.cols c with
      | some val =>
        if p c rn val then
          ({ row with cols := adel row.cols c, sum := wrap64 (row.sum - val) },
           aset t.cols c (wrap64 ((aget t.cols c).getD 0 - val)), n + 1, removeAll)
        else (row, t.cols, n, false)
      | none => (row, t.cols, n, removeAll)
    let rows := if row.cols.length = 0 then adel t.rows rn else aset t.rows rn row
    ({ t with rows := rows, cols := tcols }, n, removeAll)

/-- Body of the outer loop of `Trim`: `rowOrder` is the order in which `range s.rows` yields the row names. -/
def Table.trimCol (p : Pred) (rowOrder : List Bytes) (st : Table × Nat) (c : Bytes) : Table × Nat :=
  match aget st.1.cols c with
  | none => st
  | some _ =>
    let (t, n, removeAll) := rowOrder.foldl (Table.trimCell p c) (st.1, st.2, true)
    (if removeAll then { t with cols := adel t.cols c } else t, n)

/-- `Trim(predicate)`; `colOrder` / `rowOrder c` are the map iteration orders. -/
def Table.trim (t : Table) (p : Pred) (colOrder : List Bytes) (rowOrder : Bytes → List Bytes) : Table × Nat :=
  colOrder.foldl (fun st c => Table.trimCol p (rowOrder c) st c) (t, 0)

/-! ### MatchNumerical (numerical.go), polymorphic in the number type
(`Rat` in the theorems, `Float` in the correspondence driver). -/

structure NumOps (α : Type) where
  add : α → α → α
  sub : α → α → α
  mul : α → α → α
  div : α → α → α
  ofNat : Nat → α
  lt : α → α → Bool
  zero : α
  maxVal : α
  negMaxVal : α

structure Numerical (α : Type) where
  samples : Nat
  mean : α
  variance : α
  min : α
  max : α
  parseErrors : Nat := 0
  values : List α := []

def Numerical.new {α : Type} (o : NumOps α) : Numerical α :=
  { samples := 0, mean := o.zero, variance := o.zero, min := o.maxVal, max := o.negMaxVal }

/-- `Samplef` (Welford's recurrence). -/
def Numerical.samplef {α : Type} (o : NumOps α) (keep : Bool) (s : Numerical α) (val : α) : Numerical α :=
  let samples := s.samples + 1
  let oldMean := s.mean
  let mean := o.add s.mean (o.div (o.sub val oldMean) (o.ofNat samples))
  let variance := o.add s.variance (o.mul (o.sub val oldMean) (o.sub val mean))
  { s with samples := samples, mean := mean, variance := variance,
           values := if keep then s.values ++ [val] else s.values,
           min := if o.lt val s.min then val else s.min,
           max := if o.lt s.max val then val else s.max }

/-- `Variance()`. -/
def Numerical.varianceOf {α : Type} (o : NumOps α) (s : Numerical α) : α :=
  if s.samples > 1 then o.div s.variance (o.ofNat (s.samples - 1)) else o.zero

/-- `Analyze()`: sort ascending, or descending when `Reverse`. -/
def analyze {α : Type} (o : NumOps α) (rev : Bool) (values : List α) : List α :=
  if rev then values.mergeSort (fun a b => !o.lt a b) else values.mergeSort (fun a b => !o.lt b a)

/-- `Median()`. -/
def median {α : Type} (zero : α) (ordered : List α) : α :=
  if ordered.length = 0 then zero else ordered[ordered.length / 2]?.getD zero

/-- `Quantile(p)` after `idx := int(float64(len) * p)` (`idx` supplied by the caller), with the clamping. -/
def quantileAt {α : Type} (zero : α) (ordered : List α) (idx : Int) : Except String α :=
  if ordered.length = 0 then .ok zero
  else
    let idx := if idx ≥ ordered.length then (ordered.length : Int) - 1 else idx
    let idx := if idx < 0 then 0 else idx
    match ordered[idx.toNat]? with
    | some v => .ok v
    | none => .error "index out of range"

structure ModeState (α : Type) where
  maxObserved : Nat
  maxValue : α
  currObserved : Nat
  currValue : α

/-- `Mode()`: longest run of equal neighbours in the ordered values (first such run wins). -/
def mode {α : Type} (zero : α) (eq : α → α → Bool) (ordered : List α) : α :=
  (ordered.foldl (fun (st : ModeState α) val =>
      let st := if !eq val st.currValue then { st with currValue := val, currObserved := 0 } else st
      let st := { st with currObserved := st.currObserved + 1 }
      if st.currObserved > st.maxObserved then { st with maxValue := st.currValue, maxObserved := st.currObserved } else st)
    (⟨0, zero, 0, zero⟩ : ModeState α)).maxValue

/-- The exact instance.  `Rat` has no infinities: `maxVal` / `negMaxVal` (`±MaxFloat64`) stand in for the `±Inf`
at which `Min` / `Max` start, and `numerical_minmax` assumes the samples within them, as every finite double is. -/
def ratOps : NumOps Rat :=
  { add := (· + ·), sub := (· - ·), mul := (· * ·), div := (· / ·), ofNat := fun n => (n : Rat),
    lt := fun a b => decide (a < b), zero := 0,
    maxVal := 179769313486231570814527423731704356798070567525844996598917476803157260780028538760589558632766878171540458953514382464234321326889464182768467546703537516986049910576551282076245490090389328944075868508455133942304583236903222948165808559332123348274797826204144723168738177180919299881250404026184124858368,
    negMaxVal := -179769313486231570814527423731704356798070567525844996598917476803157260780028538760589558632766878171540458953514382464234321326889464182768467546703537516986049910576551282076245490090389328944075868508455133942304583236903222948165808559332123348274797826204144723168738177180919299881250404026184124858368 }

end Rare.C07
