import Rare.Base.GoInt
/-!
# C01: from the command line to the pipeline's parameters

`cmd/helpers/extractorBuilder.go`:

    BuildBatcherFromArguments(c):
        concurrentReaders = c.Int("readers"); batchSize = c.Int("batch"); batchBuffer = c.Int("batch-buffer")
        if batchSize < 1          { logger.Fatalf(ExitCodeInvalidUsage, "Batch size must be >= 1, is %d", batchSize) }
        if batchBuffer < 0        { logger.Fatalf(ExitCodeInvalidUsage, "Batch buffer must be >= 0, is %d", batchBuffer) }
        if concurrentReaders < 1  { logger.Fatalf(ExitCodeInvalidUsage, "Must have at least 1 reader") }
        …
        stdin:  batchers.OpenReaderToChan("<stdin>", os.Stdin, batchSize, batchBuffer)
        files:  batchers.OpenFilesToChan(GlobExpand(…), gunzip, concurrentReaders, batchSize, batchBuffer)
    BuildExtractorFromArgumentsEx(c, batcher, sep):
        config := extractor.Config{ Extract: …, Workers: c.Int("workers") } … extractor.New(batcher.BatchChan(), &config)

`OpenFilesToChan(filenames, gunzip, concurrency, batchSize, batchBuffer)`: `newBatcher(batchBuffer)` =
`make(chan InputBatch, bufferSize)` (capacity `B` of the transition system), `make(chan struct{}, concurrency)`
(the semaphore, `R`), `out.syncReaderToBatcher(goFilename, file, batchSize)` (the batch size of `Batcher.run`).
`OpenReaderToChan(name, reader, batchSize, batchBuffer)`: one reader goroutine, no semaphore (`R = 1`), the timed
batching loop.  `extractor.New`: `getWorkerCount()` workers (`W`; `Workers <= 0` gives 2), `make(chan []Match, 5)`
(`K`).

The guards are interpreted from a table (`usageGuards`); `Props/C01.lean` proves the table equal to the one
regenerated from the source (`Gen.C01.usageGuards`).
-/
namespace Rare.C01
open Rare

/-- the four tuning flags (`--batch`, `--batch-buffer`, `--workers`, `--readers`) as parsed integers -/
structure Flags where
  batch : Int
  batchBuffer : Int
  workers : Int
  readers : Int
  deriving Repr, DecidableEq

/-- `workerCount := runtime.NumCPU()/2 + 1` -/
def workerCount (numCPU : Nat) : Int := (numCPU / 2 + 1 : Nat)

/-- the defaults of `getExtractorFlags` on a machine with `numCPU` logical CPUs -/
def Flags.default (numCPU : Nat) : Flags :=
  { batch := 1000, batchBuffer := workerCount numCPU * 2, workers := workerCount numCPU, readers := 3 }

/-- numeric usage guards, source order: (variable, comparison, bound, exit code, message) -/
def usageGuards : List (String × String × Int × String × String) :=
  [("batchSize", "<", 1, "ExitCodeInvalidUsage", "Batch size must be >= 1, is %d"),
   ("batchBuffer", "<", 0, "ExitCodeInvalidUsage", "Batch buffer must be >= 0, is %d"),
   ("concurrentReaders", "<", 1, "ExitCodeInvalidUsage", "Must have at least 1 reader")]

/-- which flag each guarded variable is read from (`flagReads` of the source) -/
def varValue (f : Flags) (v : String) : Option Int :=
  if v = "batchSize" then some f.batch
  else if v = "batchBuffer" then some f.batchBuffer
  else if v = "concurrentReaders" then some f.readers
  else none

def exitCodeOf (name : String) : Int := if name = "ExitCodeInvalidUsage" then 2 else if name = "ExitCodeNoData" then 1 else 0

/-- every `%d` replaced by `v` -/
def replaceD : List Char → List Char → List Char
  | '%' :: 'd' :: r, v => v ++ replaceD r v
  | c :: r, v => c :: replaceD r v
  | [], _ => []

/-- `fmt.Sprintf(msg, v)` for the one verb the messages use (a message without a verb ignores `v`: the source
    passes no argument there) -/
def fmtMsg (msg : String) (v : Int) : String := String.ofList (replaceD msg.toList (toString v).toList)

structure Usage where
  code : Int
  msg : String
  deriving Repr, DecidableEq

/-- The guards in order; the first one that fires ends the process (`logger.Fatalf` = log + `os.Exit(code)`). -/
def checkGuards (f : Flags) : List (String × String × Int × String × String) → Except Usage Unit
  | [] => .ok ()
  | (v, op, bound, code, msg) :: rest =>
    match varValue f v with
    | none => .error ⟨-1, "unmodelled guard variable " ++ v⟩
    | some x =>
      let fires := if op = "<" then decide (x < bound) else if op = "<=" then decide (x ≤ bound) else false
      if fires then .error ⟨exitCodeOf code, fmtMsg msg x⟩ else checkGuards f rest

/-- `Config.getWorkerCount` -/
def getWorkerCount (workers : Int) : Nat := if workers ≤ 0 then 2 else workers.toNat

inductive Input | stdin | files
  deriving Repr, DecidableEq

/-- the parameters of the pipeline transition system and of the batching loop -/
structure PipeCfg where
  batch : Nat      -- batch size of `Batcher.run`
  R : Nat          -- reader concurrency (capacity of the semaphore; 1 for the single stdin reader)
  B : Nat          -- capacity of the batch channel
  W : Nat          -- worker goroutines
  K : Nat          -- capacity of `readChan`
  timed : Bool     -- the time-flushing batching loop
  deriving Repr, DecidableEq

def configure (f : Flags) (input : Input) : Except Usage PipeCfg :=
  match checkGuards f usageGuards with
  | .error u => .error u
  | .ok () =>
    .ok { batch := f.batch.toNat, R := (match input with | .files => f.readers.toNat | .stdin => 1),
          B := f.batchBuffer.toNat, W := getWorkerCount f.workers, K := 5,
          timed := (match input with | .files => false | .stdin => true) }

end Rare.C01
