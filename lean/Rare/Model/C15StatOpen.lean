import Rare.Model.C15
/-!
# C15 — `reopenIfReplaced` is two system calls: `Stat`, then `Open`

`Rare.Model.C15` takes `reopenIfReplaced` (notify.go: `os.Stat(path)`, `s.f.Stat()`, `os.SameFile`, then
`closeFile` + `os.Open(path)`) as ONE transition.  In the real code the writer and the fsnotify goroutine run
between the `Stat` and the `Open`.  `EnvSteps` is any such interleaving (every transition that is not the
reader's); `reopenAfterStat same` is the second half of the function executed in the later state with the
decision `same` taken in the earlier one.  `Rare.Props.C15.stat_open_linearizable`: the outcome is that of
the atomic `reopenIfReplaced` executed at the `Open` (when `Stat` saw another file or none) or at the `Stat`
(when it saw the open file – then nothing is done).
-/
namespace Rare.Follow

variable {β : Type}

/-- transitions of the writer and the fsnotify goroutine while the reader is between two system calls -/
inductive EnvSteps (cfg : NCfg) : NSt β → NSt β → Prop
  | refl (s : NSt β) : EnvSteps cfg s s
  | step {w : Who} {s s' s'' : NSt β} : w ≠ .reader → NStep cfg w s s' → EnvSteps cfg s' s'' → EnvSteps cfg s s''

/-- the part of `reopenIfReplaced` after the `SameFile` decision -/
def reopenAfterStat (same : Bool) (s : NSt β) : NSt β :=
  if same then s else { s.closeFile with f := openAt s.fs 0 }

end Rare.Follow
