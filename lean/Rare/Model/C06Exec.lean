import Rare.Model.C06
import Rare.Model.C06Ctl
/-!
The reader goroutine of `OpenFilesToChan` EXECUTED from its regenerated control tree (`Rare.Gen.C06.openFilesToChanTree`).

`Model/C06Ctl.lean` enumerates all paths of a block (`paths`, used by `sema_balanced`); here the `if` conditions are decided
by an environment, so a block has ONE execution (`exec`), and the statements of that execution are given their meaning on
the observables of the model (`incErrors` calls, log lines, lines handed to the batch channel): `interpReader`.
`Props/C06.lean` (`reader_body_matches_source`) proves `runFile` – the hand model of the goroutine – equal to this
interpretation of the source text for every file oracle; a statement the interpretation does not know poisons the result
(`bad`), so a changed body cannot be silently ignored.
-/
namespace Rare.C06

/-- The execution of a loop-free block when `env` decides every `if` condition (by its text). -/
def execPath (env : String → Bool) : Ctl → CPath
  | .nil => ⟨[], false⟩
  | .simple s n => (execPath env n).cons (.op s)
  | .ret _ _ => ⟨[], true⟩
  | .ifS c t e n =>
    let p := if env c then execPath env t else execPath env e
    if p.returned then p else
      let q := execPath env n
      ⟨p.evs ++ q.evs, q.returned⟩
  | .loop _ _ n => (execPath env n).cons .unsupported
  | .goS _ n => (execPath env n).cons .spawn
  | .deferS b n => (execPath env n).cons (.deferred (straight b))
  | .callLit _ _ n => (execPath env n).cons .unsupported

/-- statements run, in order, deferred blocks (last registered first) at the end -/
def exec (env : String → Bool) (c : Ctl) : List String := trace (execPath env c)

/-- What the statements of a reader goroutine did to the observables. -/
structure Eff where
  errs : Nat := 0
  logs : List Log := []
  lines : List Bytes := []
  /-- the reader `openFileToReader` returned (set by the open statement) -/
  rd : Option Rd := none
  /-- `startFileReading` / `stopFileReading` calls, slots released, `wg.Done()` calls, `file.Close()` calls -/
  started : Nat := 0
  stopped : Nat := 0
  released : Nat := 0
  done : Nat := 0
  closed : Nat := 0
  /-- `out.close()` calls (the batch channel), and the number of errors counted when the first of them ran -/
  chanClosed : Nat := 0
  errsAtClose : Option Nat := none
  /-- a statement without a meaning here was executed, or one that needs an open file ran without one -/
  bad : Bool := false
  deriving Repr

/-- The statements a reader goroutine / the `OnError` callback may execute, recognised by their text. -/
inductive RStmt
  | declFile | openFile | logOpenErr | incErr | start | sync | closeFile | release | stop | wgDone | logReadErr
  | startStdin | syncFlush | closeReader | closeChan | unknown
  deriving Repr, DecidableEq

def classify (s : String) : RStmt :=
  if s = "stmt:varfileio.ReadCloser" then .declFile
  else if s = "stmt:file,err:=openFileToReader(goFilename,gunzip)" then .openFile
  else if s = "do:logger.Printf(\"Erroropeningfile%s:%v\",goFilename,err)" then .logOpenErr
  else if s = "do:out.incErrors()" then .incErr
  else if s = "do:s.incErrors()" then .incErr
  else if s = "do:out.startFileReading(goFilename)" then .start
  else if s = "do:out.syncReaderToBatcher(goFilename,file,batchSize)" then .sync
  else if s = "do:file.Close()" then .closeFile
  else if s = "do:<-sema" then .release
  else if s = "do:out.stopFileReading(goFilename)" then .stop
  else if s = "do:wg.Done()" then .wgDone
  else if s = "do:logger.Printf(\"Errorreading%s:%v\",sourceName,e)" then .logReadErr
  else if s = "do:out.startFileReading(sourceName)" then .startStdin
  else if s = "do:out.syncReaderToBatcherWithTimeFlush(sourceName,reader,batchSize,AutoFlushTimeout)" then .syncFlush
  else if s = "do:reader.Close()" then .closeReader
  else if s = "do:out.close()" then .closeChan
  else .unknown

/-- The body of the `OnError` callback of `syncReaderToBatcher`, run once. -/
def interpOnError (name : Bytes) : List RStmt → Eff → Eff
  | [], e => e
  | s :: rest, e =>
    let e := match s with
      | .incErr => { e with errs := e.errs + 1 }
      | .logReadErr => { e with logs := e.logs ++ [.readError name] }
      | _ => { e with bad := true }
    interpOnError name rest e

/-- One statement of the reader goroutine.  `onError` = the callback body `syncReaderToBatcher` registers. -/
def interpStmt (onError : List RStmt) (gunzip : Bool) (name : Path) (f : FileOracle) (e : Eff) : RStmt → Eff
  | .declFile => e
  | .openFile =>
    match openFileToReader f gunzip with
    | none => e
    | some (rd, fellBack) => { e with rd := some rd, logs := e.logs ++ (if fellBack then [.gunzipFallback name] else []) }
  | .logOpenErr => { e with logs := e.logs ++ [.openError name] }
  | .incErr => { e with errs := e.errs + 1 }
  | .start => { e with started := e.started + 1 }
  | .sync =>
    match e.rd with
    | none => { e with bad := true }            -- nil reader: the real code would panic
    | some rd =>
      let e := { e with lines := e.lines ++ C04.splitLines (streamOf f rd).1 }
      if (streamOf f rd).2 then interpOnError name onError e else e
  | .closeFile => (match e.rd with | none => { e with bad := true } | some _ => { e with closed := e.closed + 1 })
  | .release => { e with released := e.released + 1 }
  | .stop => { e with stopped := e.stopped + 1 }
  | .wgDone => { e with done := e.done + 1 }
  | _ => { e with bad := true }

def interpReader (onError : List String) (gunzip : Bool) (name : Path) (f : FileOracle) (ops : List String) : Eff :=
  (ops.map classify).foldl (interpStmt (onError.map classify) gunzip name f) {}

/-- One statement of the goroutine of `OpenReaderToChan(sourceName, reader, …)`; `data`/`fails` = what the reader yields. -/
def interpStdinStmt (onError : List RStmt) (name : Bytes) (data : Bytes) (fails : Bool) (e : Eff) : RStmt → Eff
  | .startStdin => { e with started := e.started + 1 }
  | .syncFlush =>
    let e := { e with lines := e.lines ++ C04.splitLines data }
    if fails then interpOnError name onError e else e
  | .closeChan => { e with chanClosed := e.chanClosed + 1, errsAtClose := if e.chanClosed = 0 then some e.errs else e.errsAtClose }
  | .closeReader => { e with closed := e.closed + 1 }
  | _ => { e with bad := true }

def interpStdin (onError : List String) (name : Bytes) (data : Bytes) (fails : Bool) (ops : List String) : Eff :=
  (ops.map classify).foldl (interpStdinStmt (onError.map classify) name data fails) {}

/-- the condition of the reader body: `err != nil` after `openFileToReader` -/
def readerEnv (f : FileOracle) (c : String) : Bool := c == "err!=nil" && !f.canOpen

/-- the statements between `OnError{` and its `}` in a scanner call list of `Gen.C01` -/
def onErrorBody (calls : List String) : List String :=
  ((calls.dropWhile (· ≠ "OnError{")).drop 1).takeWhile (· ≠ "}")

end Rare.C06
