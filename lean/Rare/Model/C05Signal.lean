import Rare.Model.AggLoop
/-!
# `RunAggregationLoop` with the signal path (C05, "ends with a complete render" on Ctrl-C)

`cmd/helpers/updatingAggregator.go`: the processing loop selects between `readChan` and `exitSignal`
(`signal.Notify(exitSignal, os.Interrupt)`); on SIGINT it leaves the loop exactly like on end of input:
`break PROCESSING_LOOP`, the unbuffered `outputDone` hand-shake that ends the ticker goroutine, then the last
`writeOutput()`.  The extractor is NOT stopped: batches still in `readChan` (or not yet produced) are dropped.

`SStep` = the steps of `AggLoop.Step` plus `signal` (main is in its `select`, the signal channel is ready: Go picks
any ready case, so the step is enabled whatever `readChan` holds).  The state carries the ghost flag `signalled`.
-/
namespace Rare.AggLoop

structure SSt (κ : Type) where
  base : St κ
  signalled : Bool

def sinit {κ : Type} (stream : List (List κ)) : SSt κ := ⟨init stream, false⟩

inductive SStep {κ : Type} : SSt κ → SSt κ → Prop
  | base (s : SSt κ) (b' : St κ) : Step s.base b' → SStep s { s with base := b' }
  /-- `case <-exitSignal: break PROCESSING_LOOP` -/
  | signal (s : SSt κ) : s.base.main = .loop →
      SStep s { base := { s.base with main := .sendDone }, signalled := true }

inductive SReach {κ : Type} (s0 : SSt κ) : SSt κ → Prop
  | refl : SReach s0 s0
  | step {s s'} : SReach s0 s → SStep s s' → SReach s0 s'

end Rare.AggLoop
