import Rare.Spec.C16
/-!
Model of the code behind the JSON views (property C16), as repaired by the `fix:` commits:

* `pkg/minijson/minijson.go`: `escapeLookup`, `escape` (byte loop with the `hasMapped` fast path),
  `isNumeric` (leading-zero guard + the two index loops), `JsonObjectBuilder` (`Open`, `Close`,
  `writeKey`, `WriteLiteral`, `WriteString`, `WriteInferred`).
* `pkg/extractor/sliceSpaceExpressionContext.go`: `GetMatch`, `json(named, numbered)`.
* `cmd/expressions.go`: `buildSpecialKeyJson`.

A Go map is an association list *in iteration order*: the `order` arguments below are "the
entries of the map as this particular `range` happened to produce them"; theorems quantify over
all permutations of it.  `sort.Strings` is modelled by insertion sort (the sorted permutation of
a list of byte strings is unique, so the algorithm does not matter).

`GetMatch` mirrors Go's `int` arithmetic: `idx * 2` wraps around (`wrap64`), and the three guards
`idx < 0 || sliceIndex < 0 || sliceIndex+1 >= len(s.indices)` are the code's (`sliceIndex` is even,
so `sliceIndex + 1` cannot overflow).  The name tables are modelled as they are built:
`regexNameTable` (`fastregex.createGroupNameTable` over `regexp.SubexpNames()`), `dissectNameTable`
(`dissect.CompileEx`), `AlwaysMatch` has the empty table.
-/
namespace Rare.C16

/-! ### minijson -/

def hexDigit (n : Nat) : UInt8 := if n < 10 then UInt8.ofNat (48 + n) else UInt8.ofNat (87 + n)

/-- `\u00XX` -/
def uEsc (c : Nat) : Bytes := [0x5c, 0x75, 0x30, 0x30, hexDigit (c / 16), hexDigit (c % 16)]

/-- entry `i` of `escapeLookup` (hand copy; `Props` proves it equal to the generated table) -/
def escapeEntry (i : Nat) : Bytes :=
  if i = 8 then [0x5c, 0x62]
  else if i = 9 then [0x5c, 0x74]
  else if i = 10 then [0x5c, 0x6e]
  else if i = 12 then [0x5c, 0x66]
  else if i = 13 then [0x5c, 0x72]
  else if i < 0x20 then uEsc i
  else if i = 0x22 then [0x5c, 0x22]
  else if i = 0x5c then [0x5c, 0x5c]
  else []

/-- `var escapeLookup = [93]string{…}` -/
def escapeLookup : List Bytes := (List.range 93).map escapeEntry

/-- `int(c) < len(escapeLookup) && escapeLookup[c] != ""`, returning the entry (`[]` = not mapped) -/
def lookup (c : UInt8) : Bytes :=
  if c.toNat < escapeLookup.length then escapeLookup.getD c.toNat [] else []

/-- The loop of `escape`: `i` index, `hm` = hasMapped, `sb` the builder, last argument `s[i:]`. -/
def escapeLoop (s : Bytes) : Nat → Bool → Bytes → Bytes → Bool × Bytes
  | _, hm, sb, [] => (hm, sb)
  | i, hm, sb, c :: r =>
    if lookup c ≠ [] then
      escapeLoop s (i + 1) true ((if hm then sb else sb ++ s.take i) ++ lookup c) r
    else if hm then escapeLoop s (i + 1) true (sb ++ [c]) r
    else escapeLoop s (i + 1) false sb r

def escape (s : Bytes) : Bytes :=
  let r := escapeLoop s 0 false [] s
  if r.1 then r.2 else s

/-- first loop of `isNumeric`: `none` = `return false`; `some (i, s[i:])` at loop exit / `break` -/
def numLoop1 : Nat → Bytes → Option (Nat × Bytes)
  | i, [] => some (i, [])
  | i, c :: r =>
    if c = 0x2e then
      if i = 0 then none
      else if r = [] then none
      else some (i + 1, r)
    else if c < 0x30 ∨ c > 0x39 then none
    else numLoop1 (i + 1) r

/-- second loop of `isNumeric` -/
def numLoop2 : Nat → Bytes → Option Nat
  | i, [] => some i
  | i, c :: r => if c < 0x30 ∨ c > 0x39 then none else numLoop2 (i + 1) r

def isNumeric (s : Bytes) : Bool :=
  if 1 < s.length ∧ s.head? = some 0x30 ∧ s.tail.head? ≠ some 0x2e then false
  else
    match numLoop1 0 s with
    | none => false
    | some (i, r) =>
      match numLoop2 i r with
      | none => false
      | some j => 0 < j

/-- `len(val) == len(lit) && strings.EqualFold(val, lit)` for an ASCII lower-case `lit`: with equal
byte lengths every rune of `val` is one byte, so folding is ASCII case folding. -/
def equalFoldLen (val lit : Bytes) : Bool := val.length == lit.length && val.map lower == lit

structure JB where
  sb : Bytes
  keyCount : Nat

/-- `Open` / `OpenEx(hint)` (the hint only reserves capacity) -/
def JB.opened : JB := ⟨[0x7b], 0⟩

def JB.close (j : JB) : JB := { j with sb := j.sb ++ [0x7d] }

def JB.writeKey (j : JB) (key : Bytes) : JB :=
  ⟨(if 0 < j.keyCount then j.sb ++ [0x2c, 0x20] else j.sb) ++ [0x22] ++ escape key ++ [0x22, 0x3a, 0x20],
   j.keyCount + 1⟩

def JB.writeLiteral (j : JB) (key lit : Bytes) : JB :=
  { j.writeKey key with sb := (j.writeKey key).sb ++ lit }

def JB.writeString (j : JB) (key val : Bytes) : JB :=
  { j.writeKey key with sb := (j.writeKey key).sb ++ [0x22] ++ escape val ++ [0x22] }

def JB.writeInferred (j : JB) (key val : Bytes) : JB :=
  if isNumeric val then j.writeLiteral key val
  else if equalFoldLen val litTrue then j.writeLiteral key litTrue
  else if equalFoldLen val litFalse then j.writeLiteral key litFalse
  else j.writeString key val

/-! ### sorted iteration over a map -/

def insertSorted (x : Bytes) : List Bytes → List Bytes
  | [] => [x]
  | y :: ys => if bytesLe x y then x :: y :: ys else y :: insertSorted x ys

/-- `sort.Strings` -/
def sortNames (l : List Bytes) : List Bytes := l.foldr insertSorted []

/-- `m[name]` on the entries of a map (zero value when absent) -/
def mapGet {β : Type} (dflt : β) (entries : List (Bytes × β)) (name : Bytes) : β :=
  match entries.find? (fun p => p.1 == name) with
  | some p => p.2
  | none => dflt

/-! ### SliceSpaceExpressionContext -/

def getMatch (indices : List Int) (line : Bytes) (idx : Int) : Except String Bytes :=
  let sliceIndex := wrap64 (idx * 2)
  if idx < 0 ∨ sliceIndex < 0 ∨ sliceIndex + 1 ≥ indices.length then .ok []
  else
    let start := indices.getD sliceIndex.toNat 0
    let stop := indices.getD (sliceIndex + 1).toNat 0
    if start < 0 ∨ stop < 0 then .ok []
    else if stop > line.length ∨ start > stop then .error "slice bounds out of range"
    else .ok ((line.take stop.toNat).drop start.toNat)

/-- body of `for name := range names` (after the fix: names sorted) -/
def namedStep (order : List (Bytes × Int)) (indices : List Int) (line : Bytes) (jb : JB) (name : Bytes) :
    Except String JB := do
  let v ← getMatch indices line (mapGet 0 order name)
  pure (jb.writeInferred name v)

/-- body of `for i := 0; i < len(s.indices)/2; i++` -/
def numberedStep (indices : List Int) (line : Bytes) (jb : JB) (i : Nat) : Except String JB := do
  let v ← getMatch indices line (i : Nat)
  pure (if v ≠ [] then jb.writeInferred (natAscii i) v else jb)

/-- `json(named, numbered)`; `order` = the entries of `nameTable` as `range` produced them. -/
def json (named numbered : Bool) (order : List (Bytes × Int)) (indices : List Int) (line : Bytes) :
    Except String Bytes := do
  let jb := JB.opened
  let jb ← if named then (sortNames (order.map (·.1))).foldlM (namedStep order indices line) jb else pure jb
  let jb ← if numbered then (List.range (indices.length / 2)).foldlM (numberedStep indices line) jb else pure jb
  pure jb.close.sb

/-- The JSON branches of `GetKey`: `"."`, `"#"`, `".#"` / `"#."`; `none` = another kind of key. -/
def getKeyJson (key : Bytes) (order : List (Bytes × Int)) (indices : List Int) (line : Bytes) :
    Option (Except String Bytes) :=
  if key = [0x2e] then some (json true false order indices line)
  else if key = [0x23] then some (json false true order indices line)
  else if key = [0x2e, 0x23] ∨ key = [0x23, 0x2e] then some (json true true order indices line)
  else none

/-! ### how the name tables are built -/

/-- `m[k] = v` on the entries of a Go map (kept in insertion order; theorems quantify over every
permutation, i.e. every iteration order) -/
def mapSet {β : Type} (m : List (Bytes × β)) (k : Bytes) (v : β) : List (Bytes × β) :=
  if m.any (fun p => p.1 == k) then m.map (fun p => if p.1 == k then (k, v) else p) else m ++ [(k, v)]

/-- `createGroupNameTable(re)`: `for idx, name := range re.SubexpNames() { if name != "" { ret[name] = idx } }`;
`i` is the index of the head of the list. -/
def regexTableGo (m : List (Bytes × Int)) : Nat → List Bytes → List (Bytes × Int)
  | _, [] => m
  | i, name :: r => regexTableGo (if name ≠ [] then mapSet m name (i : Int) else m) (i + 1) r

def regexNameTable (subexpNames : List Bytes) : List (Bytes × Int) := regexTableGo [] 0 subexpNames

/-- The `groupNames` part of `dissect.CompileEx`: tokens as `(keyName, skipped)` in pattern order;
`ErrorKeyConflict` on a repeated name. -/
def dissectTableGo (m : List (Bytes × Int)) (groupIndex : Nat) : List (Bytes × Bool) → Except String (List (Bytes × Int))
  | [] => .ok m
  | (name, skipped) :: r =>
    if skipped then dissectTableGo m groupIndex r
    else if m.any (fun p => p.1 == name) then .error "key conflict"
    else dissectTableGo (mapSet m name ((groupIndex + 1 : Nat) : Int)) (groupIndex + 1) r

def dissectNameTable (tokens : List (Bytes × Bool)) : Except String (List (Bytes × Int)) :=
  dissectTableGo [] 0 tokens

/-! ### cmd/expressions.go -/

def writeIndexed (jb : JB) : Nat → List Bytes → JB
  | _, [] => jb
  | i, v :: r => writeIndexed (jb.writeString (natAscii i) v) (i + 1) r

/-- `buildSpecialKeyJson(matches, values)`; `order` = entries of `values` in iteration order. -/
def buildSpecialKeyJson (texts : List Bytes) (order : List (Bytes × Bytes)) : Bytes :=
  let jb := writeIndexed JB.opened 0 texts
  let jb := (sortNames (order.map (·.1))).foldl (fun (jb : JB) k => jb.writeString k (mapGet [] order k)) jb
  jb.close.sb

/-! ### the rest of pkg/minijson: `WriteInt`, `KeyCount`, `MarshalStringMapInferred` (util.go) -/

/-- `WriteInt(key, val)`: `writeKey` then `strconv.Itoa(val)` -/
def JB.writeInt (j : JB) (key : Bytes) (val : Int) : JB := j.writeLiteral key (itoa val)

/-- `MarshalStringMapInferred(s)` (pkg/minijson/util.go; despite its name every value is written with
`WriteString`): `for k, v := range s { jb.WriteString(k, v) }` – NOT sorted, `order` = the entries as this
`range` produced them.  Not called by any command. -/
def marshalStringMap (order : List (Bytes × Bytes)) : Bytes :=
  (order.foldl (fun (jb : JB) p => jb.writeString p.1 p.2) JB.opened).close.sb

/-! ### `rare expression -k name=value` (cmd/expressions.go) -/

/-- `strings.IndexByte(s, c)` -/
def indexByte (s : Bytes) (c : UInt8) : Int := if s.idxOf c < s.length then (s.idxOf c : Nat) else -1

/-- `parseKeyValue(s)`: split at the FIRST `=`; without one the whole argument is key and value -/
def parseKeyValue (s : Bytes) : Bytes × Bytes :=
  let idx := indexByte s 0x3d
  if idx < 0 then (s, s) else (s.take idx.toNat, s.drop (idx.toNat + 1))

/-- `parseKeyValuesIntoMap(kvs...)`: `for _, item := range kvs { k, v := parseKeyValue(item); ret[k] = v }` -/
def parseKeyValuesIntoMap (kvs : List Bytes) : List (Bytes × Bytes) :=
  kvs.foldl (fun m item => mapSet m (parseKeyValue item).1 (parseKeyValue item).2) []

/-- The "Emulate special keys" block of `expressionFunction`: the value of `expCtx.Keys[key]` for the four
JSON keys, given `--data` arguments `data`, `--key` arguments `kvs`; `order` = the entries of
`parseKeyValuesIntoMap(keyPairs...)` in the order `range` produced them.  `none` = another key. -/
def expressionJsonKey (key : Bytes) (data : List Bytes) (order : List (Bytes × Bytes)) : Option Bytes :=
  if key = [0x2e] then some (buildSpecialKeyJson [] order)
  else if key = [0x23] then some (buildSpecialKeyJson data [])
  else if key = [0x2e, 0x23] ∨ key = [0x23, 0x2e] then some (buildSpecialKeyJson data order)
  else none

end Rare.C16
