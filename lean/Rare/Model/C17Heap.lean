import Rare.Model.C17Pool
import Rare.Model.Expr.Funcs.Range
import Rare.Spec.C17
/-!
C17: NESTED pool-backed helpers over ONE shared heap (`funcsRange.go` `subContext`, `subContextPool`).

In the Go code a sub-expression of `@map`/`@filter`/`@reduce`/`@for` is evaluated against a `*subContext` taken
from `subContextPool`: an OBJECT with a `parent` pointer and two value slots, shared with every other helper
evaluation of the process.  `Comp.withSub` (the model the correspondence runs) re-interprets look-ups instead and
has no objects at all.  This file is the machine with objects:

* `Heap` – the pool (`Model/C17Pool.lean`) plus the fields of every object, whatever the last user left there;
* `Ref`  – a `KeyBuilderContext` value: the match context of the line (`root`) or a pointer to an object;
* `getMatchH` / `getKeyH` – `subContext.GetMatch` / `GetKey`: pointer chasing along `parent` (fuel = stack depth;
  running out is Go's `fatal error: stack overflow`, which a context that is its own ancestor produces);
* `Tm` – templates: pool-free stages at the leaves, pool-free functions of evaluated sub-templates, and the four
  pool-using helpers with arbitrary sub-templates (so helpers nest inside arguments AND inside sub-expressions);
* `ev` – statement by statement what the closures of `kfArrayMap`, `kfArrayFilter`, `kfArrayReduce`, `kfArrayFor` do
  with the pool and the object: `Get`, the overwrite `*obj = subContext{parent: context}`, `Eval` (store both
  values, run the stage against the OBJECT), the deferred `Return` – in the order of the source (`@map`/`@reduce`
  take the object before they evaluate the array argument, `@filter`/`@for` after).  Splitting and joining are
  taken at list level (`elems`/`pack`; `arrayOperator`'s and the splitter's loops are the subject of
  `map_spec` … and do not touch the pool);
* `den` – the same template in the pool-free model (`mapStage` … of `Funcs/Range.lean`).

`Props/C17.lean` (`pooled_template_spec`) proves that `ev` and `den` agree, for every template, every stale heap.
-/
namespace Rare.C17Heap
open Rare Rare.Expr

inductive Ref where
  | root
  | obj (n : Nat)
deriving DecidableEq, Repr

/-- The fields of a `subContext`. -/
structure Obj where
  parent : Ref
  v0 : Bytes
  v1 : Bytes

structure Heap where
  pool : C17Pool.Pool
  objs : Nat → Obj

/-- `*obj = x` -/
def Heap.set (h : Heap) (o : Nat) (x : Obj) : Heap :=
  { h with objs := fun n => if n = o then x else h.objs n }

/-- `s.vals[0] = v0; s.vals[1] = v1` (first two statements of `subContext.Eval`) -/
def Heap.setVals (h : Heap) (o : Nat) (a b : Bytes) : Heap :=
  h.set o { (h.objs o) with v0 := a, v1 := b }

/-- `ctx.GetMatch(i)` for a context value: `root` is the line's match, an object follows `subContext.GetMatch`. -/
def getMatchH (root : Ctx) (objs : Nat → Obj) : Nat → Ref → Int → Except String Bytes
  | _, .root, i => .ok (root.getMatch i)
  | 0, .obj _, _ => .error "stack overflow"
  | fuel + 1, .obj o, i =>
    if i < 0 then getMatchH root objs fuel (objs o).parent i
    else .ok (if i = 0 then (objs o).v0 else if i = 1 then (objs o).v1 else [])

/-- `ctx.GetKey(k)`: `subContext.GetKey` forwards to the parent. -/
def getKeyH (root : Ctx) (objs : Nat → Obj) : Nat → Ref → Bytes → Except String Bytes
  | _, .root, k => .ok (root.getKey k)
  | 0, .obj _, _ => .error "stack overflow"
  | fuel + 1, .obj o, k => getKeyH root objs fuel (objs o).parent k

/-- Run a pool-free stage against a context value. -/
def runH {α : Type} (root : Ctx) (objs : Nat → Obj) (fuel : Nat) (ref : Ref) : Comp α → Except String α
  | .ret a => .ok a
  | .getMatch i k =>
    match getMatchH root objs fuel ref i with
    | .error m => .error m
    | .ok b => runH root objs fuel ref (k b)
  | .getKey s k =>
    match getKeyH root objs fuel ref s with
    | .error m => .error m
    | .ok b => runH root objs fuel ref (k b)
  | .panic m => .error m

/-- Templates. -/
inductive Tm where
  /-- a pool-free stage: `{0}`, `{key}`, literals, scalar helpers over them -/
  | scalar (c : Stage)
  /-- a pool-free function of evaluated sub-templates (`@len`, `@slice`, `@join`, `eq`, …) -/
  | app1 (g : Bytes → Bytes) (a : Tm)
  | app2 (g : Bytes → Bytes → Bytes) (a b : Tm)
  | map (a f : Tm)
  | filter (a p : Tm)
  | reduce (init : Bytes) (a f : Tm)
  | for_ (start cond next : Tm)

/-- The template in the pool-free model. -/
def den : Tm → Stage
  | .scalar c => c
  | .app1 g a => (den a).bind fun x => .ret (g x)
  | .app2 g a b => (den a).bind fun x => (den b).bind fun y => .ret (g x y)
  | .map a f => Funcs.Range.mapStage (den a) (den f)
  | .filter a p => Funcs.Range.filterStage (den a) (den p)
  | .reduce init a f => Funcs.Range.reduceStage init (den a) (den f)
  | .for_ s c n => Funcs.Range.forStage (den s) (den c) (den n)

abbrev Res := Except String (Bytes × Heap)

/-- The element loop of a helper: for every element `x` the state `s` says which two values `Eval` stores
    (`args`), the sub-expression runs against the OBJECT `o`, and the state takes its answer (`upd`). -/
def objLoop {σ : Type} (evf : Ref → Heap → Res) (o : Nat) (args : σ → Bytes → Bytes × Bytes)
    (upd : σ → Bytes → Bytes → σ) : List Bytes → σ → Heap → Except String (σ × Heap)
  | [], s, h => .ok (s, h)
  | x :: xs, s, h =>
    match evf (.obj o) (h.setVals o (args s x).1 (args s x).2) with
    | .error m => .error m
    | .ok (y, h') => objLoop evf o args upd xs (upd s x y) h'

/-- The loop of `kfArrayFor` against the object `o`; `none` = the `return "<INF>"`. -/
def forLoopH (evc evn : Ref → Heap → Res) (o : Nat) :
    Nat → Nat → Bytes → List Bytes → Heap → Except String (Option (List Bytes) × Heap)
  | 0, _, _, _, _ => .error "hang: for does not terminate"
  | fuel + 1, idx, v, acc, h =>
    match evc (.obj o) (h.setVals o v (itoa (idx : Nat))) with
    | .error m => .error m
    | .ok (c, h1) =>
      if !truthy c then .ok (some acc, h1)
      else
        match evn (.obj o) (h1.setVals o v (itoa (idx : Nat))) with
        | .error m => .error m
        | .ok (v', h2) =>
          if idx + 1 > Gen.maxIterations then .ok (none, h2)
          else forLoopH evc evn o fuel (idx + 1) v' (acc ++ [v]) h2

/-- `subContextPool.Get()` and `*obj = subContext{parent: context}`. -/
def acquire (h : Heap) (ref : Ref) : Nat × Heap :=
  let r := h.pool.get
  (r.1, ({ h with pool := r.2 } : Heap).set r.1 ⟨ref, [], []⟩)

/-- the deferred `subContextPool.Return(obj)` -/
def release (h : Heap) (o : Nat) : Heap := { h with pool := h.pool.ret o }

/-- Evaluate a template against a context value.  `.error` = panic / stack overflow (the evaluation is over;
    the deferred `Return` still runs in Go, the heap after a panic is not part of any answer). -/
def ev (root : Ctx) (fuel : Nat) : Tm → Ref → Heap → Res
  | .scalar c, ref, h =>
    match runH root h.objs fuel ref c with
    | .error m => .error m
    | .ok v => .ok (v, h)
  | .app1 g a, ref, h =>
    match ev root fuel a ref h with
    | .error m => .error m
    | .ok (x, h1) => .ok (g x, h1)
  | .app2 g a b, ref, h =>
    match ev root fuel a ref h with
    | .error m => .error m
    | .ok (x, h1) =>
      match ev root fuel b ref h1 with
      | .error m => .error m
      | .ok (y, h2) => .ok (g x y, h2)
  | .map a f, ref, h =>
    let oh := acquire h ref                               -- Get, overwrite
    match ev root fuel a ref oh.2 with                    -- args[0](context)
    | .error m => .error m
    | .ok (arr, h2) =>
      match objLoop (ev root fuel f) oh.1 (fun (_ : List Bytes) x => (x, [])) (fun s _ y => s ++ [y])
          (C17.elems arr) [] h2 with
      | .error m => .error m
      | .ok (ys, h3) => .ok (C17.pack ys, release h3 oh.1)
  | .filter a p, ref, h =>
    match ev root fuel a ref h with                       -- splitter.S = args[0](context)
    | .error m => .error m
    | .ok (arr, h1) =>
      let oh := acquire h1 ref
      match objLoop (ev root fuel p) oh.1 (fun (_ : List Bytes) x => (x, []))
          (fun s x y => if truthy y then s ++ [x] else s) (C17.elems arr) [] oh.2 with
      | .error m => .error m
      | .ok (ys, h3) => .ok (C17.pack ys, release h3 oh.1)
  | .reduce init a f, ref, h =>
    let oh := acquire h ref
    match ev root fuel a ref oh.2 with
    | .error m => .error m
    | .ok (arr, h2) =>
      let xs := C17.elems arr
      let start : Bytes × List Bytes := if init = [] then (xs.headD [], xs.tail) else (init, xs)
      match objLoop (ev root fuel f) oh.1 (fun (memo : Bytes) x => (memo, x)) (fun _ _ y => y)
          start.2 start.1 h2 with
      | .error m => .error m
      | .ok (memo, h3) => .ok (memo, release h3 oh.1)
  | .for_ s c n, ref, h =>
    match ev root fuel s ref h with                       -- val := args[0](context)
    | .error m => .error m
    | .ok (v, h1) =>
      let oh := acquire h1 ref
      match forLoopH (ev root fuel c) (ev root fuel n) oh.1 (Gen.maxIterations + 2) 0 v [] oh.2 with
      | .error m => .error m
      | .ok (some ys, h3) => .ok (C17.pack ys, release h3 oh.1)
      | .ok (none, h3) => .ok (Funcs.Range.InfMarker, release h3 oh.1)

/-- The closures `ev` mirrors, step by step in source order: `arg i` = `args[i](context)` (the argument stage
    evaluated against the ENCLOSING context), `get` / `defer-return` / `reset` of the pooled object, and every
    `Eval` with the stage it runs and the two values it stores.  The translator regenerates this table from
    funcsRange.go (`Gen.C17.helperSteps`); `heap_machine_matches_source` (Props/C17.lean) states the equality. -/
def sourceOrder : List (String × List (String × String × String)) := [
  ("@map", [("get", "mapperContext", ""), ("defer-return", "mapperContext", ""),
    ("reset", "mapperContext", "parent=context"), ("arg", "0", ""), ("eval", "mapperContext", "args[1], s, \"\"")]),
  ("@reduce", [("get", "mapperContext", ""), ("defer-return", "mapperContext", ""),
    ("reset", "mapperContext", "parent=context"), ("arg", "0", ""),
    ("eval", "mapperContext", "args[1], memo, splitter.Next()")]),
  ("@for", [("arg", "0", ""), ("get", "sub", ""), ("defer-return", "sub", ""), ("reset", "sub", "parent=context"),
    ("eval", "sub", "args[1], val, sIdx"), ("eval", "sub", "args[2], val, sIdx")]),
  ("@filter", [("arg", "0", ""), ("get", "sub", ""), ("defer-return", "sub", ""), ("reset", "sub", "parent=context"),
    ("eval", "sub", "args[1], item, \"\"")])]

/-- How deep helpers nest (the parent chain grows by one per level). -/
def depth : Tm → Nat
  | .scalar _ => 0
  | .app1 _ a => depth a
  | .app2 _ a b => max (depth a) (depth b)
  | .map a f => max (depth a) (depth f + 1)
  | .filter a p => max (depth a) (depth p + 1)
  | .reduce _ a f => max (depth a) (depth f + 1)
  | .for_ s c n => max (depth s) (max (depth c + 1) (depth n + 1))

end Rare.C17Heap
