import Rare.Model.Batcher
/-!
# C15 — the batching loop of `syncReaderToBatcherWithTimeFlush` with the batch slice as a heap object

`Rare.Model.Batcher` models the two batching loops of `pkg/extractor/batchers/batcher.go` on values
(a batch is a list of lines).  The real `batch` is a Go slice `[]extractor.BString`: a header
(backing array, len, cap) over a backing array that `append` writes IN PLACE while `len < cap`.
What travels on the channel `s.c` inside `extractor.InputBatch` is the slice HEADER; the consumer
reads the lines through it later.  Whether a batch that was sent can still change therefore depends
on which backing array the loop goes on writing to – this file makes that explicit:

* `heap` – every backing array allocated for batch slices so far (array id = index), each as the
  list of its cells that have been written;
* `Slice` – a slice header `(arr, len, cap)` (the offset is always 0 in this code);
* `make` – `make([]extractor.BString, 0, batchSize)`: a NEW array;
* `push` – `batch = append(batch, x)`: writes cell `len` of the current array when `len < cap`,
  otherwise (`growslice`) copies the cells into a new array;
* `flush` – `s.c <- InputBatch{Batch: batch, …}; batchStart += len(batch); batch = make(…)`:
  the header is sent and the loop continues on a fresh array (this is what the code does);
* `flushSeeded` – NOT the code: the variant `batch = batch[:0]` after a timer-forced flush of a short
  batch (keeps the array).  It exists only so that `Props/C15` can show that the stability theorem
  is sensitive to exactly this aliasing (`batch_reuse_breaks_stability`).

The element type `α` is the line (`extractor.BString`, itself a slice header into the scanner's
buffer: `Rare.C04.View` in `Rare.Model.C15Tail`).
-/
namespace Rare.C15.Batch

/-- Header of a batch slice: backing array id, `len`, `cap`. -/
structure Slice where
  arr : Nat
  len : Nat
  cap : Nat
  deriving Repr, DecidableEq

/-- An `extractor.InputBatch` as it sits in the channel / in the consumer's hands. -/
structure Sent where
  batch : Slice
  source : String
  start : Nat          -- BatchStart
  deriving Repr, DecidableEq

structure St (α : Type) where
  heap : List (List α)     -- backing arrays of batch slices, cells written so far
  cur : Slice              -- `batch`
  start : Nat              -- `batchStart`
  out : List Sent          -- everything sent on `s.c` so far, oldest first

variable {α : Type}

/-- The cells of backing array `i`. -/
def cells (heap : List (List α)) (i : Nat) : List α := heap.getD i []

/-- Reading a batch through its header: `b.Batch[0:len]`. -/
def readSlice (heap : List (List α)) (sl : Slice) : List α := (cells heap sl.arr).take sl.len

/-- `a[i] = x` for `i ≤` the number of cells written so far (`i =` that number: first write of the cell). -/
def writeAt (a : List α) (i : Nat) (x : α) : List α := a.take i ++ x :: a.drop (i + 1)

/-- `batch := make([]extractor.BString, 0, batchSize); var batchStart uint64 = 1` -/
def St.init (batchSize : Nat) : St α :=
  { heap := [[]], cur := ⟨0, 0, batchSize⟩, start := 1, out := [] }

/-- `batch = append(batch, x)`.  In place while `len < cap`; otherwise `growslice` moves the cells to a
    new array (only reachable with `batchSize = 0`, where `cap = 0`: the new capacity is then 1). -/
def St.push (s : St α) (x : α) : St α :=
  if s.cur.len < s.cur.cap then
    { s with heap := s.heap.modify s.cur.arr (fun a => writeAt a s.cur.len x),
             cur := { s.cur with len := s.cur.len + 1 } }
  else
    { s with heap := s.heap ++ [readSlice s.heap s.cur ++ [x]],
             cur := ⟨s.heap.length, s.cur.len + 1, s.cur.len + 1⟩ }

/-- `s.c <- extractor.InputBatch{Batch: batch, Source: sourceName, BatchStart: batchStart}` -/
def St.send (source : String) (s : St α) : St α :=
  { s with out := s.out ++ [⟨s.cur, source, s.start⟩] }

/-- The body of the flush branch: send, `batchStart += len(batch)`, `batch = make(…, 0, batchSize)`. -/
def St.flush (source : String) (batchSize : Nat) (s : St α) : St α :=
  { heap := s.heap ++ [[]], cur := ⟨s.heap.length, 0, batchSize⟩, start := s.start + s.cur.len,
    out := s.out ++ [⟨s.cur, source, s.start⟩] }

/-- One iteration of `for readahead.Scan() { … }` for the line `x.1`; `x.2` = "the flush timer had
    expired when the line was appended" (`time.Since(lastBatchFlush) >= autoFlush`). -/
def step (source : String) (batchSize : Nat) (s : St α) (x : α × Bool) : St α :=
  let s1 := s.push x.1
  if s1.cur.len ≥ batchSize || x.2 then s1.flush source batchSize else s1

/-- After the loop: `if len(batch) > 0 { s.c <- … }`. -/
def finish (source : String) (s : St α) : St α :=
  if s.cur.len > 0 then s.send source else s

/-- The whole loop over the lines paired with the timer oracle's answers. -/
def run (source : String) (batchSize : Nat) (ls : List (α × Bool)) : St α :=
  finish source (ls.foldl (step source batchSize) (St.init batchSize))

/-- A sent batch as the consumer reads it in state `s`. -/
def St.read (s : St α) (b : Sent) : Batcher.Batch α := ⟨readSlice s.heap b.batch, b.start⟩

/-- The value-level view of a state (what `Rare.Model.Batcher` calls the loop state). -/
def St.abs (s : St α) : Batcher.LoopSt α :=
  { out := s.out.map s.read, cur := readSlice s.heap s.cur, start := s.start }

/-! ### the seeded variant (not the code) -/

/-- `if len(batch) >= batchSize { batch = make(…) } else { batch = batch[:0] }` after the send. -/
def St.flushSeeded (source : String) (batchSize : Nat) (s : St α) : St α :=
  if s.cur.len ≥ batchSize then s.flush source batchSize
  else { s with cur := { s.cur with len := 0 }, start := s.start + s.cur.len,
                out := s.out ++ [⟨s.cur, source, s.start⟩] }

def stepSeeded (source : String) (batchSize : Nat) (s : St α) (x : α × Bool) : St α :=
  let s1 := s.push x.1
  if s1.cur.len ≥ batchSize || x.2 then s1.flushSeeded source batchSize else s1

end Rare.C15.Batch
