import Rare.Base.Bytes
/-!
Model of `helpers.BuildMatcherFromArguments` (cmd/helpers/extractorBuilder.go): which matcher the flags
`--match`, `--dissect`, `--posix`, `--ignore-case` select and what exactly is handed to the engine.
The engines themselves (Go's `regexp`, dissect = property C12) are not modelled here: their answers are
data.  `AlwaysMatch` (no matcher flag) is modelled: one pair covering the whole line.
-/
namespace Rare.C02

inductive Plan where
  | conflict                                   -- "match and dissect conflict"
  | dissect (expr : Bytes) (ignoreCase : Bool) -- dissect.CompileEx(expr, ignoreCase)
  | regex (expr : Bytes) (posix : Bool)        -- fastregex.CompileEx(expr, posix)
  | always                                     -- &matchers.AlwaysMatch{}
  deriving DecidableEq, Repr

/-- the literal `"(?i)"` -/
def icPrefix : Bytes := [0x28, 0x3f, 0x69, 0x29]

/-- the `switch` of `BuildMatcherFromArguments` -/
def matcherPlan (matchSet dissectSet : Bool) (matchExpr dissectExpr : Bytes) (posix ignoreCase : Bool) : Plan :=
  if matchSet ∧ dissectSet then .conflict
  else if dissectSet then .dissect dissectExpr ignoreCase
  else if matchSet then .regex (if ignoreCase then icPrefix ++ matchExpr else matchExpr) posix
  else .always

/-- `AlwaysMatch.FindSubmatchIndex(b)` = `[]int{0, len(b)}` -/
def alwaysIndices (line : Bytes) : List Int := [0, line.length]

end Rare.C02
