import Rare.Model.C15Multi
import Rare.Model.C01C05TraceOrder
/-!
# C15 — trace inclusion for `TailFilesToChan` / `VerifOpenReaderToChan`

The batcher logs, through the `verifTrace` hooks (build tag `verif`), `src.open` (`so`), `src.err` (`se`),
`sync.begin` (`sb`, with batchSize and autoFlush), `flush` (`fl`: about to send a batch from inside the loop),
`flush.eof` (`fe`: about to send the remainder), `sent` (`st`: that send returned), `sync.end` (`sn`),
`src.close` (`sc`: on entry of `stopFileReading`, which the exit block runs BEFORE `wg.Done()` – a "log, then act"
event for the `finish` transition), `c.close` (`cc`: about to close the channel).  The harness, which is
the consumer, logs `br src start n` after every receive and `bd` when it sees the closed channel.

Two things are checked of such a log.

1. **The batching loop** (`flushLog`, per source).  The log's short in-loop flushes ARE the observed timer
   oracle ("the timer had expired when line `k` was appended" ⇔ a logged `fl` with fewer than `batchSize`
   lines ends at line `k`).  Under that oracle the loop model must produce exactly the logged flushes:
   `BatchStart`, size and REASON – `full` (`len(batch) >= batchSize`, logged as `fl` with `n ≥ batchSize`),
   `timer` (`fl` with `n < batchSize`), `eof` (`fe`, only as the last flush of a stream that ended, and only
   with fewer than `batchSize` lines).  `flushLog` is the loop of `Rare.Batcher`/`Rare.C15.Batch` with the
   lines forgotten (`flushLog_run`); the batches themselves come from `Rare.C15.Tail.tailToChan`/`live` on
   the stream the follow LTS says the follow reader delivered.
2. **The interleaving** (`machine`).  Up to the reorderings "log, then act"/"act, then log" allow
   (`Rare.TraceOrder`), the log is a labelled path of the transition system `Rare.C15.Multi` from `init` to a
   state in which the consumer has seen the end of the stream (plain follow) / to a state with the channel
   still open in which every follower has sent exactly the batches of its `live` state (re-open follow).
-/
namespace Rare.C15.Trace
open Rare.TraceOrder Rare.C15.Multi

/-! ### the batching loop as a flush log -/

inductive Reason | full | timer | eof
  deriving DecidableEq, Repr

structure FlushEv where
  reason : Reason
  start : Nat
  n : Nat
  deriving DecidableEq, Repr

structure FSt where
  cur : Nat            -- len(batch)
  start : Nat          -- batchStart
  log : List FlushEv

/-- one trip: `batch = append(batch, line); if len(batch) >= batchSize || time.Since(last) >= autoFlush { flush }`
    (`||` tests the size first) -/
def fstep (batchSize : Nat) (s : FSt) (expired : Bool) : FSt :=
  let n := s.cur + 1
  if n ≥ batchSize then { cur := 0, start := s.start + n, log := s.log ++ [⟨.full, s.start, n⟩] }
  else if expired then { cur := 0, start := s.start + n, log := s.log ++ [⟨.timer, s.start, n⟩] }
  else { s with cur := n }

/-- after the loop: `if len(batch) > 0 { flush }` -/
def ffinish (s : FSt) : List FlushEv := if s.cur > 0 then s.log ++ [⟨.eof, s.start, s.cur⟩] else s.log

def frun (batchSize : Nat) (oracle : List Bool) : FSt := oracle.foldl (fstep batchSize) ⟨0, 1, []⟩

/-- The flushes of a stream of `oracle.length` lines (`oracle[k]` = the timer had expired at line `k`);
    `ended = false`: the loop is still blocked in `Scan()`. -/
def flushLog (batchSize : Nat) (oracle : List Bool) (ended : Bool) : List FlushEv :=
  if ended then ffinish (frun batchSize oracle) else (frun batchSize oracle).log

/-- (reason-less) flushes logged for source `i`: kind, start, n -/
def loggedFlushes (tr : List Ev) (i : Nat) : List (Bool × Nat × Nat) :=
  tr.filterMap fun e => if (e.kind = "fl" ∨ e.kind = "fe") ∧ e.src = i then some (e.kind == "fe", e.a, e.b) else none

/-- The observed timer oracle of source `i`: the timer had expired at (0-based) line `k` iff an in-loop
    flush with fewer than `batchSize` lines ends with line `k`. -/
def timerOf (batchSize : Nat) (fl : List (Bool × Nat × Nat)) : Nat → Bool :=
  fun k => fl.any fun x => !x.1 && decide (x.2.2 < batchSize) && x.2.1 + x.2.2 == k + 2

/-- does the model's flush log say what the real log says (start, size, reason ↔ event kind)? -/
def flushesAgree (batchSize : Nat) (model : List FlushEv) (fl : List (Bool × Nat × Nat)) : Bool :=
  model.length == fl.length &&
  (model.zip fl).all fun p =>
    p.1.start == p.2.2.1 && p.1.n == p.2.2.2 &&
    (match p.1.reason with
     | .eof => p.2.1
     | .full => !p.2.1 && decide (batchSize ≤ p.1.n)
     | .timer => !p.2.1 && decide (p.1.n < batchSize))

/-! ### the machine -/

structure Cfg where
  fs : List Follower
  flushes : List (List FlushEv)     -- per source: the model's flush log
  B : Nat
  batch : Nat
  single : Bool      -- `VerifOpenReaderToChan`: one goroutine opens, loops and closes
  ends : Bool        -- the run ends (every follower ends, the channel is closed, the consumer sees it)

/-- Program counter of a follower goroutine as far as the log shows it:
    0 not started · 1 `so` · 2 in the loop, between sends · 3 `fl` logged, `st` pending · 4 `fe` logged, `st`
    pending · 5 the remainder was sent · 6 `sn` · 7 `sc`. -/
structure PSt where
  lts : MSt
  pc : List Nat
  acked : Nat          -- number of `br` events so far (the consumer's own record of its receives)
  errs : Nat

def pcOf (ps : PSt) (i : Nat) : Nat := ps.pc.getD i 99

def itemIs (x : Item) (i start n : Nat) : Bool := x.1 == i && x.2.start == start && x.2.lines.length == n

/-- The transitions event `e` stands for in state `ps` (`none`: the event is impossible here). -/
def evLabels (cfg : Cfg) (ps : PSt) (e : Ev) : Option (List Label) :=
  let s := ps.lts
  let i := e.src
  let pc := pcOf ps i
  match e.kind with
  | "so" => if pc == 0 then some [.spawn i] else none
  | "se" => some []
  | "sb" => if pc == 1 && e.a == cfg.batch then some [] else none
  | "fl" | "fe" =>
    if pc != 2 then none else
    match s.ph[i]?, cfg.fs[i]?, cfg.flushes[i]? with
    | some (.running k), some f, some fl =>
      match f.batches[k]?, fl[k]? with
      | some b, some m =>
        if b.start == e.a && b.lines.length == e.b && m.start == e.a && m.n == e.b &&
            (decide (m.reason = .eof) == (e.kind == "fe")) then
          (if s.q.length < cfg.B then some [.send i]
           else if cfg.B == 0 && s.q.isEmpty && ps.acked == s.recvd.length then some [.handoff i]
           else none)
        else none
      | _, _ => none
    | _, _, _ => none
  | "st" =>
    if pc == 3 || pc == 4 then
      match s.ph[i]?, cfg.fs[i]? with
      | some (.running (k + 1)), some f =>
        (match f.batches[k]? with
         | some b => if b.start == e.a && b.lines.length == e.b then some [] else none
         | none => none)
      | _, _ => none
    else none
  | "sn" =>
    if pc == 2 || pc == 5 then
      match s.ph[i]?, cfg.fs[i]? with
      | some (.running k), some f =>
        if k == f.batches.length then (if cfg.single then some [.finish i] else some []) else none
      | _, _ => none
    else none
  | "sc" =>
    if cfg.single then none
    else if pc == 6 then some [.finish i]
    else if pc == 0 then some [.spawn i, .finish i]      -- `followreader.New` failed
    else none
  | "cc" => some [.close]
  | "br" =>
    if ps.acked < s.recvd.length then
      (match s.recvd[ps.acked]? with
       | some x => if itemIs x i e.a e.b then some [] else none
       | none => none)
    else
      (match s.q with
       | x :: _ => if itemIs x i e.a e.b then some [.recv] else none
       | [] => none)
  | "bd" => if ps.acked == s.recvd.length then some [.cdone] else none
  | _ => none

def nextPc (kind : String) (pc : Nat) : Nat :=
  match kind with
  | "so" => 1
  | "sb" => 2
  | "fl" => 3
  | "fe" => 4
  | "st" => if pc == 3 then 2 else 5
  | "sn" => 6
  | "sc" => 7
  | _ => pc

def setPc (pc : List Nat) (i v : Nat) : List Nat := if i < pc.length then pc.set i v else pc

def pstep (cfg : Cfg) (ps : PSt) (e : Ev) : Option PSt :=
  match evLabels cfg ps e with
  | none => none
  | some ls =>
    match applyAll cfg.fs cfg.B ps.lts ls with
    | none => none
    | some s' =>
      some { lts := s', pc := setPc ps.pc e.src (nextPc e.kind (pcOf ps e.src)),
             acked := if e.kind = "br" then ps.acked + 1 else ps.acked,
             errs := if e.kind = "se" then ps.errs + 1 else ps.errs }

/-- every follower has sent all the batches of its model state -/
def allSent (cfg : Cfg) (s : MSt) : Bool :=
  (cfg.fs.zip s.ph).all fun p => sentOf p.1 p.2 == p.1.batches.length

def final (cfg : Cfg) (ps : PSt) : Bool :=
  if cfg.ends then ps.lts.consDone && ps.acked == ps.lts.recvd.length
  else !ps.lts.closed && ps.lts.q.isEmpty && ps.acked == ps.lts.recvd.length && allSent cfg ps.lts

def machine (cfg : Cfg) : Machine PSt := { step := pstep cfg, final := final cfg }

def initSt (cfg : Cfg) : PSt := { lts := init cfg.fs, pc := cfg.fs.map fun _ => 0, acked := 0, errs := 0 }

/-- Search hints (untrusted): sends are the only choice; the consumer is one goroutine, so the order of
    its `br` events is the order in which the sends completed. -/
def lin (tr : List Ev) : Lin PSt :=
  let rp : List ((Nat × Nat) × Nat) :=
    tr.zipIdx.filterMap fun p => if p.1.kind = "br" then some ((p.1.src, p.1.a), p.2) else none
  { isChoice := fun e => e.kind = "fl" ∨ e.kind = "fe",
    rank := fun _ _ p =>
      match rp.find? fun q => q.1 = (p.2.src, p.2.a) with
      | some (_, pos) => some pos
      | none => some (p.1 + 1000000000) }

def kinds : List String := ["so", "se", "sb", "fl", "fe", "st", "sn", "sc", "cc", "br", "bd"]

/-- A small real-shaped log for the non-vacuity examples of `Props/C15`: two followed files (batch size 2,
    buffer 1); file 0 = `a⏎b⏎c⏎` (one full batch, remainder at EOF), file 1 = `x⏎` flushed by its timer. -/
def exampleFollowers : List Follower :=
  [⟨"f0", [⟨[[97], [98]], 1⟩, ⟨[[99]], 3⟩], true⟩, ⟨"f1", [⟨[[120]], 1⟩], true⟩]

def exampleCfg : Cfg :=
  { fs := exampleFollowers,
    flushes := [flushLog 2 [false, false, false] true, flushLog 2 [true] true],
    B := 1, batch := 2, single := false, ends := true }

def exampleLog : List Ev :=
  let mk (g : Nat) (k : String) (src a b : Nat) : Ev := ⟨g, k, src, a, b, []⟩
  [mk 0 "so" 0 0 0, mk 1 "so" 1 0 0, mk 0 "sb" 0 2 250, mk 1 "sb" 1 2 250,
   mk 0 "fl" 0 1 2, mk 1 "fl" 1 1 1, mk 0 "st" 0 1 2, mk 2 "br" 0 1 2, mk 1 "st" 1 1 1, mk 2 "br" 1 1 1,
   mk 1 "sn" 1 0 0, mk 1 "sc" 1 0 0, mk 0 "fe" 0 3 1, mk 0 "st" 0 3 1, mk 0 "sn" 0 0 0, mk 0 "sc" 0 0 0,
   mk 3 "cc" noSrc 0 0, mk 2 "br" 0 3 1, mk 2 "bd" noSrc 0 0]

end Rare.C15.Trace
