import Rare.Model.C16
/-!
C16, the expression context as an OBJECT WITH A HISTORY (pkg/extractor/sliceSpaceExpressionContext.go,
pkg/extractor/extractor.go `asyncWorker` / `processLineSync`).

The extractor does not build a context per match: every worker goroutine owns ONE
`SliceSpaceExpressionContext`, created once with the matcher's name table, and `processLineSync` re-points
it at every matched line by four assignments (`linePtr`, `indices`, `source`, `lineNum`) before `BuildKey`.
Line numbers restart at 1 for every source and all sources go through the same workers, so nothing but
these four assignments separates one match from the next.

`Ctx` is the struct (same field names), `Ctx.load` the four assignments, `Ctx.getKey` the whole `GetKey`
(`src`, `line`, the three views, `@`, a group name, `<NAME>`), `processLine` / `runWorker` the worker's loop
over a history of lines for the expression `{k1}|{k2}|…`.  `extractOf` is the SPEC side: what one line
gives, computed without any context.
-/
namespace Rare.C16

/-- `type SliceSpaceExpressionContext struct` -/
structure Ctx where
  linePtr : Bytes
  indices : List Int
  /-- entries of the map in some iteration order -/
  nameTable : List (Bytes × Int)
  source : Bytes
  lineNum : Nat

/-- what `processLineSync(source, lineNum, line)` has in hand after `FindSubmatchIndex`;
`indices = []` = the matcher did not match -/
structure Hit where
  source : Bytes
  lineNum : Nat
  indices : List Int
  line : Bytes

/-- `asyncWorker`: `&SliceSpaceExpressionContext{nameTable: matcher.SubexpNameTable()}` -/
def Ctx.fresh (nt : List (Bytes × Int)) : Ctx := ⟨[], [], nt, [], 0⟩

/-- `expContext.linePtr = lineStringPtr; expContext.indices = matches; expContext.source = source;
expContext.lineNum = lineNum` -/
def Ctx.load (c : Ctx) (h : Hit) : Ctx :=
  { c with linePtr := h.line, indices := h.indices, source := h.source, lineNum := h.lineNum }

def Ctx.getMatch (c : Ctx) (idx : Int) : Except String Bytes := Rare.C16.getMatch c.indices c.linePtr idx

/-- body of the loop of `array()`: `for i := 1; i < len(s.indices)/2; i++` -/
def arrayStep (c : Ctx) (sb : Bytes) (i : Nat) : Except String Bytes := do
  let v ← c.getMatch (i : Nat)
  pure ((if 1 < i then sb ++ [0] else sb) ++ v)

/-- `array()` (the key `@`) -/
def Ctx.array (c : Ctx) : Except String Bytes :=
  ((List.range (c.indices.length / 2)).drop 1).foldlM (arrayStep c) []

def keySrc : Bytes := [0x73, 0x72, 0x63]
def keyLine : Bytes := [0x6c, 0x69, 0x6e, 0x65]
/-- `stdlib.ErrorArgName` = `<NAME>` -/
def errorArgName : Bytes := [0x3c, 0x4e, 0x41, 0x4d, 0x45, 0x3e]

/-- `GetKey(key)`, the whole switch and the name-table look-up after it -/
def Ctx.getKey (c : Ctx) (key : Bytes) : Except String Bytes :=
  if key = keySrc then .ok c.source
  else if key = keyLine then .ok (natAscii c.lineNum)
  else match getKeyJson key c.nameTable c.indices c.linePtr with
    | some r => r
    | none =>
      if key = [0x40] then c.array
      else match c.nameTable.find? (fun p => p.1 == key) with
        | some p => c.getMatch p.2
        | none => .ok errorArgName

/-- `BuildKey` of the expression `{k1}|{k2}|…|{kn}` (stages: variable, literal `|`, variable, …) -/
def Ctx.buildKeys (c : Ctx) : List Bytes → Except String Bytes
  | [] => .ok []
  | [k] => c.getKey k
  | k :: r => do
    let a ← c.getKey k
    let b ← c.buildKeys r
    pure (a ++ [0x7c] ++ b)

/-- `processLineSync` (without an ignore set): the context afterwards and the `Extracted` of the `Match`
(`none`: unmatched line, or empty key = ignored line) -/
def processLine (keys : List Bytes) (c : Ctx) (h : Hit) : Except String (Ctx × Option Bytes) :=
  if h.indices = [] then .ok (c, none)
  else do
    let k ← (c.load h).buildKeys keys
    pure (c.load h, if k = [] then none else some k)

/-- the worker's loop over everything it is handed, starting from context `c` -/
def runFrom (keys : List Bytes) : Ctx → List Hit → Except String (List (Option Bytes))
  | _, [] => .ok []
  | c, h :: r => do
    let (c', o) ← processLine keys c h
    let os ← runFrom keys c' r
    pure (o :: os)

/-- one worker goroutine of `asyncWorker` over a history of lines -/
def runWorker (keys : List Bytes) (nt : List (Bytes × Int)) (hs : List Hit) : Except String (List (Option Bytes)) :=
  runFrom keys (Ctx.fresh nt) hs

/-! ### the specification side: what ONE line gives, no context anywhere -/

/-- the value of one key for one match: a function of the name table and the match -/
def keyOf (nt : List (Bytes × Int)) (h : Hit) (key : Bytes) : Except String Bytes :=
  (Ctx.load (Ctx.fresh nt) h).getKey key

def extractOf (keys : List Bytes) (nt : List (Bytes × Int)) (h : Hit) : Except String (Option Bytes) :=
  if h.indices = [] then .ok none
  else do
    let k ← (Ctx.load (Ctx.fresh nt) h).buildKeys keys
    pure (if k = [] then none else some k)

end Rare.C16
