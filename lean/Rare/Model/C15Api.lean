import Rare.Spec.C15
/-!
# C15 — the `FollowReader` interface called from ONE goroutine: `Read`, `Drain`, `Close`

The transition systems of `Rare.Model.C15` describe `Read` against a concurrent writer.  This file is the
sequential view of the same two readers (notify.go / poller.go agree on it): one goroutine appends to the file
and calls `Read(buf)`, `Drain()` and `Close()` in any order.

* `Read` of a closed reader answers `io.EOF` (first statement of both `Read`s) – also when bytes are unread;
* otherwise it returns at most `len(buf)` of the unread bytes (`os.File.Read` on a regular file) and would
  BLOCK when nothing is unread (notify: in the `select`; poll: in the attempt loop) – `Res.block`;
* `Drain` seeks to the end (`Seek(0, io.SeekEnd)`; the poller also sets `readBytes`), a no-op without a file;
* `Close` closes the file and sets `closed`; it may be called again.

Ghost: `start` – the offset after the last `Drain` (0 at first), `delivered` – the bytes returned since.
-/
namespace Rare.C15.Api
open Rare.C15.Spec

abbrev Bytes := List UInt8

inductive Call
  | read (n : Nat)
  | drain
  | close
  | append (b : Bytes)
  deriving Repr

inductive Res
  | bytes (b : Bytes)
  | eof
  | block
  | ok
  deriving DecidableEq, Repr

structure St where
  content : Bytes
  pos : Nat
  isOpen : Bool          -- `s.f != nil`
  closed : Bool
  readBytes : Nat        -- the poller's offset
  start : Nat            -- ghost
  delivered : Bytes      -- ghost
  deriving Repr

def init (content : Bytes) : St :=
  { content := content, pos := 0, isOpen := true, closed := false, readBytes := 0, start := 0, delivered := [] }

def step (s : St) : Call → St × Res
  | .read n =>
    if s.closed then (s, .eof)
    else if !s.isOpen then (s, .block)
    else
      let u := (s.content.drop s.pos).take n
      if u.isEmpty then (s, .block)
      else ({ s with pos := s.pos + u.length, readBytes := s.readBytes + u.length, delivered := s.delivered ++ u }, .bytes u)
  | .drain =>
    if s.isOpen then
      ({ s with pos := s.content.length, readBytes := s.content.length, start := s.content.length, delivered := [] }, .ok)
    else (s, .ok)
  | .close => ({ s with isOpen := false, closed := true }, .ok)
  | .append b => ({ s with content := s.content ++ b }, .ok)

/-- run a list of calls; the run stops at a `Read` that would block (the goroutine never comes back) -/
def run : St → List Call → St × List Res
  | s, [] => (s, [])
  | s, c :: cs =>
    match step s c with
    | (s', .block) => (s', [.block])
    | (s', r) => let (s'', rs) := run s' cs; (s'', r :: rs)

end Rare.C15.Api
