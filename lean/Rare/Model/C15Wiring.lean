import Rare.Model.C15
/-!
# C15 — from the command line to the follow reader (the wiring)

    cmd/helpers/extractorBuilder.go  BuildBatcherFromArguments
        follow       = c.Bool("follow") || c.Bool("reopen")          -- -f / -F
        followTail   = c.Bool("tail")                                 -- -t
        followReopen = c.Bool("reopen")
        followPoll   = c.Bool("poll")
        if followPoll && !follow { Fatalf(ExitCodeInvalidUsage, …) }
        if followTail && !follow { Fatalf(ExitCodeInvalidUsage, …) }
        if no arguments or "-"   { … stdin … }
        else if follow           { TailFilesToChan(files, batchSize, batchBuffer, followReopen, followPoll, followTail) }
        else                     { OpenFilesToChan(…, concurrentReaders, …) }
    pkg/extractor/batchers/tailBatcher.go  TailFilesToChan(filenames, batchSize, batchBuffer, reopen, poll, tail)
        one goroutine per file name (no semaphore – `--readers` does not apply to followed files):
        r, err := followreader.New(filename, reopen, poll);  if err != nil { incErrors; return }
        if tail { r.Drain() };  syncReaderToBatcherWithTimeFlush(…)
    pkg/followreader/followreader.go  New(filename, reopen, poll)
        if poll { return NewPolling(filename, reopen) };  return NewNotify(filename, reopen)
    NewNotify / NewPolling: os.Open(filename); a failed Open is an error unless `reopen`;
        the reader's option field (`ReOpen` / `Reopen`) is `reopen`; the poller gets its defaults.

`plan` is that chain as a function of the four flags; `system` names the transition system of
`Rare.Model.C15` (configuration and initial state) the theorems of `Rare.Props.C15` are about for a plan.
-/
namespace Rare.C15.Wiring
open Rare.Follow

structure Flags where
  follow : Bool
  reopen : Bool
  poll : Bool
  tail : Bool
  deriving DecidableEq, Repr

inductive Kind | notify | poll
  deriving DecidableEq, Repr

/-- what `TailFilesToChan` builds for every file name -/
structure Follow where
  kind : Kind
  reopen : Bool
  tail : Bool
  deriving DecidableEq, Repr

inductive Plan
  | usage                 -- `logger.Fatalf(ExitCodeInvalidUsage, …)`
  | files                 -- not following: `OpenFilesToChan`
  | follow (w : Follow)   -- `TailFilesToChan`
  deriving DecidableEq, Repr

/-- `followreader.New(filename, reopen, poll)` -/
def newReader (reopen poll : Bool) : Kind × Bool := (if poll then .poll else .notify, reopen)

/-- `BuildBatcherFromArguments` for file arguments. -/
def plan (fl : Flags) : Plan :=
  let follow := fl.follow || fl.reopen
  if fl.poll && !follow then .usage
  else if fl.tail && !follow then .usage
  else if follow then
    let r := newReader fl.reopen fl.poll
    .follow { kind := r.1, reopen := r.2, tail := fl.tail }
  else .files

/-- `NewNotify` / `NewPolling`: a file that cannot be opened is an error unless `reopen`. -/
def newFails (exists_ reopen : Bool) : Bool := !exists_ && !reopen

/-- the poller's defaults (compared with the regenerated constants in `Props`) -/
def defaultAttempts : Nat := 5
def defaultDelayMs : Nat := 250

/-- one spelling of a flag on the command line -/
def parseFlag (fl : Flags) (tok : String) : Option Flags :=
  match tok with
  | "-f" | "--follow" => some { fl with follow := true }
  | "-F" | "--reopen" => some { fl with reopen := true }
  | "--poll" => some { fl with poll := true }
  | "-t" | "--tail" => some { fl with tail := true }
  | _ => none

def parseFlags (toks : List String) : Option Flags :=
  toks.foldlM parseFlag { follow := false, reopen := false, poll := false, tail := false }

end Rare.C15.Wiring
