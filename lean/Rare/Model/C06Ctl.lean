/-!
Control trees of Go function bodies, as emitted by `harness/extract/c06.go` into
`Rare.Gen.C06`, and their path semantics (used for `sema_balanced`: every execution path of the
reader goroutine of `OpenFilesToChan`, including the early return after a failed open, releases the
semaphore slot exactly once).

A statement list is a linked structure: every constructor carries the rest of its block (`next`).
-/
namespace Rare.C06

inductive Ctl
  | nil
  /-- expression statement / assignment / declaration / channel send (text with white space removed) -/
  | simple (s : String) (next : Ctl)
  | ret (s : String) (next : Ctl)
  | ifS (cond : String) (thn els next : Ctl)
  /-- `for` / `range` -/
  | loop (head : String) (body next : Ctl)
  /-- `go func() { body }()` -/
  | goS (body next : Ctl)
  /-- `defer func() { body }()` or `defer call` -/
  | deferS (body next : Ctl)
  /-- a call taking a function literal (`filepath.Walk(root, func…)`) -/
  | callLit (head : String) (body next : Ctl)
  deriving Repr, DecidableEq

/-! ## What `BuildBatcherFromArguments` decides (the translator emits its body as a function into `Rare.Gen.C06`) -/

/-- an argument of the constructor call that is returned -/
inductive Arg
  | b (v : Bool)                 -- a boolean variable of the `var (…)` block, evaluated
  | i (v : Int)                  -- an integer variable, evaluated
  | glob (recursive : Bool)      -- `dirwalk.GlobExpand(fileglobs, <bool>)`
  | text (s : String)            -- anything else, as source text
  deriving Repr, DecidableEq

inductive Decision
  /-- `logger.Fatalf / Fatalln(<code>, <message> …)`: the process ends here -/
  | fatal (code msg : String)
  /-- `return <callee>(<args>)` after the `logger.Println` warnings passed on the way -/
  | ret (callee : String) (args : List Arg) (warnings : List String)
  | untranslatable
  deriving Repr, DecidableEq

inductive Ev
  | op (s : String)
  | deferred (ops : List String)
  | spawn
  | unsupported
  deriving Repr, DecidableEq

structure CPath where
  evs : List Ev
  returned : Bool
  deriving Repr, DecidableEq

def CPath.cons (e : Ev) (p : CPath) : CPath := { p with evs := e :: p.evs }

/-- The simple statements of a straight-line block (a deferred function body); anything else is
    flagged so that theorems about it fail instead of silently ignoring structure. -/
def straight : Ctl → List String
  | .nil => []
  | .simple s n => s :: straight n
  | .ret _ _ => []
  | .ifS _ _ _ _ => ["<unsupported>"]
  | .loop _ _ _ => ["<unsupported>"]
  | .goS _ _ => ["<unsupported>"]
  | .deferS _ _ => ["<unsupported>"]
  | .callLit _ _ _ => ["<unsupported>"]

/-- Every execution path of a loop-free block.  A goroutine started inside is a separate
    execution (one `spawn` event). -/
def paths : Ctl → List CPath
  | .nil => [⟨[], false⟩]
  | .simple s n => (paths n).map (CPath.cons (.op s))
  | .ret _ _ => [⟨[], true⟩]
  | .ifS _ t e n =>
    (paths t ++ paths e).flatMap fun p =>
      if p.returned then [p] else (paths n).map fun q => ⟨p.evs ++ q.evs, q.returned⟩
  | .loop _ _ n => (paths n).map (CPath.cons .unsupported)
  | .goS _ n => (paths n).map (CPath.cons .spawn)
  | .deferS b n => (paths n).map (CPath.cons (.deferred (straight b)))
  | .callLit _ _ n => (paths n).map (CPath.cons .unsupported)

/-- What a goroutine executes along a path: its statements in order, then — on return or at the end of
    the body — the deferred blocks, last registered first. -/
def trace (p : CPath) : List String :=
  let ops := p.evs.filterMap fun | .op s => some s | .unsupported => some "<unsupported>" | _ => none
  let defers := p.evs.filterMap fun | .deferred d => some d | _ => none
  ops ++ defers.reverse.flatten

def traces (c : Ctl) : List (List String) := (paths c).map trace

/-- The body and continuation of the first `for`/`range` of a block (searching into goroutine bodies). -/
def firstLoop : Ctl → Option Ctl
  | .nil => none
  | .simple _ n => firstLoop n
  | .ret _ n => firstLoop n
  | .ifS _ _ _ n => firstLoop n
  | .loop _ b _ => some b
  | .goS b n => match firstLoop b with | some l => some l | none => firstLoop n
  | .deferS _ n => firstLoop n
  | .callLit _ _ n => firstLoop n

/-- The body of the first goroutine started by a block. -/
def firstGo : Ctl → Option Ctl
  | .nil => none
  | .simple _ n => firstGo n
  | .ret _ n => firstGo n
  | .ifS _ _ _ n => firstGo n
  | .loop _ _ n => firstGo n
  | .goS b _ => some b
  | .deferS _ n => firstGo n
  | .callLit _ _ n => firstGo n

/-- The spawn loop of `OpenFilesToChan` has this shape: statements before the `go`, the goroutine body. -/
def beforeGo : Ctl → List String
  | .simple s n => s :: beforeGo n
  | _ => []

end Rare.C06
