import Rare.Model.C13Lower
import Rare.Model.C18
/-!
C13, `date` mode over the REAL `time.Parse` semantics.

`ByDate` (pkg/aggregation/sorting/dates.go) calls `time.Parse(format, key)` and compares the results
with `Time.Equal` / `Time.Before`, i.e. by the INSTANT `(unix seconds, nanoseconds)` – never by the
wall clock or the zone the key was written in.  `timeParseNs layout key` is that instant, computed
with the model of Go's layout tokenizer and parser of `Rare/Model/C18.lean` (`nextStdChunk`, `parse`,
branch by branch) and the civil calendar of `Rare/Spec/C18.lean`:

    instant = wall-clock seconds of the parsed fields − zone offset written in the key, in ns.

Zone of the key: `Z` / `UTC` → 0; a numeric offset (`-0700`, `-07:00`, `Z07:00`, … every spelling of
`nextStdChunk`) → that offset; nothing → 0 (`time.Parse` defaults to UTC); an abbreviation (`MST`
token) → what `time.Parse` does when `time.Local` has no zone of that name (assumption
`Local = UTC`, pinned by the harness and the CLI step): the fields are read as UTC and a fabricated
zone of that name is attached WITHOUT shifting the instant – also for `GMT±h`, whose offset only ends
up in the attached zone – so the instant is the wall clock.  Layouts with day-of-year tokens are declined (`layoutModelled`).

`dateparse.ParseFormat` stays an oracle: `layoutLib layouts lay` is the `DateLib` in which key `k`
has the layout `lay k` (a byte string; the id is its index in `layouts`) and `time.Parse` is the model.
-/
namespace Rare.C13

/-- What `time.Parse` subtracts from the wall clock of a parsed key (default location UTC).  For an
abbreviation unknown to `time.Local` nothing is subtracted:
`t := Date(…, UTC); …; t.setLoc(FixedZone(zoneName, offset)); return t` (no `addSec`). -/
def parsedOffset (p : C18.Parsed) : Int :=
  match p.zone with
  | .utc => 0
  | .offset o => o
  | .name _ => 0
  | .default => 0

/-- The instant of a parsed key in nanoseconds since the Unix epoch: what `Equal`/`Before` compare. -/
def parsedNs (p : C18.Parsed) : Int :=
  (C18.wallSeconds p.dt - parsedOffset p) * 1000000000 + p.dt.ns

/-- Layouts the model of `time.Parse` covers (no day-of-year tokens). -/
def layoutModelled (layout : Bytes) : Bool := !C18.usesYearDay (C18.tokenize layout)

/-- `t, err := time.Parse(layout, key)`: `none` = error, `some ns` = the instant. -/
def timeParseNs (layout key : Bytes) : Option Int :=
  match C18.parseLayout layout key with
  | .ok p => some (parsedNs p)
  | .error _ => none

/-- `d0.Equal(d1)` – same instant, whatever the zones. -/
def instEqual (d0 d1 : Int) : Bool := d0 == d1

/-- `d0.Before(d1)` -/
def instBefore (d0 d1 : Int) : Bool := decide (d0 < d1)

/-- The decision `ByDate` takes once both keys parsed, statement by statement:

    if d0.Equal(d1) { return a < b }   // Same instant spelled differently
    return d0.Before(d1) -/
def byDateParsed (d0 d1 : Int) (a b : Key) : Bool :=
  if instEqual d0 d1 then bytesLt a b else instBefore d0 d1

/-- Index of a layout in the list of known layouts. -/
def layoutId (layouts : List Bytes) (l : Bytes) : Option Nat :=
  let i := layouts.idxOf l
  if i < layouts.length then some i else none

/-- The date library with `time.Parse` modelled: `lay` = `dateparse.ParseFormat` (oracle, returns the
layout text), layout ids = positions in `layouts`. -/
def layoutLib (layouts : List Bytes) (lay : Key → Option Bytes) : DateLib where
  dfmt := fun k => (lay k).bind (layoutId layouts)
  dparse := fun f k => (layouts[f]?).bind (fun l => timeParseNs l k)

/-- One layout, every key: what `ByDate` sees once it inferred `layout` from the first key. -/
def oneLayoutLib (layout : Bytes) : DateLib := layoutLib [layout] (fun _ => some layout)

end Rare.C13
