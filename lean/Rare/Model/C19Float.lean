import Rare.Model.C19
/-!
Native-`Float` instance of the C19 arithmetic, used ONLY by the drivers, and since the F64 round only
as a CROSS-CHECK of the software binary64 instance (`Model/C19F64.lean`, which is what the driver
reports and what the theorems are about): the C19 driver evaluates both and answers
`model-vs-native …` when two definite answers differ.  No theorem mentions `Float`.  (The C08/C10
drivers still use this instance for `{! …}` through the shared function table.)

A value is `Option Float`: `none` = "tainted", the result went through an operation whose Go
result is not determined by IEEE-754 exactness (`math.Sin`, `math.Pow` outside small integers …);
the driver then answers `unmodelled`.  Everything else (+ − * / sqrt floor ceil round abs,
comparisons, the integer operators on truncated operands, literal conversion) is exact or
correctly rounded on both sides and compared bit for bit.
-/
namespace Rare.C19.F

abbrev FV := Option Float

def pow2 (n : Nat) : Nat := 2 ^ n

/-- Correctly rounded (nearest-even) float64 bit pattern of `p/q ≥ 0` (`q > 0`), without sign.
    Overflow gives the pattern of +Inf. -/
def ratToBits (p q : Nat) : UInt64 :=
  if p = 0 || q = 0 then 0
  else
    let k0 : Int := (p.log2 : Int) - (q.log2 : Int) - 52
    -- normalise so that 2^52 ≤ p / (q·2^k) < 2^53, or k = -1074 (subnormal)
    let quot (k : Int) : Nat × Nat × Nat :=
      let num := if k ≥ 0 then p else p * pow2 (-k).toNat
      let den := if k ≥ 0 then q * pow2 k.toNat else q
      (num / den, num % den, den)
    let k1 : Int := if (quot k0).1 ≥ pow2 53 then k0 + 1 else if (quot k0).1 < pow2 52 then k0 - 1 else k0
    let k : Int := if k1 < -1074 then -1074 else k1
    let (m, rem, den) := quot k
    let m := if 2 * rem > den || (2 * rem == den && m % 2 == 1) then m + 1 else m
    let (m, k) : Nat × Int := if m = pow2 53 then (pow2 52, k + 1) else (m, k)
    if k + 52 > 1023 then 0x7FF0000000000000
    else if m < pow2 52 then UInt64.ofNat m
    else UInt64.ofNat ((k + 52 + 1023).toNat * pow2 52 + (m - pow2 52))

def signBit : UInt64 := 0x8000000000000000

/-- float64 nearest to the rational `n/d` (`d > 0`). -/
def ofRat (n : Int) (d : Nat) : Float :=
  let b := ratToBits n.natAbs d
  Float.ofBits (if n < 0 then b ||| signBit else b)

def ofIntF (v : Int) : Float := ofRat v 1

/-- Exact value of a finite float as `(negative, numerator, log2 of the denominator)`:
    value = ± num / 2^den. -/
def decode (x : Float) : Bool × Nat × Nat :=
  let b := x.toBits
  let neg := b &&& signBit != 0
  let e := ((b >>> 52) &&& 0x7FF).toNat
  let m := (b &&& 0xFFFFFFFFFFFFF).toNat
  if e = 0 then (neg, m, 1074)
  else if e ≥ 1075 then (neg, (pow2 52 + m) * pow2 (e - 1075), 0)
  else (neg, pow2 52 + m, 1075 - e)

def isInt (x : Float) : Bool := x.isFinite && x.floor == x

/-- `int64(x)` as compiled for amd64 (CVTTSD2SQ): truncation; NaN and out-of-range give MinInt64. -/
def trunc64 (x : Float) : Int :=
  if x.isNaN || x ≥ 9223372036854775808.0 || x < -9223372036854775808.0 then minInt64
  else
    let (neg, num, sh) := decode x
    let q : Int := (num / pow2 sh : Nat)
    if neg then -q else q

def cond (b : Bool) : Float := if b then 1.0 else 0.0
def truthy (x : Float) : Bool := x != 0.0

def lift2 (f : Float → Float → Float) : FV → FV → FV
  | some a, some b => some (f a b)
  | _, _ => none

def nanF : Float := 0.0 / 0.0
def infF : Float := 1.0 / 0.0

def isOddInt (y : Float) : Bool :=
  if y.abs ≥ 9007199254740992.0 then false
  else isInt y && (trunc64 y) % 2 != 0

def signbit (x : Float) : Bool := x.toBits &&& signBit != 0

/-- `math.Pow`: the special cases of its documented contract (pow.go's leading `switch`), and the
    general case only where every implementation is exact: integer base and exponent,
    0 ≤ y ≤ 64 and |x|^y ≤ 2^53.  Everything else is tainted. -/
def powF : FV → FV → FV
  | some x, some y =>
    if y == 0.0 || x == 1.0 then some 1.0
    else if y == 1.0 then some x
    else if x.isNaN || y.isNaN then some nanF
    else if x == 0.0 then
      if y < 0.0 then (if signbit x && isOddInt y then some (-infF) else some infF)
      else (if signbit x && isOddInt y then some x else some 0.0)
    else if y.isInf then
      if x == -1.0 then some 1.0
      else if (x.abs < 1.0) == (y > 0.0) then some 0.0
      else some infF
    else if x.isInf then
      if x < 0.0 then
        -- Pow(1/x, -y) = Pow(-0, -y)
        if -y < 0.0 then (if isOddInt y then some (-infF) else some infF)
        else (if isOddInt y then some (-0.0) else some 0.0)
      else if y < 0.0 then some 0.0 else some infF
    else if y == 0.5 then some x.sqrt
    else if y == -0.5 then some (1.0 / x.sqrt)
    else if !isInt y && x < 0.0 then some nanF
    else if isInt x && isInt y && x.abs ≤ 9007199254740992.0 && 0.0 ≤ y && y ≤ 64.0 then
      let r : Int := (trunc64 x) ^ (trunc64 y).toNat
      if r.natAbs ≤ 9007199254740992 then some (ofIntF r) else none
    else none
  | _, _ => none

def exactFns : List (Bytes × (Float → Float)) :=
  [([97, 98, 115], Float.abs), ([115, 113, 114, 116], Float.sqrt),
   ([102, 108, 111, 111, 114], Float.floor), ([99, 101, 105, 108], Float.ceil),
   ([114, 111, 117, 110, 100], Float.round)]

def fnF (name : Bytes) : FV → FV
  | some x =>
    match exactFns.find? (·.1 == name) with
    | some (_, f) => some (f x)
    | none => none
  | none => none

/-- Decimal `m·10^e` as float64; `none` when it rounds to ±Inf (ParseFloat's range error). -/
def ofDecF (m : Nat) (e : Int) : Option FV :=
  if m = 0 then some (some 0.0)
  else
    let digits := (Nat.toDigits 10 m).length
    if (digits : Int) + e > 400 then none
    else if (digits : Int) + e < -400 then some (some 0.0)
    else
      let x := if e ≥ 0 then ofRat (m * 10 ^ e.toNat) 1 else ofRat m (10 ^ (-e).toNat)
      if x.isInf then none else some (some x)

def prim : Prim FV where
  zero := some 0.0
  nan := some nanF
  inf := some infF
  ofInt := fun v => some (ofIntF v)
  parseFloat := decParse ofDecF (some infF) (some nanF)
  add := lift2 (· + ·)
  sub := lift2 (· - ·)
  mul := lift2 (· * ·)
  div := lift2 (· / ·)
  pow := powF
  ltF := lift2 fun a b => cond (a < b)
  leF := lift2 fun a b => cond (a ≤ b)
  eqF := lift2 fun a b => cond (a == b)
  andF := lift2 fun a b => cond (truthy a && truthy b)
  orF := lift2 fun a b => cond (truthy a || truthy b)
  intBin := fun f => lift2 fun a b =>
    match f (trunc64 a) (trunc64 b) with
    | some v => ofIntF v
    | none => nanF
  neg := fun x => x.map (fun a => -a)
  notF := fun x => x.map (fun a => cond (!truthy a))
  fn := fnF

def arith : Arith FV := arithOf prim

/-! ### `strconv.FormatFloat(v, 'f', -1, 64)` -/

def natDigitsB (n : Nat) : Bytes := (Nat.toDigits 10 n).map (fun c => UInt8.ofNat c.toNat)

/-- Shortest decimal `c·10^x` (as digits `c`, exponent `x`) that reads back as the finite
    positive float with bit pattern `bits`; among equally short ones the closest, ties to the even digit. -/
def shortest (bits : UInt64) : Nat × Int :=
  let (_, num, sh) := decode (Float.ofBits bits)
  let den := pow2 sh
  -- E with 10^(E-1) ≤ v < 10^E  (v = num/den)
  let approxE : Int := ((num.log2 : Int) - (sh : Int)) * 30103 / 100000
  let ge10 (E : Int) : Bool := if E ≥ 0 then num ≥ den * 10 ^ E.toNat else num * 10 ^ (-E).toNat ≥ den
  let E0 := approxE - 1
  let E : Int := if ge10 (E0 + 2) then E0 + 3 else if ge10 (E0 + 1) then E0 + 2 else if ge10 E0 then E0 + 1 else E0
  let try_ (n : Nat) : Option (Nat × Int) :=
    let x : Int := E - n                       -- candidates c·10^x with n digits
    let (sn, sd) : Nat × Nat := if x ≥ 0 then (num, den * 10 ^ x.toNat) else (num * 10 ^ (-x).toNat, den)
    let lo := sn / sd
    let rem := sn % sd
    let back (c : Nat) : Bool :=
      (if x ≥ 0 then ratToBits (c * 10 ^ x.toNat) 1 else ratToBits c (10 ^ (-x).toNat)) == bits
    let okLo := back lo
    let okHi := back (lo + 1)
    if okLo && okHi then
      (if 2 * rem < sd || (2 * rem == sd && lo % 2 == 0) then some (lo, x) else some (lo + 1, x))   -- ties: even digit
    else if okLo then some (lo, x)
    else if okHi then some (lo + 1, x)
    else none
  let rec search (fuel n : Nat) : Nat × Int :=
    match fuel with
    | 0 => (num, 0)
    | fuel + 1 =>
      match try_ n with
      | some r => r
      | none => search fuel (n + 1)
  search 18 1

def stripZeros : Nat → Int → Nat → Nat × Int
  | 0, x, c => (c, x)
  | f + 1, x, c => if c ≠ 0 && c % 10 == 0 then stripZeros f (x + 1) (c / 10) else (c, x)

def zerosB (n : Nat) : Bytes := List.replicate n 48

/-- `strconv.FormatFloat(v, 'f', -1, 64)` -/
def formatF (v : Float) : Bytes :=
  if v.isNaN then ascii "NaN"
  else if v.isInf then (if v > 0.0 then ascii "+Inf" else ascii "-Inf")
  else
    let bits := v.toBits
    let neg := bits &&& signBit != 0
    let mag := bits &&& 0x7FFFFFFFFFFFFFFF
    let body : Bytes :=
      if mag == 0 then [48]
      else
        let (c0, x0) := shortest mag
        let (c, x) := stripZeros 400 x0 c0
        let ds := natDigitsB c
        if x ≥ 0 then ds ++ zerosB x.toNat
        else
          let fr := (-x).toNat
          if ds.length > fr then ds.take (ds.length - fr) ++ [46] ++ ds.drop (ds.length - fr)
          else [48, 46] ++ zerosB (fr - ds.length) ++ ds
    if neg then 45 :: body else body

/-! ### `strconv.ParseFloat(s, 64)` on capture text (kfMath's context wrapper) -/

/-- `none` = parse error, `some none` = spelling outside the modelled grammar. -/
def parseFloatText (s : Bytes) : Option FV :=
  let (neg, body) : Bool × Bytes := match s with
    | 43 :: r => (false, r)
    | 45 :: r => (true, r)
    | _ => (false, s)
  let low := body.map lowerB
  let sgn (x : Float) : Float := if neg then -x else x
  if low = [105, 110, 102] || low = [105, 110, 102, 105, 110, 105, 116, 121] then some (some (sgn infF))
  else if low = [110, 97, 110] then (if body.length = s.length then some (some nanF) else none)   -- no sign before "nan"
  else if body.contains 95 || low.take 2 = [48, 120] then some none
  else
    -- mantissa with optional exponent sign
    let (ip, r1) := spanDigits body
    let (fp, r2) : Bytes × Bytes := match r1 with
      | 46 :: r => spanDigits r
      | _ => ([], r1)
    if ip.isEmpty && fp.isEmpty then none
    else
      let mant := digitsVal (ip ++ fp) 0
      let fin (e : Int) : Option FV :=
        match ofDecF mant (e - fp.length) with
        | some (some x) => some (some (sgn x))
        | some none => some none
        | none => none            -- range error
      match r2 with
      | [] => fin 0
      | c :: r3 =>
        if lowerB c = 101 then
          let (eneg, r4) : Bool × Bytes := match r3 with
            | 43 :: r => (false, r)
            | 45 :: r => (true, r)
            | _ => (false, r3)
          let (ep, r5) := spanDigits r4
          if ep.isEmpty || !r5.isEmpty then none
          else if ep.length > 6 then some none
          else fin (if eneg then -(digitsVal ep 0 : Int) else digitsVal ep 0)
        else none

end Rare.C19.F
