import Rare.Model.C02
/-!
Model of the default output of `rare filter` (cmd/filter.go, no `-e`): one `fmt.Println` of
`color.WrapIndices(match.Line, …)` per match, and of what "colour codes removed" means
(`color.StrLen`'s state machine: ESC starts a code, the next `m` ends it).
-/
namespace Rare.C02

/-- bytes of an ASCII string constant, in a form the kernel can evaluate (`Gen.C02` strings) -/
def lit (s : String) : Bytes := s.toList.map fun c => UInt8.ofNat c.toNat

/-- `WrapIndices(s, groups)` including the `!Enabled` early return. -/
def wrapIndicesE (enabled : Bool) (s : Bytes) (colors : List Bytes) (reset : Bytes) (groups : List Int) :
    Except String (List Seg) :=
  if !enabled then .ok [.text s] else wrapIndices s colors reset groups

/-- The body of the `!customExtractor` branch of `filterFunction` for one match:
`len(match.Indices) == wholeLen` highlights the whole match, otherwise `match.Indices[skip:]`
(the groups); `fmt.Println` adds the newline.  `wholeLen = skip = 2` in the source (Gen). -/
def filterLineK (wholeLen skip : Nat) (enabled : Bool) (colors : List Bytes) (reset : Bytes) (line : Bytes)
    (indices : List Int) : Except String (List Seg) :=
  let wrapped :=
    if indices.length = wholeLen then wrapIndicesE enabled line colors reset indices
    else if indices.length < skip then .error "slice bounds out of range"
    else wrapIndicesE enabled line colors reset (indices.drop skip)
  match wrapped with
  | .ok segs => .ok (segs ++ [.text [0x0a]])
  | .error m => .error m

def filterLine := filterLineK 2 2

/-- the line pieces of an output, in order -/
def texts : List Seg → List Bytes
  | [] => []
  | .text b :: r => b :: texts r
  | .code _ :: r => texts r

/-- the inserted codes of an output, in order -/
def codes : List Seg → List Bytes
  | [] => []
  | .text _ :: r => codes r
  | .code b :: r => b :: codes r

/-- `color.StrLen`'s notion of what is *not* a colour code, on bytes: ESC (`esc`) enters a code, the
next `m` leaves it, everything outside a code is visible.  Returns the visible bytes and the final
`inCode`. -/
def visibleRun (esc : UInt8) : Bool → Bytes → Bytes × Bool
  | inCode, [] => ([], inCode)
  | inCode, c :: r =>
    if c = esc then visibleRun esc true r
    else if inCode ∧ c = 0x6d then visibleRun esc false r
    else if ¬ inCode then ((c :: (visibleRun esc false r).1), (visibleRun esc false r).2)
    else visibleRun esc true r

/-- an output "with colour codes removed", byte level -/
def visible (b : Bytes) : Bytes := (visibleRun 0x1b false b).1

end Rare.C02
