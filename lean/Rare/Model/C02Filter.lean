import Rare.Model.C02
import Rare.Base.GoInt
/-!
Model of the default output of `rare filter` (cmd/filter.go, no `-e`): one `fmt.Println` of
`color.WrapIndices(match.Line, …)` per match, and of what "colour codes removed" means
(`color.StrLen`'s state machine: ESC starts a code, the next `m` ends it).
-/
namespace Rare.C02

/-- bytes of an ASCII string constant, in a form the kernel can evaluate (`Gen.C02` strings) -/
def lit (s : String) : Bytes := s.toList.map fun c => UInt8.ofNat c.toNat

/-- `WrapIndices(s, groups)` including the `!Enabled` early return. -/
def wrapIndicesE (enabled : Bool) (s : Bytes) (colors : List Bytes) (reset : Bytes) (groups : List Int) :
    Except String (List Seg) :=
  if !enabled then .ok [.text s] else wrapIndices s colors reset groups

/-- The body of the `!customExtractor` branch of `filterFunction` for one match:
`len(match.Indices) == wholeLen` highlights the whole match, otherwise `match.Indices[skip:]`
(the groups); `fmt.Println` adds the newline.  `wholeLen = skip = 2` in the source (Gen). -/
def filterLineK (wholeLen skip : Nat) (enabled : Bool) (colors : List Bytes) (reset : Bytes) (line : Bytes)
    (indices : List Int) : Except String (List Seg) :=
  let wrapped :=
    if indices.length = wholeLen then wrapIndicesE enabled line colors reset indices
    else if indices.length < skip then .error "slice bounds out of range"
    else wrapIndicesE enabled line colors reset (indices.drop skip)
  match wrapped with
  | .ok segs => .ok (segs ++ [.text [0x0a]])
  | .error m => .error m

def filterLine := filterLineK 2 2

/-- the line pieces of an output, in order -/
def texts : List Seg → List Bytes
  | [] => []
  | .text b :: r => b :: texts r
  | .code _ :: r => texts r

/-- the inserted codes of an output, in order -/
def codes : List Seg → List Bytes
  | [] => []
  | .text _ :: r => codes r
  | .code b :: r => b :: codes r

/-- `color.StrLen`'s notion of what is *not* a colour code, on bytes: ESC (`esc`) enters a code, the
next `m` leaves it, everything outside a code is visible.  Returns the visible bytes and the final
`inCode`. -/
def visibleRun (esc : UInt8) : Bool → Bytes → Bytes × Bool
  | inCode, [] => ([], inCode)
  | inCode, c :: r =>
    if c = esc then visibleRun esc true r
    else if inCode ∧ c = 0x6d then visibleRun esc false r
    else if ¬ inCode then ((c :: (visibleRun esc false r).1), (visibleRun esc false r).2)
    else visibleRun esc true r

/-- an output "with colour codes removed", byte level -/
def visible (b : Bytes) : Bytes := (visibleRun 0x1b false b).1

/-! ### the whole output loop of `filterFunction`: `--line` prefix, `--extract`, `--num` -/

/-- `color.Wrap(color, s)`: the reset is not repeated when `s` already ends with it -/
def wrapE (enabled : Bool) (color reset s : Bytes) : List Seg :=
  if !enabled then [.text s]
  else
    [.code color, .text s] ++
      (if s.length < reset.length ∨ s.drop (s.length - reset.length) ≠ reset then [.code reset] else [])

/-- an `extractor.Match` as `filter` uses it -/
structure FMatch where
  source : Bytes
  lineNum : Nat
  line : Bytes
  indices : List Int
  extracted : Bytes

/-- the palette `filterFunction` needs: group colours, reset, colour of the source name, colour of the line number -/
structure Palette where
  groups : List Bytes
  reset : Bytes
  src : Bytes
  num : Bytes

/-- `fmt.Printf("%s %s: ", color.Wrap(BrightGreen, match.Source), color.Wrapi(BrightYellow, match.LineNumber))` -/
def filterPrefix (enabled : Bool) (p : Palette) (m : FMatch) : List Seg :=
  wrapE enabled p.src p.reset m.source ++ [.text [0x20]] ++ wrapE enabled p.num p.reset (itoa m.lineNum) ++
    [.text [0x3a, 0x20]]

/-- the body of the loop for one match -/
def filterOne (enabled writeLines custom : Bool) (p : Palette) (m : FMatch) : Except String (List Seg) :=
  let pre := if writeLines then filterPrefix enabled p m else []
  if !custom then
    match filterLine enabled p.groups p.reset m.line m.indices with
    | .ok segs => .ok (pre ++ segs)
    | .error e => .error e
  else .ok (pre ++ [.text m.extracted, .text [0x0a]])

/-- the `OUTER_LOOP` of `filterFunction`: `num` = `numLineLimit` (`0` = no limit), last argument = `readLines` -/
def filterAll (enabled writeLines custom : Bool) (p : Palette) (num : Nat) : List FMatch → Nat → Except String (List Seg)
  | [], _ => .ok []
  | m :: ms, readLines =>
    match filterOne enabled writeLines custom p m with
    | .error e => .error e
    | .ok segs =>
      if num > 0 ∧ readLines + 1 ≥ num then .ok segs
      else
        match filterAll enabled writeLines custom p num ms (readLines + 1) with
        | .ok rest => .ok (segs ++ rest)
        | .error e => .error e

end Rare.C02
