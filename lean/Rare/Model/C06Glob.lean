import Rare.Base.Bytes
import Rare.Spec.C20
/-!
Model of Go's `path/filepath` `Match` (Unix flavour, go1.23 `src/path/filepath/match.go`), mirrored
function by function:

* `getEsc`      → `getEsc`
* `matchChunk`  → `matchChunk` (`mcLoop`, class loop `classLoop`), including the `failed` flag: after
                  the match has failed the chunk is still parsed to its end, so a malformed chunk is
                  reported even when the name does not fit
* `scanChunk`   → `scanChunk` (`scanLen` = the index where the scan loop stops)
* `Match`       → `goMatch` (`goMatchF`; the loop `for i := 0; i < len(name) && name[i] != '/'` is
                  `starLoop`)

Quirks kept as they are: `*` skips BYTES while `?` and classes read UTF-8 characters; a class may
match `/`; `filepath.Match` (unlike `path.Match`) does not validate the part of the pattern it never
reaches, so a malformed pattern gives `ErrBadPattern` only when the matcher gets as far as the
malformed chunk (`a*[` is an error against `ab` and plain "no match" against `b`).

Strings are byte lists; `utf8.DecodeRuneInString` is `Rare.C20.decode1`.  Loops whose Go variant
is "the rest of the chunk gets shorter" carry a fuel argument (the chunk length suffices).
-/
namespace Rare.C06.Glob
open Rare.C20 (decode1)

/-- `getEsc`: a possibly escaped character of a class and the rest of the chunk; `none` = `ErrBadPattern`. -/
def getEsc (chunk : Bytes) : Option (Nat × Bytes) :=
  match chunk with
  | [] => none
  | c :: tl =>
    if c = 45 ∨ c = 93 then none          -- '-' , ']'
    else
      let chunk1 := if c = 92 then tl else chunk      -- '\\'
      if chunk1 = [] then none
      else
        let d := decode1 chunk1
        if d.1 = 0xFFFD ∧ d.2 = 1 then none        -- utf8.RuneError with width 1
        else
          let nchunk := chunk1.drop d.2
          if nchunk = [] then none else some (d.1, nchunk)

/-- the `for { … }` that parses the ranges of one class; answers (match, rest of the chunk). -/
def classLoop : Nat → Bytes → Nat → Bool → Nat → Option (Bool × Bytes)
  | 0, _, _, _, _ => none
  | f + 1, chunk, r, m, nrange =>
    if chunk.head? = some 93 ∧ nrange > 0 then some (m, chunk.tail)
    else match getEsc chunk with
      | none => none
      | some (lo, chunk1) =>
        match (if chunk1.head? = some 45 then getEsc chunk1.tail else some (lo, chunk1)) with
        | none => none
        | some (hi, chunk2) => classLoop f chunk2 r (m || (decide (lo ≤ r) && decide (r ≤ hi))) (nrange + 1)

/-- Answer of `matchChunk`: `bad` = `ErrBadPattern`, `ok none` = no match, `ok (some rest)`. -/
inductive ChunkRes
  | bad
  | ok (rest : Option Bytes)
  deriving DecidableEq, Repr

/-- the loop of `matchChunk` -/
def mcLoop : Nat → Bytes → Bytes → Bool → ChunkRes
  | _, [], s, failed => if failed then .ok none else .ok (some s)
  | 0, _ :: _, _, _ => .bad
  | f + 1, c :: ctl, s, failed0 =>
    let failed := failed0 || s.isEmpty
    if c = 91 then                       -- '['
      let r := if failed then 0 else (decode1 s).1
      let s1 := if failed then s else s.drop (decode1 s).2
      let negated := ctl.head? = some 94
      let chunk1 := if negated then ctl.tail else ctl
      match classLoop (f + 1) chunk1 r false 0 with
      | none => .bad
      | some (m, chunk2) => mcLoop f chunk2 s1 (failed || (m == negated))
    else if c = 63 then                  -- '?'
      let failed1 := failed || (s.head? == some 47)
      let s1 := if failed then s else s.drop (decode1 s).2
      mcLoop f ctl s1 failed1
    else if c = 92 then                  -- '\\'
      match ctl with
      | [] => .bad
      | c1 :: ctl1 =>
        let failed1 := failed || (s.head? != some c1)
        let s1 := if failed then s else s.tail
        mcLoop f ctl1 s1 failed1
    else
      let failed1 := failed || (s.head? != some c)
      let s1 := if failed then s else s.tail
      mcLoop f ctl s1 failed1

/-- `matchChunk(chunk, s)` -/
def matchChunk (chunk s : Bytes) : ChunkRes := mcLoop (chunk.length + 1) chunk s false

/-- index at which the scan loop of `scanChunk` stops (`inrange` is its flag) -/
def scanLen : Bool → Bytes → Nat
  | _, [] => 0
  | inr, c :: cs =>
    if c = 92 then
      match cs with
      | [] => 1
      | _ :: cs' => 2 + scanLen inr cs'
    else if c = 91 then 1 + scanLen true cs
    else if c = 93 then 1 + scanLen false cs
    else if c = 42 ∧ inr = false then 0
    else 1 + scanLen inr cs

/-- `scanChunk(pattern)`: (star, chunk, rest) -/
def scanChunk (pattern : Bytes) : Bool × Bytes × Bytes :=
  let p := pattern.dropWhile (· == 42)
  let star := pattern.head? == some 42
  let i := scanLen false p
  (star, p.take i, p.drop i)

/-- the loop `for i := 0; i < len(name) && name[i] != '/'; i++` of `Match`: tries the chunk after
    skipping 1, 2, … bytes; `last` = this is the last chunk (then the name must be used up). -/
def starLoop (chunk : Bytes) (last : Bool) : Bytes → ChunkRes
  | [] => .ok none
  | c :: rest =>
    if c = 47 then .ok none
    else match matchChunk chunk rest with
      | .bad => .bad
      | .ok (some t) => if last && !t.isEmpty then starLoop chunk last rest else .ok (some t)
      | .ok none => starLoop chunk last rest

/-- Answer of `Match`. -/
inductive MatchRes
  | matched (b : Bool)
  | badPattern
  | outOfFuel
  deriving DecidableEq, Repr

def goMatchF : Nat → Bytes → Bytes → MatchRes
  | _, [], name => .matched name.isEmpty
  | 0, _ :: _, _ => .outOfFuel
  | f + 1, pattern@(_ :: _), name =>
    let (star, chunk, rest) := scanChunk pattern
    if star && chunk.isEmpty then .matched (!name.contains 47)
    else
      let r := matchChunk chunk name
      match r with
      | .ok (some t) =>
        if t.isEmpty || !rest.isEmpty then goMatchF f rest t
        else if star then
          match starLoop chunk rest.isEmpty name with
          | .bad => .badPattern
          | .ok (some t') => goMatchF f rest t'
          | .ok none => .matched false
        else .matched false
      | .bad => .badPattern
      | .ok none =>
        if star then
          match starLoop chunk rest.isEmpty name with
          | .bad => .badPattern
          | .ok (some t') => goMatchF f rest t'
          | .ok none => .matched false
        else .matched false

/-- `filepath.Match(pattern, name)` -/
def goMatch (pattern name : Bytes) : MatchRes := goMatchF (pattern.length + 1) pattern name

/-- `hasMeta(path)`: contains one of `*?[\` -/
def hasMeta (path : Bytes) : Bool := path.any fun c => c == 42 || c == 63 || c == 91 || c == 92

end Rare.C06.Glob
