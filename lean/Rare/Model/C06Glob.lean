import Rare.Base.Bytes
import Rare.Spec.C20
/-!
Model of Go's `path/filepath` `Match` (Unix flavour, go1.23 `src/path/filepath/match.go`), mirrored
function by function:

* `getEsc`      → `getEsc`
* `matchChunk`  → `matchChunk` (`mcLoop`, class loop `classLoop`), including the `failed` flag: after
                  the match has failed the chunk is still parsed to its end, so a malformed chunk is
                  reported even when the name does not fit
* `scanChunk`   → `scanChunk` (`scanLen` = the index where the scan loop stops)
* `Match`       → `goMatch` (`goMatchF`; the loop `for i := 0; i < len(name) && name[i] != '/'` is
                  `starLoop`)

Quirks kept as they are: `*` skips BYTES while `?` and classes read UTF-8 characters; a class may
match `/`; `filepath.Match` (unlike `path.Match`) does not validate the part of the pattern it never
reaches, so a malformed pattern gives `ErrBadPattern` only when the matcher gets as far as the
malformed chunk (`a*[` is an error against `ab` and plain "no match" against `b`).

Strings are byte lists; `utf8.DecodeRuneInString` is `Rare.C20.decode1`.  Loops whose Go variant
is "the rest of the chunk gets shorter" carry a fuel argument (the chunk length suffices).
-/
namespace Rare.C06.Glob
open Rare.C20 (decode1)

/-- `getEsc`: a possibly escaped character of a class and the rest of the chunk; `none` = `ErrBadPattern`. -/
def getEsc (chunk : Bytes) : Option (Nat × Bytes) :=
  match chunk with
  | [] => none
  | c :: tl =>
    if c = 45 ∨ c = 93 then none          -- '-' , ']'
    else
      let chunk1 := if c = 92 then tl else chunk      -- '\\'
      if chunk1 = [] then none
      else
        let d := decode1 chunk1
        if d.1 = 0xFFFD ∧ d.2 = 1 then none        -- utf8.RuneError with width 1
        else
          let nchunk := chunk1.drop d.2
          if nchunk = [] then none else some (d.1, nchunk)

/-- the `for { … }` that parses the ranges of one class; answers (match, rest of the chunk). -/
def classLoop : Nat → Bytes → Nat → Bool → Nat → Option (Bool × Bytes)
  | 0, _, _, _, _ => none
  | f + 1, chunk, r, m, nrange =>
    if chunk.head? = some 93 ∧ nrange > 0 then some (m, chunk.tail)
    else match getEsc chunk with
      | none => none
      | some (lo, chunk1) =>
        match (if chunk1.head? = some 45 then getEsc chunk1.tail else some (lo, chunk1)) with
        | none => none
        | some (hi, chunk2) => classLoop f chunk2 r (m || (decide (lo ≤ r) && decide (r ≤ hi))) (nrange + 1)

/-- Answer of `matchChunk`: `bad` = `ErrBadPattern`, `ok none` = no match, `ok (some rest)`. -/
inductive ChunkRes
  | bad
  | ok (rest : Option Bytes)
  deriving DecidableEq, Repr

/-- the loop of `matchChunk` -/
def mcLoop : Nat → Bytes → Bytes → Bool → ChunkRes
  | _, [], s, failed => if failed then .ok none else .ok (some s)
  | 0, _ :: _, _, _ => .bad
  | f + 1, c :: ctl, s, failed0 =>
    let failed := failed0 || s.isEmpty
    if c = 91 then                       -- '['
      let r := if failed then 0 else (decode1 s).1
      let s1 := if failed then s else s.drop (decode1 s).2
      let negated := ctl.head? = some 94
      let chunk1 := if negated then ctl.tail else ctl
      match classLoop (f + 1) chunk1 r false 0 with
      | none => .bad
      | some (m, chunk2) => mcLoop f chunk2 s1 (failed || (m == negated))
    else if c = 63 then                  -- '?'
      let failed1 := failed || (s.head? == some 47)
      let s1 := if failed then s else s.drop (decode1 s).2
      mcLoop f ctl s1 failed1
    else if c = 92 then                  -- '\\'
      match ctl with
      | [] => .bad
      | c1 :: ctl1 =>
        let failed1 := failed || (s.head? != some c1)
        let s1 := if failed then s else s.tail
        mcLoop f ctl1 s1 failed1
    else
      let failed1 := failed || (s.head? != some c)
      let s1 := if failed then s else s.tail
      mcLoop f ctl s1 failed1

/-- `matchChunk(chunk, s)` -/
def matchChunk (chunk s : Bytes) : ChunkRes := mcLoop (chunk.length + 1) chunk s false

/-- index at which the scan loop of `scanChunk` stops (`inrange` is its flag) -/
def scanLen : Bool → Bytes → Nat
  | _, [] => 0
  | inr, c :: cs =>
    if c = 92 then
      match cs with
      | [] => 1
      | _ :: cs' => 2 + scanLen inr cs'
    else if c = 91 then 1 + scanLen true cs
    else if c = 93 then 1 + scanLen false cs
    else if c = 42 ∧ inr = false then 0
    else 1 + scanLen inr cs

/-- `scanChunk(pattern)`: (star, chunk, rest) -/
def scanChunk (pattern : Bytes) : Bool × Bytes × Bytes :=
  let p := pattern.dropWhile (· == 42)
  let star := pattern.head? == some 42
  let i := scanLen false p
  (star, p.take i, p.drop i)

/-- the loop `for i := 0; i < len(name) && name[i] != '/'; i++` of `Match`: tries the chunk after
    skipping 1, 2, … bytes; `last` = this is the last chunk (then the name must be used up). -/
def starLoop (chunk : Bytes) (last : Bool) : Bytes → ChunkRes
  | [] => .ok none
  | c :: rest =>
    if c = 47 then .ok none
    else match matchChunk chunk rest with
      | .bad => .bad
      | .ok (some t) => if last && !t.isEmpty then starLoop chunk last rest else .ok (some t)
      | .ok none => starLoop chunk last rest

/-- Answer of `Match`. -/
inductive MatchRes
  | matched (b : Bool)
  | badPattern
  | outOfFuel
  deriving DecidableEq, Repr

def goMatchF : Nat → Bytes → Bytes → MatchRes
  | _, [], name => .matched name.isEmpty
  | 0, _ :: _, _ => .outOfFuel
  | f + 1, pattern@(_ :: _), name =>
    let (star, chunk, rest) := scanChunk pattern
    if star && chunk.isEmpty then .matched (!name.contains 47)
    else
      let r := matchChunk chunk name
      match r with
      | .ok (some t) =>
        if t.isEmpty || !rest.isEmpty then goMatchF f rest t
        else if star then
          match starLoop chunk rest.isEmpty name with
          | .bad => .badPattern
          | .ok (some t') => goMatchF f rest t'
          | .ok none => .matched false
        else .matched false
      | .bad => .badPattern
      | .ok none =>
        if star then
          match starLoop chunk rest.isEmpty name with
          | .bad => .badPattern
          | .ok (some t') => goMatchF f rest t'
          | .ok none => .matched false
        else .matched false

/-- `filepath.Match(pattern, name)` -/
def goMatch (pattern name : Bytes) : MatchRes := goMatchF (pattern.length + 1) pattern name

/-- `hasMeta(path)`: contains one of `*?[\` -/
def hasMeta (path : Bytes) : Bool := path.any fun c => c == 42 || c == 63 || c == 91 || c == 92

/-! ## An abstract file system

A finite tree of names: every node is a regular file, a symbolic link (with its target text) or a
directory (its entries in no particular order – everything that lists a directory sorts the names, as
`os.ReadDir`, `filepath.Glob` and `filepath.Walk` do).  The tree is the whole world: its root is both
`/` and the working directory, `..` of the root is the root.

Path resolution (`lstat`, `stat`, `readDirNames`) follows path_resolution(7): components separated by
runs of `/`, `.` and `..`, symbolic links expanded relative to the directory that contains them (at most
40 per look-up, ELOOP after that), a trailing `/` forces the last component to be (or resolve to) a
directory, `lstat` does not follow a link in the last component unless a `/` follows it.  Not modelled:
permissions (the checks run as root), `PATH_MAX`/`NAME_MAX`, devices/fifos/sockets. -/

abbrev Name := Bytes

mutual
  inductive Node
    | file
    | link (target : Bytes)
    | dir (ents : Ents)
  inductive Ents
    | nil
    | cons (name : Name) (node : Node) (rest : Ents)
end

def Ents.find (n : Name) : Ents → Option Node
  | .nil => none
  | .cons m node rest => if m = n then some node else rest.find n

def Ents.names : Ents → List Name
  | .nil => []
  | .cons m _ rest => m :: rest.names

def Node.isDir : Node → Bool
  | .dir _ => true
  | _ => false

/-- the node at a physical location (a list of names of real directories, then any node) -/
def Node.at : Node → List Name → Option Node
  | n, [] => some n
  | .dir ents, c :: cs => match ents.find c with
    | some child => child.at cs
    | none => none
  | _, _ :: _ => none

/-- the pieces of a path between its `/`s (empty pieces for `//`, a leading or a trailing `/`) -/
def splitSlash : Bytes → List Bytes
  | [] => [[]]
  | c :: cs =>
    if c = 47 then [] :: splitSlash cs
    else match splitSlash cs with
      | [] => [[c]]
      | h :: t => (c :: h) :: t

/-- the components of a path -/
def comps (path : Bytes) : List Name := (splitSlash path).filter (· ≠ [])

def dot : Name := [46]
def dotdot : Name := [46, 46]

/-- where a look-up stands: the physical location of the current directory and the number of symbolic
    links followed so far -/
structure RState where
  stack : List Name
  links : Nat
  deriving Repr, DecidableEq

def maxSymlinks : Nat := 40

/-- one component that has to be a directory; `fl` follows a symbolic link (`none` = error) -/
def enterStep (fl : RState → Bytes → Option RState) (root : Node) (st : RState) (c : Name) : Option RState :=
  if c = dot then some st
  else if c = dotdot then some { st with stack := st.stack.dropLast }
  else match root.at (st.stack ++ [c]) with
    | none => none                                        -- ENOENT
    | some .file => none                                  -- ENOTDIR
    | some (.dir _) => some { st with stack := st.stack ++ [c] }
    | some (.link t) =>
      if st.links ≥ maxSymlinks then none                 -- ELOOP
      else fl { st with links := st.links + 1 } t

/-- walk through components that all have to be directories; the first argument bounds the nesting of
    symbolic links (never reached before the total of 40 is) -/
def enter : Nat → Node → RState → List Name → Option RState
  | 0, root, st, cs => cs.foldlM (enterStep (fun _ _ => none) root) st
  | d + 1, root, st, cs =>
    cs.foldlM (enterStep (fun st' t =>
      if t = [] then none
      else enter d root { st' with stack := if t.head? = some 47 then [] else st'.stack } (comps t)) root) st

def dirNodeAt (root : Node) (stack : List Name) : Option Node :=
  match root.at stack with
  | some (.dir e) => some (.dir e)
  | _ => none

/-- resolve `path` from the directory `st`; `follow` = follow a symbolic link in the last component -/
def resolveAt : Nat → Node → RState → Bytes → Bool → Option Node
  | d, root, st, path, follow =>
    if path = [] then none                          -- ENOENT
    else if path.contains 0 then none               -- EINVAL
    else
      let st0 : RState := if path.head? = some 47 then { st with stack := [] } else st
      let cs := comps path
      match cs.getLast? with
      | none => dirNodeAt root st0.stack             -- "/", "//", …
      | some last =>
        match enter d root st0 cs.dropLast with
        | none => none
        | some st1 =>
          if path.getLast? = some 47 ∨ last = dot ∨ last = dotdot then
            match enter d root st1 [last] with
            | none => none
            | some st2 => dirNodeAt root st2.stack
          else match root.at (st1.stack ++ [last]) with
            | none => none
            | some (.link t) =>
              if follow then
                if st1.links ≥ maxSymlinks then none
                else match d with
                  | 0 => none
                  | d' + 1 => resolveAt d' root { st1 with links := st1.links + 1 } t true
              else some (.link t)
            | some n => some n

def rootState : RState := ⟨[], 0⟩

/-- `os.Lstat(path)`: the node, `none` = any error -/
def lstat (root : Node) (path : Bytes) : Option Node := resolveAt maxSymlinks root rootState path false
/-- `os.Stat(path)` -/
def stat (root : Node) (path : Bytes) : Option Node := resolveAt maxSymlinks root rootState path true

/-- bytewise lexicographic `≤` (Go's string order) -/
def lexLe : Bytes → Bytes → Bool
  | [], _ => true
  | _ :: _, [] => false
  | a :: as, b :: bs => a < b || (a == b && lexLe as bs)

def insertName (n : Name) : List Name → List Name
  | [] => [n]
  | m :: ms => if lexLe n m then n :: m :: ms else m :: insertName n ms

/-- `slices.Sort(names)` (as an insertion sort: the sorted arrangement of distinct names is unique) -/
def sortNames (names : List Name) : List Name := names.foldr insertName []

/-- `os.Open(dir)` + `Readdirnames(-1)` + sort -/
def readDirNames (root : Node) (path : Bytes) : Option (List Name) :=
  match stat root path with
  | some (.dir ents) => some (sortNames ents.names)
  | _ => none

/-- what a directory entry is called on a real file system: not empty, no `/`, no NUL, not `.` or `..` -/
def NormalName (n : Name) : Prop := n ≠ [] ∧ (47 : UInt8) ∉ n ∧ (0 : UInt8) ∉ n ∧ n ≠ dot ∧ n ≠ dotdot

mutual
  /-- a well-formed tree: every entry has a proper name, names within a directory are distinct -/
  def Node.WF : Node → Prop
    | .dir e => e.WF
    | _ => True
  def Ents.WF : Ents → Prop
    | .nil => True
    | .cons n node rest => NormalName n ∧ n ∉ rest.names ∧ node.WF ∧ rest.WF
end

/-! ## `filepath.Clean`, `Join`, `Split` -/

def intercalateSlash : List Bytes → Bytes
  | [] => []
  | [a] => a
  | a :: b :: rest => a ++ 47 :: intercalateSlash (b :: rest)

/-- what `Clean` does with one component, given the components kept so far -/
def cleanStep (rooted : Bool) (stack : List Bytes) (c : Bytes) : List Bytes :=
  if c = [] ∨ c = dot then stack
  else if c = dotdot then
    if stack ≠ [] ∧ stack.getLast? ≠ some dotdot then stack.dropLast
    else if rooted then stack
    else stack ++ [dotdot]
  else stack ++ [c]

/-- `filepath.Clean` (component-wise formulation) -/
def clean (path : Bytes) : Bytes :=
  if path = [] then dot
  else
    let rooted : Bool := path.head? = some 47
    let out := (splitSlash path).foldl (cleanStep rooted) []
    let s := intercalateSlash out
    if rooted then 47 :: s else if s = [] then dot else s

/-- `filepath.Join(a, b)` -/
def join (a b : Bytes) : Bytes :=
  if a = [] ∧ b = [] then []
  else if a = [] then clean b
  else if b = [] then clean a
  else clean (a ++ 47 :: b)

/-- `filepath.Split(path)`: up to and including the last `/`, and the rest -/
def splitPath (path : Bytes) : Bytes × Bytes :=
  let file := (path.reverse.takeWhile (· ≠ 47)).reverse
  (path.take (path.length - file.length), file)

/-- `cleanGlobPath` -/
def cleanGlobPath (path : Bytes) : Bytes :=
  if path = [] then dot
  else if path = [47] then path
  else path.dropLast

/-! ## `filepath.Glob` -/

inductive GlobOut
  | badPattern
  | ok (l : List Bytes)
  deriving DecidableEq, Repr

/-- the loop `for _, n := range names` of `glob` -/
def globNames (dir pattern : Bytes) : List Name → List Bytes → GlobOut
  | [], m => .ok m
  | n :: ns, m =>
    match goMatch pattern n with
    | .matched true => globNames dir pattern ns (m ++ [join dir n])
    | .matched false => globNames dir pattern ns m
    | _ => .badPattern

/-- `glob(dir, pattern, matches)`; errors of the file system are ignored, `ErrBadPattern` is not
    (the partial result it comes with is dropped: no caller looks at it) -/
def globDir (root : Node) (dir pattern : Bytes) (m : List Bytes) : GlobOut :=
  match readDirNames root dir with
  | none => .ok m
  | some names => globNames dir pattern names m

def globDirs (root : Node) (file : Bytes) : List Bytes → List Bytes → GlobOut
  | [], m => .ok m
  | d :: ds, m =>
    match globDir root d file m with
    | .badPattern => .badPattern
    | .ok m' => globDirs root file ds m'

def pathSeparatorsLimit : Nat := 10000

/-- `globWithLimit(pattern, depth)`; the fuel is `pathSeparatorsLimit - depth` -/
def globF : Nat → Node → Bytes → GlobOut
  | 0, _, _ => .badPattern
  | f + 1, root, pattern =>
    match goMatch pattern [] with
    | .matched _ =>
      if !hasMeta pattern then
        if (lstat root pattern).isSome then .ok [pattern] else .ok []
      else
        let (dir0, file) := splitPath pattern
        let dir := cleanGlobPath dir0
        if !hasMeta dir then globDir root dir file []
        else if dir = pattern then .badPattern
        else match globF f root dir with
          | .badPattern => .badPattern
          | .ok m => globDirs root file m []
    | _ => .badPattern

/-- `filepath.Glob(pattern)` -/
def glob (root : Node) (pattern : Bytes) : GlobOut := globF pathSeparatorsLimit root pattern

/-! ## `filepath.Walk` with rare's callback

The callback returns the error it is handed (which ends the walk) and sends every path whose
`Lstat` is not a directory; what was sent before an error stays sent, so the answer is the list of
paths sent and whether the walk ran to its end. -/

mutual
  def Node.size : Node → Nat
    | .dir e => 1 + e.size
    | _ => 1
  def Ents.size : Ents → Nat
    | .nil => 0
    | .cons _ n rest => n.size + rest.size
end

/-- the loop `for _, name := range names` of `walk`; `rec` is `walk` itself one level down -/
def walkNames (rec : Bytes → Node → List Bytes × Bool) (root : Node) (path : Bytes) : List Name → List Bytes × Bool
  | [] => ([], true)
  | name :: rest =>
    let filename := join path name
    match lstat root filename with
    | none => ([], false)
    | some fi =>
      let r := rec filename fi
      if r.2 then
        let r2 := walkNames rec root path rest
        (r.1 ++ r2.1, r2.2)
      else r

/-- `walk(path, info, walkFn)` -/
def walkF : Nat → Node → Bytes → Node → List Bytes × Bool
  | 0, _, _, _ => ([], false)
  | f + 1, root, path, info =>
    match info with
    | .dir _ =>
      match readDirNames root path with
      | none => ([], false)
      | some names => walkNames (fun filename fi => walkF f root filename fi) root path names
    | _ => ([path], true)

/-- `filepath.Walk(root, fn)`: the paths sent -/
def walk (root : Node) (path : Bytes) : List Bytes :=
  match lstat root path with
  | none => []
  | some info => (walkF (root.size + 2) root path info).1

/-! ## rare's `dirwalk` on top -/

/-- `isDir(path)` -/
def isDir (root : Node) (path : Bytes) : Bool :=
  match stat root path with
  | some (.dir _) => true
  | _ => false

/-- `walkRoot(path)` -/
def walkRoot (path : Bytes) : Bytes :=
  if path = [] ∨ path.getLast? = some 47 then path else path ++ [47]

end Rare.C06.Glob
