import Rare.Model.Expr.Funcs.Float
/-!
# C11: `{ln v}`, `{log10 v}`, `{log2 v}`, `{pow v e}` – `math.Log`, `math.Log10`, `math.Log2`, `math.Pow` as they run

`funcs.go` binds `ln` / `log10` / `log2` to `unaryArithmaticHelperf(math.Log | math.Log10 | math.Log2)` and `pow`
to `arithmaticHelperf(math.Pow)`.  On amd64 (the platform of the check; `harness/extract/c11.go` regenerates
GOARCH, the constants and probe values, `Props/C11.lean` `gen_log_platform`) these are

* `math.Log`   = `archLog`, `src/math/log_amd64.s`: a straight line of SSE2 double operations (the FreeBSD
  `e_log.c` polynomial).  It is mirrored here instruction by instruction on the software binary64 model, so the
  answer is bit-exact.  The assembly takes exponent and fraction straight from the bit pattern – it does NOT
  normalise subnormal arguments (`math.Frexp` would) – and it rescales when `f1 <= sqrt(2)/2` (`CMPSD …, 5` =
  not-less-than), where the portable code has `<`.  Both are mirrored (`frexpRaw`, `F64.le`).
* `math.Log10(x)` = `math.Log(x) * (1/Ln10)`, `math.Log2(x)` = `Frexp` + `Log(frac)*(1/Ln2) + exp` (pure Go; this
  `Frexp` does normalise).
* `math.Pow` (pure Go, `src/math/pow.go`): all special cases, and the square-and-multiply loop over `Frexp` parts
  for an integral exponent.  A fractional exponent (other than ±0.5) goes through `math.Exp`, which on amd64 is
  an assembly routine whose instruction sequence depends on the CPU (`useFMA`); those calls stay `unmodelled`.

Core Lean only.
-/
namespace Rare.C11.Log
open Rare

/-- A positive constant given by its bit pattern. -/
def k (bits : Nat) : F64 := F64.ofSM false bits

def half : F64 := k 0x3fe0000000000000
def two : F64 := k 0x4000000000000000
def hSqrt2 : F64 := k 0x3fe6a09e667f3bcd
def ln2Hi : F64 := k 0x3fe62e42fee00000
def ln2Lo : F64 := k 0x3dea39ef35793c76
def l1 : F64 := k 0x3fe5555555555593
def l2 : F64 := k 0x3fd999999997fa04
def l3 : F64 := k 0x3fd2492494229359
def l4 : F64 := k 0x3fcc71c51d8e78af
def l5 : F64 := k 0x3fc7466496cb03de
def l6 : F64 := k 0x3fc39a09d078c69f
def l7 : F64 := k 0x3fc2f112df3e5244
/-- `1 / math.Ln10`, `1 / math.Ln2` (Go constant arithmetic, rounded once). -/
def invLn10 : F64 := k 0x3fdbcb7b1526e50e
def invLn2 : F64 := k 0x3ff71547652b82fe
/-- `1 << 52` as a float. -/
def two52 : F64 := k 0x4330000000000000

/-- The body of `archLog` after the argument has been split into `f1 ∈ [0.5, 1)` and `k`:
    rescaling, the polynomial, the final combination – one model operation per SSE instruction. -/
def logCore (f1 kf : F64) : F64 :=
  -- CMPSD X2, X0, 5 (not-less-than): mask set when f1 <= HSqrt2;  X3 = 1.0 & mask
  let x3 := if F64.le f1 hSqrt2 then F64.one else F64.zero false
  let kf := F64.sub kf x3                  -- SUBSD X3, X1
  let f1 := F64.mul f1 (F64.add F64.one x3) -- ADDSD X0, X3; MULSD X3, X2
  let f := F64.sub f1 F64.one
  let s := F64.div f (F64.add two f)
  let s2 := F64.mul s s
  let s4 := F64.mul s2 s2
  let t1 := F64.mul s2 (F64.add (F64.mul (F64.add (F64.mul (F64.add (F64.mul l7 s4) l5) s4) l3) s4) l1)
  let t2 := F64.mul s4 (F64.add (F64.mul (F64.add (F64.mul l6 s4) l4) s4) l2)
  let r := F64.add t1 t2
  let hfsq := F64.mul (F64.mul half f) f
  let a := F64.mul s (F64.add r hfsq)
  let b := F64.add a (F64.mul ln2Lo kf)
  F64.sub (F64.mul kf ln2Hi) (F64.sub (F64.sub hfsq b) f)

/-- What the assembly takes from the bit pattern: `f1` = fraction bits under the exponent of 0.5, `k` = biased
    exponent − 0x3FE.  Correct for normal numbers; for a subnormal it is NOT the `Frexp` decomposition. -/
def frexpRaw (x : F64) : F64 × Int :=
  (F64.ofSM false (0x3FE * 4503599627370496 + x.frac), (x.expField : Int) - 0x3FE)

/-- `math.Frexp` (pure Go): zero, Inf, NaN unchanged with exponent 0; a subnormal is multiplied by `2^52` first. -/
def frexpGo (x : F64) : F64 × Int :=
  if x.mag = 0 || !x.isFinite then (x, 0)
  else
    let (y, e0) : F64 × Int := if x.mag < 4503599627370496 then (F64.mul x two52, -52) else (x, 0)
    (F64.ofSM y.sign (0x3FE * 4503599627370496 + y.frac), e0 + (y.expField : Int) - 0x3FE)

/-- `archLog` (`log_amd64.s`). -/
def logAsm (x : F64) : F64 :=
  if x.mag = 0 then F64.inf true                 -- JEQ isZero
  else if x.isNaN then F64.nan                   -- (a NaN of either sign: canonical NaN in the model)
  else if x.sign then F64.nan                    -- JGT isNegative
  else if x.isInf then x                         -- JLE isInfOrNaN
  else
    let (f1, ki) := frexpRaw x
    logCore f1 (F64.ofInt ki)

/-- The same routine on the `Frexp` decomposition (what the documented algorithm – `math.log`, used on every other
    architecture – feeds the polynomial): the SPECIFICATION side of the subnormal finding. -/
def logNorm (x : F64) : F64 :=
  if x.mag = 0 then F64.inf true
  else if x.isNaN then F64.nan
  else if x.sign then F64.nan
  else if x.isInf then x
  else
    let (f1, ki) := frexpGo x
    logCore f1 (F64.ofInt ki)

/-- `math.Log10` -/
def log10 (x : F64) : F64 := F64.mul (logAsm x) invLn10

/-- `math.Log2` -/
def log2 (x : F64) : F64 :=
  let (fr, e) := frexpGo x
  if F64.eq fr half then F64.ofInt (e - 1)
  else F64.add (F64.mul (logAsm fr) invLn2) (F64.ofInt e)

def log10Norm (x : F64) : F64 := F64.mul (logNorm x) invLn10

open Rare.Expr.Funcs.Float in
def lnStr (x : F64) : Bytes := fmtF (logAsm x)
open Rare.Expr.Funcs.Float in
def log10Str (x : F64) : Bytes := fmtF (log10 x)
open Rare.Expr.Funcs.Float in
def log2Str (x : F64) : Bytes := fmtF (log2 x)

/-! ## `math.Pow` -/

/-- `isOddInt`: `|y| < 2^53`, integral, odd. -/
def isOddInt (y : F64) : Bool :=
  if !y.isFinite then false
  else
    let q := y.toRat
    decide (q.num.natAbs < 9007199254740992 * q.den) && decide (q.den = 1) && decide (q.num % 2 ≠ 0)

/-- `math.Ldexp(frac, exp)` through the exact value: zero, Inf, NaN unchanged; otherwise `frac·2^exp` rounded
    once, to nearest even, also into the subnormal range (the code's `m * Float64frombits(x)` step); overflow
    gives ±Inf, a value below half the smallest subnormal gives ±0. -/
def ldexp (fr : F64) (e : Int) : F64 :=
  if fr.mag = 0 || !fr.isFinite then fr
  else
    -- exponents far outside the finite range are clamped so that the rational stays small
    let e' : Int := if e < -2200 then -2200 else if 2200 < e then 2200 else e
    let q := fr.toRat
    F64.ofRatS fr.sign (if e' < 0 then q / ((2 ^ (-e').toNat : Nat) : Rat) else q * ((2 ^ e'.toNat : Nat) : Rat))

/-- The loop `for i := int64(yi); i != 0; i >>= 1` of `pow`. State: `a1`, `ae`, `x1`, `xe`. -/
def powLoop : Nat → Nat → F64 → Int → F64 → Int → F64 × Int
  | 0, _, a1, ae, _, _ => (a1, ae)
  | fuel + 1, i, a1, ae, x1, xe =>
    if i = 0 then (a1, ae)
    else if xe < -4096 || 4096 < xe then (a1, ae + xe)     -- catastrophic overflow: ae += xe; break
    else
      let (a1, ae) := if i % 2 = 1 then (F64.mul a1 x1, ae + xe) else (a1, ae)
      let x1 := F64.mul x1 x1
      let xe := xe * 2
      let (x1, xe) := if F64.lt x1 half then (F64.add x1 x1, xe - 1) else (x1, xe)
      powLoop fuel (i / 2) a1 ae x1 xe

/-- `math.Pow(x, y)`; `none` = the call reaches `math.Exp` (fractional exponent other than ±0.5). -/
def pow (x y : F64) : Option F64 :=
  if y.mag = 0 || F64.eq x F64.one then some F64.one
  else if F64.eq y F64.one then some x
  else if x.isNaN || y.isNaN then some F64.nan
  else if x.mag = 0 then
    (if y.sign then
      (if x.sign && isOddInt y then some (F64.inf true) else some (F64.inf false))
     else
      (if x.sign && isOddInt y then some x else some (F64.zero false)))
  else if y.isInf then
    (if F64.eq x (F64.neg F64.one) then some F64.one
     else if (F64.lt (F64.abs x) F64.one) == (!y.sign) then some (F64.zero false)
     else some (F64.inf false))
  else if x.isInf then
    (if x.sign then
      -- Pow(1/x, -y) = Pow(-0, -y)
      (if !y.sign then   -- -y < 0
        (if isOddInt y then some (F64.inf true) else some (F64.inf false))
       else
        (if isOddInt y then some (F64.zero true) else some (F64.zero false)))
     else if y.sign then some (F64.zero false) else some (F64.inf false))
  else if F64.eq y half then some (F64.sqrt x)
  else if F64.eq y (F64.neg half) then some (F64.div F64.one (F64.sqrt x))
  else
    -- yi, yf := Modf(Abs(y))
    let ay := y.toRat.num.natAbs
    let yiN : Nat := ay / y.toRat.den
    let yfZero : Bool := decide (ay % y.toRat.den = 0)
    if !yfZero && x.sign then some F64.nan
    else if 9223372036854775808 ≤ yiN then
      (if F64.eq x (F64.neg F64.one) then some F64.one
       else if (F64.lt (F64.abs x) F64.one) == (!y.sign) then some (F64.zero false)
       else some (F64.inf false))
    else if !yfZero then none
    else
      let (x1, xe) := frexpGo x
      let (a1, ae) := powLoop 64 yiN F64.one 0 x1 xe
      let (a1, ae) := if y.sign then (F64.div F64.one a1, -ae) else (a1, ae)
      some (ldexp a1 ae)

open Rare.Expr Rare.Expr.Funcs.Float in
/-- `arithmaticHelperf(math.Pow)`: the left fold; the first application that needs `math.Exp` is outside the model. -/
def powFold : F64 → List (Comp (Option F64)) → Stage
  | acc, [] => .ret (fmtF acc)
  | acc, t :: rest => do
    let v ← t
    match v with
    | none => pure ErrorNum
    | some x =>
      match pow acc x with
      | none => unmodelledStage "pow"
      | some r => powFold r rest

open Rare.Expr Rare.Expr.Funcs.Float in
def powRun : List (Comp (Option F64)) → Stage
  | [] => .ret ErrorNum
  | t :: rest => do
    let v ← t
    match v with
    | none => pure ErrorNum
    | some x => powFold x rest

open Rare.Expr Rare.Expr.Funcs.Float in
def kfPow : Builder := fun args =>
  if args.length < 2 then errArgCount
  else match mapTypedArgs parseF args with
    | .error m => .error m
    | .ok none => errNum
    | .ok (some typed) => ok (powRun typed)

open Rare.Expr.Funcs.Float in
/-- The entries that shadow the `unmodelled` builders of `Funcs/Float.lean` in the C11 driver's registry. -/
def table : Rare.Expr.Table :=
  [("ln", unaryF lnStr), ("log10", unaryF log10Str), ("log2", unaryF log2Str), ("pow", kfPow)]

end Rare.C11.Log
