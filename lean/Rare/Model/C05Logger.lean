/-!
# pkg/logger: deferred log printing while the terminal is live (C05)

`pkg/logger/logger.go`: package state `logger *log.Logger`, `logBuffer *bytes.Buffer`, `mux sync.RWMutex`.
* `Print/Printf/Println` (every reader goroutine reporting an error, the extractor, …):
  `mux.RLock(); logger.Print…; mux.RUnlock()` – `log.Logger` serialises its writes with its own mutex, so one
  message is appended in one piece to wherever the logger points: stderr, or the buffer while deferred.
* `DeferLogs()` (called by `RunAggregationLoop` before the terminal goes live):
  `mux.Lock(); if logBuffer == nil { new buffer; logger → buffer }; mux.Unlock()`.
* `ImmediateLogs()` (the command's `After` hook, after the final render):
  `mux.Lock(); if logBuffer != nil { stderr.Write(buffer); logBuffer = nil; logger → stderr }; mux.Unlock()`.

Transition system: any number of printer goroutines `i : Nat`, each with the list of messages it still has to
print and a program counter (0 outside, 1 after `RLock`, 2 after the print); one controlling goroutine with
the list of `DeferLogs` / `ImmediateLogs` calls it still has to make; the RWMutex (`writer`, and "no reader" =
every printer's pc is 0).  Ghost: `emitted`, every message in the order the prints happened.
-/
namespace Rare.C05Logger

inductive Ctl | defer | immediate
  deriving DecidableEq, Repr

abbrev Msg := Nat × String   -- (printing goroutine, text)

structure P where
  pc : Nat := 0
  todo : List String := []

structure St where
  deferred : Bool := false          -- logBuffer ≠ nil
  buf : List Msg := []              -- contents of logBuffer
  err : List Msg := []              -- what reached stderr
  writer : Option Ctl := none       -- mux held exclusively, by this call
  ctl : List Ctl := []
  pr : Nat → P := fun _ => {}
  emitted : List Msg := []

inductive Label
  | rlock (i : Nat) | print (i : Nat) | runlock (i : Nat) | wlock | wbody
  deriving DecidableEq, Repr

def setP (f : Nat → P) (i : Nat) (p : P) : Nat → P := fun j => if j = i then p else f j

/-- The controlling call's body under the exclusive lock. -/
def ctlBody (s : St) : Ctl → St
  | .defer => if s.deferred then s else { s with deferred := true }
  | .immediate => if s.deferred then { s with err := s.err ++ s.buf, buf := [], deferred := false } else s

/-- One atomic step; `readersFree` is the RWMutex condition for `Lock()`: nobody holds it shared.
    (It quantifies over all goroutines, so the step RELATION takes it as a hypothesis; the executable version
    used by the driver checks the finitely many goroutines of its script.) -/
def step (s : St) (readersFree : Bool) : Label → Option St
  | .rlock i =>
    match s.writer, (s.pr i).pc, (s.pr i).todo with
    | none, 0, _ :: _ => some { s with pr := setP s.pr i { s.pr i with pc := 1 } }
    | _, _, _ => none
  | .print i =>
    match (s.pr i).pc, (s.pr i).todo with
    | 1, m :: rest =>
      let s' := { s with pr := setP s.pr i { pc := 2, todo := rest }, emitted := s.emitted ++ [(i, m)] }
      some (if s.deferred then { s' with buf := s.buf ++ [(i, m)] } else { s' with err := s.err ++ [(i, m)] })
    | _, _ => none
  | .runlock i =>
    if (s.pr i).pc = 2 then some { s with pr := setP s.pr i { s.pr i with pc := 0 } } else none
  | .wlock =>
    match s.writer, s.ctl with
    | none, c :: rest => if readersFree then some { s with writer := some c, ctl := rest } else none
    | _, _ => none
  | .wbody =>
    match s.writer with
    | some c => some { ctlBody s c with writer := none }
    | none => none

inductive Step : St → St → Prop
  | mk (s s' : St) (l : Label) (rf : Bool) : (rf = true → ∀ i, (s.pr i).pc = 0) → step s rf l = some s' → Step s s'

inductive Reach (s0 : St) : St → Prop
  | refl : Reach s0 s0
  | step {s s'} : Reach s0 s → Step s s' → Reach s0 s'

/-- Initial state: immediate mode, printer `i` has `script i` to print, the controller has `ctl` to call. -/
def init (script : Nat → List String) (ctl : List Ctl) : St :=
  { ctl := ctl, pr := fun i => { todo := script i } }

def printedBy (l : List Msg) (i : Nat) : List String := (l.filter fun m => m.1 == i).map (·.2)

/-! ## executable run for the driver: `n` printers, a round-robin schedule with fuel -/

def readersFreeN (s : St) (n : Nat) : Bool := (List.range n).all fun i => (s.pr i).pc == 0

def labelsN (n : Nat) : List Label :=
  [.wbody] ++ (List.range n).flatMap (fun i => [.runlock i, .print i, .rlock i]) ++ [.wlock]

/-- Try the labels in the rotation `k`, take the first enabled one. -/
def nextN (s : St) (n k : Nat) : Option St :=
  let ls := labelsN n
  ((ls.drop (k % ls.length)) ++ ls.take (k % ls.length)).findSome? fun l => step s (readersFreeN s n) l

/-- Same state, the per-goroutine table re-tabulated (keeps look-ups cheap in long runs; goroutines ≥ n never move). -/
def retab (s : St) (n : Nat) : St :=
  let ps := ((List.range n).map s.pr).toArray
  { s with pr := fun i => if h : i < ps.size then ps[i] else s.pr i }

def runN (n : Nat) : Nat → Nat → St → St
  | 0, _, s => s
  | fuel + 1, k, s =>
    match nextN s n k with
    | some s' => runN n fuel (k * 7 + 3) (retab s' n)
    | none => s

end Rare.C05Logger
