import Rare.Model.C01Summary
/-!
# C01: `rare filter --line` – the source and line number printed in front of every match

`cmd/filter.go`, inside the consumer loop, for every `match` of every received batch:

    if writeLines {
        fmt.Printf("%s %s: ", color.Wrap(color.BrightGreen, match.Source), color.Wrapi(color.BrightYellow, match.LineNumber))
    }
    … fmt.Println(match.Extracted)          // with -e; otherwise the line with its groups highlighted

`match.Source` / `match.LineNumber` are the fields `processLineSync` copied from the batch (`batch.Source`,
`batch.BatchStart + idx`); `%v` of a `uint64` is its plain decimal (no thousands separators, whatever `--noformat`).
-/
namespace Rare.C01
open Rare

/-- `color.BrightYellow` -/
def cBrightYellow : Bytes := 27 :: ascii "[33;1m"

/-- the bytes of `fmt.Printf("%s %s: ", Wrap(BrightGreen, src), Wrapi(BrightYellow, num))` -/
def linePrefix (col : Bool) (src : Bytes) (num : Nat) : Bytes :=
  wrap col cBrightGreen src ++ [32] ++ wrap col cBrightYellow (natDigits num) ++ [58, 32]

/-- one printed match (without the newline of `Println`) -/
def filterLine (withLine col : Bool) (src : Bytes) (num : Nat) (text : Bytes) : Bytes :=
  (if withLine then linePrefix col src num else []) ++ text

/-- Reading a printed line back (specification side): the source is the text before the first space, the number is
    the digits after it, and the match is what follows `": "`. -/
def readLinePrefix (s : Bytes) : Option (Bytes × Nat × Bytes) :=
  match s.dropWhile (· != 32) with
  | [] => none
  | _ :: rest =>
    let n := readNum rest
    match stripPrefix [58, 32] n.2 with
    | some text => some (s.takeWhile (· != 32), n.1, text)
    | none => none

end Rare.C01
