import Rare.Model.C13
import Rare.Base.F64Str
/-!
C13, numeric mode over REAL `strconv.ParseFloat` semantics.

`byNameSmartF` mirrors `ByNameSmart` (pkg/aggregation/sorting/strings.go) statement by statement with
`strconv.ParseFloat(·, 64)` = `F64.parseFloat` (software binary64, `Rare/Base/F64Str.lean`: syntax of
`readFloat`/`special`/`underscoreOK` branch by branch, one correctly rounded conversion, range
error = error) and the float64 operators `==`, `!=`, `<` = `F64.eq`, `!F64.eq`, `F64.lt`.

`realNum` is the same information in the vocabulary of the parametric model (`PF`): the order image
of a non-NaN float64 is `F64.key` (sign-magnitude pattern as an integer, `-0` and `+0` both `0`),
which is exactly what the harness used to pass in as data before ParseFloat was modelled.
-/
namespace Rare.C13

/-- `v, err := strconv.ParseFloat(k, 64)` in the vocabulary of `PF`. -/
def realNum (k : Key) : PF :=
  match F64.parseFloat k with
  | none => .err
  | some x => if x.isNaN then .nan else .val x.key

/-- `num := err == nil && v == v` -/
def isNumF (p : Option F64) : Bool :=
  match p with
  | some v => F64.eq v v
  | none => false

/-- `ByNameSmart(a, b)`, with the library call and the float operators modelled:

    v0, err0 := strconv.ParseFloat(a, 64)
    v1, err1 := strconv.ParseFloat(b, 64)
    num0 := err0 == nil && v0 == v0
    num1 := err1 == nil && v1 == v1
    if num0 && num1 { if v0 != v1 { return v0 < v1 }; return a < b }
    if num0 != num1 { return num0 }
    return a < b -/
def byNameSmartF (a b : Key) : Bool :=
  let p0 := F64.parseFloat a
  let p1 := F64.parseFloat b
  let num0 := isNumF p0
  let num1 := isNumF p1
  if num0 && num1 then
    match p0, p1 with
    | some v0, some v1 => if !F64.eq v0 v1 then F64.lt v0 v1 else bytesLt a b
    | _, _ => bytesLt a b   -- unreachable: num0 && num1
  else if num0 != num1 then num0
  else bytesLt a b

/-! ### the exact value a numeric key denotes -/

/-- What a key means to `--sort numeric`: not a number (syntax error, range error, NaN), an infinity,
or an exact rational (the value of the float64 nearest to the decimal/hexadecimal text). -/
inductive NumVal where
  | notNum
  | negInf
  | fin (q : Rat)
  | posInf
  deriving DecidableEq

def numValOf (x : F64) : NumVal :=
  if x.isNaN then .notNum
  else if x.isInf then (if x.sign then .negInf else .posInf)
  else .fin x.toRat

/-- The value of a key under the real `ParseFloat`. -/
def numVal (k : Key) : NumVal :=
  match F64.parseFloat k with
  | none => .notNum
  | some x => numValOf x

/-- `-Inf < every rational < +Inf`, rationals by `<`; `notNum` is not comparable. -/
def NumVal.lt : NumVal → NumVal → Prop
  | .negInf, .fin _ => True
  | .negInf, .posInf => True
  | .fin _, .posInf => True
  | .fin p, .fin q => p < q
  | _, _ => False

instance (a b : NumVal) : Decidable (NumVal.lt a b) := by
  cases a <;> cases b <;> unfold NumVal.lt <;> exact inferInstance

def NumVal.isNum : NumVal → Bool
  | .notNum => false
  | _ => true

end Rare.C13
