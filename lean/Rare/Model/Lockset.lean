import Rare.Gen.Access
/-!
Lockset discipline over the regenerated access table (C05, data-race part).

Two accesses to the same field conflict when at least one is a write.  A conflicting pair is
safe when both go through `sync/atomic`, or both hold the mutex and at least one of them holds it
exclusively (two shared holders are both readers, hence not conflicting anyway).  Every function of
the table may run concurrently with every function, itself included (many reader goroutines,
many workers), except the listed constructors, which run before the object is shared.
-/
namespace Rare.Lockset
open Rare.Gen.Access

def conflict (a b : Acc) : Bool := a.field == b.field && (a.write || b.write)

def safePair (a b : Acc) : Bool :=
  (a.atomic && b.atomic) ||
  (!a.atomic && !b.atomic && a.lock != "" && b.lock != "" && (a.lock == "W" || b.lock == "W"))

def raceFree (constructors : List String) (accs : List Acc) : Bool :=
  let shared := accs.filter fun a => !constructors.contains a.fn
  shared.all fun a => shared.all fun b => !conflict a b || safePair a b

/-- Conflicting pairs that are not safe (for the witness search / replay). -/
def offenders (constructors : List String) (accs : List Acc) : List (Acc × Acc) :=
  let shared := accs.filter fun a => !constructors.contains a.fn
  shared.flatMap fun a => (shared.filter fun b => conflict a b && !safePair a b).map fun b => (a, b)

end Rare.Lockset
