import Rare.Gen.Access
/-!
# Lockset discipline over the regenerated access tables (C05, data-race part)

`Rare.Gen.Access` is regenerated from /repo on every run by `harness/extract/access.go` (go/types).
For every object more than one goroutine can touch it lists every field and every syntactic access with
the object accessed – the field variable itself (`obj = "var"`) or what a reference-typed field refers
to (`obj = "ref"`: backing array, map, pointee, closure), reached directly, through a local alias, or
because the reference leaves the function (`esc ≠ ""`) –, whether it writes, whether it is atomic, the
mutex held **at the site of the access** (nothing, for a reference that escaped), and the goroutine
roles of the same function the access is ordered with.

## What `raceFree` says

Two accesses *conflict* when they touch the same location (same field variable, or referents in the
same region) and at least one writes.  A conflicting pair is *safe* when

* both are atomic (sync/atomic, or methods of a type documented to lock internally), or
* both hold the same mutex and at least one holds it exclusively, or
* one of them is ordered with the other's role (`ord`: a `go` statement, or an unbuffered-channel
  hand-shake after which the other goroutine returns).

Every function of a struct table may run concurrently with every function, itself included (many reader
goroutines, many workers), except the listed constructors, which run before the object is shared (and
only up to their first `go` statement).  In a role table (`raceFreeRoles`, the variables of one function
shared with its goroutine closures) every role is one goroutine, so a role does not race with itself.

## Why this implies data-race freedom in the Go memory model (the form used; not formalised here – but
## see `Rare.Lockset.HB` in `Proofs/LocksetHB.lean` for the mutex case proved over an abstract trace model)

The Go memory model (go.dev/ref/mem, 2022) defines a data race as two conflicting memory operations, at
least one non-synchronising, that are not ordered by *happens-before*, the transitive closure of
program order (*sequenced-before*) and *synchronised-before*.  The edges used here, all from that text:

1. **Mutex.**  "For any sync.Mutex or sync.RWMutex variable l and n < m, call n of l.Unlock() is
   synchronised before call m of l.Lock() returns"; for RWMutex, a call to RLock returns after the
   n-th Unlock and the matching RUnlock is synchronised before the (n+1)-th Lock.  Two critical
   sections of one mutex of which at least one is exclusive cannot overlap, so one section's unlock is
   synchronised before the other's lock; an access inside the first is sequenced before that unlock,
   the lock is sequenced before the access inside the second: the accesses are ordered.  (Two shared
   sections may overlap – hence "at least one exclusive".)
2. **Atomics.**  "If the effect of an atomic operation A is observed by atomic operation B, then A is
   synchronised before B"; all atomic operations behave as if executed in some sequentially consistent
   order, and by definition two atomic operations never form a data race.  A location all of whose
   accesses are atomic is race-free.  A location accessed atomically by some and plainly by others is
   safe only if the mutex rule covers the pair – which is what `safePair` asks.
3. **`go` statement.**  "The go statement that starts a new goroutine is synchronised before the start
   of the goroutine's execution": what the spawning function did before the `go` statement is ordered
   before everything the new goroutine does (`ord` of the accesses before the statement names the role).
4. **Unbuffered channel.**  "A receive from an unbuffered channel is synchronised before the completion
   of the corresponding send."  When the receiving goroutine does nothing but return after that receive
   (checked syntactically: a single `case <-ch:` whose body only returns, one send in the body, the
   channel made without capacity and mentioned nowhere else), everything it ever did is sequenced before
   the receive, hence ordered before whatever follows the send (`ord` of the accesses after the send).
   (With a buffered channel the rule is the other way round – the send is synchronised before the
   receive completes – and gives nothing: the edge disappears from the table.)
5. **Constructors.**  An object is published by returning a pointer / passing it to a `go` statement /
   sending it; each of these is (program order +) one of the edges above, so the constructor's writes
   are ordered before every access through the published reference.

If `raceFree` holds for a table, every pair of conflicting accesses of *listed* sites is ordered by one
of 1–5 in every execution, so no execution has a data race on those locations – **provided the table
lists every access**.  That proviso is the trusted part:

## What the extraction does not see

* `unsafe` (e.g. `processLineSync` builds a string header over the line bytes), reflection, cgo
  (the optional pcre2 matcher), assembly;
* method values and function values bound earlier (`f := s.M; … f()`): recorded as `esc = "methodvalue"`
  but not followed; a call through a function-typed field counts as a write to its referent unless the
  generated `assumedReadOnly` list names it;
* goroutines started in packages that are not analysed (`spawns` lists the `go` statements of the
  analysed ones; `followreader`, `dirwalk`, `readahead` have their own);
* aliasing through more than one level (an element of a guarded slice that is itself a pointer: the
  pointee is another object; `ObjectPool` hands such pointees over – ownership transfer, not tracked);
  aliasing through results of calls other than `append`/conversions; two distinct fields sharing one
  referent unless the configuration puts them into one region; distinct instances of one type (all
  receivers are taken to be the same object, and a mutex is identified by its field name);
* calls through a reference-typed field into another component (`s.keyBuilder.BuildKey(…)`,
  `aggregator.Sample(…)`): classified by a syntactic "writes state reachable from its receiver" scan of
  the callee when its source is among the loaded packages (assignments / append / copy / delete rooted at
  the receiver, transitively through methods called on receiver-rooted paths; an interface method is the
  disjunction over the methods of that name and shape in the loaded packages; what a callee does through
  a function value or through an interface it holds is not followed), taken to WRITE when the source is
  not loaded, and taken to be read-only only for the entries of the generated `assumedReadOnly` list
  (today: the logger's `OsExit` hook); methods of `*log.Logger`, `*regexp.Regexp`, `*os.File` (documented
  as safe for concurrent use) and of `ObjectPool` (race free by its own table) count as atomic;
* what the receiver of an escaped reference does with it: the escape is recorded as an unlocked *read*
  of the referent (the least it can do), which flags every escape of a referent that is written under
  the lock anywhere – the pattern of `seeded/C05-status-unlocked-join` – but not a receiver that writes.

The closure tables (`stageState`, `stageStateFuncfile`: the variables a stage builder of the expression
library hands to the closure it returns) use `raceFreeClosures`: the builder's own body is the constructor
(compile time, one goroutine), every function literal inside it is a flow that runs concurrently with
itself (the same compiled stage is evaluated by every worker); calling a captured function value there is
calling another stage, whose state is that builder's entry of the same table.  A variable declared inside a
literal that is itself only a builder (funcfile's `keyBuilderToFunction` returns one) and captured by a literal
nested deeper is tracked the same way, with `depth` counted from the declaring literal; a captured variable
declared inside a per-evaluation literal (one taking an expression context) is made afresh by every evaluation
and is listed in `…PerCall` instead (these packages contain no `go` statement: `spawns`).  `stageClass` names
the discipline each captured variable follows.  Tables: `stageState` (stdlib), `stageStateFuncfile`,
`stageStateExpressions` (pkg/expressions: joined argument stages, literals), `stageStateStdmath`.

The monitor tables (`aggregation`, `multiterm`, `termrenderers`) carry no locks of their own: these
objects are only entered from `aggregator.Sample` and from `writeOutput`, both of which the role table
of `RunAggregationLoop` shows to run under `outputMutex` or after the ticker has ended.  For them
`monitorOk` checks confinement: no `go` statement, no atomics or mutexes of their own, and no reference
to their state sent on a channel, handed to a `go` statement or parked in a package-level variable.
-/
namespace Rare.Lockset
open Rare.Gen.Access

instance : Inhabited Acc := ⟨⟨"", "", "", "", false, false, "", "", "", 0, "", [], 0⟩⟩

/-- Same memory location: the same field variable, or referents in the same region. -/
def sameLoc (a b : Acc) : Bool :=
  a.obj == b.obj && (if a.obj == "var" then a.field == b.field else a.region == b.region)

def conflict (a b : Acc) : Bool := sameLoc a b && (a.write || b.write)

/-- Both hold the same mutex, at least one exclusively. -/
def locked (a b : Acc) : Bool :=
  a.lock != "" && b.lock != "" && a.mutex == b.mutex && (a.lock == "W" || b.lock == "W")

/-- One access is ordered with the whole role of the other (go statement / terminating hand-shake). -/
def ordered (a b : Acc) : Bool := a.ord.contains b.fn || b.ord.contains a.fn

def safePair (a b : Acc) : Bool := (a.atomic && b.atomic) || locked a b || ordered a b

/-- Accesses made while the object may be shared. -/
def shared (constructors : List String) (accs : List Acc) : List Acc :=
  accs.filter fun a => !constructors.contains a.fn

/-- Every conflicting pair of `s` is safe.  Conflict and safety are symmetric and a conflict needs a write, so it
    is enough to pair every WRITE with every access (`Proofs/Lockset.lean: pairsSafe_iff` proves this is the same
    as quantifying over all pairs; it keeps the kernel evaluation of the larger tables short). -/
def pairsSafe (s : List Acc) : Bool :=
  (s.filter (·.write)).all fun a => s.all fun b => !sameLoc a b || safePair a b

/-- Struct tables: every function may run concurrently with every function, itself included. -/
def raceFree (constructors : List String) (accs : List Acc) : Bool :=
  pairsSafe (shared constructors accs)

/-- Closure tables (variables a declared function's literals capture): the function's own body runs while
    the closure is being built (one goroutine, before anybody can call the closure); the literals themselves
    – compiled expression stages – are run by every worker, each concurrently with itself. -/
def raceFreeClosures (accs : List Acc) : Bool :=
  pairsSafe (accs.filter fun a => a.depth != 0)

def offendersClosures (accs : List Acc) : List (Acc × Acc) :=
  let s := accs.filter fun a => a.depth != 0
  s.flatMap fun a => (s.filter fun b => conflict a b && !safePair a b).map fun b => (a, b)

/-- Role tables: each role is one goroutine. -/
def raceFreeRoles (accs : List Acc) : Bool :=
  (accs.filter (·.write)).all fun a => accs.all fun b => a.fn == b.fn || !sameLoc a b || safePair a b

/-- Conflicting pairs that are not safe (for the witness search / replay). -/
def offenders (constructors : List String) (accs : List Acc) : List (Acc × Acc) :=
  let s := shared constructors accs
  s.flatMap fun a => (s.filter fun b => conflict a b && !safePair a b).map fun b => (a, b)

def offendersRoles (accs : List Acc) : List (Acc × Acc) :=
  accs.flatMap fun a => (accs.filter fun b => a.fn != b.fn && conflict a b && !safePair a b).map fun b => (a, b)

/-- A reference to monitor-protected state leaves the monitor. -/
def leaks (a : Acc) : Bool := a.esc == "send" || a.esc == "go" || a.esc == "global" || a.esc == "addr" || a.esc == "methodvalue"

/-- Monitor tables: no synchronisation of their own, nothing leaks. -/
def monitorOk (accs : List Acc) : Bool := accs.all fun a => !leaks a && !a.atomic && a.lock == ""

def monitorOffenders (accs : List Acc) : List Acc := accs.filter fun a => leaks a || a.atomic || a.lock != ""

/-- The discipline a location follows (documentation / driver output). -/
def disciplineOf (constructors : List String) (accs : List Acc) (field obj : String) : String :=
  let s := (shared constructors accs).filter fun a => a.field == field && a.obj == obj
  if s.isEmpty then "unshared"
  else if s.all (fun a => !a.write) then "immutable"
  else if s.all (·.atomic) then "atomic"
  else if s.all (fun a => a.lock != "") then "guarded:" ++ (s.headD default).mutex
  else "mixed"

/-- "Every referent access to a guarded field's contents holds the guard, or is atomic, or is ordered with
    every writer's role, or nobody writes the referent after construction." -/
def referentGuarded (constructors : List String) (accs : List Acc) : Bool :=
  let s := shared constructors accs
  s.all fun a => a.obj != "ref" || a.lock != "" || a.atomic ||
    s.all fun b => !(b.obj == "ref" && b.region == a.region && b.write) || ordered a b

/-- Sharing class of one captured variable of a closure table, from what the literals nested below its declaration
    (the code every worker runs) do with it and with what it refers to:
    `immutable` – only read once the closure exists; `pooled` – the only writes are `ObjectPool.Get/Return` (race free
    by the pool's own table; the object handed out is owned by the caller until it is returned); `atomic` – every
    write goes through sync/atomic (or a self-synchronised type); `mutable` – a plain write at evaluation time. -/
def evalWrites (accs : List Acc) : List Acc := accs.filter fun a => a.depth != 0 && a.write

def classOfWrites (w : List Acc) (field : String) : String :=
  let s := w.filter fun a => a.field == field
  if s.isEmpty then "immutable"
  else if s.all (fun a => a.atomic && a.how.startsWith "call:slicepool.ObjectPool.") then "pooled"
  else if s.all (·.atomic) then "atomic"
  else "mutable"

def stageClass (accs : List Acc) (field : String) : String := classOfWrites (evalWrites accs) field

/-- The captured variables of a closure table with their classes. -/
def stageClasses (fields : List Fld) (accs : List Acc) : List (String × String) :=
  let w := evalWrites accs
  fields.map fun f => (f.name, classOfWrites w f.name)

/-- The variables of a given class. -/
def ofClass (fields : List Fld) (accs : List Acc) (c : String) : List String :=
  ((stageClasses fields accs).filter fun p => p.2 == c).map (·.1)

def showAcc (a : Acc) : String :=
  s!"{a.fn}:{a.line}:{a.field}/{a.obj}:{if a.write then "write" else "read"}:{if a.atomic then "atomic" else "plain"}:lock={if a.lock == "" then "none" else a.lock ++ "@" ++ a.mutex}:{a.how}"

end Rare.Lockset
