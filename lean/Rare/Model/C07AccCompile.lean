import Rare.Model.C07Acc
import Rare.Model.Expr.Core
/-!
`AccumulatingGroup` with its compiler: the configuration calls take TEMPLATES, as in accumulator.go
(`AddGroupExpr(name, expr)`, `AddDataExpr(name, expr, initial)`, `SetSort(expr)` call
`s.compiler.Compile(expr)` – the shared expression model's `Rare.Expr.compile reg opt`, where `opt` is the
static-optimisation switch of `funclib.NewKeyBuilderEx`).

Go checks "data exists" and "duplicate name" BEFORE it compiles, so in those cases the template is never
looked at (a template that would panic the compiler is harmless then); `SetSort` always compiles.
`.error` = the compiler panicked.
-/
namespace Rare.C07
open Rare.Expr (Stage Registry compile buildKey)

/-- What `Compile(expr)` hands to the aggregator: a compiled builder, or `none` when there were compile errors. -/
def compileStage (reg : Registry) (opt : Bool) (t : List Char) : Except String (Option Stage) :=
  match compile reg opt t with
  | .error m => .error m
  | .ok (stages, errs) => .ok (if errs.isEmpty then some (buildKey stages) else none)

/-- One call on the aggregator, with templates. -/
inductive AccTOp
  | addGroup (name : Bytes) (t : List Char)
  | addData (name : Bytes) (t : List Char) (initial : Bytes)
  | setSort (t : List Char)
  | sample (element : Bytes)

def AccTOp.isSample : AccTOp → Bool
  | .sample _ => true
  | _ => false

/-- Does the call reach `Compile`? (`AddGroupExpr` / `AddDataExpr` return early on existing data or a duplicate name.) -/
def AccGroup.compiles (s : AccGroup) : AccTOp → Bool
  | .addGroup n _ => (s.addGroupExpr n none).2 == some "compile"
  | .addData n _ i => (s.addDataExpr n none i).2 == some "compile"
  | .setSort _ => true
  | .sample _ => false

/-- Perform one call: the new state and the returned `error`; `.error` = a panic (in the compiler or in `Sample`). -/
def AccGroup.applyT (reg : Registry) (opt : Bool) (s : AccGroup) : AccTOp → Except String (AccGroup × Option String)
  | .addGroup n t =>
    if s.compiles (.addGroup n t) then (compileStage reg opt t).map (s.addGroupExpr n) else .ok (s.addGroupExpr n none)
  | .addData n t i =>
    if s.compiles (.addData n t i) then (compileStage reg opt t).map (fun c => s.addDataExpr n c i)
    else .ok (s.addDataExpr n none i)
  | .setSort t => (compileStage reg opt t).map s.setSort
  | .sample e => (s.sample e).map fun s' => (s', none)

/-- A whole call sequence; the returned errors are collected. -/
def AccGroup.applyAllT (reg : Registry) (opt : Bool) :
    AccGroup → List AccTOp → Except String (AccGroup × List (Option String))
  | s, [] => .ok (s, [])
  | s, op :: rest =>
    match s.applyT reg opt op with
    | .error m => .error m
    | .ok (s', e) =>
      match AccGroup.applyAllT reg opt s' rest with
      | .error m => .error m
      | .ok (s'', es) => .ok (s'', e :: es)

end Rare.C07
