import Rare.Model.C06Gzip
/-!
Model of what `rare -z` reads THROUGH `compress/gzip`: the DEFLATE decoder (go1.23 `src/compress/flate/inflate.go`),
the member trailer and the multi-member loop of `(*gzip.Reader).Read` (`src/compress/gzip/gunzip.go`).  Together with
the header parser of `Model/C06Gzip.lean` this makes "the bytes a gzip file delivers, and whether the stream ends
with an error" a FUNCTION of the file's bytes (`gunzip`), where it was an oracle before.

Mirrored function by function:

* `(*decompressor).nextBlock`   (BFINAL, BTYPE; 3 = corrupt)                                → `inflate`
* `(*decompressor).dataBlock` / `copyData` (drop the bit buffer, LEN / NLEN, raw copy; a stored block that is cut
  short still delivers the bytes that were there)                                            → `storedBlock`, `copyStored`
* `(*huffmanDecoder).init` (count per length, canonical codes; complete code, or the one degenerate single code of
  length 1, or the empty tree)                                                               → `Huff.init`
* `(*decompressor).huffSym` (needs `min` bits before it looks at anything, then the bits of the code) → `huffSym`
* `(*decompressor).readHuffman` (HLIT/HDIST/HCLEN, `codeOrder`, repeat codes 16/17/18, `h1.min` raised to the
  length of the end-of-block code)                                                           → `readHuffman`, `readLens`
* `(*decompressor).huffmanBlock` (literal / end of block / length + extra bits, distance + extra bits,
  `dist > histSize` = corrupt, copy from the history)                                        → `huffBlock`, `readMatch`, `copyHist`
* `fixedHuffmanDecoder`, and the 5-bit reversed distance of fixed blocks                     → `fixedLit`
* `(*gzip.Reader).Read`: CRC-32 + ISIZE (mod 2³²) trailer, then the next member header: clean end of file = done,
  anything else that is not a header = error (trailing garbage, cut header)                  → `memberBody`, `gunzipFrom`

What is NOT mirrored is the machinery that does not change the answer: the 9-bit chunk table with link tables (the
model decodes the canonical code bit by bit – same function on complete codes), the 32 KiB window as a ring buffer
(the model keeps the whole output of the member in an array; a distance is at most 32768), the `step`/`toRead` re-entrancy of `Read`.
On an error `(*decompressor).Read` flushes what is left of the window, so everything that was decoded before the
error is delivered: the observable is (all decoded bytes, failed?).

The input is held as a list of bits, least significant bit of each byte first (the order DEFLATE packs them).
-/
namespace Rare.C06.Gz

abbrev Bits := List Bool

def byteBits (b : UInt8) : Bits :=
  [b.toNat.testBit 0, b.toNat.testBit 1, b.toNat.testBit 2, b.toNat.testBit 3,
   b.toNat.testBit 4, b.toNat.testBit 5, b.toNat.testBit 6, b.toNat.testBit 7]

def bitsOf (s : Bytes) : Bits := s.flatMap byteBits

/-- value of a bit string, first bit least significant -/
def bitsVal : Bits → Nat
  | [] => 0
  | b :: r => (if b then 1 else 0) + 2 * bitsVal r

/-- value of a bit string, first bit MOST significant (Huffman codes, the 5-bit distance of fixed blocks) -/
def bitsValMsb (l : Bits) : Nat := l.foldl (fun acc b => 2 * acc + (if b then 1 else 0)) 0

/-- whole bytes of a bit string (fewer than 8 bits at the end are dropped) -/
def bytesOf : Bits → Bytes
  | b0 :: b1 :: b2 :: b3 :: b4 :: b5 :: b6 :: b7 :: r =>
    UInt8.ofNat (bitsVal [b0, b1, b2, b3, b4, b5, b6, b7]) :: bytesOf r
  | _ => []

/-- the first `n` bits and the rest; `none` when the input ends first (`moreBits` fails: io.ErrUnexpectedEOF) -/
def takeBits : Nat → Bits → Option (Bits × Bits)
  | 0, s => some ([], s)
  | _ + 1, [] => none
  | n + 1, b :: s => (takeBits n s).map fun p => (b :: p.1, p.2)

/-- `for f.nb < n { moreBits }; v := f.b & (1<<n - 1); f.b >>= n; f.nb -= n` -/
def readBits (n : Nat) (s : Bits) : Option (Nat × Bits) :=
  (takeBits n s).map fun p => (bitsVal p.1, p.2)

/-- `f.nb = 0; f.b = 0` of `dataBlock`: the rest of the current byte is dropped.  (The bit string always ends at a
    byte boundary of the file, so the position inside the byte is its length mod 8.) -/
def align (s : Bits) : Bits := s.drop (s.length % 8)

/-! ## Stored blocks -/

/-- `copyData`: up to `n` whole bytes go to the output; rest = `none` if the input ended first –
    the bytes that were there have been written (`f.dict.writeMark(cnt)` comes before the error check) -/
def copyStored : Nat → Bits → Array UInt8 → Array UInt8 × Option Bits
  | 0, s, out => (out, some s)
  | n + 1, b0 :: b1 :: b2 :: b3 :: b4 :: b5 :: b6 :: b7 :: r, out =>
    copyStored n r (out.push (UInt8.ofNat (bitsVal [b0, b1, b2, b3, b4, b5, b6, b7])))
  | _ + 1, _, out => (out, none)

/-- `dataBlock` -/
def storedBlock (s : Bits) (out : Array UInt8) : Array UInt8 × Option Bits :=
  match readBits 16 (align s) with
  | none => (out, none)
  | some (len, s1) =>
    match readBits 16 s1 with
    | none => (out, none)
    | some (nlen, s2) =>
      if nlen ≠ 65535 - len then (out, none)           -- `uint16(nn) != uint16(^n)`
      else copyStored len s2 out

/-! ## Huffman codes -/

/-- a canonical Huffman code: how many codes of each length 1‥15, the symbols ordered by (length, value), and the
    number of bits `huffSym` wants to have before it looks (`h.min`) -/
structure Huff where
  counts : List Nat
  syms : List Nat
  min : Nat
  deriving Repr

def maxCodeLen : Nat := 15

/-- `(*huffmanDecoder).init`: `none` = `false` (over- or under-subscribed set of lengths) -/
def Huff.init (lengths : List Nat) : Option Huff :=
  let nz := lengths.filter (· ≠ 0)
  let max := nz.foldl Nat.max 0
  let min := nz.foldl Nat.min max
  let count (l : Nat) : Nat := (lengths.filter (· = l)).length
  if max = 0 then some ⟨List.replicate maxCodeLen 0, [], 0⟩             -- empty tree: fails when it is used
  else
    -- for i := min; i <= max; i++ { code <<= 1; nextcode[i] = code; code += count[i] }
    let code := (List.range (max + 1 - min)).foldl (fun code k => code * 2 + count (min + k)) 0
    if code ≠ 2 ^ max ∧ ¬ (code = 1 ∧ max = 1) then none
    else
      some ⟨(List.range maxCodeLen).map fun k => count (k + 1),
            (List.range maxCodeLen).flatMap fun k => (lengths.zipIdx.filter (·.1 = k + 1)).map (·.2),
            min⟩

/-- the canonical code read one bit at a time: `code`/`first`/`index` as in zlib's `puff`; on a complete code this is
    the function the chunk/link tables of `huffSym` compute.  `none`: the input ended, or no code matches (`n == 0`,
    possible only for the degenerate and the empty tree). -/
def decodeAux (syms : List Nat) : List Nat → Nat → Nat → Nat → Bits → Option (Nat × Bits)
  | [], _, _, _, _ => none
  | _ :: _, _, _, _, [] => none
  | cnt :: cs, code, first, index, b :: r =>
    let code := code + (if b then 1 else 0)
    if code < first + cnt then
      match syms[index + (code - first)]? with
      | some v => some (v, r)
      | none => none
    else decodeAux syms cs (code * 2) ((first + cnt) * 2) (index + cnt) r

/-- `huffSym(h)` with `h.min = minBits`: at least `minBits` bits must be there before the first table look-up, and
    then all bits of the code -/
def huffSym (h : Huff) (minBits : Nat) (s : Bits) : Option (Nat × Bits) :=
  match takeBits minBits s with
  | none => none
  | some _ => decodeAux h.syms h.counts 0 0 0 s

/-- lengths of `fixedHuffmanDecoder` (`fixedHuffmanDecoderInit`) -/
def fixedLitLengths : List Nat :=
  List.replicate 144 8 ++ List.replicate 112 9 ++ List.replicate 24 7 ++ List.replicate 8 8

def fixedLit : Huff := (Huff.init fixedLitLengths).getD ⟨[], [], 0⟩

/-- `switch { case v < 265 … }` of `huffmanBlock`: base length and number of extra bits of length symbol `v ≥ 257` -/
def lenCode (v : Nat) : Option (Nat × Nat) :=
  if v < 265 then some (v - 254, 0)
  else if v < 269 then some (v * 2 - 519, 1)
  else if v < 273 then some (v * 4 - 1057, 2)
  else if v < 277 then some (v * 8 - 2149, 3)
  else if v < 281 then some (v * 16 - 4365, 4)
  else if v < 285 then some (v * 32 - 8861, 5)
  else if v < 286 then some (258, 0)
  else none

/-- the length / distance pair after length symbol `v`: extra bits, distance symbol (5 reversed bits in a fixed
    block), its extra bits -/
def readMatch (hd : Option Huff) (v : Nat) (s : Bits) : Option (Nat × Nat × Bits) := do
  let (base, n) ← lenCode v
  let (ex, s) ← readBits n s
  let length := base + ex
  let (d, s) ← match hd with
    | none => (takeBits 5 s).map fun p => (bitsValMsb p.1, p.2)
    | some h => huffSym h h.min s
  if d < 4 then pure (length, d + 1, s)
  else if d < 30 then
    let nb := (d - 2) / 2
    let (ex, s) ← readBits nb s
    pure (length, 2 ^ (nb + 1) + 1 + ((d % 2) * 2 ^ nb + ex), s)
  else none

/-- `writeCopy(dist, length)`: byte by byte from `dist` back (source and destination may overlap); `none` when the
    distance reaches before the start of the output (`dist > f.dict.histSize()`, checked before the copy in the code) -/
def copyHist (dist : Nat) : Nat → Array UInt8 → Option (Array UInt8)
  | 0, out => some out
  | n + 1, out =>
    if dist ≤ out.size then
      match out[out.size - dist]? with
      | some b => copyHist dist n (out.push b)
      | none => none
    else none

/-- `huffmanBlock`: symbols until the end-of-block code -/
def huffBlock (hl : Huff) (lmin : Nat) (hd : Option Huff) : Nat → Bits → Array UInt8 → Array UInt8 × Option Bits
  | 0, _, out => (out, none)
  | fuel + 1, s, out =>
    match huffSym hl lmin s with
    | none => (out, none)
    | some (v, s) =>
      if v < 256 then huffBlock hl lmin hd fuel s (out.push (UInt8.ofNat v))
      else if v = 256 then (out, some s)
      else
        match readMatch hd v s with
        | none => (out, none)
        | some (length, dist, s) =>
          match copyHist dist length out with
          | none => (out, none)
          | some out => huffBlock hl lmin hd fuel s out

/-! ## Dynamic blocks -/

def codeOrder : List Nat := [16, 17, 18, 0, 8, 7, 9, 6, 10, 5, 11, 4, 12, 3, 13, 2, 14, 1, 15]

/-- the `nclen` three-bit code-length code lengths, in `codeOrder` -/
def readClens : Nat → Bits → List Nat → Option (List Nat × Bits)
  | 0, s, acc => some (acc.reverse, s)
  | n + 1, s, acc =>
    match readBits 3 s with
    | none => none
    | some (v, s) => readClens n s (v :: acc)

/-- the loop `for i, n := 0, nlit+ndist; i < n;` of `readHuffman`; `acc` = `f.bits[0:i]` reversed -/
def readLens (h1 : Huff) (n : Nat) : Nat → Nat → List Nat → Bits → Option (List Nat × Bits)
  | 0, _, _, _ => none
  | fuel + 1, i, acc, s =>
    if i ≥ n then some (acc.reverse, s)
    else
      match huffSym h1 h1.min s with
      | none => none
      | some (x, s) =>
        if x < 16 then readLens h1 n fuel (i + 1) (x :: acc) s
        else
          let spec : Option (Nat × Nat × Nat) :=          -- rep, nb, b
            if x = 16 then (if i = 0 then none else some (3, 2, acc.headD 0))
            else if x = 17 then some (3, 3, 0)
            else if x = 18 then some (11, 7, 0)
            else none
          match spec with
          | none => none
          | some (rep, nb, b) =>
            match readBits nb s with
            | none => none
            | some (ex, s) =>
              let rep := rep + ex
              if i + rep > n then none
              else readLens h1 n fuel (i + rep) (List.replicate rep b ++ acc) s

/-- `readHuffman`: the two decoders and the `min` of the literal/length decoder after
    `if f.h1.min < f.bits[endBlockMarker] { f.h1.min = f.bits[endBlockMarker] }` -/
def readHuffman (s : Bits) : Option (Huff × Nat × Huff × Bits) := do
  let (hdr, s) ← readBits 14 s
  let nlit := hdr % 32 + 257
  let ndist := hdr / 32 % 32 + 1
  let nclen := hdr / 1024 % 16 + 4
  if nlit > 286 then none
  if ndist > 30 then none
  let (cl, s) ← readClens nclen s []
  let codebits := (List.range 19).map fun sym =>
    match codeOrder.idxOf? sym with
    | some k => cl.getD k 0
    | none => 0
  let h1 ← Huff.init codebits
  let (lens, s) ← readLens h1 (nlit + ndist) (nlit + ndist + 1) 0 [] s
  let hl ← Huff.init (lens.take nlit)
  let hd ← Huff.init (lens.drop nlit)
  pure (hl, Nat.max hl.min (lens.getD 256 0), hd, s)

/-! ## The stream -/

/-- `nextBlock` until the final block is done.  Answers the output and what is left of the input, `none`
    after an error. -/
def inflate : Nat → Bits → Array UInt8 → Array UInt8 × Option Bits
  | 0, _, out => (out, none)
  | fuel + 1, s, out =>
    match readBits 3 s with
    | none => (out, none)
    | some (hdr, s) =>
      let final := hdr % 2 = 1
      let r : Array UInt8 × Option Bits :=
        match hdr / 2 with
        | 0 => storedBlock s out
        | 1 => huffBlock fixedLit 7 none (s.length + 1) s out
        | 2 =>
          match readHuffman s with
          | none => (out, none)
          | some (hl, lmin, hd, s) => huffBlock hl lmin (some hd) (s.length + 1) s out
        | _ => (out, none)
      match r with
      | (out, none) => (out, none)
      | (out, some s) => if final then (out, some s) else inflate fuel s out

/-- little-endian 32-bit value of the first four bytes -/
def le32 (p : Bytes) : Nat :=
  (p.getD 0 0).toNat + 256 * (p.getD 1 0).toNat + 65536 * (p.getD 2 0).toNat + 16777216 * (p.getD 3 0).toNat

/-- One member after its header: the DEFLATE stream, then CRC-32 and ISIZE.  Answers the decoded bytes and the rest of
    the file, `none` after an error (corrupt / truncated stream, cut trailer, `gzip.ErrChecksum`). -/
def memberBody (r : Bytes) : Bytes × Option Bytes :=
  let bits := bitsOf r
  match inflate (bits.length + 1) bits #[] with
  | (outA, none) => (outA.toList, none)
  | (outA, some b) =>
    let out := outA.toList
    match readFull 8 (bytesOf (align b)) with
    | .error _ => (out, none)
    | .ok (t, rest) =>
      if le32 t = (crcUpdate 0 out).toNat ∧ le32 (t.drop 4) = out.length % 4294967296 then (out, some rest)
      else (out, none)

/-- `(*gzip.Reader).Read` until it returns an error, from the first byte after a member header: all bytes delivered and
    whether the error is something other than `io.EOF` -/
def gunzipFrom : Nat → Bytes → Bytes × Bool
  | 0, _ => ([], true)
  | fuel + 1, r =>
    match memberBody r with
    | (d, none) => (d, true)
    | (d, some rest) =>
      match readHeaderRest rest with
      | .error .eof => (d, false)              -- the file ends after a trailer: io.EOF
      | .error _ => (d, true)                  -- trailing garbage / a cut header
      | .ok r' => let p := gunzipFrom fuel r'; (d ++ p.1, p.2)

/-- `gzip.NewReader(file)` + reading it to the end: `none` when `NewReader` fails (rare then reads the file as plain
    text), else the bytes delivered and whether the stream ended with a read error -/
def gunzip (s : Bytes) : Option (Bytes × Bool) :=
  match readHeaderRest s with
  | .error _ => none
  | .ok r => some (gunzipFrom (s.length + 1) r)

end Rare.C06.Gz
