/-!
C15 – the shape of pkg/followreader that the transition systems of `Rare.Model.C15` were written
against (compared in `Rare.Props.C15` with what the translator regenerates from /repo).
-/
namespace Rare.Follow.Expected

/-- the watcher goroutine: Write → eventWrite, Remove → eventDelete, Rename (the followed name moved away) →
    eventDelete with re-open and nothing without (`Rare.Follow.renameEv`), Create → eventWrite and, with
    re-open, eventDelete as well (`Rare.Follow.dispatch1`: a file renamed onto the path raises only Create),
    events of other names and other kinds (Chmod) → nothing; tested in this order -/
def watcherSwitch : List (String × String) := [("!ok", "return"),
  ("path.Base(s.filename)!=path.Base(event.Name)", ""),
  ("event.Op&fsnotify.Write!=0", "writeSignalNonBlock(s.eventWrite)"),
  ("event.Op&fsnotify.Remove!=0", "writeSignalNonBlock(s.eventDelete)"),
  ("event.Op&fsnotify.Rename!=0&&s.ReOpen", "writeSignalNonBlock(s.eventDelete)"),
  ("event.Op&fsnotify.Create!=0", "writeSignalNonBlock(s.eventWrite);ifs.ReOpen{writeSignalNonBlock(s.eventDelete)}")]

def watcherSkeleton : List String := ["defer:watcher.Close", "for{", "recv:watcher.Events", "return", "}"]

/-- `Read` of notify.go: one `for` around (read, then a `select` over exactly the two signal channels) -/
def notifyReadSkeleton : List String :=
  ["return", "for{", "return", "return", "select{", "recv:s.eventWrite", "recv:s.eventDelete", "return", "}", "}"]

def notifyReadConds : List String :=
  ["s.closed", "s.f!=nil", "n>0", "err!=nil&&err!=io.EOF", "s.f==nil&&s.ReOpen", "err==nil", "s.ReOpen"]

def reopenIfReplacedConds : List String :=
  ["s.f!=nil", "err==nil", "err==nil&&os.SameFile(atPath,open)", "err==nil"]

/-- `Read` of poller.go: no channel operation at all; the attempt loop inside the outer loop -/
def pollReadSkeleton : List String := ["return", "for{", "for{", "return", "return", "}", "return", "}"]

def pollReadConds : List String :=
  ["s.closed", "s.f!=nil", "for:i<s.ReadAttempts", "n>0", "err!=nil&&err!=io.EOF", "s.Reopen",
   "st!=nil&&st.Size()!=s.readBytes", "st.Size()>=s.readBytes", "err!=nil"]

/-- The poller's offset `readBytes` is written in exactly three places, all of them in the model
    (`pinit` for `Drain`, `readSome` for `+= n`, `openNew` for `= 0` – the latter only on the "shorter file"
    branch).  A write anywhere else in poller.go – e.g. a re-open helper that zeroes it before the
    caller's `Seek(s.readBytes)` – is not in the model. -/
def pollOffsetWrites : List String :=
  ["PollingFollowReader.Drain:s.readBytes=offset", "PollingFollowReader.Read:s.readBytes+=int64(n)",
   "PollingFollowReader.Read:s.readBytes=0"]

/-- the file handle is replaced only by the `os.Open` of the re-open block (and dropped by `Close`) -/
def pollHandleWrites : List String :=
  ["PollingFollowReader.Close:s.f=nil", "PollingFollowReader.Read:s.f,_=os.Open(s.filename)"]

/-- `openNew`: open the path; size ≥ offset → seek to the offset (resume), else restart at 0 -/
def pollReopenBlock : List String :=
  ["s.f,_=os.Open(s.filename)",
   "ifst.Size()>=s.readBytes{s.f.Seek(s.readBytes,io.SeekStart)}else{s.readBytes=0}"]

/-! #### observation point (b): `syncReaderToBatcherWithTimeFlush` and `TailFilesToChan` -/

/-- `batch` is created with `make`, grows by `append` only, and is re-assigned after a send with a FRESH
    `make` – never re-sliced (`Rare.C15.Batch.flush` allocates a new array) -/
def batchAssigns : List String :=
  ["make([]extractor.BString,0,batchSize)", "append(batch,readahead.Bytes())", "make([]extractor.BString,0,batchSize)"]

/-- the slice header itself travels on the channel, together with the source name and `batchStart` -/
def batchSends : List String :=
  ["s.c<-extractor.InputBatch{Batch:batch,Source:sourceName,BatchStart:batchStart,}",
   "s.c<-extractor.InputBatch{Batch:batch,Source:sourceName,BatchStart:batchStart,}"]

/-- flush when full or when the timer has expired – looked at only when a line has just been appended;
    the remainder is flushed after the loop -/
def batchLoopConds : List String :=
  ["for:readahead.Scan()", "len(batch)>=batchSize||time.Since(lastBatchFlush)>=autoFlush", "len(batch)>0"]

def tailFilesConds : List String := ["err!=nil", "tail", "err!=nil"]

/-- one follow reader per file, drained when `tail`, read by the time-flush loop -/
def tailFilesCalls : List String :=
  ["followreader.New(filename,reopen,poll)", "r.Drain()",
   "out.syncReaderToBatcherWithTimeFlush(filename,r,batchSize,AutoFlushTimeout)"]

/-! #### the wiring: command line → `TailFilesToChan` → `followreader.New` → constructors (`Rare.C15.Wiring`) -/

/-- `New`: `poll` selects the polling reader, `reopen` is handed on unchanged -/
def followNewBody : List String := ["ifpoll{returnNewPolling(filename,reopen)}", "returnNewNotify(filename,reopen)"]

def followNewParams : List String := ["filename", "reopen", "poll"]

/-- `NewNotify(filename, reopen)`: opens `filename`, a failed open is an error unless `reopen`, `ReOpen` is `reopen` -/
def newNotifyWiring : List String :=
  ["param:filename", "param:reopen", "filename:filename", "f:f", "ReOpen:reopen", "call:os.Open(filename)",
   "if:err!=nil&&!reopen", "if:err!=nil", "if:f!=nil"]

/-- `NewPolling(filename, reopen)`: the same, `Reopen` is `reopen`, 5 read attempts 250 ms apart -/
def newPollingWiring : List String :=
  ["param:filename", "param:reopen", "filename:filename", "f:f", "Reopen:reopen", "ReadAttempts:5",
   "PollDelay:250*time.Millisecond", "call:os.Open(filename)", "if:err!=nil&&!reopen"]

def tailFilesParams : List String := ["filenames", "batchSize", "batchBuffer", "reopen", "poll", "tail"]

/-- `TailFilesToChan`: a goroutine that starts ONE goroutine per file name (no channel operation, no
    semaphore between them) and closes the batch channel after `wg.Wait()` (`Rare.C15.Multi`) -/
def tailFilesSkeleton : List String :=
  ["go{", "range:filenames{", "call:wg.Add", "go{", "defer{", "call:out.stopFileReading", "call:wg.Done", "}",
   "call:out.incErrors", "return", "call:out.incErrors", "call:out.startFileReading",
   "call:out.syncReaderToBatcherWithTimeFlush", "}", "}", "call:wg.Wait", "call:out.close", "}", "return"]

def tailFilesBookkeeping : List String :=
  ["newBatcher(batchBuffer)", "wg.Add(1)", "out.stopFileReading(filename)", "wg.Done()", "out.incErrors()",
   "out.incErrors()", "out.startFileReading(filename)", "wg.Wait()", "out.close()"]

/-- `-F` implies following; `--poll` and `--tail` do not -/
def cliFollowVars : List String :=
  ["follow=c.Bool(\"follow\")||c.Bool(\"reopen\")", "followTail=c.Bool(\"tail\")",
   "followReopen=c.Bool(\"reopen\")", "followPoll=c.Bool(\"poll\")"]

def cliFatals : List String :=
  ["followPoll&&!follow=>ExitCodeInvalidUsage", "followTail&&!follow=>ExitCodeInvalidUsage"]

/-- the argument order at the one call site: (reopen, poll, tail) -/
def cliBatcherCalls : List String :=
  ["batchers.TailFilesToChan(dirwalk.GlobExpand(fileglobs,recursive),batchSize,batchBuffer,followReopen,followPoll,followTail)"]

def cliBatcherConds : List String :=
  ["followPoll&&!follow", "followTail&&!follow", "len(fileglobs)==0||fileglobs[0]==\"-\"", "follow", "follow"]

def cliFollowFlags : List String := ["follow:f", "reopen:F", "poll:", "tail:t"]

end Rare.Follow.Expected
