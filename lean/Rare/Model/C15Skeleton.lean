/-!
C15 – the shape of pkg/followreader that the transition systems of `Rare.Model.C15` were written
against (compared in `Rare.Props.C15` with what the translator regenerates from /repo).
-/
namespace Rare.Follow.Expected

/-- the watcher goroutine: Write → eventWrite, Remove → eventDelete, Create → eventWrite, events of
    other names and other kinds (Rename, Chmod) → nothing; tested in this order -/
def watcherSwitch : List (String × String) := [("!ok", "return"),
  ("path.Base(s.filename)!=path.Base(event.Name)", ""),
  ("event.Op&fsnotify.Write!=0", "writeSignalNonBlock(s.eventWrite)"),
  ("event.Op&fsnotify.Remove!=0", "writeSignalNonBlock(s.eventDelete)"),
  ("event.Op&fsnotify.Create!=0", "writeSignalNonBlock(s.eventWrite)")]

def watcherSkeleton : List String := ["defer:watcher.Close", "for{", "recv:watcher.Events", "return", "}"]

/-- `Read` of notify.go: one `for` around (read, then a `select` over exactly the two signal channels) -/
def notifyReadSkeleton : List String :=
  ["return", "for{", "return", "return", "select{", "recv:s.eventWrite", "recv:s.eventDelete", "return", "}", "}"]

def notifyReadConds : List String :=
  ["s.closed", "s.f!=nil", "n>0", "err!=nil&&err!=io.EOF", "s.f==nil&&s.ReOpen", "err==nil", "s.ReOpen"]

def reopenIfReplacedConds : List String :=
  ["s.f!=nil", "err==nil", "err==nil&&os.SameFile(atPath,open)", "err==nil"]

/-- `Read` of poller.go: no channel operation at all; the attempt loop inside the outer loop -/
def pollReadSkeleton : List String := ["return", "for{", "for{", "return", "return", "}", "return", "}"]

def pollReadConds : List String :=
  ["s.closed", "s.f!=nil", "for:i<s.ReadAttempts", "n>0", "err!=nil&&err!=io.EOF", "s.Reopen",
   "st!=nil&&st.Size()!=s.readBytes", "st.Size()>=s.readBytes", "err!=nil"]

end Rare.Follow.Expected
