import Rare.Model.C18
/-!
# C18 – zones as transition tables (round 4)

`Rare/Model/C18.lean` takes the zone as data per instant (`off`, `abbr` supplied by the harness).
Here a zone is an abstract TABLE – the offset/abbreviation before the first transition and a list of
`(instant, offset, abbreviation)` from which on the new offset applies – and the two things Go's
`time` package does with it are mirrored: `Location.lookup(sec)` (the segment in force at an
instant) and the zone resolution at the end of `time.Date(…, loc)` (which instant a wall clock
denotes; what `time.ParseInLocation` uses when the text carries no zone).  The harness feeds the
real transitions of IANA zones (op `zone`), so local-time gaps and overlaps are compared too.
-/
namespace Rare.C18

structure ZoneTab where
  init : Int × Bytes
  trans : List (Int × Int × Bytes)
  deriving Repr

/-- What `Location.lookup` returns: offset, abbreviation, and the bounds of the segment
(`none` = unbounded; Go uses `alpha`/`omega`). -/
structure Seg where
  off : Int
  abbr : Bytes
  start : Option Int
  stop : Option Int
  deriving Repr, DecidableEq

def lookupFrom (off : Int) (abbr : Bytes) (start : Option Int) : List (Int × Int × Bytes) → Int → Seg
  | [], _ => ⟨off, abbr, start, none⟩
  | (t, o, a) :: r, sec => if sec < t then ⟨off, abbr, start, some t⟩ else lookupFrom o a (some t) r sec

/-- `l.lookup(sec)`. -/
def ZoneTab.lookup (z : ZoneTab) (sec : Int) : Seg := lookupFrom z.init.1 z.init.2 none z.trans sec

def geStart (s : Option Int) (u : Int) : Bool := match s with | none => true | some a => decide (a ≤ u)
def ltStop (s : Option Int) (u : Int) : Bool := match s with | none => true | some b => decide (u < b)

/-- `start ≤ u < stop`. -/
def inSeg (s : Seg) (u : Int) : Bool := geStart s.start u && ltStop s.stop u

/-- The end of `time.Date`: `wall` = the wall clock as seconds since the epoch ("unix" before the
zone adjustment).  Go looks the wall clock up as if it were UTC, subtracts that offset, and looks
again when the result left the segment. -/
def dateIn (z : ZoneTab) (wall : Int) : Int :=
  let s := z.lookup wall
  if s.off ≠ 0 then
    let utc := wall - s.off
    if !inSeg s utc then wall - (z.lookup utc).off else utc
  else wall

/-- transitions strictly ascending -/
def sortedTrans : List (Int × Int × Bytes) → Bool
  | [] => true
  | [_] => true
  | (t, _) :: (t', x) :: r => decide (t < t') && sortedTrans ((t', x) :: r)

/-- The wall clock (seconds since the epoch of the local civil time) of an instant in the zone. -/
def ZoneTab.wall (z : ZoneTab) (u : Int) : Int := u + (z.lookup u).off

/-- `{timeattr u attr zone}` / `{timeformat u layout zone}` relative to a table. -/
def timeAttrIn (z : ZoneTab) (name : Bytes) (unix : Int) : Option Bytes := timeAttr name unix (z.lookup unix).off
def timeVIn (z : ZoneTab) (unix : Int) : TimeV := timeVOf unix (z.lookup unix).off (z.lookup unix).abbr

/-- The instant of a parsed time in a zone given as a table; `none`: an abbreviation in the text
(`Location.lookupName`, not modelled here). -/
def instantIn (z : ZoneTab) (p : Parsed) : Option Int :=
  let w := wallSeconds p.dt
  match p.zone with
  | .utc => some w
  | .offset o => some (w - o)
  | .name _ => none
  | .default => some (dateIn z w)

/-! ## round 4c: the stateless stages relative to a table, and ONE compiled stage over a history

`kfTimeAttr` / `kfTimeFormat` build their closure once per compiled expression; a log is then a
HISTORY of evaluations of that one closure.  The closures capture `args`, `tz` and `attrFunc` /
`format` – all bound once, none written (`Gen.C18.stageCaptures`, `stageWrites`) – so the memory of
the stage is `Unit` here.  The machine form makes the claim "the answer depends on the current
argument only" a statement (and the op `zh` runs the real stage on such histories). -/

/-- The closure of `kfTimeAttr`, the zone given as a table: one evaluation. -/
def timeAttrStageIn (z : ZoneTab) (attr arg : Bytes) : Out :=
  match atoi arg with
  | none => .val errorNum
  | some unix =>
    if !yearInRange unix (z.lookup unix).off then .unmodelled "year-range"
    else match timeAttrIn z attr unix with
      | some b => .val b
      | none => .unmodelled "no-such-attr"

/-- The closure of `kfTimeFormat`, the zone given as a table (offset AND abbreviation from the table). -/
def timeFormatStageIn (z : ZoneTab) (layout arg : Bytes) : Out :=
  match atoi arg with
  | none => .val errorNum
  | some unix =>
    if !yearInRange unix (z.lookup unix).off then .unmodelled "year-range"
    else .val (formatLayout layout (timeVIn z unix))

/-- A compiled stage as a machine: `σ` is what the closure can remember between evaluations. -/
structure StageM (σ : Type) where
  step : σ → Bytes → Out × σ

/-- The answers of one compiled stage on a sequence of arguments, in order. -/
def StageM.run {σ : Type} (m : StageM σ) : σ → List Bytes → List Out
  | _, [] => []
  | s, a :: r => (m.step s a).1 :: m.run (m.step s a).2 r

/-- `{timeattr {0} attr zone}` compiled once: nothing to remember. -/
def timeAttrM (z : ZoneTab) (attr : Bytes) : StageM Unit := ⟨fun s a => (timeAttrStageIn z attr a, s)⟩

/-- `{timeformat {0} layout zone}` compiled once. -/
def timeFormatM (z : ZoneTab) (layout : Bytes) : StageM Unit := ⟨fun s a => (timeFormatStageIn z layout a, s)⟩

/-- The first second of the 86400-second window that starts at what the wall clock of `u` shows as
midnight: `u − (h·3600 + m·60 + s)`.  (On a day with a change of offset this is NOT the local day.) -/
def dayWindowStart (z : ZoneTab) (u : Int) : Int := u - localSecs u (z.lookup u).off

/-! ## round 4c: abbreviations in the text (`Location.lookupName`) on the table

`zones` is the zone list of the tzfile (`l.zone`: name and offset of every zone the location ever
used, in file order – the harness reads it from the real `*time.Location`). -/

/-- First loop of `lookupName`: a zone of that name that was in effect at the given time – looked up at
`unix − zone.offset`, and what is returned is the offset `lookup` found there, not the entry's. -/
def lookupNameFirst (z : ZoneTab) (name : Bytes) (unix : Int) : List (Bytes × Int) → Option Int
  | [] => none
  | (zn, zoff) :: rest =>
    if zn = name then
      if (z.lookup (unix - zoff)).abbr = zn then some (z.lookup (unix - zoff)).off
      else lookupNameFirst z name unix rest
    else lookupNameFirst z name unix rest

/-- `l.lookupName(name, unix)`: otherwise "fall back to an ordinary name match", otherwise give up. -/
def lookupNameIn (z : ZoneTab) (zones : List (Bytes × Int)) (name : Bytes) (unix : Int) : Option Int :=
  match lookupNameFirst z name unix zones with
  | some o => some o
  | none => (zones.find? (fun e => e.1 == name)).map (·.2)

/-- The instant of a parsed time in a location given as table + zone list: total.  An abbreviation the
location does not know makes a fabricated zone whose offset is NOT applied (also for `GMT+3`): the
wall clock is read as UTC. -/
def instantInN (z : ZoneTab) (zones : List (Bytes × Int)) (p : Parsed) : Int :=
  let w := wallSeconds p.dt
  match p.zone with
  | .utc => w
  | .offset o => w - o
  | .name n =>
    match lookupNameIn z zones n w with
    | some off => w - off
    | none => w
  | .default => dateIn z w

end Rare.C18
