import Rare.Model.Expr.Funcs.Range
/-!
C17: the two small functions of the anchor files that no helper calls – `expressions.MakeArray`
(pkg/expressions/stage.go; used by the commands to hand several values to an expression as ONE array) and
`Splitter.NextOk` (pkg/stringSplitter/splitter.go).
-/
namespace Rare.C17Extra
open Rare Rare.Expr Rare.Expr.Funcs.Range

/-- The loop of `MakeArray`: `if i > 0 { sb.WriteRune(ArraySeparator) }; sb.WriteString(args[i])`. -/
def makeArrayLoop : List Bytes → Nat → Sb → Sb
  | [], _, sb => sb
  | a :: r, i, sb => makeArrayLoop r (i + 1) ((if i > 0 then sb.write ArraySeparatorString else sb).write a)

/-- `MakeArray(args...)` -/
def makeArray (args : List Bytes) : Bytes := (makeArrayLoop args 0 {}).str

/-- `NextOk()`: `ok = !s.Done(); ret = s.Next()` -/
def nextOk (s : Splitter) : Bytes × Bool × Splitter :=
  let ok := !s.Done
  let r := s.Next
  (r.1, ok, r.2)

/-- `for { v, ok := sp.NextOk(); if !ok { break }; out = append(out, v) }` with a round limit. -/
def drainOk : Nat → Splitter → List Bytes → Option (List Bytes × Splitter)
  | 0, _, _ => none
  | fuel + 1, sp, acc =>
    let r := nextOk sp
    if !r.2.1 then some (acc, r.2.2) else drainOk fuel r.2.2 (acc ++ [r.1])

end Rare.C17Extra
