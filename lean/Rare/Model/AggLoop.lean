import Rare.Base.Bytes
/-!
Transition system of `cmd/helpers/updatingAggregator.go: RunAggregationLoop`.

Processes: the *main* goroutine (receive a match batch, lock, sample every match, unlock; when the
channel is closed and drained: send on the unbuffered `outputDone`, then the final `writeOutput()`),
the *ticker* goroutine (`select` between `outputDone` and the 100ms timer; on the timer: lock,
`writeOutput()`, unlock), the mutex, and the *environment* = the extractor feeding `readChan`
(the batches of `stream` arrive in order at arbitrary moments, then the channel is closed).
`κ` is the type of extracted keys.  Ghost state: `sampled` (the aggregator's sample history),
`renders` (the history of what each completed `writeOutput()` saw).
-/
namespace Rare.AggLoop

inductive Main (κ : Type)
  | loop                       -- in the select of PROCESSING_LOOP
  | wantLock (b : List κ)      -- received a batch, blocked in outputMutex.Lock()
  | sampling (todo : List κ)   -- holds the mutex, inside the range loop
  | sendDone                   -- blocked in `outputDone <- true`
  | finalRender                -- about to run the last writeOutput()
  | finished
  deriving Repr

inductive Ticker
  | idle        -- in its select
  | wantLock    -- timer fired, blocked in Lock()
  | rendering   -- holds the mutex, inside writeOutput()
  | stopped     -- received outputDone and returned
  deriving Repr, DecidableEq

inductive Owner | none | main | ticker
  deriving Repr, DecidableEq

structure St (κ : Type) where
  future : List (List κ)     -- batches the extractor has not yet sent
  rc : List (List κ)         -- readChan contents
  rcClosed : Bool
  main : Main κ
  ticker : Ticker
  mutex : Owner
  sampled : List κ           -- ghost: every key passed to aggregator.Sample so far, in order
  received : List κ          -- ghost: every key of every batch main has taken off the channel
  renders : List (List κ)    -- ghost: `sampled` as seen by each completed writeOutput()
  snap : List κ              -- ghost: `sampled` when the running periodic render started

def init {κ : Type} (stream : List (List κ)) : St κ :=
  { future := stream, rc := [], rcClosed := false, main := .loop, ticker := .idle, mutex := .none,
    sampled := [], received := [], renders := [], snap := [] }

inductive Step {κ : Type} : St κ → St κ → Prop
  | arrive (s : St κ) (b : List κ) (rest : List (List κ)) :
      s.future = b :: rest → Step s { s with future := rest, rc := s.rc ++ [b] }
  | close (s : St κ) :
      s.future = [] → s.rcClosed = false → Step s { s with rcClosed := true }
  | recv (s : St κ) (b : List κ) (rest : List (List κ)) :
      s.main = .loop → s.rc = b :: rest →
      Step s { s with main := .wantLock b, rc := rest, received := s.received ++ b }
  | mlock (s : St κ) (b : List κ) :
      s.main = .wantLock b → s.mutex = .none → Step s { s with main := .sampling b, mutex := .main }
  | sample (s : St κ) (x : κ) (xs : List κ) :
      s.main = .sampling (x :: xs) → Step s { s with main := .sampling xs, sampled := s.sampled ++ [x] }
  | munlock (s : St κ) :
      s.main = .sampling [] → Step s { s with main := .loop, mutex := .none }
  | eof (s : St κ) :
      s.main = .loop → s.rc = [] → s.rcClosed = true → Step s { s with main := .sendDone }
  /-- the unbuffered `outputDone` hand-shake: send and receive happen together -/
  | handshake (s : St κ) :
      s.main = .sendDone → s.ticker = .idle → Step s { s with main := .finalRender, ticker := .stopped }
  | final (s : St κ) :
      s.main = .finalRender → Step s { s with main := .finished, renders := s.renders ++ [s.sampled] }
  | fire (s : St κ) :
      s.ticker = .idle → Step s { s with ticker := .wantLock }
  | tlock (s : St κ) :
      s.ticker = .wantLock → s.mutex = .none →
      Step s { s with ticker := .rendering, mutex := .ticker, snap := s.sampled }
  | tunlock (s : St κ) :
      s.ticker = .rendering →
      Step s { s with ticker := .idle, mutex := .none, renders := s.renders ++ [s.sampled] }

inductive Reach {κ : Type} (s0 : St κ) : St κ → Prop
  | refl : Reach s0 s0
  | step {s s'} : Reach s0 s → Step s s' → Reach s0 s'

def Main.isSampling {κ} : Main κ → Bool
  | .sampling _ => true
  | _ => false

def Main.inHand {κ} : Main κ → List κ
  | .wantLock b => b
  | .sampling t => t
  | _ => []

/-- A step of the ticker goroutine (the only steps that can repeat for ever). -/
def isTickerStep {κ} (s s' : St κ) : Prop := s'.main = s.main ∧ s'.future = s.future ∧ s'.rc = s.rc ∧ s'.rcClosed = s.rcClosed

end Rare.AggLoop
