import Rare.Model.C19
import Rare.Base.F64Str
import Rare.Model.C11Log
import Rare.Model.C19Trig
/-!
IEEE-754 binary64 instance of the C19 arithmetic, over the kernel-checkable software model
`Rare.F64` (bit patterns, exact rationals, one rounding; `Rare/Base/F64.lean`).  This is the
instance the theorems `*_f64` of `Props/C19.lean` talk about and the one the driver evaluates
(bit for bit against Go).  No `Float` here.

Mirrors `pkg/expressions/stdmath/ops.go` operator by operator:

* `+ - * /`                → `F64.add/sub/mul/div` (correctly rounded, IEEE special cases)
* `< <= > >= ==`           → `conditionalOp(l < r)` … : 1.0 or 0.0, IEEE comparisons (NaN: false)
* `&& || !`                → `truthy(v) = (v != 0.0)`, so NaN is *true*
* `% << >> & |`            → `float64(f(int64(l), int64(r)))`; `int64(x)` as compiled for amd64
                             (CVTTSD2SQ: NaN/±Inf/out of range → MinInt64); `%` by zero and a
                             negative shift count → NaN (the repaired code)
* unary `-`, `abs sqrt floor ceil round` → sign bit operations, correctly rounded square root,
                             exact integral roundings (`math.Round` = half away from zero)
* `^` = `math.Pow`: the whole of `pow.go` except a fractional exponent: the special-case `switch`,
                             `Modf`, the huge-exponent shortcut, and for an integral exponent
                             the square-and-multiply loop over `Frexp` parts and the final `Ldexp`
                             (pure IEEE arithmetic, no libm)
* literals                 → `strconv.ParseInt(s, 0, 64)` (the model's `parseIntLit`) then the
                             modelled `strconv.ParseFloat` (`F64.parseFloat`)
* rendering of `{! …}`     → `strconv.FormatFloat(v, 'f', -1, 64)` (`F64.format v (-1)`)

* `log log10 log2`         → `Rare.C11.Log.logAsm / log10 / log2` (round 4b): `math.Log` on amd64 is the
                             straight-line SSE2 routine `log_amd64.s`, mirrored instruction by instruction
                             (subnormal arguments are NOT normalised there: mirrored); `Log10`/`Log2` are
                             pure Go on top of it.  `Props/C19.lean` `log_platform` ties GOARCH and probe
                             values computed by the toolchain to these definitions.

* `sin cos tan asin acos atan` → `Rare.C19.Trig.sin …` (round 4c, `Model/C19Trig.lean`): pure Go on amd64 (Cephes
                             polynomials, Cody-Waite reduction below 2^29, Payne-Hanek above), mirrored operation
                             by operation; `exp2` → `exp2` below (pure Go: reduction, `expmulti`, `Ldexp`).
                             `Props/C19.lean` `trig_platform` ties probe values computed by the toolchain.

What stays a **parameter** (`Libm`): `exp` (`math.Exp` on amd64 is an assembly routine whose instruction sequence
depends on the CPU's FMA support, so it is not a function of the source) and `math.Pow` with a fractional exponent
(`Exp(yf·Log(x))`, the same routine).  `prim L` is the arithmetic for a given behaviour `L` of those; every theorem
holds for all `L`.  `primT` is the same arithmetic over `Option F64` where `none` = "went through
`Libm`" (tainted); `Proofs/C19F64.lean` proves that an untainted answer of `primT` is the answer of
`prim L` for every `L` (`taint_sound`), which is why the driver may evaluate with `primT`.
-/
namespace Rare.C19.IEEE
open Rare Rare.F64

/-- The part of Go's `math` package that is not determined by IEEE-754. -/
structure Libm where
  /-- `math.Sin`, `math.Log`, … by name -/
  fn : Bytes → F64 → F64
  /-- `math.Pow(x, y)` for finite `x > 0`, `x ≠ 1` and finite non-integral `y ≠ ±0.5` -/
  pow : F64 → F64 → F64

/-- Some behaviour of the libm-backed functions, for concrete examples (every theorem is for all `L`). -/
def libm0 : Libm := ⟨fun _ x => x, fun x _ => x⟩

def zeroP : F64 := zero false
/-- `0.5` -/
def half : F64 := ofSM false 4602678819172646912
/-- `float64(1<<53)` -/
def two53 : F64 := ofSM false 4845873199050653696
/-- `float64(1<<63)` -/
def two63 : F64 := ofSM false 4890909195324358656

/-- `conditionalOp` -/
def cond (b : Bool) : F64 := if b then one else zeroP
/-- `truthy`: `val != 0.0` (true for NaN) -/
def truthy (x : F64) : Bool := !F64.eq x zeroP

def ltF (a b : F64) : F64 := cond (lt a b)
def leF (a b : F64) : F64 := cond (le a b)
def eqF (a b : F64) : F64 := cond (F64.eq a b)
def andF (a b : F64) : F64 := cond (truthy a && truthy b)
def orF (a b : F64) : F64 := cond (truthy a || truthy b)
def notF (a : F64) : F64 := cond (!truthy a)

/-- `float64(f(int64(l), int64(r)))`, NaN where the repaired code answers NaN. -/
def intBinF (f : Int → Int → Option Int) (a b : F64) : F64 :=
  match f (toInt64 a) (toInt64 b) with
  | some v => ofInt v
  | none => nan

/-! ### `math.Pow` (pow.go) -/

/-- `isOddInt` -/
def isOddInt (y : F64) : Bool :=
  if le two53 (F64.abs y) then false
  else F64.eq (trunc y) y && decide (toInt64 (trunc y) % 2 = 1)

/-- The leading `switch` of `pow`; `none` = falls through. -/
def powSpecial (x y : F64) : Option F64 :=
  if F64.eq y zeroP || F64.eq x one then some one
  else if F64.eq y one then some x
  else if x.isNaN || y.isNaN then some nan
  else if F64.eq x zeroP then
    if lt y zeroP then (if x.sign && isOddInt y then some (inf true) else some (inf false))
    else (if x.sign && isOddInt y then some x else some zeroP)
  else if y.isInf then
    if F64.eq x (neg one) then some one
    else if lt (F64.abs x) one == !y.sign then some zeroP
    else some (inf false)
  else if x.isInf then
    if x.sign then
      -- `Pow(1/x, -y)` = `Pow(-0, -y)` (`-y` is finite and non-zero here)
      let y' := neg y
      if lt y' zeroP then (if isOddInt y' then some (inf true) else some (inf false))
      else (if isOddInt y' then some (zero true) else some zeroP)
    else if lt y zeroP then some zeroP else some (inf false)
  else if F64.eq y half then some (sqrt x)
  else if F64.eq y (neg half) then some (div one (sqrt x))
  else none

/-- `2^e` as a rational. -/
def pow2Z (e : Int) : Rat :=
  if e ≥ 0 then ((2 ^ e.toNat : Nat) : Rat) else 1 / ((2 ^ (-e).toNat : Nat) : Rat)

/-- `math.Frexp` of a finite non-zero value: `x = frac · 2^exp`, `½ ≤ |frac| < 1` (exact). -/
def frexp (x : F64) : F64 × Int :=
  let sig := magSig x.mag
  let e : Int := (sig.log2 : Int) + 1 + (magScale x.mag : Int) - 1074
  (ofRatS x.sign (x.toRat / pow2Z e), e)

/-- `math.Ldexp(frac, exp)`: `frac · 2^exp` rounded once (Go scales a normalised copy and, in the
    subnormal range, multiplies once by `2^-53`), with the same early exits for under/overflow. -/
def ldexp (fr : F64) (e : Int) : F64 :=
  if fr.isZero || !fr.isFinite then fr
  else
    let top := (frexp fr).2 - 1 + e          -- 2^top ≤ |frac·2^e| < 2^(top+1)
    if top < -1075 then zero fr.sign
    else if top > 1023 then inf fr.sign
    else ofRatS fr.sign (fr.toRat * pow2Z e)

/-- The square-and-multiply loop `for i := int64(yi); i != 0; i >>= 1` (at most 63 rounds). -/
def powLoop : Nat → Int → F64 → Int → F64 → Int → F64 × Int
  | 0, _, _, _, a1, ae => (a1, ae)
  | f + 1, i, x1, xe, a1, ae =>
    if i = 0 then (a1, ae)
    else if xe < -4096 || 4096 < xe then (a1, ae + xe)        -- "catastrophic" exponent: break
    else
      let a1' := if i % 2 = 1 then mul a1 x1 else a1
      let ae' := if i % 2 = 1 then ae + xe else ae
      let x2 := mul x1 x1
      let xe2 := xe * 2
      if lt x2 half then powLoop f (i / 2) (add x2 x2) (xe2 - 1) a1' ae'
      else powLoop f (i / 2) x2 xe2 a1' ae'

/-- `x**yi` for an integral exponent: `yi = |y|` (as int64, `0 < yi < 2^63`), `yneg ⇔ y < 0`. -/
def powInt (x : F64) (yi : Int) (yneg : Bool) : F64 :=
  let fe := frexp x
  let r := powLoop 64 yi fe.1 fe.2 one 0
  if yneg then ldexp (div one r.1) (-r.2) else ldexp r.1 r.2

/-- `math.Pow` as far as IEEE-754 determines it; `none` = fractional exponent (`Exp`/`Log`). -/
def powCore (x y : F64) : Option F64 :=
  match powSpecial x y with
  | some r => some r
  | none =>
    let yi := trunc (F64.abs y)
    let yf := sub (F64.abs y) yi
    if !F64.eq yf zeroP && lt x zeroP then some nan
    else if le two63 yi then
      (if F64.eq x (neg one) then some one
       else if lt (F64.abs x) one == lt zeroP y then some zeroP
       else some (inf false))
    else if !F64.eq yf zeroP then none
    else some (powInt x (toInt64 yi) (lt y zeroP))

/-! ### `math.Exp2` (exp.go: `exp2`, `expmulti`; `haveArchExp2` is false on amd64) -/

def ln2Hi : F64 := ofSM false 0x3fe62e42fee00000
def ln2Lo : F64 := ofSM false 0x3dea39ef35793c76
def two : F64 := ofSM false 0x4000000000000000
/-- `Overflow = 1.0239999999999999e+03`, `Underflow = -1.0740e+03` of `exp2` -/
def exp2Overflow : F64 := ofSM false 0x408fffffffffffff
def exp2Underflow : F64 := ofSM true 0x4090c80000000000
def expP1 : F64 := ofSM false 0x3fc5555555555555
def expP2 : F64 := ofSM true 0x3f66c16c16bebd93
def expP3 : F64 := ofSM false 0x3f11566aaf25de2c
def expP4 : F64 := ofSM true 0x3ebbbd41c5d26bf1
def expP5 : F64 := ofSM false 0x3e66376972bea4d0

/-- The `y` of `expmulti(hi, lo, k)`: `e^r` with `r = hi - lo`. -/
def expY (hi lo : F64) : F64 :=
  let r := sub hi lo
  let t := mul r r
  -- c := r - t*(P1+t*(P2+t*(P3+t*(P4+t*P5))))
  let c := sub r (mul t (add expP1 (mul t (add expP2 (mul t (add expP3 (mul t (add expP4 (mul t expP5)))))))))
  -- y := 1 - ((lo - (r*c)/(2-c)) - hi)
  sub one (sub (sub lo (div (mul r c) (sub two c))) hi)

/-- `expmulti(hi, lo, k)`: `Ldexp(y, k)`. -/
def expmulti (hi lo : F64) (k : Int) : F64 := ldexp (expY hi lo) k

/-- `math.Exp2` -/
def exp2 (x : F64) : F64 :=
  if x.isNaN || (x.isInf && !x.sign) then x
  else if x.isInf then zeroP
  else if lt exp2Overflow x then inf false
  else if lt x exp2Underflow then zeroP
  else
    -- k = int(x + 0.5) / int(x - 0.5): truncation; |x| ≤ 1074 here
    let k : Int := if lt zeroP x then toInt64 (add x half) else if lt x zeroP then toInt64 (sub x half) else 0
    let t := sub x (ofInt k)
    expmulti (mul t ln2Hi) (mul (neg t) ln2Lo) k

/-! ### unary functions -/

/-- The functions of `uniOps` the model computes: those IEEE-754 determines, (round 4c) the six trigonometric
    functions and `exp2` (pure Go on amd64, mirrored in `Model/C19Trig.lean` / above), and (round 4b) the three
    logarithms, which on the platform of the check are fixed sequences of binary64 operations
    (`math.Log` = `log_amd64.s`, mirrored instruction by instruction in `Model/C11Log.lean` – the model of
    property C11's `{ln}`/`{log10}`/`{log2}`, shared here; `math.Log10`, `math.Log2` pure Go on top of it). -/
def exactFn (name : Bytes) : Option (F64 → F64) :=
  if name = [97, 98, 115] then some F64.abs                          -- abs
  else if name = [115, 113, 114, 116] then some sqrt                 -- sqrt
  else if name = [102, 108, 111, 111, 114] then some F64.floor       -- floor
  else if name = [99, 101, 105, 108] then some F64.ceil              -- ceil
  else if name = [114, 111, 117, 110, 100] then some roundHalfAway   -- round
  else if name = [108, 111, 103] then some Rare.C11.Log.logAsm       -- log
  else if name = [108, 111, 103, 49, 48] then some Rare.C11.Log.log10   -- log10
  else if name = [108, 111, 103, 50] then some Rare.C11.Log.log2     -- log2
  else if name = [115, 105, 110] then some Rare.C19.Trig.sin         -- sin
  else if name = [99, 111, 115] then some Rare.C19.Trig.cos          -- cos
  else if name = [116, 97, 110] then some Rare.C19.Trig.tan          -- tan
  else if name = [97, 115, 105, 110] then some Rare.C19.Trig.asin    -- asin
  else if name = [97, 99, 111, 115] then some Rare.C19.Trig.acos     -- acos
  else if name = [97, 116, 97, 110] then some Rare.C19.Trig.atan     -- atan
  else if name = [101, 120, 112, 50] then some exp2                  -- exp2
  else none

/-- `strconv.ParseFloat(s, 64)` on a literal token. -/
def parseLit (s : Bytes) : NumRes F64 :=
  match F64.parseFloat s with
  | some v => .val v
  | none => .notNum

/-! ### the instance -/

def prim (L : Libm) : Prim F64 where
  zero := zeroP
  nan := nan
  inf := inf false
  ofInt := ofInt
  parseFloat := parseLit
  add := add
  sub := sub
  mul := mul
  div := div
  pow := fun x y => (powCore x y).getD (L.pow x y)
  ltF := ltF
  leF := leF
  eqF := eqF
  andF := andF
  orF := orF
  intBin := intBinF
  neg := neg
  notF := notF
  fn := fun name x => match exactFn name with
    | some f => f x
    | none => L.fn name x

/-- The IEEE arithmetic of `{! …}` formulas, for a behaviour `L` of the libm-backed functions. -/
def arith (L : Libm) : Arith F64 := arithOf (prim L)

/-! ### the same arithmetic with a taint bit instead of a `Libm` -/

/-- `none` = the value went through a libm-backed function. -/
abbrev TV := Option F64

def lift2 (f : F64 → F64 → F64) : TV → TV → TV
  | some a, some b => some (f a b)
  | _, _ => none

def primT : Prim TV where
  zero := some zeroP
  nan := some nan
  inf := some (inf false)
  ofInt := fun v => some (ofInt v)
  parseFloat := fun s => match F64.parseFloat s with
    | some v => .val (some v)
    | none => .notNum
  add := lift2 add
  sub := lift2 sub
  mul := lift2 mul
  div := lift2 div
  pow := fun a b => match a, b with
    | some x, some y => powCore x y
    | _, _ => none
  ltF := lift2 ltF
  leF := lift2 leF
  eqF := lift2 eqF
  andF := lift2 andF
  orF := lift2 orF
  intBin := fun f => lift2 (intBinF f)
  neg := Option.map neg
  notF := Option.map notF
  fn := fun name a => match a, exactFn name with
    | some x, some f => some (f x)
    | _, _ => none

def arithT : Arith TV := arithOf primT

/-! ### `kfMath`'s surroundings (funcsMath.go) -/

/-- `keyBuilderContextWrapper.GetMatch/GetKey`: capture text through `strconv.ParseFloat`; the
    value and 1 if the text did not parse (it then reads as 0). -/
def conv (s : Bytes) : F64 × Nat :=
  match F64.parseFloat s with
  | some v => (v, 0)
  | none => (zeroP, 1)

/-- `strconv.FormatFloat(val, 'f', -1, 64)` -/
def render (v : F64) : Bytes := F64.format v (-1)

end Rare.C19.IEEE
