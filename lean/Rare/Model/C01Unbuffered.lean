import Rare.Model.Pipeline
/-!
# C01: the pipeline with an UNBUFFERED batch channel (`--batch-buffer 0`)

`newBatcher(0)` = `make(chan extractor.InputBatch, 0)`: a send `s.c <- batch` completes only together with a
receive `<-inputBatch` of a worker (rendezvous).  The buffered transition system (`Rare.Pipeline.Step`) with
`B = 0` has no send at all, so this case has its own step relation: the hand-over of a batch from an active
source to an idle worker is ONE transition, everything else is a transition of `Step` (with `B = 0`: no buffered
send, and with the channel always empty no buffered receive).
-/
namespace Rare.Pipeline

inductive Step0 {α : Type} (cls : α → Cls) (R K : Nat) : St α → St α → Prop
  /-- `s.c <- batch` of source `i` meets `batch, more := <-inputBatch` of worker `j` -/
  | handoff (s : St α) (i j : Nat) (b : List α) (bs : List (List α)) :
      s.srcs[i]? = some (.active (b :: bs)) → s.workers[j]? = some .idle → s.c = [] →
      Step0 cls R K s { s with srcs := s.srcs.set i (.active bs), workers := s.workers.set j (.busy b []) }
  /-- any transition that is not a buffered send -/
  | other (s s' : St α) : Step cls R 0 K s s' → Step0 cls R K s s'

inductive Reach0 {α : Type} (cls : α → Cls) (R K : Nat) (s0 : St α) : St α → Prop
  | refl : Reach0 cls R K s0 s0
  | step {s s'} : Reach0 cls R K s0 s → Step0 cls R K s s' → Reach0 cls R K s0 s'

end Rare.Pipeline
