import Rare.Base.Bytes
/-!
# Trace inclusion, generic part (used by C01 `PipelineTrace` and C05 `AggLoopTrace`)

The `verif` hooks in /repo (`verifTrace(...)`, pkg/extractor/verif_trace.go) append one event per
transition-point to a process-global, mutex-protected log.  The position of an event in the log is a
global sequence number; every event carries the id of the goroutine that logged it.

## What the log order means (and what it does not)

Logging is not atomic with the action it reports.  Every hook is placed either

* BEFORE its action (`Ev.isBefore`: channel sends `fl fe wd`, `close` calls `cc rc`, semaphore
  release `rl`, `sc` – logged on entry of `stopFileReading`, which the reader's exit block runs before its
  `wg.Done()` –, mutex `Unlock` `mu tr`, the unbuffered `outputDone` send `md`): the action happens after
  the log call returned and before the same goroutine logs its next event; or
* AFTER its action (all other events: receives, `Lock()` returned, semaphore acquired, a line was
  classified and its counters bumped, …): the action happened before the log call and after the same
  goroutine logged its previous event.

So an event at log position `p` whose goroutine's neighbouring events are at positions `p⁻ < p < p⁺`
stands for an action that took place at some moment in the interval `[p, p⁺]` (before-type) or
`[p⁻, p]` (after-type) of "log time".  Two events may therefore appear in the log in the opposite order
of their actions exactly when their intervals overlap (e.g. a worker receives a batch, is descheduled,
and logs `wr` long after the reader logged further sends).  These are the legitimate reorderings, and
there are no others: a schedule `sched` (a list of log positions) is `Admissible` when it is a
permutation of all positions, keeps every goroutine's own events in their logged order, and admits a
non-decreasing assignment of times within the intervals.

## What is checked

`checkSchedule m init tr sched` (trusted, small): `sched` is admissible and replaying the events in that
order through the machine `m` — each event performs exactly the transitions it stands for, atomically —
succeeds from `init` and ends in a final state.  `linearize` (untrusted search; its result is only ever
used through `checkSchedule`) looks for such a schedule: it follows the log order, lets enabled
non-choice events run as early as their interval allows (safe: in the two transition systems only
channel sends can disable anything), postpones channel sends until they are needed or due, and
backtracks over the order of sends into one channel (the only real choice).

`accepts = true` hence means: the real run's log is, up to the reorderings that "log, then act" /
"act, then log" permit, a path of the transition system from `init` to a final state (`accepts_sound`).
What the log cannot see: memory effects between two events of a goroutine, the Go scheduler inside one
step, and the exact moment inside its interval at which an action happened.
-/
namespace Rare.TraceOrder

structure Ev where
  g : Nat            -- goroutine number (order of first appearance in the log)
  kind : String      -- two-letter event code (see harness/corr/c01trace.go)
  src : Nat          -- source index (`noSrc` when the event has none)
  a : Nat
  b : Nat
  key : Bytes        -- `sa` (Sample) events: the sampled key; empty otherwise
  deriving Repr, DecidableEq, Inhabited

def noSrc : Nat := 1000000000

/-- Event kinds whose hook is placed BEFORE the action. -/
def beforeKinds : List String := ["fl", "fe", "rl", "sc", "cc", "wd", "rc", "mu", "md", "tr"]

def Ev.isBefore (e : Ev) : Bool := beforeKinds.contains e.kind

def gAt (tr : Array Ev) (i : Nat) : Nat := match tr[i]? with | some e => e.g | none => 0
def beforeAt (tr : Array Ev) (i : Nat) : Bool := match tr[i]? with | some e => e.isBefore | none => false
def evAt (tr : Array Ev) (i : Nat) : Ev := tr[i]?.getD default

/-- Scan downwards from `j-1` for an event of goroutine `g`; 0 when there is none. -/
def scanDown (tr : Array Ev) (g : Nat) : Nat → Nat
  | 0 => 0
  | j + 1 => if gAt tr j = g then j else scanDown tr g j

/-- Scan upwards from `j` (at most `fuel` positions) for an event of goroutine `g`; `tr.size` when none. -/
def scanUp (tr : Array Ev) (g : Nat) : Nat → Nat → Nat
  | 0, _ => tr.size
  | fuel + 1, j => if j < tr.size ∧ gAt tr j = g then j else scanUp tr g fuel (j + 1)

/-- Log position of the previous event of the same goroutine (0 = "the beginning" when none). -/
def prevPos (tr : Array Ev) (i : Nat) : Nat := scanDown tr (gAt tr i) i
/-- Log position of the next event of the same goroutine (`tr.size` = "the end" when none). -/
def nextPos (tr : Array Ev) (i : Nat) : Nat := scanUp tr (gAt tr i) (tr.size - i) (i + 1)

/-- Earliest / latest log time of the action reported by the event at position `i`. -/
def lo (tr : Array Ev) (i : Nat) : Nat := if beforeAt tr i then i else prevPos tr i
def hi (tr : Array Ev) (i : Nat) : Nat := if beforeAt tr i then nextPos tr i else i

/-- The legitimate reorderings of a log (see the file header). -/
structure Admissible (tr : Array Ev) (sched : List Nat) : Prop where
  perm : sched.Perm (List.range tr.size)
  progOrder : ∀ g, (sched.filter fun i => gAt tr i = g).Pairwise (· < ·)
  timed : ∃ ts : List Nat, ts.length = sched.length ∧ ts.Pairwise (· ≤ ·) ∧
    ∀ p ∈ sched.zip ts, lo tr p.1 ≤ p.2 ∧ p.2 ≤ hi tr p.1

/-! ### Executable admissibility check -/

def sortedLt : List Nat → Bool
  | a :: b :: r => decide (a < b) && sortedLt (b :: r)
  | _ => true

def goroutines (tr : Array Ev) : List Nat := (tr.toList.map (·.g)).eraseDups

def progOrderB (tr : Array Ev) (sched : List Nat) : Bool :=
  (goroutines tr).all fun g => sortedLt (sched.filter fun i => gAt tr i = g)

def greedyTimes (tr : Array Ev) : Nat → List Nat → Option (List Nat)
  | _, [] => some []
  | t, i :: rest =>
    let t' := max t (lo tr i)
    if t' ≤ hi tr i then (greedyTimes tr t' rest).map (t' :: ·) else none

/-- Insertion sort from the right: linear on the nearly sorted schedules that occur, and structural
    (so that small instances of the check can be evaluated by the kernel). -/
def ins (x : Nat) : List Nat → List Nat
  | [] => [x]
  | y :: r => if x ≤ y then x :: y :: r else y :: ins x r

def isort (l : List Nat) : List Nat := l.foldr ins []

def permB (tr : Array Ev) (sched : List Nat) : Bool :=
  isort sched == List.range tr.size

def admissibleB (tr : Array Ev) (sched : List Nat) : Bool :=
  permB tr sched && progOrderB tr sched && (greedyTimes tr 0 sched).isSome

/-! ### Machines, strict replay, the trusted check -/

structure Machine (σ : Type) where
  /-- the transitions event `e` stands for, performed atomically; `none` = not possible in this state -/
  step : σ → Ev → Option σ
  final : σ → Bool

def replay {σ : Type} (m : Machine σ) : σ → List Ev → Option σ
  | s, [] => some s
  | s, e :: r => (m.step s e).bind fun s' => replay m s' r

/-- The trusted check: `sched` is an admissible reordering of the log and a path of the machine from
    `init` to a final state.  Returns that final state. -/
def checkSchedule {σ : Type} (m : Machine σ) (init : σ) (tr : Array Ev) (sched : List Nat) : Option σ :=
  if admissibleB tr sched then
    match replay m init (sched.map (evAt tr)) with
    | some s => if m.final s then some s else none
    | none => none
  else none

/-! ### Untrusted search for a schedule -/

abbrev Queue := List (Nat × Ev)

structure Lin (σ : Type) where
  /-- events whose relative order matters (sends into one channel): postponed and backtracked over -/
  isChoice : Ev → Bool
  /-- preference (smaller first) of a choice candidate; `none` = do not try it in this state -/
  rank : σ → List Queue → Nat × Ev → Option Nat

def loArr (tr : Array Ev) : Array Nat := Array.ofFn (n := tr.size) fun i => lo tr i.val
def hiArr (tr : Array Ev) : Array Nat := Array.ofFn (n := tr.size) fun i => hi tr i.val

/-- Per-goroutine queues of (position, event), goroutines in order of first appearance. -/
def queuesOf (tr : Array Ev) : List Queue :=
  let evs := tr.toList.zipIdx.map fun p => (p.2, p.1)
  (goroutines tr).map fun g => evs.filter fun p => p.2.g = g

def popPos (qs : List Queue) (p : Nat) : List Queue :=
  (qs.map fun q => match q with
    | (p', _) :: r => if p' = p then r else q
    | [] => []).filter (!·.isEmpty)

def insertBy (k : Nat × Nat) (x : Nat × Ev) : List ((Nat × Nat) × (Nat × Ev)) → List ((Nat × Nat) × (Nat × Ev))
  | [] => [(k, x)]
  | (k', y) :: r => if k.1 < k'.1 ∨ (k.1 = k'.1 ∧ k.2 ≤ k'.2) then (k, x) :: (k', y) :: r else (k', y) :: insertBy k x r

structure Found (σ : Type) where
  sched : Option (List Nat)
  budget : Nat
  deepest : Nat        -- the largest number of events scheduled on any branch (diagnostics)
  stuck : List Nat     -- frontier positions at the deepest dead end

def tryAlts {σ : Type} (k : (Nat × Ev) × σ → Nat → Found σ) : List ((Nat × Ev) × σ) → Nat → Nat → List Nat → Found σ
  | [], b, d, st => ⟨none, b, d, st⟩
  | c :: cs, b, d, st =>
    let r := k c b
    match r.sched with
    | some _ => r
    | none =>
      let (d', st') := if r.deepest > d then (r.deepest, r.stuck) else (d, st)
      if r.budget = 0 then ⟨none, 0, d', st'⟩ else tryAlts k cs r.budget d' st'

def search {σ : Type} (m : Machine σ) (L : Lin σ) (los his : Array Nat) :
    Nat → Nat → σ → Nat → List Queue → List Nat → Nat → Found σ
  | 0, b, _, _, _, _, n => ⟨none, b, n, []⟩
  | depth + 1, b, s, t, qs, acc, n =>
    if b = 0 then ⟨none, 0, n, []⟩ else
    let heads := qs.filterMap List.head?
    if heads.isEmpty then ⟨some acc.reverse, b, n, []⟩ else
    let horizon := heads.foldl (fun h p => min h (his.getD p.1 0)) (his.size + 1)
    let ok := heads.filter fun p => max t (los.getD p.1 0) ≤ horizon
    -- enabled non-choice event with the smallest log position
    let best := ok.foldl (fun (acc : Option ((Nat × Ev) × σ)) p =>
      if L.isChoice p.2 then acc else
      match acc with
      | some (q, _) => if q.1 < p.1 then acc else
          match m.step s p.2 with | some s' => some (p, s') | none => acc
      | none => match m.step s p.2 with | some s' => some (p, s') | none => none) none
    match best with
    | some (p, s') => search m L los his depth (b - 1) s' (max t (los.getD p.1 0)) (popPos qs p.1) (p.1 :: acc) (n + 1)
    | none =>
      let cands := ok.foldl (fun (l : List ((Nat × Nat) × (Nat × Ev))) p =>
        if L.isChoice p.2 then
          match L.rank s qs p with
          | some r => insertBy (r, p.1) p l
          | none => l
        else l) []
      let alts := cands.filterMap fun c => (m.step s c.2.2).map fun s' => (c.2, s')
      match alts with
      | [] => ⟨none, b - 1, n, heads.map (·.1)⟩
      | [(p, s')] => search m L los his depth (b - 1) s' (max t (los.getD p.1 0)) (popPos qs p.1) (p.1 :: acc) (n + 1)
      | _ => tryAlts (fun c b' => search m L los his depth b' c.2 (max t (los.getD c.1.1 0)) (popPos qs c.1.1) (c.1.1 :: acc) (n + 1))
               alts (b - 1) n (heads.map (·.1))

def linearize {σ : Type} (m : Machine σ) (L : Lin σ) (init : σ) (tr : Array Ev) : Found σ :=
  search m L (loArr tr) (hiArr tr) (tr.size + 2) (60 * tr.size + 20000) init 0 (queuesOf tr) [] 0

/-- Verdict of the trace check. -/
inductive Verdict (σ : Type)
  | accepted (final : σ) (sched : List Nat)
  | rejected (deepest : Nat) (stuck : List Nat) (exhausted : Bool)

def verdict {σ : Type} (m : Machine σ) (L : Lin σ) (init : σ) (tr : Array Ev) : Verdict σ :=
  let f := linearize m L init tr
  match f.sched with
  | some sched =>
    match checkSchedule m init tr sched with
    | some s => .accepted s sched
    | none => .rejected f.deepest f.stuck false
  | none => .rejected f.deepest f.stuck (f.budget != 0)

def accepts {σ : Type} (m : Machine σ) (L : Lin σ) (init : σ) (tr : Array Ev) : Bool :=
  match verdict m L init tr with
  | .accepted _ _ => true
  | .rejected _ _ _ => false

end Rare.TraceOrder
