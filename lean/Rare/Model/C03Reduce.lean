import Rare.Model.C03
import Rare.Model.C07Acc
/-!
Model of `rare reduce` (`cmd/reduce.go`) on top of the `AccumulatingGroup` model of C07
(`Model/C07Acc.lean`), as of the `fix:` commits 6a022dd (row buffer of `WriteAccumulator` cleared),
f1f38db (equal sort keys ordered by group key) and 73473fc (a key with more parts than group columns).

* `parseKeyValue` (`cmd/expressions.go`), `parseKeyValInitial`: the `[name[:initial]=]expr` syntax of
  `--group` / `--accumulator`;
* `reduceSetup`: the three set-up loops of `reduceFunction` (`AddGroupExpr`, `AddDataExpr`, `SetSort`);
  a returned error is `logger.Fatalf(ExitCodeInvalidUsage, …)` = exit status 2;
* `writeAccumulatorRows`: `csv.WriteAccumulator` with its REUSED row buffer, `reduceCsv` the text;
* `reduceOut`: what the render callback hands to the terminal – the table script (header row, one row per
  group in `Groups(sorter)` order, the summary footer) or the simple `name: value` lines – with the global
  flags `--nocolor --noformat` (colour wrappers are the identity, numbers are plain decimals);
* `reduceExit`: `DetermineErrorState` (an accumulating group never has parse errors).

`compile` is what `funclib.NewKeyBuilder().Compile` answers for a template (`none` = compile errors):
a parameter, so every statement holds for every expression language; the driver supplies the shared
expression model.  Go's map iteration order is the explicit argument `order`; the `sorting.NameSorter`
handed to `Groups` is a comparison `less` (`sorting.ByName` = `bLt` for the CSV export).
-/
namespace Rare.C03
open Rare.C07
open Rare.Expr (Stage)

/-! ### the `[name[:initial]=]expr` syntax -/

/-- `strings.IndexByte(s, c)` (`none` = -1). -/
def indexByte (c : UInt8) : Bytes → Option Nat
  | [] => none
  | b :: r => if b = c then some 0 else (indexByte c r).map (· + 1)

/-- `parseKeyValue(s)`: split at the first `=`; without one both halves are `s`. -/
def parseKeyValue (s : Bytes) : Bytes × Bytes :=
  match indexByte 61 s with
  | none => (s, s)
  | some idx => (s.take idx, s.drop (idx + 1))

/-- `parseKeyValInitial(s, defaultInitial)`: `(key, initial, val)`. -/
def parseKeyValInitial (s defaultInitial : Bytes) : Bytes × Bytes × Bytes :=
  match indexByte 61 s with
  | none => (s, defaultInitial, s)
  | some eqSep =>
    let k := s.take eqSep
    let v := s.drop (eqSep + 1)
    match indexByte 58 k with
    | some initialSep => (k.take initialSep, k.drop (initialSep + 1), v)
    | none => (k, defaultInitial, v)

/-! ### set-up -/

/-- The flags of `rare reduce` that decide the result (`--rows` and `--cols` only cut the rendering). -/
structure ReduceArgs where
  accum : List Bytes := []
  group : List Bytes := []
  initial : Bytes := [48]
  table : Bool := false
  sort : Bytes := []
  sortReverse : Bool := false

/-- `for _, group := range groupExpr { name, val := parseKeyValue(group); AddGroupExpr(name, val) … Fatalf }` -/
def setupGroups (compile : Bytes → Option Stage) : List Bytes → AccGroup → Except Nat AccGroup
  | [], s => .ok s
  | g :: rest, s =>
    let kv := parseKeyValue g
    match s.addGroupExpr kv.1 (compile kv.2) with
    | (_, some _) => .error 2
    | (s', none) => setupGroups compile rest s'

/-- The accumulator loop; the second component is `maxKeylen`. -/
def setupAccums (compile : Bytes → Option Stage) (defaultInitial : Bytes) :
    List Bytes → AccGroup × Nat → Except Nat (AccGroup × Nat)
  | [], st => .ok st
  | e :: rest, (s, maxKeylen) =>
    let kiv := parseKeyValInitial e defaultInitial
    match s.addDataExpr kiv.1 (compile kiv.2.2) kiv.2.1 with
    | (_, some _) => .error 2
    | (s', none) =>
      setupAccums compile defaultInitial rest (s', if kiv.1.length > maxKeylen then kiv.1.length else maxKeylen)

/-- Set-up part of `reduceFunction`: the configured aggregator and `maxKeylen`; `.error 2` = `Fatalf`. -/
def reduceSetup (compile : Bytes → Option Stage) (a : ReduceArgs) : Except Nat (AccGroup × Nat) :=
  match setupGroups compile a.group {} with
  | .error c => .error c
  | .ok s1 =>
    match setupAccums compile a.initial a.accum (s1, 0) with
    | .error c => .error c
    | .ok (s2, maxKeylen) =>
      if a.sort ≠ [] then
        match s2.setSort (compile a.sort) with
        | (_, some _) => .error 2
        | (s3, none) => .ok (s3, maxKeylen)
      else .ok (s2, maxKeylen)

/-! ### `csv.WriteAccumulator` -/

/-- `copy(dst, src)`: the first `min(len dst, len src)` elements are overwritten. -/
def goCopy {α : Type} (dst src : List α) : List α := src.take dst.length ++ dst.drop src.length

/-- The loop `for i := 0; i < GroupColCount; i++ { if i < len(parts) { row[i] = parts[i] } else { row[i] = "" } }`
followed by `copy(row[GroupColCount:], DataNoCopy(group))`, on the REUSED buffer `row`. -/
def accCsvRow (s : AccGroup) (row : List Bytes) (group : Bytes) : List Bytes :=
  let parts := groupKeyParts group
  let row := (List.range s.groupColCount).foldl (fun r i => r.set i (parts.getD i [])) row
  row.take s.groupColCount ++ goCopy (row.drop s.groupColCount) (s.dataNoCopy group)

/-- The records `WriteAccumulator` writes after the header, in order, threading the row buffer. -/
def accCsvRecords (s : AccGroup) : List Bytes → List Bytes → List (List Bytes)
  | [], _ => []
  | g :: rest, row =>
    let row' := accCsvRow s row g
    row' :: accCsvRecords s rest row'

/-- `WriteAccumulator(w, aggr)` given `groups = aggr.Groups(sorting.ByName)`: header (group columns, then
data columns), then one record per group; `row := make([]string, ColCount)`. -/
def writeAccumulatorRows (s : AccGroup) (groups : List Bytes) : List (List Bytes) :=
  (s.groupCols ++ s.dataCols) :: accCsvRecords s groups (List.replicate s.colCount [])

/-- The CSV text of `rare reduce --csv`; `.error` = the sort expression panicked inside `Groups`. -/
def reduceCsv (s : AccGroup) (order : List Bytes) : Except String Bytes :=
  (s.groupsWith bLt order).map fun gs => writeCsv (writeAccumulatorRows s gs)

/-! ### the render callback (`--nocolor --noformat`) -/

/-- Extractor counters a render reads (`MatchedLines`, `ReadLines`, `IgnoredLines`). -/
structure Counters where
  matched : Nat
  read : Nat
  ignored : Nat

def natBytes (n : Nat) : Bytes := itoa (n : Int)

/-- `FWriteExtractorSummary(extractor, errors, parts…)`. -/
def summaryLine (c : Counters) (errors : Nat) (parts : List Bytes) : Bytes :=
  ascii "Matched: " ++ natBytes c.matched ++ ascii " / " ++ natBytes c.read ++
    parts.flatMap (fun p => 32 :: p) ++
    (if c.ignored > 0 then ascii " (Ignored: " ++ natBytes c.ignored ++ ascii ")" else []) ++
    (if errors > 0 then ascii " (Errors: " ++ natBytes errors ++ ascii ")" else [])

/-- One table row: `rowBuf := make([]string, ColCount)`; `for idx, item := range group.Parts() { if idx >=
GroupColCount { break }; rowBuf[idx] = item }`; `copy(rowBuf[GroupColCount:], aggr.Data(group))`. -/
def reduceTableRow (s : AccGroup) (group : Bytes) : List Bytes :=
  let rowBuf : List Bytes := List.replicate s.colCount []
  let rowBuf := (((groupKeyParts group).take s.groupColCount).zipIdx).foldl (fun r p => r.set p.2 p.1) rowBuf
  rowBuf.take s.groupColCount ++ goCopy (rowBuf.drop s.groupColCount) (s.dataOf group)

structure ReduceTable where
  /-- `table.WriteRow(0, …)`: group column names, then data column names -/
  header : List Bytes
  /-- `table.WriteRow(i+1, …)` for the i-th group of `Groups(sorter)` -/
  rows : List (List Bytes)
  /-- `table.WriteFooter(0, …)` (footer 1 is the batcher's byte/rate status, which is not a function of the input) -/
  footer : Bytes
  deriving DecidableEq

inductive ReduceOut
  | table (t : ReduceTable)
  /-- `vt.WriteForLine(idx, …)` lines of the simple output, then the summary line -/
  | simple (lines : List Bytes)
  deriving DecidableEq

/-- The `sorting.NameSorter` handed to `Groups` by the render callback: `ByContextual()` (as the pure
comparison `less` it denotes, see C13 `contextual_partial`), reversed by `--sort-reverse` (`Reverse` = `!less a b`). -/
def reduceSorter (a : ReduceArgs) (less : Bytes → Bytes → Bool) : Bytes → Bytes → Bool :=
  if a.sortReverse then fun x y => !less x y else less

/-- The table branch of the render callback. -/
def reduceTable (s : AccGroup) (sorter : Bytes → Bytes → Bool) (order : List Bytes) (c : Counters) :
    Except String ReduceTable :=
  (s.groupsWith sorter order).map fun gs =>
    { header := s.groupCols ++ s.dataCols,
      rows := gs.map (reduceTableRow s),
      footer := summaryLine c s.parseErrors
        [ascii "(R: " ++ natBytes s.dataCount ++ ascii "; C: " ++ natBytes s.colCount ++ ascii ")"] }

/-- The simple branch: `items := aggr.Data("")`; line `idx` is the column name padded to `maxKeylen`, `": "`, the
value; `strings.Repeat` panics on a negative count. -/
def reduceSimple (s : AccGroup) (maxKeylen : Nat) (c : Counters) : Except String (List Bytes) :=
  let items := s.dataOf []
  let colNames := s.dataCols
  (items.zipIdx.mapM (m := Except String) fun p =>
    match colNames[p.2]? with
    | none => .error "index out of range"
    | some name =>
      if maxKeylen < name.length then .error "strings: negative Repeat count"
      else .ok (name ++ List.replicate (maxKeylen - name.length) 32 ++ ascii ": " ++ p.1)).map
    fun lines => lines ++ [summaryLine c s.parseErrors []]

/-- `if aggr.GroupColCount() > 0 || table { … } else { … }`: the final render. -/
def reduceOut (a : ReduceArgs) (maxKeylen : Nat) (s : AccGroup) (less : Bytes → Bytes → Bool)
    (order : List Bytes) (c : Counters) : Except String ReduceOut :=
  if s.groupColCount > 0 || a.table then (reduceTable s (reduceSorter a less) order c).map .table
  else (reduceSimple s maxKeylen c).map .simple

/-- `DetermineErrorState(batcher, extractor, aggr)`. -/
def reduceExit (readErrors : Int) (s : AccGroup) (c : Counters) : Nat :=
  determineErrorState readErrors false s.parseErrors c.matched

/-! ### the sequential reference -/

/-- Everything `rare reduce` leaves behind for one sample history: the final render, the CSV text (when `--csv`
is given) and the exit status.  `.error` = the process panicked (an expression panicked). -/
structure ReduceRun where
  out : ReduceOut
  csv : Bytes
  exit : Nat
  deriving DecidableEq

def reduceRun (a : ReduceArgs) (maxKeylen : Nat) (s0 : AccGroup) (less : Bytes → Bytes → Bool)
    (samples : List Bytes) (order : AccGroup → List Bytes) (c : Counters) (readErrors : Int) :
    Except String ReduceRun :=
  match s0.run samples with
  | .error m => .error m
  | .ok s =>
    match reduceOut a maxKeylen s less (order s) c with
    | .error m => .error m
    | .ok out =>
      match reduceCsv s (order s) with
      | .error m => .error m
      | .ok csv => .ok { out, csv, exit := reduceExit readErrors s c }

end Rare.C03
