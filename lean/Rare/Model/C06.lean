import Rare.Base.GoInt
import Rare.Spec.C04
import Rare.Model.C01
import Rare.Model.C06Gzip
/-!
Model of how rare turns its command-line arguments into inputs, reads them, counts failures
and decides the exit status (property C06).  Mirrors, branch by branch:

* `pkg/extractor/dirwalk/globExpand.go`  `GlobExpand`, `walkRoot`, `isDir`            → `expandArg`, `planFiles`
* `cmd/helpers/extractorBuilder.go`       `BuildBatcherFromArguments` (no-follow part) → `usageCheck`, `plan`
* `pkg/extractor/batchers/fileBatcher.go` `openFileToReader`, goroutine of `OpenFilesToChan` → `openFileToReader`, `runFile`
* `pkg/extractor/batchers/batcher.go`     `syncReaderToBatcher` (`OnError` ⇒ `incErrors`)     → `runStream`
* `cmd/helpers/exitCodes.go`              `DetermineErrorState`, `main.go` `main`             → `exitCode`

`os.Open`/`Read` and the DEFLATE part of `compress/gzip` are ORACLES: their answers are data handed to the
model (`FileOracle`); whether a file IS gzip for `gzip.NewReader` is decided by the model of its header parser
(`Rare.C06.Gz.readHeader`, `Model/C06Gzip.lean`).  The file system as `GlobExpand` sees it is a parameter here (`FsOracle`: `os.Stat`,
`filepath.Glob`, `filepath.Walk`); `Rare.C06.treeFs` (`Model/C06Tree.lean`) computes it from an abstract
directory tree with the Lean model of path resolution and `path/filepath` (`Model/C06Glob.lean`).  The scanner is represented by its C04 specification `splitLines` (C04 proves the
real scanner meets it for every chunking and fault position, and that `OnError` fires at most once).
-/
namespace Rare.C06

abbrev Path := Bytes

/-! ## Planning: which inputs are opened -/

/-- Answer of `filepath.Glob`. -/
inductive GlobRes
  | badPattern
  | found (l : List Path)
  deriving Repr, DecidableEq

/-- The file-system answers `GlobExpand` depends on. -/
structure FsOracle where
  /-- `isDir(p)`: `os.Stat(p)` succeeds and is a directory (symbolic links followed). -/
  isDir : Path → Bool
  /-- the paths `filepath.Walk(walkRoot(p), …)` reports with `!info.IsDir()`, in walk order. -/
  walk : Path → List Path
  /-- `filepath.Glob(p)`. -/
  glob : Path → GlobRes

/-- One iteration of `for _, p := range paths` in `GlobExpand`: the names sent on the channel. -/
def expandArg (fs : FsOracle) (recursive : Bool) (p : Path) : List Path :=
  if recursive && fs.isDir p then
    fs.walk p
  else
    match fs.glob p with
    | .badPattern => [p]                               -- logged, then read as a literal path
    | .found expanded => if expanded.length > 0 then expanded else [p]

/-- The "Path error" log lines of that iteration. -/
def expandArgBad (fs : FsOracle) (recursive : Bool) (p : Path) : Bool :=
  if recursive && fs.isDir p then false
  else match fs.glob p with
    | .badPattern => true
    | .found _ => false

/-- Everything `GlobExpand(paths, recursive)` sends, in order. -/
def planFiles (fs : FsOracle) (recursive : Bool) (args : List Path) : List Path :=
  args.flatMap (expandArg fs recursive)

inductive Source
  | stdin
  | file (p : Path)
  deriving Repr, DecidableEq

def stdinName : Bytes := ascii "<stdin>"
def dash : Bytes := [45]

def Source.name : Source → Bytes
  | .stdin => stdinName
  | .file p => p

/-- `len(fileglobs) == 0 || fileglobs[0] == "-"` -/
def usesStdin (args : List Path) : Bool :=
  args.length == 0 || args.head? == some dash

/-- The inputs of a (non-follow) run, in the order they are started. -/
def plan (recursive : Bool) (args : List Path) (fs : FsOracle) : List Source :=
  if usesStdin args then [.stdin] else (planFiles fs recursive args).map .file

/-- Usage checks of `BuildBatcherFromArguments` that end the process with `ExitCodeInvalidUsage`
    before anything is read: 1 = batch size, 2 = readers, 3 = `-z` with stdin. -/
def usageCheck (batch readers : Int) (gunzip : Bool) (args : List Path) : Option Nat :=
  if batch < 1 then some 1
  else if readers < 1 then some 2
  else if usesStdin args && gunzip then some 3
  else none

/-! ## Reading one input -/

/-- What `os.Open`, `Read` and `compress/gzip` answer for one path. -/
structure FileOracle where
  /-- `os.Open` succeeds -/
  canOpen : Bool
  /-- the opened file is a directory: every `Read` fails (EISDIR) -/
  isDir : Bool
  /-- the bytes of the file -/
  content : Bytes
  /-- bytes the failed header probe consumed from the file -/
  gzProbed : Nat
  /-- bytes the gzip reader yields … -/
  gzDecoded : Bytes
  /-- … before it ends with an error instead of EOF (truncated, corrupt, bad checksum, trailing garbage) -/
  gzFails : Bool
  deriving Repr

/-- `gzip.NewReader` accepts the header: decided by the model of `readHeader` on the file's bytes -/
def FileOracle.gzHeaderOk (f : FileOracle) : Bool := Gz.headerOk f.content

/-- A missing path. -/
def FileOracle.missing : FileOracle := ⟨false, false, [], 0, [], false⟩

inductive Outcome
  | ok (data : Bytes)
  | openErr
  /-- the reader failed after delivering `data` (`k = data.length` bytes) -/
  | readErr (data : Bytes)
  deriving Repr, DecidableEq

def Outcome.failed : Outcome → Bool
  | .ok _ => false
  | _ => true

/-- The bytes that reach the scanner. -/
def Outcome.delivered : Outcome → Bytes
  | .ok d => d
  | .openErr => []
  | .readErr d => d

/-- The reader `openFileToReader` returns: the file itself at some offset, or a gzip reader over it. -/
inductive Rd
  | plain (pos : Nat)
  | gz
  deriving Repr, DecidableEq

/-- `openFileToReader`; `rewind` = the `baseFile.Seek(0, io.SeekStart)` of the fallback branch
    (`true` in the code; the parameter exists so that `gunzip_fallback` can say what the seek buys).
    Second component: the "Gunzip error … Reading as plain file" line was logged. -/
def openFileToReaderG (rewind : Bool) (f : FileOracle) (gunzip : Bool) : Option (Rd × Bool) :=
  if !f.canOpen then none
  else if gunzip then
    if f.gzHeaderOk then some (.gz, false)
    else
      -- the probe moved the file offset; Seek(0) moves it back
      let pos := if rewind then 0 else f.gzProbed
      some (.plain pos, true)
  else some (.plain 0, false)

def openFileToReader := openFileToReaderG true

/-- The byte stream a reader yields and whether it ends with an error. -/
def streamOf (f : FileOracle) : Rd → Bytes × Bool
  | .plain pos => if f.isDir then ([], true) else (f.content.drop pos, false)
  | .gz => (f.gzDecoded, f.gzFails)

def readOutcomeG (rewind : Bool) (f : FileOracle) (gunzip : Bool) : Outcome :=
  match openFileToReaderG rewind f gunzip with
  | none => .openErr
  | some (rd, _) =>
    let (data, err) := streamOf f rd
    if err then .readErr data else .ok data

def readOutcome := readOutcomeG true

inductive Log
  | pathError (p : Path)        -- "Path error: …; Reading p as a plain path"
  | openError (p : Path)        -- "Error opening file p: …"
  | gunzipFallback (p : Path)   -- "Gunzip error for file p: …; Reading as plain file"
  | readError (p : Path)        -- "Error reading p: …"
  | usage (n : Nat)
  | final (msg : String)        -- main(): the message of the cli.Exit error
  deriving Repr, DecidableEq

/-- What one reader goroutine did. -/
structure SrcRun where
  name : Bytes
  lines : List Bytes     -- lines handed to the batch channel, in order
  errs : Nat             -- calls of `incErrors`
  logs : List Log
  deriving Repr

/-- `syncReaderToBatcher*`: the scanner delivers the lines of everything read before the end /
    the failure; the `OnError` callback (⇒ `incErrors` + log) fires once iff the stream failed. -/
def runStream (name : Bytes) (data : Bytes) (fails : Bool) : SrcRun :=
  { name := name, lines := C04.splitLines data,
    errs := if fails then 1 else 0,
    logs := if fails then [.readError name] else [] }

/-- Body of the goroutine `OpenFilesToChan` starts for one file name. -/
def runFile (gunzip : Bool) (name : Path) (f : FileOracle) : SrcRun :=
  match openFileToReader f gunzip with
  | none => { name := name, lines := [], errs := 1, logs := [.openError name] }
  | some (rd, fellBack) =>
    let (data, err) := streamOf f rd
    let r := runStream name data err
    { r with logs := (if fellBack then [.gunzipFallback name] else []) ++ r.logs }

/-- `OpenReaderToChan("<stdin>", os.Stdin, …)` -/
def runStdin (data : Bytes) (fails : Bool) : SrcRun := runStream stdinName data fails

/-! ## The whole run -/

/-- `DetermineErrorState` followed by `main`'s `os.Exit`: the process exit status.
    `parseErrors = none` when the command has no aggregator (`filter`). -/
def exitCode (readErrors : Nat) (parseErrors : Option Nat) (matchedLines : Nat) : Nat × String :=
  if readErrors > 0 then (2, "Read errors")
  else if parseErrors.isSome && parseErrors.getD 0 > 0 then (2, "Parse errors")
  else if matchedLines = 0 then (1, "")
  else (0, "")

/-- The matcher/expression pair the correspondence runs use (the regex engine is an oracle; these
    are patterns whose leftmost match is obvious). -/
inductive Mode
  | all               -- filter -m '.*'  -e '{src}:{line}:{0}'   : every line matches, {0} = the line
  | hasByte (b : UInt8)  -- filter -m '<b>' -e '{src}:{line}:{0}' : lines containing b, {0} = b
  | histo             -- histo  -m '(.*)' -e k -e '{1}'           : value = the line, must parse as int64
  deriving Repr, DecidableEq

def Mode.matchText (m : Mode) (line : Bytes) : Option Bytes :=
  match m with
  | .all => some line
  | .hasByte b => if line.contains b then some [b] else none
  | .histo => some line

/-- stdout of `filter -e '{src}:{line}:{0}'` for one source. -/
def outLines (m : Mode) (r : SrcRun) : List Bytes :=
  (r.lines.zipIdx 1).filterMap fun p =>
    (m.matchText p.1).map fun t => r.name ++ [58] ++ itoa p.2 ++ [58] ++ t

structure Result where
  exit : Nat
  readErrors : Nat
  readLines : Nat
  matched : Nat
  out : List Bytes       -- stdout lines (multiset; order depends on the schedule)
  logs : List Log
  deriving Repr

structure Config where
  gunzip : Bool
  recursive : Bool
  readers : Int
  batch : Int
  mode : Mode

/-- The run of `rare filter|histo <flags> args…` (no follow mode). -/
def run (cfg : Config) (args : List Path) (fs : FsOracle) (files : Path → FileOracle) (stdin : Bytes)
    (stdinFails : Bool := false) : Result :=
  match usageCheck cfg.batch cfg.readers cfg.gunzip args with
  | some n => { exit := 2, readErrors := 0, readLines := 0, matched := 0, out := [], logs := [.usage n] }
  | none =>
    let pathLogs : List Log :=
      if usesStdin args then []
      else (args.filter (expandArgBad fs cfg.recursive)).map .pathError
    let srcs : List SrcRun := (plan cfg.recursive args fs).map fun
      | .stdin => runStdin stdin stdinFails
      | .file p => runFile cfg.gunzip p (files p)
    let readErrors := (srcs.map (·.errs)).sum
    let out := srcs.flatMap (outLines cfg.mode)
    let allLines := srcs.flatMap (·.lines)
    let matched := (allLines.filter fun l => (cfg.mode.matchText l).isSome).length
    let parseErrors : Option Nat := match cfg.mode with
      | .histo => some (allLines.filter fun l => (atoi l).isNone).length
      | _ => none
    let (code, msg) := exitCode readErrors parseErrors matched
    { exit := code, readErrors := readErrors, readLines := allLines.length, matched := matched,
      out := match cfg.mode with | .histo => [] | _ => out,
      logs := pathLogs ++ srcs.flatMap (·.logs) ++ (if msg = "" then [] else [.final msg]) }

end Rare.C06
