import Rare.Model.C04
import Rare.Model.C01
import Rare.Model.C01Flags
import Rare.Gen.Tables
/-!
# C01: what a reader goroutine hands to its batching loop, and the exit code

The seam between C04 (the scanner `readahead.NewImmediate(reader, ReadAheadBufferSize)`) and the pipeline: a
source is a byte stream *as its reader delivers it* – in chunks of any size, with stalls, with `io.EOF` or another
error at any position (C04's scripted reader) – or a file that could not be opened at all.

    OpenFilesToChan, per file:   file, err := openFileToReader(name, gunzip)
                                 if err != nil { logger.Printf(…); out.incErrors(); return }      -- `opened = false`
                                 out.syncReaderToBatcher(name, file, batchSize)
    syncReaderToBatcher[WithTimeFlush]:
                                 readahead := readahead.NewImmediate(readerMetrics, ReadAheadBufferSize)
                                 readahead.OnError(func(e error) { s.incErrors(); logger.Printf(…) })
                                 for readahead.Scan() { batch = append(batch, readahead.Bytes()) … }

`scanSrc` = the tokens of that `Scan()` loop (C04's `Imm.scanAll` with the buffer size regenerated from /repo), the
number of `incErrors()` calls and the bytes the reader delivered.  A directory given as a file is a source whose
first `Read` fails (`EISDIR`): `⟨true, [], [⟨0, some .fail⟩]⟩`.

`determineErrorState` mirrors `cmd/helpers/exitCodes.go` `DetermineErrorState(b, e, agg)`: the exit code of every
extractor command, computed from `Batcher.ReadErrors()`, the aggregator's parse errors (absent for `filter`) and
`Extractor.MatchedLines()`.
-/
namespace Rare.C01
open Rare

/-- one source as its reader sees it -/
structure SrcIn where
  opened : Bool := true          -- `false`: `os.Open` failed
  data : Bytes                   -- the byte stream behind the reader
  script : List C04.Step := []   -- per `Read` call: how many bytes at most, which error alongside
  deriving Repr

structure SrcOut where
  tokens : List Bytes            -- `readahead.Bytes()` of every successful `Scan()`, in order
  errs : Nat                     -- `incErrors()` calls of this source's goroutine
  delivered : Bytes              -- every byte a `Read` returned
  deriving Repr

def scanSrc (s : SrcIn) : SrcOut :=
  if !s.opened then ⟨[], 1, []⟩
  else
    let fuel := s.data.length + s.script.length + 3
    let r := C04.Imm.scanAll fuel fuel (C04.Imm.init Rare.Gen.readAheadBufferSize ⟨s.data, s.script⟩)
    ⟨r.1.map (·.2), r.2.2.errs, r.2.2.delivered⟩

/-- the lines source number `i` hands to its batching loop, numbered as the loop numbers them (`batchStart` from 1) -/
def scannedLines (i : Nat) (s : SrcIn) : List Line :=
  ((scanSrc s).tokens.zipIdx 1).map fun p => ⟨i, p.2, p.1⟩

/-- the bytes of source `s` that reached the program -/
def deliveredOf (s : SrcIn) : Bytes := (scanSrc s).delivered

/-- `Batcher.ReadErrors()` once every reader goroutine has returned -/
def readErrors (srcs : List SrcIn) : Nat := (srcs.map fun s => (scanSrc s).errs).sum

/-- the inputs of the pipeline transition system when every source is read through the real scanner: per source the
    batches its batching loop cuts (`Batcher.run`, any batch size, any flush-timer behaviour) from the scanned lines -/
def scannedInputs (batchSize : Nat) (srcs : List SrcIn) (timer : Nat → Nat → Bool) : List (List (List Line)) :=
  (srcs.zipIdx 0).map fun p =>
    (Batcher.run batchSize ((scannedLines p.2 p.1).map fun l => (l, timer p.2 l.num))).map (·.lines)

/-! ### `DetermineErrorState` -/

/-- the guards of `DetermineErrorState` in source order: (condition, message, exit-code constant) -/
def exitGuards : List (String × String × String) :=
  [("b.ReadErrors()>0", "Read errors", "ExitCodeInvalidUsage"),
   ("agg!=nil&&agg.ParseErrors()>0", "Parse errors", "ExitCodeInvalidUsage"),
   ("e.MatchedLines()==0", "", "ExitCodeNoData")]

/-- the value of a guard condition; `parseErrors = none` is `agg == nil` (`rare filter`) -/
def exitCond (readErrors : Nat) (parseErrors : Option Nat) (matched : Nat) (c : String) : Option Bool :=
  if c = "b.ReadErrors()>0" then some (decide (readErrors > 0))
  else if c = "agg!=nil&&agg.ParseErrors()>0" then some (match parseErrors with | none => false | some p => decide (p > 0))
  else if c = "e.MatchedLines()==0" then some (decide (matched = 0))
  else none

/-- the first guard that fires decides: `some (message, code)` = `cli.Exit(message, code)`, `none` = `nil` (exit 0) -/
def runExitGuards (readErrors : Nat) (parseErrors : Option Nat) (matched : Nat) :
    List (String × String × String) → Option (String × Int)
  | [] => none
  | (c, msg, code) :: rest =>
    match exitCond readErrors parseErrors matched c with
    | none => some ("unmodelled guard " ++ c, -1)
    | some true => some (msg, exitCodeOf code)
    | some false => runExitGuards readErrors parseErrors matched rest

def determineErrorState (readErrors : Nat) (parseErrors : Option Nat) (matched : Nat) : Option (String × Int) :=
  runExitGuards readErrors parseErrors matched exitGuards

/-- the process exit code -/
def exitCode (readErrors : Nat) (parseErrors : Option Nat) (matched : Nat) : Int :=
  match determineErrorState readErrors parseErrors matched with
  | none => 0
  | some (_, c) => c

end Rare.C01
