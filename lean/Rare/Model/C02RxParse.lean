import Rare.Model.C02Rx
/-!
Parser for the fragment of Go's regexp syntax that `Model/C02Rx` gives a meaning to, in both of the
wrapper's modes: Perl (`regexp.Compile`: `syntax.Perl` = `ClassNL | OneLine | PerlX | UnicodeGroups`) and
POSIX (`regexp.CompilePOSIX`: no flag at all – no `(?…)` groups, no lazy operators, no `\d \w \s \b \A \z`,
`^` `$` are line-wise, a negated class does not contain the line feed).  Counted repetition `{n}` `{n,}`
`{n,m}` is unfolded the way `syntax.Simplify` does and limited as `repeatIsValid` does (`need`).
Everything else (flags other than a leading `(?i)`, POSIX classes, non-ASCII, `*` `+` `{n,}` over bodies that
can match the empty text, doubled repetition operators, a `{` that is not a repetition, …) is refused
(`none` → the driver answers `unmodelled`).  The parser is compared with the real engine by the `rx` cases.

Group numbering is Go's: every capturing `(` takes the next number in the order of the opening
parentheses, named or not; `(?:` does not count.
-/
namespace Rare.C02.Rx

structure PSt where
  ng : Nat := 0
  /-- names of groups `1 … ng`, most recent first (`[]` = unnamed) -/
  names : List Bytes := []
  /-- synthesized: the smallest `n` for which `repeatIsValid(e, n)` holds, `e` = the expression just parsed -/
  need : Nat := 0

abbrev PR := Option (Re × Bytes × PSt)

def digitR : List (UInt8 × UInt8) := [(48, 57)]
def wordR : List (UInt8 × UInt8) := [(48, 57), (65, 90), (95, 95), (97, 122)]
def spaceR : List (UInt8 × UInt8) := [(9, 10), (12, 13), (32, 32)]

/-- `(?i)`: a range also matches the other case of its letters -/
def foldRange (r : UInt8 × UInt8) : List (UInt8 × UInt8) :=
  let lo := if r.1 ≤ 97 then 97 else r.1
  let hi := if r.2 ≤ 122 then r.2 else 122
  let lo2 := if r.1 ≤ 65 then 65 else r.1
  let hi2 := if r.2 ≤ 90 then r.2 else 90
  r :: (if lo ≤ hi then [(lo - 32, hi - 32)] else []) ++ (if lo2 ≤ hi2 then [(lo2 + 32, hi2 + 32)] else [])

def mkCls (fold neg : Bool) (rs : List (UInt8 × UInt8)) : Re :=
  .cls neg (if fold then rs.flatMap foldRange else rs)

def isPunct (b : UInt8) : Bool :=
  b < 0x80 && b > 0x20 && b != 0x7f && !((48 ≤ b && b ≤ 57) || (65 ≤ b && b ≤ 90) || (97 ≤ b && b ≤ 122))

/-- `\x` outside and inside a class: a perl class or one literal byte -/
def escape (perl : Bool) (b : UInt8) : Option (Bool × List (UInt8 × UInt8)) :=
  if b = 0x64 then (if perl then some (false, digitR) else none)        -- \d   (PerlX only)
  else if b = 0x44 then (if perl then some (true, digitR) else none)    -- \D
  else if b = 0x77 then (if perl then some (false, wordR) else none)    -- \w
  else if b = 0x57 then (if perl then some (true, wordR) else none)     -- \W
  else if b = 0x73 then (if perl then some (false, spaceR) else none)   -- \s
  else if b = 0x53 then (if perl then some (true, spaceR) else none)    -- \S
  else if b = 0x6e then some (false, [(10, 10)])  -- \n
  else if b = 0x74 then some (false, [(9, 9)])    -- \t
  else if b = 0x72 then some (false, [(13, 13)])  -- \r
  else if b = 0x66 then some (false, [(12, 12)])  -- \f
  else if isPunct b then some (false, [(b, b)])
  else none

/-- one literal end point inside a class -/
def clsChar (perl : Bool) : Bytes → Option (UInt8 × Bytes)
  | 0x5c :: b :: rest =>
    match escape perl b with
    | some (false, [(x, y)]) => if x = y then some (x, rest) else none
    | _ => none
  | b :: rest => if b < 0x80 && b != 0x5b && b != 0x5d && b != 0x5c then some (b, rest) else none
  | [] => none

/-- the items of a class up to the closing `]`; fuel = remaining length -/
def clsItems (perl : Bool) : Nat → Bytes → List (UInt8 × UInt8) → Option (List (UInt8 × UInt8) × Bytes)
  | 0, _, _ => none
  | f + 1, inp, acc =>
    match inp with
    | [] => none
    | 0x5d :: rest => if acc.isEmpty then none else some (acc.reverse, rest)
    | 0x5c :: b :: rest =>
      match escape perl b with
      | some (false, [(x, y)]) =>
        if x = y then
          -- a literal: possibly the start of a range
          match rest with
          | 0x2d :: 0x5d :: _ => clsItems perl f rest ((x, x) :: acc)
          | 0x2d :: rest' =>
            match clsChar perl rest' with
            | some (hi, rest'') => if x ≤ hi then clsItems perl f rest'' ((x, hi) :: acc) else none
            | none => none
          | _ => clsItems perl f rest ((x, x) :: acc)
        else clsItems perl f rest ((x, y) :: acc)
      | some (false, rs) => clsItems perl f rest (rs.reverse ++ acc)
      | _ => none
    | b :: rest =>
      if b ≥ 0x80 || b = 0x5b then none
      else
        match rest with
        | 0x2d :: 0x5d :: _ => clsItems perl f rest ((b, b) :: acc)
        | 0x2d :: rest' =>
          if b = 0x2d then none else
          match clsChar perl rest' with
          | some (hi, rest'') => if b ≤ hi then clsItems perl f rest'' ((b, hi) :: acc) else none
          | none => none
        | _ => clsItems perl f rest ((b, b) :: acc)

def isRepOp (b : UInt8) : Bool := b = 0x2a || b = 0x2b || b = 0x3f

/-- group name: `[A-Za-z0-9_]+` up to `>` -/
def takeName : Bytes → Bytes → Option (Bytes × Bytes)
  | 0x3e :: rest, acc => if acc.isEmpty then none else some (acc.reverse, rest)
  | b :: rest, acc =>
    if (48 ≤ b && b ≤ 57) || (65 ≤ b && b ≤ 90) || (97 ≤ b && b ≤ 122) || b = 95 then takeName rest (b :: acc) else none
  | [], _ => none

def catS (a b : Re) : Re :=
  match b with
  | .eps => a
  | _ => .cat a b

/-- decimal number as `parseInt` reads it: no leading zero, at most 4 digits here (`> 1000` is refused anyway) -/
def takeNum : Bytes → Option (Nat × Bytes)
  | inp =>
    let ds := inp.takeWhile fun b => 48 ≤ b && b ≤ 57
    if ds.isEmpty || ds.length > 4 || (ds.length ≥ 2 && ds.head? = some 48) then none
    else some (ds.foldl (fun acc d => acc * 10 + (d.toNat - 48)) 0, inp.drop ds.length)

/-- `{n}` `{n,}` `{n,m}` after the `{` (`parseRepeat` + the size checks of the parse loop) -/
def takeRepeat (inp : Bytes) : Option (Nat × Option Nat × Bytes) :=
  match takeNum inp with
  | none => none
  | some (n, rest) =>
    if n > 1000 then none else
    match rest with
    | 0x7d :: r => some (n, some n, r)
    | 0x2c :: 0x7d :: r => some (n, none, r)
    | 0x2c :: r =>
      match takeNum r with
      | some (m, 0x7d :: r2) => if m > 1000 || m < n then none else some (n, some m, r2)
      | _ => none
    | _ => none

/-- `repeatIsValid`: the smallest budget a repetition with these bounds over a body needing `sub` needs -/
def repeatNeed (min : Nat) (max : Option Nat) (sub : Nat) : Nat :=
  match max with
  | some 0 => 0
  | _ =>
    let m := max.getD min
    if m = 0 then sub else Nat.max m (m * sub)

/-- postfix operators after an atom (`need` = the atom's); a second operator is refused (an error in Perl
mode, a repetition of a repetition in POSIX mode) -/
def postOp (perl : Bool) (a : Re) (need : Nat) (inp : Bytes) : Option (Re × Bytes × Nat) :=
  match inp with
  | op :: rest =>
    if isRepOp op || op = 0x7b then
      let bounds : Option (Nat × Option Nat × Bytes) :=
        if op = 0x7b then takeRepeat rest
        else if op = 0x3f then some (0, some 1, rest)
        else if op = 0x2a then some (0, none, rest)
        else some (1, none, rest)
      match bounds with
      | none => none
      | some (min, max, rest) =>
        let (lazy, rest) := match rest with
          | 0x3f :: r => if perl then (true, r) else (false, rest)
          | _ => (false, rest)
        let doubled := match rest with
          | b :: _ => isRepOp b || b = 0x7b
          | [] => false
        let nd := repeatNeed min max need
        if doubled then none
        else if max.isNone && nullable a then none
        else if nd > 1000 then none
        else some (repeatRe (!lazy) a min max, rest, nd)
    else some (a, inp, need)
  | [] => some (a, inp, need)

mutual
def pAlt : Nat → Bool → Bool → Bytes → PSt → PR
  | 0, _, _, _, _ => none
  | f + 1, perl, fold, inp, st =>
    match pCat f perl fold inp st with
    | none => none
    | some (a, rest, st) =>
      match rest with
      | 0x7c :: rest' =>
        match pAlt f perl fold rest' st with
        | some (b, r2, st2) => some (.alt a b, r2, { st2 with need := Nat.max st.need st2.need })
        | none => none
      | _ => some (a, rest, st)

def pCat : Nat → Bool → Bool → Bytes → PSt → PR
  | 0, _, _, _, _ => none
  | f + 1, perl, fold, inp, st =>
    match inp with
    | [] => some (.eps, [], { st with need := 0 })
    | 0x7c :: _ => some (.eps, inp, { st with need := 0 })
    | 0x29 :: _ => some (.eps, inp, { st with need := 0 })
    | _ =>
      match pAtom f perl fold inp st with
      | none => none
      | some (a, rest, st) =>
        match postOp perl a st.need rest with
        | none => none
        | some (a, rest, nd) =>
          match pCat f perl fold rest st with
          | none => none
          | some (b, r2, st2) => some (catS a b, r2, { st2 with need := Nat.max nd st2.need })

def pAtom : Nat → Bool → Bool → Bytes → PSt → PR
  | 0, _, _, _, _ => none
  | f + 1, perl, fold, inp, st =>
    match inp with
    | [] => none
    | 0x28 :: 0x3f :: rest =>
      if !perl then none else                    -- POSIX mode has no `(?`
      match rest with
      | 0x3a :: rest =>                          -- (?:
        match pAlt f perl fold rest st with
        | some (a, 0x29 :: r2, st2) => some (a, r2, st2)
        | _ => none
      | _ =>                                     -- (?P<name> / (?<name>
        let rest := match rest with
          | 0x50 :: r => r
          | _ => rest
        match rest with
        | 0x3c :: rest =>
          match takeName rest [] with
          | some (name, rest) =>
            if st.names.contains name then none else
            let n := st.ng + 1
            match pAlt f perl fold rest { st with ng := n, names := name :: st.names } with
            | some (a, 0x29 :: r2, st2) => some (.grp n a, r2, st2)
            | _ => none
          | none => none
        | _ => none
    | 0x28 :: rest =>
      let n := st.ng + 1
      match pAlt f perl fold rest { st with ng := n, names := [] :: st.names } with
      | some (a, 0x29 :: r2, st2) => some (.grp n a, r2, st2)
      | _ => none
    | 0x5b :: 0x5e :: rest =>
      match clsItems perl (rest.length + 1) rest [] with
      -- without `ClassNL` (POSIX mode) the line feed is added before the negation
      | some (rs, r2) => some (mkCls fold true (if perl then rs else (10, 10) :: rs), r2, { st with need := 0 })
      | none => none
    | 0x5b :: rest =>
      match clsItems perl (rest.length + 1) rest [] with
      | some (rs, r2) => some (mkCls fold false rs, r2, { st with need := 0 })
      | none => none
    | 0x2e :: rest => some (.cls true [(10, 10)], rest, { st with need := 0 })
    | 0x5e :: rest => some (.look (if perl then .bot else .bol), rest, { st with need := 0 })
    | 0x24 :: rest => some (.look (if perl then .eot else .eol), rest, { st with need := 0 })
    | 0x5c :: b :: rest =>
      let lk : Option Look :=
        if !perl then none
        else if b = 0x41 then some .bot          -- \A
        else if b = 0x7a then some .eot          -- \z
        else if b = 0x62 then some .wb           -- \b
        else if b = 0x42 then some .nwb          -- \B
        else none
      match lk with
      | some k => some (.look k, rest, { st with need := 0 })
      | none =>
        match escape perl b with
        | some (neg, rs) => some (mkCls fold neg rs, rest, { st with need := 0 })
        | none => none
    | b :: rest =>
      if b ≥ 0x80 || isRepOp b || b = 0x7b || b = 0x7d || b = 0x5d || b = 0x29 || b = 0x7c || b = 0x5c then none
      else some (mkCls fold false [(b, b)], rest, { st with need := 0 })
end

structure Parsed where
  re : Re
  ng : Nat
  /-- `regexp.SubexpNames()`: entry 0 is the whole match (empty name) -/
  subexpNames : List Bytes

/-- the literal `(?i)` -/
def icFlag : Bytes := [0x28, 0x3f, 0x69, 0x29]

/-- `posix = false`: `regexp.Compile`; `posix = true`: `regexp.CompilePOSIX` -/
def parseEx (posix : Bool) (pat : Bytes) : Option Parsed :=
  let (fold, body) := if !posix && icFlag.isPrefixOf pat then (true, pat.drop 4) else (false, pat)
  match pAlt (4 * body.length + 8) (!posix) fold body {} with
  | some (r, [], st) => some ⟨r, st.ng, [] :: st.names.reverse⟩
  | _ => none

def parse (pat : Bytes) : Option Parsed := parseEx false pat

end Rare.C02.Rx
